import MirProofs.Lemmas.IntervalsMerge
import Mathlib.Tactic.FieldSimp
import Mathlib.Tactic.Ring

/-! Lemmas about `chord.weighted_accuracy` and refinement invariance (C12). -/
namespace Mir.Iv

variable {L M T : Type}

/-! ### `qsum` -/

theorem qsum_append (a b : List Rat) : qsum (a ++ b) = qsum a + qsum b := by
  induction a with
  | nil => simp [qsum]
  | cons x r ih => simp only [List.cons_append, qsum, ih]; ring

theorem qsum_map_mul_left {α : Type} (c : Rat) (f : α → Rat) (l : List α) :
    qsum (l.map fun a => c * f a) = c * qsum (l.map f) := by
  induction l with
  | nil => simp [qsum]
  | cons x r ih => simp only [List.map_cons, qsum, ih]; ring

theorem qsum_map_div {α : Type} (f : α → Rat) (d : Rat) (l : List α) :
    qsum (l.map fun a => f a / d) = qsum (l.map f) / d := by
  induction l with
  | nil => simp [qsum]
  | cons x r ih => simp only [List.map_cons, qsum, ih]; ring

theorem qsum_nonneg {l : List Rat} (h : ∀ v ∈ l, 0 ≤ v) : 0 ≤ qsum l := by
  induction l with
  | nil => simp [qsum]
  | cons x r ih =>
    simp only [qsum]
    have := ih (fun v hv => h v (List.mem_cons_of_mem _ hv))
    have := h x List.mem_cons_self
    linarith

/-! ### `weighted_accuracy` in closed form -/

/-- the comparable (comparison ≥ 0) entries with their weights -/
def validPairs (cs ws : List Rat) : List (Rat × Rat) := (cs.zip ws).filter fun p => decide (0 ≤ p.1)

/-- total comparable weight -/
def vTotal (cs ws : List Rat) : Rat := qsum ((validPairs cs ws).map fun p => p.2)
/-- weighted sum of the comparable comparisons -/
def vNum (cs ws : List Rat) : Rat := qsum ((validPairs cs ws).map fun p => p.1 * p.2)

theorem wacc_eq (cs ws : List Rat) :
    wacc cs ws =
      if cs.length ≠ ws.length then .error .valueError
      else if ws.any (fun w => decide (w < 0)) = true then .error .valueError
      else if qsum ws = 0 then .ok (.val 0)
      else if validPairs cs ws = [] then .ok (.val 0)
      else if vTotal cs ws = 0 then .ok .nan
      else .ok (.val (vNum cs ws / vTotal cs ws)) := by
  unfold wacc
  split
  · rfl
  · split
    · rfl
    · split
      · rfl
      · simp only [List.length_eq_zero_iff]
        change (if validPairs cs ws = [] then _ else _) = _
        split
        · rfl
        · change (if vTotal cs ws = 0 then _ else _) = _
          split
          · rfl
          · congr 2
            unfold vNum
            rw [← qsum_map_div]
            congr 1
            apply List.map_congr_left
            intro p _
            change p.1 * (p.2 / vTotal cs ws) = p.1 * p.2 / vTotal cs ws
            ring

/-- **weighted mean**: with well-formed arguments and positive comparable weight, the score is
    `Σ cᵢ wᵢ / Σ wᵢ` over the comparable entries -/
theorem wacc_weighted_mean {cs ws : List Rat} (hlen : cs.length = ws.length) (hw : ∀ w ∈ ws, 0 ≤ w)
    (htot : vTotal cs ws ≠ 0) : wacc cs ws = .ok (.val (vNum cs ws / vTotal cs ws)) := by
  rw [wacc_eq]
  have h1 : ¬ cs.length ≠ ws.length := by simp [hlen]
  have h2 : ¬ ws.any (fun w => decide (w < 0)) = true := by
    simp only [List.any_eq_true, decide_eq_true_eq, not_exists, not_and, not_lt]
    exact hw
  have hv : validPairs cs ws ≠ [] := by
    intro h; apply htot; simp [vTotal, h, qsum]
  have h3 : qsum ws ≠ 0 := by
    intro h0
    apply htot
    -- all weights are ≥ 0 and sum to 0, so every valid weight is 0
    have hall : ∀ ws' : List Rat, (∀ w ∈ ws', 0 ≤ w) → qsum ws' = 0 → ∀ w ∈ ws', w = 0 := by
      intro ws' hnn
      induction ws' with
      | nil => intro _ w hw'; cases hw'
      | cons a r ih =>
        intro hs w hw'
        simp only [qsum] at hs
        have ha := hnn a List.mem_cons_self
        have hr := qsum_nonneg (fun v hv => hnn v (List.mem_cons_of_mem _ hv))
        rcases List.mem_cons.1 hw' with rfl | hw'
        · linarith
        · exact ih (fun v hv => hnn v (List.mem_cons_of_mem _ hv)) (by linarith) w hw'
    have hz := hall ws hw h0
    unfold vTotal
    have : ∀ p ∈ validPairs cs ws, p.2 = 0 := by
      intro p hp
      have := (List.mem_filter.1 hp).1
      exact hz _ (List.of_mem_zip this).2
    have hmap : (validPairs cs ws).map (fun p => p.2) = (validPairs cs ws).map (fun _ => (0 : Rat)) :=
      List.map_congr_left this
    rw [hmap]
    generalize validPairs cs ws = l
    induction l with
    | nil => rfl
    | cons a r ih => simp only [List.map_cons, qsum, ih]; ring
  rw [if_neg h1, if_neg h2, if_neg h3, if_neg hv, if_neg htot]

/-! ### rescaling the weights -/

theorem validPairs_cons (c w : Rat) (cs ws : List Rat) :
    validPairs (c :: cs) (w :: ws) = if 0 ≤ c then (c, w) :: validPairs cs ws else validPairs cs ws := by
  unfold validPairs
  simp only [List.zip_cons_cons, List.filter_cons, decide_eq_true_eq]

theorem validPairs_map_right (f : Rat → Rat) (cs ws : List Rat) :
    validPairs cs (ws.map f) = (validPairs cs ws).map fun p => (p.1, f p.2) := by
  induction cs generalizing ws with
  | nil => simp [validPairs]
  | cons c cs ih =>
    cases ws with
    | nil => simp [validPairs]
    | cons w ws =>
      rw [List.map_cons, validPairs_cons, validPairs_cons, ih]
      split <;> simp

theorem wacc_scale_aux (cs ws : List Rat) (c : Rat) (hc : 0 < c) :
    wacc cs (ws.map fun w => c * w) = wacc cs ws := by
  rw [wacc_eq, wacc_eq]
  have hlen : (ws.map fun w => c * w).length = ws.length := List.length_map _
  have hany : (ws.map fun w => c * w).any (fun w => decide (w < 0)) = ws.any (fun w => decide (w < 0)) := by
    rw [List.any_map]
    congr 1
    funext w
    simp only [Function.comp]
    congr 1
    apply propext
    constructor
    · intro h; by_contra h'; have := mul_nonneg (le_of_lt hc) (not_lt.1 h'); linarith
    · intro h; exact mul_neg_of_pos_of_neg hc h
  have hq : qsum (ws.map fun w => c * w) = c * qsum ws := by
    have := qsum_map_mul_left c (fun w : Rat => w) ws
    simpa using this
  have hV : validPairs cs (ws.map fun w => c * w) = (validPairs cs ws).map fun p => (p.1, c * p.2) :=
    validPairs_map_right _ _ _
  have hT : vTotal cs (ws.map fun w => c * w) = c * vTotal cs ws := by
    unfold vTotal
    rw [hV, List.map_map]
    exact qsum_map_mul_left c (fun p : Rat × Rat => p.2) _
  have hN : vNum cs (ws.map fun w => c * w) = c * vNum cs ws := by
    unfold vNum
    rw [hV, List.map_map]
    have := qsum_map_mul_left c (fun p : Rat × Rat => p.1 * p.2) (validPairs cs ws)
    rw [← this]
    congr 1
    apply List.map_congr_left
    intro p _
    simp only [Function.comp]
    ring
  have hne : c ≠ 0 := ne_of_gt hc
  rw [hlen, hany, hq, hT, hN, hV]
  have e1 : (c * qsum ws = 0) ↔ (qsum ws = 0) := by simp [hne]
  have e2 : (c * vTotal cs ws = 0) ↔ (vTotal cs ws = 0) := by simp [hne]
  have e3 : ((validPairs cs ws).map (fun p => (p.1, c * p.2)) = []) ↔ (validPairs cs ws = []) := by simp
  simp only [e1, e2, e3]
  have e4 : c * vNum cs ws / (c * vTotal cs ws) = vNum cs ws / vTotal cs ws := by
    rw [mul_div_mul_left _ _ hne]
  rw [e4]

/-! ### splitting one weighted entry in two -/

theorem validPairs_append {c₁ w₁ : List Rat} (hl : c₁.length = w₁.length) (c₂ w₂ : List Rat) :
    validPairs (c₁ ++ c₂) (w₁ ++ w₂) = validPairs c₁ w₁ ++ validPairs c₂ w₂ := by
  unfold validPairs
  rw [List.zip_append hl, List.filter_append]

theorem wacc_split_aux (c₁ c₂ w₁ w₂ : List Rat) (c d1 d2 : Rat) (hl : c₁.length = w₁.length)
    (h1 : 0 ≤ d1) (h2 : 0 ≤ d2) :
    wacc (c₁ ++ c :: c :: c₂) (w₁ ++ d1 :: d2 :: w₂) = wacc (c₁ ++ c :: c₂) (w₁ ++ (d1 + d2) :: w₂) := by
  rw [wacc_eq, wacc_eq]
  have e1 : ((c₁ ++ c :: c :: c₂).length ≠ (w₁ ++ d1 :: d2 :: w₂).length) ↔
      ((c₁ ++ c :: c₂).length ≠ (w₁ ++ (d1 + d2) :: w₂).length) := by
    simp only [List.length_append, List.length_cons]; omega
  have e2 : (w₁ ++ d1 :: d2 :: w₂).any (fun w => decide (w < 0)) =
      (w₁ ++ (d1 + d2) :: w₂).any (fun w => decide (w < 0)) := by
    have a1 : ¬ d1 < 0 := not_lt.2 h1
    have a2 : ¬ d2 < 0 := not_lt.2 h2
    have a3 : ¬ d1 + d2 < 0 := not_lt.2 (add_nonneg h1 h2)
    simp [List.any_append, a1, a2, a3]
  have e3 : qsum (w₁ ++ d1 :: d2 :: w₂) = qsum (w₁ ++ (d1 + d2) :: w₂) := by
    simp only [qsum_append, qsum]; ring
  have eV : validPairs (c₁ ++ c :: c :: c₂) (w₁ ++ d1 :: d2 :: w₂) =
      validPairs c₁ w₁ ++ (if 0 ≤ c then (c, d1) :: (c, d2) :: validPairs c₂ w₂ else validPairs c₂ w₂) := by
    rw [validPairs_append hl, validPairs_cons, validPairs_cons]
    split <;> rfl
  have eV' : validPairs (c₁ ++ c :: c₂) (w₁ ++ (d1 + d2) :: w₂) =
      validPairs c₁ w₁ ++ (if 0 ≤ c then (c, d1 + d2) :: validPairs c₂ w₂ else validPairs c₂ w₂) := by
    rw [validPairs_append hl, validPairs_cons]
  have e4 : (validPairs (c₁ ++ c :: c :: c₂) (w₁ ++ d1 :: d2 :: w₂) = []) ↔
      (validPairs (c₁ ++ c :: c₂) (w₁ ++ (d1 + d2) :: w₂) = []) := by
    rw [eV, eV']
    split <;> simp
  have e5 : vTotal (c₁ ++ c :: c :: c₂) (w₁ ++ d1 :: d2 :: w₂) =
      vTotal (c₁ ++ c :: c₂) (w₁ ++ (d1 + d2) :: w₂) := by
    unfold vTotal
    rw [eV, eV']
    split
    · simp only [List.map_append, List.map_cons, qsum_append, qsum]; ring
    · rfl
  have e6 : vNum (c₁ ++ c :: c :: c₂) (w₁ ++ d1 :: d2 :: w₂) =
      vNum (c₁ ++ c :: c₂) (w₁ ++ (d1 + d2) :: w₂) := by
    unfold vNum
    rw [eV, eV']
    split
    · simp only [List.map_append, List.map_cons, qsum_append, qsum]; ring
    · rfl
  simp only [e1, e2, e3, e4, e5, e6]

/-! ### inserting one boundary into a partition -/

/-- weighted accuracy of a step function `g` over the partition `bs` -/
def W (g : Rat → Rat) (bs : List Rat) : Py Num :=
  wacc ((pairs bs).map fun pq => g pq.1) ((pairs bs).map fun pq => pq.2 - pq.1)

theorem insertU_of_mem {r : Rat} {bs : List Rat} (hs : SSorted bs) (h : r ∈ bs) : insertU r bs = bs :=
  sorted_ext (insertU_sorted hs) hs (fun v => by rw [mem_insertU]; constructor
                                                 · rintro (rfl | h') <;> assumption
                                                 · exact Or.inr)

theorem insertU_cons_gt {r b : Rat} (tl : List Rat) (h : b < r) : insertU r (b :: tl) = b :: insertU r tl := by
  simp [insertU, not_lt.2 (le_of_lt h), ne_of_gt h]

theorem pairs_insertU {bs : List Rat} (hs : SSorted bs) {p q r : Rat} (hpq : (p, q) ∈ pairs bs)
    (h1 : p < r) (h2 : r < q) :
    ∃ pre post, pairs bs = pre ++ (p, q) :: post ∧ pairs (insertU r bs) = pre ++ (p, r) :: (r, q) :: post := by
  induction bs with
  | nil => cases hpq
  | cons a tl ih =>
    cases tl with
    | nil => cases hpq
    | cons b tl' =>
      have p1 := List.pairwise_cons.1 hs
      rw [pairs_cons_cons] at hpq
      rcases List.mem_cons.1 hpq with heq | hmem
      · cases heq
        refine ⟨[], pairs (q :: tl'), rfl, ?_⟩
        rw [insertU_cons_gt _ h1]
        have : insertU r (q :: tl') = r :: q :: tl' := by simp [insertU, h2]
        rw [this]; rfl
      · have hpb : b ≤ p := sorted_head_le p1.2 (mem_pairs hmem).1
        have hab : a < b := p1.1 b List.mem_cons_self
        obtain ⟨pre, post, e1, e2⟩ := ih p1.2 hmem
        refine ⟨(a, b) :: pre, post, by rw [pairs_cons_cons, e1]; rfl, ?_⟩
        rw [insertU_cons_gt _ (by linarith), insertU_cons_gt _ (by linarith)]
        rw [insertU_cons_gt _ (by linarith)] at e2
        rw [pairs_cons_cons, e2]; rfl

theorem W_insert {g : Rat → Rat} {bs : List Rat} (hs : SSorted bs) {p q r : Rat} (hpq : (p, q) ∈ pairs bs)
    (h1 : p < r) (h2 : r < q) (hg : g r = g p) : W g (insertU r bs) = W g bs := by
  obtain ⟨pre, post, e1, e2⟩ := pairs_insertU hs hpq h1 h2
  unfold W
  rw [e1, e2]
  simp only [List.map_append, List.map_cons]
  have : q - p = (r - p) + (q - r) := by ring
  rw [this, hg]
  exact wacc_split_aux _ _ _ _ _ _ _ (by simp) (by linarith) (by linarith)

theorem exists_bracket {bs : List Rat} (hs : SSorted bs) {h z r : Rat} (hh : bs.head? = some h)
    (hz : bs.getLast? = some z) (h1 : h < r) (h2 : r < z) (hr : r ∉ bs) :
    ∃ p q, (p, q) ∈ pairs bs ∧ p < r ∧ r < q := by
  induction bs generalizing h with
  | nil => cases hh
  | cons a tl ih =>
    simp at hh; subst hh
    cases tl with
    | nil => simp at hz; subst hz; linarith
    | cons b tl' =>
      have p1 := List.pairwise_cons.1 hs
      rw [List.getLast?_cons_cons] at hz
      by_cases hrb : r < b
      · exact ⟨a, b, by rw [pairs_cons_cons]; exact List.mem_cons_self, h1, hrb⟩
      · have hne : r ≠ b := fun h => hr (by rw [h]; simp)
        have hbr : b < r := lt_of_le_of_ne (not_lt.1 hrb) (Ne.symm hne)
        obtain ⟨p, q, hm, hp, hq⟩ := ih p1.2 rfl hz hbr (fun hm => hr (List.mem_cons_of_mem _ hm))
        exact ⟨p, q, by rw [pairs_cons_cons]; exact List.mem_cons_of_mem _ hm, hp, hq⟩

/-! ### the chord score as a step-function score over the merged partition -/

/-- comparison value carried by instant `t` (0 where either annotation is silent; never used there) -/
def cmpAt (cmp : L → M → Rat) (x : LI L) (y : LI M) (t : Rat) : Rat :=
  match labelAt x t, labelAt y t with
  | some a, some b => cmp a b
  | _, _ => 0

theorem durations_contig {lo : Rat} {xs : LI L} (hc : Contig lo xs) (h0 : 0 ≤ lo) :
    intervalsToDurations (ivals xs) = .ok ((ivals xs).map fun p => p.2 - p.1) := by
  unfold intervalsToDurations validateIntervals
  have hlb := hc.chain.lb
  have h1 : (ivals xs).any (fun x => decide (x.1 < 0) || decide (x.2 < 0)) = false := by
    rw [List.any_eq_false]
    intro p hp
    obtain ⟨row, hrow, rfl⟩ := List.mem_map.1 hp
    have := hlb row hrow
    simp only [Bool.or_eq_true, decide_eq_true_eq, not_or, not_lt]
    exact ⟨by linarith [this.1], by linarith [this.1, this.2]⟩
  have h2 : (ivals xs).any (fun x => decide (x.2 ≤ x.1)) = false := by
    rw [List.any_eq_false]
    intro p hp
    obtain ⟨row, hrow, rfl⟩ := List.mem_map.1 hp
    have := hlb row hrow
    simp only [decide_eq_true_eq, not_le]
    exact this.2
  simp only [h1, h2, Bool.false_eq_true, if_false, Except.map]
  congr 1
  apply List.map_congr_left
  intro p hp
  obtain ⟨row, hrow, rfl⟩ := List.mem_map.1 hp
  have := hlb row hrow
  unfold qabs
  rw [if_neg (by simp only [not_lt]; linarith [this.2])]

theorem chordScore_eq_W (cmp : L → M → Rat) {lo hi : Rat} {x : LI L} {y : LI M} (hx : Contig lo x)
    (hy : Contig lo y) {zx : Rat × Rat × L} {zy : Rat × Rat × M} (hzx : x.getLast? = some zx)
    (hzy : y.getLast? = some zy) (hxe : zx.2.1 = hi) (hye : zy.2.1 = hi) (h0 : 0 ≤ lo) :
    chordScore cmp x y = W (cmpAt cmp x y) (usort (entries x ++ entries y)) := by
  obtain ⟨out, hout, hiv, hco, hlab, _⟩ := mergeLabeled_refines hx hy hzx hzy hxe hye
  have hd := durations_contig hco h0
  unfold chordScore W
  rw [hout]
  change (intervalsToDurations (ivals out) >>= fun durs => wacc _ durs) = _
  rw [hd]
  change wacc (out.map fun r => cmp r.2.2.1 r.2.2.2) ((ivals out).map fun p => p.2 - p.1) = _
  rw [← hiv]
  congr 1
  unfold ivals
  rw [List.map_map]
  apply List.map_congr_left
  intro row hrow
  have hpos := (hco.chain.lb row hrow).2
  obtain ⟨e1, e2⟩ := hlab row hrow row.1 (le_refl _) hpos
  simp only [Function.comp, cmpAt, e1, e2]

/-- adding one boundary `r` strictly inside the span, without changing what either annotation says at any
    instant, does not change the score -/
theorem chordScore_insert (cmp : L → M → Rat) {lo hi r : Rat} {x x' : LI L} {y y' : LI M}
    (hx : Contig lo x) (hy : Contig lo y) (hx' : Contig lo x') (hy' : Contig lo y')
    {zx zx' : Rat × Rat × L} {zy zy' : Rat × Rat × M}
    (hzx : x.getLast? = some zx) (hzy : y.getLast? = some zy)
    (hzx' : x'.getLast? = some zx') (hzy' : y'.getLast? = some zy')
    (hxe : zx.2.1 = hi) (hye : zy.2.1 = hi) (hxe' : zx'.2.1 = hi) (hye' : zy'.2.1 = hi) (h0 : 0 ≤ lo)
    (hlx : ∀ t, labelAt x' t = labelAt x t) (hly : ∀ t, labelAt y' t = labelAt y t)
    (hmem : ∀ v, v ∈ entries x' ++ entries y' ↔ v = r ∨ v ∈ entries x ++ entries y)
    (hr1 : lo < r) (hr2 : r < hi) :
    chordScore cmp x' y' = chordScore cmp x y := by
  rw [chordScore_eq_W cmp hx hy hzx hzy hxe hye h0, chordScore_eq_W cmp hx' hy' hzx' hzy' hxe' hye' h0]
  have hg : cmpAt cmp x' y' = cmpAt cmp x y := by
    funext t; simp only [cmpAt, hlx, hly]
  rw [hg]
  have hbs' : usort (entries x' ++ entries y') = insertU r (usort (entries x ++ entries y)) := by
    rw [insertU_usort]
    apply usort_congr
    intro v; rw [hmem]; simp
  rw [hbs']
  have hs := usort_sorted (entries x ++ entries y)
  by_cases hin : r ∈ usort (entries x ++ entries y)
  · rw [insertU_of_mem hs hin]
  · obtain ⟨out, _, hiv, hco, hlab, _⟩ := mergeLabeled_refines hx hy hzx hzy hxe hye
    -- head and last of the partition
    cases x with
    | nil => cases hzx
    | cons x0 rx =>
    have hx0 : lo = x0.1 := hx.1
    have hbx := entries_bounds hx hzx hxe
    have hby := entries_bounds hy hzy hye
    have hb : ∀ v ∈ usort (entries (x0 :: rx) ++ entries y), lo ≤ v ∧ v ≤ hi := by
      intro v hv
      rw [mem_usort, List.mem_append] at hv
      rcases hv with hv | hv
      · exact hbx v hv
      · exact hby v hv
    have hlo_mem : lo ∈ usort (entries (x0 :: rx) ++ entries y) := by
      rw [mem_usort, List.mem_append]; left; rw [hx0]; simp [entries]
    have hhi_mem : hi ∈ usort (entries (x0 :: rx) ++ entries y) := by
      rw [mem_usort, List.mem_append]; left
      exact mem_entries.2 ⟨zx, List.mem_of_getLast? hzx, Or.inr hxe.symm⟩
    cases hbs : usort (entries (x0 :: rx) ++ entries y) with
    | nil => rw [hbs] at hlo_mem; cases hlo_mem
    | cons h tl =>
      rw [hbs] at hs hin hb hlo_mem hhi_mem hiv
      have hh : h = lo := le_antisymm (sorted_head_le hs hlo_mem) (hb h (by simp)).1
      obtain ⟨z, hz⟩ : ∃ z, (h :: tl).getLast? = some z := by
        cases hl : (h :: tl).getLast? with
        | none => simp at hl
        | some z => exact ⟨z, rfl⟩
      have hzhi : z = hi := le_antisymm (hb z (List.mem_of_getLast? hz)).2 (sorted_le_last hs hz hi hhi_mem)
      obtain ⟨p, q, hpq, hp, hq⟩ :=
        exists_bracket hs rfl hz (by rw [hh]; exact hr1) (by rw [hzhi]; exact hr2) hin
      apply W_insert hs hpq hp hq
      -- the step function does not change between p and r
      have : (p, q) ∈ ivals out := by rw [hiv]; exact hpq
      obtain ⟨row, hrow, hrow'⟩ := List.mem_map.1 this
      simp only [Prod.mk.injEq] at hrow'
      obtain ⟨a1, a2⟩ := hlab row hrow p (by rw [hrow'.1]) (by rw [hrow'.2]; linarith)
      obtain ⟨b1, b2⟩ := hlab row hrow r (by rw [hrow'.1]; linarith) (by rw [hrow'.2]; exact hq)
      simp only [cmpAt, a1, a2, b1, b2]

/-! ### cutting one interval at an interior point -/

theorem entries_append (a b : LI L) : entries (a ++ b) = entries a ++ entries b := by
  induction a with
  | nil => rfl
  | cons x r ih => simp only [List.cons_append, entries, ih]

theorem mem_entries_split {x₁ x₂ : LI L} {s r e : Rat} {l : L} {v : Rat} :
    v ∈ entries (x₁ ++ (s, r, l) :: (r, e, l) :: x₂) ↔ v = r ∨ v ∈ entries (x₁ ++ (s, e, l) :: x₂) := by
  simp only [entries_append, entries, List.mem_append, List.mem_cons]
  tauto

theorem labelAt_split (x₁ x₂ : LI L) {s r e : Rat} (l : L) (h1 : s ≤ r) (h2 : r ≤ e) (t : Rat) :
    labelAt (x₁ ++ (s, r, l) :: (r, e, l) :: x₂) t = labelAt (x₁ ++ (s, e, l) :: x₂) t := by
  rw [labelAt_append, labelAt_append]
  congr 1
  simp only [labelAt_cons]
  cases labelAt x₂ t with
  | some l' => rfl
  | none =>
    simp only
    by_cases c1 : r ≤ t ∧ t < e
    · have : s ≤ t ∧ t < e := ⟨by linarith [c1.1], c1.2⟩
      simp [c1, this]
    · by_cases c2 : s ≤ t ∧ t < r
      · have : s ≤ t ∧ t < e := ⟨c2.1, by linarith [c2.2]⟩
        by_cases h : r ≤ t <;> simp [h, c2, this]
      · have : ¬ (s ≤ t ∧ t < e) := by
          intro hh; by_cases h : t < r
          · exact c2 ⟨hh.1, h⟩
          · exact c1 ⟨not_lt.1 h, hh.2⟩
        simp [c1, c2, this]

theorem labelAtC_append (xs ys : LI L) (t : Rat) :
    labelAtC (xs ++ ys) t = match labelAtC ys t with
      | some l => some l
      | none => labelAtC xs t := by
  induction xs with
  | nil => simp [labelAtC]; cases labelAtC ys t <;> rfl
  | cons x r ih =>
    simp only [List.cons_append, labelAtC, ih]
    cases labelAtC ys t <;> rfl

theorem labelAtC_split (x₁ x₂ : LI L) {s r e : Rat} (l : L) (h1 : s ≤ r) (h2 : r ≤ e) (t : Rat) :
    labelAtC (x₁ ++ (s, r, l) :: (r, e, l) :: x₂) t = labelAtC (x₁ ++ (s, e, l) :: x₂) t := by
  rw [labelAtC_append, labelAtC_append]
  congr 1
  simp only [labelAtC]
  cases labelAtC x₂ t with
  | some l' => rfl
  | none =>
    simp only
    by_cases c1 : r ≤ t ∧ t ≤ e
    · have : s ≤ t ∧ t ≤ e := ⟨by linarith [c1.1], c1.2⟩
      simp [c1, this]
    · by_cases c2 : s ≤ t ∧ t ≤ r
      · have : s ≤ t ∧ t ≤ e := ⟨c2.1, by linarith [c2.2]⟩
        by_cases h : r ≤ t <;> simp [h, c2, this]
      · have : ¬ (s ≤ t ∧ t ≤ e) := by
          intro hh; by_cases h : t ≤ r
          · exact c2 ⟨hh.1, h⟩
          · exact c1 ⟨le_of_lt (not_le.1 h), hh.2⟩
        simp [c1, c2, this]

theorem contig_split {lo : Rat} {x₁ x₂ : LI L} {s r e : Rat} {l : L} (h : Contig lo (x₁ ++ (s, e, l) :: x₂))
    (h1 : s < r) (h2 : r < e) : Contig lo (x₁ ++ (s, r, l) :: (r, e, l) :: x₂) := by
  induction x₁ generalizing lo with
  | nil => exact ⟨h.1, h1, rfl, h2, h.2.2⟩
  | cons a x₁' ih => exact ⟨h.1, h.2.1, ih h.2.2⟩

theorem contig_mid {lo : Rat} {x₁ x₂ : LI L} {s e : Rat} {l : L} (h : Contig lo (x₁ ++ (s, e, l) :: x₂)) :
    lo ≤ s := by
  have := h.chain.lb (s, e, l) (by simp)
  exact this.1

theorem getLast?_split (x₁ x₂ : LI L) (s r e : Rat) (l : L) {z : Rat × Rat × L}
    (hz : (x₁ ++ (s, e, l) :: x₂).getLast? = some z) :
    ∃ z', (x₁ ++ (s, r, l) :: (r, e, l) :: x₂).getLast? = some z' ∧ z'.2.1 = z.2.1 := by
  rw [getLast?_append_ne _ _ (by simp)] at hz
  rw [getLast?_append_ne _ _ (by simp)]
  cases x₂ with
  | nil =>
    simp at hz; subst hz
    exact ⟨(r, e, l), by simp, rfl⟩
  | cons w x₂' =>
    rw [List.getLast?_cons_cons] at hz
    exact ⟨z, by rw [List.getLast?_cons_cons, List.getLast?_cons_cons]; exact hz, rfl⟩

theorem mergeChordAux_split [DecidableEq L] (pre x₂ : LI L) (s r e : Rat) (l prev : L) (cs ce : Rat) :
    mergeChordAux prev cs ce (pre ++ (s, r, l) :: (r, e, l) :: x₂) =
      mergeChordAux prev cs ce (pre ++ (s, e, l) :: x₂) := by
  induction pre generalizing prev cs ce with
  | nil =>
    simp only [List.nil_append, mergeChordAux]
    by_cases h : l = prev
    · simp [h]
    · simp [h]
  | cons a pre' ih =>
    simp only [List.cons_append, mergeChordAux]
    split
    · exact ih _ _ _
    · rw [ih]

theorem mergeChord_split [DecidableEq L] (x₁ x₂ : LI L) (s r e : Rat) (l : L) :
    mergeChord (x₁ ++ (s, r, l) :: (r, e, l) :: x₂) = mergeChord (x₁ ++ (s, e, l) :: x₂) := by
  cases x₁ with
  | nil => simp [mergeChord, mergeChordAux]
  | cons a x₁' => exact mergeChordAux_split _ _ _ _ _ _ _ _ _

theorem maxL_entries_split {x₁ x₂ : LI L} {s r e : Rat} {l : L} (h1 : s ≤ r) (h2 : r ≤ e) :
    maxL (entries (x₁ ++ (s, r, l) :: (r, e, l) :: x₂)) = maxL (entries (x₁ ++ (s, e, l) :: x₂)) := by
  obtain ⟨m, hm⟩ := maxL_ne_none (l := entries (x₁ ++ (s, e, l) :: x₂))
    (entries_ne_nil (by simp))
  have hsp := maxL_spec hm
  rw [hm]
  apply maxL_eq
  · exact mem_entries_split.2 (Or.inr hsp.1)
  · intro v hv
    rcases mem_entries_split.1 hv with rfl | hv
    · have : e ∈ entries (x₁ ++ (s, e, l) :: x₂) := by simp [entries_append, entries]
      exact le_trans h2 (hsp.2 e this)
    · exact hsp.2 v hv

theorem intervalsToSamples_split (x₁ x₂ : LI L) {s r e : Rat} (l : L) (h1 : s ≤ r) (h2 : r ≤ e)
    (offset size : Rat) (fill : L) :
    intervalsToSamples (x₁ ++ (s, r, l) :: (r, e, l) :: x₂) offset size fill =
      intervalsToSamples (x₁ ++ (s, e, l) :: x₂) offset size fill := by
  unfold intervalsToSamples
  rw [maxL_entries_split h1 h2]
  cases maxL (entries (x₁ ++ (s, e, l) :: x₂)) with
  | none => rfl
  | some m =>
    simp only
    split
    · rfl
    · rw [interpolate_eq, interpolate_eq]
      simp only [labelAtC_split x₁ x₂ l h1 h2]

end Mir.Iv
