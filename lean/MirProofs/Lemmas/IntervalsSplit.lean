import MirProofs.Lemmas.IntervalsScore

/-!
  Splitting one row of an annotation at a (weakly) interior point, for ARBITRARY annotations (no
  contiguity, no ordering unless said): `lastStarted`, `merge_labeled_intervals` + the weighted score
  (`chordScore`), `adjust_intervals`, and the whole `chord.evaluate` pipeline on tokens (C12).
-/
namespace Mir.Iv

variable {L M T : Type}

/-! ### `lastStarted` -/

theorem lastStarted_append (xs ys : LI L) (t : Rat) :
    lastStarted (xs ++ ys) t = match lastStarted ys t with
      | some l => some l
      | none => lastStarted xs t := by
  induction xs with
  | nil => simp [lastStarted]; cases lastStarted ys t <;> rfl
  | cons x r ih =>
    simp only [List.cons_append, lastStarted, ih]
    cases lastStarted ys t <;> rfl

/-- cutting a row in two at `r ≥ s` does not change which row has started last at any instant -/
theorem lastStarted_split (x₁ x₂ : LI L) {s r : Rat} (e : Rat) (l : L) (h1 : s ≤ r) (t : Rat) :
    lastStarted (x₁ ++ (s, r, l) :: (r, e, l) :: x₂) t = lastStarted (x₁ ++ (s, e, l) :: x₂) t := by
  rw [lastStarted_append, lastStarted_append]
  congr 1
  simp only [lastStarted]
  cases lastStarted x₂ t with
  | some l' => rfl
  | none =>
    simp only
    by_cases c1 : r ≤ t
    · have : s ≤ t := le_trans h1 c1
      simp [c1, this]
    · simp [c1]

/-- `lastStarted` only looks at which rows have started -/
theorem lastStarted_congr {xs : LI L} {p r : Rat} (h : ∀ x ∈ xs, (x.1 ≤ p ↔ x.1 ≤ r)) :
    lastStarted xs p = lastStarted xs r := by
  induction xs with
  | nil => rfl
  | cons x tl ih =>
    simp only [lastStarted, ih (fun y hy => h y (List.mem_cons_of_mem _ hy))]
    have := h x List.mem_cons_self
    by_cases c : x.1 ≤ p
    · simp [c, this.1 c]
    · have c' : ¬ x.1 ≤ r := fun hc => c (this.2 hc)
      simp [c, c']

/-! ### the score of the merged rows -/

/-- the part of `chordScore` after the merge: durations as weights, per-row comparison -/
def scoreRows (cmp : L → M → Rat) (rows : List (Rat × Rat × L × M)) : Py Num :=
  intervalsToDurations (rows.map fun r => (r.1, r.2.1)) >>= fun durs =>
    wacc (rows.map fun r => cmp r.2.2.1 r.2.2.2) durs

theorem chordScore_eq_bind (cmp : L → M → Rat) (x : LI L) (y : LI M) :
    chordScore cmp x y = mergeLabeled x y >>= scoreRows cmp := rfl

theorem validateIntervals_split (l1 l2 : Ivals) {p r q : Rat} (h1 : p < r) (h2 : r < q) :
    validateIntervals (l1 ++ (p, r) :: (r, q) :: l2) = validateIntervals (l1 ++ (p, q) :: l2) := by
  unfold validateIntervals
  have e1 : (l1 ++ (p, r) :: (r, q) :: l2).any (fun x => decide (x.1 < 0) || decide (x.2 < 0)) =
      (l1 ++ (p, q) :: l2).any (fun x => decide (x.1 < 0) || decide (x.2 < 0)) := by
    simp only [List.any_append, List.any_cons]
    by_cases hp : p < 0
    · simp [hp]
    · have hr : ¬ r < 0 := by intro h; apply hp; linarith
      simp [hp, hr]
  have e2 : (l1 ++ (p, r) :: (r, q) :: l2).any (fun x => decide (x.2 ≤ x.1)) =
      (l1 ++ (p, q) :: l2).any (fun x => decide (x.2 ≤ x.1)) := by
    simp only [List.any_append, List.any_cons]
    have a1 : ¬ r ≤ p := not_le.2 h1
    have a2 : ¬ q ≤ r := not_le.2 h2
    have a3 : ¬ q ≤ p := not_le.2 (lt_trans h1 h2)
    simp [a1, a2, a3]
  rw [e1, e2]

theorem qabs_of_nonneg {x : Rat} (h : 0 ≤ x) : qabs x = x := by
  unfold qabs
  rw [if_neg (not_lt.2 h)]

theorem scoreRows_split (cmp : L → M → Rat) (A P : List (Rat × Rat × L × M)) {p r q : Rat} (lx : L) (ly : M)
    (h1 : p < r) (h2 : r < q) :
    scoreRows cmp (A ++ (p, r, lx, ly) :: (r, q, lx, ly) :: P) = scoreRows cmp (A ++ (p, q, lx, ly) :: P) := by
  unfold scoreRows intervalsToDurations
  simp only [List.map_append, List.map_cons]
  rw [validateIntervals_split _ _ h1 h2]
  generalize validateIntervals (List.map (fun r : Rat × Rat × L × M => (r.1, r.2.1)) A ++
    (p, q) :: List.map (fun r : Rat × Rat × L × M => (r.1, r.2.1)) P) = v
  cases v with
  | error e => rfl
  | ok u =>
    show wacc _ _ = wacc _ _
    have hq : qabs (q - p) = qabs (r - p) + qabs (q - r) := by
      rw [qabs_of_nonneg (by linarith), qabs_of_nonneg (by linarith), qabs_of_nonneg (by linarith)]
      ring
    rw [hq]
    exact wacc_split_aux _ _ _ _ _ _ _ (by simp) (qabs_nonneg _) (qabs_nonneg _)

/-- one row of the merge -/
def rowF (x : LI L) (y : LI M) (pq : Rat × Rat) : Py (Rat × Rat × L × M) :=
  match lastStarted x pq.1, lastStarted y pq.1 with
  | some lx, some ly => .ok (pq.1, pq.2, lx, ly)
  | _, _ => .error .indexError

theorem mergeRows_eq (x : LI L) (y : LI M) (bs : List Rat) :
    mergeRows x y bs = (pairs bs).mapM (rowF x y) := rfl

theorem rows_split (cmp : L → M → Rat) (x : LI L) (y : LI M) (pre post : Ivals) {p r q : Rat}
    (h1 : p < r) (h2 : r < q)
    (hx : lastStarted x r = lastStarted x p) (hy : lastStarted y r = lastStarted y p) :
    ((pre ++ (p, r) :: (r, q) :: post).mapM (rowF x y) >>= scoreRows cmp) =
      ((pre ++ (p, q) :: post).mapM (rowF x y) >>= scoreRows cmp) := by
  rw [List.mapM_append, List.mapM_append]
  simp only [List.mapM_cons]
  cases pre.mapM (rowF x y) with
  | error e => rfl
  | ok A =>
    have e1 : rowF x y (p, r) = (rowF x y (p, q)).map fun row => (row.1, r, row.2.2) := by
      unfold rowF
      cases lastStarted x p <;> cases lastStarted y p <;> rfl
    have e2 : rowF x y (r, q) = (rowF x y (p, q)).map fun row => (r, row.2.1, row.2.2) := by
      unfold rowF
      simp only [hx, hy]
      cases lastStarted x p <;> cases lastStarted y p <;> rfl
    rw [e1, e2]
    cases h : rowF x y (p, q) with
    | error e => rfl
    | ok row =>
      have hrow : row = (p, q, row.2.2.1, row.2.2.2) := by
        unfold rowF at h
        cases hlx : lastStarted x p <;> cases hly : lastStarted y p <;> simp [hlx, hly] at h
        rw [← h]
      cases post.mapM (rowF x y) with
      | error e => rfl
      | ok P =>
        rw [hrow]
        exact scoreRows_split cmp A P _ _ h1 h2

/-! ### the merge-and-score under a refinement by one boundary -/

def firstStart (xs : LI L) : Option Rat := xs.head?.map (·.1)
def lastEnd (xs : LI L) : Option Rat := xs.getLast?.map (·.2.1)

theorem mergeLabeled_eq (x : LI L) (y : LI M) :
    mergeLabeled x y = match firstStart x, lastEnd x, firstStart y, lastEnd y with
      | some a, some b, some c, some d =>
        if a = c ∧ b = d then mergeRows x y (usort (entries x ++ entries y)) else .error .valueError
      | _, _, _, _ => .error .indexError := by
  unfold mergeLabeled firstStart lastEnd
  cases x.head? <;> cases x.getLast? <;> cases y.head? <;> cases y.getLast? <;> rfl

theorem firstStart_split (x₁ x₂ : LI L) (s r e : Rat) (l : L) :
    firstStart (x₁ ++ (s, r, l) :: (r, e, l) :: x₂) = firstStart (x₁ ++ (s, e, l) :: x₂) := by
  cases x₁ <;> rfl

theorem lastEnd_split (x₁ x₂ : LI L) (s r e : Rat) (l : L) :
    lastEnd (x₁ ++ (s, r, l) :: (r, e, l) :: x₂) = lastEnd (x₁ ++ (s, e, l) :: x₂) := by
  unfold lastEnd
  rw [getLast?_append_ne _ _ (by simp), getLast?_append_ne _ _ (by simp)]
  cases x₂ with
  | nil => simp
  | cons w x₂' => rw [List.getLast?_cons_cons, List.getLast?_cons_cons, List.getLast?_cons_cons]

/-- adding one boundary `r` to either annotation — without changing which row has started last at any
    instant, nor the first start / last end, and with `r` either already a boundary or strictly between
    two boundaries — does not change the chord score.  No ordering or contiguity is needed. -/
theorem chordScore_refine (cmp : L → M → Rat) {r : Rat} {x x' : LI L} {y y' : LI M}
    (hfx : firstStart x' = firstStart x) (hlx : lastEnd x' = lastEnd x)
    (hfy : firstStart y' = firstStart y) (hly : lastEnd y' = lastEnd y)
    (hsx : ∀ t, lastStarted x' t = lastStarted x t) (hsy : ∀ t, lastStarted y' t = lastStarted y t)
    (hmem : ∀ v, v ∈ entries x' ++ entries y' ↔ v = r ∨ v ∈ entries x ++ entries y)
    (hbr : r ∈ entries x ++ entries y ∨
      ∃ s e, s ∈ entries x ++ entries y ∧ e ∈ entries x ++ entries y ∧ s < r ∧ r < e) :
    chordScore cmp x' y' = chordScore cmp x y := by
  rw [chordScore_eq_bind, chordScore_eq_bind, mergeLabeled_eq, mergeLabeled_eq, hfx, hlx, hfy, hly]
  have hbs' : usort (entries x' ++ entries y') = insertU r (usort (entries x ++ entries y)) := by
    rw [insertU_usort]
    apply usort_congr
    intro v; rw [hmem]; simp
  have hrowF : rowF x' y' = rowF x y := by
    funext pq; unfold rowF; rw [hsx, hsy]
  have key : (mergeRows x' y' (usort (entries x' ++ entries y')) >>= scoreRows cmp) =
      (mergeRows x y (usort (entries x ++ entries y)) >>= scoreRows cmp) := by
    rw [mergeRows_eq, mergeRows_eq, hbs', hrowF]
    have hs := usort_sorted (entries x ++ entries y)
    by_cases hin : r ∈ usort (entries x ++ entries y)
    · rw [insertU_of_mem hs hin]
    · rcases hbr with hbr | ⟨s, e, hsm, hem, hsr, hre⟩
      · exact absurd (mem_usort.2 hbr) hin
      · have hsm' := mem_usort.2 hsm
        have hem' := mem_usort.2 hem
        cases hbs : usort (entries x ++ entries y) with
        | nil => rw [hbs] at hsm'; cases hsm'
        | cons h tl =>
          rw [hbs] at hs hin hsm' hem'
          obtain ⟨z, hz⟩ : ∃ z, (h :: tl).getLast? = some z := by
            cases hl : (h :: tl).getLast? with
            | none => simp at hl
            | some z => exact ⟨z, rfl⟩
          have hh : h < r := lt_of_le_of_lt (sorted_head_le hs hsm') hsr
          have hzr : r < z := lt_of_lt_of_le hre (sorted_le_last hs hz e hem')
          obtain ⟨p, q, hpq, hp, hq⟩ := exists_bracket hs rfl hz hh hzr hin
          obtain ⟨pre, post, e1, e2⟩ := pairs_insertU hs hpq hp hq
          rw [e1, e2]
          have hcons := (pairs_consecutive hs hpq).2
          have hmemx : ∀ row ∈ x, row.1 ∈ h :: tl := by
            intro row hrow
            rw [← hbs, mem_usort, List.mem_append]
            exact Or.inl (mem_entries.2 ⟨row, hrow, Or.inl rfl⟩)
          have hmemy : ∀ row ∈ y, row.1 ∈ h :: tl := by
            intro row hrow
            rw [← hbs, mem_usort, List.mem_append]
            exact Or.inr (mem_entries.2 ⟨row, hrow, Or.inl rfl⟩)
          have hiff : ∀ v ∈ h :: tl, (v ≤ r ↔ v ≤ p) := by
            intro v hv
            constructor
            · intro hvr
              rcases hcons v hv with hc | hc
              · exact hc
              · exact absurd (lt_of_le_of_lt (le_trans hc hvr) hq) (lt_irrefl _)
            · intro hvp; exact le_of_lt (lt_of_le_of_lt hvp hp)
          exact rows_split cmp x y pre post hp hq
            (lastStarted_congr fun row hrow => hiff _ (hmemx row hrow))
            (lastStarted_congr fun row hrow => hiff _ (hmemy row hrow))
  cases firstStart x <;> cases lastEnd x <;> cases firstStart y <;> cases lastEnd y <;> try rfl
  simp only
  split
  · exact key
  · rfl

theorem mem_entries_mid {x₁ x₂ : LI L} {s e : Rat} {l : L} :
    s ∈ entries (x₁ ++ (s, e, l) :: x₂) ∧ e ∈ entries (x₁ ++ (s, e, l) :: x₂) := by
  simp [entries_append, entries]

/-- cutting a row of the first annotation at a weakly interior point: ANY two annotations -/
theorem chordScore_split_left (cmp : L → M → Rat) (x₁ x₂ : LI L) {s r e : Rat} (l : L) (y : LI M)
    (h1 : s ≤ r) (h2 : r ≤ e) :
    chordScore cmp (x₁ ++ (s, r, l) :: (r, e, l) :: x₂) y = chordScore cmp (x₁ ++ (s, e, l) :: x₂) y := by
  apply chordScore_refine cmp (r := r) (firstStart_split _ _ _ _ _ _) (lastEnd_split _ _ _ _ _ _) rfl rfl
    (lastStarted_split x₁ x₂ e l h1) (fun _ => rfl)
  · intro v; simp only [List.mem_append, mem_entries_split]; tauto
  · have hm := mem_entries_mid (x₁ := x₁) (x₂ := x₂) (s := s) (e := e) (l := l)
    rcases eq_or_lt_of_le h1 with rfl | h1'
    · exact Or.inl (List.mem_append_left _ hm.1)
    · rcases eq_or_lt_of_le h2 with rfl | h2'
      · exact Or.inl (List.mem_append_left _ hm.2)
      · exact Or.inr ⟨s, e, List.mem_append_left _ hm.1, List.mem_append_left _ hm.2, h1', h2'⟩

/-- the same for a row of the second annotation -/
theorem chordScore_split_right (cmp : L → M → Rat) (x : LI L) (y₁ y₂ : LI M) {s r e : Rat} (l : M)
    (h1 : s ≤ r) (h2 : r ≤ e) :
    chordScore cmp x (y₁ ++ (s, r, l) :: (r, e, l) :: y₂) = chordScore cmp x (y₁ ++ (s, e, l) :: y₂) := by
  apply chordScore_refine cmp (r := r) rfl rfl (firstStart_split _ _ _ _ _ _) (lastEnd_split _ _ _ _ _ _)
    (fun _ => rfl) (lastStarted_split y₁ y₂ e l h1)
  · intro v; simp only [List.mem_append, mem_entries_split]; tauto
  · have hm := mem_entries_mid (x₁ := y₁) (x₂ := y₂) (s := s) (e := e) (l := l)
    rcases eq_or_lt_of_le h1 with rfl | h1'
    · exact Or.inl (List.mem_append_right _ hm.1)
    · rcases eq_or_lt_of_le h2 with rfl | h2'
      · exact Or.inl (List.mem_append_right _ hm.2)
      · exact Or.inr ⟨s, e, List.mem_append_right _ hm.1, List.mem_append_right _ hm.2, h1', h2'⟩

/-! ### `adjust_intervals` commutes with splitting -/

/-- `A` is `B` with one row cut in two at a weakly interior point; the rows after the cut row start no
    earlier than its end (all that is needed of time order) -/
def IsSplit (A B : LI L) : Prop :=
  ∃ (u v : LI L) (s r e : Rat) (l : L), A = u ++ (s, r, l) :: (r, e, l) :: v ∧ B = u ++ (s, e, l) :: v ∧
    s ≤ r ∧ r ≤ e ∧ ∀ row ∈ v, e ≤ row.1

def SplitOrEq (A B : LI L) : Prop := A = B ∨ IsSplit A B

theorem IsSplit.cons {A B : LI L} (x : Rat × Rat × L) (h : IsSplit A B) : IsSplit (x :: A) (x :: B) := by
  obtain ⟨u, v, s, r, e, l, rfl, rfl, h1, h2, h3⟩ := h
  exact ⟨x :: u, v, s, r, e, l, rfl, rfl, h1, h2, h3⟩

theorem SplitOrEq.cons {A B : LI L} (x : Rat × Rat × L) (h : SplitOrEq A B) : SplitOrEq (x :: A) (x :: B) := by
  rcases h with rfl | h
  · exact Or.inl rfl
  · exact Or.inr (h.cons x)

theorem IsSplit.left_ne {A B : LI L} (h : IsSplit A B) : A ≠ [] := by
  obtain ⟨u, v, s, r, e, l, rfl, rfl, _⟩ := h; simp

theorem IsSplit.right_ne {A B : LI L} (h : IsSplit A B) : B ≠ [] := by
  obtain ⟨u, v, s, r, e, l, rfl, rfl, _⟩ := h; simp

theorem IsSplit.mapTimes {A B : LI L} (h : IsSplit A B) (f : Rat → Rat) (hf : ∀ a b, a ≤ b → f a ≤ f b) :
    IsSplit (A.map fun x => (f x.1, f x.2.1, x.2.2)) (B.map fun x => (f x.1, f x.2.1, x.2.2)) := by
  obtain ⟨u, v, s, r, e, l, rfl, rfl, h1, h2, h3⟩ := h
  refine ⟨u.map fun x => (f x.1, f x.2.1, x.2.2), v.map fun x => (f x.1, f x.2.1, x.2.2), f s, f r, f e, l,
    by simp, by simp, hf _ _ h1, hf _ _ h2, ?_⟩
  intro row hrow
  obtain ⟨row', hrow', rfl⟩ := List.mem_map.1 hrow
  exact hf _ _ (h3 row' hrow')

theorem IsSplit.clipMin {A B : LI L} (a : Rat) (h : IsSplit A B) : IsSplit (clipMin a A) (clipMin a B) :=
  h.mapTimes (max a) (fun _ _ h => max_le_max_left a h)

theorem IsSplit.clipMax {A B : LI L} (b : Rat) (h : IsSplit A B) : IsSplit (clipMax b A) (clipMax b B) :=
  h.mapTimes (min b) (fun _ _ h => min_le_min_left b h)

theorem minL_entries_split {x₁ x₂ : LI L} {s r e : Rat} {l : L} (h1 : s ≤ r) (h2 : r ≤ e) :
    minL (entries (x₁ ++ (s, r, l) :: (r, e, l) :: x₂)) = minL (entries (x₁ ++ (s, e, l) :: x₂)) := by
  obtain ⟨m, hm⟩ := minL_ne_none (l := entries (x₁ ++ (s, e, l) :: x₂)) (entries_ne_nil (by simp))
  have hsp := minL_spec hm
  rw [hm]
  apply minL_eq
  · exact mem_entries_split.2 (Or.inr hsp.1)
  · intro v hv
    rcases mem_entries_split.1 hv with rfl | hv
    · have : s ∈ entries (x₁ ++ (s, e, l) :: x₂) := by simp [entries_append, entries]
      exact le_trans (hsp.2 s this) h1
    · exact hsp.2 v hv

theorem IsSplit.minL {A B : LI L} (h : IsSplit A B) : minL (entries A) = minL (entries B) := by
  obtain ⟨u, v, s, r, e, l, rfl, rfl, h1, h2, _⟩ := h
  exact minL_entries_split h1 h2

theorem IsSplit.maxL {A B : LI L} (h : IsSplit A B) : maxL (entries A) = maxL (entries B) := by
  obtain ⟨u, v, s, r, e, l, rfl, rfl, h1, h2, _⟩ := h
  exact maxL_entries_split h1 h2

theorem IsSplit.append_one {A B : LI L} (h : IsSplit A B) {m : Rat} (hm : Iv.maxL (entries B) = some m)
    (z2 : Rat) (zl : L) : IsSplit (A ++ [(m, z2, zl)]) (B ++ [(m, z2, zl)]) := by
  obtain ⟨u, v, s, r, e, l, rfl, rfl, h1, h2, h3⟩ := h
  refine ⟨u, v ++ [(m, z2, zl)], s, r, e, l, by simp, by simp, h1, h2, ?_⟩
  intro row hrow
  rcases List.mem_append.1 hrow with h | h
  · exact h3 _ h
  · simp only [List.mem_singleton] at h
    subst h
    exact (maxL_spec hm).2 e mem_entries_mid.2

/-- where `dropWhile (end ≤ a)` stops, before and after the cut -/
theorem dropWhile_split (a : Rat) (u v : LI L) (s r e : Rat) (l : L) (h2 : r ≤ e) :
    (∃ u', (u ++ (s, r, l) :: (r, e, l) :: v).dropWhile (fun x => decide (x.2.1 ≤ a)) =
              u' ++ (s, r, l) :: (r, e, l) :: v ∧
           (u ++ (s, e, l) :: v).dropWhile (fun x => decide (x.2.1 ≤ a)) = u' ++ (s, e, l) :: v) ∨
    (r ≤ a ∧ (u ++ (s, r, l) :: (r, e, l) :: v).dropWhile (fun x => decide (x.2.1 ≤ a)) = (r, e, l) :: v ∧
           (u ++ (s, e, l) :: v).dropWhile (fun x => decide (x.2.1 ≤ a)) = (s, e, l) :: v) ∨
    ((u ++ (s, r, l) :: (r, e, l) :: v).dropWhile (fun x => decide (x.2.1 ≤ a)) =
              v.dropWhile (fun x => decide (x.2.1 ≤ a)) ∧
           (u ++ (s, e, l) :: v).dropWhile (fun x => decide (x.2.1 ≤ a)) =
              v.dropWhile (fun x => decide (x.2.1 ≤ a))) := by
  induction u with
  | nil =>
    by_cases hr : r ≤ a
    · by_cases he : e ≤ a
      · right; right
        constructor <;> simp [hr, he]
      · right; left
        refine ⟨hr, ?_, ?_⟩ <;> simp [hr, he]
    · left
      have he : ¬ e ≤ a := fun h => hr (le_trans h2 h)
      exact ⟨[], by simp [hr], by simp [he]⟩
  | cons hd u' ih =>
    by_cases hh : hd.2.1 ≤ a
    · simp only [List.cons_append, List.dropWhile_cons, hh, decide_true, if_true]
      exact ih
    · left
      exact ⟨hd :: u', by simp [hh], by simp [hh]⟩

theorem cropMin_of_ne {a : Rat} {xs k : LI L} (h : xs.dropWhile (fun x => decide (x.2.1 ≤ a)) = k) (hk : k ≠ []) :
    cropMin a xs = k := by
  rcases cropMin_cases a xs with ⟨_, h2⟩ | ⟨h1, _⟩
  · rw [h2] at h; exact absurd h.symm hk
  · rw [h1, h]

theorem cropMin_of_nil {a : Rat} {xs : LI L} (h : xs.dropWhile (fun x => decide (x.2.1 ≤ a)) = []) :
    cropMin a xs = xs := by
  rcases cropMin_cases a xs with ⟨h1, _⟩ | ⟨_, h2⟩
  · exact h1
  · exact absurd h h2

/-- crop + clip at `t_min`: the cut either survives or disappears (when it falls at or before `t_min`) -/
theorem cropClipMin_split {A B : LI L} (a : Rat) (h : IsSplit A B) :
    SplitOrEq (clipMin a (cropMin a A)) (clipMin a (cropMin a B)) := by
  obtain ⟨u, v, s, r, e, l, rfl, rfl, h1, h2, h3⟩ := h
  rcases dropWhile_split a u v s r e l h2 with ⟨u', hA, hB⟩ | ⟨hr, hA, hB⟩ | ⟨hA, hB⟩
  · rw [cropMin_of_ne hA (by simp), cropMin_of_ne hB (by simp)]
    exact Or.inr (IsSplit.clipMin a ⟨u', v, s, r, e, l, rfl, rfl, h1, h2, h3⟩)
  · rw [cropMin_of_ne hA (by simp), cropMin_of_ne hB (by simp)]
    left
    simp only [Iv.clipMin, List.map_cons]
    rw [max_eq_left hr, max_eq_left (le_trans h1 hr)]
  · cases hv : v.dropWhile (fun x => decide (x.2.1 ≤ a)) with
    | nil =>
      rw [hv] at hA hB
      rw [cropMin_of_nil hA, cropMin_of_nil hB]
      exact Or.inr (IsSplit.clipMin a ⟨u, v, s, r, e, l, rfl, rfl, h1, h2, h3⟩)
    | cons k ks =>
      rw [hv] at hA hB
      rw [cropMin_of_ne hA (by simp), cropMin_of_ne hB (by simp)]
      exact Or.inl rfl

/-- relation between two results that may both be the same exception -/
def PyRel {α : Type} (R : α → α → Prop) : Py α → Py α → Prop
  | .ok a, .ok b => R a b
  | .error e, .error e' => e = e'
  | _, _ => False

theorem PyRel.refl {α : Type} {R : α → α → Prop} (hR : ∀ a, R a a) (p : Py α) : PyRel R p p := by
  cases p with
  | error e => exact rfl
  | ok a => exact hR a

theorem PyRel.bind {α β : Type} {R : α → α → Prop} {S : β → β → Prop} {p q : Py α} {f g : α → Py β}
    (h : PyRel R p q) (hf : ∀ a b, R a b → PyRel S (f a) (g b)) : PyRel S (p >>= f) (q >>= g) := by
  cases p with
  | error e =>
    cases q with
    | error e' => exact h
    | ok b => exact h.elim
  | ok a =>
    cases q with
    | error e' => exact h.elim
    | ok b => exact hf a b h

theorem PyRel.bind_eq {α β : Type} {R : α → α → Prop} {p q : Py α} {f : α → Py β}
    (h : PyRel R p q) (hf : ∀ a b, R a b → f a = f b) : p >>= f = q >>= f := by
  cases p with
  | error e =>
    cases q with
    | error e' => have : e = e' := h; rw [this]
    | ok b => exact h.elim
  | ok a =>
    cases q with
    | error e' => exact h.elim
    | ok b => exact hf a b h

theorem splitOrEq_refl (A : LI L) : SplitOrEq A A := Or.inl rfl

theorem adjustMin_split {A B : LI L} (a : Rat) (sl : L) (h : IsSplit A B) :
    PyRel SplitOrEq (adjustMin a sl A) (adjustMin a sl B) := by
  unfold adjustMin
  simp only
  rcases cropClipMin_split a h with heq | hs
  · rw [heq]; exact PyRel.refl splitOrEq_refl _
  · rw [hs.minL]
    cases Iv.minL (entries (Iv.clipMin a (cropMin a B))) with
    | none => exact rfl
    | some m =>
      simp only
      split
      · exact Or.inr (hs.cons _)
      · exact Or.inr hs

/-- crop + clip at `t_max`: the cut either survives or disappears (when it falls at or after `t_max`) -/
theorem cropClipMax_split {A B : LI L} (b : Rat) (h : IsSplit A B) :
    SplitOrEq (clipMax b (cropMax b A)) (clipMax b (cropMax b B)) := by
  obtain ⟨u, v, s, r, e, l, rfl, rfl, h1, h2, h3⟩ := h
  induction u with
  | nil =>
    simp only [List.nil_append, cropMax]
    by_cases hs : s < b
    · by_cases hr : r < b
      · right
        simp only [List.takeWhile_cons, hs, hr, decide_true, if_true]
        refine IsSplit.clipMax b ⟨[], v.takeWhile (fun x => decide (x.1 < b)), s, r, e, l, rfl, rfl, h1, h2, ?_⟩
        intro row hrow; exact h3 row ((List.takeWhile_prefix _).subset hrow)
      · left
        have hv : v.takeWhile (fun x => decide (x.1 < b)) = [] := by
          cases v with
          | nil => rfl
          | cons w v' =>
            have : ¬ w.1 < b := by
              have := h3 w List.mem_cons_self
              intro hw; apply hr; linarith
            simp [this]
        simp only [List.takeWhile_cons, hs, hr, hv, decide_true, decide_false, if_true, Iv.clipMax, List.map_cons,
          List.map_nil]
        rw [min_eq_left (not_lt.1 hr), min_eq_left (le_trans (not_lt.1 hr) h2)]
        simp
    · left; simp [hs]
  | cons hd u' ih =>
    simp only [List.cons_append, cropMax, List.takeWhile_cons]
    by_cases hh : hd.1 < b
    · simp only [hh, decide_true, if_true, Iv.clipMax, List.map_cons]
      exact SplitOrEq.cons _ ih
    · simp only [hh, decide_false]
      exact Or.inl rfl

theorem adjustMax_split {A B : LI L} (b : Rat) (el : L) (h : IsSplit A B) :
    PyRel SplitOrEq (adjustMax b el A) (adjustMax b el B) := by
  unfold adjustMax
  simp only
  rcases cropClipMax_split b h with heq | hs
  · rw [heq]; exact PyRel.refl splitOrEq_refl _
  · rw [hs.maxL]
    cases hm : Iv.maxL (entries (Iv.clipMax b (cropMax b B))) with
    | none => exact rfl
    | some m =>
      simp only
      split
      · exact Or.inr (hs.append_one hm _ _)
      · exact Or.inr hs

theorem adjustIntervals_ne {xs : LI L} (hne : xs ≠ []) (tmin tmax : Option Rat) (sl el : L) :
    adjustIntervals xs tmin tmax sl el =
      ((match tmin with
        | none => .ok xs
        | some a => adjustMin a sl xs) >>= fun x1 =>
       match tmax with
        | none => .ok x1
        | some b => adjustMax b el x1) := by
  cases xs with
  | nil => exact absurd rfl hne
  | cons x r => rfl

/-- `adjust_intervals` of a cut annotation is the (possibly no longer) cut `adjust_intervals` of the uncut one,
    exceptions included, for every `t_min`, `t_max` -/
theorem adjustIntervals_split {A B : LI L} (tmin tmax : Option Rat) (sl el : L) (h : IsSplit A B) :
    PyRel SplitOrEq (adjustIntervals A tmin tmax sl el) (adjustIntervals B tmin tmax sl el) := by
  rw [adjustIntervals_ne h.left_ne, adjustIntervals_ne h.right_ne]
  apply PyRel.bind (R := SplitOrEq)
  · cases tmin with
    | none => exact Or.inr h
    | some a => exact adjustMin_split a sl h
  · intro a b hab
    cases tmax with
    | none => exact hab
    | some c =>
      rcases hab with rfl | hs
      · exact PyRel.refl splitOrEq_refl _
      · exact adjustMax_split c el hs

/-! ### the `chord.evaluate` pipeline on tokens -/

/-- the part of `evaluateTokens` after the estimate has been adjusted to the reference span -/
def scoresOf [DecidableEq T] (cmp : T → T → Rat) (ref est' : LI T) : Py (List Num) := do
  let acc ← chordScore cmp ref est'
  let u ← underseg (mergeChord ref) (mergeChord est')
  let o ← overseg (mergeChord ref) (mergeChord est')
  pure [acc, u, o, Num.pymin o u]

theorem evaluateTokens_eq [DecidableEq T] (cmp : T → T → Rat) (noChord : T) (ref est : LI T) :
    evaluateTokens cmp noChord ref est =
      ((match Iv.minL (entries ref) with
        | some v => pure v
        | none => throw .valueError) >>= fun lo =>
       (match Iv.maxL (entries ref) with
        | some v => pure v
        | none => throw .valueError) >>= fun hi =>
       adjustIntervals est (some lo) (some hi) noChord noChord >>= fun est' => scoresOf cmp ref est') := by
  unfold evaluateTokens
  cases Iv.minL (entries ref) <;> cases Iv.maxL (entries ref) <;> rfl

theorem scoresOf_split [DecidableEq T] (cmp : T → T → Rat) (ref : LI T) {A B : LI T} (h : SplitOrEq A B) :
    scoresOf cmp ref A = scoresOf cmp ref B := by
  rcases h with rfl | ⟨u, v, s, r, e, l, rfl, rfl, h1, h2, _⟩
  · rfl
  · unfold scoresOf
    rw [chordScore_split_right cmp ref u v l h1 h2, mergeChord_split]

theorem evaluateTokens_split_est [DecidableEq T] (cmp : T → T → Rat) (noChord : T) (ref : LI T) {A B : LI T}
    (h : IsSplit A B) : evaluateTokens cmp noChord ref A = evaluateTokens cmp noChord ref B := by
  rw [evaluateTokens_eq, evaluateTokens_eq]
  cases Iv.minL (entries ref) with
  | none => rfl
  | some lo =>
    cases Iv.maxL (entries ref) with
    | none => rfl
    | some hi =>
      show (adjustIntervals A (some lo) (some hi) noChord noChord >>= fun est' => scoresOf cmp ref est') =
        (adjustIntervals B (some lo) (some hi) noChord noChord >>= fun est' => scoresOf cmp ref est')
      exact PyRel.bind_eq (adjustIntervals_split _ _ _ _ h) (fun a b hab => scoresOf_split cmp ref hab)

theorem evaluateTokens_split_ref [DecidableEq T] (cmp : T → T → Rat) (noChord : T) (x₁ x₂ : LI T) {s r e : Rat}
    (l : T) (est : LI T) (h1 : s ≤ r) (h2 : r ≤ e) :
    evaluateTokens cmp noChord (x₁ ++ (s, r, l) :: (r, e, l) :: x₂) est =
      evaluateTokens cmp noChord (x₁ ++ (s, e, l) :: x₂) est := by
  rw [evaluateTokens_eq, evaluateTokens_eq, minL_entries_split h1 h2, maxL_entries_split h1 h2]
  have : ∀ est', scoresOf cmp (x₁ ++ (s, r, l) :: (r, e, l) :: x₂) est' = scoresOf cmp (x₁ ++ (s, e, l) :: x₂) est' := by
    intro est'
    unfold scoresOf
    rw [chordScore_split_left cmp x₁ x₂ l est' h1 h2, mergeChord_split]
  simp only [this]

/-- in a time-ordered annotation the rows after a given one start no earlier than its end -/
theorem chain_after {lo : Rat} {u v : LI L} {x : Rat × Rat × L} (h : Chain lo (u ++ x :: v)) :
    ∀ row ∈ v, x.2.1 ≤ row.1 := by
  induction u generalizing lo with
  | nil => exact fun row hrow => (h.2.2.lb row hrow).1
  | cons a u' ih => exact ih h.2.2

end Mir.Iv
