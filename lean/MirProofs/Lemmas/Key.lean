import MirModel.Key
import Mathlib.Tactic.IntervalCases

namespace Mir.Key

/-! ### the scoring core -/

theorem scoreCore_values {M : Type} [DecidableEq M] (major minor : M)
    (rk : Option Int) (rm : Option M) (ek : Option Int) (em : Option M) :
    scoreCore major minor rk rm ek em ∈ [0, 1 / 5, 3 / 10, 1 / 2, 1] := by
  unfold scoreCore
  repeat' split
  all_goals simp

/-- `scoreCore` only tests modes for equality (with each other and with the two constants), so an injective
    renaming of modes does not change it: the string level and the finite level compute the same score. -/
theorem scoreCore_map {M N : Type} [DecidableEq M] [DecidableEq N] (f : M → N)
    (hf : Function.Injective f) (major minor : M) (rk : Option Int) (rm : Option M) (ek : Option Int)
    (em : Option M) :
    scoreCore (f major) (f minor) rk (rm.map f) ek (em.map f) = scoreCore major minor rk rm ek em := by
  have hinj : ∀ x y : Option M, x.map f = y.map f ↔ x = y := by
    intro x y
    constructor
    · intro h
      cases x <;> cases y <;> simp_all
      exact hf h
    · intro h; rw [h]
  have hs : ∀ (x : Option M) (c : M), x.map f = some (f c) ↔ x = some c := by
    intro x c
    have := hinj x (some c)
    simpa using this
  unfold scoreCore
  simp only [hinj, hs, ne_eq]

/-- joint transposition of both tonics by `t` semitones (mod 12) leaves the score unchanged -/
theorem scoreCore_transpose {M : Type} [DecidableEq M] (major minor : M) (r e t : Int)
    (hr0 : 0 ≤ r) (hr : r < 12) (he0 : 0 ≤ e) (he : e < 12) (rm em : Option M) :
    scoreCore major minor (some ((r + t) % 12)) rm (some ((e + t) % 12)) em =
      scoreCore major minor (some r) rm (some e) em := by
  unfold scoreCore
  have h1 : ((r + t) % 12 = (e + t) % 12) ↔ r = e := by omega
  have h2 : ((e + t) % 12 - (r + t) % 12) % 12 = (e - r) % 12 := by omega
  simp only [Option.some.injEq, h1, h2]

/-! ### finite level -/

theorem Mode.str_injective : Function.Injective Mode.str := by
  intro a b h
  cases a <;> cases b <;> first | rfl | exact absurd h (by decide)

theorem mem_Key_all (k : Key) : k ∈ Key.all := by
  cases k with
  | x => decide
  | mk n m => cases n <;> cases m <;> decide

theorem forall_key {p : Key → Prop} (h : ∀ k ∈ Key.all, p k) (k : Key) : p k := h k (mem_Key_all k)

theorem semitone_range (n : KeyName) : 0 ≤ n.semitone ∧ n.semitone < 12 := by
  cases n <;> decide

/-! ### string level: a rendered key parses back to its class -/

theorem validateKey_render : ∀ k ∈ Key.all, ∀ v ∈ [0, 1, 2, 3], validateKey (k.render v) = .ok () := by
  decide +kernel

theorem splitKeyString_render : ∀ k ∈ Key.all, ∀ v ∈ [0, 1, 2, 3],
    splitKeyString (k.render v) = .ok (k.sem, k.mode.map Mode.str) := by
  decide +kernel

theorem weightedScoreStr_render (r e : Key) (v w : Nat) (hv : v < 4) (hw : w < 4) :
    weightedScoreStr (r.render v) (e.render w) = .ok (weightedScore r e) := by
  have hv' : v ∈ [0, 1, 2, 3] := by interval_cases v <;> decide
  have hw' : w ∈ [0, 1, 2, 3] := by interval_cases w <;> decide
  unfold weightedScoreStr
  rw [validateKey_render r (mem_Key_all r) v hv', validateKey_render e (mem_Key_all e) w hw',
    splitKeyString_render r (mem_Key_all r) v hv', splitKeyString_render e (mem_Key_all e) w hw']
  show Except.ok (scoreCore sMajor sMinor r.sem (r.mode.map Mode.str) e.sem (e.mode.map Mode.str)) = _
  have := scoreCore_map Mode.str Mode.str_injective .major .minor r.sem r.mode e.sem e.mode
  rw [show sMajor = Mode.str .major from rfl, show sMinor = Mode.str .minor from rfl, this]
  rfl

end Mir.Key
