import MirModel.Matching
import Mathlib.Data.List.Nodup
import Mathlib.Data.List.Perm.Subperm
import Mathlib.Tactic.Linarith
import Mathlib.Logic.Function.Basic
import Mathlib.Data.List.Range

namespace Mir

/-! ### the boolean checker decides `ValidMatching` -/

theorem nodupB_iff (l : List Nat) : nodupB l = true ↔ l.Nodup := by
  induction l with
  | nil => simp [nodupB]
  | cons x xs ih => simp [nodupB, ih]

theorem validB_iff (E M : List Edge) : validB E M = true ↔ ValidMatching E M := by
  unfold validB ValidMatching
  simp [nodupB_iff, List.all_eq_true, and_assoc]

instance (E M : List Edge) : Decidable (ValidMatching E M) :=
  decidable_of_iff _ (validB_iff E M)

/-! ### weak duality: a matching is never larger than a vertex cover -/

theorem nodup_subset_length_le {l₁ l₂ : List Nat} (h : l₁.Nodup) (hs : l₁ ⊆ l₂) : l₁.length ≤ l₂.length :=
  (List.subperm_of_subset h hs).length_le

theorem weak_duality {E M : List Edge} {cl cr : List Nat}
    (hM : ValidMatching E M) (hC : ∀ e ∈ E, e.1 ∈ cl ∨ e.2 ∈ cr) :
    M.length ≤ cl.length + cr.length := by
  obtain ⟨hsub, hfst, hsnd⟩ := hM
  have hsplit := List.length_eq_length_filter_add (l := M) (fun e => decide (e.1 ∈ cl))
  have h1 : (M.filter fun e => decide (e.1 ∈ cl)).length ≤ cl.length := by
    have hnd : ((M.filter fun e => decide (e.1 ∈ cl)).map Prod.fst).Nodup :=
      hfst.sublist (List.filter_sublist.map _)
    have := nodup_subset_length_le hnd (l₂ := cl) (by
      intro x hx
      simp only [List.mem_map, List.mem_filter, decide_eq_true_eq] at hx
      obtain ⟨e, ⟨_, he⟩, rfl⟩ := hx
      exact he)
    simpa using this
  have h2 : (M.filter fun e => !decide (e.1 ∈ cl)).length ≤ cr.length := by
    have hnd : ((M.filter fun e => !decide (e.1 ∈ cl)).map Prod.snd).Nodup :=
      hsnd.sublist (List.filter_sublist.map _)
    have := nodup_subset_length_le hnd (l₂ := cr) (by
      intro x hx
      simp only [List.mem_map, List.mem_filter, Bool.not_eq_true', decide_eq_false_iff_not] at hx
      obtain ⟨e, ⟨heM, he⟩, rfl⟩ := hx
      rcases hC e (hsub e heM) with h | h
      · exact absurd h he
      · exact h)
    simpa using this
  omega

/-! ### `ValidMatching` basics -/

theorem ValidMatching.nil (E : List Edge) : ValidMatching E [] := by
  simp [ValidMatching]

theorem ValidMatching.mono {E E' M : List Edge} (h : ValidMatching E M) (hs : ∀ e ∈ E, e ∈ E') :
    ValidMatching E' M :=
  ⟨fun e he => hs e (h.1 e he), h.2.1, h.2.2⟩

theorem ValidMatching.fst_inj {E M : List Edge} (h : ValidMatching E M) {a b : Edge}
    (ha : a ∈ M) (hb : b ∈ M) (hab : a.1 = b.1) : a = b :=
  List.inj_on_of_nodup_map h.2.1 ha hb hab

theorem ValidMatching.snd_inj {E M : List Edge} (h : ValidMatching E M) {a b : Edge}
    (ha : a ∈ M) (hb : b ∈ M) (hab : a.2 = b.2) : a = b :=
  List.inj_on_of_nodup_map h.2.2 ha hb hab

theorem ValidMatching.nodup {E M : List Edge} (h : ValidMatching E M) : M.Nodup :=
  List.Nodup.of_map _ h.2.1

theorem ValidMatching.sublist {E M M' : List Edge} (h : ValidMatching E M) (hs : M'.Sublist M) :
    ValidMatching E M' :=
  ⟨fun e he => h.1 e (hs.subset he), h.2.1.sublist (hs.map _), h.2.2.sublist (hs.map _)⟩

/-! ### the brute-force recursion computes the maximum matching size -/

theorem bruteMaxAux_achieved : ∀ (n : Nat) (E : List Edge), E.length ≤ n →
    ∃ M, ValidMatching E M ∧ M.length = bruteMaxAux n E := by
  intro n
  induction n with
  | zero => intro E _; exact ⟨[], ValidMatching.nil E, by simp [bruteMaxAux]⟩
  | succ n ih =>
    intro E hE
    match E with
    | [] => exact ⟨[], ValidMatching.nil _, by simp [bruteMaxAux]⟩
    | (l, r) :: es =>
      have hes : es.length ≤ n := by simpa using hE
      have hfl : (es.filter fun e => e.1 ≠ l ∧ e.2 ≠ r).length ≤ n :=
        le_trans (List.length_filter_le _ _) hes
      obtain ⟨M₁, hM₁, hl₁⟩ := ih es hes
      obtain ⟨M₂, hM₂, hl₂⟩ := ih _ hfl
      simp only [bruteMaxAux]
      rcases le_total (1 + bruteMaxAux n (es.filter fun e => e.1 ≠ l ∧ e.2 ≠ r)) (bruteMaxAux n es) with h | h
      · refine ⟨M₁, hM₁.mono (fun e he => List.mem_cons_of_mem _ he), ?_⟩
        rw [hl₁, Nat.max_eq_left h]
      · refine ⟨(l, r) :: M₂, ⟨?_, ?_, ?_⟩, ?_⟩
        · intro e he
          rcases List.mem_cons.1 he with rfl | he
          · exact List.mem_cons_self
          · exact List.mem_cons_of_mem _ (List.mem_filter.1 (hM₂.1 e he)).1
        · simp only [List.map_cons, List.nodup_cons]
          refine ⟨?_, hM₂.2.1⟩
          intro hmem
          obtain ⟨e, he, hfe⟩ := List.mem_map.1 hmem
          have := (List.mem_filter.1 (hM₂.1 e he)).2
          simp only [ne_eq, decide_eq_true_eq] at this
          exact this.1 hfe
        · simp only [List.map_cons, List.nodup_cons]
          refine ⟨?_, hM₂.2.2⟩
          intro hmem
          obtain ⟨e, he, hfe⟩ := List.mem_map.1 hmem
          have := (List.mem_filter.1 (hM₂.1 e he)).2
          simp only [ne_eq, decide_eq_true_eq] at this
          exact this.2 hfe
        · rw [List.length_cons, hl₂, Nat.max_eq_right h]; omega

theorem bruteMaxAux_bound : ∀ (n : Nat) (E : List Edge), E.length ≤ n →
    ∀ M, ValidMatching E M → M.length ≤ bruteMaxAux n E := by
  intro n
  induction n with
  | zero =>
    intro E hE M hM
    have : E = [] := List.eq_nil_of_length_eq_zero (Nat.le_zero.1 hE)
    subst this
    match M, hM with
    | [], _ => simp
    | e :: _, hM => exact absurd (hM.1 e List.mem_cons_self) (by simp)
  | succ n ih =>
    intro E hE M hM
    match E with
    | [] =>
      match M, hM with
      | [], _ => simp
      | e :: _, hM => exact absurd (hM.1 e List.mem_cons_self) (by simp)
    | (l, r) :: es =>
      have hes : es.length ≤ n := by simpa using hE
      have hfl : (es.filter fun e => e.1 ≠ l ∧ e.2 ≠ r).length ≤ n :=
        le_trans (List.length_filter_le _ _) hes
      simp only [bruteMaxAux]
      by_cases hmem : (l, r) ∈ M
      · -- remove (l, r); the rest avoids l and r
        have hnd := hM.nodup
        have hlen : (M.erase (l, r)).length = M.length - 1 := List.length_erase_of_mem hmem
        have hpos : 0 < M.length := List.length_pos_of_mem hmem
        have hval : ValidMatching (es.filter fun e => e.1 ≠ l ∧ e.2 ≠ r) (M.erase (l, r)) := by
          refine ⟨?_, (hM.sublist List.erase_sublist).2.1, (hM.sublist List.erase_sublist).2.2⟩
          intro e he
          have heM : e ∈ M := List.mem_of_mem_erase he
          have hne : e ≠ (l, r) := fun h => by
            subst h; exact (List.Nodup.not_mem_erase hnd) he
          have hein : e ∈ es := by
            rcases List.mem_cons.1 (hM.1 e heM) with h | h
            · exact absurd h hne
            · exact h
          refine List.mem_filter.2 ⟨hein, ?_⟩
          simp only [ne_eq, decide_eq_true_eq]
          exact ⟨fun h => hne (hM.fst_inj heM hmem h), fun h => hne (hM.snd_inj heM hmem h)⟩
        have := ih _ hfl _ hval
        have h2 : 1 + bruteMaxAux n (es.filter fun e => e.1 ≠ l ∧ e.2 ≠ r) ≤
            max (bruteMaxAux n es) (1 + bruteMaxAux n (es.filter fun e => e.1 ≠ l ∧ e.2 ≠ r)) :=
          Nat.le_max_right _ _
        omega
      · have hval : ValidMatching es M := by
          refine ⟨?_, hM.2.1, hM.2.2⟩
          intro e he
          rcases List.mem_cons.1 (hM.1 e he) with h | h
          · subst h; exact absurd he hmem
          · exact h
        exact le_trans (ih es hes M hval) (Nat.le_max_left _ _)

theorem bruteMax_isMax (E : List Edge) : IsMaxSize E (bruteMax E) :=
  ⟨bruteMaxAux_achieved _ E (le_refl _), bruteMaxAux_bound _ E (le_refl _)⟩

theorem IsMaxSize.unique {E : List Edge} {k k' : Nat} (h : IsMaxSize E k) (h' : IsMaxSize E k') : k = k' := by
  obtain ⟨⟨M, hM, rfl⟩, hb⟩ := h
  obtain ⟨⟨M', hM', rfl⟩, hb'⟩ := h'
  exact Nat.le_antisymm (hb' M hM) (hb M' hM')

/-! ### the certifying algorithm is correct for every edge list -/

theorem checkCert_sound {E M : List Edge} {cl cr : List Nat} (h : checkCert E M cl cr = true) :
    IsMaxSize E M.length := by
  unfold checkCert at h
  simp only [Bool.and_eq_true, decide_eq_true_eq, List.all_eq_true, Bool.or_eq_true,
    List.contains_iff_mem] at h
  obtain ⟨⟨hv, hc⟩, hle⟩ := h
  have hv' := (validB_iff E M).1 hv
  refine ⟨⟨M, hv', rfl⟩, fun M' hM' => ?_⟩
  have := weak_duality hM' (cl := cl) (cr := cr) (fun e he => by simpa using hc e he)
  omega

theorem maxMatchSize_isMax (E : List Edge) : IsMaxSize E (maxMatchSize E) := by
  unfold maxMatchSize
  simp only
  split
  · rename_i h; exact checkCert_sound h
  · exact bruteMax_isMax E

theorem maxMatchSize_eq_bruteMax (E : List Edge) : maxMatchSize E = bruteMax E :=
  (maxMatchSize_isMax E).unique (bruteMax_isMax E)

/-- what the driver evaluates on each matching returned by the real code: accepted ⇒ it is maximum -/
theorem certify {E M : List Edge} (hv : validB E M = true) (hs : M.length = maxMatchSize E) :
    ValidMatching E M ∧ ∀ M', ValidMatching E M' → M'.length ≤ M.length := by
  refine ⟨(validB_iff E M).1 hv, fun M' hM' => ?_⟩
  rw [hs]; exact (maxMatchSize_isMax E).2 M' hM'

/-! ### consequences used by the metric properties (all for arbitrary edge lists) -/

theorem maxMatchSize_le_of_bound {E : List Edge} {k : Nat} (h : ∀ M, ValidMatching E M → M.length ≤ k) :
    maxMatchSize E ≤ k := by
  obtain ⟨⟨M, hM, hl⟩, _⟩ := maxMatchSize_isMax E
  rw [← hl]; exact h M hM

theorem le_maxMatchSize {E M : List Edge} (h : ValidMatching E M) : M.length ≤ maxMatchSize E :=
  (maxMatchSize_isMax E).2 M h

/-- widening: more feasible pairs never give fewer hits -/
theorem max_mono {E E' : List Edge} (hs : ∀ e ∈ E, e ∈ E') : maxMatchSize E ≤ maxMatchSize E' :=
  maxMatchSize_le_of_bound fun _ hM => le_maxMatchSize (hM.mono hs)

/-- the hit count depends on the *set* of feasible pairs only (enumeration order, duplicates) -/
theorem max_congr {E E' : List Edge} (hs : ∀ e, e ∈ E ↔ e ∈ E') : maxMatchSize E = maxMatchSize E' :=
  Nat.le_antisymm (max_mono fun e he => (hs e).1 he) (max_mono fun e he => (hs e).2 he)

theorem validMatching_swap {E M : List Edge} (h : ValidMatching E M) :
    ValidMatching (E.map Prod.swap) (M.map Prod.swap) := by
  refine ⟨?_, ?_, ?_⟩
  · intro e he
    obtain ⟨e', he', rfl⟩ := List.mem_map.1 he
    exact List.mem_map.2 ⟨e', h.1 e' he', rfl⟩
  · have : (M.map Prod.swap).map Prod.fst = M.map Prod.snd := by
      rw [List.map_map]; rfl
    rw [this]; exact h.2.2
  · have : (M.map Prod.swap).map Prod.snd = M.map Prod.fst := by
      rw [List.map_map]; rfl
    rw [this]; exact h.2.1

theorem swap_swap_list (E : List Edge) : (E.map Prod.swap).map Prod.swap = E := by
  rw [List.map_map]; simp

/-- exchanging the two sides does not change the hit count (reference ↔ estimate) -/
theorem max_transpose (E : List Edge) : maxMatchSize (E.map Prod.swap) = maxMatchSize E := by
  apply Nat.le_antisymm
  · apply maxMatchSize_le_of_bound
    intro M hM
    have := le_maxMatchSize (validMatching_swap hM)
    rw [swap_swap_list] at this
    simpa using this
  · apply maxMatchSize_le_of_bound
    intro M hM
    simpa using le_maxMatchSize (validMatching_swap hM)

/-- renumbering the items on either side (any injective renaming, e.g. a permutation of the input
    order) does not change the hit count -/
theorem max_relabel (f g : Nat → Nat) (hf : Function.Injective f) (hg : Function.Injective g)
    (E : List Edge) : maxMatchSize (E.map (Prod.map f g)) = maxMatchSize E := by
  apply Nat.le_antisymm
  · apply maxMatchSize_le_of_bound
    intro M hM
    -- pull the matching back along left inverses
    let f' := Function.invFun f
    let g' := Function.invFun g
    have hf' : ∀ x, f' (f x) = x := Function.leftInverse_invFun hf
    have hg' : ∀ x, g' (g x) = x := Function.leftInverse_invFun hg
    have hpre : ∀ e ∈ M, ∃ e0 ∈ E, Prod.map f g e0 = e := fun e he => List.mem_map.1 (hM.1 e he)
    have hval : ValidMatching E (M.map (Prod.map f' g')) := by
      refine ⟨?_, ?_, ?_⟩
      · intro e he
        obtain ⟨e', he', rfl⟩ := List.mem_map.1 he
        obtain ⟨e0, he0, rfl⟩ := hpre e' he'
        simpa [Prod.map, hf', hg'] using he0
      · have : (M.map (Prod.map f' g')).map Prod.fst = (M.map Prod.fst).map f' := by
          simp [List.map_map, Function.comp_def]
        rw [this]
        refine List.Nodup.map_on ?_ hM.2.1
        intro a ha b hb hab
        obtain ⟨ea, hea, rfl⟩ := List.mem_map.1 ha
        obtain ⟨eb, heb, rfl⟩ := List.mem_map.1 hb
        obtain ⟨a0, _, rfl⟩ := hpre ea hea
        obtain ⟨b0, _, rfl⟩ := hpre eb heb
        simp only [Prod.map_fst, hf'] at hab
        simp [hab]
      · have : (M.map (Prod.map f' g')).map Prod.snd = (M.map Prod.snd).map g' := by
          simp [List.map_map, Function.comp_def]
        rw [this]
        refine List.Nodup.map_on ?_ hM.2.2
        intro a ha b hb hab
        obtain ⟨ea, hea, rfl⟩ := List.mem_map.1 ha
        obtain ⟨eb, heb, rfl⟩ := List.mem_map.1 hb
        obtain ⟨a0, _, rfl⟩ := hpre ea hea
        obtain ⟨b0, _, rfl⟩ := hpre eb heb
        simp only [Prod.map_snd, hg'] at hab
        simp [hab]
    simpa using le_maxMatchSize hval
  · apply maxMatchSize_le_of_bound
    intro M hM
    have hval : ValidMatching (E.map (Prod.map f g)) (M.map (Prod.map f g)) := by
      refine ⟨?_, ?_, ?_⟩
      · intro e he
        obtain ⟨e', he', rfl⟩ := List.mem_map.1 he
        exact List.mem_map.2 ⟨e', hM.1 e' he', rfl⟩
      · have : (M.map (Prod.map f g)).map Prod.fst = (M.map Prod.fst).map f := by
          simp [List.map_map, Function.comp_def]
        rw [this]; exact hM.2.1.map hf
      · have : (M.map (Prod.map f g)).map Prod.snd = (M.map Prod.snd).map g := by
          simp [List.map_map, Function.comp_def]
        rw [this]; exact hM.2.2.map hg
    simpa using le_maxMatchSize hval

/-- at most as many hits as there are left (reference) items -/
theorem max_le_left {E : List Edge} {n : Nat} (hb : ∀ e ∈ E, e.1 < n) : maxMatchSize E ≤ n := by
  apply maxMatchSize_le_of_bound
  intro M hM
  have : (M.map Prod.fst).length ≤ (List.range n).length :=
    nodup_subset_length_le hM.2.1 (by
      intro x hx
      obtain ⟨e, he, rfl⟩ := List.mem_map.1 hx
      exact List.mem_range.2 (hb e (hM.1 e he)))
  simpa using this

/-- at most as many hits as there are right (estimated) items -/
theorem max_le_right {E : List Edge} {n : Nat} (hb : ∀ e ∈ E, e.2 < n) : maxMatchSize E ≤ n := by
  apply maxMatchSize_le_of_bound
  intro M hM
  have : (M.map Prod.snd).length ≤ (List.range n).length :=
    nodup_subset_length_le hM.2.2 (by
      intro x hx
      obtain ⟨e, he, rfl⟩ := List.mem_map.1 hx
      exact List.mem_range.2 (hb e (hM.1 e he)))
  simpa using this

/-- a perfect estimate: if item `i` may be paired with item `i` for all `i < n`, all `n` are hit -/
theorem max_reflexive {E : List Edge} {n : Nat} (hd : ∀ i < n, (i, i) ∈ E) (hb : ∀ e ∈ E, e.1 < n) :
    maxMatchSize E = n := by
  apply Nat.le_antisymm (max_le_left hb)
  have hval : ValidMatching E ((List.range n).map fun i => (i, i)) := by
    refine ⟨?_, ?_, ?_⟩
    · intro e he
      obtain ⟨i, hi, rfl⟩ := List.mem_map.1 he
      exact hd i (List.mem_range.1 hi)
    · simpa [List.map_map, Function.comp_def] using List.nodup_range
    · simpa [List.map_map, Function.comp_def] using List.nodup_range
  simpa using le_maxMatchSize hval

theorem maxMatchSize_nil : maxMatchSize [] = 0 := by
  have := max_le_left (E := []) (n := 0) (by simp)
  omega

end Mir
