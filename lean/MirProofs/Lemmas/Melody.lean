import MirModel.Melody
import Mathlib.Algebra.Order.Field.Basic
import Mathlib.Algebra.Order.Field.Rat
import Mathlib.Tactic.Positivity
import Mathlib.Tactic.Linarith
import Mathlib.Tactic.FieldSimp
import Mathlib.Tactic.Ring

/-! Helper lemmas for the melody slice (sums over frames, chroma distance, validation). -/
namespace Mir
namespace Melody

/-! ### `Rat.abs` -/

theorem rabs_nonneg (x : Rat) : 0 ≤ x.abs := Rat.abs_nonneg

theorem rabs_eq (x : Rat) : x.abs = if 0 ≤ x then x else -x := rfl

theorem rabs_of_nonneg {x : Rat} (h : 0 ≤ x) : x.abs = x := Rat.abs_of_nonneg h

theorem rabs_zero : (0 : Rat).abs = 0 := Rat.abs_zero

theorem rabs_neg (x : Rat) : (-x).abs = x.abs := Rat.abs_neg

theorem rabs_abs (x : Rat) : x.abs.abs = x.abs := rabs_of_nonneg (rabs_nonneg x)

theorem le_rabs (x : Rat) : x ≤ x.abs := by
  rw [rabs_eq]; split <;> linarith

theorem neg_le_rabs (x : Rat) : -x ≤ x.abs := by
  rw [rabs_eq]; split <;> linarith

theorem rabs_cases (x : Rat) : (0 ≤ x ∧ x.abs = x) ∨ (x < 0 ∧ x.abs = -x) := by
  rw [rabs_eq]
  by_cases h : 0 ≤ x
  · left; simp [h]
  · right; simp [h]; linarith

/-! ### sums -/

theorem ind_nonneg (b : Bool) : 0 ≤ ind b := by
  unfold ind; split <;> norm_num

theorem ind_le_one (b : Bool) : ind b ≤ 1 := by
  unfold ind; split <;> norm_num

theorem rsum_nonneg {xs : List Rat} (h : ∀ x ∈ xs, 0 ≤ x) : 0 ≤ rsum xs := by
  induction xs with
  | nil => simp [rsum]
  | cons x xs ih =>
    simp only [rsum]
    have := h x (by simp)
    have := ih (fun y hy => h y (by simp [hy]))
    linarith

theorem rsum_eq_zero {xs : List Rat} (h : ∀ x ∈ xs, 0 ≤ x) (h0 : rsum xs = 0) : ∀ x ∈ xs, x = 0 := by
  induction xs with
  | nil => simp
  | cons x xs ih =>
    simp only [rsum] at h0
    have hx := h x (by simp)
    have hs := rsum_nonneg (xs := xs) (fun y hy => h y (by simp [hy]))
    intro y hy
    rcases List.mem_cons.1 hy with rfl | hy
    · linarith
    · exact ih (fun y hy => h y (by simp [hy])) (by linarith) y hy

theorem inUnit_iff {v : List Rat} : inUnit v = true ↔ ∀ x ∈ v, 0 ≤ x ∧ x ≤ 1 := by
  simp [inUnit, List.all_eq_true]

theorem validVoicingB_iff {rv ev : List Rat} :
    validVoicingB rv ev = true ↔ rv.length = ev.length ∧ inUnit rv = true ∧ inUnit ev = true := by
  simp [validVoicingB, and_assoc]

theorem validLenB_iff {rv rc ev ec : List Rat} :
    validLenB rv rc ev ec = true ↔ rv.length = rc.length ∧ ev.length = ec.length ∧ rc.length = ec.length := by
  simp [validLenB, and_assoc]

/-- `Σ aᵢ·bᵢ` lies between 0 and `Σ bᵢ` when `a ∈ [0,1]`, `b ≥ 0` -/
theorem zipMul_bounds {a b : List Rat} (ha : ∀ x ∈ a, 0 ≤ x ∧ x ≤ 1) (hb : ∀ y ∈ b, 0 ≤ y) :
    0 ≤ rsum (List.zipWith (· * ·) a b) ∧ rsum (List.zipWith (· * ·) a b) ≤ rsum b := by
  induction a generalizing b with
  | nil => simpa [rsum] using rsum_nonneg hb
  | cons x a ih =>
    cases b with
    | nil => simp [rsum]
    | cons y b =>
      simp only [List.zipWith_cons_cons, rsum]
      have hx := ha x (by simp)
      have hy := hb y (by simp)
      have := ih (b := b) (fun z hz => ha z (by simp [hz])) (fun z hz => hb z (by simp [hz]))
      have h1 : 0 ≤ x * y := mul_nonneg hx.1 hy
      have h2 : x * y ≤ y := by nlinarith
      constructor <;> linarith

/-! ### voicing measures -/

theorem bmul_eq_of_length {a b : List Rat} (h : a.length = b.length) :
    bmul a b = .ok (List.zipWith (· * ·) a b) := by
  simp [bmul, h]

theorem voicingRate_range {sel : Rat → Bool} {dflt : Rat} (hd : 0 ≤ dflt ∧ dflt ≤ 1) {rv ev : List Rat}
    (hlen : rv.length = ev.length) (hev : inUnit ev = true) {x : Rat}
    (h : voicingRate sel dflt rv ev = .ok x) : 0 ≤ x ∧ x ≤ 1 := by
  unfold voicingRate at h
  split at h
  · cases h; norm_num
  · simp only at h
    split at h
    · cases h; exact hd
    · rename_i hne
      rw [bmul_eq_of_length (by simp [hlen])] at h
      simp only [Except.ok.injEq] at h
      subst h
      have hb : ∀ y ∈ rv.map (fun x => ind (sel x)), 0 ≤ y := by
        intro y hy
        rcases List.mem_map.1 hy with ⟨z, _, rfl⟩
        exact ind_nonneg _
      have hs := rsum_nonneg hb
      have hpos : 0 < rsum (rv.map fun x => ind (sel x)) := lt_of_le_of_ne hs (Ne.symm hne)
      have := zipMul_bounds (inUnit_iff.1 hev) hb
      exact ⟨div_nonneg this.1 hs, (div_le_one hpos).2 this.2⟩

/-! ### pitch sums -/

theorem pitchSum_bounds (ok : Rat → Bool) {rv : List Rat} (hrv : ∀ x ∈ rv, 0 ≤ x) (rc ec : List Rat) :
    0 ≤ pitchSum ok rv rc ec ∧ pitchSum ok rv rc ec ≤ rsum rv := by
  induction rv generalizing rc ec with
  | nil => simp [pitchSum, rsum]
  | cons v rv ih =>
    have hv := hrv v (by simp)
    have hrest := rsum_nonneg (xs := rv) (fun y hy => hrv y (by simp [hy]))
    cases rc with
    | nil => simp only [pitchSum, rsum]; constructor <;> linarith
    | cons r rc =>
      cases ec with
      | nil => simp only [pitchSum, rsum]; constructor <;> linarith
      | cons e ec =>
        simp only [pitchSum, rsum]
        have := ih (fun y hy => hrv y (by simp [hy])) rc ec
        split <;> constructor <;> linarith

theorem pitchSum_mono {ok1 ok2 : Rat → Bool} (h : ∀ d, 0 ≤ d → ok1 d = true → ok2 d = true)
    {rv : List Rat} (hrv : ∀ x ∈ rv, 0 ≤ x) (rc ec : List Rat) :
    pitchSum ok1 rv rc ec ≤ pitchSum ok2 rv rc ec := by
  induction rv generalizing rc ec with
  | nil => simp [pitchSum]
  | cons v rv ih =>
    have hv := hrv v (by simp)
    cases rc with
    | nil => simp [pitchSum]
    | cons r rc =>
      cases ec with
      | nil => simp [pitchSum]
      | cons e ec =>
        simp only [pitchSum]
        have := ih (fun y hy => hrv y (by simp [hy])) rc ec
        by_cases h1 : e ≠ 0 ∧ r ≠ 0 ∧ ok1 (r - e).abs = true
        · have h2 : e ≠ 0 ∧ r ≠ 0 ∧ ok2 (r - e).abs = true :=
            ⟨h1.1, h1.2.1, h _ (rabs_nonneg _) h1.2.2⟩
          rw [if_pos h1, if_pos h2]; linarith
        · rw [if_neg h1]
          split <;> linarith

theorem pitchAccCore_range (ok : Rat → Bool) {rv : List Rat} (hrv : ∀ x ∈ rv, 0 ≤ x) (rc ec : List Rat) :
    0 ≤ pitchAccCore ok rv rc ec ∧ pitchAccCore ok rv rc ec ≤ 1 := by
  unfold pitchAccCore
  split
  · norm_num
  · rename_i h
    split
    · norm_num
    · simp only [Bool.or_eq_true, decide_eq_true_eq, not_or] at h
      have hs := rsum_nonneg hrv
      have hpos : 0 < rsum rv := lt_of_le_of_ne hs (Ne.symm h.1.1.2)
      have := pitchSum_bounds ok hrv rc ec
      exact ⟨div_nonneg this.1 hs, (div_le_one hpos).2 this.2⟩

theorem pitchAccCore_mono {ok1 ok2 : Rat → Bool} (h : ∀ d, 0 ≤ d → ok1 d = true → ok2 d = true)
    {rv : List Rat} (hrv : ∀ x ∈ rv, 0 ≤ x) (rc ec : List Rat) :
    pitchAccCore ok1 rv rc ec ≤ pitchAccCore ok2 rv rc ec := by
  unfold pitchAccCore
  split
  · exact le_refl _
  · rename_i hc
    split
    · exact le_refl _
    · simp only [Bool.or_eq_true, decide_eq_true_eq, not_or] at hc
      have hs := rsum_nonneg hrv
      have hpos : 0 < rsum rv := lt_of_le_of_ne hs (Ne.symm hc.1.1.2)
      exact div_le_div_of_nonneg_right (pitchSum_mono h hrv rc ec) hs

theorem pitchAcc_ok {ok : Rat → Bool} {rv rc ev ec : List Rat} {x : Rat}
    (h : pitchAcc ok rv rc ev ec = .ok x) :
    validVoicingB rv ev = true ∧ validLenB rv rc ev ec = true ∧ x = pitchAccCore ok rv rc ec := by
  unfold pitchAcc at h
  split at h
  · rename_i hv
    simp only [Bool.and_eq_true] at hv
    simp only [Except.ok.injEq] at h
    exact ⟨hv.1, hv.2, h.symm⟩
  · cases h

theorem overallAccuracy_ok {tol : Rat} {rv rc ev ec : List Rat} {x : Rat}
    (h : overallAccuracy rv rc ev ec tol = .ok x) :
    validVoicingB rv ev = true ∧ validLenB rv rc ev ec = true ∧ x = oaCore tol rv rc ev ec := by
  unfold overallAccuracy at h
  split at h
  · rename_i hv
    simp only [Bool.and_eq_true] at hv
    simp only [Except.ok.injEq] at h
    exact ⟨hv.1, hv.2, h.symm⟩
  · cases h

/-! ### overall accuracy -/

theorem oaSum_bounds (tol : Rat) {rv ev : List Rat} (hrv : ∀ x ∈ rv, 0 ≤ x ∧ x ≤ 1)
    (hev : ∀ x ∈ ev, 0 ≤ x ∧ x ≤ 1) (rc ec : List Rat) :
    0 ≤ oaSum tol rv rc ev ec ∧ oaSum tol rv rc ev ec ≤ rsum rv := by
  induction rv generalizing rc ev ec with
  | nil => simp [oaSum, rsum]
  | cons v rv ih =>
    have hv := hrv v (by simp)
    have hrest := rsum_nonneg (xs := rv) (fun y hy => (hrv y (by simp [hy])).1)
    cases rc with
    | nil => simp only [oaSum, rsum]; constructor <;> linarith
    | cons r rc =>
      cases ev with
      | nil => simp only [oaSum, rsum]; constructor <;> linarith
      | cons w ev =>
        cases ec with
        | nil => simp only [oaSum, rsum]; constructor <;> linarith
        | cons e ec =>
          simp only [oaSum, rsum]
          have hw := hev w (by simp)
          have := ih (ev := ev) (fun y hy => hrv y (by simp [hy])) (fun y hy => hev y (by simp [hy])) rc ec
          have h1 : 0 ≤ v * w := mul_nonneg hv.1 hw.1
          have h2 : v * w ≤ v := by nlinarith
          split <;> constructor <;> linarith

theorem oaSum_mono {t1 t2 : Rat} (ht : t1 ≤ t2) {rv ev : List Rat} (hrv : ∀ x ∈ rv, 0 ≤ x)
    (hev : ∀ x ∈ ev, 0 ≤ x) (rc ec : List Rat) :
    oaSum t1 rv rc ev ec ≤ oaSum t2 rv rc ev ec := by
  induction rv generalizing rc ev ec with
  | nil => simp [oaSum]
  | cons v rv ih =>
    have hv := hrv v (by simp)
    cases rc with
    | nil => simp [oaSum]
    | cons r rc =>
      cases ev with
      | nil => simp [oaSum]
      | cons w ev =>
        cases ec with
        | nil => simp [oaSum]
        | cons e ec =>
          simp only [oaSum]
          have hw := hev w (by simp)
          have := ih (ev := ev) (fun y hy => hrv y (by simp [hy])) (fun y hy => hev y (by simp [hy])) rc ec
          have h1 : 0 ≤ v * w := mul_nonneg hv hw
          by_cases c1 : e ≠ 0 ∧ r ≠ 0 ∧ (r - e).abs < t1
          · have c2 : e ≠ 0 ∧ r ≠ 0 ∧ (r - e).abs < t2 := ⟨c1.1, c1.2.1, lt_of_lt_of_le c1.2.2 ht⟩
            rw [if_pos c1, if_pos c2]; linarith
          · rw [if_neg c1]
            split <;> linarith

theorem voicedCount_cons (v : Rat) (rv : List Rat) :
    voicedCount (v :: rv) = ind (isVoiced v) + voicedCount rv := by
  simp [voicedCount, rsum]

theorem voicedCount_nonneg (rv : List Rat) : 0 ≤ voicedCount rv := by
  induction rv with
  | nil => simp [voicedCount, rsum]
  | cons v rv ih => rw [voicedCount_cons]; have := ind_nonneg (isVoiced v); linarith

theorem unvSum_bounds {ev : List Rat} (hev : ∀ x ∈ ev, 0 ≤ x ∧ x ≤ 1) (rv : List Rat) :
    0 ≤ unvSum rv ev ∧ unvSum rv ev ≤ (rv.length : Rat) - voicedCount rv := by
  induction rv generalizing ev with
  | nil => simp [unvSum, voicedCount, rsum]
  | cons v rv ih =>
    have h0 := ind_nonneg (isVoiced v)
    have h1 := ind_le_one (isVoiced v)
    cases ev with
    | nil =>
      have hh := ih (ev := []) (by simp)
      have : unvSum rv [] = 0 := by cases rv <;> simp [unvSum]
      rw [this] at hh
      simp only [unvSum, voicedCount_cons, List.length_cons, Nat.cast_add, Nat.cast_one]
      constructor <;> linarith
    | cons w ev =>
      have hw := hev w (by simp)
      have := ih (ev := ev) (fun y hy => hev y (by simp [hy]))
      simp only [unvSum, voicedCount_cons, List.length_cons, Nat.cast_add, Nat.cast_one]
      have a : 0 ≤ (1 - ind (isVoiced v)) * (1 - w) := mul_nonneg (by linarith) (by linarith)
      have b : (1 - ind (isVoiced v)) * (1 - w) ≤ 1 - ind (isVoiced v) := by nlinarith
      constructor <;> linarith

theorem oaCore_range (tol : Rat) {rv ev : List Rat} (hrv : ∀ x ∈ rv, 0 ≤ x ∧ x ≤ 1)
    (hev : ∀ x ∈ ev, 0 ≤ x ∧ x ≤ 1) (rc ec : List Rat) :
    0 ≤ oaCore tol rv rc ev ec ∧ oaCore tol rv rc ev ec ≤ 1 := by
  unfold oaCore
  split
  · norm_num
  · rename_i hc
    simp only [Bool.or_eq_true, not_or, List.isEmpty_iff] at hc
    have hn : 0 < (rv.length : Rat) := by
      have : rv ≠ [] := hc.1.1.1
      have : 0 < rv.length := List.length_pos_iff.2 this
      exact_mod_cast this
    have hoa := oaSum_bounds tol hrv hev rc ec
    have hun := unvSum_bounds hev rv
    have hvc := voicedCount_nonneg rv
    have hs := rsum_nonneg (xs := rv) (fun y hy => (hrv y hy).1)
    simp only
    have hratio : 0 ≤ (if rsum rv = 0 then 0 else voicedCount rv / rsum rv) * oaSum tol rv rc ev ec ∧
        (if rsum rv = 0 then 0 else voicedCount rv / rsum rv) * oaSum tol rv rc ev ec ≤ voicedCount rv := by
      split
      · simp [hvc]
      · rename_i hne
        have hpos : 0 < rsum rv := lt_of_le_of_ne hs (Ne.symm hne)
        constructor
        · exact mul_nonneg (div_nonneg hvc hs) hoa.1
        · rw [div_mul_eq_mul_div, div_le_iff₀ hpos]
          nlinarith
    constructor
    · apply div_nonneg _ hn.le; linarith
    · rw [div_le_one hn]; linarith

/-! ### chroma distance: `|d - 1200·⌊d/1200 + ½⌋|` is the distance from `d` to the lattice `1200·ℤ` -/

/-- the octave index chosen by the folding -/
def octIdx (d : Rat) : Int := (d / 1200 + 1 / 2).floor

theorem chromaDist_eq (d : Rat) : chromaDist d = (d - 1200 * (octIdx d : Rat)).abs := rfl

theorem fold_range (d : Rat) :
    -600 ≤ d - 1200 * (octIdx d : Rat) ∧ d - 1200 * (octIdx d : Rat) < 600 := by
  have h1 := Rat.floor_le (d / 1200 + 1 / 2)
  have h2 := Rat.lt_floor_add_one (d / 1200 + 1 / 2)
  push_cast at h2
  unfold octIdx
  constructor <;> linarith

theorem chromaDist_nonneg (d : Rat) : 0 ≤ chromaDist d := rabs_nonneg _

theorem chromaDist_le_600 (d : Rat) : chromaDist d ≤ 600 := by
  rw [chromaDist_eq]
  have := fold_range d
  rcases rabs_cases (d - 1200 * (octIdx d : Rat)) with ⟨_, h⟩ | ⟨_, h⟩ <;> rw [h] <;> linarith

/-- no multiple of 1200 is closer to `d` than the one the folding picks -/
theorem chromaDist_le (d : Rat) (k : Int) : chromaDist d ≤ (d - 1200 * (k : Rat)).abs := by
  have hr := fold_range d
  have h600 := chromaDist_le_600 d
  rcases lt_trichotomy (octIdx d) k with hlt | heq | hgt
  · have : ((octIdx d : Int) : Rat) + 1 ≤ (k : Rat) := by exact_mod_cast hlt
    have hneg : d - 1200 * (k : Rat) ≤ -600 := by linarith
    have := neg_le_rabs (d - 1200 * (k : Rat))
    linarith
  · rw [← heq, chromaDist_eq]
  · have : ((k : Int) : Rat) + 1 ≤ (octIdx d : Rat) := by exact_mod_cast hgt
    have hpos : 600 ≤ d - 1200 * (k : Rat) := by linarith
    have := le_rabs (d - 1200 * (k : Rat))
    linarith

theorem chromaDist_attained (d : Rat) : ∃ k : Int, chromaDist d = (d - 1200 * (k : Rat)).abs :=
  ⟨octIdx d, rfl⟩

theorem chromaDist_le_abs (d : Rat) : chromaDist d ≤ d.abs := by
  have := chromaDist_le d 0
  simpa using this

theorem chromaDist_neg (d : Rat) : chromaDist (-d) = chromaDist d := by
  apply le_antisymm
  · have := chromaDist_le (-d) (-(octIdx d))
    rw [chromaDist_eq d, ← rabs_neg (d - 1200 * (octIdx d : Rat))]
    have e : -(d - 1200 * (octIdx d : Rat)) = -d - 1200 * ((-(octIdx d) : Int) : Rat) := by push_cast; ring
    rw [e]; exact this
  · have := chromaDist_le d (-(octIdx (-d)))
    rw [chromaDist_eq (-d), ← rabs_neg (-d - 1200 * (octIdx (-d) : Rat))]
    have e : -(-d - 1200 * (octIdx (-d) : Rat)) = d - 1200 * ((-(octIdx (-d)) : Int) : Rat) := by push_cast; ring
    rw [e]; exact this

theorem chromaDist_abs (d : Rat) : chromaDist d.abs = chromaDist d := by
  rcases rabs_cases d with ⟨_, h⟩ | ⟨_, h⟩ <;> rw [h]
  exact chromaDist_neg d

theorem octIdx_add_int (d : Rat) (k : Int) : octIdx (d + 1200 * (k : Rat)) = octIdx d + k := by
  unfold octIdx
  have : (d + 1200 * (k : Rat)) / 1200 + 1 / 2 = (d / 1200 + 1 / 2) + (k : Rat) := by ring
  rw [this, Rat.floor_add_intCast]

theorem chromaDist_add_int (d : Rat) (k : Int) : chromaDist (d + 1200 * (k : Rat)) = chromaDist d := by
  rw [chromaDist_eq, chromaDist_eq, octIdx_add_int]
  congr 1
  push_cast; ring

/-- the chroma distance of a pitch difference does not change when the estimate moves by whole octaves -/
theorem chromaDist_shift_est (r e : Rat) (k : Int) :
    chromaDist (r - (e + 1200 * (k : Rat))).abs = chromaDist (r - e).abs := by
  rw [chromaDist_abs, chromaDist_abs]
  have : r - (e + 1200 * (k : Rat)) = (r - e) + 1200 * ((-k : Int) : Rat) := by push_cast; ring
  rw [this, chromaDist_add_int]

theorem chromaDist_zero : chromaDist 0 = 0 := by
  have h := chromaDist_le_abs 0
  rw [rabs_zero] at h
  exact le_antisymm h (chromaDist_nonneg 0)

/-! ### a perfect estimate (binary voicing, every voiced frame pitched) -/

theorem isBinary_iff {v : List Rat} : isBinary v = true ↔ ∀ x ∈ v, x = 0 ∨ x = 1 := by
  simp [isBinary, List.all_eq_true]

theorem ind_isVoiced_of_binary {x : Rat} (h : x = 0 ∨ x = 1) : ind (isVoiced x) = x := by
  rcases h with rfl | rfl <;> simp [ind, isVoiced]

theorem voicedCount_eq_rsum {v : List Rat} (hb : ∀ x ∈ v, x = 0 ∨ x = 1) : voicedCount v = rsum v := by
  induction v with
  | nil => simp [voicedCount, rsum]
  | cons x v ih =>
    rw [voicedCount_cons, ih (fun y hy => hb y (by simp [hy])), ind_isVoiced_of_binary (hb x (by simp))]
    simp [rsum]

theorem self_voiced_sum {v : List Rat} (hb : ∀ x ∈ v, x = 0 ∨ x = 1) :
    rsum (List.zipWith (· * ·) v (v.map fun x => ind (isVoiced x))) = rsum (v.map fun x => ind (isVoiced x)) := by
  induction v with
  | nil => simp [rsum]
  | cons x v ih =>
    simp only [List.map_cons, List.zipWith_cons_cons, rsum]
    rw [ih (fun y hy => hb y (by simp [hy]))]
    rcases hb x (by simp) with rfl | rfl <;> simp [ind, isVoiced]

theorem self_unvoiced_sum (v : List Rat) :
    rsum (List.zipWith (· * ·) v (v.map fun x => ind (isUnvoiced x))) = 0 := by
  induction v with
  | nil => simp [rsum]
  | cons x v ih =>
    simp only [List.map_cons, List.zipWith_cons_cons, rsum]
    rw [ih]
    by_cases hx : x = 0 <;> simp [ind, isUnvoiced, hx]

theorem pitchSum_self {ok : Rat → Bool} (h0 : ok 0 = true) {v c : List Rat} (hlen : v.length = c.length)
    (hz : ∀ p ∈ List.zip v c, p.1 ≠ 0 → p.2 ≠ 0) : pitchSum ok v c c = rsum v := by
  induction v generalizing c with
  | nil => simp [pitchSum, rsum]
  | cons a v ih =>
    cases c with
    | nil => simp at hlen
    | cons b c =>
      simp only [pitchSum, rsum, sub_self, rabs_zero, h0, and_true, and_self]
      rw [ih (by simpa using hlen) (fun p hp => hz p (by simp [hp]))]
      by_cases ha : a = 0
      · subst ha; split <;> rfl
      · have hb : b ≠ 0 := hz (a, b) (by simp) ha
        simp [hb]

theorem nonzeroCount_self_pos {v c : List Rat} (hex : ∃ p ∈ List.zip v c, 0 < p.1)
    (hz : ∀ p ∈ List.zip v c, p.1 ≠ 0 → p.2 ≠ 0) : 0 < nonzeroCount c c := by
  induction v generalizing c with
  | nil => simp at hex
  | cons a v ih =>
    cases c with
    | nil => simp at hex
    | cons b c =>
      simp only [nonzeroCount, and_self]
      by_cases hb : b = 0
      · obtain ⟨p, hp, hpos⟩ := hex
        simp only [List.zip_cons_cons, List.mem_cons] at hp
        rcases hp with rfl | hp
        · exact absurd hb (hz (a, b) (by simp) (ne_of_gt hpos))
        · have := ih (c := c) ⟨p, hp, hpos⟩ (fun q hq => hz q (by simp [hq]))
          omega
      · simp [hb]

theorem oaSum_self {tol : Rat} (ht : 0 < tol) {v c : List Rat} (hlen : v.length = c.length)
    (hb : ∀ x ∈ v, x = 0 ∨ x = 1) (hz : ∀ p ∈ List.zip v c, p.1 ≠ 0 → p.2 ≠ 0) :
    oaSum tol v c v c = rsum v := by
  induction v generalizing c with
  | nil => simp [oaSum, rsum]
  | cons a v ih =>
    cases c with
    | nil => simp at hlen
    | cons b c =>
      simp only [oaSum, rsum, sub_self, rabs_zero, ht, and_true, and_self]
      rw [ih (by simpa using hlen) (fun y hy => hb y (by simp [hy])) (fun p hp => hz p (by simp [hp]))]
      rcases hb a (by simp) with rfl | rfl
      · simp
      · have hb' : b ≠ 0 := hz (1, b) (by simp) (by norm_num)
        simp [hb']

theorem unvSum_self {v : List Rat} (hb : ∀ x ∈ v, x = 0 ∨ x = 1) :
    unvSum v v = (v.length : Rat) - voicedCount v := by
  induction v with
  | nil => simp [unvSum, voicedCount, rsum]
  | cons a v ih =>
    simp only [unvSum, voicedCount_cons, List.length_cons, Nat.cast_add, Nat.cast_one]
    rw [ih (fun y hy => hb y (by simp [hy]))]
    rcases hb a (by simp) with rfl | rfl <;> simp [ind, isVoiced] <;> ring

theorem rsum_pos_of_voiced {v : List Rat} (hb : ∀ x ∈ v, x = 0 ∨ x = 1) (hex : ∃ x ∈ v, 0 < x) :
    0 < rsum v := by
  have hnn : ∀ x ∈ v, (0 : Rat) ≤ x := fun x hx => by rcases hb x hx with rfl | rfl <;> norm_num
  rcases lt_or_eq_of_le (rsum_nonneg hnn) with h | h
  · exact h
  · obtain ⟨x, hx, hpos⟩ := hex
    have := rsum_eq_zero hnn h.symm x hx
    linarith

/-! ### an estimate that is a copy of the reference goes through `to_cent_voicing` unchanged -/

theorem zip_self_mem {α : Type} {t : List α} : ∀ p ∈ List.zip t t, p.1 = p.2 := by
  induction t with
  | nil => simp
  | cons a t ih =>
    intro p hp
    simp only [List.zip_cons_cons, List.mem_cons] at hp
    rcases hp with rfl | hp
    · rfl
    · exact ih p hp

theorem allclose_self (t : List Rat) : allclose t t = true := by
  unfold allclose
  rw [List.all_eq_true]
  intro p hp
  have h := zip_self_mem p hp
  simp only [decide_eq_true_eq]
  rw [h, sub_self, rabs_zero]
  have := rabs_nonneg p.2
  positivity

theorem resample_self (t f v : List Rat) (kind : Kind) : resampleMelodySeries t f v t kind = .ok (f, v) := by
  unfold resampleMelodySeries
  rw [if_pos ⟨rfl, allclose_self t⟩]

theorem fitLength_self (c v : List Rat) : fitLength c.length v.length c v = (c, v) := by
  simp [fitLength]

theorem toCentVoicing_self {t : List Rat} {f : List Freq} {hop : Option Rat} {kind : Kind} {cv : CentVoicing}
    (h : toCentVoicing t f t f none none hop kind = .ok cv) :
    cv.estVoicing = cv.refVoicing ∧ cv.estCent = cv.refCent := by
  cases hp : padStart t f none with
  | error e => simp [toCentVoicing, hp] at h
  | ok r =>
    obtain ⟨t', f', a'⟩ := r
    simp only [toCentVoicing, hp] at h
    cases hf : freqToVoicing f' a' with
    | error e => simp [hf] at h
    | ok r2 =>
      obtain ⟨F, V⟩ := r2
      simp only [hf, alignSeries] at h
      cases hop with
      | none =>
        simp only [resample_self, fitLength_self, Except.ok.injEq] at h
        subst h
        exact ⟨rfl, rfl⟩
      | some hp' =>
        simp only at h
        cases hm : maxOf t' with
        | none => simp [hm] at h
        | some m =>
          simp only [hm] at h
          cases hc : constantHopTimebase hp' m with
          | error e => simp [hc] at h
          | ok tb =>
            simp only [hc] at h
            cases hr : resampleMelodySeries t' (hz2cents F) V tb kind with
            | error e => simp [hr] at h
            | ok r3 =>
              obtain ⟨C', V'⟩ := r3
              simp only [hr, fitLength_self, Except.ok.injEq] at h
              subst h
              exact ⟨rfl, rfl⟩

/-! ### re-expressing the cent arrays frame by frame (octave shifts, common transposition) -/

theorem nonzeroCount_map (f g : Rat → Rat) (rc ec : List Rat)
    (h : ∀ r ∈ rc, ∀ e ∈ ec, (g e ≠ 0 ∧ f r ≠ 0) ↔ (e ≠ 0 ∧ r ≠ 0)) :
    nonzeroCount (rc.map f) (ec.map g) = nonzeroCount rc ec := by
  induction rc generalizing ec with
  | nil => simp [nonzeroCount]
  | cons r rc ih =>
    cases ec with
    | nil => simp [nonzeroCount]
    | cons e ec =>
      simp only [List.map_cons, nonzeroCount]
      rw [ih ec (fun r' hr e' he => h r' (by simp [hr]) e' (by simp [he]))]
      rw [if_congr (h r (by simp) e (by simp)) rfl rfl]

theorem pitchSum_map {ok : Rat → Bool} (f g : Rat → Rat) (rv rc ec : List Rat)
    (h : ∀ r ∈ rc, ∀ e ∈ ec, (g e ≠ 0 ∧ f r ≠ 0 ∧ ok (f r - g e).abs = true) ↔
      (e ≠ 0 ∧ r ≠ 0 ∧ ok (r - e).abs = true)) :
    pitchSum ok rv (rc.map f) (ec.map g) = pitchSum ok rv rc ec := by
  induction rv generalizing rc ec with
  | nil => simp [pitchSum]
  | cons v rv ih =>
    cases rc with
    | nil => simp [pitchSum]
    | cons r rc =>
      cases ec with
      | nil => simp [pitchSum]
      | cons e ec =>
        simp only [List.map_cons, pitchSum]
        rw [ih rc ec (fun r' hr e' he => h r' (by simp [hr]) e' (by simp [he]))]
        rw [if_congr (h r (by simp) e (by simp)) rfl rfl]

theorem oaSum_map {tol : Rat} (f g : Rat → Rat) (rv rc ev ec : List Rat)
    (h : ∀ r ∈ rc, ∀ e ∈ ec, (g e ≠ 0 ∧ f r ≠ 0 ∧ (f r - g e).abs < tol) ↔
      (e ≠ 0 ∧ r ≠ 0 ∧ (r - e).abs < tol)) :
    oaSum tol rv (rc.map f) ev (ec.map g) = oaSum tol rv rc ev ec := by
  induction rv generalizing rc ev ec with
  | nil => simp [oaSum]
  | cons v rv ih =>
    cases rc with
    | nil => simp [oaSum]
    | cons r rc =>
      cases ev with
      | nil => simp [oaSum]
      | cons w ev =>
        cases ec with
        | nil => simp [oaSum]
        | cons e ec =>
          simp only [List.map_cons, oaSum]
          rw [ih rc ev ec (fun r' hr e' he => h r' (by simp [hr]) e' (by simp [he]))]
          rw [if_congr (h r (by simp) e (by simp)) rfl rfl]

theorem pitchAccCore_map {ok : Rat → Bool} (f g : Rat → Rat) (rv rc ec : List Rat)
    (h : ∀ r ∈ rc, ∀ e ∈ ec, (g e ≠ 0 ∧ f r ≠ 0 ∧ ok (f r - g e).abs = true) ↔
      (e ≠ 0 ∧ r ≠ 0 ∧ ok (r - e).abs = true))
    (h0 : ∀ r ∈ rc, ∀ e ∈ ec, (g e ≠ 0 ∧ f r ≠ 0) ↔ (e ≠ 0 ∧ r ≠ 0)) :
    pitchAccCore ok rv (rc.map f) (ec.map g) = pitchAccCore ok rv rc ec := by
  unfold pitchAccCore
  rw [pitchSum_map f g rv rc ec h, nonzeroCount_map f g rc ec h0]
  simp only [List.isEmpty_map]

theorem pitchAcc_map {ok : Rat → Bool} (f g : Rat → Rat) (rv rc ev ec : List Rat)
    (h : ∀ r ∈ rc, ∀ e ∈ ec, (g e ≠ 0 ∧ f r ≠ 0 ∧ ok (f r - g e).abs = true) ↔
      (e ≠ 0 ∧ r ≠ 0 ∧ ok (r - e).abs = true))
    (h0 : ∀ r ∈ rc, ∀ e ∈ ec, (g e ≠ 0 ∧ f r ≠ 0) ↔ (e ≠ 0 ∧ r ≠ 0)) :
    pitchAcc ok rv (rc.map f) ev (ec.map g) = pitchAcc ok rv rc ev ec := by
  unfold pitchAcc
  rw [pitchAccCore_map f g rv rc ec h h0]
  simp only [validLenB, List.length_map]
  rfl

theorem overallAccuracy_map {tol : Rat} (f g : Rat → Rat) (rv rc ev ec : List Rat)
    (h : ∀ r ∈ rc, ∀ e ∈ ec, (g e ≠ 0 ∧ f r ≠ 0 ∧ (f r - g e).abs < tol) ↔
      (e ≠ 0 ∧ r ≠ 0 ∧ (r - e).abs < tol)) :
    overallAccuracy rv (rc.map f) ev (ec.map g) tol = overallAccuracy rv rc ev ec tol := by
  unfold overallAccuracy oaCore
  rw [oaSum_map f g rv rc ev ec h]
  simp only [validLenB, List.length_map, List.isEmpty_map]

/-- add `δ` cents to a pitched frame, leave "no pitch" (0) alone -/
def shiftCents (δ : Rat) (x : Rat) : Rat := if x = 0 then 0 else x + δ

/-! ### the estimated voicing does not reach the estimated cents -/

theorem resample_fst_indep (t f v v' tn : List Rat) (kind : Kind) (hlen : v.length = v'.length) :
    (resampleMelodySeries t f v tn kind).map Prod.fst = (resampleMelodySeries t f v' tn kind).map Prod.fst := by
  unfold resampleMelodySeries
  split
  · rfl
  · rw [hlen]
    split
    · rfl
    · simp only []
      cases maxOf (List.map round10 tn) with
      | none => rfl
      | some mn =>
        cases maxOf (List.map round10 t) with
        | none => rfl
        | some mt =>
          simp only []
          split <;> rfl

theorem fitLength_fst (n m : Nat) (c v v' : List Rat) : (fitLength n m c v).1 = (fitLength n m c v').1 := by
  unfold fitLength; split <;> rfl

/-- what `alignSeries` delivers apart from the estimated voicing -/
def CentVoicing.pitchPart (cv : CentVoicing) : List Rat × List Rat × List Rat :=
  (cv.refVoicing, cv.refCent, cv.estCent)

theorem alignSeries_estVoicing_indep (rt rc rv et ec ev ev' : List Rat) (hop : Option Rat) (kind : Kind)
    (hlen : ev.length = ev'.length) :
    (alignSeries rt rc rv et ec ev hop kind).map CentVoicing.pitchPart =
    (alignSeries rt rc rv et ec ev' hop kind).map CentVoicing.pitchPart := by
  unfold alignSeries
  cases hop with
  | none =>
    simp only
    have h := resample_fst_indep et ec ev ev' rt kind hlen
    cases h1 : resampleMelodySeries et ec ev rt kind with
    | error e1 =>
      cases h2 : resampleMelodySeries et ec ev' rt kind with
      | error e2 =>
        rw [h1, h2] at h; simp only [Except.map, Except.error.injEq] at h; subst h; rfl
      | ok r2 => rw [h1, h2] at h; simp [Except.map] at h
    | ok r1 =>
      cases h2 : resampleMelodySeries et ec ev' rt kind with
      | error e2 => rw [h1, h2] at h; simp [Except.map] at h
      | ok r2 =>
        rw [h1, h2] at h
        simp only [Except.map, Except.ok.injEq] at h
        obtain ⟨a, b⟩ := r1
        obtain ⟨a', b'⟩ := r2
        simp only at h
        subst h
        simp only [Except.map, CentVoicing.pitchPart, fitLength_fst _ _ a b b']
  | some hp =>
    simp only
    cases maxOf rt with
    | none => rfl
    | some mr =>
      cases maxOf et with
      | none => rfl
      | some me =>
        simp only
        cases constantHopTimebase hp mr with
        | error e => rfl
        | ok tbR =>
          simp only
          cases resampleMelodySeries rt rc rv tbR kind with
          | error e => rfl
          | ok rr =>
            obtain ⟨rc2, rv2⟩ := rr
            simp only
            cases constantHopTimebase hp me with
            | error e => rfl
            | ok tbE =>
              simp only
              have h := resample_fst_indep et ec ev ev' tbE kind hlen
              cases h1 : resampleMelodySeries et ec ev tbE kind with
              | error e1 =>
                cases h2 : resampleMelodySeries et ec ev' tbE kind with
                | error e2 =>
        rw [h1, h2] at h; simp only [Except.map, Except.error.injEq] at h; subst h; rfl
                | ok r2 => rw [h1, h2] at h; simp [Except.map] at h
              | ok r1 =>
                cases h2 : resampleMelodySeries et ec ev' tbE kind with
                | error e2 => rw [h1, h2] at h; simp [Except.map] at h
                | ok r2 =>
                  rw [h1, h2] at h
                  simp only [Except.map, Except.ok.injEq] at h
                  obtain ⟨a, b⟩ := r1
                  obtain ⟨a', b'⟩ := r2
                  simp only at h
                  subst h
                  simp only [Except.map, CentVoicing.pitchPart, fitLength_fst _ _ a b b']

/-! ### binary voicings: the weighted sums are frame counts -/

theorem rsum_map_ind (sel : Rat → Bool) (xs : List Rat) :
    rsum (xs.map fun x => ind (sel x)) = ((xs.countP sel : Nat) : Rat) := by
  induction xs with
  | nil => simp [rsum]
  | cons x xs ih =>
    simp only [List.map_cons, rsum, ih, List.countP_cons, Nat.cast_add]
    cases sel x <;> simp [ind, add_comm]

theorem zipMul_count {sel : Rat → Bool} {ev : List Rat} (hb : ∀ x ∈ ev, x = 0 ∨ x = 1) (rv : List Rat) :
    rsum (List.zipWith (· * ·) ev (rv.map fun x => ind (sel x))) =
      (((List.zip rv ev).countP fun p => sel p.1 && isVoiced p.2 : Nat) : Rat) := by
  induction rv generalizing ev with
  | nil => simp [rsum]
  | cons v rv ih =>
    cases ev with
    | nil => simp [rsum]
    | cons w ev =>
      simp only [List.map_cons, List.zipWith_cons_cons, rsum, List.zip_cons_cons, List.countP_cons,
        Nat.cast_add, ih (ev := ev) (fun y hy => hb y (by simp [hy]))]
      rcases hb w (by simp) with rfl | rfl <;> cases sel v <;> simp [ind, isVoiced, add_comm]

theorem pitchSum_count {ok : Rat → Bool} {rv : List Rat} (hb : ∀ x ∈ rv, x = 0 ∨ x = 1) (rc ec : List Rat) :
    pitchSum ok rv rc ec =
      (((List.zip rv (List.zip rc ec)).countP fun p =>
          isVoiced p.1 && (decide (p.2.2 ≠ 0) && decide (p.2.1 ≠ 0) && ok (p.2.1 - p.2.2).abs) : Nat) : Rat) := by
  induction rv generalizing rc ec with
  | nil => simp [pitchSum]
  | cons v rv ih =>
    cases rc with
    | nil => simp [pitchSum]
    | cons r rc =>
      cases ec with
      | nil => simp [pitchSum]
      | cons e ec =>
        simp only [pitchSum, List.zip_cons_cons, List.countP_cons, Nat.cast_add,
          ih (fun y hy => hb y (by simp [hy])) rc ec]
        rcases hb v (by simp) with rfl | rfl
        · simp [isVoiced]
        · by_cases h : e ≠ 0 ∧ r ≠ 0 ∧ ok (r - e).abs = true
          · have : (decide (e ≠ 0) && decide (r ≠ 0) && ok (r - e).abs) = true := by simp [h.1, h.2.1, h.2.2]
            simp only [if_pos h, isVoiced, this]; simp [add_comm]
          · have : (decide (e ≠ 0) && decide (r ≠ 0) && ok (r - e).abs) = false := by
              rw [Bool.eq_false_iff]; intro hc
              simp only [Bool.and_eq_true, decide_eq_true_eq] at hc
              exact h ⟨hc.1.1, hc.1.2, hc.2⟩
            simp only [if_neg h, isVoiced, this]; simp

theorem oaSum_count {tol : Rat} {rv ev : List Rat} (hb : ∀ x ∈ rv, x = 0 ∨ x = 1)
    (hb' : ∀ x ∈ ev, x = 0 ∨ x = 1) (rc ec : List Rat) :
    oaSum tol rv rc ev ec =
      (((List.zip rv (List.zip rc (List.zip ev ec))).countP fun p =>
          isVoiced p.1 && isVoiced p.2.2.1 &&
            (decide (p.2.2.2 ≠ 0) && decide (p.2.1 ≠ 0) && decide ((p.2.1 - p.2.2.2).abs < tol)) : Nat) : Rat) := by
  induction rv generalizing rc ev ec with
  | nil => simp [oaSum]
  | cons v rv ih =>
    cases rc with
    | nil => simp [oaSum]
    | cons r rc =>
      cases ev with
      | nil => simp [oaSum]
      | cons w ev =>
        cases ec with
        | nil => simp [oaSum]
        | cons e ec =>
          simp only [oaSum, List.zip_cons_cons, List.countP_cons, Nat.cast_add,
            ih (ev := ev) (fun y hy => hb y (by simp [hy])) (fun y hy => hb' y (by simp [hy])) rc ec]
          by_cases h : e ≠ 0 ∧ r ≠ 0 ∧ (r - e).abs < tol
          · have : (decide (e ≠ 0) && decide (r ≠ 0) && decide ((r - e).abs < tol)) = true := by
              simp [h.1, h.2.1, h.2.2]
            simp only [if_pos h, this]
            rcases hb v (by simp) with rfl | rfl <;> rcases hb' w (by simp) with rfl | rfl <;>
              simp [isVoiced, add_comm]
          · have : (decide (e ≠ 0) && decide (r ≠ 0) && decide ((r - e).abs < tol)) = false := by
              rw [Bool.eq_false_iff]; intro hc
              simp only [Bool.and_eq_true, decide_eq_true_eq] at hc
              exact h ⟨hc.1.1, hc.1.2, hc.2⟩
            simp only [if_neg h, this]; simp

theorem unvSum_count {rv ev : List Rat} (hb : ∀ x ∈ rv, x = 0 ∨ x = 1) (hb' : ∀ x ∈ ev, x = 0 ∨ x = 1) :
    unvSum rv ev = (((List.zip rv ev).countP fun p => !isVoiced p.1 && !isVoiced p.2 : Nat) : Rat) := by
  induction rv generalizing ev with
  | nil => simp [unvSum]
  | cons v rv ih =>
    cases ev with
    | nil => simp [unvSum]
    | cons w ev =>
      simp only [unvSum, List.zip_cons_cons, List.countP_cons, Nat.cast_add,
        ih (ev := ev) (fun y hy => hb y (by simp [hy])) (fun y hy => hb' y (by simp [hy]))]
      rcases hb v (by simp) with rfl | rfl <;> rcases hb' w (by simp) with rfl | rfl <;>
        simp [isVoiced, ind, add_comm]

/-! ### interpolation on strictly increasing knots -/

/-- strictly increasing time stamps -/
def Increasing (ks : List (Rat × Rat)) : Prop := ks.Pairwise fun a b => a.1 < b.1

private theorem head_le_of_split {q : Rat × Rat} {rest' l₁ l₂ : List (Rat × Rat)} {a b : Rat × Rat}
    (hs : Increasing (q :: rest')) (hd : q :: rest' = l₁ ++ a :: b :: l₂) : q.1 ≤ a.1 := by
  have ha : a ∈ q :: rest' := by rw [hd]; simp
  rcases List.mem_cons.1 ha with rfl | ha
  · exact le_refl _
  · exact le_of_lt (List.rel_of_pairwise_cons hs ha)

/-- between two consecutive knots `a`, `b` the linear interpolant is the chord through them -/
theorem interpLinear_segment {p : Rat × Rat} {rest l₁ l₂ : List (Rat × Rat)} {a b : Rat × Rat} {x : Rat}
    (hs : Increasing (p :: rest)) (hd : p :: rest = l₁ ++ a :: b :: l₂) (ha : a.1 ≤ x) (hb : x < b.1) :
    interpLinear p rest x = a.2 + (b.2 - a.2) / (b.1 - a.1) * (x - a.1) := by
  induction l₁ generalizing p rest with
  | nil =>
    simp only [List.nil_append, List.cons.injEq] at hd
    obtain ⟨rfl, rfl⟩ := hd
    simp [interpLinear, hb]
  | cons c l₁ ih =>
    simp only [List.cons_append, List.cons.injEq] at hd
    obtain ⟨rfl, hrest⟩ := hd
    cases rest with
    | nil => simp at hrest
    | cons q rest' =>
      have hs' : Increasing (q :: rest') := List.Pairwise.of_cons hs
      have hq : q.1 ≤ a.1 := head_le_of_split hs' hrest
      have : ¬ x < q.1 := not_lt.2 (le_trans hq ha)
      simp only [interpLinear, this, if_false]
      exact ih hs' hrest

/-- … and the zero-order hold keeps the value of the left knot -/
theorem interpZero_segment {p : Rat × Rat} {rest l₁ l₂ : List (Rat × Rat)} {a b : Rat × Rat} {x : Rat}
    (hs : Increasing (p :: rest)) (hd : p :: rest = l₁ ++ a :: b :: l₂) (ha : a.1 ≤ x) (hb : x < b.1) :
    interpZero p rest x = a.2 := by
  induction l₁ generalizing p rest with
  | nil =>
    simp only [List.nil_append, List.cons.injEq] at hd
    obtain ⟨rfl, rfl⟩ := hd
    simp [interpZero, hb]
  | cons c l₁ ih =>
    simp only [List.cons_append, List.cons.injEq] at hd
    obtain ⟨rfl, hrest⟩ := hd
    cases rest with
    | nil => simp at hrest
    | cons q rest' =>
      have hs' : Increasing (q :: rest') := List.Pairwise.of_cons hs
      have hq : q.1 ≤ a.1 := head_le_of_split hs' hrest
      have : ¬ x < q.1 := not_lt.2 (le_trans hq ha)
      simp only [interpZero, this, if_false]
      exact ih hs' hrest

/-- at (or beyond) the last knot both interpolants return the last value -/
theorem interp_last {p : Rat × Rat} {rest : List (Rat × Rat)} {x : Rat} (h : ∀ q ∈ p :: rest, q.1 ≤ x) :
    interpLinear p rest x = ((p :: rest).getLast (by simp)).2 ∧
    interpZero p rest x = ((p :: rest).getLast (by simp)).2 := by
  induction rest generalizing p with
  | nil => simp [interpLinear, interpZero]
  | cons q rest ih =>
    have hq : ¬ x < q.1 := not_lt.2 (h q (by simp))
    simp only [interpLinear, interpZero, hq, if_false, List.getLast_cons_cons]
    exact ih (fun r hr => h r (by simp [hr]))

/-- at a knot the linear interpolant returns the knot's value -/
theorem interpLinear_knot {p : Rat × Rat} {rest l₁ l₂ : List (Rat × Rat)} {a b : Rat × Rat}
    (hs : Increasing (p :: rest)) (hd : p :: rest = l₁ ++ a :: b :: l₂) :
    interpLinear p rest a.1 = a.2 := by
  have hab : a.1 < b.1 := by
    have : Increasing (a :: b :: l₂) := by
      have := hs; rw [hd] at this
      exact (List.pairwise_append.1 this).2.1
    exact List.rel_of_pairwise_cons this (by simp)
  rw [interpLinear_segment hs hd (le_refl _) hab]
  simp

/-! ### `np.round(·, 10)` and the constant-hop time base -/

theorem roundHalfEven_int (z : Int) : roundHalfEven (z : Rat) = z := by
  unfold roundHalfEven
  simp only [Rat.floor_intCast, sub_self]
  norm_num

theorem round10_exact {x : Rat} {z : Int} (h : x * 10000000000 = (z : Rat)) : round10 x = x := by
  unfold round10
  rw [h, roundHalfEven_int, ← h]
  field_simp

/-! ### helpers of the Props files -/

theorem inUnit_of_binary {v : List Rat} (hb : ∀ x ∈ v, x = 0 ∨ x = 1) : inUnit v = true :=
  inUnit_iff.2 fun x hx => by rcases hb x hx with rfl | rfl <;> norm_num


theorem isEmpty_false {l : List Rat} (h : l ≠ []) : l.isEmpty = false := by
  cases l with
  | nil => exact absurd rfl h
  | cons a l => rfl


/-- number of voiced reference frames -/
def nRefVoiced (rv : List Rat) : Nat := rv.countP isVoiced


theorem pitchSum_zero_of_nonzeroCount {ok : Rat → Bool} {rv rc ec : List Rat}
    (h : nonzeroCount rc ec = 0) : pitchSum ok rv rc ec = 0 := by
  induction rv generalizing rc ec with
  | nil => simp [pitchSum]
  | cons v rv ih =>
    cases rc with
    | nil => simp [pitchSum]
    | cons r rc =>
      cases ec with
      | nil => simp [pitchSum]
      | cons e ec =>
        simp only [nonzeroCount] at h
        have h1 : ¬ (e ≠ 0 ∧ r ≠ 0) := by
          intro hc; rw [if_pos hc] at h; omega
        have h2 : nonzeroCount rc ec = 0 := by omega
        simp only [pitchSum, ih h2, add_zero]
        rw [if_neg (fun hc => h1 ⟨hc.1, hc.2.1⟩)]

/-- the shared count: voiced reference frames where both pitches are present and `ok |Δcents|` holds -/
def nCorrect (ok : Rat → Bool) (rv rc ec : List Rat) : Nat :=
  (List.zip rv (List.zip rc ec)).countP fun p =>
    isVoiced p.1 && (decide (p.2.2 ≠ 0) && decide (p.2.1 ≠ 0) && ok (p.2.1 - p.2.2).abs)

theorem pitchAcc_spec {ok : Rat → Bool} {rv rc ev ec : List Rat}
    (hv : validVoicingB rv ev = true) (hl : validLenB rv rc ev ec = true) (hb : isBinary rv = true) :
    pitchAcc ok rv rc ev ec = .ok (if nRefVoiced rv = 0 then 0 else
      (nCorrect ok rv rc ec : Rat) / (nRefVoiced rv : Rat)) := by
  have hb' := isBinary_iff.1 hb
  have hsum : rsum rv = ((nRefVoiced rv : Nat) : Rat) := by
    rw [← voicedCount_eq_rsum hb']; exact rsum_map_ind isVoiced rv
  obtain ⟨l1, l2, l3⟩ := validLenB_iff.1 hl
  unfold pitchAcc
  simp only [hv, hl, Bool.and_self, if_true, Except.ok.injEq]
  unfold pitchAccCore
  by_cases h0 : nRefVoiced rv = 0
  · simp [h0, hsum]
  · have hne : rv ≠ [] := by intro h; simp [h, nRefVoiced] at h0
    have hrc : rc ≠ [] := by intro h; rw [h] at l1; exact hne (List.length_eq_zero_iff.1 l1)
    have hec : ec ≠ [] := by intro h; rw [h] at l3; exact hrc (List.length_eq_zero_iff.1 l3)
    have hs0 : ¬ rsum rv = 0 := by rw [hsum]; exact_mod_cast h0
    simp only [isEmpty_false hne, isEmpty_false hrc, isEmpty_false hec, hs0, decide_false, Bool.or_self,
      Bool.false_eq_true, if_false, h0]
    split
    · rename_i hz
      rw [show (nCorrect ok rv rc ec : Rat) = pitchSum ok rv rc ec from (pitchSum_count hb' rc ec).symm,
        pitchSum_zero_of_nonzeroCount hz, zero_div]
    · rw [hsum]; congr 1; exact pitchSum_count hb' rc ec


theorem shift_iff {δ : Rat} {rc ec : List Rat}
    (hnz : ∀ x ∈ rc ++ ec, x ≠ 0 → x + δ ≠ 0) {r e : Rat} (hr : r ∈ rc) (he : e ∈ ec) (P : Rat → Prop) :
    (shiftCents δ e ≠ 0 ∧ shiftCents δ r ≠ 0 ∧ P (shiftCents δ r - shiftCents δ e).abs) ↔
      (e ≠ 0 ∧ r ≠ 0 ∧ P (r - e).abs) := by
  by_cases h1 : e = 0
  · simp [shiftCents, h1]
  · by_cases h2 : r = 0
    · simp [shiftCents, h2]
    · have a := hnz e (by simp [he]) h1
      have b := hnz r (by simp [hr]) h2
      have : r + δ - (e + δ) = r - e := by ring
      simp [shiftCents, h1, h2, a, b, this]


theorem padStart_none_map {α β : Type} (g : α → β) (t : List Rat) (xs : List α) :
    padStart t (xs.map g) none = (padStart t xs none).map (fun r => (r.1, r.2.1.map g, r.2.2)) := by
  unfold padStart
  cases t with
  | nil => rfl
  | cons t0 t =>
    simp only
    split
    · cases xs with
      | nil => rfl
      | cons x xs => rfl
    · rfl


end Melody
end Mir
