import MirModel.MiscStats
import MirProofs.Lemmas.HitMetric
import Mathlib.Algebra.Order.Field.Basic
import Mathlib.Algebra.Order.Field.Rat
import Mathlib.Algebra.Order.Group.Abs
import Mathlib.Algebra.Order.Floor.Ring
import Mathlib.Data.Rat.Floor
import Mathlib.Data.List.Perm.Basic
import Mathlib.Tactic.Positivity
import Mathlib.Tactic.Linarith
import Mathlib.Tactic.FieldSimp
import Mathlib.Tactic.Ring

/-! Helper lemmas for the onset / boundary / tempo / alignment slice: absolute value, sorting, median, mean,
    half-even rounding, event validation, monotonicity of F. -/
namespace Mir.MiscStats

/-! ### absolute value -/

theorem absQ_eq_abs (x : Rat) : absQ x = |x| := by
  unfold absQ
  split
  · rename_i h; rw [abs_of_neg h]
  · rename_i h; rw [abs_of_nonneg (not_lt.1 h)]

theorem absQ_nonneg (x : Rat) : 0 ≤ absQ x := by rw [absQ_eq_abs]; exact abs_nonneg x

theorem absQ_sub_comm (x y : Rat) : absQ (x - y) = absQ (y - x) := by
  rw [absQ_eq_abs, absQ_eq_abs, abs_sub_comm]

theorem absQ_self_sub (x : Rat) : absQ (x - x) = 0 := by simp [absQ]

theorem absQ_shift (x y c : Rat) : absQ ((x + c) - (y + c)) = absQ (x - y) := by
  congr 1; ring

/-- the window predicate of the hit metrics is `|r - e| ≤ w` -/
theorem ww_iff (w r e : Rat) : withinWindow w r e = true ↔ |r - e| ≤ w := by
  unfold withinWindow
  rw [decide_eq_true_iff, abs_le]
  constructor
  · rintro ⟨h1, h2⟩; constructor <;> linarith
  · rintro ⟨h1, h2⟩; constructor <;> linarith

theorem ww_symm (w r e : Rat) : withinWindow w e r = withinWindow w r e := by
  rw [Bool.eq_iff_iff, ww_iff, ww_iff, abs_sub_comm]

theorem ww_self {w : Rat} (hw : 0 ≤ w) (x : Rat) : withinWindow w x x = true := by
  rw [ww_iff]; simpa using hw

theorem ww_mono {w w' : Rat} (h : w ≤ w') (r e : Rat) :
    withinWindow w r e = true → withinWindow w' r e = true := by
  rw [ww_iff, ww_iff]; exact fun h' => le_trans h' h

theorem ww_shift (w c r e : Rat) : withinWindow w (r + c) (e + c) = withinWindow w r e := by
  rw [Bool.eq_iff_iff, ww_iff, ww_iff]
  have : r + c - (e + c) = r - e := by ring
  rw [this]

/-! ### sorting -/

theorem insertRat_perm (x : Rat) (l : List Rat) : (insertRat x l).Perm (x :: l) := by
  induction l with
  | nil => simp [insertRat]
  | cons y ys ih =>
    unfold insertRat
    split
    · exact List.Perm.refl _
    · exact ((List.Perm.cons y ih).trans (List.Perm.swap x y ys))

theorem sortRats_perm (l : List Rat) : (sortRats l).Perm l := by
  induction l with
  | nil => simp [sortRats]
  | cons x xs ih => exact (insertRat_perm x _).trans (List.Perm.cons x ih)

theorem mem_sortRats {l : List Rat} {x : Rat} : x ∈ sortRats l ↔ x ∈ l := (sortRats_perm l).mem_iff

theorem length_sortRats (l : List Rat) : (sortRats l).length = l.length := (sortRats_perm l).length_eq

theorem insertRat_sorted (x : Rat) {l : List Rat} (h : l.Pairwise (· ≤ ·)) :
    (insertRat x l).Pairwise (· ≤ ·) := by
  induction l with
  | nil => simp [insertRat]
  | cons y ys ih =>
    unfold insertRat
    split
    · rename_i hxy
      refine List.Pairwise.cons ?_ h
      intro z hz
      rcases List.mem_cons.1 hz with rfl | hz
      · exact hxy
      · exact le_trans hxy (List.rel_of_pairwise_cons h hz)
    · rename_i hxy
      have hyx : y ≤ x := le_of_lt (not_le.1 hxy)
      refine List.Pairwise.cons ?_ (ih (List.Pairwise.of_cons h))
      intro z hz
      rcases List.mem_cons.1 ((insertRat_perm x ys).mem_iff.1 hz) with rfl | hz
      · exact hyx
      · exact List.rel_of_pairwise_cons h hz

theorem sortRats_sorted (l : List Rat) : (sortRats l).Pairwise (· ≤ ·) := by
  induction l with
  | nil => simp [sortRats]
  | cons x xs ih => exact insertRat_sorted x ih

/-- in a sorted list, at least `k+1` entries are `≤` the entry at index `k` -/
theorem sorted_count_le {s : List Rat} (hs : s.Pairwise (· ≤ ·)) {k : Nat} {a : Rat} (hk : s[k]? = some a) :
    k + 1 ≤ (s.filter fun x => decide (x ≤ a)).length := by
  induction s generalizing k with
  | nil => simp at hk
  | cons y ys ih =>
    cases k with
    | zero =>
      simp only [List.getElem?_cons_zero, Option.some.injEq] at hk
      subst hk
      simp
    | succ k =>
      simp only [List.getElem?_cons_succ] at hk
      have hya : y ≤ a := List.rel_of_pairwise_cons hs (List.mem_of_getElem? hk)
      have := ih (List.Pairwise.of_cons hs) hk
      simp only [List.filter_cons, hya, decide_true, if_true, List.length_cons]
      omega

/-- in a sorted list of length `n`, at least `n - k` entries are `≥` the entry at index `k` -/
theorem sorted_count_ge {s : List Rat} (hs : s.Pairwise (· ≤ ·)) {k : Nat} {a : Rat} (hk : s[k]? = some a) :
    s.length ≤ k + (s.filter fun x => decide (a ≤ x)).length := by
  induction s generalizing k with
  | nil => simp at hk
  | cons y ys ih =>
    cases k with
    | zero =>
      simp only [List.getElem?_cons_zero, Option.some.injEq] at hk
      subst hk
      have hall : ∀ x ∈ y :: ys, decide (y ≤ x) = true := by
        intro x hx
        rcases List.mem_cons.1 hx with rfl | hx
        · simp
        · simpa using List.rel_of_pairwise_cons hs hx
      rw [List.filter_eq_self.2 hall]; simp
    | succ k =>
      simp only [List.getElem?_cons_succ] at hk
      have := ih (List.Pairwise.of_cons hs) hk
      have hle : (ys.filter fun x => decide (a ≤ x)).length ≤ ((y :: ys).filter fun x => decide (a ≤ x)).length := by
        simp only [List.filter_cons]; split <;> simp
      simp only [List.length_cons]
      omega

theorem filter_length_perm {l l' : List Rat} (h : l.Perm l') (p : Rat → Bool) :
    (l.filter p).length = (l'.filter p).length := (h.filter p).length_eq

/-! ### median -/

/-- `np.median` is defined exactly on non-empty input -/
theorem median?_isSome {xs : List Rat} (h : xs ≠ []) : ∃ m, median? xs = some m := by
  unfold median?
  have hl : 0 < (sortRats xs).length := by rw [length_sortRats]; exact List.length_pos_iff.2 h
  simp only
  split
  · omega
  · split
    · have : (sortRats xs).length / 2 < (sortRats xs).length := by omega
      exact ⟨_, List.getElem?_eq_getElem this⟩
    · have h1 : (sortRats xs).length / 2 - 1 < (sortRats xs).length := by omega
      have h2 : (sortRats xs).length / 2 < (sortRats xs).length := by omega
      rw [List.getElem?_eq_getElem h1, List.getElem?_eq_getElem h2]
      exact ⟨_, rfl⟩

theorem median?_nil : median? [] = none := by simp [median?, sortRats]

theorem median?_eq_none_iff (xs : List Rat) : median? xs = none ↔ xs = [] := by
  constructor
  · intro h
    by_contra hne
    obtain ⟨m, hm⟩ := median?_isSome hne
    rw [hm] at h; cases h
  · rintro rfl; exact median?_nil

/-- the median lies between any bounds on the data -/
theorem median?_bounds {xs : List Rat} {lo hi m : Rat} (hb : ∀ x ∈ xs, lo ≤ x ∧ x ≤ hi)
    (hm : median? xs = some m) : lo ≤ m ∧ m ≤ hi := by
  have hb' : ∀ x ∈ sortRats xs, lo ≤ x ∧ x ≤ hi := fun x hx => hb x (mem_sortRats.1 hx)
  unfold median? at hm
  simp only at hm
  split at hm
  · cases hm
  · split at hm
    · exact hb' m (List.mem_of_getElem? hm)
    · split at hm
      · rename_i a b ha hb2
        simp only [Option.some.injEq] at hm
        have h1 := hb' a (List.mem_of_getElem? ha)
        have h2 := hb' b (List.mem_of_getElem? hb2)
        subst hm
        constructor
        · linarith [h1.1, h2.1]
        · linarith [h1.2, h2.2]
      · cases hm

theorem median?_ge {xs : List Rat} {lo m : Rat} (hb : ∀ x ∈ xs, lo ≤ x) (hm : median? xs = some m) : lo ≤ m := by
  have hb' : ∀ x ∈ sortRats xs, lo ≤ x := fun x hx => hb x (mem_sortRats.1 hx)
  unfold median? at hm
  simp only at hm
  split at hm
  · cases hm
  · split at hm
    · exact hb' m (List.mem_of_getElem? hm)
    · split at hm
      · rename_i a b ha hb2
        simp only [Option.some.injEq] at hm
        have h1 := hb' a (List.mem_of_getElem? ha)
        have h2 := hb' b (List.mem_of_getElem? hb2)
        subst hm
        linarith
      · cases hm

theorem median?_le {xs : List Rat} {hi m : Rat} (hb : ∀ x ∈ xs, x ≤ hi) (hm : median? xs = some m) : m ≤ hi := by
  have hb' : ∀ x ∈ sortRats xs, x ≤ hi := fun x hx => hb x (mem_sortRats.1 hx)
  unfold median? at hm
  simp only at hm
  split at hm
  · cases hm
  · split at hm
    · exact hb' m (List.mem_of_getElem? hm)
    · split at hm
      · rename_i a b ha hb2
        simp only [Option.some.injEq] at hm
        have h1 := hb' a (List.mem_of_getElem? ha)
        have h2 := hb' b (List.mem_of_getElem? hb2)
        subst hm
        linarith
      · cases hm

/-- the median of a non-empty constant list is that constant -/
theorem median?_const {xs : List Rat} {c : Rat} (hne : xs ≠ []) (hc : ∀ x ∈ xs, x = c) : median? xs = some c := by
  obtain ⟨m, hm⟩ := median?_isSome hne
  have h1 := median?_ge (lo := c) (fun x hx => (hc x hx).ge) hm
  have h2 := median?_le (hi := c) (fun x hx => (hc x hx).le) hm
  rw [hm, le_antisymm h2 h1]

/-- **median specification**: at least half of the data is `≤ m` and at least half is `≥ m` -/
theorem median?_spec {xs : List Rat} {m : Rat} (hm : median? xs = some m) :
    xs.length ≤ 2 * (xs.filter fun x => decide (x ≤ m)).length ∧
    xs.length ≤ 2 * (xs.filter fun x => decide (m ≤ x)).length := by
  have hp := sortRats_perm xs
  have hs := sortRats_sorted xs
  rw [← filter_length_perm hp, ← filter_length_perm hp, ← length_sortRats xs]
  unfold median? at hm
  simp only at hm
  generalize sortRats xs = s at hm hs
  split at hm
  · cases hm
  · split at hm
    · have h1 := sorted_count_le hs hm
      have h2 := sorted_count_ge hs hm
      constructor <;> omega
    · split at hm
      · rename_i a b ha hb
        simp only [Option.some.injEq] at hm
        have hab : a ≤ b := by
          have hlt : s.length / 2 - 1 < s.length / 2 := by omega
          have hb' : s.length / 2 < s.length := by
            rcases List.getElem?_eq_some_iff.1 hb with ⟨h, _⟩; exact h
          have ha' : s.length / 2 - 1 < s.length := by omega
          have := List.pairwise_iff_getElem.1 hs _ _ ha' hb' hlt
          rw [List.getElem?_eq_getElem ha'] at ha
          rw [List.getElem?_eq_getElem hb'] at hb
          simp only [Option.some.injEq] at ha hb
          rw [← ha, ← hb]; exact this
        have ham : a ≤ m := by rw [← hm]; linarith
        have hmb : m ≤ b := by rw [← hm]; linarith
        have h1 := sorted_count_le hs ha
        have h2 := sorted_count_ge hs hb
        have m1 : (s.filter fun x => decide (x ≤ a)).length ≤ (s.filter fun x => decide (x ≤ m)).length := by
          apply List.Sublist.length_le
          apply List.monotone_filter_right
          intro x hx; simp only [decide_eq_true_eq] at hx ⊢; exact le_trans hx ham
        have m2 : (s.filter fun x => decide (b ≤ x)).length ≤ (s.filter fun x => decide (m ≤ x)).length := by
          apply List.Sublist.length_le
          apply List.monotone_filter_right
          intro x hx; simp only [decide_eq_true_eq] at hx ⊢; exact le_trans hmb hx
        constructor <;> omega
      · cases hm

/-! ### mean -/

theorem mean?_eq_none_iff (xs : List Rat) : mean? xs = none ↔ xs = [] := by
  unfold mean?; cases xs <;> simp

theorem sum_bounds {xs : List Rat} {lo hi : Rat} (hb : ∀ x ∈ xs, lo ≤ x ∧ x ≤ hi) :
    lo * xs.length ≤ xs.sum ∧ xs.sum ≤ hi * xs.length := by
  induction xs with
  | nil => simp
  | cons x xs ih =>
    have h1 := hb x (List.mem_cons_self)
    have h2 := ih (fun y hy => hb y (List.mem_cons_of_mem _ hy))
    simp only [List.sum_cons, List.length_cons, Nat.cast_add, Nat.cast_one]
    constructor <;> nlinarith [h1.1, h1.2, h2.1, h2.2]

theorem mean?_bounds {xs : List Rat} {lo hi m : Rat} (hb : ∀ x ∈ xs, lo ≤ x ∧ x ≤ hi)
    (hm : mean? xs = some m) : lo ≤ m ∧ m ≤ hi := by
  unfold mean? at hm
  split at hm
  · cases hm
  · rename_i hne
    simp only [Option.some.injEq] at hm
    have hl : (0 : Rat) < xs.length := by
      have : xs ≠ [] := by simpa using hne
      exact_mod_cast List.length_pos_iff.2 this
    have := sum_bounds hb
    subst hm
    constructor
    · rw [le_div_iff₀ hl]; exact this.1
    · rw [div_le_iff₀ hl]; exact this.2

/-! ### event validation -/

theorem validateEvents_ok_iff (xs : List Rat) (mt : Rat) :
    validateEvents xs mt = .ok () ↔
      (∀ x ∈ xs, x ≤ mt) ∧ ∀ p ∈ xs.zip xs.tail, p.1 ≤ p.2 := by
  unfold validateEvents
  by_cases h1 : xs.any (fun x => decide (mt < x)) = true
  · simp only [h1, if_true]
    constructor
    · intro h; cases h
    · rintro ⟨h, _⟩
      obtain ⟨x, hx, hlt⟩ := List.any_eq_true.1 h1
      exact absurd (h x hx) (not_le.2 (by simpa using hlt))
  · simp only [h1]
    by_cases h2 : (xs.zip xs.tail).any (fun p => decide (p.2 - p.1 < 0)) = true
    · simp only [h2, if_true]
      constructor
      · intro h; cases h
      · rintro ⟨_, h⟩
        obtain ⟨p, hp, hlt⟩ := List.any_eq_true.1 h2
        have := h p hp
        have hlt' : p.2 - p.1 < 0 := by simpa using hlt
        linarith
    · simp only [h2]
      refine ⟨fun _ => ⟨?_, ?_⟩, fun _ => by simp⟩
      · intro x hx
        by_contra hc
        exact h1 (List.any_eq_true.2 ⟨x, hx, by simpa using hc⟩)
      · intro p hp
        by_contra hc
        exact h2 (List.any_eq_true.2 ⟨p, hp, by simp only [decide_eq_true_eq]; linarith [not_le.1 hc]⟩)

theorem validateEvents_cases (xs : List Rat) (mt : Rat) :
    validateEvents xs mt = .ok () ∨ validateEvents xs mt = .error .valueError := by
  unfold validateEvents; split
  · exact Or.inr rfl
  · split
    · exact Or.inr rfl
    · exact Or.inl rfl

theorem zip_tail_map (f : Rat → Rat) (xs : List Rat) :
    (xs.map f).zip (xs.map f).tail = (xs.zip xs.tail).map (Prod.map f f) := by
  rw [← List.map_tail, List.zip_map]

/-- shifting all events keeps the order check; the `max_time` check is kept when no event crosses it -/
theorem validateEvents_shift (xs : List Rat) (mt c : Rat) (h : ∀ x ∈ xs, x ≤ mt ∧ x + c ≤ mt) :
    validateEvents (xs.map (· + c)) mt = validateEvents xs mt := by
  have key : validateEvents (xs.map (· + c)) mt = .ok () ↔ validateEvents xs mt = .ok () := by
    rw [validateEvents_ok_iff, validateEvents_ok_iff, zip_tail_map]
    constructor
    · rintro ⟨_, h2⟩
      refine ⟨fun x hx => (h x hx).1, fun p hp => ?_⟩
      have := h2 (Prod.map (· + c) (· + c) p) (List.mem_map_of_mem hp)
      simp only [Prod.map_fst, Prod.map_snd] at this
      linarith
    · rintro ⟨_, h2⟩
      refine ⟨fun x hx => ?_, fun p hp => ?_⟩
      · obtain ⟨y, hy, rfl⟩ := List.mem_map.1 hx
        exact (h y hy).2
      · obtain ⟨q, hq, rfl⟩ := List.mem_map.1 hp
        simp only [Prod.map_fst, Prod.map_snd]
        linarith [h2 q hq]
  rcases validateEvents_cases (xs.map (· + c)) mt with h1 | h1 <;>
    rcases validateEvents_cases xs mt with h2 | h2
  · rw [h1, h2]
  · rw [key.1 h1] at h2; cases h2
  · rw [key.2 h2] at h1; cases h1
  · rw [h1, h2]

/-! ### monotonicity of F in the hit count -/

theorem fMeasure_mono_pos {p r p' r' b : Rat} (hp : 0 < p) (hr : 0 < r) (hpp : p ≤ p') (hrr : r ≤ r') :
    fMeasure p r b ≤ fMeasure p' r' b := by
  have hp' : 0 < p' := lt_of_lt_of_le hp hpp
  have hr' : 0 < r' := lt_of_lt_of_le hr hrr
  have hb : 0 ≤ b * b := mul_self_nonneg b
  unfold fMeasure
  have h1 : ¬ (p = 0 ∧ r = 0) := fun h => hp.ne' h.1
  have h2 : ¬ (p' = 0 ∧ r' = 0) := fun h => hp'.ne' h.1
  simp only [h1, h2, if_false]
  have hd : 0 < b * b * p + r := by positivity
  have hd' : 0 < b * b * p' + r' := by positivity
  rw [div_le_div_iff₀ hd hd']
  have e1 : 0 ≤ (p' - p) := sub_nonneg.2 hpp
  have e2 : 0 ≤ (r' - r) := sub_nonneg.2 hrr
  have hfac : (0 : Rat) ≤ 1 + b * b := by positivity
  have key : p * r * (b * b * p' + r') ≤ p' * r' * (b * b * p + r) := by
    have t1 : 0 ≤ b * b * p * p' * (r' - r) := by positivity
    have t2 : 0 ≤ r * r' * (p' - p) := by positivity
    nlinarith [t1, t2]
  calc (1 + b * b) * p * r * (b * b * p' + r') = (1 + b * b) * (p * r * (b * b * p' + r')) := by ring
    _ ≤ (1 + b * b) * (p' * r' * (b * b * p + r)) := mul_le_mul_of_nonneg_left key hfac
    _ = (1 + b * b) * p' * r' * (b * b * p + r) := by ring

/-- more hits (same denominators) never lower precision, recall or F -/
theorem prf_hits_mono {k k' n m : Nat} (b : Rat) (hn : 0 < n) (hm : 0 < m) (hk : k ≤ k') :
    (prf k n m b).1 ≤ (prf k' n m b).1 ∧ (prf k n m b).2.1 ≤ (prf k' n m b).2.1 ∧
      (prf k n m b).2.2 ≤ (prf k' n m b).2.2 := by
  have hn' : (0 : Rat) < n := by exact_mod_cast hn
  have hm' : (0 : Rat) < m := by exact_mod_cast hm
  have hkk : (k : Rat) ≤ k' := by exact_mod_cast hk
  have hP : (k : Rat) / m ≤ (k' : Rat) / m := div_le_div_of_nonneg_right hkk hm'.le
  have hR : (k : Rat) / n ≤ (k' : Rat) / n := div_le_div_of_nonneg_right hkk hn'.le
  refine ⟨hP, hR, ?_⟩
  simp only [prf]
  rcases Nat.eq_zero_or_pos k with rfl | hkpos
  · have h0 : fMeasure ((0 : Nat) / (m : Rat)) ((0 : Nat) / (n : Rat)) b = 0 := by simp [fMeasure]
    rw [h0]
    exact fMeasure_nonneg (div_nonneg (by positivity) hm'.le) (div_nonneg (by positivity) hn'.le)
  · have hk0 : (0 : Rat) < k := by exact_mod_cast hkpos
    exact fMeasure_mono_pos (div_pos hk0 hm') (div_pos hk0 hn') hP hR

/-- a looser criterion never lowers precision, recall or F of a hit metric -/
theorem hitPRF_feas_mono {α β : Type} {feas feas' : α → β → Bool} (h : ∀ r e, feas r e = true → feas' r e = true)
    (ref : List α) (est : List β) (beta : Rat) :
    (hitPRF feas ref est beta).1 ≤ (hitPRF feas' ref est beta).1 ∧
    (hitPRF feas ref est beta).2.1 ≤ (hitPRF feas' ref est beta).2.1 ∧
    (hitPRF feas ref est beta).2.2 ≤ (hitPRF feas' ref est beta).2.2 := by
  unfold hitPRF
  split
  · simp
  · rename_i hne
    simp only [Bool.or_eq_true, List.isEmpty_iff, not_or] at hne
    exact prf_hits_mono beta (List.length_pos_iff.2 hne.1) (List.length_pos_iff.2 hne.2) (hitCount_mono h ref est)

/-- `hitPRF` through the obviously-correct exponential matching recursion (kernel-reducible: used by the
    non-vacuity examples) -/
theorem hitPRF_eq_brute {α β : Type} (feas : α → β → Bool) (ref : List α) (est : List β) (beta : Rat) :
    hitPRF feas ref est beta =
      if ref.isEmpty || est.isEmpty then (0, 0, 0)
      else prf (bruteMax (hitGraph feas ref est)) ref.length est.length beta := by
  unfold hitPRF hitCount
  rw [maxMatchSize_eq_bruteMax]

/-- the time-shift invariance of a windowed hit metric -/
theorem hitPRF_window_shift (w c : Rat) (ref est : List Rat) (beta : Rat) :
    hitPRF (withinWindow w) (ref.map (· + c)) (est.map (· + c)) beta = hitPRF (withinWindow w) ref est beta := by
  unfold hitPRF
  have hc : hitCount (withinWindow w) (ref.map (· + c)) (est.map (· + c)) = hitCount (withinWindow w) ref est :=
    hitCount_map (· + c) (· + c) (fun r e => ww_shift w c r e) ref est
  simp [hc]

end Mir.MiscStats
