import MirModel.Multipitch
import MirProofs.Lemmas.HitMetric
import Mathlib.Algebra.Order.Field.Basic
import Mathlib.Algebra.Order.Field.Rat
import Mathlib.Tactic.Positivity
import Mathlib.Tactic.Linarith
import Mathlib.Tactic.FieldSimp
import Mathlib.Tactic.Ring

namespace Mir
namespace Multipitch

/-! ### sums over rows -/

@[simp] theorem sumBy_nil (f : Row → Int) : sumBy f [] = 0 := rfl
@[simp] theorem sumBy_cons (f : Row → Int) (x : Row) (xs : List Row) :
    sumBy f (x :: xs) = f x + sumBy f xs := by
  simp [sumBy]

theorem sumBy_mono {f g : Row → Int} {rows : List Row} (h : ∀ x ∈ rows, f x ≤ g x) :
    sumBy f rows ≤ sumBy g rows := by
  induction rows with
  | nil => simp
  | cons x xs ih =>
    simp only [sumBy_cons]
    have h1 := h x (by simp)
    have h2 := ih (fun y hy => h y (by simp [hy]))
    omega

theorem sumBy_zero (rows : List Row) : sumBy (fun _ => 0) rows = 0 := by
  induction rows with
  | nil => simp
  | cons x xs ih => simp [ih]

theorem sumBy_nonneg {f : Row → Int} {rows : List Row} (h : ∀ x ∈ rows, 0 ≤ f x) : 0 ≤ sumBy f rows := by
  have := sumBy_mono (f := fun _ => 0) (g := f) (rows := rows) h
  rw [sumBy_zero] at this
  exact this

theorem sumBy_congr {f g : Row → Int} {rows : List Row} (h : ∀ x ∈ rows, f x = g x) :
    sumBy f rows = sumBy g rows := by
  apply Int.le_antisymm
  · exact sumBy_mono fun x hx => (h x hx).le
  · exact sumBy_mono fun x hx => (h x hx).ge

theorem sumBy_add (f g : Row → Int) (rows : List Row) :
    sumBy (fun x => f x + g x) rows = sumBy f rows + sumBy g rows := by
  induction rows with
  | nil => simp
  | cons x xs ih => simp only [sumBy_cons, ih]; omega

theorem sumBy_sub (f g : Row → Int) (rows : List Row) :
    sumBy (fun x => f x - g x) rows = sumBy f rows - sumBy g rows := by
  induction rows with
  | nil => simp
  | cons x xs ih => simp only [sumBy_cons, ih]; omega

/-- abbreviations for the column sums -/
def tpSum (rows : List Row) : Int := sumBy (fun x => x.1) rows
def refSum (rows : List Row) : Int := sumBy (fun x => x.2.1) rows
def estSum (rows : List Row) : Int := sumBy (fun x => x.2.2) rows

/-- every frame has `0 ≤ tp ≤ min(n_ref, n_est)` -/
def Good (rows : List Row) : Prop := ∀ x ∈ rows, 0 ≤ x.1 ∧ x.1 ≤ x.2.1 ∧ x.1 ≤ x.2.2

theorem Good.tp_nonneg {rows} (h : Good rows) : 0 ≤ tpSum rows := sumBy_nonneg fun x hx => (h x hx).1
theorem Good.tp_le_ref {rows} (h : Good rows) : tpSum rows ≤ refSum rows := sumBy_mono fun x hx => (h x hx).2.1
theorem Good.tp_le_est {rows} (h : Good rows) : tpSum rows ≤ estSum rows := sumBy_mono fun x hx => (h x hx).2.2

theorem den_sum (rows : List Row) :
    sumBy (fun x => x.2.2 + x.2.1 - x.1) rows = estSum rows + refSum rows - tpSum rows := by
  unfold estSum refSum tpSum
  induction rows with
  | nil => simp
  | cons x xs ih => simp only [sumBy_cons, ih]; omega

/-- per frame `max(r,e) - tp = (min(r,e) - tp) + (r-e)⁺ + (e-r)⁺`, summed -/
theorem total_sum (rows : List Row) :
    sumBy (fun x => max x.2.1 x.2.2 - x.1) rows =
      sumBy (fun x => min x.2.1 x.2.2 - x.1) rows
      + sumBy (fun x => if x.2.1 - x.2.2 < 0 then 0 else x.2.1 - x.2.2) rows
      + sumBy (fun x => if x.2.2 - x.2.1 < 0 then 0 else x.2.2 - x.2.1) rows := by
  induction rows with
  | nil => simp
  | cons x xs ih =>
    simp only [sumBy_cons, ih]
    split <;> split <;> omega

/-! ### the seven scores as functions of the sums -/

theorem computeAccuracy_eq (rows : List Row) :
    computeAccuracy rows =
      (if 0 < estSum rows then ofInt (tpSum rows) / ofInt (estSum rows) else 0,
       if 0 < refSum rows then ofInt (tpSum rows) / ofInt (refSum rows) else 0,
       if 0 < estSum rows + refSum rows - tpSum rows
         then ofInt (tpSum rows) / ofInt (estSum rows + refSum rows - tpSum rows) else 0) := by
  unfold computeAccuracy
  simp only [den_sum]
  rfl

theorem ofInt_pos {i : Int} (h : 0 < i) : (0 : Rat) < ofInt i := by
  unfold ofInt; exact_mod_cast h
theorem ofInt_nonneg {i : Int} (h : 0 ≤ i) : (0 : Rat) ≤ ofInt i := by
  unfold ofInt; exact_mod_cast h
theorem ofInt_le {i j : Int} (h : i ≤ j) : ofInt i ≤ ofInt j := by
  unfold ofInt; exact_mod_cast h
theorem ofInt_add (i j : Int) : ofInt (i + j) = ofInt i + ofInt j := by
  unfold ofInt; push_cast; ring
theorem ofInt_sub (i j : Int) : ofInt (i - j) = ofInt i - ofInt j := by
  unfold ofInt; push_cast; ring

/-- precision, recall, accuracy as a function of Σtp, Σn_ref, Σn_est -/
def accOf (T R E : Int) : Rat × Rat × Rat :=
  (if 0 < E then ofInt T / ofInt E else 0,
   if 0 < R then ofInt T / ofInt R else 0,
   if 0 < E + R - T then ofInt T / ofInt (E + R - T) else 0)

theorem computeAccuracy_accOf (rows : List Row) :
    computeAccuracy rows = accOf (tpSum rows) (refSum rows) (estSum rows) := computeAccuracy_eq rows

theorem quot_range {T N : Int} (h0 : 0 ≤ T) (h : T ≤ N) :
    0 ≤ (if 0 < N then ofInt T / ofInt N else 0) ∧ (if 0 < N then ofInt T / ofInt N else 0) ≤ 1 := by
  split
  · rename_i hN
    have hN' := ofInt_pos hN
    exact ⟨div_nonneg (ofInt_nonneg h0) hN'.le, (div_le_one hN').2 (ofInt_le h)⟩
  · exact ⟨le_refl _, zero_le_one⟩

theorem accOf_range {T R E : Int} (h0 : 0 ≤ T) (hR : T ≤ R) (hE : T ≤ E) :
    (0 ≤ (accOf T R E).1 ∧ (accOf T R E).1 ≤ 1) ∧ (0 ≤ (accOf T R E).2.1 ∧ (accOf T R E).2.1 ≤ 1) ∧
      (0 ≤ (accOf T R E).2.2 ∧ (accOf T R E).2.2 ≤ 1) := by
  refine ⟨quot_range h0 hE, quot_range h0 hR, ?_⟩
  exact quot_range (N := E + R - T) h0 (by omega)

/-- accuracy never exceeds precision or recall -/
theorem accOf_acc_le {T R E : Int} (h0 : 0 ≤ T) (hR : T ≤ R) (hE : T ≤ E) :
    (accOf T R E).2.2 ≤ (accOf T R E).1 ∧ (accOf T R E).2.2 ≤ (accOf T R E).2.1 := by
  have hrange := accOf_range h0 hR hE
  unfold accOf at hrange ⊢
  simp only at hrange ⊢
  by_cases hd : 0 < E + R - T
  · simp only [hd, if_true]
    have hd' := ofInt_pos hd
    have hT := ofInt_nonneg h0
    constructor
    · by_cases hE0 : 0 < E
      · simp only [hE0, if_true]
        exact div_le_div_of_nonneg_left hT (ofInt_pos hE0) (ofInt_le (by omega))
      · have : T = 0 := by omega
        subst this
        simp [ofInt, hE0]
    · by_cases hR0 : 0 < R
      · simp only [hR0, if_true]
        exact div_le_div_of_nonneg_left hT (ofInt_pos hR0) (ofInt_le (by omega))
      · have : T = 0 := by omega
        subst this
        simp [ofInt, hR0]
  · simp only [hd, if_false]
    exact ⟨hrange.1.1, hrange.2.1.1⟩

/-- more true positives (same numbers of pitches) never lower precision, recall or accuracy -/
theorem accOf_mono {T T' R E : Int} (h0 : 0 ≤ T) (hTT : T ≤ T') (hR : T' ≤ R) (hE : T' ≤ E) :
    (accOf T R E).1 ≤ (accOf T' R E).1 ∧ (accOf T R E).2.1 ≤ (accOf T' R E).2.1 ∧
      (accOf T R E).2.2 ≤ (accOf T' R E).2.2 := by
  unfold accOf
  simp only
  refine ⟨?_, ?_, ?_⟩
  · split
    · rename_i h; exact div_le_div_of_nonneg_right (ofInt_le hTT) (ofInt_pos h).le
    · exact le_refl _
  · split
    · rename_i h; exact div_le_div_of_nonneg_right (ofInt_le hTT) (ofInt_pos h).le
    · exact le_refl _
  · by_cases hd' : 0 < E + R - T'
    · have hd : 0 < E + R - T := by omega
      simp only [hd, hd', if_true]
      rw [div_le_div_iff₀ (ofInt_pos hd) (ofInt_pos hd')]
      unfold ofInt
      have : T * (E + R - T') ≤ T' * (E + R - T) := by nlinarith
      exact_mod_cast this
    · have hT' : T' = 0 := by omega
      have hT : T = 0 := by omega
      subst hT hT'
      simp [ofInt]

theorem accOf_swap (T R E : Int) :
    (accOf T E R).1 = (accOf T R E).2.1 ∧ (accOf T E R).2.1 = (accOf T R E).1 ∧
      (accOf T E R).2.2 = (accOf T R E).2.2 := by
  unfold accOf
  refine ⟨rfl, rfl, ?_⟩
  simp only [Int.add_comm R E]

theorem accOf_self {T : Int} (h : 0 < T) : accOf T T T = (1, 1, 1) := by
  unfold accOf
  have h1 : (0 : Int) < T + T - T := by omega
  have h2 : T + T - T = T := by omega
  have h3 := (ofInt_pos h).ne'
  simp only [h, h2, if_true, div_self h3]

theorem accOf_zero (R E : Int) : accOf 0 R E = (0, 0, 0) := by
  unfold accOf; simp [ofInt]

/-! ### error scores -/

/-- `e_tot = e_sub + e_miss + e_fa` for EVERY three count arrays -/
theorem err_total (rows : List Row) :
    (computeErrScore rows).2.2.2 =
      (computeErrScore rows).1 + (computeErrScore rows).2.1 + (computeErrScore rows).2.2.1 := by
  unfold computeErrScore
  simp only
  split
  · simp
  · simp only [total_sum, ofInt_add]
    ring

theorem Good.ref_nonneg {rows} (h : Good rows) : 0 ≤ refSum rows := by
  have := h.tp_nonneg; have := h.tp_le_ref; omega

theorem err_nonneg {rows : List Row} (h : Good rows) :
    0 ≤ (computeErrScore rows).1 ∧ 0 ≤ (computeErrScore rows).2.1 ∧ 0 ≤ (computeErrScore rows).2.2.1 ∧
      0 ≤ (computeErrScore rows).2.2.2 := by
  unfold computeErrScore
  simp only
  split
  · simp
  · have hr : (0 : Rat) ≤ ofInt (sumBy (fun x => x.2.1) rows) := ofInt_nonneg h.ref_nonneg
    refine ⟨div_nonneg (ofInt_nonneg ?_) hr, div_nonneg (ofInt_nonneg ?_) hr,
            div_nonneg (ofInt_nonneg ?_) hr, div_nonneg (ofInt_nonneg ?_) hr⟩
    · exact sumBy_nonneg fun x hx => by have := h x hx; omega
    · exact sumBy_nonneg fun x _ => by split <;> omega
    · exact sumBy_nonneg fun x _ => by split <;> omega
    · exact sumBy_nonneg fun x hx => by have := h x hx; omega

/-- substitution and miss errors are proportions of the reference pitches -/
theorem err_sub_miss_le_one {rows : List Row} (h : Good rows) :
    (computeErrScore rows).1 ≤ 1 ∧ (computeErrScore rows).2.1 ≤ 1 := by
  unfold computeErrScore
  simp only
  split
  · simp
  · rename_i hne
    have hpos : 0 < sumBy (fun x => x.2.1) rows := by
      have := h.ref_nonneg; unfold refSum at this; omega
    have hr := ofInt_pos hpos
    constructor
    · rw [div_le_one hr]
      exact ofInt_le (sumBy_mono fun x hx => by have := h x hx; omega)
    · rw [div_le_one hr]
      exact ofInt_le (sumBy_mono fun x hx => by have := h x hx; split <;> omega)

/-- when the reference has no pitch at all, all four error scores are 0 -/
theorem err_empty_reference {rows : List Row} (h : refSum rows = 0) : computeErrScore rows = (0, 0, 0, 0) := by
  unfold computeErrScore
  unfold refSum at h
  simp [h]

/-! ### circular (chroma) distance -/

theorem fmod_spec (a : Rat) : ∃ k : Int, fmod a 12 = a - 12 * (k : Rat) ∧ 0 ≤ fmod a 12 ∧ fmod a 12 < 12 := by
  refine ⟨(a / 12).floor, rfl, ?_, ?_⟩
  · unfold fmod
    have h := Rat.floor_le (a / 12)
    rw [le_div_iff₀ (by norm_num : (0 : Rat) < 12)] at h
    linarith
  · unfold fmod
    have h := Rat.lt_floor_add_one (a / 12)
    rw [div_lt_iff₀ (by norm_num : (0 : Rat) < 12)] at h
    push_cast at h
    linarith

/-- `min(|d|, 12 - |d|)` as the code computes it -/
def circF (d : Rat) : Rat :=
  let ad := if d < 0 then -d else d
  if ad ≤ 12 - ad then ad else 12 - ad

theorem circDist_eq (a b : Rat) : circDist a b 12 = circF (fmod a 12 - fmod b 12) := rfl

theorem circF_neg (d : Rat) : circF (-d) = circF d := by
  unfold circF
  simp only
  split_ifs <;> linarith

theorem circF_congr {d d' : Rat} (hd : -12 < d ∧ d < 12) (hd' : -12 < d' ∧ d' < 12) (m : Int)
    (h : d' = d + 12 * (m : Rat)) : circF d' = circF d := by
  have h1 : (m : Rat) < 2 := by linarith [hd.1, hd'.2]
  have h2 : (-2 : Rat) < (m : Rat) := by linarith [hd.2, hd'.1]
  have h1' : m < 2 := by exact_mod_cast h1
  have h2' : -2 < m := by exact_mod_cast h2
  have hm : m = -1 ∨ m = 0 ∨ m = 1 := by omega
  rcases hm with rfl | rfl | rfl
  · subst h
    obtain ⟨hd1, hd2⟩ := hd'
    push_cast at hd1 hd2
    unfold circF
    simp only
    push_cast
    split_ifs <;> linarith
  · subst h
    simp
  · subst h
    obtain ⟨hd1, hd2⟩ := hd'
    push_cast at hd1 hd2
    unfold circF
    simp only
    push_cast
    split_ifs <;> linarith

/-- the circular distance depends only on `a - b` modulo 12 -/
theorem circDist_congr {a b a' b' : Rat} (m : Int) (h : a' - b' = a - b + 12 * (m : Rat)) :
    circDist a' b' 12 = circDist a b 12 := by
  obtain ⟨ka, ha, ha0, ha1⟩ := fmod_spec a
  obtain ⟨kb, hb, hb0, hb1⟩ := fmod_spec b
  obtain ⟨ka', ha', ha0', ha1'⟩ := fmod_spec a'
  obtain ⟨kb', hb', hb0', hb1'⟩ := fmod_spec b'
  rw [circDist_eq, circDist_eq]
  refine circF_congr ⟨by linarith, by linarith⟩ ⟨by linarith, by linarith⟩ (m + ka - kb - ka' + kb') ?_
  push_cast
  rw [ha, hb, ha', hb']
  linarith

theorem circDist_comm (a b : Rat) : circDist a b 12 = circDist b a 12 := by
  rw [circDist_eq, circDist_eq, ← circF_neg]
  congr 1
  ring

theorem circDist_self (a : Rat) : circDist a a 12 = 0 := by
  rw [circDist_eq]
  simp [circF]

theorem circF_le_abs (d : Rat) : circF d ≤ |d| := by
  unfold circF
  simp only
  split_ifs with h1 h2 h2
  · rw [abs_of_neg h1]
  · rw [abs_of_neg h1]; linarith
  · rw [abs_of_nonneg (not_lt.1 h1)]
  · rw [abs_of_nonneg (not_lt.1 h1)]; linarith

theorem circF_le_compl (d : Rat) : circF d ≤ 12 - |d| := by
  unfold circF
  simp only
  split_ifs with h1 h2 h2
  · rw [abs_of_neg h1]; linarith
  · rw [abs_of_neg h1]
  · rw [abs_of_nonneg (not_lt.1 h1)]; linarith
  · rw [abs_of_nonneg (not_lt.1 h1)]

/-- wrapping to one octave never increases a distance -/
theorem circDist_le_abs (a b : Rat) : circDist a b 12 ≤ |a - b| := by
  obtain ⟨ka, ha, ha0, ha1⟩ := fmod_spec a
  obtain ⟨kb, hb, hb0, hb1⟩ := fmod_spec b
  rw [circDist_eq]
  generalize hd : fmod a 12 - fmod b 12 = d
  have hab : a - b = d + 12 * ((ka - kb : Int) : Rat) := by
    push_cast; rw [← hd, ha, hb]; ring
  have hdr : -12 < d ∧ d < 12 := ⟨by linarith, by linarith⟩
  rcases lt_trichotomy (ka - kb) 0 with hk | hk | hk
  · have hk' : ((ka - kb : Int) : Rat) ≤ -1 := by exact_mod_cast (by omega : ka - kb ≤ -1)
    have hneg : a - b < 0 := by linarith
    rw [abs_of_neg hneg]
    have := circF_le_compl d
    have := neg_abs_le d
    have := le_abs_self d
    linarith
  · rw [hab, hk]; simpa using circF_le_abs d
  · have hk' : (1 : Rat) ≤ ((ka - kb : Int) : Rat) := by exact_mod_cast (by omega : 1 ≤ ka - kb)
    have hpos : 0 < a - b := by linarith
    rw [abs_of_pos hpos]
    have := circF_le_compl d
    have := neg_abs_le d
    have := le_abs_self d
    linarith

/-! ### the two feasibility predicates -/

theorem rawFeas_iff (w r e : Rat) : rawFeas w r e = true ↔ |r - e| ≤ w := by
  unfold rawFeas withinWindow
  rw [decide_eq_true_iff, abs_le]
  constructor
  · rintro ⟨h1, h2⟩; exact ⟨by linarith, by linarith⟩
  · rintro ⟨h1, h2⟩; exact ⟨by linarith, by linarith⟩

theorem chromaFeas_iff (w r e : Rat) : chromaFeas w r e = true ↔ circDist r e 12 ≤ w := by
  unfold chromaFeas; exact decide_eq_true_iff

/-- a raw hit is a chroma hit -/
theorem raw_imp_chroma (w r e : Rat) (h : rawFeas w r e = true) : chromaFeas w r e = true := by
  rw [rawFeas_iff] at h
  rw [chromaFeas_iff]
  exact le_trans (circDist_le_abs r e) h

theorem rawFeas_mono {w w' : Rat} (hw : w ≤ w') (r e : Rat) (h : rawFeas w r e = true) : rawFeas w' r e = true := by
  rw [rawFeas_iff] at *; linarith

theorem chromaFeas_mono {w w' : Rat} (hw : w ≤ w') (r e : Rat) (h : chromaFeas w r e = true) :
    chromaFeas w' r e = true := by
  rw [chromaFeas_iff] at *; linarith

theorem rawFeas_self {w : Rat} (hw : 0 ≤ w) (x : Rat) : rawFeas w x x = true := by
  rw [rawFeas_iff]; simpa using hw

theorem chromaFeas_self {w : Rat} (hw : 0 ≤ w) (x : Rat) : chromaFeas w x x = true := by
  rw [chromaFeas_iff, circDist_self]; exact hw

theorem rawFeas_swap (w r e : Rat) : rawFeas w e r = rawFeas w r e := by
  rw [Bool.eq_iff_iff, rawFeas_iff, rawFeas_iff, abs_sub_comm]

theorem chromaFeas_swap (w r e : Rat) : chromaFeas w e r = chromaFeas w r e := by
  rw [Bool.eq_iff_iff, chromaFeas_iff, chromaFeas_iff, circDist_comm]

theorem rawFeas_shift (w c r e : Rat) : rawFeas w (r + c) (e + c) = rawFeas w r e := by
  rw [Bool.eq_iff_iff, rawFeas_iff, rawFeas_iff]
  have : r + c - (e + c) = r - e := by ring
  rw [this]

theorem chromaFeas_shift (w c r e : Rat) : chromaFeas w (r + c) (e + c) = chromaFeas w r e := by
  rw [Bool.eq_iff_iff, chromaFeas_iff, chromaFeas_iff, circDist_congr (a := r) (b := e) 0 (by push_cast; ring)]

/-- moving the estimated pitch by whole octaves is invisible to the chroma criterion -/
theorem chromaFeas_octave (w r e : Rat) (k : Int) : chromaFeas w r (e + 12 * (k : Rat)) = chromaFeas w r e := by
  rw [Bool.eq_iff_iff, chromaFeas_iff, chromaFeas_iff,
    circDist_congr (a := r) (b := e) (-k) (by push_cast; ring)]

/-- `midi_to_chroma` before the chroma criterion changes nothing (the criterion wraps again) -/
theorem chromaFeas_fmod (w r e : Rat) : chromaFeas w (fmod r 12) (fmod e 12) = chromaFeas w r e := by
  obtain ⟨kr, hr, _, _⟩ := fmod_spec r
  obtain ⟨ke, he, _, _⟩ := fmod_spec e
  rw [Bool.eq_iff_iff, chromaFeas_iff, chromaFeas_iff,
    circDist_congr (a := r) (b := e) (ke - kr) (by push_cast; rw [hr, he]; ring)]

/-! ### the rows `metrics` builds, frame pair by frame pair -/

abbrev Pairs := List (List Rat × List Rat)

/-- rows of a list of (reference frame, estimate frame) pairs under a feasibility predicate -/
def rowsP (feas : Rat → Rat → Bool) (ps : Pairs) : List Row :=
  ps.map fun p => (Int.ofNat (hitCount feas p.1 p.2), Int.ofNat p.1.length, Int.ofNat p.2.length)

theorem rowsOf_raw (w : Rat) : ∀ (rf ef : Frames), rf.length = ef.length →
    rowsOf w false rf ef = rowsP (rawFeas w) (rf.zip ef) := by
  intro rf
  induction rf with
  | nil => intro ef _; simp [rowsOf, rowsP, numTruePositives, numFreqs, natsToInts, zip3]
  | cons r rs ih =>
    intro ef h
    cases ef with
    | nil => simp at h
    | cons e es =>
      have h' : rs.length = es.length := by simpa using h
      have := ih es h'
      simp only [rowsOf, Bool.false_eq_true, if_false, rowsP] at this ⊢
      simp only [numTruePositives, numFreqs, natsToInts, List.map_cons, zip3, List.zip_cons_cons] at this ⊢
      rw [this]
      rfl

theorem rowsOf_chroma (w : Rat) : ∀ (rf ef : Frames), rf.length = ef.length →
    rowsOf w true rf ef = rowsP (chromaFeas w) (rf.zip ef) := by
  intro rf
  induction rf with
  | nil => intro ef _; simp [rowsOf, rowsP, numTruePositives, numFreqs, natsToInts, zip3, midiToChroma]
  | cons r rs ih =>
    intro ef h
    cases ef with
    | nil => simp at h
    | cons e es =>
      have h' : rs.length = es.length := by simpa using h
      have := ih es h'
      simp only [rowsOf, if_true, rowsP, midiToChroma] at this ⊢
      simp only [numTruePositives, numFreqs, natsToInts, List.map_cons, zip3, List.zip_cons_cons] at this ⊢
      rw [this]
      have hc : frameCount w true (r.map fun m => fmod m 12) (e.map fun m => fmod m 12)
          = hitCount (chromaFeas w) r e := by
        unfold frameCount feasOf
        simp only [if_true]
        exact hitCount_map _ _ (fun a b => chromaFeas_fmod w a b) r e
      rw [hc]

theorem rowsP_good (feas : Rat → Rat → Bool) (ps : Pairs) : Good (rowsP feas ps) := by
  intro x hx
  obtain ⟨p, _, rfl⟩ := List.mem_map.1 hx
  refine ⟨Int.natCast_nonneg _, ?_, ?_⟩
  · exact Int.ofNat_le.2 (hitCount_le_ref feas p.1 p.2)
  · exact Int.ofNat_le.2 (hitCount_le_est feas p.1 p.2)

theorem tpSum_rowsP_eq (feas : Rat → Rat → Bool) (ps : Pairs) :
    tpSum (rowsP feas ps) = (ps.map fun p => (hitCount feas p.1 p.2 : Int)).sum := by
  simp [tpSum, sumBy, rowsP, List.map_map, Function.comp_def]

theorem refSum_rowsP_eq (feas : Rat → Rat → Bool) (ps : Pairs) :
    refSum (rowsP feas ps) = (ps.map fun p => (p.1.length : Int)).sum := by
  simp [refSum, sumBy, rowsP, List.map_map, Function.comp_def]

theorem estSum_rowsP_eq (feas : Rat → Rat → Bool) (ps : Pairs) :
    estSum (rowsP feas ps) = (ps.map fun p => (p.2.length : Int)).sum := by
  simp [estSum, sumBy, rowsP, List.map_map, Function.comp_def]

theorem refSum_rowsP (feas feas' : Rat → Rat → Bool) (ps : Pairs) :
    refSum (rowsP feas ps) = refSum (rowsP feas' ps) := by
  rw [refSum_rowsP_eq, refSum_rowsP_eq]

theorem estSum_rowsP (feas feas' : Rat → Rat → Bool) (ps : Pairs) :
    estSum (rowsP feas ps) = estSum (rowsP feas' ps) := by
  rw [estSum_rowsP_eq, estSum_rowsP_eq]

theorem tpSum_rowsP_mono {feas feas' : Rat → Rat → Bool} (h : ∀ r e, feas r e = true → feas' r e = true)
    (ps : Pairs) : tpSum (rowsP feas ps) ≤ tpSum (rowsP feas' ps) := by
  rw [tpSum_rowsP_eq, tpSum_rowsP_eq]
  induction ps with
  | nil => simp
  | cons p ps ih =>
    simp only [List.map_cons, List.sum_cons]
    have : (hitCount feas p.1 p.2 : Int) ≤ (hitCount feas' p.1 p.2 : Int) :=
      Int.ofNat_le.2 (hitCount_mono h p.1 p.2)
    omega

/-- column sums after exchanging the roles of the two sides -/
theorem sums_swap (feas : Rat → Rat → Bool) (ps : Pairs) :
    tpSum (rowsP (fun e r => feas r e) (ps.map Prod.swap)) = tpSum (rowsP feas ps) ∧
    refSum (rowsP (fun e r => feas r e) (ps.map Prod.swap)) = estSum (rowsP feas ps) ∧
    estSum (rowsP (fun e r => feas r e) (ps.map Prod.swap)) = refSum (rowsP feas ps) := by
  rw [tpSum_rowsP_eq, tpSum_rowsP_eq, refSum_rowsP_eq, refSum_rowsP_eq, estSum_rowsP_eq, estSum_rowsP_eq]
  simp only [List.map_map, Function.comp_def, Prod.fst_swap, Prod.snd_swap]
  refine ⟨?_, trivial, trivial⟩
  congr 1
  apply List.map_congr_left
  intro p _
  rw [hitCount_swap feas p.1 p.2]

theorem map_congr_forall₂ {α β γ : Type} {R : α → β → Prop} {g : α → γ} {g' : β → γ} {l : List α} {l' : List β}
    (h : List.Forall₂ R l l') (hg : ∀ a b, R a b → g a = g' b) : l.map g = l'.map g' := by
  induction h with
  | nil => rfl
  | cons hab _ ih => rw [List.map_cons, List.map_cons, ih, hg _ _ hab]

/-- the rows only depend on the per-frame counts and sizes -/
theorem rowsP_congr {feas feas' : Rat → Rat → Bool} {ps ps' : Pairs}
    (h : List.Forall₂ (fun p p' => hitCount feas p.1 p.2 = hitCount feas' p'.1 p'.2 ∧
      p.1.length = p'.1.length ∧ p.2.length = p'.2.length) ps ps') : rowsP feas ps = rowsP feas' ps' :=
  map_congr_forall₂ h fun _ _ hpp =>
    Prod.ext (congrArg Int.ofNat hpp.1) (Prod.ext (congrArg Int.ofNat hpp.2.1) (congrArg Int.ofNat hpp.2.2))

theorem zip_swap (rf ef : Frames) : (rf.zip ef).map Prod.swap = ef.zip rf := by
  induction rf generalizing ef with
  | nil => simp
  | cons r rs ih => cases ef with
    | nil => simp
    | cons e es => simp [ih]

/-! ### time bases -/

theorem absR_eq (x : Rat) : absR x = |x| := by
  unfold absR
  split
  · rename_i h; rw [abs_of_neg h]
  · rename_i h; rw [abs_of_nonneg (not_lt.1 h)]

theorem allClose_self (ts : List Rat) : allClose ts ts = true := by
  induction ts with
  | nil => rfl
  | cons a as ih =>
    simp only [allClose, ih, Bool.and_true, decide_eq_true_eq, sub_self, absR_eq, abs_zero]
    have : (0 : Rat) ≤ |a| := abs_nonneg a
    unfold atol rtol
    have h1 : (0 : Rat) ≤ 1 / 100000 * |a| := by positivity
    have h2 : (0 : Rat) < 1 / 100000000 := by norm_num
    linarith

/-- identical time bases are never resampled -/
theorem timeBasesDiffer_self (ts : List Rat) : timeBasesDiffer ts ts = false := by
  simp [timeBasesDiffer, allClose_self]

theorem timeBasesDiffer_of_length {rt et : List Rat} (h : et.length ≠ rt.length) : timeBasesDiffer rt et = true := by
  simp [timeBasesDiffer, h]

theorem length_of_not_differ {rt et : List Rat} (h : timeBasesDiffer rt et = false) : et.length = rt.length := by
  simp only [timeBasesDiffer, Bool.or_eq_false_iff, bne_eq_false_iff_eq] at h
  exact h.1

theorem resampleCore_length (ts : List Rat) (fs : Frames) (tg : List Rat) :
    (resampleCore ts fs tg).length = tg.length := by
  unfold resampleCore; split <;> simp

theorem alignedEst_length {rt et : List Rat} {ef : Frames} (he : ef.length = et.length) :
    (alignedEst rt et ef).length = rt.length := by
  unfold alignedEst
  split
  · exact resampleCore_length _ _ _
  · rename_i h
    rw [he]; exact length_of_not_differ (by simpa using h)

theorem alignedEst_self (rt : List Rat) (ef : Frames) : alignedEst rt rt ef = ef := by
  simp [alignedEst, timeBasesDiffer_self]

/-- `metrics` after validation, frame pair by frame pair -/
theorem metricsCore_eq {rt et : List Rat} {rf ef : Frames} (w : Rat)
    (hr : rf.length = rt.length) (he : ef.length = et.length) :
    metricsCore rt rf et ef w =
      (sevenOf (rowsP (rawFeas w) (rf.zip (alignedEst rt et ef))),
       sevenOf (rowsP (chromaFeas w) (rf.zip (alignedEst rt et ef)))) := by
  have hl : rf.length = (alignedEst rt et ef).length := by rw [alignedEst_length he, hr]
  unfold metricsCore
  simp only [rowsOf_raw w _ _ hl, rowsOf_chroma w _ _ hl]

/-! ### what a successful `metrics` call means -/

theorem valid_lengths {rt et : List Rat} {rf ef : Frames} (h : valid rt rf et ef = true) :
    rf.length = rt.length ∧ ef.length = et.length := by
  simp only [valid, Bool.and_eq_true, beq_iff_eq] at h
  exact ⟨h.1.1.1.2.symm, h.1.1.2.symm⟩

theorem metrics_ok {rt et : List Rat} {rf ef : Frames} {w : Rat} {m : Seven × Seven}
    (h : metrics rt rf et ef w = .ok m) :
    m = metricsCore rt rf et ef w ∧ rf.length = rt.length ∧ ef.length = et.length := by
  unfold metrics at h
  split at h
  · rename_i hv
    refine ⟨?_, valid_lengths hv⟩
    simp only [pure, Except.pure, Except.ok.injEq] at h
    exact h.symm
  · simp [throw, throwThe, MonadExceptOf.throw] at h

theorem metrics_of_valid {rt et : List Rat} {rf ef : Frames} (w : Rat) (h : valid rt rf et ef = true) :
    metrics rt rf et ef w = .ok (metricsCore rt rf et ef w) := by
  unfold metrics; rw [if_pos h]; rfl

end Multipitch
end Mir
