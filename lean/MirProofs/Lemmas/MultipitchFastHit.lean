import MirProofs.Lemmas.Multipitch

/-! `util._fast_hit_windows` (sort, two `searchsorted`, slice) enumerates exactly the pairs
    `est_j - w ≤ ref_i ≤ est_j + w`. -/
namespace Mir
namespace Multipitch

abbrev SortedV (s : List (Rat × Nat)) : Prop := s.Pairwise (fun a b => a.1 ≤ b.1)

theorem mem_insertByVal (x y : Rat × Nat) : ∀ l : List (Rat × Nat), y ∈ insertByVal x l ↔ y = x ∨ y ∈ l
  | [] => by simp [insertByVal]
  | z :: zs => by
    unfold insertByVal
    split
    · simp
    · simp only [List.mem_cons, mem_insertByVal x y zs]
      tauto

theorem mem_sortByVal (y : Rat × Nat) : ∀ l : List (Rat × Nat), y ∈ sortByVal l ↔ y ∈ l
  | [] => by simp [sortByVal]
  | x :: xs => by
    simp only [sortByVal, mem_insertByVal, mem_sortByVal y xs, List.mem_cons]

theorem sorted_insertByVal (x : Rat × Nat) : ∀ l : List (Rat × Nat), SortedV l → SortedV (insertByVal x l)
  | [], _ => by simp [insertByVal]
  | z :: zs, h => by
    have hz := List.pairwise_cons.1 h
    unfold insertByVal
    split
    · rename_i hlt
      refine List.Pairwise.cons ?_ h
      intro y hy
      rcases List.mem_cons.1 hy with rfl | hy
      · exact hlt.le
      · exact le_trans hlt.le (hz.1 y hy)
    · rename_i hnlt
      refine List.Pairwise.cons ?_ (sorted_insertByVal x zs hz.2)
      intro y hy
      rcases (mem_insertByVal x y zs).1 hy with rfl | hy
      · exact not_lt.1 hnlt
      · exact hz.1 y hy

theorem sorted_sortByVal : ∀ l : List (Rat × Nat), SortedV (sortByVal l)
  | [] => List.Pairwise.nil
  | x :: xs => sorted_insertByVal x _ (sorted_sortByVal xs)

/-- a predicate that, once true of an entry, is true of every entry with a smaller-or-equal value -/
def DownClosed (p : Rat × Nat → Bool) : Prop := ∀ a b : Rat × Nat, a.1 ≤ b.1 → p b = true → p a = true

theorem filter_split {p : Rat × Nat → Bool} (hp : DownClosed p) :
    ∀ s : List (Rat × Nat), SortedV s → s.filter p ++ s.filter (fun x => !p x) = s
  | [], _ => rfl
  | x :: xs, hs => by
    have hx := List.pairwise_cons.1 hs
    by_cases hpx : p x = true
    · simp only [List.filter_cons_of_pos hpx, hpx, Bool.not_true, Bool.false_eq_true, not_false_eq_true,
        List.filter_cons_of_neg, List.cons_append, filter_split hp xs hx.2]
    · have hall : ∀ y ∈ xs, ¬ p y = true := fun y hy hpy => hpx (hp x y (hx.1 y hy) hpy)
      have h1 : xs.filter p = [] := List.filter_eq_nil_iff.2 hall
      have h2 : xs.filter (fun x => !p x) = xs := List.filter_eq_self.2 (fun y hy => by simpa using hall y hy)
      have hpx' : p x = false := by simpa using hpx
      simp [hpx', h1, h2]

theorem drop_filter {p : Rat × Nat → Bool} (hp : DownClosed p) (s : List (Rat × Nat)) (hs : SortedV s) :
    s.drop (s.filter p).length = s.filter (fun x => !p x) := by
  have h := filter_split hp s hs
  calc s.drop (s.filter p).length
      = (s.filter p ++ s.filter (fun x => !p x)).drop (s.filter p).length := by rw [h]
    _ = s.filter (fun x => !p x) := List.drop_left' rfl

theorem take_filter {p : Rat × Nat → Bool} (hp : DownClosed p) (s : List (Rat × Nat)) (hs : SortedV s) :
    s.take (s.filter p).length = s.filter p := by
  have h := filter_split hp s hs
  calc s.take (s.filter p).length
      = (s.filter p ++ s.filter (fun x => !p x)).take (s.filter p).length := by rw [h]
    _ = s.filter p := List.take_left' rfl

/-- the slice `sorted[searchsorted(e-w,'left') : searchsorted(e+w,'right')]` -/
theorem mem_slice (s : List (Rat × Nat)) (hs : SortedV s) (e w : Rat) (x : Rat × Nat) :
    x ∈ (s.drop (searchLeft s (e - w))).take (searchRight s (e + w) - searchLeft s (e - w)) ↔
      x ∈ s ∧ e - w ≤ x.1 ∧ x.1 ≤ e + w := by
  let p : Rat × Nat → Bool := fun x => decide (x.1 < e - w)
  let q : Rat × Nat → Bool := fun x => decide (x.1 ≤ e + w)
  have hp : DownClosed p := fun a b hab hb => by
    simp only [p, decide_eq_true_eq] at hb ⊢; linarith
  have hq : DownClosed q := fun a b hab hb => by
    simp only [q, decide_eq_true_eq] at hb ⊢; linarith
  have hlo : searchLeft s (e - w) = (s.filter p).length := rfl
  have hhi : searchRight s (e + w) = (s.filter q).length := rfl
  set B := s.filter (fun x => !p x) with hB
  have hBs : SortedV B := List.Pairwise.filter _ hs
  have hsplit := filter_split hp s hs
  have hcount : (s.filter q).length = ((s.filter p).filter q).length + (B.filter q).length := by
    conv_lhs => rw [← hsplit]
    rw [List.filter_append, List.length_append]
  have hdiff : (s.filter q).length - (s.filter p).length = (B.filter q).length := by
    rcases le_or_gt 0 w with hw | hw
    · have : (s.filter p).filter q = s.filter p := by
        apply List.filter_eq_self.2
        intro y hy
        have := (List.mem_filter.1 hy).2
        simp only [p, q, decide_eq_true_eq] at this ⊢
        linarith
      rw [hcount, this]; omega
    · have : B.filter q = [] := by
        apply List.filter_eq_nil_iff.2
        intro y hy
        have := (List.mem_filter.1 hy).2
        simp only [p, q, Bool.not_eq_true', decide_eq_false_iff_not, not_lt, decide_eq_true_eq, not_le] at this ⊢
        linarith
      have hle : ((s.filter p).filter q).length ≤ (s.filter p).length := List.length_filter_le _ _
      rw [hcount, this]; simp only [List.length_nil]; omega
  rw [hlo, hhi, drop_filter hp s hs, hdiff, take_filter hq B hBs]
  simp only [hB, List.mem_filter, p, q, Bool.not_eq_true', decide_eq_false_iff_not, not_lt, decide_eq_true_eq]
  tauto

/-- **`_fast_hit_windows` is the brute-force enumeration `|ref_i - est_j| ≤ w`** -/
theorem mem_fastHitWindows (ref est : List Rat) (w : Rat) (i j : Nat) :
    (i, j) ∈ fastHitWindows ref est w ↔ (i, j) ∈ hitGraph (withinWindow w) ref est := by
  rw [mem_hitGraph]
  unfold fastHitWindows
  simp only [List.mem_flatMap, List.mem_map, Prod.exists, Prod.mk.injEq]
  constructor
  · rintro ⟨e, j', he, r, i', hx, rfl, rfl⟩
    rw [mem_slice _ (sorted_sortByVal _)] at hx
    refine ⟨r, e, (mem_enumFrom'_zero _ _ _).1 ((mem_sortByVal _ _).1 hx.1), (mem_enumFrom'_zero _ _ _).1 he, ?_⟩
    simpa [withinWindow] using hx.2
  · rintro ⟨r, e, hr, he, hf⟩
    refine ⟨e, j, (mem_enumFrom'_zero _ _ _).2 he, r, i, ?_, rfl, rfl⟩
    rw [mem_slice _ (sorted_sortByVal _)]
    refine ⟨(mem_sortByVal _ _).2 ((mem_enumFrom'_zero _ _ _).2 hr), ?_⟩
    simpa [withinWindow] using hf

/-- hence the size of `util.match_events(ref, est, w)` is the hit count of the window criterion -/
theorem matchEventsSize_eq_hitCount (ref est : List Rat) (w : Rat) :
    matchEventsSize ref est w = hitCount (withinWindow w) ref est :=
  max_congr fun ⟨i, j⟩ => mem_fastHitWindows ref est w i j

end Multipitch
end Mir
