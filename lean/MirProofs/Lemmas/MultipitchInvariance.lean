import MirProofs.Lemmas.MultipitchResample
import Mathlib.Data.List.Forall2

/-! consequences for the seven scores: range, perfect estimate, swap, monotonicity, invariances -/
namespace Mir
namespace Multipitch

/-! ### scores of good rows -/

theorem seven_acc_le {rows : List Row} (h : Good rows) :
    (sevenOf rows).accuracy ≤ (sevenOf rows).precision ∧ (sevenOf rows).accuracy ≤ (sevenOf rows).recall := by
  show (computeAccuracy rows).2.2 ≤ (computeAccuracy rows).1 ∧ (computeAccuracy rows).2.2 ≤ (computeAccuracy rows).2.1
  rw [computeAccuracy_accOf]
  exact accOf_acc_le h.tp_nonneg h.tp_le_ref h.tp_le_est

theorem seven_acc_range {rows : List Row} (h : Good rows) :
    (0 ≤ (sevenOf rows).precision ∧ (sevenOf rows).precision ≤ 1) ∧
    (0 ≤ (sevenOf rows).recall ∧ (sevenOf rows).recall ≤ 1) ∧
    (0 ≤ (sevenOf rows).accuracy ∧ (sevenOf rows).accuracy ≤ 1) := by
  show (0 ≤ (computeAccuracy rows).1 ∧ (computeAccuracy rows).1 ≤ 1) ∧
    (0 ≤ (computeAccuracy rows).2.1 ∧ (computeAccuracy rows).2.1 ≤ 1) ∧
    (0 ≤ (computeAccuracy rows).2.2 ∧ (computeAccuracy rows).2.2 ≤ 1)
  rw [computeAccuracy_accOf]
  exact accOf_range h.tp_nonneg h.tp_le_ref h.tp_le_est

theorem seven_err_total (rows : List Row) :
    (sevenOf rows).etot = (sevenOf rows).esub + (sevenOf rows).emiss + (sevenOf rows).efa := err_total rows

theorem seven_err_nonneg {rows : List Row} (h : Good rows) :
    0 ≤ (sevenOf rows).esub ∧ 0 ≤ (sevenOf rows).emiss ∧ 0 ≤ (sevenOf rows).efa ∧ 0 ≤ (sevenOf rows).etot :=
  err_nonneg h

theorem seven_err_le_one {rows : List Row} (h : Good rows) :
    (sevenOf rows).esub ≤ 1 ∧ (sevenOf rows).emiss ≤ 1 := err_sub_miss_le_one h

/-- a looser criterion on the same frame pairs never lowers precision, recall or accuracy -/
theorem seven_mono {feas feas' : Rat → Rat → Bool} (h : ∀ r e, feas r e = true → feas' r e = true) (ps : Pairs) :
    (sevenOf (rowsP feas ps)).precision ≤ (sevenOf (rowsP feas' ps)).precision ∧
    (sevenOf (rowsP feas ps)).recall ≤ (sevenOf (rowsP feas' ps)).recall ∧
    (sevenOf (rowsP feas ps)).accuracy ≤ (sevenOf (rowsP feas' ps)).accuracy := by
  show (computeAccuracy _).1 ≤ (computeAccuracy _).1 ∧ (computeAccuracy _).2.1 ≤ (computeAccuracy _).2.1 ∧
    (computeAccuracy _).2.2 ≤ (computeAccuracy _).2.2
  rw [computeAccuracy_accOf, computeAccuracy_accOf, refSum_rowsP feas feas', estSum_rowsP feas feas']
  have g := rowsP_good feas ps
  have g' := rowsP_good feas' ps
  exact accOf_mono g.tp_nonneg (tpSum_rowsP_mono h ps) g'.tp_le_ref g'.tp_le_est

/-- exchanging the two sides exchanges precision and recall and keeps accuracy -/
theorem seven_swap (feas : Rat → Rat → Bool) (ps : Pairs) :
    (sevenOf (rowsP (fun e r => feas r e) (ps.map Prod.swap))).precision = (sevenOf (rowsP feas ps)).recall ∧
    (sevenOf (rowsP (fun e r => feas r e) (ps.map Prod.swap))).recall = (sevenOf (rowsP feas ps)).precision ∧
    (sevenOf (rowsP (fun e r => feas r e) (ps.map Prod.swap))).accuracy = (sevenOf (rowsP feas ps)).accuracy := by
  show (computeAccuracy _).1 = (computeAccuracy _).2.1 ∧ (computeAccuracy _).2.1 = (computeAccuracy _).1 ∧
    (computeAccuracy _).2.2 = (computeAccuracy _).2.2
  obtain ⟨h1, h2, h3⟩ := sums_swap feas ps
  rw [computeAccuracy_accOf, computeAccuracy_accOf, h1, h2, h3]
  exact accOf_swap _ _ _

/-! ### a perfect estimate -/

/-- every frame: all pitches hit, as many estimated as reference pitches -/
def Diag (rows : List Row) : Prop := ∀ x ∈ rows, 0 ≤ x.1 ∧ x.2.1 = x.1 ∧ x.2.2 = x.1

theorem Diag.sums {rows : List Row} (h : Diag rows) :
    refSum rows = tpSum rows ∧ estSum rows = tpSum rows ∧ 0 ≤ tpSum rows :=
  ⟨sumBy_congr fun x hx => (h x hx).2.1, sumBy_congr fun x hx => (h x hx).2.2,
   sumBy_nonneg fun x hx => (h x hx).1⟩

theorem seven_diag_pos {rows : List Row} (h : Diag rows) (hpos : 0 < tpSum rows) :
    sevenOf rows = ⟨1, 1, 1, 0, 0, 0, 0⟩ := by
  obtain ⟨hr, he, _⟩ := h.sums
  have hacc : computeAccuracy rows = (1, 1, 1) := by
    rw [computeAccuracy_accOf, hr, he]; exact accOf_self hpos
  have hz : ∀ f : Row → Int, (∀ x ∈ rows, f x = 0) → sumBy f rows = 0 := fun f hf => by
    rw [sumBy_congr hf, sumBy_zero]
  have herr : computeErrScore rows = (0, 0, 0, 0) := by
    unfold computeErrScore
    have hne : sumBy (fun x => x.2.1) rows ≠ 0 := by
      have : sumBy (fun x => x.2.1) rows = tpSum rows := hr
      omega
    simp only [hne, if_false]
    rw [hz (fun x => min x.2.1 x.2.2 - x.1) (fun x hx => by have := h x hx; omega),
      hz (fun x => if x.2.1 - x.2.2 < 0 then 0 else x.2.1 - x.2.2) (fun x hx => by have := h x hx; split <;> omega),
      hz (fun x => if x.2.2 - x.2.1 < 0 then 0 else x.2.2 - x.2.1) (fun x hx => by have := h x hx; split <;> omega),
      hz (fun x => max x.2.1 x.2.2 - x.1) (fun x hx => by have := h x hx; omega)]
    simp [ofInt]
  unfold sevenOf
  rw [hacc, herr]

theorem seven_diag_zero {rows : List Row} (h : Diag rows) (hz : tpSum rows = 0) :
    sevenOf rows = ⟨0, 0, 0, 0, 0, 0, 0⟩ := by
  obtain ⟨hr, he, _⟩ := h.sums
  have hacc : computeAccuracy rows = (0, 0, 0) := by
    rw [computeAccuracy_accOf, hr, he, hz]; exact accOf_zero 0 0
  have herr : computeErrScore rows = (0, 0, 0, 0) := err_empty_reference (by rw [hr, hz])
  unfold sevenOf
  rw [hacc, herr]

theorem mem_zip_self {α : Type} {l : List α} {p : α × α} (h : p ∈ l.zip l) : p.1 = p.2 ∧ p.1 ∈ l := by
  induction l with
  | nil => simp at h
  | cons a as ih =>
    simp only [List.zip_cons_cons, List.mem_cons] at h
    rcases h with rfl | h
    · simp
    · exact ⟨(ih h).1, List.mem_cons_of_mem _ (ih h).2⟩

theorem rowsP_self_diag {feas : Rat → Rat → Bool} (hrefl : ∀ x, feas x x = true) (fs : Frames) :
    Diag (rowsP feas (fs.zip fs)) := by
  intro x hx
  obtain ⟨p, hp, rfl⟩ := List.mem_map.1 hx
  obtain ⟨h12, _⟩ := mem_zip_self hp
  have hc : hitCount feas p.1 p.2 = p.1.length := by
    rw [← h12]; exact hitCount_self feas p.1 fun x _ => hrefl x
  refine ⟨Int.natCast_nonneg _, ?_, ?_⟩
  · show Int.ofNat p.1.length = Int.ofNat (hitCount feas p.1 p.2); rw [hc]
  · show Int.ofNat p.2.length = Int.ofNat (hitCount feas p.1 p.2); rw [hc, h12]

theorem tpSum_self_pos {feas : Rat → Rat → Bool} (hrefl : ∀ x, feas x x = true) {fs : Frames}
    (h : ∃ f ∈ fs, f ≠ []) : 0 < tpSum (rowsP feas (fs.zip fs)) := by
  rw [tpSum_rowsP_eq]
  obtain ⟨f, hf, hne⟩ := h
  induction fs with
  | nil => simp at hf
  | cons g gs ih =>
    simp only [List.zip_cons_cons, List.map_cons, List.sum_cons]
    have hg : (hitCount feas g g : Int) = g.length := by
      rw [hitCount_self feas g fun x _ => hrefl x]
    have hrest : 0 ≤ ((gs.zip gs).map fun p => (hitCount feas p.1 p.2 : Int)).sum := by
      apply List.sum_nonneg
      intro x hx
      obtain ⟨p, _, rfl⟩ := List.mem_map.1 hx
      exact Int.natCast_nonneg _
    rcases List.mem_cons.1 hf with rfl | hf
    · have : 0 < f.length := List.length_pos_iff.2 hne
      rw [hg]; omega
    · have := ih hf
      rw [hg]; omega

theorem tpSum_self_zero {feas : Rat → Rat → Bool} {fs : Frames} (h : ∀ f ∈ fs, f = []) :
    tpSum (rowsP feas (fs.zip fs)) = 0 := by
  have hg := rowsP_good feas (fs.zip fs)
  have h1 := hg.tp_nonneg
  have h2 := hg.tp_le_ref
  have h3 : refSum (rowsP feas (fs.zip fs)) = 0 := by
    rw [refSum_rowsP_eq]
    apply List.sum_eq_zero
    intro x hx
    obtain ⟨p, hp, rfl⟩ := List.mem_map.1 hx
    have := h p.1 (mem_zip_self hp).2
    simp [this]
  omega

/-! ### resampling commutes with what is done inside the frames -/

theorem resampleFrame_map (g : List Rat → List Rat) (hg : g [] = []) (ts : List Rat) (fs : Frames) (t : Rat) :
    resampleFrame ts (fs.map g) t = g (resampleFrame ts fs t) := by
  unfold resampleFrame
  rw [List.length_map]
  have : fs.map g ++ [[]] = (fs ++ [[]]).map g := by simp [hg]
  rw [this, List.getElem?_map]
  cases (fs ++ [[]])[resampleIdx ts fs.length t]? <;> simp [hg]

theorem resampleCore_map (g : List Rat → List Rat) (hg : g [] = []) (ts : List Rat) (fs : Frames) (tg : List Rat) :
    resampleCore ts (fs.map g) tg = (resampleCore ts fs tg).map g := by
  unfold resampleCore
  split
  · simp [hg]
  · simp only [List.map_map]
    apply List.map_congr_left
    intro t _
    exact resampleFrame_map g hg ts fs t

theorem alignedEst_map (g : List Rat → List Rat) (hg : g [] = []) (rt et : List Rat) (ef : Frames) :
    alignedEst rt et (ef.map g) = (alignedEst rt et ef).map g := by
  unfold alignedEst
  split
  · exact resampleCore_map g hg et ef rt
  · rfl

theorem resampleFrame_rel {R : List Rat → List Rat → Prop} (hnil : R [] []) {fs fs' : Frames}
    (h : List.Forall₂ R fs fs') (ts : List Rat) (t : Rat) :
    R (resampleFrame ts fs t) (resampleFrame ts fs' t) := by
  have hlen := h.length_eq
  have h2 : List.Forall₂ R (fs ++ [[]]) (fs' ++ [[]]) :=
    List.rel_append h (List.Forall₂.cons hnil List.Forall₂.nil)
  unfold resampleFrame
  rw [← hlen]
  generalize resampleIdx ts fs.length t = k
  have hl2 := h2.length_eq
  by_cases hk : k < (fs ++ [[]]).length
  · have hk' : k < (fs' ++ [[]]).length := by omega
    rw [List.getElem?_eq_getElem hk, List.getElem?_eq_getElem hk']
    exact (List.forall₂_iff_get.1 h2).2 k hk hk'
  · have hk' : ¬ k < (fs' ++ [[]]).length := by omega
    rw [List.getElem?_eq_none (by omega), List.getElem?_eq_none (by omega)]
    exact hnil

theorem resampleCore_rel {R : List Rat → List Rat → Prop} (hnil : R [] []) {fs fs' : Frames}
    (h : List.Forall₂ R fs fs') (ts tg : List Rat) :
    List.Forall₂ R (resampleCore ts fs tg) (resampleCore ts fs' tg) := by
  unfold resampleCore
  split
  · induction tg with
    | nil => exact List.Forall₂.nil
    | cons t tl ih => exact List.Forall₂.cons hnil ih
  · induction tg with
    | nil => exact List.Forall₂.nil
    | cons t tl ih => exact List.Forall₂.cons (resampleFrame_rel hnil h ts t) ih

theorem alignedEst_rel {R : List Rat → List Rat → Prop} (hnil : R [] []) {ef ef' : Frames}
    (h : List.Forall₂ R ef ef') (rt et : List Rat) :
    List.Forall₂ R (alignedEst rt et ef) (alignedEst rt et ef') := by
  unfold alignedEst
  split
  · exact resampleCore_rel hnil h et rt
  · exact h

/-- zipping two framewise related lists -/
theorem forall₂_zip {R S : List Rat → List Rat → Prop} {a a' b b' : Frames}
    (ha : List.Forall₂ R a a') (hb : List.Forall₂ S b b') :
    List.Forall₂ (fun p p' => R p.1 p'.1 ∧ S p.2 p'.2) (a.zip b) (a'.zip b') := by
  induction ha generalizing b b' with
  | nil => simp
  | cons h _ ih =>
    cases hb with
    | nil => simp
    | cons h' hb' => exact List.Forall₂.cons ⟨h, h'⟩ (ih hb')

theorem forall₂_map_right {R : List Rat → List Rat → Prop} (g : List Rat → List Rat) (h : ∀ f, R f (g f))
    (fs : Frames) : List.Forall₂ R fs (fs.map g) := by
  induction fs with
  | nil => exact List.Forall₂.nil
  | cons f fs ih => exact List.Forall₂.cons (h f) ih

/-- the seven scores of both flavours only depend on the frame pairs through counts and sizes -/
theorem sevenOf_congr {feas feas' : Rat → Rat → Bool} {ps ps' : Pairs}
    (h : List.Forall₂ (fun p p' => hitCount feas p.1 p.2 = hitCount feas' p'.1 p'.2 ∧
      p.1.length = p'.1.length ∧ p.2.length = p'.2.length) ps ps') :
    sevenOf (rowsP feas ps) = sevenOf (rowsP feas' ps') := by
  rw [rowsP_congr h]

end Multipitch
end Mir
