import MirProofs.Lemmas.Multipitch

/-! nearest-frame resampling (`resample_multipitch` / `interp1d(kind='nearest')`) -/
namespace Mir
namespace Multipitch

/-- time stamps in non-decreasing order (what `util.validate_events` enforces) -/
abbrev Sorted (ts : List Rat) : Prop := ts.Pairwise (· ≤ ·)

theorem sortedB_sorted : ∀ (ts : List Rat), sortedB ts = true → Sorted ts
  | [], _ => List.Pairwise.nil
  | [_], _ => List.pairwise_singleton _ _
  | a :: b :: rest, h => by
    simp only [sortedB, Bool.and_eq_true, Bool.not_eq_true', decide_eq_false_iff_not, not_lt] at h
    have ih := sortedB_sorted (b :: rest) h.2
    have hab : a ≤ b := by linarith [h.1]
    refine List.Pairwise.cons ?_ ih
    intro y hy
    rcases List.mem_cons.1 hy with rfl | hy
    · exact hab
    · exact le_trans hab (List.rel_of_pairwise_cons ih hy)

/-- the index `searchsorted(midpoints, t, 'left')` written as a scan from the left -/
def nearestRec : List Rat → Rat → Nat
  | a :: b :: rest, t => if b / 2 + a / 2 < t then nearestRec (b :: rest) t + 1 else 0
  | _, _ => 0

theorem midpoints_ge {b : Rat} : ∀ (l : List Rat), (∀ y ∈ l, b ≤ y) → ∀ m ∈ midpoints l, b ≤ m
  | [], _, m, hm => by simp [midpoints] at hm
  | [_], _, m, hm => by simp [midpoints] at hm
  | x :: y :: rest, h, m, hm => by
    simp only [midpoints, List.mem_cons] at hm
    rcases hm with rfl | hm
    · have hx := h x (by simp)
      have hy := h y (by simp)
      linarith
    · exact midpoints_ge (y :: rest) (fun z hz => h z (by simp [hz])) m hm

theorem nearestIdx_eq_rec : ∀ (ts : List Rat) (t : Rat), Sorted ts → nearestIdx ts t = nearestRec ts t
  | [], t, _ => by simp [nearestIdx, nearestRec, midpoints]
  | [_], t, _ => by simp [nearestIdx, nearestRec, midpoints]
  | a :: b :: rest, t, hs => by
    have hs' : Sorted (b :: rest) := (List.pairwise_cons.1 hs).2
    have ih := nearestIdx_eq_rec (b :: rest) t hs'
    unfold nearestRec
    unfold nearestIdx at ih ⊢
    simp only [midpoints, List.length_cons] at ih ⊢
    by_cases hm : b / 2 + a / 2 < t
    · simp only [hm, List.filter_cons_of_pos, decide_true, List.length_cons, if_true]
      rw [← ih]
      simp only [Nat.add_sub_cancel]
      omega
    · have hall : ∀ m ∈ midpoints (b :: rest), ¬ m < t := by
        intro m hmem
        have hb : ∀ y ∈ b :: rest, b ≤ y := by
          intro y hy
          rcases List.mem_cons.1 hy with rfl | hy
          · exact le_refl _
          · exact List.rel_of_pairwise_cons hs' hy
        have h1 := midpoints_ge (b :: rest) hb m hmem
        have hab : a ≤ b := List.rel_of_pairwise_cons hs (by simp)
        intro hlt
        apply hm
        linarith
      have hnil : (midpoints (b :: rest)).filter (fun m => decide (m < t)) = [] := by
        rw [List.filter_eq_nil_iff]
        intro m hmem
        simpa using hall m hmem
      simp [hm, hnil]

/-- the chosen frame is a nearest one -/
theorem nearestRec_nearest : ∀ (ts : List Rat) (t : Rat), Sorted ts → ∀ x, ts[nearestRec ts t]? = some x →
    ∀ y ∈ ts, |x - t| ≤ |y - t|
  | [], t, _, x, hx, y, hy => by simp at hy
  | [a], t, _, x, hx, y, hy => by
    simp only [nearestRec, List.getElem?_cons_zero, Option.some.injEq] at hx
    simp only [List.mem_singleton] at hy
    subst hx hy; exact le_refl _
  | a :: b :: rest, t, hs, x, hx, y, hy => by
    have hs' : Sorted (b :: rest) := (List.pairwise_cons.1 hs).2
    have hab : a ≤ b := List.rel_of_pairwise_cons hs (by simp)
    unfold nearestRec at hx
    by_cases hm : b / 2 + a / 2 < t
    · simp only [hm, if_true, List.getElem?_cons_succ] at hx
      have ih := nearestRec_nearest (b :: rest) t hs' x hx
      rcases List.mem_cons.1 hy with rfl | hy
      · have h1 := ih b (by simp)
        have h2 : |b - t| ≤ |y - t| := by
          have hyt : y - t < 0 := by linarith
          rw [abs_of_neg hyt, abs_le]
          constructor <;> linarith
        exact le_trans h1 h2
      · exact ih y hy
    · simp only [hm, if_false, List.getElem?_cons_zero, Option.some.injEq] at hx
      subst hx
      rcases List.mem_cons.1 hy with rfl | hy
      · exact le_refl _
      · have hby : b ≤ y := by
          rcases List.mem_cons.1 hy with rfl | hy
          · exact le_refl _
          · exact List.rel_of_pairwise_cons hs' hy
        have h3 : |a - t| ≤ y - t := by
          rw [abs_le]; constructor <;> linarith
        exact le_trans h3 (le_abs_self _)

/-- ties between different time stamps go to the EARLIER frame: every frame before the chosen one that
    carries a smaller time stamp is strictly farther away -/
theorem nearestRec_tie : ∀ (ts : List Rat) (t : Rat), Sorted ts → ∀ x, ts[nearestRec ts t]? = some x →
    ∀ j y, j < nearestRec ts t → ts[j]? = some y → y < x → |x - t| < |y - t|
  | [], t, _, x, hx, j, y, hj, _, _ => by simp [nearestRec] at hj
  | [a], t, _, x, hx, j, y, hj, _, _ => by simp [nearestRec] at hj
  | a :: b :: rest, t, hs, x, hx, j, y, hj, hy, hyx => by
    have hs' : Sorted (b :: rest) := (List.pairwise_cons.1 hs).2
    have hab : a ≤ b := List.rel_of_pairwise_cons hs (by simp)
    unfold nearestRec at hx hj
    by_cases hm : b / 2 + a / 2 < t
    · simp only [hm, if_true, List.getElem?_cons_succ] at hx hj
      have ihn := nearestRec_nearest (b :: rest) t hs' x hx
      have iht := nearestRec_tie (b :: rest) t hs' x hx
      cases j with
      | zero =>
        have hya : a = y := by simpa using hy
        rw [← hya] at hyx ⊢
        have hat : a - t < 0 := by linarith
        rcases lt_or_eq_of_le hab with hlt | heq
        · have h1 := ihn b (by simp)
          have h2 : |b - t| < |a - t| := by
            rw [abs_of_neg hat, abs_lt]
            constructor <;> linarith
          exact lt_of_le_of_lt h1 h2
        · -- a = b: the first frame of the tail carries the same stamp
          by_cases hk : 0 < nearestRec (b :: rest) t
          · have := iht 0 b hk (by simp) (by linarith)
            rw [heq]; exact this
          · have hk0 : nearestRec (b :: rest) t = 0 := by omega
            rw [hk0] at hx
            have hbx : b = x := by simpa using hx
            linarith
      | succ j =>
        simp only [List.getElem?_cons_succ] at hy
        exact iht j y (by omega) hy hyx
    · simp [hm] at hj

theorem nearestRec_lt : ∀ (ts : List Rat) (t : Rat), ts ≠ [] → nearestRec ts t < ts.length
  | [], _, h => absurd rfl h
  | [_], _, _ => by simp [nearestRec]
  | a :: b :: rest, t, _ => by
    unfold nearestRec
    split
    · have := nearestRec_lt (b :: rest) t (by simp)
      simp only [List.length_cons] at this ⊢
      omega
    · simp

/-- the index handed to `frequencies + [empty]` never leaves that list -/
theorem resampleIdx_le (ts : List Rat) (n : Nat) (t : Rat) (hs : Sorted ts) (hn : ts.length = n) :
    resampleIdx ts n t ≤ n := by
  unfold resampleIdx
  split
  · rename_i lo hi hlo _
    split
    · exact le_refl _
    · rw [nearestIdx_eq_rec ts t hs]
      have hne : ts ≠ [] := by rintro rfl; simp at hlo
      have := nearestRec_lt ts t hne
      omega
  · exact le_refl _

/-- **out of range ⇒ empty frame** -/
theorem resampleFrame_outside {ts : List Rat} {fs : Frames} {lo hi t : Rat}
    (hlo : ts.head? = some lo) (hhi : ts.getLast? = some hi) (h : t < lo ∨ hi < t) :
    resampleFrame ts fs t = [] := by
  unfold resampleFrame resampleIdx
  simp [hlo, hhi, h]

/-- **in range ⇒ the frame of a nearest time stamp, ties to the earlier stamp** -/
theorem resampleFrame_inside {ts : List Rat} {fs : Frames} {lo hi t : Rat} (hs : Sorted ts)
    (hl : ts.length = fs.length) (hlo : ts.head? = some lo) (hhi : ts.getLast? = some hi)
    (h1 : lo ≤ t) (h2 : t ≤ hi) :
    ∃ (i : Nat) (x : Rat), ts[i]? = some x ∧ fs[i]? = some (resampleFrame ts fs t) ∧
      (∀ y ∈ ts, |x - t| ≤ |y - t|) ∧
      (∀ (j : Nat) (y : Rat), j < i → ts[j]? = some y → y < x → |x - t| < |y - t|) := by
  have hne : ts ≠ [] := by rintro rfl; simp at hlo
  have hidx : resampleIdx ts fs.length t = nearestRec ts t := by
    unfold resampleIdx
    simp only [hlo, hhi]
    rw [if_neg (show ¬ (t < lo ∨ hi < t) by intro h; rcases h with h | h <;> linarith), nearestIdx_eq_rec ts t hs]
  have hlt := nearestRec_lt ts t hne
  have hlt' : nearestRec ts t < fs.length := by omega
  refine ⟨nearestRec ts t, ts[nearestRec ts t], by simp [hlt], ?_, ?_, ?_⟩
  · unfold resampleFrame
    rw [hidx, List.getElem?_append_left hlt']
    simp [hlt']
  · exact nearestRec_nearest ts t hs _ (by simp [hlt])
  · exact nearestRec_tie ts t hs _ (by simp [hlt])

/-! ### adding a constant to every time stamp -/

theorem midpoints_shift (c : Rat) : ∀ ts : List Rat, midpoints (ts.map (· + c)) = (midpoints ts).map (· + c)
  | [] => rfl
  | [_] => rfl
  | a :: b :: rest => by
    have ih := midpoints_shift c (b :: rest)
    simp only [List.map_cons, midpoints] at ih ⊢
    rw [ih]
    congr 1
    ring

theorem nearestIdx_shift (c : Rat) (ts : List Rat) (t : Rat) :
    nearestIdx (ts.map (· + c)) (t + c) = nearestIdx ts t := by
  unfold nearestIdx
  rw [midpoints_shift, List.filter_map, List.length_map, List.length_map]
  congr 2
  apply List.filter_congr
  intro m _
  simp [Function.comp]

theorem resampleIdx_shift (c : Rat) (ts : List Rat) (n : Nat) (t : Rat) :
    resampleIdx (ts.map (· + c)) n (t + c) = resampleIdx ts n t := by
  unfold resampleIdx
  rw [List.head?_map, List.getLast?_map, nearestIdx_shift]
  cases ts.head? <;> cases ts.getLast? <;> simp

theorem resampleCore_shift (c : Rat) (ts : List Rat) (fs : Frames) (tg : List Rat) :
    resampleCore (ts.map (· + c)) fs (tg.map (· + c)) = resampleCore ts fs tg := by
  unfold resampleCore
  by_cases h : ts = []
  · subst h
    simp only [List.map_nil, List.isEmpty_nil, if_true, List.map_map]
    rfl
  · simp only [List.isEmpty_iff, List.map_eq_nil_iff, h, if_false, List.map_map]
    apply List.map_congr_left
    intro t _
    simp only [Function.comp, resampleFrame, resampleIdx_shift]

end Multipitch
end Mir
