import MirModel.Onset
import MirProofs.Lemmas.MiscStats

namespace Mir.Onset
open Mir.MiscStats

theorem validate_ok_iff (ref est : List Rat) :
    validate ref est = .ok () ↔ validateEvents ref maxTime = .ok () ∧ validateEvents est maxTime = .ok () := by
  unfold validate
  rcases validateEvents_cases ref maxTime with h | h <;> rcases validateEvents_cases est maxTime with h' | h' <;>
    simp [h, h', bind, Except.bind]

theorem validate_cases (ref est : List Rat) :
    validate ref est = .ok () ∨ validate ref est = .error .valueError := by
  unfold validate
  rcases validateEvents_cases ref maxTime with h | h <;> rcases validateEvents_cases est maxTime with h' | h' <;>
    simp [h, h', bind, Except.bind]

theorem validate_swap (ref est : List Rat) : validate est ref = validate ref est := by
  rcases validate_cases ref est with h | h <;> rcases validate_cases est ref with h' | h'
  · rw [h, h']
  · rw [validate_ok_iff] at h; rw [(validate_ok_iff est ref).2 ⟨h.2, h.1⟩] at h'; cases h'
  · rw [validate_ok_iff] at h'; rw [(validate_ok_iff ref est).2 ⟨h'.2, h'.1⟩] at h; cases h
  · rw [h, h']

theorem fMeasure_of_valid {ref est : List Rat} (w : Rat) (hv : validate ref est = .ok ()) :
    fMeasure ref est w = .ok ((hitPRF (withinWindow w) ref est 1).2.2, (hitPRF (withinWindow w) ref est 1).1,
      (hitPRF (withinWindow w) ref est 1).2.1) := by
  simp [fMeasure, hv, bind, Except.bind, pure, Except.pure]

theorem fMeasure_of_invalid {ref est : List Rat} (w : Rat) (hv : validate ref est = .error .valueError) :
    fMeasure ref est w = .error .valueError := by
  simp [fMeasure, hv, bind, Except.bind]

theorem validate_of_fMeasure_ok {ref est : List Rat} {w : Rat} {s : Rat × Rat × Rat}
    (h : fMeasure ref est w = .ok s) : validate ref est = .ok () := by
  rcases validate_cases ref est with hv | hv
  · exact hv
  · rw [fMeasure_of_invalid w hv] at h; cases h

end Mir.Onset
