import MirModel.Pattern
import MirProofs.Lemmas.Scores
import Mathlib.Data.List.Basic
import Mathlib.Data.List.Nodup
import Mathlib.Data.List.Perm.Basic
import Mathlib.Data.List.Perm.Subperm
import Mathlib.Algebra.Order.Field.Rat
import Mathlib.Algebra.Order.Field.Basic
import Mathlib.Algebra.Order.BigOperators.Group.List
import Mathlib.Algebra.BigOperators.Group.List.Basic
import Mathlib.Tactic.Linarith
import Mathlib.Tactic.Positivity
import Mathlib.Tactic.FieldSimp
import Mathlib.Tactic.Ring

/-!
  Lemmas for the pattern slice.

  Part 1: the Python-error monad, `np.max` / `np.mean`, matrices given by a table `f x y`.
  Part 2: "mean of maxima" (`Spec.rowMM`, `Spec.colMM`): range, diagonal, permutation, congruence.
  Part 3: point sets: `interCount`, the cardinality score, the first-layer F1.
  Part 4: the model functions equal the documented definitions (all inputs, errors included).
-/
namespace Mir.Pattern
open Spec

/-! ## Part 1 -/

theorem bind_ok {β γ} (a : β) (k : β → Py γ) : ((Except.ok a : Py β) >>= k) = k a := rfl
theorem bind_err {β γ} (e : PyErr) (k : β → Py γ) : ((Except.error e : Py β) >>= k) = .error e := rfl
theorem pure_eq {β} (a : β) : (pure a : Py β) = .ok a := rfl

/-- a `mapM` whose body fails with one fixed error exactly on the `bad` elements -/
theorem mapM_dich {α β} (f : α → Py β) (g : α → β) (bad : α → Bool) (e : PyErr) (xs : List α)
    (h : ∀ x ∈ xs, f x = if bad x then .error e else .ok (g x)) :
    xs.mapM f = if xs.any bad then .error e else .ok (xs.map g) := by
  induction xs with
  | nil => simp [pure_eq]
  | cons x xs ih =>
    have hx := h x (by simp)
    have ih' := ih (fun y hy => h y (by simp [hy]))
    rw [List.mapM_cons, hx, ih', List.any_cons]
    cases bad x <;> cases xs.any bad <;> simp [bind_ok, bind_err, pure_eq]

theorem mapM_ok {α β} (f : α → Py β) (g : α → β) (xs : List α) (h : ∀ x ∈ xs, f x = .ok (g x)) :
    xs.mapM f = .ok (xs.map g) := by
  have := mapM_dich f g (fun _ => false) .other xs (by intro x hx; simp [h x hx])
  simpa using this

theorem rmax_eq_max (a b : Rat) : rmax a b = max a b := by
  unfold rmax; rw [max_def]

theorem maxNE_mem (x : Rat) (l : List Rat) : maxNE x l ∈ x :: l := by
  induction l generalizing x with
  | nil => simp [maxNE]
  | cons y ys ih =>
    simp only [maxNE, rmax]
    split
    · exact List.mem_cons_of_mem _ (ih y)
    · simp

theorem le_maxNE (x : Rat) (l : List Rat) : ∀ y ∈ x :: l, y ≤ maxNE x l := by
  induction l generalizing x with
  | nil => intro y hy; simp at hy; simp [maxNE, hy]
  | cons z zs ih =>
    intro y hy
    simp only [maxNE, rmax_eq_max]
    rcases List.mem_cons.1 hy with h | h
    · subst h; exact le_max_left _ _
    · exact le_trans (ih z y h) (le_max_right _ _)

theorem maxR_mem {l : List Rat} (h : l ≠ []) : maxR l ∈ l := by
  cases l with
  | nil => exact absurd rfl h
  | cons x xs => exact maxNE_mem x xs

theorem le_maxR {l : List Rat} {y : Rat} (hy : y ∈ l) : y ≤ maxR l := by
  cases l with
  | nil => simp at hy
  | cons x xs => exact le_maxNE x xs y hy

theorem maxR_eq_of {l : List Rat} {c : Rat} (hc : c ∈ l) (h : ∀ y ∈ l, y ≤ c) : maxR l = c :=
  le_antisymm (h _ (maxR_mem (List.ne_nil_of_mem hc))) (le_maxR hc)

theorem maxR_le_of {l : List Rat} {c : Rat} (h : ∀ y ∈ l, y ≤ c) (hc : 0 ≤ c) : maxR l ≤ c := by
  cases l with
  | nil => exact hc
  | cons x xs => exact h _ (maxR_mem (by simp))

theorem maxR_nonneg_of {l : List Rat} (h : ∀ y ∈ l, 0 ≤ y) : 0 ≤ maxR l := by
  cases l with
  | nil => exact le_refl _
  | cons x xs => exact h _ (maxR_mem (by simp))

theorem maxR_congr_mem {l l' : List Rat} (h : ∀ a, a ∈ l ↔ a ∈ l') : maxR l = maxR l' := by
  by_cases hl : l = []
  · subst hl
    have : l' = [] := by
      cases l' with
      | nil => rfl
      | cons a as => exact absurd ((h a).2 (by simp)) (by simp)
    rw [this]
  · have hl' : l' ≠ [] := by
      obtain ⟨a, ha⟩ := List.exists_mem_of_ne_nil l hl
      exact List.ne_nil_of_mem ((h a).1 ha)
    exact le_antisymm (le_maxR ((h _).1 (maxR_mem hl))) (le_maxR ((h _).2 (maxR_mem hl')))

theorem maxL_eq (l : List Rat) : maxL l = if l.isEmpty then .error .valueError else .ok (maxR l) := by
  cases l <;> rfl

theorem maxL_of_ne {l : List Rat} (h : l ≠ []) : maxL l = .ok (maxR l) := by
  cases l with
  | nil => exact absurd rfl h
  | cons => rfl

theorem meanPy_of_ne {l : List Rat} (h : l ≠ []) : meanPy l = .ok (meanR l) := by
  cases l with
  | nil => exact absurd rfl h
  | cons => rfl

theorem meanR_bounds {l : List Rat} {a b : Rat} (hl : l ≠ []) (h : ∀ y ∈ l, a ≤ y ∧ y ≤ b) :
    a ≤ meanR l ∧ meanR l ≤ b := by
  have hpos : (0 : Rat) < (l.length : Rat) := by
    have : 0 < l.length := List.length_pos_of_ne_nil hl
    exact_mod_cast this
  have h1 := List.card_nsmul_le_sum l a (fun x hx => (h x hx).1)
  have h2 := List.sum_le_card_nsmul l b (fun x hx => (h x hx).2)
  rw [nsmul_eq_mul] at h1 h2
  unfold meanR
  constructor
  · rw [le_div_iff₀ hpos]; linarith
  · rw [div_le_iff₀ hpos]; linarith

theorem meanR_const {l : List Rat} {c : Rat} (hl : l ≠ []) (h : ∀ y ∈ l, y = c) : meanR l = c := by
  have := meanR_bounds (a := c) (b := c) hl (fun y hy => by rw [h y hy]; exact ⟨le_refl _, le_refl _⟩)
  exact le_antisymm this.2 this.1

theorem meanR_perm {l l' : List Rat} (h : l.Perm l') : meanR l = meanR l' := by
  unfold meanR; rw [h.sum_eq, h.length_eq]

theorem transpose_tab {α β} (f : α → β → Rat) (xs : List α) (ys : List β) :
    transpose ys.length (xs.map fun x => ys.map (f x)) = ys.map fun y => xs.map fun x => f x y := by
  induction xs with
  | nil =>
    simp only [List.map_nil, transpose]
    exact (List.map_const' ..).symm
  | cons x xs ih =>
    simp only [List.map_cons, transpose, ih]
    rw [List.zipWith_map_left, List.zipWith_map_right, List.zipWith_self]

theorem rowMaxMean_tab {α β} (f : α → β → Rat) {xs : List α} {ys : List β} (hx : xs ≠ []) (hy : ys ≠ []) :
    rowMaxMean (xs.map fun x => ys.map (f x)) = .ok (rowMM f xs ys) := by
  unfold rowMaxMean
  rw [mapM_ok maxL maxR]
  · rw [bind_ok, meanPy_of_ne (by simpa using hx)]
    simp [rowMM, List.map_map, Function.comp_def]
  · intro r hr
    obtain ⟨x, _, rfl⟩ := List.mem_map.1 hr
    exact maxL_of_ne (by simpa using hy)

theorem colMaxMean_tab {α β} (f : α → β → Rat) {xs : List α} {ys : List β} (hx : xs ≠ []) (hy : ys ≠ []) :
    colMaxMean ys.length (xs.map fun x => ys.map (f x)) = .ok (colMM f xs ys) := by
  unfold colMaxMean
  rw [transpose_tab]
  exact rowMaxMean_tab (fun y x => f x y) hy hx

/-! ## Part 2 : mean of maxima -/

theorem colMM_eq_rowMM {α β} (f : α → β → Rat) (xs : List α) (ys : List β) :
    colMM f xs ys = rowMM (fun y x => f x y) ys xs := rfl

theorem meanR_range01 {l : List Rat} (h : ∀ y ∈ l, 0 ≤ y ∧ y ≤ 1) : 0 ≤ meanR l ∧ meanR l ≤ 1 := by
  by_cases hl : l = []
  · subst hl; simp [meanR]
  · exact meanR_bounds hl h

theorem rowMM_range {α β} (f : α → β → Rat) {xs : List α} {ys : List β}
    (h : ∀ x ∈ xs, ∀ y ∈ ys, 0 ≤ f x y ∧ f x y ≤ 1) : 0 ≤ rowMM f xs ys ∧ rowMM f xs ys ≤ 1 := by
  unfold rowMM
  apply meanR_range01
  intro v hv
  obtain ⟨x, hxm, rfl⟩ := List.mem_map.1 hv
  constructor
  · apply maxR_nonneg_of
    intro w hw
    obtain ⟨y, hym, rfl⟩ := List.mem_map.1 hw
    exact (h x hxm y hym).1
  · apply maxR_le_of _ zero_le_one
    intro w hw
    obtain ⟨y, hym, rfl⟩ := List.mem_map.1 hw
    exact (h x hxm y hym).2

theorem colMM_range {α β} (f : α → β → Rat) {xs : List α} {ys : List β}
    (h : ∀ x ∈ xs, ∀ y ∈ ys, 0 ≤ f x y ∧ f x y ≤ 1) : 0 ≤ colMM f xs ys ∧ colMM f xs ys ≤ 1 := by
  rw [colMM_eq_rowMM]
  exact rowMM_range _ (fun y hy x hx => h x hx y hy)

/-- every row finds a column where the entry is 1, and no entry exceeds 1: the mean of maxima is 1 -/
theorem rowMM_eq_one {α β} (f : α → β → Rat) {xs : List α} {ys : List β} (hx : xs ≠ [])
    (hle : ∀ x ∈ xs, ∀ y ∈ ys, f x y ≤ 1) (hone : ∀ x ∈ xs, ∃ y ∈ ys, f x y = 1) : rowMM f xs ys = 1 := by
  unfold rowMM
  apply meanR_const (by simpa using hx)
  intro v hv
  obtain ⟨x, hxm, rfl⟩ := List.mem_map.1 hv
  obtain ⟨y, hym, hy1⟩ := hone x hxm
  apply maxR_eq_of
  · exact List.mem_map.2 ⟨y, hym, hy1⟩
  · intro w hw
    obtain ⟨y', hym', rfl⟩ := List.mem_map.1 hw
    exact hle x hxm y' hym'

theorem colMM_eq_one {α β} (f : α → β → Rat) {xs : List α} {ys : List β} (hy : ys ≠ [])
    (hle : ∀ x ∈ xs, ∀ y ∈ ys, f x y ≤ 1) (hone : ∀ y ∈ ys, ∃ x ∈ xs, f x y = 1) : colMM f xs ys = 1 := by
  rw [colMM_eq_rowMM]
  exact rowMM_eq_one _ hy (fun y hy x hx => hle x hx y hy) hone

theorem rowMM_congr {α β} {f g : α → β → Rat} {xs : List α} {ys : List β}
    (h : ∀ x ∈ xs, ∀ y ∈ ys, f x y = g x y) : rowMM f xs ys = rowMM g xs ys := by
  unfold rowMM
  congr 1
  apply List.map_congr_left
  intro x hx
  congr 1
  apply List.map_congr_left
  intro y hy
  exact h x hx y hy

theorem colMM_congr {α β} {f g : α → β → Rat} {xs : List α} {ys : List β}
    (h : ∀ x ∈ xs, ∀ y ∈ ys, f x y = g x y) : colMM f xs ys = colMM g xs ys := by
  rw [colMM_eq_rowMM, colMM_eq_rowMM]
  exact rowMM_congr (fun y hy x hx => h x hx y hy)

theorem rowMM_perm_left {α β} (f : α → β → Rat) {xs xs' : List α} (ys : List β) (h : xs.Perm xs') :
    rowMM f xs ys = rowMM f xs' ys := by
  unfold rowMM
  exact meanR_perm (h.map _)

theorem rowMM_perm_right {α β} (f : α → β → Rat) (xs : List α) {ys ys' : List β} (h : ys.Perm ys') :
    rowMM f xs ys = rowMM f xs ys' := by
  unfold rowMM
  congr 1
  apply List.map_congr_left
  intro x _
  apply maxR_congr_mem
  intro a
  exact (h.map _).mem_iff

theorem colMM_perm_left {α β} (f : α → β → Rat) {xs xs' : List α} (ys : List β) (h : xs.Perm xs') :
    colMM f xs ys = colMM f xs' ys := by
  rw [colMM_eq_rowMM, colMM_eq_rowMM]; exact rowMM_perm_right _ _ h

theorem colMM_perm_right {α β} (f : α → β → Rat) (xs : List α) {ys ys' : List β} (h : ys.Perm ys') :
    colMM f xs ys = colMM f xs ys' := by
  rw [colMM_eq_rowMM, colMM_eq_rowMM]; exact rowMM_perm_left _ _ h

theorem rowMM_map {α β α' β'} (f : α' → β' → Rat) (s : α → α') (t : β → β') (xs : List α) (ys : List β) :
    rowMM f (xs.map s) (ys.map t) = rowMM (fun x y => f (s x) (t y)) xs ys := by
  simp [rowMM, List.map_map, Function.comp_def]

theorem colMM_map {α β α' β'} (f : α' → β' → Rat) (s : α → α') (t : β → β') (xs : List α) (ys : List β) :
    colMM f (xs.map s) (ys.map t) = colMM (fun x y => f (s x) (t y)) xs ys := by
  simp [colMM, List.map_map, Function.comp_def]

/-! ## Part 3 : point sets -/

theorem mem_dedup (P : Occ) (a : Point) : a ∈ dedup P ↔ a ∈ P := by
  induction P with
  | nil => simp [dedup]
  | cons p ps ih =>
    unfold dedup
    split
    · rename_i h
      rw [ih]
      constructor
      · exact fun h' => List.mem_cons_of_mem _ h'
      · intro h'
        rcases List.mem_cons.1 h' with rfl | h'
        · exact h
        · exact h'
    · simp [ih]

theorem nodup_dedup (P : Occ) : (dedup P).Nodup := by
  induction P with
  | nil => simp [dedup]
  | cons p ps ih =>
    unfold dedup
    split
    · exact ih
    · rename_i h
      exact List.nodup_cons.2 ⟨fun hm => h ((mem_dedup ps p).1 hm), ih⟩

theorem dedup_of_nodup {P : Occ} (h : P.Nodup) : dedup P = P := by
  induction P with
  | nil => rfl
  | cons p ps ih =>
    rw [List.nodup_cons] at h
    unfold dedup
    rw [if_neg h.1, ih h.2]

theorem dedup_length_le (P : Occ) : (dedup P).length ≤ P.length := by
  induction P with
  | nil => simp [dedup]
  | cons p ps ih =>
    unfold dedup
    split
    · exact Nat.le_succ_of_le ih
    · simpa using ih

theorem mem_inter (P Q : Occ) (a : Point) : a ∈ inter P Q ↔ a ∈ P ∧ a ∈ Q := by
  simp [inter, mem_dedup]

theorem nodup_inter (P Q : Occ) : (inter P Q).Nodup := (nodup_dedup P).filter _

theorem interCount_le_left (P Q : Occ) : interCount P Q ≤ P.length :=
  le_trans (List.length_filter_le _ _) (dedup_length_le P)

theorem interCount_le_right (P Q : Occ) : interCount P Q ≤ Q.length := by
  apply List.Subperm.length_le
  apply List.subperm_of_subset (nodup_inter P Q)
  intro a ha
  exact ((mem_inter P Q a).1 ha).2

theorem interCount_comm (P Q : Occ) : interCount P Q = interCount Q P := by
  apply List.Perm.length_eq
  rw [List.perm_ext_iff_of_nodup (nodup_inter P Q) (nodup_inter Q P)]
  intro a
  rw [mem_inter, mem_inter, and_comm]

theorem interCount_self {P : Occ} (h : P.Nodup) : interCount P P = P.length := by
  unfold interCount inter
  rw [dedup_of_nodup h, List.filter_eq_self.2]
  intro a ha
  simpa using ha

theorem dedup_map {s : Point → Point} (hs : Function.Injective s) (P : Occ) :
    dedup (P.map s) = (dedup P).map s := by
  induction P with
  | nil => rfl
  | cons p ps ih =>
    simp only [List.map_cons, dedup, List.mem_map_of_injective hs, ih]
    split <;> simp

theorem interCount_map {s : Point → Point} (hs : Function.Injective s) (P Q : Occ) :
    interCount (P.map s) (Q.map s) = interCount P Q := by
  unfold interCount inter
  rw [dedup_map hs, List.filter_map, List.length_map]
  congr 2
  funext a
  simp [List.mem_map_of_injective hs]

theorem natMax_eq (a b : Nat) : Nat.max a b = max a b := rfl

private theorem natCast_max_pos {a b : Nat} (h : Nat.max a b ≠ 0) : (0 : Rat) < ((Nat.max a b : Nat) : Rat) := by
  have : 0 < Nat.max a b := Nat.pos_of_ne_zero h
  exact_mod_cast this

theorem card_range (P Q : Occ) : 0 ≤ card P Q ∧ card P Q ≤ 1 := by
  unfold card
  constructor
  · positivity
  · by_cases h : Nat.max P.length Q.length = 0
    · rw [h]; simp
    · rw [div_le_one (natCast_max_pos h)]
      have := interCount_le_left P Q
      have h2 : P.length ≤ Nat.max P.length Q.length := Nat.le_max_left _ _
      exact_mod_cast le_trans this h2

theorem card_comm (P Q : Occ) : card P Q = card Q P := by
  unfold card
  rw [interCount_comm, natMax_eq, natMax_eq, Nat.max_comm]

theorem card_self {P : Occ} (hne : P ≠ []) (hnd : P.Nodup) : card P P = 1 := by
  unfold card
  rw [interCount_self hnd, natMax_eq, Nat.max_self]
  have : (0 : Rat) < (P.length : Rat) := by
    have := List.length_pos_of_ne_nil hne
    exact_mod_cast this
  exact div_self (ne_of_gt this)

theorem card_map {s : Point → Point} (hs : Function.Injective s) (P Q : Occ) :
    card (P.map s) (Q.map s) = card P Q := by
  unfold card
  rw [interCount_map hs, List.length_map, List.length_map]

theorem ratio_range {k n : Nat} (h : k ≤ n) : (0 : Rat) ≤ (k : Rat) / (n : Rat) ∧ (k : Rat) / (n : Rat) ≤ 1 := by
  constructor
  · positivity
  · by_cases hn : n = 0
    · subst hn; simp
    · have : (0 : Rat) < (n : Rat) := by exact_mod_cast Nat.pos_of_ne_zero hn
      rw [div_le_one this]
      exact_mod_cast h

theorem f1_range (p q : Occ) : 0 ≤ f1 p q ∧ f1 p q ≤ 1 := by
  unfold f1
  have h1 := ratio_range (interCount_le_left p q)
  have h2 := ratio_range (interCount_le_right p q)
  exact ⟨fMeasure_nonneg h1.1 h2.1, fMeasure_le_one h1.1 h2.1 h1.2 h2.2⟩

theorem f1_comm (p q : Occ) : f1 p q = f1 q p := by
  unfold f1
  rw [interCount_comm p q, fMeasure_symm]

theorem f1_self {p : Occ} (hne : p ≠ []) (hnd : p.Nodup) : f1 p p = 1 := by
  unfold f1
  rw [interCount_self hnd]
  have : (0 : Rat) < (p.length : Rat) := by
    have := List.length_pos_of_ne_nil hne
    exact_mod_cast this
  rw [div_self (ne_of_gt this)]
  exact fMeasure_one 1

theorem f1_map {s : Point → Point} (hs : Function.Injective s) (p q : Occ) :
    f1 (p.map s) (q.map s) = f1 p q := by
  unfold f1
  rw [interCount_map hs, List.length_map, List.length_map]

/-! ## Part 4 : the model equals the documented definitions -/

/-- the pattern contains an empty occurrence -/
def hasEmpty (P : Pat) : Bool := P.any List.isEmpty
/-- some pattern of the list contains an empty occurrence -/
def anyEmptyOcc (ps : Pats) : Bool := ps.any hasEmpty

theorem any_and_any {α β} (p : α → Bool) (q : β → Bool) (xs : List α) (ys : List β) :
    (xs.any fun x => ys.any fun y => p x && q y) = (xs.any p && ys.any q) := by
  rw [Bool.eq_iff_iff]
  simp only [List.any_eq_true, Bool.and_eq_true]
  constructor
  · rintro ⟨x, hx, y, hy, h1, h2⟩; exact ⟨⟨x, hx, h1⟩, ⟨y, hy, h2⟩⟩
  · rintro ⟨⟨x, hx, h1⟩, ⟨y, hy, h2⟩⟩; exact ⟨x, hx, y, hy, h1, h2⟩

theorem cardScore_eq (p q : Occ) :
    cardScore p q = if p.isEmpty && q.isEmpty then .error .zeroDivision else .ok (card p q) := by
  unfold cardScore card
  cases p <;> cases q <;> simp [natMax_eq]

theorem scoreMatrix_eq (P Q : Pat) :
    scoreMatrix P Q cardName =
      if hasEmpty P && hasEmpty Q then .error .zeroDivision else .ok (P.map fun p => Q.map (card p)) := by
  unfold scoreMatrix
  simp only [if_true]
  have inner : ∀ p ∈ P, (Q.mapM fun q => cardScore p q) =
      if (fun p => Q.any fun q => p.isEmpty && q.isEmpty) p then .error .zeroDivision
      else .ok ((fun p => Q.map (card p)) p) := by
    intro p _
    exact mapM_dich _ _ (fun q => p.isEmpty && q.isEmpty) _ Q (fun q _ => cardScore_eq p q)
  rw [mapM_dich _ _ _ _ P inner, any_and_any]
  rfl

theorem ne_nil_of_isEmpty_false {α} {l : List α} (h : l.isEmpty = false) : l ≠ [] := by
  intro h'; subst h'; simp at h

/-- one entry of the establishment matrix -/
theorem estCell_eq {rp ep : Pat} (hr : rp ≠ []) (he : ep ≠ []) :
    (do let s ← scoreMatrix rp ep cardName; maxL s.flatten) =
      if hasEmpty rp && hasEmpty ep then .error .zeroDivision else .ok (estS rp ep) := by
  rw [scoreMatrix_eq]
  split
  · rfl
  · rw [bind_ok, maxL_of_ne]
    · simp [estS, List.flatMap_def]
    · obtain ⟨p, ps, rfl⟩ := List.exists_cons_of_ne_nil hr
      obtain ⟨q, qs, rfl⟩ := List.exists_cons_of_ne_nil he
      simp

theorem estMatrix_eq {ref est : Pats} (hr : ∀ p ∈ ref, p ≠ []) (he : ∀ p ∈ est, p ≠ []) :
    estMatrix ref est cardName =
      if anyEmptyOcc ref && anyEmptyOcc est then .error .zeroDivision
      else .ok (ref.map fun rp => est.map (estS rp)) := by
  unfold estMatrix
  have inner : ∀ rp ∈ ref, (est.mapM fun ep => do let s ← scoreMatrix rp ep cardName; maxL s.flatten) =
      if (fun rp => est.any fun ep => hasEmpty rp && hasEmpty ep) rp then .error .zeroDivision
      else .ok ((fun rp => est.map (estS rp)) rp) := by
    intro rp hrp
    exact mapM_dich _ _ (fun ep => hasEmpty rp && hasEmpty ep) _ est
      (fun ep hep => estCell_eq (hr rp hrp) (he ep hep))
  rw [mapM_dich _ _ _ _ ref inner, any_and_any]
  rfl

theorem validate_eq (ref est : Pats) :
    validate ref est = if (ref ++ est).any List.isEmpty then .error .valueError else .ok () := rfl

theorem valid_mem {ref est : Pats} (h : (ref ++ est).any List.isEmpty = false) :
    (∀ p ∈ ref, p ≠ []) ∧ (∀ p ∈ est, p ≠ []) := by
  constructor <;> intro p hp hnil <;> subst hnil
  · have : (ref ++ est).any List.isEmpty = true := List.any_eq_true.2 ⟨[], by simp [hp], rfl⟩
    rw [h] at this; exact absurd this (by simp)
  · have : (ref ++ est).any List.isEmpty = true := List.any_eq_true.2 ⟨[], by simp [hp], rfl⟩
    rw [h] at this; exact absurd this (by simp)

theorem nonzero_ne_nil {ref est : Pats} (h : isZero ref est = false) : ref ≠ [] ∧ est ≠ [] := by
  unfold isZero at h
  constructor <;> intro hnil <;> subst hnil <;> simp [nOnsetMidi] at h

/-- `establishment_FPR` (default similarity metric) on every input -/
theorem establishmentFPR_eq (ref est : Pats) :
    establishmentFPR ref est cardName =
      if (ref ++ est).any List.isEmpty then .error .valueError
      else if isZero ref est then .ok (0, 0, 0)
      else if anyEmptyOcc ref && anyEmptyOcc est then .error .zeroDivision
      else .ok (Spec.establishment ref est) := by
  unfold establishmentFPR
  rw [validate_eq]
  split
  · rfl
  · rename_i hv
    have hv' : (ref ++ est).any List.isEmpty = false := Bool.eq_false_iff.2 hv
    obtain ⟨hr, he⟩ := valid_mem hv'
    rw [bind_ok]
    split
    · rfl
    · rename_i hz
      have hz' : isZero ref est = false := Bool.eq_false_iff.2 hz
      obtain ⟨hrn, hen⟩ := nonzero_ne_nil hz'
      rw [estMatrix_eq hr he]
      split
      · rfl
      · rw [bind_ok, colMaxMean_tab _ hrn hen, bind_ok, rowMaxMean_tab _ hrn hen, bind_ok]
        rfl

/-! ### three-layer -/

theorem any_or_any {α β} (p : α → Bool) (q : β → Bool) {xs : List α} {ys : List β} (hx : xs ≠ []) (hy : ys ≠ []) :
    (xs.any fun x => ys.any fun y => p x || q y) = (xs.any p || ys.any q) := by
  obtain ⟨x0, hx0⟩ := List.exists_mem_of_ne_nil xs hx
  obtain ⟨y0, hy0⟩ := List.exists_mem_of_ne_nil ys hy
  rw [Bool.eq_iff_iff]
  simp only [List.any_eq_true, Bool.or_eq_true]
  constructor
  · rintro ⟨x, hx, y, hy, h | h⟩
    · exact Or.inl ⟨x, hx, h⟩
    · exact Or.inr ⟨y, hy, h⟩
  · rintro (⟨x, hx, h⟩ | ⟨y, hy, h⟩)
    · exact ⟨x, hx, y0, hy0, Or.inl h⟩
    · exact ⟨x0, hx0, y, hy, Or.inr h⟩

theorem layer1Cell_eq (ro eo : Occ) :
    (do let pr ← firstLayerPR ro eo; return fMeasure pr.1 pr.2 : Py Rat) =
      if ro.isEmpty || eo.isEmpty then .error .zeroDivision else .ok (f1 ro eo) := by
  unfold firstLayerPR f1
  cases ro <;> cases eo <;> simp [bind_ok, bind_err, pure_eq]

theorem layer1_eq {rp ep : Pat} (hr : rp ≠ []) (he : ep ≠ []) :
    layer1 rp ep = if hasEmpty rp || hasEmpty ep then .error .zeroDivision
      else .ok (rp.map fun ro => ep.map (f1 ro)) := by
  unfold layer1
  have inner : ∀ ro ∈ rp, (ep.mapM fun eo => (do let pr ← firstLayerPR ro eo; return fMeasure pr.1 pr.2 : Py Rat)) =
      if (fun ro => ep.any fun eo => ro.isEmpty || eo.isEmpty) ro then .error .zeroDivision
      else .ok ((fun ro => ep.map (f1 ro)) ro) := by
    intro ro _
    exact mapM_dich _ _ (fun eo => ro.isEmpty || eo.isEmpty) _ ep (fun eo _ => layer1Cell_eq ro eo)
  rw [mapM_dich _ _ _ _ rp inner, any_or_any _ _ hr he]
  rfl

theorem layer2Cell_eq {rp ep : Pat} (hr : rp ≠ []) (he : ep ≠ []) :
    (do let pr ← secondLayerPR rp ep; return fMeasure pr.1 pr.2 : Py Rat) =
      if hasEmpty rp || hasEmpty ep then .error .zeroDivision else .ok (f2 rp ep) := by
  unfold secondLayerPR
  rw [layer1_eq hr he]
  split
  · rfl
  · rw [bind_ok, colMaxMean_tab _ hr he, bind_ok, rowMaxMean_tab _ hr he]
    rfl

theorem layer2_eq {ref est : Pats} (hrn : ref ≠ []) (hen : est ≠ [])
    (hr : ∀ p ∈ ref, p ≠ []) (he : ∀ p ∈ est, p ≠ []) :
    layer2 ref est = if anyEmptyOcc ref || anyEmptyOcc est then .error .zeroDivision
      else .ok (ref.map fun rp => est.map (f2 rp)) := by
  unfold layer2
  have inner : ∀ rp ∈ ref, (est.mapM fun ep => (do let pr ← secondLayerPR rp ep; return fMeasure pr.1 pr.2 : Py Rat)) =
      if (fun rp => est.any fun ep => hasEmpty rp || hasEmpty ep) rp then .error .zeroDivision
      else .ok ((fun rp => est.map (f2 rp)) rp) := by
    intro rp hrp
    exact mapM_dich _ _ (fun ep => hasEmpty rp || hasEmpty ep) _ est
      (fun ep hep => layer2Cell_eq (hr rp hrp) (he ep hep))
  rw [mapM_dich _ _ _ _ ref inner, any_or_any _ _ hrn hen]
  rfl

/-- `three_layer_FPR` on every input -/
theorem threeLayerFPR_eq (ref est : Pats) :
    threeLayerFPR ref est =
      if (ref ++ est).any List.isEmpty then .error .valueError
      else if isZero ref est then .ok (0, 0, 0)
      else if anyEmptyOcc ref || anyEmptyOcc est then .error .zeroDivision
      else .ok (Spec.threeLayer ref est) := by
  unfold threeLayerFPR
  rw [validate_eq]
  split
  · rfl
  · rename_i hv
    obtain ⟨hr, he⟩ := valid_mem (Bool.eq_false_iff.2 hv)
    rw [bind_ok]
    split
    · rfl
    · rename_i hz
      obtain ⟨hrn, hen⟩ := nonzero_ne_nil (Bool.eq_false_iff.2 hz)
      rw [layer2_eq hrn hen hr he]
      split
      · rfl
      · rw [bind_ok, colMaxMean_tab _ hrn hen, bind_ok, rowMaxMean_tab _ hrn hen, bind_ok]
        rfl

/-! ### occurrence : index bookkeeping of `np.ix_(rel_idx[:,0], rel_idx[:,1])` -/
section idx
variable {α β : Type} (c : α → β → Option (Rat × Rat)) (xs : List α) (ys : List β)

def decor : List ((α × β) × (Nat × Nat)) :=
  xs.zipIdx.flatMap fun xi => ys.zipIdx.filterMap fun yj =>
    if (c xi.1 yj.1).isSome then some ((xi.1, yj.1), (xi.2, yj.2)) else none

theorem relIdx_tab : relIdx (xs.map fun x => ys.map (c x)) = (decor c xs ys).map Prod.snd := by
  unfold relIdx decor
  rw [List.zipIdx_map, List.flatMap_map, List.map_flatMap]
  congr 1
  funext xi
  simp only [Prod.map, id, List.zipIdx_map, List.filterMap_map, List.map_filterMap]
  congr 1
  funext yj
  simp only [Function.comp]
  split <;> simp_all

theorem decor_fst : (decor c xs ys).map Prod.fst =
    xs.flatMap fun x => ys.filterMap fun y => if (c x y).isSome then some (x, y) else none := by
  unfold decor
  rw [List.map_flatMap]
  conv_rhs => rw [← List.zipIdx_map_fst 0 xs, List.flatMap_map]
  congr 1
  funext xi
  rw [List.map_filterMap]
  conv_rhs => rw [← List.zipIdx_map_fst 0 ys, List.filterMap_map]
  congr 1
  funext yj
  simp only [Function.comp]
  split <;> simp_all

theorem decor_mem {d : (α × β) × (Nat × Nat)} (h : d ∈ decor c xs ys) :
    xs[d.2.1]? = some d.1.1 ∧ ys[d.2.2]? = some d.1.2 := by
  unfold decor at h
  rw [List.mem_flatMap] at h
  obtain ⟨xi, hxi, h⟩ := h
  rw [List.mem_filterMap] at h
  obtain ⟨yj, hyj, h⟩ := h
  split at h
  · simp only [Option.some.injEq] at h
    subst h
    exact ⟨List.mem_zipIdx_iff_getElem?.1 hxi, List.mem_zipIdx_iff_getElem?.1 hyj⟩
  · simp at h

theorem lookup_tab {i j : Nat} {x : α} {y : β} (hx : xs[i]? = some x) (hy : ys[j]? = some y) :
    lookup (xs.map fun x => ys.map (c x)) i j = .ok ((c x y).getD (0, 0)) := by
  unfold lookup
  simp [List.getElem?_map, hx, hy]
end idx

theorem mapM_map_ok {α α' β} (h : α → α') (f : α' → Py β) (g : α → β) (xs : List α)
    (hh : ∀ x ∈ xs, f (h x) = .ok (g x)) : (xs.map h).mapM f = .ok (xs.map g) := by
  induction xs with
  | nil => simp [pure_eq]
  | cons x xs ih =>
    rw [List.map_cons, List.mapM_cons, hh x (by simp), bind_ok, ih (fun y hy => hh y (by simp [hy])), bind_ok]
    rfl

/-- one cell of the occurrence matrix, as a value -/
def cellPure (thres : Rat) (rp ep : Pat) : Option (Rat × Rat) :=
  if thres ≤ estS rp ep then some (occP rp ep, occR rp ep) else none

theorem occCell_eq {rp ep : Pat} (hr : rp ≠ []) (he : ep ≠ []) (thres : Rat) :
    occCell thres cardName rp ep =
      if hasEmpty rp && hasEmpty ep then .error .zeroDivision else .ok (cellPure thres rp ep) := by
  unfold occCell
  rw [scoreMatrix_eq]
  split
  · rfl
  · have hne : (rp.map fun p => ep.map (card p)).flatten ≠ [] := by
      obtain ⟨p, ps, rfl⟩ := List.exists_cons_of_ne_nil hr
      obtain ⟨q, qs, rfl⟩ := List.exists_cons_of_ne_nil he
      simp
    have hS : maxR (rp.map fun p => ep.map (card p)).flatten = estS rp ep := by
      simp [estS, List.flatMap_def]
    rw [bind_ok, maxL_of_ne hne, bind_ok, hS]
    unfold cellPure
    split
    · rw [colMaxMean_tab _ hr he, bind_ok, rowMaxMean_tab _ hr he, bind_ok]
      rfl
    · rfl

theorem occMatrix_eq {ref est : Pats} (hr : ∀ p ∈ ref, p ≠ []) (he : ∀ p ∈ est, p ≠ []) (thres : Rat) :
    occMatrix thres cardName ref est =
      if anyEmptyOcc ref && anyEmptyOcc est then .error .zeroDivision
      else .ok (ref.map fun rp => est.map (cellPure thres rp)) := by
  unfold occMatrix
  have inner : ∀ rp ∈ ref, (est.mapM fun ep => occCell thres cardName rp ep) =
      if (fun rp => est.any fun ep => hasEmpty rp && hasEmpty ep) rp then .error .zeroDivision
      else .ok ((fun rp => est.map (cellPure thres rp)) rp) := by
    intro rp hrp
    exact mapM_dich _ _ (fun ep => hasEmpty rp && hasEmpty ep) _ est
      (fun ep hep => occCell_eq (hr rp hrp) (he ep hep) thres)
  rw [mapM_dich _ _ _ _ ref inner, any_and_any]
  rfl

theorem relPairs_eq_decor (thres : Rat) (ref est : Pats) :
    relPairs thres ref est = (decor (cellPure thres) ref est).map Prod.fst := by
  rw [decor_fst]
  unfold relPairs
  congr 1
  funext rp
  congr 1
  funext ep
  unfold cellPure
  split <;> simp

theorem cellPure_fst (thres : Rat) (rp ep : Pat) :
    ((cellPure thres rp ep).getD (0, 0)).1 = occEntry thres occP rp ep := by
  unfold cellPure occEntry; split <;> rfl

theorem cellPure_snd (thres : Rat) (rp ep : Pat) :
    ((cellPure thres rp ep).getD (0, 0)).2 = occEntry thres occR rp ep := by
  unfold cellPure occEntry; split <;> rfl

/-- the `np.ix_` sub-matrix of one component of `O_PR` -/
theorem ixMatrix_eq (thres : Rat) (ref est : Pats) (π : Rat × Rat → Rat) :
    let O := ref.map fun rp => est.map (cellPure thres rp)
    let rel := relIdx O
    (rel.mapM fun a => rel.mapM fun b => (do let c ← lookup O a.1 b.2; return π c : Py Rat)) =
      .ok ((relPairs thres ref est).map fun a => (relPairs thres ref est).map fun b =>
        π ((cellPure thres a.1 b.2).getD (0, 0))) := by
  intro O rel
  have hrel : rel = (decor (cellPure thres) ref est).map Prod.snd := relIdx_tab _ _ _
  rw [hrel, relPairs_eq_decor]
  rw [mapM_map_ok Prod.snd _ (fun da => (decor (cellPure thres) ref est).map fun db =>
        π ((cellPure thres da.1.1 db.1.2).getD (0, 0)))]
  · simp [List.map_map, Function.comp_def]
  · intro da hda
    apply mapM_map_ok
    intro db hdb
    rw [lookup_tab _ _ _ (decor_mem _ _ _ hda).1 (decor_mem _ _ _ hdb).2]
    rfl

theorem isEmpty_eq_of_length {α β} {l : List α} {l' : List β} (h : l.length = l'.length) :
    l.isEmpty = l'.isEmpty := by
  cases l <;> cases l' <;> simp_all

theorem fMeasure_zero : fMeasure 0 0 = 0 := by simp [fMeasure]

/-- `occurrence_FPR` (default similarity metric) on every input -/
theorem occurrenceFPR_eq (ref est : Pats) (thres : Rat) :
    occurrenceFPR ref est thres cardName =
      if (ref ++ est).any List.isEmpty then .error .valueError
      else if isZero ref est then .ok (0, 0, 0)
      else if anyEmptyOcc ref && anyEmptyOcc est then .error .zeroDivision
      else .ok (Spec.occurrence thres ref est) := by
  unfold occurrenceFPR
  rw [validate_eq]
  split
  · rfl
  · rename_i hv
    obtain ⟨hr, he⟩ := valid_mem (Bool.eq_false_iff.2 hv)
    rw [bind_ok]
    split
    · rfl
    · rw [occMatrix_eq hr he]
      split
      · rfl
      · rw [bind_ok]
        have hlen : (relIdx (ref.map fun rp => est.map (cellPure thres rp))).length
            = (relPairs thres ref est).length := by
          rw [relIdx_tab, relPairs_eq_decor, List.length_map, List.length_map]
        have hemp : (relIdx (ref.map fun rp => est.map (cellPure thres rp))).isEmpty
            = (relPairs thres ref est).isEmpty := by
          exact isEmpty_eq_of_length hlen
        have hP := ixMatrix_eq thres ref est Prod.fst
        have hR := ixMatrix_eq thres ref est Prod.snd
        simp only [] at hP hR
        show (if (relIdx (ref.map fun rp => est.map (cellPure thres rp))).isEmpty = true then _ else _) = _
        rw [hemp]
        unfold Spec.occurrence
        simp only []
        split
        · rw [pure_eq, fMeasure_zero]
        · rename_i hne
          have hne' : relPairs thres ref est ≠ [] := by
            intro h; rw [h] at hne; simp at hne
          rw [hP, bind_ok, hR, bind_ok, hlen, colMaxMean_tab _ hne' hne', bind_ok, rowMaxMean_tab _ hne' hne', bind_ok]
          simp only [cellPure_fst, cellPure_snd]
          rfl

/-! ### standard_FPR -/

theorem maxR_lt_iff {l : List Rat} (h : l ≠ []) (t : Rat) : maxR l < t ↔ ∀ x ∈ l, x < t :=
  ⟨fun hm _ hx => lt_of_le_of_lt (le_maxR hx) hm, fun hall => hall _ (maxR_mem h)⟩

def emptyProto (p : Pat) : Bool := (p.headD []).isEmpty
def anyEmptyProto (ps : Pats) : Bool := ps.any emptyProto

theorem diffRows_length {P Q : Occ} (h : P.length = Q.length) : (diffRows P Q).length = P.length - 1 := by
  unfold diffRows
  simp [List.length_zipWith, List.length_tail, h]

theorem protoMatch_eq (tol : Rat) (P Q : Occ) :
    protoMatch tol P Q = if P.isEmpty && Q.isEmpty then .error .valueError else .ok (transEquiv tol P Q) := by
  unfold protoMatch transEquiv
  by_cases hlen : P.length = Q.length
  · rw [if_neg (not_not.2 hlen)]
    by_cases h1 : P.length = 1
    · rw [if_pos h1]
      have : (P.isEmpty && Q.isEmpty) = false := by
        cases P <;> simp at h1 ⊢
      have h1' : Q.length = 1 := hlen ▸ h1
      rw [this]; simp [hlen, h1']
    · rw [if_neg h1]
      by_cases h0 : P.length = 0
      · have hP : P = [] := List.length_eq_zero_iff.1 h0
        have hQ : Q = [] := List.length_eq_zero_iff.1 (hlen ▸ h0)
        subst hP; subst hQ
        rfl
      · have hne : (diffRows P Q) ≠ [] := by
          intro h
          have := diffRows_length hlen
          rw [h] at this
          simp at this
          omega
        have hflat : ((diffRows P Q).flatMap fun x => [absR x.1, absR x.2]) ≠ [] := by
          obtain ⟨d, ds, hd⟩ := List.exists_cons_of_ne_nil hne
          rw [hd]; simp
        have : (P.isEmpty && Q.isEmpty) = false := by
          cases P <;> simp at h0 ⊢
        rw [this, maxL_of_ne hflat, bind_ok]
        simp only [pure_eq, Bool.false_eq_true, if_false]
        congr 1
        rw [Bool.eq_iff_iff]
        have h1' : ¬ Q.length = 1 := hlen ▸ h1
        simp only [decide_eq_true_eq, hlen, h1', decide_false, Bool.false_or, decide_true, Bool.true_and,
          List.all_eq_true, Bool.and_eq_true]
        rw [maxR_lt_iff hflat]
        constructor
        · intro h x hx
          exact ⟨h _ (List.mem_flatMap.2 ⟨x, hx, by simp⟩), h _ (List.mem_flatMap.2 ⟨x, hx, by simp⟩)⟩
        · intro h v hv
          obtain ⟨x, hx, hv⟩ := List.mem_flatMap.1 hv
          simp at hv
          rcases hv with rfl | rfl
          · exact (h x hx).1
          · exact (h x hx).2
  · rw [if_pos hlen]
    have : (P.isEmpty && Q.isEmpty) = false := by
      cases P <;> cases Q <;> simp at hlen ⊢
    rw [this]
    simp [hlen]

theorem proto_eq {p : Pat} (h : p ≠ []) : proto p = .ok (p.headD []) := by
  cases p with
  | nil => exact absurd rfl h
  | cons => rfl

theorem transEquiv_nil_left (tol : Rat) {Q : Occ} (h : Q.isEmpty = false) : transEquiv tol [] Q = false := by
  cases Q with
  | nil => simp at h
  | cons => simp [transEquiv]

theorem matchAny_eq (tol : Rat) (P : Occ) {est : Pats} (he : ∀ p ∈ est, p ≠ []) :
    matchAny tol P est = if P.isEmpty && anyEmptyProto est then .error .valueError
      else .ok (est.any fun e => transEquiv tol P (e.headD [])) := by
  induction est with
  | nil => simp [matchAny, anyEmptyProto]
  | cons e es ih =>
    have ih' := ih (fun p hp => he p (by simp [hp]))
    unfold matchAny
    rw [proto_eq (he e (by simp)), bind_ok, protoMatch_eq, ih']
    cases hP : P.isEmpty
    · simp only [Bool.false_and, Bool.false_eq_true, if_false, bind_ok, List.any_cons]
      cases transEquiv tol P (e.headD []) <;> simp [pure_eq]
    · cases hQ : (e.headD []).isEmpty
      · have hPn : P = [] := by cases P <;> simp_all
        subst hPn
        simp only [Bool.and_false, Bool.false_eq_true, if_false, bind_ok, transEquiv_nil_left tol hQ,
          List.any_cons, Bool.false_or, Bool.true_and, anyEmptyProto, emptyProto, hQ]
      · have hany : anyEmptyProto (e :: es) = true := by
          unfold anyEmptyProto emptyProto; rw [List.any_cons, hQ]; rfl
        rw [hany]
        simp [bind_err]

theorem standardK_cons (tol : Rat) (r : Pat) (rs est : Pats) :
    standardK tol (r :: rs) est =
      (if est.any (fun e => transEquiv tol (r.headD []) (e.headD [])) then 1 else 0) + standardK tol rs est := by
  unfold standardK
  rw [List.filter_cons]
  split <;> simp; omega

theorem countMatches_eq (tol : Rat) {ref est : Pats} (hr : ∀ p ∈ ref, p ≠ []) (he : ∀ p ∈ est, p ≠ []) :
    countMatches tol ref est = if anyEmptyProto ref && anyEmptyProto est then .error .valueError
      else .ok (standardK tol ref est) := by
  induction ref with
  | nil => simp [countMatches, anyEmptyProto, standardK]
  | cons r rs ih =>
    have ih' := ih (fun p hp => hr p (by simp [hp]))
    unfold countMatches
    rw [proto_eq (hr r (by simp)), bind_ok, matchAny_eq tol _ he, ih', standardK_cons]
    have hcons : anyEmptyProto (r :: rs) = ((r.headD []).isEmpty || anyEmptyProto rs) := by
      simp [anyEmptyProto, emptyProto]
    rw [hcons]
    cases (r.headD []).isEmpty <;> cases anyEmptyProto est <;> cases anyEmptyProto rs <;>
      simp [bind_ok, bind_err, pure_eq]

/-- `standard_FPR` on every input -/
theorem standardFPR_eq (ref est : Pats) (tol : Rat) :
    standardFPR ref est tol =
      if (ref ++ est).any List.isEmpty then .error .valueError
      else if isZero ref est then .ok (0, 0, 0)
      else if anyEmptyProto ref && anyEmptyProto est then .error .valueError
      else .ok (Spec.standard tol ref est) := by
  unfold standardFPR
  rw [validate_eq]
  split
  · rfl
  · rename_i hv
    obtain ⟨hr, he⟩ := valid_mem (Bool.eq_false_iff.2 hv)
    rw [bind_ok]
    split
    · rfl
    · rename_i hz
      obtain ⟨hrn, hen⟩ := nonzero_ne_nil (Bool.eq_false_iff.2 hz)
      rw [countMatches_eq tol hr he]
      split
      · rfl
      · rw [bind_ok]
        have h1 : ¬ (est.length = 0 ∨ ref.length = 0) := by
          simp [List.length_eq_zero_iff, hrn, hen]
        rw [if_neg h1]
        rfl

end Mir.Pattern
