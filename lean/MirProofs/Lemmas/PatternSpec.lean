import MirProofs.Lemmas.Pattern
import Mathlib.Data.List.Perm.Lattice

/-!
  Properties of the documented pattern scores (`Pattern.Spec`): range, self-score, role swap, point
  relabelling (time shift), reference permutation.  The model-level theorems in `Props/C0x_Pattern.lean`
  follow from these through the `…FPR_eq` theorems of `Lemmas/Pattern.lean`.
-/
namespace Mir.Pattern
open Spec

/-! ### validity (non-degeneracy) predicates -/

/-- a non-empty set of distinct points -/
def ValidOcc (o : Occ) : Prop := o ≠ [] ∧ o.Nodup
/-- at least one occurrence, all valid -/
def ValidPat (p : Pat) : Prop := p ≠ [] ∧ ∀ o ∈ p, ValidOcc o
/-- at least one pattern, all valid -/
def ValidPats (x : Pats) : Prop := x ≠ [] ∧ ∀ p ∈ x, ValidPat p

instance (o : Occ) : Decidable (ValidOcc o) := by unfold ValidOcc; infer_instance
instance (p : Pat) : Decidable (ValidPat p) := by unfold ValidPat; infer_instance
instance (x : Pats) : Decidable (ValidPats x) := by unfold ValidPats; infer_instance

theorem mem_le_sum {l : List Nat} {a : Nat} (h : a ∈ l) : a ≤ l.sum := by
  induction l with
  | nil => simp at h
  | cons b bs ih =>
    rcases List.mem_cons.1 h with rfl | h
    · simp
    · have := ih h; simp; omega

theorem nOnsetMidi_pos {x : Pats} {p : Pat} {o : Occ} (hp : p ∈ x) (ho : o ∈ p) (hne : o ≠ []) :
    nOnsetMidi x ≠ 0 := by
  unfold nOnsetMidi
  have h1 : o.length ≤ (p.map List.length).sum := mem_le_sum (List.mem_map.2 ⟨o, ho, rfl⟩)
  have h2 : (p.map List.length).sum ≤ (x.map fun pat => (pat.map List.length).sum).sum :=
    mem_le_sum (List.mem_map.2 ⟨p, hp, rfl⟩)
  have h3 : 0 < o.length := List.length_pos_of_ne_nil hne
  omega

theorem ValidPats.nOnset_ne {x : Pats} (h : ValidPats x) : nOnsetMidi x ≠ 0 := by
  obtain ⟨p, hp⟩ := List.exists_mem_of_ne_nil x h.1
  obtain ⟨o, ho⟩ := List.exists_mem_of_ne_nil p (h.2 p hp).1
  exact nOnsetMidi_pos hp ho ((h.2 p hp).2 o ho).1

theorem ValidPats.no_empty_pat {x : Pats} (h : ValidPats x) : x.any List.isEmpty = false := by
  rw [Bool.eq_false_iff]
  intro hh
  obtain ⟨p, hp, he⟩ := List.any_eq_true.1 hh
  exact (h.2 p hp).1 (List.isEmpty_iff.1 he)

theorem ValidPats.no_empty_occ {x : Pats} (h : ValidPats x) : anyEmptyOcc x = false := by
  rw [Bool.eq_false_iff]
  intro hh
  obtain ⟨p, hp, he⟩ := List.any_eq_true.1 hh
  obtain ⟨o, ho, hoe⟩ := List.any_eq_true.1 he
  exact ((h.2 p hp).2 o ho).1 (List.isEmpty_iff.1 hoe)

theorem ValidPats.no_empty_proto {x : Pats} (h : ValidPats x) : anyEmptyProto x = false := by
  rw [Bool.eq_false_iff]
  intro hh
  obtain ⟨p, hp, he⟩ := List.any_eq_true.1 hh
  obtain ⟨o, os, rfl⟩ := List.exists_cons_of_ne_nil (h.2 p hp).1
  exact ((h.2 _ hp).2 o (by simp)).1 (List.isEmpty_iff.1 he)

theorem ValidPats.guards {x : Pats} (h : ValidPats x) :
    (x ++ x).any List.isEmpty = false ∧ isZero x x = false := by
  constructor
  · rw [List.any_append, h.no_empty_pat]; rfl
  · unfold isZero
    have := h.nOnset_ne
    simp [this]

/-! ### establishment entries -/

theorem mem_estList {rp ep : Pat} {v : Rat} :
    v ∈ (rp.flatMap fun p => ep.map fun q => card p q) ↔ ∃ p ∈ rp, ∃ q ∈ ep, card p q = v := by
  simp [List.mem_flatMap, List.mem_map]

theorem estS_range (rp ep : Pat) : 0 ≤ estS rp ep ∧ estS rp ep ≤ 1 := by
  unfold estS
  constructor
  · apply maxR_nonneg_of
    intro v hv
    obtain ⟨p, _, q, _, rfl⟩ := mem_estList.1 hv
    exact (card_range p q).1
  · apply maxR_le_of _ zero_le_one
    intro v hv
    obtain ⟨p, _, q, _, rfl⟩ := mem_estList.1 hv
    exact (card_range p q).2

theorem estS_comm (rp ep : Pat) : estS rp ep = estS ep rp := by
  unfold estS
  apply maxR_congr_mem
  intro a
  rw [mem_estList, mem_estList]
  constructor
  · rintro ⟨p, hp, q, hq, h⟩; exact ⟨q, hq, p, hp, by rw [card_comm, h]⟩
  · rintro ⟨p, hp, q, hq, h⟩; exact ⟨q, hq, p, hp, by rw [card_comm, h]⟩

theorem estS_self {x : Pat} (h : ValidPat x) : estS x x = 1 := by
  unfold estS
  obtain ⟨o, ho⟩ := List.exists_mem_of_ne_nil x h.1
  apply maxR_eq_of
  · exact mem_estList.2 ⟨o, ho, o, ho, card_self (h.2 o ho).1 (h.2 o ho).2⟩
  · intro v hv
    obtain ⟨p, _, q, _, rfl⟩ := mem_estList.1 hv
    exact (card_range p q).2

/-- relabel every point of a pattern / pattern list -/
def mapPat (s : Point → Point) (p : Pat) : Pat := p.map (List.map s)
def mapPats (s : Point → Point) (x : Pats) : Pats := x.map (mapPat s)

theorem estS_map {s : Point → Point} (hs : Function.Injective s) (rp ep : Pat) :
    estS (mapPat s rp) (mapPat s ep) = estS rp ep := by
  unfold estS mapPat
  simp [List.flatMap_map, List.map_map, Function.comp_def, card_map hs]

theorem occP_range (rp ep : Pat) : 0 ≤ occP rp ep ∧ occP rp ep ≤ 1 :=
  colMM_range _ (fun p _ q _ => card_range p q)
theorem occR_range (rp ep : Pat) : 0 ≤ occR rp ep ∧ occR rp ep ≤ 1 :=
  rowMM_range _ (fun p _ q _ => card_range p q)

theorem occP_swap (rp ep : Pat) : occP ep rp = occR rp ep := by
  unfold occP occR
  rw [colMM_eq_rowMM]
  exact rowMM_congr (fun p _ q _ => card_comm q p)

theorem occR_swap (rp ep : Pat) : occR ep rp = occP rp ep := by
  rw [← occP_swap]

theorem occP_self {x : Pat} (h : ValidPat x) : occP x x = 1 :=
  colMM_eq_one _ h.1 (fun p _ q _ => (card_range p q).2)
    (fun o ho => ⟨o, ho, card_self (h.2 o ho).1 (h.2 o ho).2⟩)
theorem occR_self {x : Pat} (h : ValidPat x) : occR x x = 1 :=
  rowMM_eq_one _ h.1 (fun p _ q _ => (card_range p q).2)
    (fun o ho => ⟨o, ho, card_self (h.2 o ho).1 (h.2 o ho).2⟩)

theorem occP_map {s : Point → Point} (hs : Function.Injective s) (rp ep : Pat) :
    occP (mapPat s rp) (mapPat s ep) = occP rp ep := by
  unfold occP mapPat
  rw [colMM_map]
  exact colMM_congr (fun p _ q _ => card_map hs p q)
theorem occR_map {s : Point → Point} (hs : Function.Injective s) (rp ep : Pat) :
    occR (mapPat s rp) (mapPat s ep) = occR rp ep := by
  unfold occR mapPat
  rw [rowMM_map]
  exact rowMM_congr (fun p _ q _ => card_map hs p q)

/-! ### second layer -/

theorem f2_range (rp ep : Pat) : 0 ≤ f2 rp ep ∧ f2 rp ep ≤ 1 := by
  unfold f2
  have h1 := colMM_range f1 (xs := rp) (ys := ep) (fun p _ q _ => f1_range p q)
  have h2 := rowMM_range f1 (xs := rp) (ys := ep) (fun p _ q _ => f1_range p q)
  exact ⟨fMeasure_nonneg h1.1 h2.1, fMeasure_le_one h1.1 h2.1 h1.2 h2.2⟩

theorem f2_comm (rp ep : Pat) : f2 rp ep = f2 ep rp := by
  unfold f2
  rw [fMeasure_symm, colMM_eq_rowMM f1 ep rp, colMM_eq_rowMM f1 rp ep]
  have h1 : rowMM (fun y x => f1 x y) ep rp = rowMM f1 ep rp := rowMM_congr (fun p _ q _ => f1_comm q p)
  have h2 : rowMM (fun y x => f1 x y) rp ep = rowMM f1 rp ep := rowMM_congr (fun p _ q _ => f1_comm q p)
  rw [h1, h2]

theorem f2_self {x : Pat} (h : ValidPat x) : f2 x x = 1 := by
  unfold f2
  rw [colMM_eq_one f1 h.1 (fun p _ q _ => (f1_range p q).2)
        (fun o ho => ⟨o, ho, f1_self (h.2 o ho).1 (h.2 o ho).2⟩),
      rowMM_eq_one f1 h.1 (fun p _ q _ => (f1_range p q).2)
        (fun o ho => ⟨o, ho, f1_self (h.2 o ho).1 (h.2 o ho).2⟩)]
  exact fMeasure_one 1

theorem f2_map {s : Point → Point} (hs : Function.Injective s) (rp ep : Pat) :
    f2 (mapPat s rp) (mapPat s ep) = f2 rp ep := by
  unfold f2 mapPat
  rw [colMM_map, rowMM_map]
  rw [colMM_congr (g := f1) (fun p _ q _ => f1_map hs p q), rowMM_congr (g := f1) (fun p _ q _ => f1_map hs p q)]

/-! ### triples -/

/-- all three scores lie in [0,1] -/
def In01 (t : Rat × Rat × Rat) : Prop :=
  (0 ≤ t.1 ∧ t.1 ≤ 1) ∧ (0 ≤ t.2.1 ∧ t.2.1 ≤ 1) ∧ (0 ≤ t.2.2 ∧ t.2.2 ≤ 1)

/-- exchange precision and recall -/
def swapPR (t : Rat × Rat × Rat) : Rat × Rat × Rat := (t.1, t.2.2, t.2.1)

theorem prf_in01 {p r : Rat} (hp : 0 ≤ p ∧ p ≤ 1) (hr : 0 ≤ r ∧ r ≤ 1) : In01 (Spec.prf p r) :=
  ⟨⟨fMeasure_nonneg hp.1 hr.1, fMeasure_le_one hp.1 hr.1 hp.2 hr.2⟩, hp, hr⟩

theorem prf_swap (p r : Rat) : Spec.prf r p = swapPR (Spec.prf p r) := by
  unfold Spec.prf swapPR; simp [fMeasure_symm p r]

theorem prf_one : Spec.prf 1 1 = (1, 1, 1) := by
  unfold Spec.prf; rw [fMeasure_one 1]

theorem in01_zero : In01 (0, 0, 0) := by
  unfold In01; simp

/-! ### establishment -/

theorem establishment_in01 (ref est : Pats) : In01 (Spec.establishment ref est) :=
  prf_in01 (colMM_range _ (fun p _ q _ => estS_range p q)) (rowMM_range _ (fun p _ q _ => estS_range p q))

theorem establishment_swap (ref est : Pats) :
    Spec.establishment est ref = swapPR (Spec.establishment ref est) := by
  unfold Spec.establishment
  rw [← prf_swap]
  congr 1
  · rw [colMM_eq_rowMM]; exact rowMM_congr (fun p _ q _ => estS_comm q p)
  · rw [colMM_eq_rowMM]; exact (rowMM_congr (fun p _ q _ => estS_comm q p)).symm

theorem establishment_self {x : Pats} (h : ValidPats x) : Spec.establishment x x = (1, 1, 1) := by
  unfold Spec.establishment
  rw [colMM_eq_one estS h.1 (fun p _ q _ => (estS_range p q).2) (fun p hp => ⟨p, hp, estS_self (h.2 p hp)⟩),
      rowMM_eq_one estS h.1 (fun p _ q _ => (estS_range p q).2) (fun p hp => ⟨p, hp, estS_self (h.2 p hp)⟩)]
  exact prf_one

theorem establishment_map {s : Point → Point} (hs : Function.Injective s) (ref est : Pats) :
    Spec.establishment (mapPats s ref) (mapPats s est) = Spec.establishment ref est := by
  unfold Spec.establishment mapPats
  rw [colMM_map, rowMM_map,
    colMM_congr (g := estS) (fun p _ q _ => estS_map hs p q), rowMM_congr (g := estS) (fun p _ q _ => estS_map hs p q)]

theorem establishment_perm {ref ref' : Pats} (h : ref.Perm ref') (est : Pats) :
    Spec.establishment ref' est = Spec.establishment ref est := by
  unfold Spec.establishment
  rw [colMM_perm_left estS est h, rowMM_perm_left estS est h]

/-! ### three-layer -/

theorem threeLayer_in01 (ref est : Pats) : In01 (Spec.threeLayer ref est) :=
  prf_in01 (colMM_range _ (fun p _ q _ => f2_range p q)) (rowMM_range _ (fun p _ q _ => f2_range p q))

theorem threeLayer_swap (ref est : Pats) : Spec.threeLayer est ref = swapPR (Spec.threeLayer ref est) := by
  unfold Spec.threeLayer
  rw [← prf_swap]
  congr 1
  · rw [colMM_eq_rowMM]; exact rowMM_congr (fun p _ q _ => f2_comm q p)
  · rw [colMM_eq_rowMM]; exact (rowMM_congr (fun p _ q _ => f2_comm q p)).symm

theorem threeLayer_self {x : Pats} (h : ValidPats x) : Spec.threeLayer x x = (1, 1, 1) := by
  unfold Spec.threeLayer
  rw [colMM_eq_one f2 h.1 (fun p _ q _ => (f2_range p q).2) (fun p hp => ⟨p, hp, f2_self (h.2 p hp)⟩),
      rowMM_eq_one f2 h.1 (fun p _ q _ => (f2_range p q).2) (fun p hp => ⟨p, hp, f2_self (h.2 p hp)⟩)]
  exact prf_one

theorem threeLayer_map {s : Point → Point} (hs : Function.Injective s) (ref est : Pats) :
    Spec.threeLayer (mapPats s ref) (mapPats s est) = Spec.threeLayer ref est := by
  unfold Spec.threeLayer mapPats
  rw [colMM_map, rowMM_map,
    colMM_congr (g := f2) (fun p _ q _ => f2_map hs p q), rowMM_congr (g := f2) (fun p _ q _ => f2_map hs p q)]

theorem threeLayer_perm {ref ref' : Pats} (h : ref.Perm ref') (est : Pats) :
    Spec.threeLayer ref' est = Spec.threeLayer ref est := by
  unfold Spec.threeLayer
  rw [colMM_perm_left f2 est h, rowMM_perm_left f2 est h]

/-! ### occurrence -/

theorem mem_relPairs {thres : Rat} {ref est : Pats} {a : Pat × Pat} :
    a ∈ relPairs thres ref est ↔ a.1 ∈ ref ∧ a.2 ∈ est ∧ thres ≤ estS a.1 a.2 := by
  unfold relPairs
  simp only [List.mem_flatMap, List.mem_filterMap]
  constructor
  · rintro ⟨rp, hrp, ep, hep, h⟩
    split at h
    · simp only [Option.some.injEq] at h; subst h; exact ⟨hrp, hep, by assumption⟩
    · simp at h
  · rintro ⟨h1, h2, h3⟩
    exact ⟨a.1, h1, a.2, h2, by rw [if_pos h3]⟩

theorem occEntry_range {thres : Rat} {g : Pat → Pat → Rat} (hg : ∀ a b, 0 ≤ g a b ∧ g a b ≤ 1) (rp ep : Pat) :
    0 ≤ occEntry thres g rp ep ∧ occEntry thres g rp ep ≤ 1 := by
  unfold occEntry
  split
  · exact hg rp ep
  · exact ⟨le_refl _, zero_le_one⟩

theorem occurrence_in01 (thres : Rat) (ref est : Pats) : In01 (Spec.occurrence thres ref est) := by
  unfold Spec.occurrence
  simp only []
  split
  · exact in01_zero
  · exact prf_in01 (colMM_range _ (fun a _ b _ => occEntry_range occP_range a.1 b.2))
      (rowMM_range _ (fun a _ b _ => occEntry_range occR_range a.1 b.2))

theorem occurrence_self {x : Pats} (h : ValidPats x) {thres : Rat} (ht : thres ≤ 1) :
    Spec.occurrence thres x x = (1, 1, 1) := by
  unfold Spec.occurrence
  simp only []
  have hdiag : ∀ p ∈ x, (p, p) ∈ relPairs thres x x := fun p hp =>
    mem_relPairs.2 ⟨hp, hp, by show thres ≤ estS p p; rw [estS_self (h.2 p hp)]; exact ht⟩
  obtain ⟨p0, hp0⟩ := List.exists_mem_of_ne_nil x h.1
  have hne : relPairs thres x x ≠ [] := List.ne_nil_of_mem (hdiag p0 hp0)
  have hemp : (relPairs thres x x).isEmpty = false := by
    cases hr : relPairs thres x x with
    | nil => exact absurd hr hne
    | cons => rfl
  rw [hemp]
  simp only [Bool.false_eq_true, if_false]
  have hentryP : ∀ p ∈ x, occEntry thres occP p p = 1 := fun p hp => by
    unfold occEntry; rw [estS_self (h.2 p hp), if_pos ht, occP_self (h.2 p hp)]
  have hentryR : ∀ p ∈ x, occEntry thres occR p p = 1 := fun p hp => by
    unfold occEntry; rw [estS_self (h.2 p hp), if_pos ht, occR_self (h.2 p hp)]
  rw [colMM_eq_one _ hne (fun a _ b _ => (occEntry_range occP_range a.1 b.2).2)
        (fun b hb => ⟨(b.2, b.2), hdiag _ (mem_relPairs.1 hb).2.1, hentryP _ (mem_relPairs.1 hb).2.1⟩),
      rowMM_eq_one _ hne (fun a _ b _ => (occEntry_range occR_range a.1 b.2).2)
        (fun a ha => ⟨(a.1, a.1), hdiag _ (mem_relPairs.1 ha).1, hentryR _ (mem_relPairs.1 ha).1⟩)]
  exact prf_one


theorem filterMap_cons_toList {α β} (h : α → Option β) (x : α) (xs : List α) :
    (x :: xs).filterMap h = (h x).toList ++ xs.filterMap h := by
  rw [List.filterMap_cons]; cases h x <;> rfl

theorem filterMap_eq_flatMap_toList' {α β} (h : α → Option β) (ys : List α) :
    ys.filterMap h = ys.flatMap fun y => (h y).toList := by
  induction ys with
  | nil => rfl
  | cons y ys ihy => rw [filterMap_cons_toList, List.flatMap_cons, ihy]

/-- exchanging the two loops of a filtered double loop permutes the result -/
theorem flatMap_filterMap_swap {α β γ} (g : α → β → Option γ) (xs : List α) (ys : List β) :
    (xs.flatMap fun x => ys.filterMap (g x)).Perm (ys.flatMap fun y => xs.filterMap fun x => g x y) := by
  induction xs with
  | nil => simp
  | cons x xs ih =>
    rw [List.flatMap_cons]
    have h1 : (ys.flatMap fun y => (x :: xs).filterMap fun x => g x y) =
        ys.flatMap fun y => (g x y).toList ++ xs.filterMap fun x => g x y := by
      congr 1; funext y; exact filterMap_cons_toList _ _ _
    rw [h1]
    rw [filterMap_eq_flatMap_toList' (g x) ys]
    exact (List.Perm.append_left _ ih).trans (List.flatMap_append_perm ys _ _)

theorem relPairs_swap (thres : Rat) (ref est : Pats) :
    (relPairs thres est ref).Perm ((relPairs thres ref est).map Prod.swap) := by
  unfold relPairs
  rw [List.map_flatMap]
  have : (fun rp => (est.filterMap fun ep => if thres ≤ estS rp ep then some (rp, ep) else none).map Prod.swap)
      = fun rp => est.filterMap fun ep => if thres ≤ estS ep rp then some (ep, rp) else none := by
    funext rp
    rw [List.map_filterMap]
    congr 1
    funext ep
    rw [estS_comm ep rp]
    split <;> rfl
  rw [this]
  exact flatMap_filterMap_swap (fun ep rp => if thres ≤ estS ep rp then some (ep, rp) else none) est ref

theorem occEntry_swap (thres : Rat) (rp ep : Pat) :
    occEntry thres occP ep rp = occEntry thres occR rp ep := by
  unfold occEntry; rw [estS_comm ep rp, occP_swap]
theorem occEntry_swap' (thres : Rat) (rp ep : Pat) :
    occEntry thres occR ep rp = occEntry thres occP rp ep := by
  unfold occEntry; rw [estS_comm ep rp, occR_swap]

theorem occurrence_swap (thres : Rat) (ref est : Pats) :
    Spec.occurrence thres est ref = swapPR (Spec.occurrence thres ref est) := by
  unfold Spec.occurrence
  simp only []
  have hperm := relPairs_swap thres ref est
  have hemp : (relPairs thres est ref).isEmpty = (relPairs thres ref est).isEmpty := by
    apply isEmpty_eq_of_length
    rw [hperm.length_eq, List.length_map]
  rw [hemp]
  split
  · rfl
  · rw [← prf_swap]
    congr 1
    · rw [colMM_perm_left _ _ hperm, colMM_perm_right _ _ hperm, colMM_map, colMM_eq_rowMM]
      exact rowMM_congr (fun a _ b _ => occEntry_swap thres a.1 b.2)
    · rw [rowMM_perm_left _ _ hperm, rowMM_perm_right _ _ hperm, rowMM_map, colMM_eq_rowMM]
      exact rowMM_congr (fun a _ b _ => occEntry_swap' thres b.1 a.2)

theorem relPairs_map {s : Point → Point} (hs : Function.Injective s) (thres : Rat) (ref est : Pats) :
    relPairs thres (mapPats s ref) (mapPats s est) =
      (relPairs thres ref est).map (Prod.map (mapPat s) (mapPat s)) := by
  unfold relPairs mapPats
  rw [List.flatMap_map, List.map_flatMap]
  congr 1
  funext rp
  rw [List.filterMap_map, List.map_filterMap]
  congr 1
  funext ep
  simp only [Function.comp, estS_map hs]
  split <;> rfl

theorem occurrence_map {s : Point → Point} (hs : Function.Injective s) (thres : Rat) (ref est : Pats) :
    Spec.occurrence thres (mapPats s ref) (mapPats s est) = Spec.occurrence thres ref est := by
  unfold Spec.occurrence
  simp only []
  rw [relPairs_map hs]
  have hemp : ((relPairs thres ref est).map (Prod.map (mapPat s) (mapPat s))).isEmpty
      = (relPairs thres ref est).isEmpty := isEmpty_eq_of_length (List.length_map _)
  rw [hemp]
  split
  · rfl
  · rw [colMM_map, rowMM_map]
    congr 1
    · apply colMM_congr
      intro a _ b _
      simp only [Prod.map, occEntry, estS_map hs, occP_map hs]
    · apply rowMM_congr
      intro a _ b _
      simp only [Prod.map, occEntry, estS_map hs, occR_map hs]

theorem occurrence_perm {ref ref' : Pats} (h : ref.Perm ref') (thres : Rat) (est : Pats) :
    Spec.occurrence thres ref' est = Spec.occurrence thres ref est := by
  unfold Spec.occurrence
  simp only []
  have hperm : (relPairs thres ref est).Perm (relPairs thres ref' est) := by
    unfold relPairs; exact h.flatMap_right _
  have hemp : (relPairs thres ref' est).isEmpty = (relPairs thres ref est).isEmpty :=
    isEmpty_eq_of_length hperm.length_eq.symm
  rw [hemp]
  split
  · rfl
  · rw [colMM_perm_left _ _ hperm, colMM_perm_right _ _ hperm, rowMM_perm_left _ _ hperm,
      rowMM_perm_right _ _ hperm]



/-! ### standard -/

theorem standardK_le_ref (tol : Rat) (ref est : Pats) : standardK tol ref est ≤ ref.length :=
  List.length_filter_le _ _

theorem standard_recall_range (tol : Rat) (ref est : Pats) :
    0 ≤ (Spec.standard tol ref est).2.2 ∧ (Spec.standard tol ref est).2.2 ≤ 1 :=
  ratio_range (standardK_le_ref tol ref est)

theorem standard_precision_nonneg (tol : Rat) (ref est : Pats) : 0 ≤ (Spec.standard tol ref est).2.1 := by
  show (0 : Rat) ≤ (standardK tol ref est : Rat) / (est.length : Rat)
  positivity

/-- what is true of the precision in general: it is bounded by `|ref| / |est|` -/
theorem standard_precision_le (tol : Rat) (ref est : Pats) :
    (Spec.standard tol ref est).2.1 ≤ (ref.length : Rat) / (est.length : Rat) := by
  show (standardK tol ref est : Rat) / (est.length : Rat) ≤ (ref.length : Rat) / (est.length : Rat)
  apply div_le_div_of_nonneg_right _ (by positivity)
  exact_mod_cast standardK_le_ref tol ref est

theorem standard_in01 (tol : Rat) {ref est : Pats} (h : ref.length ≤ est.length) :
    In01 (Spec.standard tol ref est) :=
  prf_in01 (ratio_range (le_trans (standardK_le_ref tol ref est) h)) (ratio_range (standardK_le_ref tol ref est))

theorem mem_zipWith_exists {α β γ} (f : α → β → γ) {l : List α} {l' : List β} {x : γ}
    (h : x ∈ List.zipWith f l l') : ∃ a ∈ l, ∃ b ∈ l', x = f a b := by
  induction l generalizing l' with
  | nil => simp at h
  | cons a as ih =>
    cases l' with
    | nil => simp at h
    | cons b bs =>
      rw [List.zipWith_cons_cons, List.mem_cons] at h
      rcases h with rfl | h
      · exact ⟨a, by simp, b, by simp, rfl⟩
      · obtain ⟨a', ha', b', hb', hx⟩ := ih h
        exact ⟨a', by simp [ha'], b', by simp [hb'], hx⟩

theorem diffRows_self (P : Occ) : ∀ x ∈ diffRows P P, x = (0, 0) := by
  intro x hx
  unfold diffRows at hx
  simp only [List.zipWith_self, sub_self] at hx
  obtain ⟨a, ha, b, hb, rfl⟩ := mem_zipWith_exists _ hx
  have ha' : a = (0, 0) := by
    obtain ⟨_, _, h⟩ := List.mem_map.1 ha; exact h.symm
  have hb' : b = (0, 0) := by
    obtain ⟨_, _, h⟩ := List.mem_map.1 (List.mem_of_mem_tail hb); exact h.symm
  subst ha'; subst hb'; simp

theorem transEquiv_self {tol : Rat} (ht : 0 < tol) (P : Occ) : transEquiv tol P P = true := by
  unfold transEquiv
  simp only [decide_true, Bool.true_and, Bool.or_eq_true, decide_eq_true_eq, List.all_eq_true, Bool.and_eq_true]
  right
  intro x hx
  rw [diffRows_self P x hx]
  simp [absR, ht]

theorem standardK_self {tol : Rat} (ht : 0 < tol) (x : Pats) : standardK tol x x = x.length := by
  unfold standardK
  rw [List.filter_eq_self.2]
  intro p hp
  exact List.any_eq_true.2 ⟨p, hp, transEquiv_self ht _⟩

theorem standard_self {tol : Rat} (ht : 0 < tol) {x : Pats} (hx : x ≠ []) : Spec.standard tol x x = (1, 1, 1) := by
  unfold Spec.standard
  rw [standardK_self ht]
  have : (0 : Rat) < (x.length : Rat) := by
    have := List.length_pos_of_ne_nil hx
    exact_mod_cast this
  rw [div_self (ne_of_gt this)]
  exact prf_one

/-- translation of every point by `(dt, dm)` -/
def translate (dt dm : Rat) (p : Point) : Point := (p.1 + dt, p.2 + dm)

theorem translate_injective (dt dm : Rat) : Function.Injective (translate dt dm) := by
  intro a b h
  unfold translate at h
  simp only [Prod.mk.injEq, add_left_inj] at h
  exact Prod.ext h.1 h.2

theorem diffRows_translate (dt dm : Rat) (P Q : Occ) :
    diffRows (P.map (translate dt dm)) (Q.map (translate dt dm)) = diffRows P Q := by
  unfold diffRows
  have : List.zipWith (fun (p q : Point) => (p.1 - q.1, p.2 - q.2)) (P.map (translate dt dm)) (Q.map (translate dt dm))
      = List.zipWith (fun (p q : Point) => (p.1 - q.1, p.2 - q.2)) P Q := by
    rw [List.zipWith_map]
    congr 1
    funext p q
    simp [translate]
  rw [this]

theorem transEquiv_translate (tol dt dm : Rat) (P Q : Occ) :
    transEquiv tol (P.map (translate dt dm)) (Q.map (translate dt dm)) = transEquiv tol P Q := by
  unfold transEquiv
  rw [diffRows_translate, List.length_map, List.length_map]

theorem headD_mapPat (s : Point → Point) (p : Pat) : (mapPat s p).headD [] = (p.headD []).map s := by
  cases p <;> rfl

theorem standardK_translate (tol dt dm : Rat) (ref est : Pats) :
    standardK tol (mapPats (translate dt dm) ref) (mapPats (translate dt dm) est) = standardK tol ref est := by
  unfold standardK mapPats
  rw [List.filter_map, List.length_map]
  congr 2
  funext rp
  simp only [Function.comp, List.any_map, headD_mapPat]
  congr 1
  funext ep
  simp only [Function.comp, headD_mapPat, transEquiv_translate]

theorem standard_translate (tol dt dm : Rat) (ref est : Pats) :
    Spec.standard tol (mapPats (translate dt dm) ref) (mapPats (translate dt dm) est) = Spec.standard tol ref est := by
  unfold Spec.standard
  rw [standardK_translate]
  simp [mapPats]

theorem standard_perm {ref ref' : Pats} (h : ref.Perm ref') (tol : Rat) (est : Pats) :
    Spec.standard tol ref' est = Spec.standard tol ref est := by
  unfold Spec.standard standardK
  rw [(h.filter _).length_eq, h.length_eq]

/-! ### the guards of the model functions are invariant as well -/

theorem nOnsetMidi_mapPats (s : Point → Point) (x : Pats) : nOnsetMidi (mapPats s x) = nOnsetMidi x := by
  unfold nOnsetMidi mapPats mapPat
  simp [List.map_map, Function.comp_def]

theorem isZero_mapPats (s : Point → Point) (ref est : Pats) :
    isZero (mapPats s ref) (mapPats s est) = isZero ref est := by
  unfold isZero; rw [nOnsetMidi_mapPats, nOnsetMidi_mapPats]

theorem anyEmptyPat_mapPats (s : Point → Point) (ref est : Pats) :
    (mapPats s ref ++ mapPats s est).any List.isEmpty = (ref ++ est).any List.isEmpty := by
  unfold mapPats mapPat
  simp [List.any_map, Function.comp_def]

theorem anyEmptyOcc_mapPats (s : Point → Point) (x : Pats) : anyEmptyOcc (mapPats s x) = anyEmptyOcc x := by
  unfold anyEmptyOcc hasEmpty mapPats mapPat
  simp [List.any_map, Function.comp_def]

theorem anyEmptyProto_mapPats (s : Point → Point) (x : Pats) : anyEmptyProto (mapPats s x) = anyEmptyProto x := by
  unfold anyEmptyProto emptyProto mapPats
  rw [List.any_map]
  congr 1
  funext p
  simp only [Function.comp, headD_mapPat]
  cases p.headD [] <;> rfl

theorem nOnsetMidi_perm {x x' : Pats} (h : x.Perm x') : nOnsetMidi x' = nOnsetMidi x := by
  unfold nOnsetMidi; exact ((h.map _).sum_eq).symm

theorem isZero_perm {ref ref' : Pats} (h : ref.Perm ref') (est : Pats) : isZero ref' est = isZero ref est := by
  unfold isZero; rw [nOnsetMidi_perm h]

theorem anyEmptyPat_perm {ref ref' : Pats} (h : ref.Perm ref') (est : Pats) :
    (ref' ++ est).any List.isEmpty = (ref ++ est).any List.isEmpty := by
  rw [List.any_append, List.any_append, h.any_eq]

theorem anyEmptyOcc_perm {x x' : Pats} (h : x.Perm x') : anyEmptyOcc x' = anyEmptyOcc x := by
  unfold anyEmptyOcc; exact h.any_eq.symm

theorem anyEmptyProto_perm {x x' : Pats} (h : x.Perm x') : anyEmptyProto x' = anyEmptyProto x := by
  unfold anyEmptyProto; exact h.any_eq.symm

theorem isZero_comm (ref est : Pats) : isZero est ref = isZero ref est := by
  unfold isZero; exact Bool.or_comm _ _

theorem anyEmptyPat_comm (ref est : Pats) : (est ++ ref).any List.isEmpty = (ref ++ est).any List.isEmpty := by
  rw [List.any_append, List.any_append, Bool.or_comm]


/-! ### first-n scores -/

theorem firstNThreeLayerP_eq (ref est : Pats) (n : Int) :
    firstNThreeLayerP ref est n =
      if (ref ++ est).any List.isEmpty then .error .valueError
      else if isZero ref est then .ok 0
      else (threeLayerFPR ref (firstN est n)).map fun t => t.2.1 := by
  unfold firstNThreeLayerP
  rw [validate_eq]
  split
  · rfl
  · rw [bind_ok]
    split
    · rfl
    · cases threeLayerFPR ref (firstN est n) <;> rfl

theorem firstNTargetProportionR_eq (ref est : Pats) (n : Int) :
    firstNTargetProportionR ref est n =
      if (ref ++ est).any List.isEmpty then .error .valueError
      else if isZero ref est then .ok 0
      else (establishmentFPR ref (firstN est n) cardName).map fun t => t.2.2 := by
  unfold firstNTargetProportionR
  rw [validate_eq]
  split
  · rfl
  · rw [bind_ok]
    split
    · rfl
    · cases establishmentFPR ref (firstN est n) cardName <;> rfl

theorem firstN_of_le {est : Pats} {n : Int} (h : (est.length : Int) ≤ n) : firstN est n = est := by
  unfold firstN pySliceTo
  rw [if_pos h]
  simp

theorem firstN_nat (est : Pats) (n : Nat) : firstN est (n : Int) = est.take n := by
  unfold firstN pySliceTo
  split
  · rename_i h
    have h' : est.length ≤ n := by exact_mod_cast h
    simp [List.take_of_length_le h']
  · simp

theorem firstN_mapPats (s : Point → Point) (est : Pats) (n : Int) :
    firstN (mapPats s est) n = mapPats s (firstN est n) := by
  unfold firstN pySliceTo mapPats
  simp only [List.length_map]
  split <;> split <;> rw [List.map_take]

end Mir.Pattern
