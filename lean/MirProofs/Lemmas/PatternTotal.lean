import MirProofs.Lemmas.PatternSpec
import MirProofs.Lemmas.Totality

/-!
  Helpers for `Props/C14_Pattern.lean`.
-/
namespace Mir.Pattern
open Mir.Totality

theorem any_isEmpty_false_iff (x : Pats) : x.any List.isEmpty = false ↔ ∀ p ∈ x, p ≠ [] := by
  rw [Bool.eq_false_iff]
  constructor
  · intro h p hp hnil
    subst hnil
    exact h (List.any_eq_true.2 ⟨[], hp, rfl⟩)
  · intro h hh
    obtain ⟨p, hp, he⟩ := List.any_eq_true.1 hh
    exact h p hp (List.isEmpty_iff.1 he)

theorem firstN_sublist (est : Pats) (n : Int) : ∀ p ∈ firstN est n, p ∈ est := by
  intro p hp
  unfold firstN pySliceTo at hp
  split at hp <;> split at hp <;> exact List.mem_of_mem_take hp

theorem scoreMatrix_other {P Q : Pat} {metric : String} (hm : metric ≠ cardName) (hP : P ≠ []) (hQ : Q ≠ []) :
    scoreMatrix P Q metric = .error .valueError := by
  obtain ⟨p, ps, rfl⟩ := List.exists_cons_of_ne_nil hP
  obtain ⟨q, qs, rfl⟩ := List.exists_cons_of_ne_nil hQ
  unfold scoreMatrix
  apply mapM_head_error
  apply mapM_head_error
  rw [if_neg hm]

theorem anyEmptyOcc_firstN {est : Pats} (h : anyEmptyOcc est = false) (n : Int) : anyEmptyOcc (firstN est n) = false := by
  rw [Bool.eq_false_iff] at h ⊢
  intro hh
  obtain ⟨p, hp, hpe⟩ := List.any_eq_true.1 hh
  exact h (List.any_eq_true.2 ⟨p, firstN_sublist est n p hp, hpe⟩)

theorem any_isEmpty_firstN {ref est : Pats} (h : (ref ++ est).any List.isEmpty = false) (n : Int) :
    (ref ++ firstN est n).any List.isEmpty = false := by
  rw [Bool.eq_false_iff] at h ⊢
  intro hh
  obtain ⟨p, hp, hpe⟩ := List.any_eq_true.1 hh
  refine h (List.any_eq_true.2 ⟨p, ?_, hpe⟩)
  rcases List.mem_append.1 hp with hp | hp
  · exact List.mem_append.2 (Or.inl hp)
  · exact List.mem_append.2 (Or.inr (firstN_sublist est n p hp))

end Mir.Pattern
