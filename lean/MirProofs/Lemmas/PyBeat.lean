import MirModel.PyBeat
import MirProofs.Lemmas.PyMel
import Mathlib.Algebra.Order.Field.Basic
import Mathlib.Algebra.Order.Field.Rat
import Mathlib.Tactic.Linarith
import Mathlib.Tactic.Ring
import Mathlib.Tactic.NormNum
import Mathlib.Tactic.Positivity
/-
  Lemmas about the run-time library of the generated beat definitions (`Mir.PyBeat`, lean/MirModel/PyBeat.lean) in the
  hand model's terms: `np.interp` at the half-integer indices is `Mir.Beat.doubled`, `l[k::2]` is `everyOther`, and a
  boolean-mask selection with the mask `xs.map p` is `xs.filter p`.
-/
namespace Mir.PyBeat
open Mir

/-! ### slices and masks -/

theorem step2_zero {α : Type} (l : List α) : step2 l 0 = Mir.Beat.everyOther l := by
  unfold step2; rw [List.drop_zero]

theorem step2_one {α : Type} (l : List α) : step2 l 1 = Mir.Beat.everyOther (l.drop 1) := rfl

theorem select_map_filter {α : Type} (p : α → Bool) : ∀ xs : List α, Mir.PyMel.select xs (xs.map p) = xs.filter p
  | [] => rfl
  | x :: xs => by
      rw [List.map_cons, Mir.PyMel.select, select_map_filter p xs, List.filter_cons]

theorem getMask_map_filter (xs : List Rat) (p : Rat → Bool) :
    Mir.PyMel.getMask xs (xs.map p) = .ok (xs.filter p) := by
  rw [Mir.PyMel.getMask_eq_len (by rw [List.length_map]), select_map_filter]

/-! ### `arange` as arithmetic progressions -/

/-- `m` points `k, k + s, k + 2 s, …` -/
def prog (k s : Rat) (m : Nat) : List Rat := (List.range m).map fun i => k + ((i : Nat) : Rat) * s

theorem prog_succ (k s : Rat) (m : Nat) : prog k s (m + 1) = k :: prog (k + s) s m := by
  unfold prog
  rw [List.range_succ_eq_map, List.map_cons, List.map_map]
  congr 1
  · simp
  · apply List.map_congr_left
    intro i _
    simp only [Function.comp, Nat.cast_succ]
    ring

theorem mem_prog_ge {k s : Rat} (hs : 0 ≤ s) {m : Nat} {x : Rat} (h : x ∈ prog k s m) : k ≤ x := by
  unfold prog at h
  rw [List.mem_map] at h
  obtain ⟨i, _, rfl⟩ := h
  have : (0 : Rat) ≤ ((i : Nat) : Rat) * s := mul_nonneg (Nat.cast_nonneg i) hs
  linarith

theorem arange_eq_prog (start stop step : Rat) :
    arange start stop step = prog start step (((stop - start) / step).ceil.toNat) := rfl

/-! ### `np.interp` at the half-integer indices -/

theorem interp1_ge (x x0 x1 : Rat) (xs : List Rat) (f0 f1 : Rat) (fs : List Rat) (h : x1 ≤ x) :
    interp1 x (x0 :: x1 :: xs) (f0 :: f1 :: fs) = interp1 x (x1 :: xs) (f1 :: fs) := by
  rw [interp1, if_neg (not_lt.mpr h)]

theorem map_interp1_prog : ∀ (t : List Rat) (a k : Rat),
    (prog k (1 / 2) (2 * t.length + 1)).map (fun x => interp1 x (prog k 1 (t.length + 1)) (a :: t))
      = Mir.Beat.doubled (a :: t)
  | [], a, k => by
      simp [prog, interp1, Mir.Beat.doubled]
  | b :: t, a, k => by
      have hlen : 2 * (b :: t).length + 1 = (2 * t.length + 1) + 1 + 1 := by
        rw [List.length_cons]; ring
      have hlen' : (b :: t).length + 1 = t.length + 1 + 1 := by rw [List.length_cons]
      rw [hlen, hlen', prog_succ k (1 / 2), prog_succ (k + 1 / 2) (1 / 2), prog_succ k 1, prog_succ (k + 1) 1, List.map_cons, List.map_cons,
        Mir.Beat.doubled]
      have hk : k + 1 / 2 + 1 / 2 = k + 1 := by ring
      rw [hk]
      congr 1
      · rw [interp1, if_pos (by linarith), if_pos (le_refl k)]
      congr 1
      · rw [interp1, if_pos (by linarith), if_neg (by linarith)]
        have : k + 1 - k = 1 := by ring
        rw [this, div_one]
        ring
      · rw [← map_interp1_prog t b (k + 1), prog_succ (k + 1) 1]
        apply List.map_congr_left
        intro x hx
        exact interp1_ge x k (k + 1) _ a b t (mem_prog_ge (by norm_num) hx)

theorem interp_doubled (ref : List Rat) :
    interp (arange 0 ((ref.length : Rat) - 1 / 2) (1 / 2)) (arange 0 (ref.length : Rat) 1) ref
      = .ok (Mir.Beat.doubled ref) := by
  rcases ref with _ | ⟨a, t⟩
  · have h1 : ((([] : List Rat).length : Rat) - 1 / 2 - 0) / (1 / 2) = (((-1 : Int)) : Rat) := by
      simp only [List.length_nil]; norm_num
    have h2 : ((([] : List Rat).length : Rat) - 0) / 1 = (((0 : Int)) : Rat) := by
      simp only [List.length_nil]; norm_num
    rw [arange_eq_prog, arange_eq_prog, h1, h2, Rat.ceil_intCast, Rat.ceil_intCast]
    rfl
  · have h1 : (((a :: t).length : Rat) - 1 / 2 - 0) / (1 / 2) = (((2 * (t.length : Int) + 1 : Int)) : Rat) := by
      rw [List.length_cons]; push_cast; ring
    have h2 : (((a :: t).length : Rat) - 0) / 1 = ((((t.length : Int) + 1 : Int)) : Rat) := by
      rw [List.length_cons]; push_cast; ring
    have e1 : (2 * (t.length : Int) + 1).toNat = 2 * t.length + 1 := by omega
    have e2 : ((t.length : Int) + 1).toNat = t.length + 1 := by omega
    rw [arange_eq_prog, arange_eq_prog, h1, h2, Rat.ceil_intCast, Rat.ceil_intCast, e1, e2]
    unfold interp
    have hl : (prog 0 1 (t.length + 1)).length = (a :: t).length := by
      simp [prog]
    rw [if_neg (by rw [hl]; exact fun h => h rfl), if_neg (by rw [hl]; simp), map_interp1_prog]

theorem interp_doubled' (ref : List Rat) (n : Nat) (h : n = ref.length) :
    interp (arange 0 ((n : Rat) - 1 / 2) (1 / 2)) (arange 0 (n : Rat) 1) ref = .ok (Mir.Beat.doubled ref) := by
  subst h; exact interp_doubled _

end Mir.PyBeat
