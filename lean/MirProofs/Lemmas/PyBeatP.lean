import MirModel.PyBeat
import MirProofs.Lemmas.PyMel
import Mathlib.Algebra.Order.Field.Basic
import Mathlib.Algebra.Order.Field.Rat
import Mathlib.Algebra.Order.Floor.Ring
import Mathlib.Algebra.Order.Group.MinMax
import Mathlib.Data.Rat.Floor
import Mathlib.Tactic.Linarith
import Mathlib.Tactic.Ring
import Mathlib.Tactic.NormNum
import Mathlib.Tactic.SplitIfs
/-
  Lemmas about the `p_score` part of the run-time library of the generated beat definitions (`Mir.PyBeat`, section
  `pscore` of lean/MirModel/PyBeat.lean) in the hand model's terms.
-/
namespace Mir.PyBeat
open Mir

/-! ### impulse trains -/

theorem zeros_of_nonneg (N : Int) (h : 0 ≤ N) : zeros N = .ok (List.replicate N.toNat 0) := by
  unfold zeros
  rw [if_neg (by omega)]

theorem setOnes_replicate (n : Nat) (idx : List Int) :
    setOnes (List.replicate n 0) idx = Mir.Beat.impulseTrain n idx := by
  unfold setOnes Mir.Beat.impulseTrain
  simp only [List.length_replicate]
  split
  · rfl
  · congr 1
    apply List.map_congr_left
    intro k hk
    have hk' : k < n := List.mem_range.1 hk
    have : (List.replicate n 0).getD k 0 = 0 := by
      simp [List.getD, hk']
    rw [this]

theorem zeros_setOnes (N : Int) (idx : List Int) (h : 0 ≤ N) :
    (zeros N >>= fun t => setOnes t idx) = Mir.Beat.impulseTrain N.toNat idx := by
  rw [zeros_of_nonneg N h, Mir.PyMel.ok_bind, setOnes_replicate]

theorem impulseTrain_length {N : Nat} {idx : List Int} {t : List Nat}
    (h : Mir.Beat.impulseTrain N idx = .ok t) : t.length = N := by
  unfold Mir.Beat.impulseTrain at h
  split at h
  · cases h
  · injection h with h
    subst h
    simp

theorem correlate_of_pos {a v : List Nat} (ha : 0 < a.length) (hv : 0 < v.length) :
    correlate a v = .ok (Mir.Beat.correlateFull a v) := by
  unfold correlate
  rw [if_neg (by omega)]

/-! ### median -/

theorem insertInt_length' (x : Int) : ∀ l : List Int, (Mir.Beat.insertInt x l).length = l.length + 1 := by
  intro l
  induction l with
  | nil => rfl
  | cons y t ih => simp only [Mir.Beat.insertInt]; split <;> simp [ih]

theorem sortInt_length' : ∀ l : List Int, (Mir.Beat.sortInt l).length = l.length := by
  intro l
  induction l with
  | nil => rfl
  | cons x t ih => simp [Mir.Beat.sortInt, insertInt_length', ih]

theorem medianInt_eq_none_iff (l : List Int) : Mir.Beat.medianInt l = none ↔ l.length = 0 := by
  unfold Mir.Beat.medianInt
  simp only [sortInt_length']
  constructor
  · intro h
    by_contra hne
    rw [if_neg hne] at h
    have hlen := sortInt_length' l
    split at h
    · have hlt : l.length / 2 < (Mir.Beat.sortInt l).length := by omega
      rw [List.getElem?_eq_getElem hlt] at h
      simp at h
    · have h1 : l.length / 2 - 1 < (Mir.Beat.sortInt l).length := by omega
      have h2 : l.length / 2 < (Mir.Beat.sortInt l).length := by omega
      rw [List.getElem?_eq_getElem h1, List.getElem?_eq_getElem h2] at h
      simp at h
  · intro h
    rw [if_pos h]

theorem median_of_some {l : List Int} {m : Rat} (h : Mir.Beat.medianInt l = some m) : median l = .val m := by
  unfold median; rw [h]

theorem median_of_none {l : List Int} (h : Mir.Beat.medianInt l = none) : median l = .nan := by
  unfold median; rw [h]

/-! ### `int(...)` -/

theorem truncR_intCast (z : Int) : truncR (z : Rat) = z := by
  unfold truncR
  split
  · exact Rat.floor_intCast z
  · rw [← Int.cast_neg, Rat.floor_intCast]; omega

theorem pyInt_val_intCast (z : Int) : Mir.PyMel.pyInt (.val (z : Rat)) = .ok z := by
  show Except.ok (truncR (z : Rat)) = _
  rw [truncR_intCast]

theorem pyInt_round_mul (thr m : Rat) :
    Mir.PyMel.pyInt (npRound (Mir.PyMel.nmul (.val thr) (.val m))) = .ok (Mir.Beat.roundHalfEven (thr * m)) := by
  show Mir.PyMel.pyInt (.val ((Mir.Beat.roundHalfEven (thr * m) : Int) : Rat)) = _
  exact pyInt_val_intCast _

theorem truncR_hundred : truncR ((1 : Rat) / ((1 : Rat) / 100)) = 100 := by
  have : ((1 : Rat) / ((1 : Rat) / 100)) = ((100 : Int) : Rat) := by norm_num
  rw [this, truncR_intCast]

theorem truncR_hundred' : truncR ((1 : Rat) / (1 / 100 : Rat)) = 100 := truncR_hundred

/-! ### min / max -/

theorem vmin_cons (a : Rat) (t : List Rat) : vmin (a :: t) = .ok (Mir.Beat.minList a t) := rfl

theorem vmax_cons (a : Rat) (t : List Rat) : vmax (a :: t) = .ok (Mir.Beat.maxList a t) := rfl

theorem minList_map_sub (a : Rat) (t : List Rat) (c : Rat) :
    Mir.Beat.minList (a - c) (t.map (· - c)) = Mir.Beat.minList a t - c := by
  induction t generalizing a with
  | nil => rfl
  | cons b t ih =>
    have := ih (min a b)
    simp only [Mir.Beat.minList, List.map_cons, List.foldl_cons] at this ⊢
    rw [min_sub_sub_right, this]

theorem maxList_map_sub (a : Rat) (t : List Rat) (c : Rat) :
    Mir.Beat.maxList (a - c) (t.map (· - c)) = Mir.Beat.maxList a t - c := by
  induction t generalizing a with
  | nil => rfl
  | cons b t ih =>
    have := ih (max a b)
    simp only [Mir.Beat.maxList, List.map_cons, List.foldl_cons] at this ⊢
    rw [max_sub_sub_right, this]

end Mir.PyBeat
