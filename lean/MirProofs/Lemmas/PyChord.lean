import MirModel.PyChord
import MirModel.Chord.Encode
import MirModel.ChordCompare
import MirProofs.Lemmas.Chord.Join
import Mathlib.Tactic.Ring
/-
  Lemmas about the run-time library of the generated chord-label functions (`Mir.PyChord`), used by the
  `Mir.Gen.chord.<f> = <hand model>` theorems of `Props/C10_GenFns.lean`.
-/
namespace Mir.PyChord
open Mir Mir.Chord

/-! ### ints, indices -/

theorem pyMod_of_pos (a : Int) {b : Int} (hb : 0 < b) : pyMod a b = .ok (a % b) := by
  unfold pyMod
  rw [if_neg (by omega), Int.fmod_eq_emod_of_nonneg a (by omega)]

theorem pyMod_zero (a : Int) : pyMod a 0 = .error .zeroDivision := rfl

theorem normIndex_of_range {n : Nat} {i : Int} (h0 : 0 ≤ i) (h1 : i < (n : Int)) : normIndex n i = some i.toNat := by
  unfold normIndex; rw [if_pos ⟨h0, h1⟩]

theorem normIndex_neg {n : Nat} {i : Int} (h0 : i < 0) (h1 : -(n : Int) ≤ i) :
    normIndex n i = some (i + (n : Int)).toNat := by
  unfold normIndex; rw [if_neg (by omega), if_pos ⟨h0, h1⟩]

theorem normIndex_none {n : Nat} {i : Int} (h : (n : Int) ≤ i ∨ i < -(n : Int)) : normIndex n i = none := by
  unfold normIndex; rw [if_neg (by omega), if_neg (by omega)]

theorem listSet_of_range {α : Type} {xs : List α} {i : Int} (v : α) (h0 : 0 ≤ i) (h1 : i < (xs.length : Int)) :
    listSet xs i v = .ok (xs.set i.toNat v) := by
  unfold listSet; rw [normIndex_of_range h0 h1]

theorem listSet_out {α : Type} {xs : List α} {i : Int} (v : α) (h : (xs.length : Int) ≤ i ∨ i < -(xs.length : Int)) :
    listSet xs i v = .error .indexError := by
  unfold listSet; rw [normIndex_none h]

theorem listGet_of_range {xs : List Int} {i : Int} (h0 : 0 ≤ i) (h1 : i < (xs.length : Int)) :
    listGet xs i = .ok (xs.getD i.toNat 0) := by
  unfold listGet; rw [normIndex_of_range h0 h1]

theorem listSet_nil {α : Type} (i : Int) (v : α) : listSet ([] : List α) i v = .error .indexError := by
  unfold listSet normIndex
  simp only [List.length_nil, Int.natCast_zero]
  rw [if_neg (by omega), if_neg (by omega)]

@[simp] theorem listRepeat_nat {α : Type} (x : α) (n : Nat) : listRepeat x (n : Int) = List.replicate n x := by
  unfold listRepeat; simp

theorem listRepeat_nonpos {α : Type} (x : α) {n : Int} (h : n ≤ 0) : listRepeat x n = [] := by
  unfold listRepeat; rw [Int.toNat_of_nonpos h]; rfl

/-! ### vectors -/

theorem vecIAdd_same {a b : Vec} (h : a.length = b.length) : vecIAdd a b = .ok (addBitmap a b) := by
  unfold vecIAdd addBitmap; rw [if_pos h]

theorem astype_gt_zero (a : Vec) : astypeInt (vecGtInt a 0) = threshold a := by
  unfold astypeInt vecGtInt threshold
  rw [List.map_map]
  apply List.map_congr_left
  intro x _
  by_cases h : x > 0 <;> simp [h]

theorem threshold_length (a : List Int) : (threshold a).length = a.length := by
  unfold threshold; simp

/-! ### the order in which `encode` visits the degree set -/

theorem addDegrees_fail (m : Bool) {x : Str} (hx : scaleDegreeToBitmap x m = .error .invalidChord) :
    ∀ (ds : List Str) (bm : List Int), x ∈ ds → bm.length = 12 → addDegrees m bm ds = .error .invalidChord := by
  intro ds
  induction ds with
  | nil => intro bm h; simp at h
  | cons d ds ih =>
    intro bm hmem hl
    unfold addDegrees
    rcases scaleDegreeToBitmap_total d m with ⟨e, he, hle⟩ | he
    · simp only [he]
      rcases List.mem_cons.1 hmem with rfl | h'
      · rw [hx] at he; cases he
      · exact ih _ h' (addBitmap_length hl hle)
    · simp only [he]

/-- `addDegrees` does not depend on the order of the degrees at all — neither its value nor the exception -/
theorem addDegrees_perm_total (m : Bool) (bm : List Int) (hl : bm.length = 12) {ds ds' : List Str} (hp : ds'.Perm ds) :
    addDegrees m bm ds' = addDegrees m bm ds := by
  by_cases h : ∀ x ∈ ds, ∃ e, scaleDegreeToBitmap x m = .ok e
  · exact addDegrees_perm m bm hp h
  · push Not at h
    obtain ⟨x, hx, hne⟩ := h
    have hfail : scaleDegreeToBitmap x m = .error .invalidChord := by
      rcases scaleDegreeToBitmap_total x m with ⟨e, he, _⟩ | he
      · exact absurd he (hne e)
      · exact he
    rw [addDegrees_fail m hfail ds bm hx hl, addDegrees_fail m hfail ds' bm (hp.mem_iff.2 hx) hl]

/-! ### `rotate_bitmap_to_root` -/

theorem mapM_normIndex (n : Nat) (idx : List Int) (h : ∀ i ∈ idx, 0 ≤ i ∧ i < (n : Int)) :
    idx.mapM (normIndex n) = some (idx.map Int.toNat) := by
  induction idx with
  | nil => rfl
  | cons a t ih =>
    have ha := h a (by simp)
    have ht := ih (fun i hi => h i (by simp [hi]))
    simp [List.mapM_cons, normIndex_of_range ha.1 ha.2, ht]

theorem contains_toNat (idx : List Int) (h : ∀ i ∈ idx, 0 ≤ i) (j : Nat) :
    (idx.map Int.toNat).contains j = idx.contains (j : Int) := by
  induction idx with
  | nil => rfl
  | cons a t ih =>
    have ha := h a (by simp)
    have ht := ih (fun i hi => h i (by simp [hi]))
    simp only [List.map_cons, List.contains_cons, ht]
    congr 1
    by_cases e : a = (j : Int)
    · subst e; simp
    · have e' : ¬ a.toNat = j := fun hh => e (by omega)
      have e1 : ((j : Int) == a) = false := by simp; omega
      have e2 : (j == a.toNat) = false := by simp; omega
      rw [e1, e2]

theorem nzAt_eq (bm : List Int) (i : Nat) : Mir.ChordCompare.nzAt bm i = (bm.getD i 0 != 0) := by
  unfold Mir.ChordCompare.nzAt
  cases h : bm[i]? <;> simp [List.getD, h]

theorem zerosLike_getD (a : Vec) (j : Nat) : (zerosLike a).getD j 0 = 0 := by
  unfold zerosLike
  by_cases h : j < a.length <;> simp [List.getD, h]

/-! ### strings and sets: the run-time primitives are the hand models' primitives -/

theorem hasChar_eq (s : Str) (c : Char) : hasChar s c = s.contains c := rfl
theorem splitOn_eq (s : Str) (c : Char) : splitOn s c = Mir.Chord.splitOn c s := rfl
theorem stripWs_eq (s : Str) : stripWs s = stripChars isPySpace s := rfl
theorem joinSep_eq (c : Char) (xs : List Str) : joinSep c xs = Mir.Chord.joinSep c xs := rfl
theorem unpack2_eq {α : Type} (xs : List α) : unpack2 xs = Mir.Chord.unpack2 xs := rfl
theorem setOfList_eq (xs : List Str) : setOfList xs = Mir.Chord.setOfList xs := rfl
theorem setUpdate_eq (s t : List Str) : setUpdate s t = setUnion s t := rfl
theorem lower_eq (s : Str) : Mir.PyS.lower s = pyLower s := rfl

end Mir.PyChord
