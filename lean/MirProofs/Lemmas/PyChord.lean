import MirModel.PyChord
import MirModel.Chord.Encode
import Mathlib.Tactic.Ring
/-
  Lemmas about the run-time library of the generated chord-label functions (`Mir.PyChord`), used by the
  `Mir.Gen.chord.<f> = <hand model>` theorems of `Props/C10_GenFns.lean`.
-/
namespace Mir.PyChord
open Mir Mir.Chord

/-! ### ints, indices -/

theorem pyMod_of_pos (a : Int) {b : Int} (hb : 0 < b) : pyMod a b = .ok (a % b) := by
  unfold pyMod
  rw [if_neg (by omega), Int.fmod_eq_emod_of_nonneg a (by omega)]

theorem pyMod_zero (a : Int) : pyMod a 0 = .error .zeroDivision := rfl

theorem normIndex_of_range {n : Nat} {i : Int} (h0 : 0 ≤ i) (h1 : i < (n : Int)) : normIndex n i = some i.toNat := by
  unfold normIndex; rw [if_pos ⟨h0, h1⟩]

theorem normIndex_neg {n : Nat} {i : Int} (h0 : i < 0) (h1 : -(n : Int) ≤ i) :
    normIndex n i = some (i + (n : Int)).toNat := by
  unfold normIndex; rw [if_neg (by omega), if_pos ⟨h0, h1⟩]

theorem normIndex_none {n : Nat} {i : Int} (h : (n : Int) ≤ i ∨ i < -(n : Int)) : normIndex n i = none := by
  unfold normIndex; rw [if_neg (by omega), if_neg (by omega)]

theorem listSet_of_range {α : Type} {xs : List α} {i : Int} (v : α) (h0 : 0 ≤ i) (h1 : i < (xs.length : Int)) :
    listSet xs i v = .ok (xs.set i.toNat v) := by
  unfold listSet; rw [normIndex_of_range h0 h1]

theorem listSet_out {α : Type} {xs : List α} {i : Int} (v : α) (h : (xs.length : Int) ≤ i ∨ i < -(xs.length : Int)) :
    listSet xs i v = .error .indexError := by
  unfold listSet; rw [normIndex_none h]

theorem listGet_of_range {xs : List Int} {i : Int} (h0 : 0 ≤ i) (h1 : i < (xs.length : Int)) :
    listGet xs i = .ok (xs.getD i.toNat 0) := by
  unfold listGet; rw [normIndex_of_range h0 h1]

@[simp] theorem listRepeat_nat {α : Type} (x : α) (n : Nat) : listRepeat x (n : Int) = List.replicate n x := by
  unfold listRepeat; simp

theorem listRepeat_nonpos {α : Type} (x : α) {n : Int} (h : n ≤ 0) : listRepeat x n = [] := by
  unfold listRepeat; rw [Int.toNat_of_nonpos h]; rfl

/-! ### vectors -/

theorem vecIAdd_same {a b : Vec} (h : a.length = b.length) : vecIAdd a b = .ok (addBitmap a b) := by
  unfold vecIAdd addBitmap; rw [if_pos h]

theorem astype_gt_zero (a : Vec) : astypeInt (vecGtInt a 0) = threshold a := by
  unfold astypeInt vecGtInt threshold
  rw [List.map_map]
  apply List.map_congr_left
  intro x _
  by_cases h : x > 0 <;> simp [h]

theorem threshold_length (a : List Int) : (threshold a).length = a.length := by
  unfold threshold; simp

/-! ### strings and sets: the run-time primitives are the hand models' primitives -/

theorem hasChar_eq (s : Str) (c : Char) : hasChar s c = s.contains c := rfl
theorem splitOn_eq (s : Str) (c : Char) : splitOn s c = Mir.Chord.splitOn c s := rfl
theorem stripWs_eq (s : Str) : stripWs s = stripChars isPySpace s := rfl
theorem joinSep_eq (c : Char) (xs : List Str) : joinSep c xs = Mir.Chord.joinSep c xs := rfl
theorem unpack2_eq {α : Type} (xs : List α) : unpack2 xs = Mir.Chord.unpack2 xs := rfl
theorem setOfList_eq (xs : List Str) : setOfList xs = Mir.Chord.setOfList xs := rfl
theorem setUpdate_eq (s t : List Str) : setUpdate s t = setUnion s t := rfl
theorem lower_eq (s : Str) : Mir.PyS.lower s = pyLower s := rfl

end Mir.PyChord
