import MirModel.PyCmp
import MirProofs.Lemmas.Chord.Bridge
/-!
  Lemmas about the run-time library `MirModel/PyCmp.lean` (the NumPy array primitives the regenerated chord comparison
  functions call), in the form the proofs of `Props/C11_GenCmp.lean` use: every array is written as a TABULATION
  `tab n f = [f 0, …, f (n-1)]`; on tabulations of one length the shape checks of the element-wise primitives succeed
  syntactically, so each primitive is an unconditional rewrite to a tabulation of the row-level operation.
  Also: the hand model of the comparison functions on label LISTS (`cmpLabels`) and the passage from the rows of
  `Chord.encodeAll` to tabulations of `Reachable` rows.
-/
namespace Mir.PyCmp
open Mir Mir.Chord Mir.ChordCompare MirGen

/-- `[f 0, …, f (n-1)]` -/
def tab {α : Type} (n : Nat) (f : Nat → α) : List α := (List.range n).map f

@[simp] theorem length_tab {α : Type} (n : Nat) (f : Nat → α) : (tab n f).length = n := by simp [tab]

theorem map_tab {α β : Type} (g : α → β) (n : Nat) (f : Nat → α) : (tab n f).map g = tab n (fun i => g (f i)) := by
  simp [tab, Function.comp_def]

theorem zipWith_tab {α β γ : Type} (g : α → β → γ) (n : Nat) (a : Nat → α) (b : Nat → β) :
    List.zipWith g (tab n a) (tab n b) = tab n (fun i => g (a i) (b i)) := by
  simp only [tab]
  rw [List.zipWith_map_left, List.zipWith_map_right]
  induction (List.range n) with
  | nil => rfl
  | cons x xs ih => simp

theorem tab_congr {α : Type} {n : Nat} {f g : Nat → α} (h : ∀ i, i < n → f i = g i) : tab n f = tab n g := by
  apply List.map_congr_left
  intro i hi
  exact h i (List.mem_range.1 hi)

theorem mem_tab {α : Type} {n : Nat} {f : Nat → α} {x : α} : x ∈ tab n f ↔ ∃ i, i < n ∧ f i = x := by
  simp [tab]

theorem all_tab {α : Type} (n : Nat) (f : Nat → α) (p : α → Bool) :
    (tab n f).all p = decide (∀ i, i < n → p (f i) = true) := by
  rw [Bool.eq_iff_iff]
  simp [List.all_eq_true, mem_tab]

theorem map_eq_tab {α β : Type} (l : List α) (g : α → β) (d : α) :
    l.map g = tab l.length (fun i => g (l.getD i d)) := by
  apply List.ext_getElem
  · simp
  · intro i h1 h2
    simp only [length_tab] at h2
    simp [tab, h2]

theorem zipWith_eq_tab {α β γ : Type} (g : α → β → γ) (l : List α) (m : List β) (h : m.length = l.length) (d : α)
    (d' : β) : List.zipWith g l m = tab l.length (fun i => g (l.getD i d) (m.getD i d')) := by
  apply List.ext_getElem
  · simp [h]
  · intro i h1 h2
    simp only [length_tab] at h2
    have h3 : i < m.length := h ▸ h2
    simp [tab, h2, h3]

/-- `np.all(np.equal(a, b))` on two rows of one length is list equality -/
theorem all_zipWith_beq (a b : List Int) (h : a.length = b.length) :
    (List.zipWith (fun x y => x == y) a b).all id = (a == b) := by
  induction a generalizing b with
  | nil => cases b with
    | nil => rfl
    | cons y ys => simp at h
  | cons x xs ih =>
    cases b with
    | nil => simp at h
    | cons y ys =>
      simp only [List.length_cons, Nat.add_right_cancel_iff] at h
      simp only [List.zipWith_cons_cons, List.all_cons, ih ys h, id]
      rw [Bool.eq_iff_iff]; simp

/-! ### boolean-mask selection, paired indexing, masked store (the `valid_inversion` block of the `_inv` rules) -/

theorem maskSelect_map {ι α : Type} (l : List ι) (a : ι → α) (m : ι → Bool) :
    maskSelect (l.map a) (l.map m) = .ok ((l.filter m).map a) := by
  unfold maskSelect
  simp only [List.length_map, if_true]
  congr 1
  induction l with
  | nil => rfl
  | cons x xs ih =>
    simp only [List.map_cons, List.zip_cons_cons, List.filterMap_cons, List.filter_cons]
    cases m x <;> simp [ih]

theorem maskSelect_tab {α : Type} (n : Nat) (a : Nat → α) (m : Nat → Bool) :
    maskSelect (tab n a) (tab n m) = .ok (((List.range n).filter m).map a) := maskSelect_map _ a m

theorem pairIndex_map {ι : Type} (k : List ι) (rows : ι → List Int) (cols : ι → Int)
    (h : ∀ i ∈ k, 0 ≤ cols i ∧ cols i < ((rows i).length : Int)) :
    pairIndex (k.map rows) (k.map cols) = .ok (k.map fun i => (rows i).getD (cols i).toNat 0) := by
  unfold pairIndex
  simp only [List.length_map, if_true]
  induction k with
  | nil => rfl
  | cons x xs ih =>
    have hx := h x (by simp)
    have ih' := ih (fun i hi => h i (by simp [hi]))
    have hh : Mir.PyChord.listGet (rows x) (cols x) = .ok ((rows x).getD (cols x).toNat 0) := by
      simp [Mir.PyChord.listGet, Mir.PyChord.normIndex, hx]
    simp only [List.map_cons, List.zip_cons_cons, List.mapM_cons, ih', hh, bind, Except.bind, pure, Except.pure]

theorem storeAt_map {ι : Type} (l : List ι) (t m : ι → Bool) (v : ι → Bool) :
    storeAt (l.map t) (l.map m) ((l.filter m).map v) = l.map fun i => if m i then v i else t i := by
  induction l with
  | nil => rfl
  | cons x xs ih =>
    simp only [List.map_cons, List.filter_cons]
    cases hm : m x
    · simp [storeAt, ih]
    · simp [storeAt, ih]

theorem maskStoreB_tab (n : Nat) (t m : Nat → Bool) (v : Nat → Int) :
    maskStoreB (tab n t) (tab n m) (((List.range n).filter m).map v) =
      .ok (tab n fun i => if m i then v i != 0 else t i) := by
  unfold maskStoreB
  have hc : ((tab n m).filter id).length = ((List.range n).filter m).length := by
    simp only [tab, List.filter_map, List.length_map]
    rfl
  simp only [length_tab, if_true, List.length_map, hc, List.map_map]
  congr 1
  exact storeAt_map (List.range n) t m (fun i => v i != 0)

/-! ### the hand model of the comparison functions on label lists -/

/-- the loop `for chord_label in labels: validate_chord_label(chord_label)` -/
def validateAll : List Str → Py Unit
  | [] => .ok ()
  | s :: r =>
    match pyValidate s with
    | .error e => .error e
    | .ok _ => validateAll r

/-- `chord.validate(reference_labels, estimated_labels)`: ValueError on different lengths, else the first label (reference
    list first) that is not a chord label raises InvalidChordException -/
def validateLists (ref est : List Str) : Py Unit :=
  if ref.length = est.length then
    match validateAll ref with
    | .error e => .error e
    | .ok _ => validateAll est
  else .error .valueError

/-- HAND MODEL of `mir_eval.chord.<rule>(reference_labels, estimated_labels)`: validate, encode both lists without
    reduction (reference first; the first failure propagates), compare row by row with the row model
    `ChordCompare.cmp` -/
def cmpLabels (rule : Rule) (ref est : List Str) : Py (List Int) :=
  match validateLists ref est with
  | .error e => .error e
  | .ok _ =>
    match encodeAll false ref with
    | .error e => .error e
    | .ok rs =>
      match encodeAll false est with
      | .error e => .error e
      | .ok es => .ok (List.zipWith (fun r e => ChordCompare.cmp rule (toEnc r) (toEnc e)) rs es)

theorem validateLists_ok_length {ref est : List Str} {u : Unit} (h : validateLists ref est = .ok u) :
    ref.length = est.length := by
  unfold validateLists at h
  split at h
  · assumption
  · simp at h

theorem Reachable.bm_length {e : Enc} (h : Reachable e) : e.bm.length = 12 := (Reachable.wellShaped h).1
theorem Reachable.bass_lt {e : Enc} (h : Reachable e) : e.bass < 12 := (Reachable.wellShaped h).2

theorem reachable_noChord : Reachable noChord := Or.inl rfl

/-- the rows of two successful `encode_many` calls on lists of one length, as tabulations of `Reachable` rows (the
    default row beyond the end is the N sentinel, so that reachability holds for EVERY index) -/
theorem rows_tab {ref est : List Str} {rs es : List Encoded} (hl : ref.length = est.length)
    (hr : encodeAll false ref = .ok rs) (he : encodeAll false est = .ok es) :
    ∃ (n : Nat) (R E : Nat → Enc), n = ref.length ∧ (∀ i, Reachable (R i)) ∧ (∀ i, Reachable (E i)) ∧
      rs.map (fun x => x.1) = tab n (fun i => (R i).root) ∧ rs.map (fun x => x.2.1) = tab n (fun i => (R i).bm) ∧
      rs.map (fun x => x.2.2) = tab n (fun i => (R i).bass) ∧
      es.map (fun x => x.1) = tab n (fun i => (E i).root) ∧ es.map (fun x => x.2.1) = tab n (fun i => (E i).bm) ∧
      es.map (fun x => x.2.2) = tab n (fun i => (E i).bass) ∧
      ∀ rule, List.zipWith (fun r e => ChordCompare.cmp rule (toEnc r) (toEnc e)) rs es =
        tab n (fun i => ChordCompare.cmp rule (R i) (E i)) := by
  have hrl := ((encodeAll_ok_iff false ref rs).1 hr).1
  have hel := ((encodeAll_ok_iff false est es).1 he).1
  have hreach : ∀ (ls : List Str) (xs : List Encoded), encodeAll false ls = .ok xs →
      ∀ i, Reachable (toEnc (xs.getD i Tables.noChordEncoded)) := by
    intro ls xs h i
    by_cases hi : i < xs.length
    · have hm : xs.getD i Tables.noChordEncoded ∈ xs := by
        simp [List.getD_eq_getElem?_getD, hi]
      obtain ⟨hl', hall⟩ := (encodeAll_ok_iff false ls xs).1 h
      obtain ⟨j, hj, hje⟩ := List.getElem_of_mem hm
      have hj' : j < ls.length := hl' ▸ hj
      have hmem : (ls[j], xs[j]) ∈ ls.zip xs := by
        rw [List.mem_iff_getElem]
        exact ⟨j, by simp [hj, hj'], by simp⟩
      rw [← hje]
      exact Chord.encode_reachable (hall _ hmem)
    · have : xs.getD i Tables.noChordEncoded = Tables.noChordEncoded := by
        simp [List.getD_eq_getElem?_getD, List.getElem?_eq_none (by omega : xs.length ≤ i)]
      rw [this, toEnc_noChordEncoded]
      exact reachable_noChord
  refine ⟨rs.length, fun i => toEnc (rs.getD i Tables.noChordEncoded), fun i => toEnc (es.getD i Tables.noChordEncoded),
    hrl, hreach ref rs hr, hreach est es he, ?_, ?_, ?_, ?_, ?_, ?_, ?_⟩
  · exact map_eq_tab rs _ Tables.noChordEncoded
  · exact map_eq_tab rs _ Tables.noChordEncoded
  · exact map_eq_tab rs _ Tables.noChordEncoded
  · have : rs.length = es.length := by omega
    rw [this]; exact map_eq_tab es _ Tables.noChordEncoded
  · have : rs.length = es.length := by omega
    rw [this]; exact map_eq_tab es _ Tables.noChordEncoded
  · have : rs.length = es.length := by omega
    rw [this]; exact map_eq_tab es _ Tables.noChordEncoded
  · intro rule
    exact zipWith_eq_tab _ rs es (by omega) _ _

/-! ### one list at a time (mirex interleaves `encode_many` and `rotate_bitmaps_to_roots`) -/

/-- row `i` of an `encode_many` result as a row of the comparison model (the N sentinel beyond the end) -/
def rowAt (xs : List Encoded) (i : Nat) : Enc := toEnc (xs.getD i Tables.noChordEncoded)

theorem rowAt_reachable {ls : List Str} {xs : List Encoded} (h : encodeAll false ls = .ok xs) (i : Nat) :
    Reachable (rowAt xs i) := by
  unfold rowAt
  by_cases hi : i < xs.length
  · have hm : xs.getD i Tables.noChordEncoded ∈ xs := by
      simp [List.getD_eq_getElem?_getD, hi]
    obtain ⟨hl', hall⟩ := (encodeAll_ok_iff false ls xs).1 h
    obtain ⟨j, hj, hje⟩ := List.getElem_of_mem hm
    have hj' : j < ls.length := hl' ▸ hj
    have hmem : (ls[j], xs[j]) ∈ ls.zip xs := by
      rw [List.mem_iff_getElem]
      exact ⟨j, by simp [hj, hj'], by simp⟩
    rw [← hje]
    exact Chord.encode_reachable (hall _ hmem)
  · have : xs.getD i Tables.noChordEncoded = Tables.noChordEncoded := by
      simp [List.getD_eq_getElem?_getD, List.getElem?_eq_none (by omega : xs.length ≤ i)]
    rw [this, toEnc_noChordEncoded]
    exact reachable_noChord

theorem map_root_tab (xs : List Encoded) : xs.map (fun x => x.1) = tab xs.length (fun i => (rowAt xs i).root) :=
  map_eq_tab xs _ Tables.noChordEncoded
theorem map_bm_tab (xs : List Encoded) : xs.map (fun x => x.2.1) = tab xs.length (fun i => (rowAt xs i).bm) :=
  map_eq_tab xs _ Tables.noChordEncoded
theorem map_bass_tab (xs : List Encoded) : xs.map (fun x => x.2.2) = tab xs.length (fun i => (rowAt xs i).bass) :=
  map_eq_tab xs _ Tables.noChordEncoded

theorem zipWith_cmp_tab (rule : Rule) (rs es : List Encoded) (h : es.length = rs.length) :
    List.zipWith (fun r e => ChordCompare.cmp rule (toEnc r) (toEnc e)) rs es =
      tab rs.length (fun i => ChordCompare.cmp rule (rowAt rs i) (rowAt es i)) :=
  zipWith_eq_tab _ rs es h _ _

theorem isEmpty_tab {α : Type} (n : Nat) (f : Nat → α) : (tab n f).isEmpty = decide (n = 0) := by
  cases n with
  | zero => rfl
  | succ k => simp [tab, List.range_succ]

theorem zip_tab {α β : Type} (n : Nat) (a : Nat → α) (b : Nat → β) :
    List.zip (tab n a) (tab n b) = tab n (fun i => (a i, b i)) := by
  rw [List.zip_eq_zipWith, zipWith_tab]

theorem mapM_ok_of_forall {α β : Type} (l : List α) (f : α → Py β) (g : α → β) (h : ∀ x ∈ l, f x = .ok (g x)) :
    l.mapM f = .ok (l.map g) := by
  induction l with
  | nil => rfl
  | cons x xs ih =>
    have hx := h x (by simp)
    have ih' := ih (fun y hy => h y (by simp [hy]))
    simp only [List.mapM_cons, hx, ih', bind, Except.bind, pure, Except.pure, List.map_cons]

theorem mapM_tab_ok {α β : Type} (n : Nat) (a : Nat → α) (f : α → Py β) (g : Nat → β)
    (h : ∀ i, i < n → f (a i) = .ok (g i)) : (tab n a).mapM f = .ok (tab n g) := by
  unfold tab
  rw [List.mapM_map]
  exact mapM_ok_of_forall _ _ g (fun i hi => h i (List.mem_range.1 hi))

theorem stackRows_ok {α : Type} (rows : List (List α)) (k : Nat) (h : ∀ r ∈ rows, r.length = k) :
    stackRows rows = .ok rows := by
  cases rows with
  | nil => rfl
  | cons r rs =>
    unfold stackRows
    have hr := h r (by simp)
    have : rs.all (fun x => x.length == r.length) = true := by
      simp only [List.all_eq_true, beq_iff_eq]
      intro x hx
      rw [h x (by simp [hx]), hr]
    simp [this]

theorem length_rotate (bm : List Int) (r : Int) : (ChordCompare.rotate bm r).length = bm.length := by
  simp [ChordCompare.rotate]

theorem countPos_map (bm : List Int) :
    (((bm.map fun x => decide (x > 0)).filter id).length : Int) = ChordCompare.countPos bm := by
  unfold ChordCompare.countPos
  rw [List.filter_map, List.length_map]
  rfl

end Mir.PyCmp
