import MirModel.PyEvGlue
import MirProofs.Lemmas.PyMultipitch
import MirProofs.Lemmas.FastHit
import MirProofs.Lemmas.HopcroftKarpGraph
/-
  Lemmas about the run-time library of the generated event-metric glue (`Mir.PyEG`, lean/MirModel/PyEvGlue.lean): every
  primitive in the hand model's terms, used by `Props/C04_GenGlue.lean`.
-/
namespace Mir.PyEG
open Mir Mir.Transcription

theorem ok_bind {α β : Type} (a : α) (f : α → Py β) : (Except.ok a >>= f) = f a := rfl
theorem error_bind {α β : Type} (e : PyErr) (f : α → Py β) : ((Except.error e : Py α) >>= f) = Except.error e := rfl

/-! ### argsort, fancy indexing, searchsorted -/

/-- `x[np.argsort(x)]` is the sorted array of the hand model -/
theorem takeIdx_argsort (x : List Rat) :
    takeIdx x (argsort x) = .ok ((sortByVal (enumFrom' 0 x)).map (·.1)) := by
  unfold takeIdx argsort
  rw [PyMP.mapPy_ok _ (fun i => (x[i]?).getD 0)]
  · congr 1
    rw [List.map_map]
    apply List.map_congr_left
    intro p hp
    have := (mem_enumFrom'_zero x p.1 p.2).1 ((mem_sortByVal p _).1 hp)
    simp [Function.comp, this]
  · intro i hi
    obtain ⟨p, hp, rfl⟩ := List.mem_map.1 hi
    have := (mem_enumFrom'_zero x p.1 p.2).1 ((mem_sortByVal p _).1 hp)
    simp [this]

theorem searchsortedLeft_eq (S : List (Rat × Nat)) (v : List Rat) :
    searchsortedLeft (S.map (·.1)) v = v.map (searchLeft S) := by
  unfold searchsortedLeft searchLeft
  apply List.map_congr_left
  intro x _
  rw [List.filter_map, List.length_map]
  rfl

theorem searchsortedRight_eq (S : List (Rat × Nat)) (v : List Rat) :
    searchsortedRight (S.map (·.1)) v = v.map (searchRight S) := by
  unfold searchsortedRight searchRight
  apply List.map_congr_left
  intro x _
  rw [List.filter_map, List.length_map]
  rfl

theorem searchRight_le (S : List (Rat × Nat)) (v : Rat) : searchRight S v ≤ S.length := by
  unfold searchRight; exact List.length_filter_le _ _

/-- the slice of the argsort indices = the indices of the model's slice of the sorted pairs -/
theorem sliceNat_map_snd (S : List (Rat × Nat)) (lo hi : Nat) :
    sliceNat (S.map (·.2)) lo hi = ((S.drop lo).take (hi - lo)).map (·.2) := by
  unfold sliceNat
  rw [← List.map_take, ← List.map_drop, List.drop_take]

theorem repeatInt_sub (j lo hi : Nat) : repeatInt j ((hi : Int) - (lo : Int)) = List.replicate (hi - lo) j := by
  unfold repeatInt
  congr 1
  omega

theorem slice_length (S : List (Rat × Nat)) (lo hi : Nat) (h : hi ≤ S.length) :
    ((S.drop lo).take (hi - lo)).length = hi - lo := by
  simp only [List.length_take, List.length_drop]; omega

/-! ### the hit dict -/

theorem alSet_alSet {α : Type} (k : Nat) (v v' : α) : ∀ m : AL α, alSet k v (alSet k v' m) = alSet k v m
  | [] => by simp [alSet]
  | (a, b) :: m => by
    by_cases h : a = k
    · simp [alSet, h]
    · simp [alSet, h, alSet_alSet k v v' m]

theorem alHas_eq_isSome {α : Type} (k : Nat) (m : AL α) : alHas k m = (alGet k m).isSome := by
  cases hg : alGet k m with
  | none =>
    have : ¬ HK.Has m k := by unfold HK.Has; rw [hg]; simp
    rw [(HK.alHas_eq_false_iff k m).2 this]; rfl
  | some v =>
    have : HK.Has m k := HK.has_of_get hg
    rw [(HK.alHas_iff k m).2 this]; rfl

/-- one iteration of the translated loop of `match_events` = one step of the hand model's `buildGraph` -/
theorem dict_step (g : Dict) (r e : Nat) :
    dictAppend (if (!dictHas g e) = true then dictSet g e [] else g) e r =
      .ok (match alGet e g with
        | none => alSet e [r] g
        | some l => alSet e (l ++ [r]) g) := by
  unfold dictAppend dictHas dictSet
  rw [alHas_eq_isSome]
  cases hg : alGet e g with
  | none => simp [HK.alGet_alSet_self, alSet_alSet]
  | some l => simp [hg]

/-! ### medians / minima of `segment.deviation` -/

theorem foldl_min_eq_minOver (f : Rat → Rat) : ∀ (ys : List Rat) (y0 : Rat),
    (ys.map f).foldl min (f y0) = Mir.Boundary.minOver f y0 ys
  | [], y0 => rfl
  | y :: ys, y0 => by
    have ih := foldl_min_eq_minOver f ys y
    simp only [List.map_cons, List.foldl_cons, Mir.Boundary.minOver]
    rw [← ih]
    -- foldl min (min a b) l = min a (foldl min b l)
    have key : ∀ (l : List Rat) (a b : Rat), l.foldl min (min a b) = min a (l.foldl min b) := by
      intro l
      induction l with
      | nil => intro a b; rfl
      | cons c l ihl => intro a b; simp only [List.foldl_cons]; rw [min_assoc, ihl]
    exact key _ _ _

/-- row minima of a matrix whose rows are `g x` over a non-empty list -/
theorem minAxis1_map (g : Rat → Rat → Rat) (xs : List Rat) (y0 : Rat) (ys : List Rat) :
    minAxis1 (xs.map fun x => (y0 :: ys).map (g x)) = .ok (xs.map fun x => Mir.Boundary.minOver (g x) y0 ys) := by
  unfold minAxis1
  rw [PyMP.mapPy_ok _ (fun row => (minList row).getD 0)]
  · rw [List.map_map]
    congr 1
    apply List.map_congr_left
    intro x _
    simp only [Function.comp, List.map_cons, minList, Option.getD_some]
    exact foldl_min_eq_minOver (g x) ys y0
  · intro row hrow
    obtain ⟨x, _, rfl⟩ := List.mem_map.1 hrow
    simp [minList]

theorem heads_outer (g : Rat → Rat → Rat) (y : Rat) (ys : List Rat) : ∀ xs : List Rat,
    List.filterMap List.head? (xs.map fun x => g x y :: ys.map (g x)) = xs.map fun x => g x y
  | [] => rfl
  | a :: t => by simp only [List.map_cons, List.filterMap_cons, List.head?_cons, heads_outer g y ys t]

theorem tails_outer (g : Rat → Rat → Rat) (y : Rat) (ys : List Rat) : ∀ xs : List Rat,
    (xs.map fun x => g x y :: ys.map (g x)).map List.tail = xs.map fun x => ys.map (g x)
  | [] => rfl
  | a :: t => by simp only [List.map_cons, List.tail_cons, tails_outer g y ys t]

/-- the columns of an outer table are the rows of the transposed table -/
theorem columns_outer (g : Rat → Rat → Rat) (xs : List Rat) : ∀ ys : List Rat,
    columns (xs.map fun x => ys.map (g x)) ys.length = ys.map fun y => xs.map fun x => g x y
  | [] => rfl
  | y :: ys => by
    simp only [List.length_cons, columns, List.map_cons, heads_outer, tails_outer, columns_outer g xs ys]

end Mir.PyEG
