import MirModel.PyHier
import MirProofs.Lemmas.Hierarchy
/-
  Lemmas about the run-time library of the generated hierarchy definitions (`Mir.PyH`, lean/MirModel/PyHier.lean) and
  about the loops of `MirGen/Hierarchy.lean`: every primitive / loop in the hand model's terms, used by the
  `Mir.Gen.hierarchy.<f> = <hand model>` theorems of `Props/C17_Gen.lean`.
-/
namespace Mir.PyH
open Mir Mir.Hierarchy

theorem ok_bind {α β : Type} (a : α) (f : α → Py β) : (Except.ok a >>= f) = f a := rfl
theorem error_bind {α β : Type} (e : PyErr) (f : α → Py β) : ((Except.error e : Py α) >>= f) = Except.error e := rfl
theorem pure_eq_ok {α : Type} (a : α) : (pure a : Py α) = Except.ok a := rfl
theorem throw_eq_error {α : Type} (e : PyErr) : (throw e : Py α) = Except.error e := rfl

theorem getItem_lt {α : Type} (xs : List α) (i : Nat) (h : i < xs.length) : getItem xs i = .ok xs[i] := by
  unfold getItem; rw [List.getElem?_eq_getElem h]

theorem getItem_ge {α : Type} (xs : List α) (i : Nat) (h : xs.length ≤ i) : getItem xs i = .error .indexError := by
  unfold getItem; rw [List.getElem?_eq_none h]

/-! ### `_count_inversions`: the two-pointer `while` loop -/

theorem mergeInv_nil_right (ua : List (Nat × Nat)) : mergeInv ua [] = 0 := by
  cases ua <;> simp [mergeInv]

theorem sum_drop_map_snd (u : List (Nat × Nat)) (i : Nat) :
    npSum (sliceFrom (u.map (·.2)) i) = sumCounts (u.drop i) := by
  simp [npSum, sliceFrom, sumCounts, List.map_drop]

end Mir.PyH
