import MirModel.PyHier
import MirProofs.Lemmas.Hierarchy
/-
  Lemmas about the run-time library of the generated hierarchy definitions (`Mir.PyH`, lean/MirModel/PyHier.lean) and
  about the loops of `MirGen/Hierarchy.lean`: every primitive / loop in the hand model's terms, used by the
  `Mir.Gen.hierarchy.<f> = <hand model>` theorems of `Props/C17_Gen.lean`.
-/
namespace Mir.PyH
open Mir Mir.Hierarchy

theorem ok_bind {α β : Type} (a : α) (f : α → Py β) : (Except.ok a >>= f) = f a := rfl
theorem error_bind {α β : Type} (e : PyErr) (f : α → Py β) : ((Except.error e : Py α) >>= f) = Except.error e := rfl
theorem pure_eq_ok {α : Type} (a : α) : (pure a : Py α) = Except.ok a := rfl
theorem throw_eq_error {α : Type} (e : PyErr) : (throw e : Py α) = Except.error e := rfl

theorem getItem_lt {α : Type} (xs : List α) (i : Nat) (h : i < xs.length) : getItem xs i = .ok xs[i] := by
  unfold getItem; rw [List.getElem?_eq_getElem h]

theorem getItem_ge {α : Type} (xs : List α) (i : Nat) (h : xs.length ≤ i) : getItem xs i = .error .indexError := by
  unfold getItem; rw [List.getElem?_eq_none h]

/-! ### `_count_inversions`: the two-pointer `while` loop -/

theorem mergeInv_nil_right (ua : List (Nat × Nat)) : mergeInv ua [] = 0 := by
  cases ua <;> simp [mergeInv]

theorem sum_drop_map_snd (u : List (Nat × Nat)) (i : Nat) :
    npSum (sliceFrom (u.map (·.2)) i) = sumCounts (u.drop i) := by
  simp [npSum, sliceFrom, sumCounts, List.map_drop]

/-! ### `np.unique` of a block-sorted array -/

theorem insertCount_pos {x : Nat} {u : List (Nat × Nat)} (h : ∀ p ∈ u, 1 ≤ p.2) : ∀ p ∈ insertCount x u, 1 ≤ p.2 := by
  induction u with
  | nil => intro p hp; simp [insertCount] at hp; subst hp; simp
  | cons q t ih =>
    obtain ⟨v, c⟩ := q
    intro p hp
    unfold insertCount at hp
    split at hp
    · rcases List.mem_cons.1 hp with rfl | hp
      · simp
      · exact h p hp
    · split at hp
      · rcases List.mem_cons.1 hp with rfl | hp
        · simp
        · exact h p (List.mem_cons_of_mem _ hp)
      · rcases List.mem_cons.1 hp with rfl | hp
        · exact h _ List.mem_cons_self
        · exact ih (fun r hr => h r (List.mem_cons_of_mem _ hr)) p hp

theorem uniqueCounts_pos (a : List Nat) : ∀ p ∈ Hierarchy.uniqueCounts a, 1 ≤ p.2 := by
  induction a with
  | nil => intro p hp; cases hp
  | cons x t ih => exact insertCount_pos ih

/-- the array sorted into blocks: every level repeated by its count -/
def sortedOf (u : List (Nat × Nat)) : List Nat := u.flatMap fun p => List.replicate p.2 p.1

theorem foldr_insertCount_replicate (l : Nat) (t : List (Nat × Nat)) (ht : ∀ p ∈ t, l < p.1) :
    ∀ c, List.foldr insertCount t (List.replicate (c + 1) l) = (l, c + 1) :: t := by
  intro c
  induction c with
  | zero =>
    simp only [List.replicate, List.foldr]
    cases t with
    | nil => rfl
    | cons q r =>
      obtain ⟨v, d⟩ := q
      have : l < v := ht (v, d) List.mem_cons_self
      simp [insertCount, this]
  | succ c ih =>
    rw [List.replicate_succ, List.foldr_cons, ih]
    simp [insertCount]

theorem uniqueCounts_sortedOf (u : List (Nat × Nat)) (h : KeysAsc u) (hp : ∀ p ∈ u, 1 ≤ p.2) :
    Hierarchy.uniqueCounts (sortedOf u) = u := by
  induction u with
  | nil => rfl
  | cons q t ih =>
    obtain ⟨l, c⟩ := q
    have ht := (List.pairwise_cons.1 h).2
    have hl := (List.pairwise_cons.1 h).1
    have hc : 1 ≤ c := hp (l, c) List.mem_cons_self
    obtain ⟨c', rfl⟩ : ∃ c', c = c' + 1 := ⟨c - 1, by omega⟩
    have iht := ih ht (fun p hp' => hp p (List.mem_cons_of_mem _ hp'))
    unfold sortedOf at iht ⊢
    unfold Hierarchy.uniqueCounts at iht ⊢
    rw [List.flatMap_cons, List.foldr_append, iht]
    exact foldr_insertCount_replicate l t (fun p hp' => hl p hp') c'

/-- `(level, count, start, end)` of the blocks of a block-sorted array that starts at offset `s` -/
def offs : Nat → List (Nat × Nat) → List (Nat × Nat × Nat × Nat)
  | _, [] => []
  | s, (l, c) :: t => (l, c, s, s + c) :: offs (s + c) t

theorem offs_levels (s : Nat) (u : List (Nat × Nat)) : (offs s u).map (·.1) = u.map (·.1) := by
  induction u generalizing s with
  | nil => rfl
  | cons q t ih => obtain ⟨l, c⟩ := q; simp [offs, ih]

theorem offs_counts (s : Nat) (u : List (Nat × Nat)) : (offs s u).map (·.2.1) = u.map (·.2) := by
  induction u generalizing s with
  | nil => rfl
  | cons q t ih => obtain ⟨l, c⟩ := q; simp [offs, ih]

theorem length_sortedOf (u : List (Nat × Nat)) : (sortedOf u).length = sumCounts u := by
  induction u with
  | nil => rfl
  | cons q t ih =>
    obtain ⟨l, c⟩ := q
    unfold sortedOf at ih ⊢
    simp [sumCounts, List.flatMap_cons, ih]

theorem offs_starts_ends (s : Nat) (u : List (Nat × Nat)) :
    (offs s u).map (·.2.2.1) ++ [s + sumCounts u] = s :: (offs s u).map (·.2.2.2) := by
  induction u generalizing s with
  | nil => simp [offs, sumCounts]
  | cons q t ih =>
    obtain ⟨l, c⟩ := q
    have := ih (s + c)
    simp only [offs, List.map_cons, List.cons_append, sumCounts, List.sum_cons] at this ⊢
    rw [← Nat.add_assoc, this]

theorem idxOf_sortedOf (u : List (Nat × Nat)) (h : KeysAsc u) (hp : ∀ p ∈ u, 1 ≤ p.2) :
    ∀ (pre : List Nat), (∀ p ∈ u, p.1 ∉ pre) →
      u.map (fun p => (pre ++ sortedOf u).idxOf p.1) = (offs pre.length u).map (·.2.2.1) := by
  induction u with
  | nil => intro pre _; rfl
  | cons q t ih =>
    obtain ⟨l, c⟩ := q
    intro pre hpre
    have ht := (List.pairwise_cons.1 h).2
    have hl := (List.pairwise_cons.1 h).1
    have hc : 1 ≤ c := hp (l, c) List.mem_cons_self
    obtain ⟨c', rfl⟩ : ∃ c', c = c' + 1 := ⟨c - 1, by omega⟩
    have hlpre : l ∉ pre := hpre (l, c' + 1) List.mem_cons_self
    have hso : sortedOf ((l, c' + 1) :: t) = List.replicate (c' + 1) l ++ sortedOf t := by
      simp [sortedOf, List.flatMap_cons]
    have iht := ih ht (fun p hp' => hp p (List.mem_cons_of_mem _ hp')) (pre ++ List.replicate (c' + 1) l) (by
      intro p hp' hmem
      rcases List.mem_append.1 hmem with hm | hm
      · exact hpre p (List.mem_cons_of_mem _ hp') hm
      · have := (List.mem_replicate.1 hm).2
        have := hl p hp'
        simp only at this
        omega)
    simp only [List.map_cons, offs, hso]
    simp only [List.length_append, List.length_replicate, List.append_assoc] at iht
    rw [← iht, List.idxOf_append_of_notMem hlpre]
    simp [List.replicate_succ]

theorem zip4_offs (s : Nat) (u : List (Nat × Nat)) :
    zip4 ((offs s u).map (·.1)) ((offs s u).map (·.2.1)) ((offs s u).map (·.2.2.1)) ((offs s u).map (·.2.2.2)) = offs s u := by
  generalize offs s u = xs
  induction xs with
  | nil => rfl
  | cons x t ih =>
    simp only [zip4, List.map_cons, List.zip_cons_cons] at ih ⊢
    rw [ih]

/-- what the translated code builds from `np.unique(ref_sorted, return_index=True, return_counts=True)`: the blocks -/
theorem unique_blocks (u : List (Nat × Nat)) (h : KeysAsc u) (hp : ∀ p ∈ u, 1 ≤ p.2) :
    let r := uniqueIndexCounts (sortedOf u)
    r.1 = u.map (·.1) ∧
    zip4 r.1 r.2.2 (dropLast1 (r.2.1 ++ [len (sortedOf u)])) (sliceFrom (r.2.1 ++ [len (sortedOf u)]) 1) = offs 0 u := by
  simp only [uniqueIndexCounts, uniqueCounts_sortedOf u h hp, true_and]
  have hs := idxOf_sortedOf u h hp [] (by simp)
  simp only [List.nil_append, List.length_nil] at hs
  have he := offs_starts_ends 0 u
  rw [hs, len, length_sortedOf, dropLast1, sliceFrom, List.dropLast_concat]
  rw [Nat.zero_add] at he
  rw [he, List.drop_one, List.tail_cons, ← offs_levels 0 u, ← offs_counts 0 u]
  exact zip4_offs 0 u

/-! ### `np.argsort` + fancy indexing -/

/-- the positions of level `l`, ascending -/
def blk (ref : List Nat) (l : Nat) : List Nat := ((ref.zipIdx).filter fun p => p.1 == l).map (·.2)

theorem argsort_eq (ref : List Nat) : argsort ref = ((Hierarchy.uniqueCounts ref).map (·.1)).flatMap (blk ref) := rfl

theorem mem_blk {ref : List Nat} {l i : Nat} : i ∈ blk ref l ↔ ref[i]? = some l := by
  unfold blk
  simp only [List.mem_map, List.mem_filter, beq_iff_eq]
  constructor
  · rintro ⟨⟨x, j⟩, ⟨hm, hx⟩, rfl⟩
    have := List.mem_zipIdx_iff_getElem?.1 hm
    simp only at hx this
    rw [this, hx]
  · intro h
    exact ⟨(l, i), ⟨List.mem_zipIdx_iff_getElem?.2 h, rfl⟩, rfl⟩

theorem mem_argsort {ref : List Nat} {i : Nat} : i ∈ argsort ref ↔ i < ref.length := by
  rw [argsort_eq, List.mem_flatMap]
  constructor
  · rintro ⟨l, _, hi⟩
    have := mem_blk.1 hi
    exact (List.getElem?_eq_some_iff.1 this).1
  · intro h
    refine ⟨ref[i], mem_keys_uniqueCounts (List.getElem_mem h), mem_blk.2 ?_⟩
    exact List.getElem?_eq_getElem h

/-- gathering `E` at the positions of level `l` (numbered from `k`) = the estimate scores zipped with that level -/
theorem gather_blk (l : Nat) : ∀ (ref est : List Nat) (k : Nat) (E : List Nat), (∀ i, E[k + i]? = est[i]?) →
    ref.length ≤ est.length →
    (((ref.zipIdx k).filter fun p => p.1 == l).map fun p => (E[p.2]?).getD 0)
      = ((ref.zip est).filter fun p => p.1 == l).map (·.2) := by
  intro ref
  induction ref with
  | nil => intro est k E _ _; rfl
  | cons r t ih =>
    intro est k E hE hlen
    cases est with
    | nil => simp at hlen
    | cons e est' =>
      have h0 : E[k]? = some e := by simpa using hE 0
      have iht := ih est' (k + 1) E (fun i => by
        have := hE (i + 1)
        simp only [List.getElem?_cons_succ] at this
        rw [← this]; congr 1; omega) (by simpa using hlen)
      simp only [List.zipIdx_cons, List.zip_cons_cons, List.filter_cons]
      by_cases hr : r = l
      · simp only [hr, beq_self_eq_true, if_true, List.map_cons, h0, Option.getD_some]
        rw [← iht]
      · have : (r == l) = false := by simpa using hr
        simp only [this, Bool.false_eq_true, if_false]
        exact iht

theorem zip_self (ref : List Nat) : ref.zip ref = ref.map fun x => (x, x) := by
  induction ref with
  | nil => rfl
  | cons x t ih => simp [ih]

theorem lookupCount_of_mem {u : List (Nat × Nat)} (h : KeysAsc u) {p : Nat × Nat} (hp : p ∈ u) :
    lookupCount u p.1 = p.2 := by
  induction u with
  | nil => cases hp
  | cons q t ih =>
    have ht := (List.pairwise_cons.1 h).2
    have hq := (List.pairwise_cons.1 h).1
    rcases List.mem_cons.1 hp with rfl | hp'
    · simp [lookupCount]
    · have hne : (q.1 == p.1) = false := by
        have := hq p hp'
        simp only [beq_eq_false_iff_ne, ne_eq]; omega
      have := ih ht hp'
      simp only [lookupCount, List.find?_cons, hne] at this ⊢
      exact this

/-- `ref[np.argsort(ref)]` = the block-sorted array -/
theorem take_ref_argsort (ref : List Nat) : take ref (argsort ref) = .ok (sortedOf (Hierarchy.uniqueCounts ref)) := by
  unfold take
  rw [mapM_ok_of_forall (getItem ref) (fun i => (ref[i]?).getD 0)]
  · congr 1
    rw [argsort_eq, List.map_flatMap, sortedOf, List.flatMap_map]
    apply List.flatMap_congr
    intro p hp
    have hb : (blk ref p.1).map (fun i => (ref[i]?).getD 0) = ((ref.zip ref).filter fun q => q.1 == p.1).map (·.2) := by
      have := gather_blk p.1 ref ref 0 ref (fun i => by simp) (Nat.le_refl _)
      simpa [blk, Function.comp_def] using this
    rw [hb, zip_self, List.filter_map, List.map_map]
    have hc : p.2 = ref.count p.1 := by
      rw [← lookupCount_of_mem (keysAsc_uniqueCounts ref) hp, lookupCount_uniqueCounts]; rfl
    rw [hc, ← List.filter_beq]
    simp [Function.comp_def]
  · intro i hi
    have := mem_argsort.1 hi
    rw [getItem_lt _ _ this]
    simp [this]

/-- `est[np.argsort(ref)]` = the estimate scores grouped by ascending reference level -/
theorem take_est_argsort (ref est : List Nat) (h : ref.length ≤ est.length) :
    take est (argsort ref) = .ok (((Hierarchy.uniqueCounts ref).map (·.1)).flatMap (estAt ref est)) := by
  unfold take
  rw [mapM_ok_of_forall (getItem est) (fun i => (est[i]?).getD 0)]
  · congr 1
    rw [argsort_eq, List.map_flatMap]
    apply List.flatMap_congr
    intro l _
    have := gather_blk l ref est 0 est (fun i => by simp) h
    simpa [blk, estAt, Function.comp_def] using this
  · intro i hi
    have : i < est.length := Nat.lt_of_lt_of_le (mem_argsort.1 hi) h
    rw [getItem_lt _ _ this]
    simp [this]

theorem take_error (x : List Nat) : ∀ (idx : List Nat), (∃ i ∈ idx, x.length ≤ i) → take x idx = .error .indexError := by
  intro idx
  induction idx with
  | nil => rintro ⟨i, hi, _⟩; cases hi
  | cons j t ih =>
    intro h
    unfold take at ih ⊢
    rw [List.mapM_cons]
    by_cases hj : j < x.length
    · rw [getItem_lt _ _ hj]
      have : ∃ i ∈ t, x.length ≤ i := by
        obtain ⟨i, hi, hle⟩ := h
        rcases List.mem_cons.1 hi with rfl | hi
        · omega
        · exact ⟨i, hi, hle⟩
      rw [ih this]; rfl
    · rw [getItem_ge _ _ (by omega)]; rfl

/-- a shorter estimate: `est[idx]` raises -/
theorem take_est_short (ref est : List Nat) (h : est.length < ref.length) :
    take est (argsort ref) = .error .indexError :=
  take_error est _ ⟨est.length, mem_argsort.2 h, Nat.le_refl _⟩

/-! ### default dictionaries and slices of the grouped array -/

theorem dictGetD_of_mem {V : Type} {d : DDict V} (hd : d.Pairwise fun p q => p.1 ≠ q.1) {k : Nat} {v : V}
    (h : (k, v) ∈ d) (dflt : V) : dictGetD d k dflt = v := by
  induction d with
  | nil => cases h
  | cons q t ih =>
    have ht := (List.pairwise_cons.1 hd).2
    have hq := (List.pairwise_cons.1 hd).1
    rcases List.mem_cons.1 h with rfl | h'
    · simp [dictGetD]
    · have hne : (q.1 == k) = false := by
        have := hq (k, v) h'
        simpa using this
      have := ih ht h'
      simp only [dictGetD, List.find?_cons, hne] at this ⊢
      exact this

theorem dictGetD_of_not_mem {V : Type} {d : DDict V} {k : Nat} (h : ∀ p ∈ d, p.1 ≠ k) (dflt : V) :
    dictGetD d k dflt = dflt := by
  unfold dictGetD
  rw [List.find?_eq_none.2 (by intro p hp; simpa using h p hp)]

/-- the grouped array: one block per level -/
def blocks (g : Nat → List Nat) (u : List (Nat × Nat)) : List Nat := u.flatMap fun p => g p.1

theorem getSlice_blocks (g : Nat → List Nat) : ∀ (u : List (Nat × Nat)), (∀ p ∈ u, (g p.1).length = p.2) →
    ∀ (pre : List Nat) (x : Nat × Nat × Nat × Nat), x ∈ offs pre.length u →
      getSlice (pre ++ blocks g u) (x.2.2.1, x.2.2.2) = g x.1 := by
  intro u
  induction u with
  | nil => intro _ pre x hx; cases hx
  | cons q t ih =>
    obtain ⟨l, c⟩ := q
    intro hg pre x hx
    have hl : (g l).length = c := hg (l, c) List.mem_cons_self
    have hb : blocks g ((l, c) :: t) = g l ++ blocks g t := by simp [blocks, List.flatMap_cons]
    simp only [offs] at hx
    rcases List.mem_cons.1 hx with rfl | hx'
    · simp only [getSlice, pySlice, hb]
      rw [List.drop_left, Nat.add_sub_cancel_left, ← hl, List.take_left]
    · have := ih (fun p hp => hg p (List.mem_cons_of_mem _ hp)) (pre ++ g l) x (by
        simpa [hl] using hx')
      rw [hb, ← List.append_assoc]
      exact this

theorem offs_pairs (s : Nat) (u : List (Nat × Nat)) : (offs s u).map (fun x => (x.1, x.2.1)) = u := by
  induction u generalizing s with
  | nil => rfl
  | cons q t ih => obtain ⟨l, c⟩ := q; simp [offs, ih]

theorem keys_ne_of_keysAsc {u : List (Nat × Nat)} (h : KeysAsc u) : u.Pairwise fun p q => p.1 ≠ q.1 :=
  List.Pairwise.imp (fun hlt => Nat.ne_of_lt hlt) h

theorem lookupCount_of_not_mem {u : List (Nat × Nat)} {l : Nat} (h : ∀ p ∈ u, p.1 ≠ l) : lookupCount u l = 0 := by
  unfold lookupCount
  rw [List.find?_eq_none.2 (by intro p hp; simpa using h p hp)]

/-- the `ref_map` the translated loop builds (newest binding first) looks levels up like the model's `lookupCount` -/
theorem dictGetD_reverse_lookupCount {u : List (Nat × Nat)} (h : KeysAsc u) (l : Nat) :
    dictGetD (u.reverse : DDict Nat) l 0 = lookupCount u l := by
  by_cases hm : ∃ p ∈ u, p.1 = l
  · obtain ⟨p, hp, rfl⟩ := hm
    rw [lookupCount_of_mem h hp]
    apply dictGetD_of_mem
    · rw [List.pairwise_reverse]
      exact List.Pairwise.imp (fun hne => Ne.symm hne) (keys_ne_of_keysAsc h)
    · simpa using hp
  · have hn : ∀ p ∈ u, p.1 ≠ l := fun p hp e => hm ⟨p, hp, e⟩
    rw [lookupCount_of_not_mem hn, dictGetD_of_not_mem (by simpa using hn)]

theorem length_estAt (ref est : List Nat) (h : ref.length ≤ est.length) (l : Nat) :
    (estAt ref est l).length = lookupCount (Hierarchy.uniqueCounts ref) l := by
  rw [lookupCount_uniqueCounts]
  unfold estAt
  rw [List.length_map, ← List.countP_eq_length_filter]
  conv => rhs; rw [← List.map_fst_zip h]
  rw [List.countP_map]
  rfl

/-- slicing the grouped estimate scores with the `index` dictionary the translated loop builds gives the model's
    `estAt` for EVERY level (a level that does not occur hits the default `slice(0)`: the empty slice) -/
theorem getSlice_index (ref est : List Nat) (h : ref.length ≤ est.length) (l : Nat) :
    getSlice (((Hierarchy.uniqueCounts ref).map (·.1)).flatMap (estAt ref est))
      (dictGetD (((offs 0 (Hierarchy.uniqueCounts ref)).map fun x => (x.1, slice2 x.2.2.1 x.2.2.2)).reverse) l (slice1 0))
      = estAt ref est l := by
  have hk := keysAsc_uniqueCounts ref
  have hb : ((Hierarchy.uniqueCounts ref).map (·.1)).flatMap (estAt ref est)
      = [] ++ blocks (estAt ref est) (Hierarchy.uniqueCounts ref) := by
    simp [blocks, List.flatMap_map]
  by_cases hm : ∃ x ∈ offs 0 (Hierarchy.uniqueCounts ref), x.1 = l
  · obtain ⟨x, hx, rfl⟩ := hm
    rw [dictGetD_of_mem (v := slice2 x.2.2.1 x.2.2.2)]
    · rw [hb]
      exact getSlice_blocks (estAt ref est) _ (fun p hp => by
        rw [length_estAt ref est h, lookupCount_of_mem hk hp]) [] x hx
    · rw [List.pairwise_reverse, List.pairwise_map]
      have := keys_ne_of_keysAsc hk
      rw [← offs_pairs 0 (Hierarchy.uniqueCounts ref), List.pairwise_map] at this
      exact List.Pairwise.imp (fun hne => Ne.symm hne) this
    · simp only [List.mem_reverse, List.mem_map]
      exact ⟨x, hx, rfl⟩
  · have hn : ∀ p ∈ Hierarchy.uniqueCounts ref, p.1 ≠ l := by
      intro p hp e
      have : p.1 ∈ (offs 0 (Hierarchy.uniqueCounts ref)).map (·.1) := by
        rw [offs_levels]; exact List.mem_map_of_mem hp
      obtain ⟨x, hx, hx1⟩ := List.mem_map.1 this
      exact hm ⟨x, hx, hx1.trans e⟩
    rw [dictGetD_of_not_mem]
    · have hl : l ∉ ref := by
        intro hl
        obtain ⟨p, hp, e⟩ := List.mem_map.1 (mem_keys_uniqueCounts hl)
        exact hn p hp e
      have : estAt ref est l = [] := by
        unfold estAt
        rw [List.map_eq_nil_iff, List.filter_eq_nil_iff]
        intro p hp
        have := mem_zip_fst hp
        simp only [beq_iff_eq]
        intro e; exact hl (e ▸ this)
      rw [this]
      simp [getSlice, slice1, pySlice]
    · intro p hp
      simp only [List.mem_reverse, List.mem_map] at hp
      obtain ⟨x, hx, rfl⟩ := hp
      intro e
      exact hm ⟨x, hx, e⟩

/-! ### `_gauc`: the accumulators of the query loop -/

/-- `num_frames`, `score` after the queries with the given `(inversions, normalizer)` terms -/
def accTerms (terms : List (Nat × Nat)) (nf : Nat) (sc : Rat) : Nat × Rat :=
  (nf + (terms.filter fun t => t.2 ≠ 0).length,
   sc + ((terms.filter fun t => t.2 ≠ 0).map fun t => 1 - (t.1 : Rat) / (t.2 : Rat)).sum)

theorem accTerms_cons_pos (t : Nat × Nat) (terms : List (Nat × Nat)) (nf : Nat) (sc : Rat) (h : t.2 ≠ 0) :
    accTerms (t :: terms) nf sc = accTerms terms (nf + 1) (sc + (1 - (t.1 : Rat) / (t.2 : Rat))) := by
  simp only [accTerms, List.filter_cons, h, ne_eq, not_false_eq_true, decide_true, if_true, List.length_cons,
    List.map_cons, List.sum_cons]
  refine Prod.ext ?_ ?_
  · simp only; omega
  · simp only; ring

theorem accTerms_cons_zero (t : Nat × Nat) (terms : List (Nat × Nat)) (nf : Nat) (sc : Rat) (h : t.2 = 0) :
    accTerms (t :: terms) nf sc = accTerms terms nf sc := by
  simp [accTerms, List.filter_cons, h]

theorem divF_ne {a b : Rat} (h : b ≠ 0) : divF a b = .ok (a / b) := by unfold divF; rw [if_neg h]

/-! ### `_round`, frame indices, `_hierarchy_bounds` -/

theorem pyInt_intCast (k : Int) : pyInt (k : Rat) = k := by
  unfold pyInt
  split
  · exact Rat.floor_intCast k
  · have : (-(k : Rat)) = ((-k : Int) : Rat) := by push_cast; ring
    rw [this, Rat.floor_intCast]; omega

/-- `int((t - np.mod(t, fs)) / fs)` is the model's frame index `⌊t / fs⌋` for `fs > 0` -/
theorem pyInt_round_div (t fs : Rat) (h : 0 < fs) : pyInt ((t - npMod t fs) / fs) = frameOf t fs := by
  have hne : fs ≠ 0 := ne_of_gt h
  have : (t - npMod t fs) / fs = (((t / fs).floor : Int) : Rat) := by
    unfold npMod
    field_simp
    ring
  rw [this, pyInt_intCast]; rfl

theorem round_sub_div (a b fs : Rat) (h : 0 < fs) :
    pyInt (((a - npMod a fs) - (b - npMod b fs)) / fs) = frameOf a fs - frameOf b fs := by
  have hne : fs ≠ 0 := ne_of_gt h
  have : ((a - npMod a fs) - (b - npMod b fs)) / fs = (((frameOf a fs - frameOf b fs : Int)) : Rat) := by
    unfold npMod frameOf
    push_cast
    field_simp
    ring
  rw [this, pyInt_intCast]

theorem frames_of_round (ivs : Ivals) (fs : Rat) (h : 0 < fs) :
    mapIvals pyInt (mapIvals (fun v => v / fs) (subIvals ivs (mapIvals (fun v => npMod v fs) ivs)))
      = ivs.map fun p => (frameOf p.1 fs, frameOf p.2 fs) := by
  unfold mapIvals subIvals
  rw [List.zipWith_map_right, List.zipWith_self, List.map_map, List.map_map]
  apply List.map_congr_left
  intro p _
  simp only [Function.comp, pyInt_round_div _ _ h]

theorem foldl_min_le (l : List Rat) (x : Rat) : l.foldl min x ≤ x := by
  induction l generalizing x with
  | nil => exact le_refl _
  | cons y t ih => exact le_trans (ih (min x y)) (min_le_left _ _)

theorem le_foldl_max (l : List Rat) (x : Rat) : x ≤ l.foldl max x := by
  induction l generalizing x with
  | nil => exact le_refl _
  | cons y t ih => exact le_trans (le_max_left _ _) (ih (max x y))

theorem min?_le_max? {l : List Rat} {a b : Rat} (ha : l.min? = some a) (hb : l.max? = some b) : a ≤ b := by
  cases l with
  | nil => cases ha
  | cons x t =>
    simp only [List.min?_cons', List.max?_cons', Option.some.injEq] at ha hb
    subst ha; subst hb
    exact le_trans (foldl_min_le t x) (le_foldl_max t x)

theorem length_setBlock (m : Mat) (r0 r1 c0 c1 v : Nat) : (Hierarchy.setBlock m r0 r1 c0 c1 v).length = m.length := by
  simp [Hierarchy.setBlock]

theorem length_lcaLevel (fs : Rat) (n : Nat) (level : Nat) (ivs : Ivals) (m : Mat) :
    (lcaLevel fs n m level ivs).length = m.length := by
  unfold lcaLevel
  induction ivs generalizing m with
  | nil => rfl
  | cons iv t ih => rw [List.foldl_cons, ih, length_setBlock]

theorem length_zeros (n : Nat) : (zeros n).length = n := by simp [zeros]

/-! ### `_meet`: label agreements by index -/

/-- the frame slice of segment `i` (by index) -/
def segAt (nf : List (Nat × Nat)) (i : Nat) : Nat × Nat := (nf[i]?).getD (0, 0)

theorem length_meetStep (level : Nat) (m : Mat) (pq : ((Nat × Nat) × Nat) × ((Nat × Nat) × Nat)) :
    (meetStep level m pq).length = m.length := by
  unfold meetStep
  simp only
  split <;> simp [length_setBlock]

theorem length_foldl_meetStep {α : Type} (level : Nat) (f : α → ((Nat × Nat) × Nat) × ((Nat × Nat) × Nat)) (l : List α) (m : Mat) :
    (l.foldl (fun m x => meetStep level m (f x)) m).length = m.length := by
  induction l generalizing m with
  | nil => rfl
  | cons x t ih => rw [List.foldl_cons, ih, length_meetStep]

theorem mem_triuAgree {keys : List String} {i j : Nat} (h : (i, j) ∈ triuAgree keys) :
    i < keys.length ∧ j < keys.length := by
  unfold triuAgree at h
  simp only [List.mem_flatMap, List.mem_map, List.mem_filter, Prod.mk.injEq] at h
  obtain ⟨x, hx, y, ⟨hy, _⟩, rfl, rfl⟩ := h
  have h1 := List.mem_zipIdx_iff_getElem?.1 hx
  have h2 := List.mem_zipIdx_iff_getElem?.1 hy
  exact ⟨(List.getElem?_eq_some_iff.1 h1).1, (List.getElem?_eq_some_iff.1 h2).1⟩

theorem mem_triuAgree_diag (keys : List String) (k : Nat) (hk : k < keys.length) : (k, k) ∈ triuAgree keys := by
  unfold triuAgree
  simp only [List.mem_flatMap, List.mem_map, List.mem_filter, Prod.mk.injEq]
  have hm : (keys[k], k) ∈ keys.zipIdx := List.mem_zipIdx_iff_getElem?.2 (List.getElem?_eq_getElem hk)
  exact ⟨(keys[k], k), hm, (keys[k], k), ⟨hm, by simp⟩, rfl, rfl⟩

/-- the model's agreeing segment pairs = the index pairs of the translated code, with the frame slices looked up by index -/
theorem agreePairs_eq_triuAgree (keys : List String) (nf : List (Nat × Nat)) (h : keys.length ≤ nf.length) :
    agreePairs (keys.zip nf) = (triuAgree keys).map fun ij => ((segAt nf ij.1, ij.1), (segAt nf ij.2, ij.2)) := by
  have hk : keys.zipIdx = ((keys.zip nf).zipIdx).map (Prod.map Prod.fst id) := by
    conv => lhs; rw [← List.map_fst_zip h]
    rw [List.zipIdx_map]
  have hseg : ∀ x ∈ (keys.zip nf).zipIdx, x.1.2 = segAt nf x.2 := by
    intro x hx
    have h1 := List.mem_zipIdx_iff_getElem?.1 hx
    have h2 := (List.getElem?_zip_eq_some.1 h1).2
    unfold segAt; rw [h2]; rfl
  unfold agreePairs triuAgree
  rw [hk]
  simp only [List.flatMap_map, List.map_flatMap, List.filter_map, List.map_map]
  apply List.flatMap_congr
  intro x hx
  apply List.map_congr_left
  intro y hy
  have hy' := (List.mem_filter.1 hy).1
  simp only [Function.comp, Prod.map, id, hseg x hx, hseg y hy']

end Mir.PyH
