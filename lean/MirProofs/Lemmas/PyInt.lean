import MirModel.PyInt
import MirProofs.Lemmas.Intervals
import MirProofs.Lemmas.Segment
import Mathlib.Data.List.Lex
import Mathlib.Data.Char

/-! Lemmas about the run-time library `MirModel/PyInt.lean` (`Mir.PyI`): each primitive in the terms the hand-written
    model `MirModel/Intervals.lean` uses (`dropWhile` / `takeWhile`, `getLast?`, `pairs`, `mergeSort`). -/
namespace Mir.PyI
open Mir Mir.Iv

variable {α β : Type}

/-! ### `np.argwhere` of a mask computed from a list -/

theorem argwhereFrom_nil_of (q : α → Bool) (xs : List α) (i : Nat)
    (h : xs.dropWhile (fun x => !q x) = []) : argwhereFrom i (xs.map q) = [] := by
  induction xs generalizing i with
  | nil => rfl
  | cons x r ih =>
    by_cases hx : q x = true
    · simp [List.dropWhile, hx] at h
    · simp only [Bool.not_eq_true] at hx
      simp [List.dropWhile, hx] at h
      simp [argwhereFrom, hx, ih _ h]

theorem argwhereFrom_cons_of (q : α → Bool) (xs : List α) (i : Nat) {k : α} {r : List α}
    (h : xs.dropWhile (fun x => !q x) = k :: r) :
    ∃ t, argwhereFrom i (xs.map q) = (i + (xs.takeWhile (fun x => !q x)).length) :: t := by
  induction xs generalizing i with
  | nil => simp at h
  | cons x r' ih =>
    by_cases hx : q x = true
    · exact ⟨argwhereFrom (i + 1) (r'.map q), by simp [argwhereFrom, hx, List.takeWhile]⟩
    · simp only [Bool.not_eq_true] at hx
      simp [List.dropWhile, hx] at h
      obtain ⟨t, ht⟩ := ih (i + 1) h
      refine ⟨t, ?_⟩
      simp [argwhereFrom, hx, List.takeWhile, ht]
      omega

theorem argwhere_nil_of (q : α → Bool) (xs : List α) (h : xs.dropWhile (fun x => !q x) = []) :
    argwhere (xs.map q) = [] := argwhereFrom_nil_of q xs 0 h

theorem argwhere_cons_of (q : α → Bool) (xs : List α) {k : α} {r : List α}
    (h : xs.dropWhile (fun x => !q x) = k :: r) :
    ∃ t, argwhere (xs.map q) = (xs.takeWhile (fun x => !q x)).length :: t := by
  obtain ⟨t, ht⟩ := argwhereFrom_cons_of q xs 0 h
  exact ⟨t, by simpa [argwhere] using ht⟩

theorem drop_length_takeWhile (p : α → Bool) (xs : List α) :
    xs.drop (xs.takeWhile p).length = xs.dropWhile p := by
  induction xs with
  | nil => rfl
  | cons x r ih => by_cases hx : p x = true <;> simp [List.takeWhile, List.dropWhile, hx, ih]

theorem take_length_takeWhile (p : α → Bool) (xs : List α) :
    xs.take (xs.takeWhile p).length = xs.takeWhile p := by
  induction xs with
  | nil => rfl
  | cons x r ih => by_cases hx : p x = true <;> simp [List.takeWhile, hx, ih]

theorem takeWhile_eq_self_of (p : α → Bool) (xs : List α) (h : xs.dropWhile p = []) : xs.takeWhile p = xs := by
  induction xs with
  | nil => rfl
  | cons x r ih =>
    by_cases hx : p x = true
    · simp [List.dropWhile, hx] at h; simp [List.takeWhile, hx, ih h]
    · simp [List.dropWhile, hx] at h

/-! ### the exception monad -/

@[simp] theorem ok_bind {γ δ : Type} (a : γ) (f : γ → Py δ) : (Except.ok a >>= f : Py δ) = f a := rfl

@[simp] theorem error_bind {γ δ : Type} (e : PyErr) (f : γ → Py δ) : (Except.error e >>= f : Py δ) = .error e := rfl

@[simp] theorem ok_map {γ δ : Type} (a : γ) (f : γ → δ) : (f <$> (Except.ok a : Py γ)) = .ok (f a) := rfl

theorem pure_eq_ok {γ : Type} (a : γ) : (pure a : Py γ) = Except.ok a := rfl

/-! ### items -/

@[simp] theorem item2_cons (n : Nat) (t : List Nat) : item2 (n :: t) 0 0 = .ok n := by
  simp [item2, getItem, normIndex]

@[simp] theorem getItem_zero_cons (x : α) (r : List α) : getItem (x :: r) 0 = .ok x := by
  simp [getItem, normIndex]

@[simp] theorem getItem_zero_nil : getItem ([] : List α) 0 = .error .indexError := by
  simp [getItem, normIndex]

theorem getItem_neg_one (l : List α) :
    getItem l (-1) = match l.getLast? with | some z => .ok z | none => .error .indexError := by
  cases l with
  | nil => simp [getItem, normIndex]
  | cons x r =>
    have h1 : (x :: r).length - 1 < (x :: r).length := by simp
    simp [getItem, normIndex, List.getLast?_eq_getElem?]

/-! ### `np.argsort` + fancy indexing = a stable sort of the rows -/

theorem mapM_ok_of {γ δ : Type} (g : γ → Py δ) (l : List α) (h : α → γ) (k : α → δ)
    (hk : ∀ p ∈ l, g (h p) = .ok (k p)) : (l.map h).mapM g = .ok (l.map k) := by
  induction l with
  | nil => rfl
  | cons p r ih =>
    have h1 := hk p (List.mem_cons_self ..)
    have h2 := ih fun q hq => hk q (List.mem_cons_of_mem _ hq)
    simp [List.mapM_cons, h1, h2, bind, Except.bind, pure, Except.pure]

theorem mapM_ok_inv {γ δ : Type} (f : γ → Py δ) (g : δ → γ) (hf : ∀ p r, f p = .ok r → g r = p) (P : List γ)
    {out : List δ} (h : P.mapM f = .ok out) : out.map g = P := by
  induction P generalizing out with
  | nil => simp [pure, Except.pure] at h; subst h; rfl
  | cons p P ih =>
    rw [List.mapM_cons] at h
    rcases hp : f p with _ | r
    · rw [hp] at h; cases h
    · rcases hm : P.mapM f with _ | o
      · rw [hp, hm] at h; cases h
      · rw [hp, hm] at h
        simp only [ok_bind, pure, Except.pure, Except.ok.injEq] at h
        subst h
        simp [hf p r hp, ih hm]

theorem takeIdx_argsort (xs : List α) (key : α → Rat) (f : α → β) :
    takeIdx (xs.map f) (argsort (xs.map key))
      = .ok ((xs.mergeSort fun a b => decide (key a ≤ key b)).map f) := by
  let S := xs.zipIdx.mergeSort fun a b => decide (key a.1 ≤ key b.1)
  have hA : argsort (xs.map key) = S.map (·.2) := by
    unfold argsort
    rw [List.zipIdx_map,
      ← List.map_mergeSort (r := fun a b => decide (key a.1 ≤ key b.1)) (f := Prod.map key id)
        (fun a _ b _ => rfl)]
    simp [S, List.map_map, Function.comp_def]
  have hB : S.map (·.1) = xs.mergeSort fun a b => decide (key a ≤ key b) := by
    show List.map (·.1) (xs.zipIdx.mergeSort _) = _
    have := List.map_mergeSort (r := fun (a b : α × Nat) => decide (key a.1 ≤ key b.1))
      (s := fun a b => decide (key a ≤ key b)) (f := fun p : α × Nat => p.1) (l := xs.zipIdx) (fun a _ b _ => rfl)
    rw [this]
    simp
  rw [hA, ← hB, List.map_map]
  unfold takeIdx
  apply mapM_ok_of
  intro p hp
  have hp' : p ∈ xs.zipIdx := List.mem_mergeSort.1 hp
  obtain ⟨x, i⟩ := p
  have := List.mem_zipIdx hp'
  simp only [Nat.zero_le, Nat.zero_add, Nat.sub_zero, true_and] at this
  obtain ⟨hi, hx⟩ := this
  simp [getNat, hi, hx]

/-! ### slices, `x[a:b] = [v] * (b - a)`, the sortedness test -/

theorem sliceFrom_one (bs : List α) : sliceFrom bs 1 = bs.tail := by
  cases bs with
  | nil => rfl
  | cons x r => simp [sliceFrom, clipIndex]

theorem sliceTo_neg_one (bs : List α) : sliceTo bs (-1) = bs.dropLast := by
  simp [sliceTo, clipIndex, List.dropLast_eq_take]

theorem sliceAssign_replicate (acc : List α) (a b : Nat) (v : α) (ha : a ≤ acc.length) (hb : b ≤ acc.length) :
    PyI.sliceAssign acc a b (List.replicate (Int.toNat ((b : Int) - (a : Int))) v) = Iv.sliceAssign acc a b v := by
  apply List.ext_getElem?
  intro j
  have hn : Int.toNat ((b : Int) - (a : Int)) = b - a := by omega
  simp only [PyI.sliceAssign, Iv.sliceAssign, hn, Nat.min_eq_left ha, Nat.min_eq_left hb, List.getElem?_mapIdx]
  by_cases h1 : j < a
  · have : ¬ (a ≤ j ∧ j < b) := by omega
    simp [List.getElem?_append, List.getElem?_take, h1, this, List.length_take, Nat.min_eq_left ha]
  · by_cases h2 : j < b
    · have h3 : a ≤ j ∧ j < b := ⟨by omega, h2⟩
      have h4 : j - a < b - a := by omega
      have h5 : j < acc.length := by omega
      simp [List.getElem?_append, List.getElem?_take, h1, h3, h4, List.length_take, Nat.min_eq_left ha,
        List.getElem?_replicate, h5]
    · have h3 : ¬ (a ≤ j ∧ j < b) := by omega
      have h4 : ¬ j - a < b - a := by omega
      simp [List.getElem?_append, List.getElem?_take, h1, h3, h4, List.length_take, Nat.min_eq_left ha,
        List.getElem?_replicate, List.getElem?_drop]
      have : max a b + (j - a - (b - a)) = j := by omega
      rw [this]

theorem length_iv_sliceAssign (acc : List α) (a b : Nat) (v : α) : (Iv.sliceAssign acc a b v).length = acc.length := by
  simp [Iv.sliceAssign]

theorem anyB_unsorted (t : List Rat) :
    anyB (List.zipWith (fun a b => decide (a < b)) (sliceFrom t 1) (sliceTo t (-1))) = !isNondecreasing t := by
  rw [sliceFrom_one, sliceTo_neg_one]
  induction t with
  | nil => rfl
  | cons a r ih =>
    cases r with
    | nil => rfl
    | cons b r' =>
      simp only [List.tail_cons, anyB] at ih ⊢
      rw [List.dropLast_cons₂, List.zipWith_cons_cons, List.any_cons, ih, isNondecreasing]
      by_cases h : a ≤ b
      · simp [h, not_lt.2 h]
      · simp [h, not_le.1 h]

/-! ### `labels[range[t >= starts][-1]]` = the label of the last row that has started -/

section lastStarted
variable {L : Type}

/-- the positions selected by the mask `t >= starts`, counted from `s` -/
def selFrom (t : Rat) (s : Nat) (x : LI L) : List Nat :=
  (((List.range' s x.length).zip (x.map fun r => decide (t ≥ r.1))).filter (·.2)).map (·.1)

theorem selFrom_cons (t : Rat) (s : Nat) (r0 : Rat × Rat × L) (x : LI L) :
    selFrom t s (r0 :: x) = if t ≥ r0.1 then s :: selFrom t (s + 1) x else selFrom t (s + 1) x := by
  by_cases h : t ≥ r0.1 <;> simp [selFrom, List.range'_succ, List.filter_cons, h]

theorem selFrom_spec (t : Rat) (x : LI L) (s : Nat) :
    match (selFrom t s x).getLast? with
    | none => lastStarted x t = none
    | some n => s ≤ n ∧ ∃ r, x[n - s]? = some r ∧ lastStarted x t = some r.2.2 := by
  induction x generalizing s with
  | nil => simp [selFrom, lastStarted]
  | cons r0 x ih =>
    have := ih (s + 1)
    rw [selFrom_cons]
    by_cases h : t ≥ r0.1
    · simp only [h, if_true, List.getLast?_cons]
      rcases hl : (selFrom t (s + 1) x).getLast? with _ | n
      · rw [hl] at this
        simp only [Option.getD_none]
        refine ⟨Nat.le_refl _, r0, by simp, ?_⟩
        simp [lastStarted, this, ge_iff_le.1 h]
      · rw [hl] at this
        obtain ⟨hn, r, hr, hls⟩ := this
        simp only [Option.getD_some]
        refine ⟨by omega, r, ?_, by simp [lastStarted, hls]⟩
        have : n - s = (n - (s + 1)) + 1 := by omega
        rw [this, List.getElem?_cons_succ]; exact hr
    · simp only [h, if_false]
      rcases hl : (selFrom t (s + 1) x).getLast? with _ | n
      · rw [hl] at this
        have h' : ¬ r0.1 ≤ t := h
        simp [lastStarted, this, h']
      · rw [hl] at this
        obtain ⟨hn, r, hr, hls⟩ := this
        refine ⟨by omega, r, ?_, by simp [lastStarted, hls]⟩
        have : n - s = (n - (s + 1)) + 1 := by omega
        rw [this, List.getElem?_cons_succ]; exact hr

theorem maskSelect_arange (t : Rat) (x : LI L) :
    maskSelect (arange (len (x.map fun r => r.2.2))) (List.map (fun v => decide (t ≥ v)) (col0 (ivals x)))
      = .ok (selFrom t 0 x) := by
  simp [maskSelect, arange, len, col0, ivals, selFrom, List.range_eq_range', List.map_map, Function.comp_def]

/-- the three steps `idx = range[mask]`, `n = idx[-1]`, `labels[n]` when some row has started -/
theorem pick_some {t : Rat} {x : LI L} {l : L} (g : L → String) (h : lastStarted x t = some l) :
    ∃ n, getItem (selFrom t 0 x) (-1) = .ok n ∧ getNat (x.map fun r => g r.2.2) n = .ok (g l) := by
  have := selFrom_spec t x 0
  rcases hl : (selFrom t 0 x).getLast? with _ | n
  · rw [hl] at this; rw [this] at h; cases h
  · rw [hl] at this
    obtain ⟨_, r, hr, hls⟩ := this
    rw [hls] at h
    cases h
    refine ⟨n, by rw [getItem_neg_one, hl], ?_⟩
    simp only [Nat.sub_zero] at hr
    simp [getNat, hr]

theorem pick_none {t : Rat} {x : LI L} (h : lastStarted x t = none) :
    getItem (selFrom t 0 x) (-1) = .error .indexError := by
  have := selFrom_spec t x 0
  rcases hl : (selFrom t 0 x).getLast? with _ | n
  · rw [getItem_neg_one, hl]
  · rw [hl] at this
    obtain ⟨_, r, _, hls⟩ := this
    rw [hls] at h; cases h

end lastStarted

/-! ### `sorted(set(·))` on a linearly ordered type: strictly increasing, hence duplicate-free -/

section sortedUniqLO
open Mir.Segment
variable {γ : Type} [LinearOrder γ] [dl : DecidableRel (α := γ) (· < ·)] [de : DecidableEq γ]

theorem pairwise_insertUniq_lo {a : γ} {l : List γ} (h : l.Pairwise (· < ·)) :
    (@insertUniq γ _ dl de a l).Pairwise (· < ·) := by
  induction l with
  | nil => simp [insertUniq]
  | cons b l ih =>
    unfold insertUniq
    rw [List.pairwise_cons] at h
    split
    · rename_i hab
      rw [List.pairwise_cons]
      refine ⟨?_, List.pairwise_cons.2 h⟩
      intro x hx
      rcases List.mem_cons.1 hx with rfl | hx
      · exact hab
      · exact lt_trans hab (h.1 x hx)
    · split
      · exact List.pairwise_cons.2 h
      · rename_i h1 h2
        rw [List.pairwise_cons]
        refine ⟨?_, ih h.2⟩
        intro x hx
        rcases mem_insertUniq.1 hx with rfl | hx
        · exact lt_of_le_of_ne (not_lt.1 h1) (Ne.symm h2)
        · exact h.1 x hx

theorem nodup_sortedUniq_lo (l : List γ) : (@sortedUniq γ _ dl de l).Nodup := by
  have : (@sortedUniq γ _ dl de l).Pairwise (· < ·) := by
    induction l with
    | nil => simp [sortedUniq]
    | cons a l ih => exact pairwise_insertUniq_lo ih
  exact this.imp fun h => ne_of_lt h

end sortedUniqLO

theorem idxOf_map_inj {γ δ : Type} [BEq γ] [LawfulBEq γ] [BEq δ] [LawfulBEq δ] (f : γ → δ)
    (hf : Function.Injective f) (l : List γ) (a : γ) : (l.map f).idxOf (f a) = l.idxOf a := by
  induction l with
  | nil => rfl
  | cons b l ih =>
    by_cases h : b = a
    · subst h; simp [List.idxOf_cons]
    · have h' : f b ≠ f a := fun e => h (hf e)
      have e1 : (b == a) = false := by simpa using h
      have e2 : (f b == f a) = false := by simpa using h'
      simp [List.idxOf_cons, e1, e2, ih]

/-! ### boolean-mask selection, the overlap test, the span of a validated annotation -/

theorem maskSelect_map (xs : List α) (p : α → Bool) : maskSelect xs (xs.map p) = .ok (xs.filter p) := by
  have h : ∀ xs : List α, ((xs.zip (xs.map p)).filter (·.2)).map (·.1) = xs.filter p := by
    intro xs
    induction xs with
    | nil => rfl
    | cons x r ih => by_cases hx : p x = true <;> simp [List.filter_cons, hx, ih]
  simp [maskSelect, h]

theorem overlap_test (ref : Ivals) :
    (decide (len ref > 1) && anyB (List.zipWith (fun a b => decide (a > b)) (col1 (sliceTo ref (-1)))
        (col0 (sliceFrom ref 1)))) = overlaps ref := by
  rw [sliceFrom_one, sliceTo_neg_one]
  have h : ∀ ref : Ivals, anyB (List.zipWith (fun a b => decide (a > b)) (col1 ref.dropLast) (col0 ref.tail))
      = overlaps ref := by
    intro ref
    induction ref with
    | nil => rfl
    | cons a r ih =>
      cases r with
      | nil => rfl
      | cons b r' =>
        simp only [List.tail_cons, anyB, col0, col1] at ih ⊢
        rw [List.dropLast_cons₂, List.map_cons, List.map_cons, List.zipWith_cons_cons, List.any_cons, ih, overlaps]
        simp
  rw [h]
  rcases ref with _ | ⟨a, _ | ⟨b, r⟩⟩ <;> simp [len, overlaps]

theorem validate_pos {iv : Ivals} (h : validateIntervals iv = .ok ()) : ∀ x ∈ iv, x.1 < x.2 := by
  intro x hx
  unfold validateIntervals at h
  split at h
  · cases h
  · split at h
    · cases h
    · rename_i _ h2
      by_contra hc
      exact h2 (List.any_eq_true.2 ⟨x, hx, by simpa using not_lt.1 hc⟩)

theorem span_pos {ref : Ivals} (hv : ∀ x ∈ ref, x.1 < x.2) (ho : overlaps ref = false) {a z : Rat × Rat}
    (ha : ref.head? = some a) (hz : ref.getLast? = some z) : a.1 < z.2 := by
  induction ref generalizing a with
  | nil => cases ha
  | cons x r ih =>
    cases ha
    cases r with
    | nil => simp at hz; subst hz; exact hv _ (List.mem_cons_self ..)
    | cons b r' =>
      simp only [overlaps, Bool.or_eq_false_iff, decide_eq_false_iff_not, not_lt] at ho
      have hz' : (b :: r').getLast? = some z := by simpa [List.getLast?_cons_cons] using hz
      have := ih (fun y hy => hv y (List.mem_cons_of_mem _ hy)) ho.2 rfl hz'
      have hx := hv x (List.mem_cons_self ..)
      linarith [ho.1]

end Mir.PyI
