import MirModel.PyInt
import MirProofs.Lemmas.Intervals

/-! Lemmas about the run-time library `MirModel/PyInt.lean` (`Mir.PyI`): each primitive in the terms the hand-written
    model `MirModel/Intervals.lean` uses (`dropWhile` / `takeWhile`, `getLast?`, `pairs`, `mergeSort`). -/
namespace Mir.PyI
open Mir Mir.Iv

variable {α β : Type}

/-! ### `np.argwhere` of a mask computed from a list -/

theorem argwhereFrom_nil_of (q : α → Bool) (xs : List α) (i : Nat)
    (h : xs.dropWhile (fun x => !q x) = []) : argwhereFrom i (xs.map q) = [] := by
  induction xs generalizing i with
  | nil => rfl
  | cons x r ih =>
    by_cases hx : q x = true
    · simp [List.dropWhile, hx] at h
    · simp only [Bool.not_eq_true] at hx
      simp [List.dropWhile, hx] at h
      simp [argwhereFrom, hx, ih _ h]

theorem argwhereFrom_cons_of (q : α → Bool) (xs : List α) (i : Nat) {k : α} {r : List α}
    (h : xs.dropWhile (fun x => !q x) = k :: r) :
    ∃ t, argwhereFrom i (xs.map q) = (i + (xs.takeWhile (fun x => !q x)).length) :: t := by
  induction xs generalizing i with
  | nil => simp at h
  | cons x r' ih =>
    by_cases hx : q x = true
    · exact ⟨argwhereFrom (i + 1) (r'.map q), by simp [argwhereFrom, hx, List.takeWhile]⟩
    · simp only [Bool.not_eq_true] at hx
      simp [List.dropWhile, hx] at h
      obtain ⟨t, ht⟩ := ih (i + 1) h
      refine ⟨t, ?_⟩
      simp [argwhereFrom, hx, List.takeWhile, ht]
      omega

theorem argwhere_nil_of (q : α → Bool) (xs : List α) (h : xs.dropWhile (fun x => !q x) = []) :
    argwhere (xs.map q) = [] := argwhereFrom_nil_of q xs 0 h

theorem argwhere_cons_of (q : α → Bool) (xs : List α) {k : α} {r : List α}
    (h : xs.dropWhile (fun x => !q x) = k :: r) :
    ∃ t, argwhere (xs.map q) = (xs.takeWhile (fun x => !q x)).length :: t := by
  obtain ⟨t, ht⟩ := argwhereFrom_cons_of q xs 0 h
  exact ⟨t, by simpa [argwhere] using ht⟩

theorem drop_length_takeWhile (p : α → Bool) (xs : List α) :
    xs.drop (xs.takeWhile p).length = xs.dropWhile p := by
  induction xs with
  | nil => rfl
  | cons x r ih => by_cases hx : p x = true <;> simp [List.takeWhile, List.dropWhile, hx, ih]

theorem take_length_takeWhile (p : α → Bool) (xs : List α) :
    xs.take (xs.takeWhile p).length = xs.takeWhile p := by
  induction xs with
  | nil => rfl
  | cons x r ih => by_cases hx : p x = true <;> simp [List.takeWhile, hx, ih]

theorem takeWhile_eq_self_of (p : α → Bool) (xs : List α) (h : xs.dropWhile p = []) : xs.takeWhile p = xs := by
  induction xs with
  | nil => rfl
  | cons x r ih =>
    by_cases hx : p x = true
    · simp [List.dropWhile, hx] at h; simp [List.takeWhile, hx, ih h]
    · simp [List.dropWhile, hx] at h

/-! ### the exception monad -/

@[simp] theorem ok_bind {γ δ : Type} (a : γ) (f : γ → Py δ) : (Except.ok a >>= f : Py δ) = f a := rfl

@[simp] theorem error_bind {γ δ : Type} (e : PyErr) (f : γ → Py δ) : (Except.error e >>= f : Py δ) = .error e := rfl

@[simp] theorem ok_map {γ δ : Type} (a : γ) (f : γ → δ) : (f <$> (Except.ok a : Py γ)) = .ok (f a) := rfl

theorem pure_eq_ok {γ : Type} (a : γ) : (pure a : Py γ) = Except.ok a := rfl

/-! ### items -/

@[simp] theorem item2_cons (n : Nat) (t : List Nat) : item2 (n :: t) 0 0 = .ok n := by
  simp [item2, getItem, normIndex]

@[simp] theorem getItem_zero_cons (x : α) (r : List α) : getItem (x :: r) 0 = .ok x := by
  simp [getItem, normIndex]

@[simp] theorem getItem_zero_nil : getItem ([] : List α) 0 = .error .indexError := by
  simp [getItem, normIndex]

theorem getItem_neg_one (l : List α) :
    getItem l (-1) = match l.getLast? with | some z => .ok z | none => .error .indexError := by
  cases l with
  | nil => simp [getItem, normIndex]
  | cons x r =>
    have h1 : (x :: r).length - 1 < (x :: r).length := by simp
    simp [getItem, normIndex, List.getLast?_eq_getElem?]

/-! ### `np.argsort` + fancy indexing = a stable sort of the rows -/

theorem mapM_ok_of {γ δ : Type} (g : γ → Py δ) (l : List α) (h : α → γ) (k : α → δ)
    (hk : ∀ p ∈ l, g (h p) = .ok (k p)) : (l.map h).mapM g = .ok (l.map k) := by
  induction l with
  | nil => rfl
  | cons p r ih =>
    have h1 := hk p (List.mem_cons_self ..)
    have h2 := ih fun q hq => hk q (List.mem_cons_of_mem _ hq)
    simp [List.mapM_cons, h1, h2, bind, Except.bind, pure, Except.pure]

theorem takeIdx_argsort (xs : List α) (key : α → Rat) (f : α → β) :
    takeIdx (xs.map f) (argsort (xs.map key))
      = .ok ((xs.mergeSort fun a b => decide (key a ≤ key b)).map f) := by
  let S := xs.zipIdx.mergeSort fun a b => decide (key a.1 ≤ key b.1)
  have hA : argsort (xs.map key) = S.map (·.2) := by
    unfold argsort
    rw [List.zipIdx_map,
      ← List.map_mergeSort (r := fun a b => decide (key a.1 ≤ key b.1)) (f := Prod.map key id)
        (fun a _ b _ => rfl)]
    simp [S, List.map_map, Function.comp_def]
  have hB : S.map (·.1) = xs.mergeSort fun a b => decide (key a ≤ key b) := by
    show List.map (·.1) (xs.zipIdx.mergeSort _) = _
    have := List.map_mergeSort (r := fun (a b : α × Nat) => decide (key a.1 ≤ key b.1))
      (s := fun a b => decide (key a ≤ key b)) (f := fun p : α × Nat => p.1) (l := xs.zipIdx) (fun a _ b _ => rfl)
    rw [this]
    simp
  rw [hA, ← hB, List.map_map]
  unfold takeIdx
  apply mapM_ok_of
  intro p hp
  have hp' : p ∈ xs.zipIdx := List.mem_mergeSort.1 hp
  obtain ⟨x, i⟩ := p
  have := List.mem_zipIdx hp'
  simp only [Nat.zero_le, Nat.zero_add, Nat.sub_zero, true_and] at this
  obtain ⟨hi, hx⟩ := this
  simp [getNat, hi, hx]

end Mir.PyI
