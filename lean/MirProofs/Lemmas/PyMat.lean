import MirModel.PyMat
import MirProofs.Lemmas.Segment
import MirProofs.Lemmas.PyScalar
/-
  Lemmas about the run-time library of the generated clustering-index definitions (`Mir.PyM`,
  lean/MirModel/PyMat.lean): every primitive in the hand model's terms, used by the `Mir.Gen.segment.<f> = <hand model>`
  theorems of `Props/C16_GenIndex.lean`.
-/
namespace Mir.PyM
open Mir Mir.Segment

/-! ### boolean matrices -/

@[simp] theorem equalOuter_self (y : List Nat) : equalOuter y y = eqMat y := rfl
@[simp] theorem logicalNot_eq (A : List (List Bool)) : logicalNot A = matNot A := rfl
@[simp] theorem sumBool_eq (A : List (List Bool)) : sumBool A = matSum A := rfl
@[simp] theorem len_eq {α : Type} (xs : List α) : len xs = xs.length := rfl
@[simp] theorem shape0_eq {α : Type} (xs : List α) : shape0 xs = xs.length := rfl
@[simp] theorem divNp_eq (a b : ℚ) : divNp a b = npDiv a b := rfl
@[simp] theorem f_measure_np_eq (p r : Num) (b : ℚ) : f_measure_np p r b = fMeasureNum p r b := rfl

theorem map_length_eqMat (y : List Nat) : (eqMat y).map List.length = List.replicate y.length y.length := by
  unfold eqMat
  rw [List.eq_replicate_iff]
  constructor
  · simp
  · intro b hb
    simp only [List.map_map, List.mem_map, Function.comp] at hb
    obtain ⟨a, _, rfl⟩ := hb
    simp

theorem sameShape_eqMat (yr ye : List Nat) : sameShape (eqMat yr) (eqMat ye) = decide (yr.length = ye.length) := by
  unfold sameShape
  rw [map_length_eqMat, map_length_eqMat]
  by_cases h : yr.length = ye.length
  · simp [h]
  · have : List.replicate yr.length yr.length ≠ List.replicate ye.length ye.length := by
      intro e
      have := congrArg List.length e
      simp at this
      exact h this
    simp [h, this]

theorem sameShape_matNot (A B : List (List Bool)) : sameShape (matNot A) (matNot B) = sameShape A B := by
  unfold sameShape matNot
  simp [List.map_map, Function.comp_def]

/-- `np.logical_and` of two agreement matrices: the hand model's `matAnd` under the hand model's length guard -/
theorem logicalAnd_eqMat (yr ye : List Nat) :
    logicalAnd (eqMat yr) (eqMat ye) =
      if yr.length = ye.length then .ok (matAnd (eqMat yr) (eqMat ye)) else .error .valueError := by
  unfold logicalAnd
  rw [sameShape_eqMat]
  by_cases h : yr.length = ye.length <;> simp [h, matAnd]

theorem logicalAnd_not_eqMat (yr ye : List Nat) :
    logicalAnd (matNot (eqMat yr)) (matNot (eqMat ye)) =
      if yr.length = ye.length then .ok (matAnd (matNot (eqMat yr)) (matNot (eqMat ye))) else .error .valueError := by
  unfold logicalAnd
  rw [sameShape_matNot, sameShape_eqMat]
  by_cases h : yr.length = ye.length <;> simp [h, matAnd]

theorem zipWith_not_or (r s : List Bool) :
    (List.zipWith (· || ·) r s).map not = List.zipWith (· && ·) (r.map not) (s.map not) := by
  induction r generalizing s with
  | nil => simp
  | cons a r ih =>
    cases s with
    | nil => simp
    | cons b s => simp [ih]

/-- De Morgan on matrices: `~(A | B) = ~A & ~B` -/
theorem matNot_zipWith_or (A B : List (List Bool)) :
    matNot (List.zipWith (List.zipWith (· || ·)) A B) = matAnd (matNot A) (matNot B) := by
  unfold matNot matAnd
  induction A generalizing B with
  | nil => simp
  | cons r A ih =>
    cases B with
    | nil => simp
    | cons s B =>
      simp only [List.zipWith_cons_cons, List.map_cons, List.cons.injEq]
      exact ⟨zipWith_not_or r s, ih B⟩

theorem logicalOr_eqMat (yr ye : List Nat) :
    logicalOr (eqMat yr) (eqMat ye) =
      if yr.length = ye.length then .ok (List.zipWith (List.zipWith (· || ·)) (eqMat yr) (eqMat ye))
      else .error .valueError := by
  unfold logicalOr
  rw [sameShape_eqMat]
  by_cases h : yr.length = ye.length <;> simp [h]

theorem matAnd_comm (A B : List (List Bool)) : matAnd A B = matAnd B A := by
  unfold matAnd
  induction A generalizing B with
  | nil => cases B <;> simp
  | cons r A ih =>
    cases B with
    | nil => simp
    | cons s B =>
      simp only [List.zipWith_cons_cons, List.cons.injEq]
      refine ⟨?_, ih B⟩
      induction r generalizing s with
      | nil => cases s <;> simp
      | cons a r ihr =>
        cases s with
        | nil => simp
        | cons b s => simp [Bool.and_comm, ihr]

/-! ### `np.unique(return_inverse=True)` + COO scatter = the hand model's contingency table -/

@[simp] theorem unique_eq (y : List Nat) : unique y = classes y := rfl

theorem map_range_eq_map {β : Type} (l : List Nat) (F G : Nat → β)
    (h : ∀ i (hi : i < l.length), F i = G l[i]) : (List.range l.length).map F = l.map G := by
  apply List.ext_getElem
  · simp
  · intro i h1 h2
    simp only [List.getElem_map, List.getElem_range]
    exact h i (by simpa using h2)

theorem idxOf_eq_iff {l : List Nat} (hn : l.Nodup) {x : Nat} (hx : x ∈ l) {i : Nat} (hi : i < l.length) :
    l.idxOf x = i ↔ x = l[i] := by
  constructor
  · intro h
    subst h
    exact (List.getElem_idxOf _).symm
  · intro h
    subst h
    exact List.Nodup.idxOf_getElem hn i hi

theorem coo_entry (cr ce : List Nat) (hr : cr.Nodup) (he : ce.Nodup) (i j : Nat) (hi : i < cr.length)
    (hj : j < ce.length) (yr ye : List Nat) (hmr : ∀ x ∈ yr, x ∈ cr) (hme : ∀ y ∈ ye, y ∈ ce) :
    ((((List.replicate yr.length 1).zip ((yr.map fun v => cr.idxOf v).zip (ye.map fun v => ce.idxOf v))).filter
        fun e => e.2.1 == i && e.2.2 == j).map fun e => e.1).sum =
      (yr.zip ye).countP fun p => p.1 == cr[i] && p.2 == ce[j] := by
  induction yr generalizing ye with
  | nil => simp
  | cons x yr ih =>
    cases ye with
    | nil => simp
    | cons y ye =>
      have hx : x ∈ cr := hmr x (by simp)
      have hy : y ∈ ce := hme y (by simp)
      have ih' := ih ye (fun a ha => hmr a (by simp [ha])) (fun a ha => hme a (by simp [ha]))
      have hc : (cr.idxOf x == i && ce.idxOf y == j) = (x == cr[i] && y == ce[j]) := by
        have h1 : (cr.idxOf x == i) = (x == cr[i]) := by
          rw [Bool.eq_iff_iff]; simp only [beq_iff_eq]; exact idxOf_eq_iff hr hx hi
        have h2 : (ce.idxOf y == j) = (y == ce[j]) := by
          rw [Bool.eq_iff_iff]; simp only [beq_iff_eq]; exact idxOf_eq_iff he hy hj
        rw [h1, h2]
      simp only [List.length_cons, List.replicate_succ, List.map_cons, List.zip_cons_cons, List.filter_cons,
        List.countP_cons, hc]
      by_cases hb : (x == cr[i] && y == ce[j]) = true
      · simp only [hb, if_true, List.map_cons, List.sum_cons, ih']
        omega
      · simp only [hb]
        exact ih'

/-- the COO scatter of ones at the `return_inverse` positions IS the hand model's `contingency` table (with the
    `ValueError` of `coo_matrix` when the two index arrays differ in length) -/
theorem cooToArray_contingency (yr ye : List Nat) :
    cooToArray (ones (yr.map fun v => (classes yr).idxOf v).length) (yr.map fun v => (classes yr).idxOf v)
        (ye.map fun v => (classes ye).idxOf v) (classes yr).length (classes ye).length =
      if yr.length ≠ ye.length then .error .valueError
      else .ok ⟨(classes yr).length, (classes ye).length, contingency yr ye⟩ := by
  unfold cooToArray ones
  by_cases h : yr.length = ye.length
  · have h1 : ¬ ((yr.map fun v => (classes yr).idxOf v).length ≠ (ye.map fun v => (classes ye).idxOf v).length ∨
        (List.replicate (yr.map fun v => (classes yr).idxOf v).length 1).length ≠
          (yr.map fun v => (classes yr).idxOf v).length) := by
      simp [h]
    have h2 : ¬ (((yr.map fun v => (classes yr).idxOf v).any fun i => decide ((classes yr).length ≤ i)) = true ∨
        ((ye.map fun v => (classes ye).idxOf v).any fun j => decide ((classes ye).length ≤ j)) = true) := by
      simp only [List.any_map, List.any_eq_true, Function.comp, decide_eq_true_eq, not_or, not_exists, not_and,
        not_le]
      exact ⟨fun x hx => List.idxOf_lt_length_of_mem (mem_classes.2 hx),
        fun x hx => List.idxOf_lt_length_of_mem (mem_classes.2 hx)⟩
    rw [if_neg h1, if_neg h2]
    simp only [h, ne_eq, not_true_eq_false, if_false, List.length_map]
    congr 2
    unfold contingency
    apply map_range_eq_map
    intro i hi
    apply map_range_eq_map
    intro j hj
    rw [← h]
    exact coo_entry (classes yr) (classes ye) (nodup_classes yr) (nodup_classes ye) i j hi hj yr ye
      (fun x hx => mem_classes.2 hx) (fun x hx => mem_classes.2 hx)
  · have h1 : ((yr.map fun v => (classes yr).idxOf v).length ≠ (ye.map fun v => (classes ye).idxOf v).length ∨
        (List.replicate (yr.map fun v => (classes yr).idxOf v).length 1).length ≠
          (yr.map fun v => (classes yr).idxOf v).length) := by
      left; simpa using h
    rw [if_pos h1]
    simp [h]

/-! ### axis sums, `comb` -/

@[simp] theorem comb2_eq (n : Nat) : comb2 n = choose2 n := rfl

theorem comb2F_eq (n : Nat) : comb2F n = (n : ℚ) * ((n : ℚ) - 1) / 2 := rfl

@[simp] theorem pySum_eq (xs : List Nat) : pySum xs = xs.sum := rfl

@[simp] theorem sumAxis1_mk (r c : Nat) (rows : List (List Nat)) : sumAxis1 ⟨r, c, rows⟩ = rowSums rows := rfl

@[simp] theorem sumAxis0_mk (r c : Nat) (rows : List (List Nat)) : sumAxis0 ⟨r, c, rows⟩ = colSums rows c := rfl

@[simp] theorem flatten_mk {α : Type} (r c : Nat) (rows : List (List α)) : flatten ⟨r, c, rows⟩ = rows.flatten := rfl

theorem size2_eq_zero (ivs : List (ℚ × ℚ)) : (decide (size2 ivs = 0)) = ivs.isEmpty := by
  unfold size2
  cases ivs <;> simp

/-! ### `np.bincount` of the inverse indices = the class counts; masks -/

theorem le_foldl_max (l : List Nat) (a : Nat) : a ≤ l.foldl max a := by
  induction l generalizing a with
  | nil => simp
  | cons x l ih => exact le_trans (le_max_left a x) (ih (max a x))

theorem mem_le_foldl_max {l : List Nat} {x : Nat} (hx : x ∈ l) (a : Nat) : x ≤ l.foldl max a := by
  induction l generalizing a with
  | nil => cases hx
  | cons z l ih =>
    rcases List.mem_cons.1 hx with h | h
    · subst h; exact le_trans (le_max_right a x) (le_foldl_max l (max a x))
    · exact ih h (max a z)

theorem foldl_max_lt {l : List Nat} {a k : Nat} (ha : a < k) (hl : ∀ x ∈ l, x < k) : l.foldl max a < k := by
  induction l generalizing a with
  | nil => simpa using ha
  | cons z l ih =>
    exact ih (max_lt ha (hl z (by simp))) (fun x hx => hl x (by simp [hx]))

theorem count_map_idxOf (y : List Nat) (i : Nat) (hi : i < (classes y).length) :
    (y.map fun v => (classes y).idxOf v).count i = y.count (classes y)[i] := by
  rw [List.count_eq_countP, List.count_eq_countP, List.countP_map]
  apply List.countP_congr
  intro x hx
  simp only [Function.comp, beq_iff_eq]
  exact idxOf_eq_iff (nodup_classes y) (mem_classes.2 hx) hi

theorem foldl_max_map_idxOf {y : List Nat} (hy : y ≠ []) :
    (y.map fun v => (classes y).idxOf v).foldl max 0 + 1 = (classes y).length := by
  have hpos : 0 < (classes y).length := classes_length_pos (List.length_pos_iff.2 hy)
  have hlt : (y.map fun v => (classes y).idxOf v).foldl max 0 < (classes y).length := by
    apply foldl_max_lt hpos
    intro x hx
    obtain ⟨v, hv, rfl⟩ := List.mem_map.1 hx
    exact List.idxOf_lt_length_of_mem (mem_classes.2 hv)
  have hge : (classes y).length - 1 ≤ (y.map fun v => (classes y).idxOf v).foldl max 0 := by
    apply mem_le_foldl_max
    have hk : (classes y).length - 1 < (classes y).length := by omega
    refine List.mem_map.2 ⟨(classes y)[(classes y).length - 1], mem_classes.1 (List.getElem_mem hk), ?_⟩
    exact List.Nodup.idxOf_getElem (nodup_classes y) _ hk
  omega

/-- `np.bincount(np.unique(y, return_inverse=True)[1])` is the list of class sizes, in class order -/
theorem bincount_inverse {y : List Nat} (hy : y ≠ []) :
    bincount (y.map fun v => (classes y).idxOf v) = (classes y).map fun c => y.count c := by
  unfold bincount
  rw [if_neg (by simpa using hy), foldl_max_map_idxOf hy]
  exact map_range_eq_map (classes y) _ _ (fun i hi => count_map_idxOf y i hi)

/-- `pi[pi > 0]` keeps everything when all entries are positive -/
theorem selectVec_pos (xs : List Nat) (h : ∀ x ∈ xs, 0 < x) :
    selectVec xs (xs.map fun v => decide (v > 0)) = xs := by
  unfold selectVec
  induction xs with
  | nil => rfl
  | cons a xs ih =>
    have ha : 0 < a := h a (by simp)
    simp only [List.map_cons, List.zip_cons_cons, List.filterMap_cons, gt_iff_lt, ha, decide_true, if_true]
    rw [ih (fun x hx => h x (by simp [hx]))]

/-! ### `_mutual_info_score`: the masked arrays `contingency[nnz]`, `outer[nnz]` against the hand model's double loop -/

/-- the non-zero cells of a table with their row and column marginals, in row-major order -/
def nzCells (c : List (List Nat)) (a b : List Nat) : List (Nat × Nat × Nat) :=
  (c.zip a).flatMap fun p => (p.1.zip b).filterMap fun q => if q.1 = 0 then none else some (q.1, p.2, q.2)

theorem selectVec_row_fst (r b : List Nat) (ai : Nat) (h : r.length = b.length) :
    selectVec r (r.map fun v => decide (v ≠ 0)) =
      ((r.zip b).filterMap fun q => if q.1 = 0 then none else some (q.1, ai, q.2)).map fun t => t.1 := by
  unfold selectVec
  induction r generalizing b with
  | nil => simp
  | cons x r ih =>
    cases b with
    | nil => simp at h
    | cons y b =>
      have h' : r.length = b.length := by simpa using h
      simp only [List.map_cons, List.zip_cons_cons, List.filterMap_cons]
      rw [ih b h']
      by_cases hx : x = 0 <;> simp [hx]

theorem selectVec_row_snd {β : Type} (g : Nat → Nat → β) (r b : List Nat) (ai : Nat) (h : r.length = b.length) :
    selectVec (b.map fun bj => g ai bj) (r.map fun v => decide (v ≠ 0)) =
      ((r.zip b).filterMap fun q => if q.1 = 0 then none else some (q.1, ai, q.2)).map fun t => g t.2.1 t.2.2 := by
  unfold selectVec
  induction r generalizing b with
  | nil => simp
  | cons x r ih =>
    cases b with
    | nil => simp at h
    | cons y b =>
      have h' : r.length = b.length := by simpa using h
      simp only [List.map_cons, List.zip_cons_cons, List.filterMap_cons]
      rw [ih b h']
      by_cases hx : x = 0 <;> simp [hx]

/-- `contingency[nnz]` -/
theorem selectMat_nz_fst (nr nc : Nat) (c : List (List Nat)) (a b : List Nat) (ha : c.length = a.length)
    (hb : ∀ r ∈ c, r.length = b.length) :
    selectMat ⟨nr, nc, c⟩ (c.map fun r => r.map fun v => decide (v ≠ 0)) = (nzCells c a b).map fun t => t.1 := by
  unfold selectMat nzCells
  simp only
  induction c generalizing a with
  | nil => simp
  | cons r c ih =>
    cases a with
    | nil => simp at ha
    | cons ai a =>
      have ha' : c.length = a.length := by simpa using ha
      simp only [List.map_cons, List.zip_cons_cons, List.flatMap_cons, List.map_append]
      rw [ih a ha' (fun r hr => hb r (by simp [hr])), selectVec_row_fst r b ai (hb r (by simp))]

/-- `outer[nnz]` for a matrix whose (i, j) entry is a function of the two marginals -/
theorem selectMat_nz_snd {β : Type} (g : Nat → Nat → β) (nr nc : Nat) (c : List (List Nat)) (a b : List Nat)
    (ha : c.length = a.length) (hb : ∀ r ∈ c, r.length = b.length) :
    selectMat ⟨nr, nc, a.map fun ai => b.map fun bj => g ai bj⟩ (c.map fun r => r.map fun v => decide (v ≠ 0)) =
      (nzCells c a b).map fun t => g t.2.1 t.2.2 := by
  unfold selectMat nzCells
  simp only
  induction c generalizing a with
  | nil => simp
  | cons r c ih =>
    cases a with
    | nil => simp at ha
    | cons ai a =>
      have ha' : c.length = a.length := by simpa using ha
      simp only [List.map_cons, List.zip_cons_cons, List.flatMap_cons, List.map_append]
      rw [ih a ha' (fun r hr => hb r (by simp [hr])), selectVec_row_snd g r b ai (hb r (by simp))]

/-- the hand model's double loop over the table is a sum over `nzCells` -/
theorem mutualInfoSum_eq_nzCells {α : Type} [Transc α] (c : List (List Nat)) (a b : List Nat) :
    mutualInfoSum (α := α) c a b =
      tsum ((nzCells c a b).map fun t =>
        miTerm (Transc.ofNat (c.map List.sum).sum) (Transc.ofNat a.sum) (Transc.ofNat b.sum) t.1 t.2.1 t.2.2) := by
  unfold mutualInfoSum nzCells
  simp only [List.map_flatMap, List.map_filterMap]
  congr 1
  apply List.flatMap_congr
  intro p _
  apply List.filterMap_congr
  intro q _
  by_cases hq : q.1 = 0 <;> simp [hq]

theorem length_sumAxis0 (M : Mat Nat) (hwf : ∀ r ∈ M.rows, r.length = M.ncols) : (sumAxis0 M).length = M.ncols := by
  obtain ⟨nr, nc, rows⟩ := M
  unfold sumAxis0
  simp only at hwf ⊢
  induction rows with
  | nil => simp
  | cons r rows ih =>
    simp only [List.foldr_cons, List.length_zipWith, ih (fun r hr => hwf r (by simp [hr])), hwf r (by simp)]
    simp

/-! ### shapes of the generated `do` blocks (used by `Props/C16_GenIndex.lean`; the rational sub-terms are left as
    side goals so that any ring-equivalent spelling in the source closes them) -/

theorem ok_bind {α β : Type} (a : α) (f : α → Py β) : (Except.ok a >>= f) = f a := rfl
theorem error_bind {α β : Type} (e : PyErr) (f : α → Py β) : ((Except.error e : Py α) >>= f) = Except.error e := rfl

/-- two chained Python float divisions (`prod = a / b; return (s - prod) / (m - prod)`) -/
theorem divF_bind_divF {a b s m a' b' s' m' : ℚ} (ha : a = a') (hb : b = b') (hs : s = s') (hm : m = m') :
    (do let t ← PyS.divF a b; PyS.divF (s - t) (m - t) : Py ℚ) =
      if b' = 0 then .error .zeroDivision
      else if m' - a' / b' = 0 then .error .zeroDivision else .ok ((s' - a' / b') / (m' - a' / b')) := by
  subst ha hb hs hm
  unfold PyS.divF
  by_cases h : b = 0
  · simp only [h, if_true]; rfl
  · simp only [h, if_false]; rfl

/-- `precision, recall, util.f_measure(precision, recall)` from three NumPy-scalar quotients -/
theorem pairs_shape {m e r m' e' r' : ℚ} (beta : ℚ) (h1 : m = m') (h2 : e = e') (h3 : r = r') :
    (pure (npDiv m e, npDiv m r, fMeasureNum (npDiv m e) (npDiv m r) beta) :
        Py (Segment.Num × Segment.Num × Segment.Num)) =
      .ok (npDiv m' e', npDiv m' r', fMeasureNum (npDiv m' e') (npDiv m' r') beta) := by
  subst h1 h2 h3; rfl

theorem rand_shape {a b a' b' : ℚ} (h1 : a = a') (h2 : b = b') :
    (pure (npDiv a b) : Py Segment.Num) = .ok (npDiv a' b') := by
  subst h1 h2; rfl

theorem checkLen_pure {yr ye : List Nat} (h : yr.length = ye.length) {β : Type} (x : β) :
    (do checkLen yr ye; pure x : Py β) = .ok x := by
  unfold checkLen
  simp only [if_neg (not_not.2 h), ok_bind]
  rfl

end Mir.PyM
