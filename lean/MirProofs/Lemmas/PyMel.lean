import MirModel.PyMel
import MirProofs.Lemmas.Melody
/-
  Lemmas about the run-time library of the generated melody definitions (`Mir.PyMel`, lean/MirModel/PyMel.lean): every
  primitive in the hand model's terms, used by the `Mir.Gen.melody.<f> = <hand model>` theorems of
  `Props/C04_GenMelody.lean`.
-/
namespace Mir.PyMel
open Mir Mir.Melody
open Mir.Segment (Num npDiv)

theorem ok_bind {α β : Type} (a : α) (f : α → Py β) : (Except.ok a >>= f) = f a := rfl
theorem error_bind {α β : Type} (e : PyErr) (f : α → Py β) : ((Except.error e : Py α) >>= f) = Except.error e := rfl
theorem throw_eq {α : Type} (e : PyErr) : (throw e : Py α) = Except.error e := rfl
theorem pure_eq {α : Type} (a : α) : (pure a : Py α) = Except.ok a := rfl

/-! ### broadcasting -/

theorem bcast_eq_len {α β γ : Type} (f : α → β → γ) {a : List α} {b : List β} (h : a.length = b.length) :
    bcast f a b = .ok (List.zipWith f a b) := by
  unfold bcast; rw [if_pos h]

theorem vmul_eq_bmul (a b : List Rat) : vmul a b = bmul a b := by
  unfold vmul bcast bmul
  by_cases h : a.length = b.length
  · simp only [h, if_true]
  · simp only [h, if_false]
    rcases a with _ | ⟨x, _ | ⟨x', a⟩⟩ <;> rcases b with _ | ⟨y, _ | ⟨y', b⟩⟩ <;> first | rfl | (exfalso; exact h rfl)

/-! ### masks -/

theorem select_nil_right {α : Type} (xs : List α) : select xs [] = [] := by
  cases xs <;> rfl
theorem select_nil_left {α : Type} (m : List Bool) : select ([] : List α) m = [] := by
  cases m <;> rfl
theorem select_cons {α : Type} (x : α) (xs : List α) (b : Bool) (bs : List Bool) :
    select (x :: xs) (b :: bs) = if b then x :: select xs bs else select xs bs := rfl

theorem getMask_eq_len {α : Type} {xs : List α} {m : List Bool} (h : xs.length = m.length) :
    getMask xs m = .ok (select xs m) := by
  unfold getMask; rw [if_pos (Or.inr h)]

theorem length_select {α : Type} : ∀ {xs : List α} {m : List Bool}, xs.length = m.length →
    (select xs m).length = countTrue m
  | [], [], _ => rfl
  | [], _ :: _, h => by simp at h
  | _ :: _, [], h => by simp at h
  | x :: xs, b :: bs, h => by
      have h' : xs.length = bs.length := by simpa using h
      cases b
      · simpa [select, countTrue] using length_select h'
      · simpa [select, countTrue] using length_select h'

theorem anyB_map_not_all {α : Type} (p : α → Bool) (xs : List α) :
    anyB (xs.map fun x => !p x) = !xs.all p := by
  induction xs with
  | nil => rfl
  | cons x xs ih =>
    simp only [anyB, List.map_cons, List.any_cons, List.all_cons, id_eq, Bool.not_and] at ih ⊢
    rw [ih]

/-- the range test of `validate_voicing` on one array: some entry `< 0` or `> 1` iff the array is not inside [0, 1] -/
theorem anyB_outside (v : List Rat) :
    anyB (List.zipWith (· || ·) (v.map fun x => decide (x < 0)) (v.map fun x => decide (x > 1))) = !inUnit v := by
  unfold inUnit
  rw [← anyB_map_not_all]
  congr 1
  induction v with
  | nil => rfl
  | cons x v ih =>
    simp only [List.map_cons, List.zipWith_cons_cons, ih, List.cons.injEq, and_true]
    by_cases h0 : x < 0 <;> by_cases h1 : x > 1 <;> simp [h0, h1, not_lt.1, not_le.2] <;> intros <;> linarith

theorem anyB_outside' (v : List Rat) :
    anyB (List.zipWith (· || ·) (v.map fun x => decide (x > 1)) (v.map fun x => decide (x < 0))) = !inUnit v := by
  rw [← anyB_outside]
  congr 1
  induction v with
  | nil => rfl
  | cons x v ih => simp only [List.map_cons, List.zipWith_cons_cons, ih, Bool.or_comm]

/-! ### the pitch chain: masks, selections and products in the hand model's recursive sums -/

/-- `np.logical_and(est_cent != 0, ref_cent != 0)` on equally long arrays -/
def nzMask (rc ec : List Rat) : List Bool :=
  List.zipWith (· && ·) (ec.map fun v => decide (v ≠ 0)) (rc.map fun v => decide (v ≠ 0))

theorem nzMask_def (rc ec : List Rat) :
    List.zipWith (fun x1 x2 => x1 && x2) (ec.map fun v => decide (v ≠ 0)) (rc.map fun v => decide (v ≠ 0)) = nzMask rc ec := rfl

theorem isEmpty_eq {α : Type} (l : List α) : l.isEmpty = decide (l.length = 0) := by
  cases l <;> simp

/-- the two operands of `np.logical_and` exchanged (used as an oriented rewrite, with explicit arguments) -/
theorem nzMask_swap (ec rc : List Rat) : nzMask ec rc = nzMask rc ec := by
  unfold nzMask
  induction rc generalizing ec with
  | nil => cases ec <;> rfl
  | cons r rc ih =>
    cases ec with
    | nil => rfl
    | cons e ec => simp only [List.map_cons, List.zipWith_cons_cons, ih, Bool.and_comm]

/-- `np.abs(est - ref)` for `np.abs(ref - est)` (used as an oriented rewrite, with explicit arguments) -/
theorem absdiff_swap (ec rc : List Rat) :
    (List.zipWith (fun x1 x2 => x1 - x2) ec rc).map Rat.abs = (List.zipWith (fun x1 x2 => x1 - x2) rc ec).map Rat.abs := by
  induction rc generalizing ec with
  | nil => cases ec <;> rfl
  | cons r rc ih =>
    cases ec with
    | nil => rfl
    | cons e ec =>
      simp only [List.zipWith_cons_cons, List.map_cons, ih, List.cons.injEq, and_true]
      rw [← Rat.abs_neg, neg_sub]

theorem zero_eq_rat (x : Rat) : (0 = x) = (x = 0) := propext eq_comm
theorem zero_eq_nat (x : Nat) : (0 = x) = (x = 0) := propext eq_comm

theorem nzMask_cons (r e : Rat) (rc ec : List Rat) :
    nzMask (r :: rc) (e :: ec) = (decide (e ≠ 0) && decide (r ≠ 0)) :: nzMask rc ec := rfl
theorem nzMask_nil_left (ec : List Rat) : nzMask [] ec = [] := by cases ec <;> rfl
theorem nzMask_nil_right (rc : List Rat) : nzMask rc [] = [] := by cases rc <;> rfl

theorem nzMask_length {rc ec : List Rat} (h : rc.length = ec.length) : (nzMask rc ec).length = rc.length := by
  simp [nzMask, h]

theorem nzMask_comm (rc ec : List Rat) :
    List.zipWith (· && ·) (rc.map fun v => decide (v ≠ 0)) (ec.map fun v => decide (v ≠ 0)) = nzMask rc ec := by
  unfold nzMask
  induction rc generalizing ec with
  | nil => cases ec <;> rfl
  | cons r rc ih =>
    cases ec with
    | nil => rfl
    | cons e ec => simp only [List.map_cons, List.zipWith_cons_cons, ih, Bool.and_comm]

theorem countTrue_nzMask (rc ec : List Rat) : countTrue (nzMask rc ec) = nonzeroCount rc ec := by
  unfold nzMask
  induction rc generalizing ec with
  | nil => cases ec <;> rfl
  | cons r rc ih =>
    cases ec with
    | nil => rfl
    | cons e ec =>
      simp only [List.map_cons, List.zipWith_cons_cons, nonzeroCount, countTrue, List.countP_cons] at ih ⊢
      rw [ih ec]
      by_cases he : e = 0 <;> by_cases hr : r = 0 <;> simp [he, hr, Nat.add_comm]

theorem mul_ind (v : Rat) (b : Bool) : v * ind b = if b = true then v else 0 := by
  cases b <;> simp [ind]

/-- `np.sum(ref_voicing[nz] * (ok(np.abs(ref_cent - est_cent)[nz])))` is the hand model's `pitchSum` -/
theorem pitch_chain (okf : Rat → Bool) (rv rc ec : List Rat) :
    Melody.rsum (List.zipWith (fun x b => x * ind b) (select rv (nzMask rc ec))
      ((select ((List.zipWith (· - ·) rc ec).map Rat.abs) (nzMask rc ec)).map okf)) = pitchSum okf rv rc ec := by
  induction rv generalizing rc ec with
  | nil => simp only [select_nil_left, List.zipWith_nil_left, Melody.rsum, pitchSum]
  | cons v rv ih =>
    cases rc with
    | nil => simp only [nzMask_nil_left, select_nil_right, List.zipWith_nil_left, Melody.rsum, pitchSum]
    | cons r rc =>
      cases ec with
      | nil => simp only [nzMask_nil_right, select_nil_right, List.zipWith_nil_left, Melody.rsum, pitchSum]
      | cons e ec =>
        have := ih rc ec
        simp only [nzMask_cons, List.zipWith_cons_cons, List.map_cons, select_cons, pitchSum]
        have hiff : (decide (e ≠ 0) && decide (r ≠ 0)) = true ↔ e ≠ 0 ∧ r ≠ 0 := by simp
        cases hb : (decide (e ≠ 0) && decide (r ≠ 0))
        · have h2 : ¬ (e ≠ 0 ∧ r ≠ 0) := by rw [← hiff, hb]; simp
          have h3 : ¬ (e ≠ 0 ∧ r ≠ 0 ∧ okf (r - e).abs = true) := fun h => h2 ⟨h.1, h.2.1⟩
          simp only [Bool.false_eq_true, if_false, this, h3, zero_add]
        · have h2 : e ≠ 0 ∧ r ≠ 0 := hiff.1 hb
          simp only [if_true, List.map_cons, List.zipWith_cons_cons, Melody.rsum, this, h2.1, h2.2,
            ne_eq, not_false_eq_true, true_and]
          rw [mul_ind]

/-- `np.sum(ref_voicing[nz] * est_voicing[nz] * correct_frequencies)` is the hand model's `oaSum` -/
theorem oa_chain (tol : Rat) (rv rc ev ec : List Rat) :
    Melody.rsum (List.zipWith (fun x b => x * ind b)
      (List.zipWith (· * ·) (select rv (nzMask rc ec)) (select ev (nzMask rc ec)))
      ((select ((List.zipWith (· - ·) rc ec).map Rat.abs) (nzMask rc ec)).map fun d => decide (d < tol))) =
      oaSum tol rv rc ev ec := by
  induction rv generalizing rc ev ec with
  | nil => simp only [select_nil_left, List.zipWith_nil_left, Melody.rsum, oaSum]
  | cons v rv ih =>
    cases rc with
    | nil => simp only [nzMask_nil_left, select_nil_right, List.zipWith_nil_left, Melody.rsum, oaSum]
    | cons r rc =>
      cases ec with
      | nil => simp only [nzMask_nil_right, select_nil_right, List.zipWith_nil_left, Melody.rsum, oaSum]
      | cons e ec =>
        cases ev with
        | nil => simp only [select_nil_left, List.zipWith_nil_right, List.zipWith_nil_left, Melody.rsum, oaSum]
        | cons w ev =>
          have := ih rc ev ec
          simp only [nzMask_cons, List.zipWith_cons_cons, List.map_cons, select_cons, oaSum]
          have hiff : (decide (e ≠ 0) && decide (r ≠ 0)) = true ↔ e ≠ 0 ∧ r ≠ 0 := by simp
          cases hb : (decide (e ≠ 0) && decide (r ≠ 0))
          · have h2 : ¬ (e ≠ 0 ∧ r ≠ 0) := by rw [← hiff, hb]; simp
            have h3 : ¬ (e ≠ 0 ∧ r ≠ 0 ∧ (r - e).abs < tol) := fun h => h2 ⟨h.1, h.2.1⟩
            simp only [Bool.false_eq_true, if_false, this, h3, zero_add]
          · have h2 : e ≠ 0 ∧ r ≠ 0 := hiff.1 hb
            simp only [if_true, List.map_cons, List.zipWith_cons_cons, Melody.rsum, this, h2.1, h2.2,
              ne_eq, not_false_eq_true, true_and]
            rw [mul_ind]
            simp only [decide_eq_true_eq]

/-- `np.sum((1.0 - ref_binary) * (1.0 - est_voicing))` is the hand model's `unvSum` -/
theorem unv_chain (rv ev : List Rat) :
    Melody.rsum (List.zipWith (· * ·) ((rv.map fun x => ind (decide (x > 0))).map fun x => 1 - x) (ev.map fun x => 1 - x)) =
      unvSum rv ev := by
  induction rv generalizing ev with
  | nil => cases ev <;> simp [unvSum, Melody.rsum]
  | cons v rv ih =>
    cases ev with
    | nil => simp [unvSum, Melody.rsum]
    | cons w ev => simp only [List.map_cons, List.zipWith_cons_cons, Melody.rsum, unvSum, ih ev, isVoiced, gt_iff_lt]

/-- the same for any way of writing the two factors -/
theorem unv_chain' (f g : Rat → Rat) (hf : ∀ x, f x = 1 - ind (isVoiced x)) (hg : ∀ x, g x = 1 - x) (rv ev : List Rat) :
    Melody.rsum (List.zipWith (· * ·) (rv.map f) (ev.map g)) = unvSum rv ev := by
  induction rv generalizing ev with
  | nil => cases ev <;> simp [unvSum, Melody.rsum]
  | cons v rv ih =>
    cases ev with
    | nil => simp [unvSum, Melody.rsum]
    | cons w ev => simp only [List.map_cons, List.zipWith_cons_cons, Melody.rsum, unvSum, ih ev, hf, hg]

theorem voicedCount_eq (f : Rat → Rat) (hf : ∀ x, f x = ind (isVoiced x)) (rv : List Rat) :
    Melody.rsum (rv.map f) = voicedCount rv := by
  unfold voicedCount
  congr 1
  exact List.map_congr_left fun x _ => hf x

theorem astypeFloat_map {α : Type} (p : α → Bool) (xs : List α) :
    astypeFloat (xs.map p) = xs.map fun x => ind (p x) := by
  simp [astypeFloat, List.map_map, Function.comp_def]

theorem voicedCount_def (rv : List Rat) : Melody.rsum (rv.map fun x => ind (decide (x > 0))) = voicedCount rv := rfl

theorem zipWith_map_self {α β γ : Type} (f : α → β → γ) (g : α → β) (xs : List α) :
    List.zipWith f xs (xs.map g) = xs.map fun x => f x (g x) := by
  induction xs with
  | nil => rfl
  | cons x xs ih => simp [ih]

/-! ### NumPy scalars -/

theorem npDiv_of_ne {a b : Rat} (h : b ≠ 0) : npDiv a b = .val (a / b) := by
  unfold npDiv; rw [if_neg h]

theorem divNp_eq (a b : Rat) : PyM.divNp a b = npDiv a b := rfl

theorem nmul_val (a b : Rat) : nmul (.val a) (.val b) = .val (a * b) := rfl
theorem nadd_val (a b : Rat) : nadd (.val a) (.val b) = .val (a + b) := rfl
theorem nsub_val (a b : Rat) : nsub (.val a) (.val b) = .val (a - b) := by
  simp [nsub, nneg, nadd, sub_eq_add_neg]
theorem ndiv_val {a b : Rat} (h : b ≠ 0) : ndiv (.val a) (.val b) = .val (a / b) := by
  simp [ndiv, npDiv_of_ne h]

end Mir.PyMel
