import MirModel.PyMultipitch
import MirProofs.Lemmas.Multipitch
import MirProofs.Lemmas.MultipitchResample
/-
  Lemmas about the run-time library of the generated multipitch definitions (`Mir.PyMP`,
  lean/MirModel/PyMultipitch.lean): every primitive in the hand model's terms, used by the
  `Mir.Gen.multipitch.<f> = <hand model>` theorems of `Props/C18_Gen.lean`.
-/
namespace Mir.PyMP
open Mir Mir.Multipitch

theorem ok_bind {α β : Type} (a : α) (f : α → Py β) : (Except.ok a >>= f) = f a := rfl
theorem error_bind {α β : Type} (e : PyErr) (f : α → Py β) : ((Except.error e : Py α) >>= f) = Except.error e := rfl

/-! ### broadcasting -/

theorem bcast_eq_len (f : Int → Int → Int) {a b : List Int} (h : a.length = b.length) :
    bcast f a b = .ok (List.zipWith f a b) := by
  unfold bcast; rw [if_pos h]

/-- two operands of different lengths, neither of length 1: `ValueError` -/
theorem bcast_error (f : Int → Int → Int) {a b : List Int} (h : a.length ≠ b.length) (ha : a.length ≠ 1)
    (hb : b.length ≠ 1) : bcast f a b = .error .valueError := by
  unfold bcast; rw [if_neg h]
  split
  · simp at ha
  · simp at hb
  · rfl

theorem bcast_length (f : Int → Int → Int) {a b c : List Int} (h : bcast f a b = .ok c) :
    c.length = max a.length b.length ∨ (a.length = 1 ∧ c.length = b.length) ∨ (b.length = 1 ∧ c.length = a.length) := by
  unfold bcast at h
  split at h
  · rename_i hl
    injection h with h; subst h
    left; simp [hl]
  · split at h
    · injection h with h; subst h; right; left; simp
    · injection h with h; subst h; right; right; simp
    · cases h

/-- a broadcast either fails with `ValueError` or yields an array -/
theorem bcast_cases (f : Int → Int → Int) (a b : List Int) :
    bcast f a b = .error .valueError ∨ ∃ c, bcast f a b = .ok c := by
  unfold bcast
  split
  · exact Or.inr ⟨_, rfl⟩
  · split
    · exact Or.inr ⟨_, rfl⟩
    · exact Or.inr ⟨_, rfl⟩
    · exact Or.inl rfl

theorem stackMin_eq_len {a b : List Int} (h : a.length = b.length) : stackMin a b = .ok (List.zipWith min a b) := by
  unfold stackMin; rw [if_pos h]
theorem stackMax_eq_len {a b : List Int} (h : a.length = b.length) : stackMax a b = .ok (List.zipWith max a b) := by
  unfold stackMax; rw [if_pos h]
theorem stackMin_error {a b : List Int} (h : a.length ≠ b.length) : stackMin a b = .error .valueError := by
  unfold stackMin; rw [if_neg h]
theorem stackMax_error {a b : List Int} (h : a.length ≠ b.length) : stackMax a b = .error .valueError := by
  unfold stackMax; rw [if_neg h]

/-! ### count arrays as the columns of the hand model's rows -/

/-- equally long count arrays are the three columns of `zip3` -/
theorem unzip3 : ∀ (tp nr ne : List Int), tp.length = nr.length → nr.length = ne.length →
    (zip3 tp nr ne).map (fun x => x.1) = tp ∧ (zip3 tp nr ne).map (fun x => x.2.1) = nr ∧
    (zip3 tp nr ne).map (fun x => x.2.2) = ne := by
  intro tp
  induction tp with
  | nil =>
    intro nr ne h1 h2
    have hn : nr = [] := List.length_eq_zero_iff.1 h1.symm
    subst hn
    have he : ne = [] := List.length_eq_zero_iff.1 h2.symm
    subst he
    simp [zip3]
  | cons a as ih =>
    intro nr ne h1 h2
    cases nr with
    | nil => simp at h1
    | cons b bs =>
      cases ne with
      | nil => simp at h2
      | cons c cs =>
        simp only [List.length_cons, Nat.add_right_cancel_iff] at h1 h2
        obtain ⟨e1, e2, e3⟩ := ih bs cs h1 h2
        simp only [zip3, List.map_cons, e1, e2, e3, and_self]

theorem vsum_map (rows : List Row) (f : Row → Int) : vsum (rows.map f) = sumBy f rows := rfl

theorem zipWith_cols (rows : List Row) (op : Int → Int → Int) (f g : Row → Int) :
    List.zipWith op (rows.map f) (rows.map g) = rows.map fun x => op (f x) (g x) := by
  induction rows with
  | nil => rfl
  | cons x xs ih => simp only [List.map_cons, List.zipWith_cons_cons, ih]

theorem maskFill_cols (rows : List Row) (f : Row → Int) (p : Int → Bool) (c : Int) :
    maskFill (rows.map f) (List.map p (rows.map f)) c = rows.map fun x => if p (f x) then c else f x := by
  unfold maskFill
  induction rows with
  | nil => rfl
  | cons x xs ih => simp only [List.map_cons, List.zipWith_cons_cons, ih]

theorem computeErrScore_of_ne (rows : List Row) (h : sumBy (fun x => x.2.1) rows ≠ 0) :
    computeErrScore rows =
    (ofInt (sumBy (fun x => min x.2.1 x.2.2 - x.1) rows) / ofInt (sumBy (fun x => x.2.1) rows),
     ofInt (sumBy (fun x => if x.2.1 - x.2.2 < 0 then 0 else x.2.1 - x.2.2) rows) / ofInt (sumBy (fun x => x.2.1) rows),
     ofInt (sumBy (fun x => if x.2.2 - x.2.1 < 0 then 0 else x.2.2 - x.2.1) rows) / ofInt (sumBy (fun x => x.2.1) rows),
     ofInt (sumBy (fun x => max x.2.1 x.2.2 - x.1) rows) / ofInt (sumBy (fun x => x.2.1) rows)) := by
  unfold computeErrScore
  simp only [if_neg h]

/-! ### lists -/

theorem mapPy_ok {α β : Type} (f : α → Py β) (g : α → β) : ∀ (l : List α), (∀ x ∈ l, f x = .ok (g x)) →
    mapPy f l = .ok (l.map g)
  | [], _ => rfl
  | x :: rest, h => by
    have h1 := h x (List.mem_cons_self ..)
    have h2 := mapPy_ok f g rest fun y hy => h y (List.mem_cons_of_mem _ hy)
    simp only [mapPy, h1, h2, List.map_cons]
    rfl

theorem arange_zero_getElem? (n i : Nat) (h : i < n) : (arange 0 n)[i]? = some i := by
  unfold arange
  simp [h]

theorem setItem_append (pre post : List Int) (x v : Int) :
    setItem (pre ++ x :: post) pre.length v = .ok (pre ++ v :: post) := by
  unfold setItem
  rw [if_pos (by simp)]
  simp

/-! ### per-frame counts -/

theorem match_len_eq (w : Rat) (c : Bool) (r e : List Rat) :
    (if c = true then match_events_mod_len r e w else match_events_len r e w) = frameCount w c r e := by
  cases c <;> rfl

theorem numTruePositives_nil_right (w : Rat) (c : Bool) : ∀ rf : Frames,
    numTruePositives w c rf [] = List.replicate rf.length 0
  | [] => rfl
  | _ :: rs => by simp only [numTruePositives, numTruePositives_nil_right w c rs, List.length_cons, List.replicate_succ]

/-- the hand model's counts: one per zipped pair of frames, zeros behind -/
theorem numTruePositives_shape (w : Rat) (c : Bool) : ∀ (rf ef : Frames),
    natsToInts (numTruePositives w c rf ef) =
      (List.zip rf ef).map (fun p => ((frameCount w c p.1 p.2 : Nat) : Int)) ++
        List.replicate (rf.length - (List.zip rf ef).length) 0
  | [], _ => by simp [numTruePositives, natsToInts]
  | r :: rs, [] => by
      simp [numTruePositives_nil_right, natsToInts, List.replicate_succ]
  | r :: rs, e :: es => by
      have ih := numTruePositives_shape w c rs es
      simp only [natsToInts] at ih
      simp only [numTruePositives, natsToInts, List.map_cons, List.zip_cons_cons, List.length_cons, ih,
        List.cons_append, Nat.add_sub_add_right]
      rfl

theorem numTruePositives_length (w : Rat) (c : Bool) : ∀ (rf ef : Frames),
    (numTruePositives w c rf ef).length = rf.length
  | [], _ => rfl
  | _ :: rs, [] => by simp [numTruePositives, numTruePositives_length w c rs []]
  | _ :: rs, _ :: es => by simp [numTruePositives, numTruePositives_length w c rs es]

/-! ### resampling -/

theorem nearestIdx_lt (ts : List Rat) (t : Rat) (h : ts ≠ []) : nearestIdx ts t < ts.length := by
  unfold nearestIdx
  have : 0 < ts.length := List.length_pos_iff.2 h
  omega

/-- the fill-value / nearest index of `interp1d_nearest` over `np.arange(0, n)` is the hand model's `resampleIdx` -/
theorem interp1d_nearest_arange (ts : List Rat) (n : Nat) (tg : List Rat) (h : ts.length = n) (hne : ts ≠ []) :
    interp1d_nearest ts (arange 0 n) n tg = .ok (tg.map (resampleIdx ts n)) := by
  unfold interp1d_nearest
  have hl : (arange 0 n).length = n := by simp [arange]
  rw [if_neg (by rw [hl]; exact not_not.2 h)]
  congr 1
  apply List.map_congr_left
  intro t _
  unfold resampleIdx
  have hi := arange_zero_getElem? n _ (h ▸ nearestIdx_lt ts t hne)
  cases ts.head? <;> cases ts.getLast? <;> try rfl
  dsimp only
  split
  · rfl
  · rw [hi]; rfl

theorem interp1d_nearest_len_error (ts : List Rat) (n : Nat) (tg : List Rat) (h : ts.length ≠ n) :
    interp1d_nearest ts (arange 0 n) n tg = .error .valueError := by
  unfold interp1d_nearest
  have hl : (arange 0 n).length = n := by simp [arange]
  rw [if_pos (by rw [hl]; exact h)]

theorem resampleIdx_le_len (ts : List Rat) (n : Nat) (t : Rat) (h : ts.length = n) : resampleIdx ts n t ≤ n := by
  unfold resampleIdx
  split
  · split
    · exact Nat.le_refl _
    · unfold nearestIdx; omega
  · exact Nat.le_refl _

theorem listGet_resampleFrame (ts : List Rat) (fs : Frames) (t : Rat) (h : ts.length = fs.length) :
    listGet (fs ++ [[]]) (resampleIdx ts fs.length t) = .ok (resampleFrame ts fs t) := by
  have hle := resampleIdx_le_len ts fs.length t h
  have hlt : resampleIdx ts fs.length t < (fs ++ [[]]).length := by simp; omega
  unfold listGet resampleFrame
  rw [List.getElem?_eq_getElem hlt]

theorem resample_of_len {ts : List Rat} {fs : Frames} (tg : List Rat) (h : ts.length = fs.length) :
    resample ts fs tg = .ok (resampleCore ts fs tg) := by
  unfold resample resampleCore
  by_cases h1 : tg.isEmpty = true
  · have : tg = [] := List.isEmpty_iff.1 h1
    subst this
    simp
    rfl
  · rw [if_neg h1]
    by_cases h2 : ts.isEmpty = true
    · rw [if_pos h2, if_pos h2]; rfl
    · rw [if_neg h2, if_neg h2, if_neg (not_not.2 h)]; rfl

theorem num_true_positives_chroma_lengths (w : Rat) (rf ef : Frames) :
    (numTruePositives w true (midiToChroma rf) (midiToChroma ef)).length = rf.length := by
  rw [numTruePositives_length]; simp [midiToChroma]

end Mir.PyMP
