import MirModel.PyPat
import MirProofs.Props.C14_Pattern

/-!
# Helper lemmas for `Props/C04_GenPattern.lean`: the run-time primitives of `MirModel/PyPat.lean` in the hand model's terms

Nothing here mentions a generated definition: `raw` inputs, sets, matrix fills (`fill2`, `fillOpt`), the loops with `break`
(`inner_loop`, `outer_loop`: ANY loop body that meets the stated one-step equation), the reductions, `np.ix_`.
-/
namespace Mir.C04.GenPattern
set_option linter.unusedSimpArgs false
set_option linter.unusedVariables false
open Mir Mir.Pattern Mir.PyPat Mir.Validate
open Mir.C14.Pattern (raw)

/-- a point as the code sees it -/
def rawPt (p : Point) : Pt := [p.1, p.2]

def rawOcc (o : Pattern.Occ) : PyPat.Occ := o.map rawPt

def rawPat (p : Pattern.Pat) : PyPat.Pat := p.map rawOcc

theorem raw_eq (x : Pattern.Pats) : raw x = x.map rawPat := rfl

theorem rawPt_inj : Function.Injective rawPt := by
  intro a b h
  simp [rawPt] at h
  exact Prod.ext h.1 h.2

theorem mem_setOf {α : Type} [DecidableEq α] (a : α) (l : List α) : a ∈ PyPat.setOf l ↔ a ∈ l := by
  induction l with
  | nil => simp [PyPat.setOf]
  | cons x xs ih =>
    unfold PyPat.setOf
    split
    · rw [ih]; constructor
      · exact fun h => List.mem_cons_of_mem _ h
      · intro h; rcases List.mem_cons.1 h with rfl | h
        · assumption
        · exact h
    · simp [ih]

theorem setOf_map (P : Pattern.Occ) : PyPat.setOf (P.map rawPt) = (dedup P).map rawPt := by
  induction P with
  | nil => simp [PyPat.setOf, dedup]
  | cons x xs ih =>
    unfold PyPat.setOf dedup
    have : rawPt x ∈ xs.map rawPt ↔ x ∈ xs := by
      simp only [List.mem_map]
      constructor
      · rintro ⟨y, hy, h⟩; rw [← rawPt_inj h]; exact hy
      · exact fun h => ⟨x, h, rfl⟩
    by_cases h : x ∈ xs
    · simp [this, h, ih]
    · simp [this, h, ih]

theorem mapM_map_congr {α β γ : Type} (f : α → β) (g : β → Py γ) (h : α → Py γ) (l : List α)
    (hh : ∀ a ∈ l, g (f a) = h a) : (l.map f).mapM g = l.mapM h := by
  induction l with
  | nil => rfl
  | cons x xs ih =>
    simp only [List.map_cons, List.mapM_cons, hh x (by simp), ih (fun a ha => hh a (by simp [ha]))]

/-- `Py` results that carry a matrix: the generated code's `Mat` remembers the shape -/
def asMat (r c : Nat) (x : Py (List (List Rat))) : Py Mat := x.map fun d => ⟨r, c, d⟩

theorem fill2_raw {α β α' β' : Type} (fa : α → α') (fb : β → β') (xs : List α) (ys : List β)
    (g : α' → β' → Py Rat) (h : α → β → Py Rat) (hh : ∀ a b, g (fa a) (fb b) = h a b) :
    fill2 (xs.map fa) (ys.map fb) g = asMat xs.length ys.length (xs.mapM fun x => ys.mapM fun y => h x y) := by
  unfold fill2 asMat
  rw [mapM_map_congr fa _ (fun x => ys.mapM fun y => h x y) xs
    (fun a _ => mapM_map_congr fb _ _ ys (fun b _ => hh a b))]
  cases (xs.mapM fun x => ys.mapM fun y => h x y) <;> simp [bind, Except.bind, pure, Except.pure, Except.map]

theorem divF_nat (a d : Nat) :
    divF (a : Rat) (d : Rat) = if d = 0 then .error .zeroDivision else .ok ((a : Rat) / (d : Rat)) := by
  unfold divF
  by_cases h : d = 0
  · simp [h]
  · have : (d : Rat) ≠ 0 := by exact_mod_cast h
    simp [h, this]

theorem validate_cases (ref est : Pattern.Pats) :
    Pattern.validate ref est = .ok () ∨ Pattern.validate ref est = .error .valueError := by
  unfold Pattern.validate; split
  · exact Or.inr rfl
  · exact Or.inl rfl

/-- `np.mean(np.max(M, axis=0))`, `np.mean(np.max(M, axis=1))` of a generated matrix are the model's reductions -/
theorem colMaxMean_mat (r c : Nat) (d : List (List Rat)) :
    (do let v ← maxAxis0 ⟨r, c, d⟩; npMean v) = colMaxMean c d := rfl

theorem rowMaxMean_mat (r c : Nat) (d : List (List Rat)) :
    (do let v ← maxAxis1 ⟨r, c, d⟩; npMean v) = rowMaxMean d := rfl

/-- the last lines of the matrix metrics: both reductions, then a continuation -/
theorem prf_tail' {α : Type} (r c : Nat) (d : List (List Rat)) (K : Rat → Rat → Py α) :
    (do let v ← maxAxis0 ⟨r, c, d⟩; let p ← npMean v; let w ← maxAxis1 ⟨r, c, d⟩; let q ← npMean w; K p q)
      = (do let p ← colMaxMean c d; let q ← rowMaxMean d; K p q) := by
  rw [← colMaxMean_mat r c d, ← rowMaxMean_mat r c d]
  cases maxAxis0 ⟨r, c, d⟩ with
  | error e => rfl
  | ok v =>
    cases h : npMean v with
    | error e => simp [bind, Except.bind, h]
    | ok p =>
      cases maxAxis1 ⟨r, c, d⟩ with
      | error e => simp [bind, Except.bind, h]
      | ok w => simp [bind, Except.bind, h]

theorem prf_tail (r c : Nat) (d : List (List Rat)) :
    (do let v ← maxAxis0 ⟨r, c, d⟩; let p ← npMean v; let w ← maxAxis1 ⟨r, c, d⟩; let q ← npMean w
        (pure (fMeasure p q, p, q) : Py (Rat × Rat × Rat)))
      = (do let p ← colMaxMean c d; let q ← rowMaxMean d; pure (fMeasure p q, p, q)) :=
  prf_tail' r c d fun p q => pure (fMeasure p q, p, q)

theorem firstN_raw (est : Pattern.Pats) (n : Int) :
    pySliceTo (raw est) (minInt (((raw est).length : Nat) : Int) n) = raw (firstN est n) := by
  have hl : (raw est).length = est.length := by simp [raw]
  have hm : minInt ((est.length : Nat) : Int) n = if (est.length : Int) ≤ n then (est.length : Int) else n := by
    unfold minInt; split <;> split <;> omega
  rw [hl, hm]
  unfold firstN pySliceTo
  simp only [raw, List.length_map]
  split <;> split <;> simp only [List.map_take]

theorem sameShape_raw (P Q : Pattern.Occ) (h : P.length = Q.length) :
    sameShape (P.map rawPt) (Q.map rawPt) = true := by
  unfold sameShape
  simp only [List.length_map, h, beq_self_eq_true, Bool.true_and]
  induction P generalizing Q with
  | nil => simp
  | cons p ps ih =>
    cases Q with
    | nil => simp at h
    | cons q qs =>
      simp only [List.map_cons, List.zipWith_cons_cons, List.all_cons]
      rw [ih qs (by simpa using h)]
      rfl

/-- the rows of `P - Q` in the model's terms -/
def subRows (P Q : Pattern.Occ) : List Point := List.zipWith (fun (p q : Point) => (p.1 - q.1, p.2 - q.2)) P Q

theorem msub_raw (P Q : Pattern.Occ) (h : P.length = Q.length) :
    msub (rawOcc P) (rawOcc Q) = .ok ((subRows P Q).map rawPt) := by
  unfold msub rawOcc
  rw [sameShape_raw P Q h]
  simp only [if_true, subRows, List.zipWith_map, List.map_zipWith]
  rfl

theorem maxabs_raw (d : List Point) :
    npMaxArr (PyPat.mabs (diff0 (d.map rawPt)))
      = maxL ((List.zipWith (fun (a b : Point) => (b.1 - a.1, b.2 - a.2)) d d.tail).flatMap
          fun x => [absR x.1, absR x.2]) := by
  unfold npMaxArr PyPat.mabs diff0
  congr 1
  rw [← List.map_tail, List.zipWith_map, List.map_zipWith, List.flatMap_def, List.map_zipWith]
  rfl

theorem getItem0_raw (e : Pattern.Pat) : getItem0 (rawPat e) = (proto e).map rawOcc := by
  cases e <;> rfl

/-- the inner loop: any body that, on the prototype of an estimated pattern, breaks with `k + 1` on a match and goes
    on with `k` otherwise -/
theorem inner_loop (tol : Rat) (P : Pattern.Occ) (body : PyPat.Pat → Nat → Py (Step Nat))
    (hb : ∀ e k, body (rawPat e) k = do
      let Q ← proto e
      let m ← protoMatch tol P Q
      pure (if m then Step.brk (k + 1) else Step.next k))
    (est : Pattern.Pats) (k : Nat) :
    forLoop (raw est) k body = (matchAny tol P est).map fun m => if m then k + 1 else k := by
  induction est with
  | nil => rfl
  | cons e es ih =>
    rw [raw_eq, List.map_cons, forLoop, hb, ← raw_eq, matchAny]
    cases proto e with
    | error x => rfl
    | ok Q =>
      cases hm : protoMatch tol P Q with
      | error x => simp [bind, Except.bind, hm, Except.map]
      | ok m =>
        cases m with
        | true => simp [bind, Except.bind, hm, Except.map, pure, Except.pure]
        | false =>
          simp only [bind, Except.bind, hm, Except.map, pure, Except.pure, Bool.false_eq_true, if_false]
          rw [ih]; rfl

/-- the outer loop: any body that adds one for a reference prototype that matches some estimated prototype -/
theorem outer_loop (tol : Rat) (est : Pattern.Pats) (body : PyPat.Pat → Nat → Py (Step Nat))
    (hb : ∀ r k, body (rawPat r) k = do
      let P ← proto r
      let m ← matchAny tol P est
      pure (Step.next (if m then k + 1 else k)))
    (ref : Pattern.Pats) (k : Nat) :
    forLoop (raw ref) k body = (countMatches tol ref est).map fun c => k + c := by
  induction ref generalizing k with
  | nil => rfl
  | cons r rs ih =>
    rw [raw_eq, List.map_cons, forLoop, hb, ← raw_eq, countMatches]
    cases proto r with
    | error x => rfl
    | ok P =>
      cases hm : matchAny tol P est with
      | error x => simp [bind, Except.bind, hm, Except.map]
      | ok m =>
        simp only [bind, Except.bind, hm, pure, Except.pure]
        rw [ih]
        cases countMatches tol rs est with
        | error x => rfl
        | ok c =>
          cases m <;> simp [Except.map]; omega

theorem fillOpt_raw {α β α' β' : Type} (fa : α → α') (fb : β → β') (xs : List α) (ys : List β)
    (g : α' → β' → Py (Option (Rat × Rat))) (h : α → β → Py (Option (Rat × Rat)))
    (hh : ∀ a b, g (fa a) (fb b) = h a b) :
    fillOpt (xs.map fa) (ys.map fb) g
      = (xs.mapM fun x => ys.mapM fun y => h x y).map fun d => (⟨xs.length, ys.length, d⟩, relIdx d) := by
  unfold fillOpt
  rw [mapM_map_congr fa _ (fun x => ys.mapM fun y => h x y) xs
    (fun a _ => mapM_map_congr fb _ _ ys (fun b _ => hh a b))]
  cases (xs.mapM fun x => ys.mapM fun y => h x y) <;> simp [bind, Except.bind, pure, Except.pure, Except.map]

theorem mapM_bind_pure {α β γ : Type} (f : α → Py β) (g : β → γ) (l : List α) :
    (l.mapM fun a => do let c ← f a; pure (g c)) = (do let r ← l.mapM f; pure (r.map g)) := by
  induction l with
  | nil => rfl
  | cons x xs ih =>
    simp only [List.mapM_cons, ih]
    cases f x with
    | error e => rfl
    | ok v => cases List.mapM f xs <;> rfl

theorem getCell_map (O : List (List (Option (Rat × Rat)))) (g : Rat × Rat → Rat) (i j : Nat) :
    getCell (O.map fun r => r.map fun c => g (c.getD (0, 0))) i j = (do let c ← lookup O i j; pure (g c)) := by
  unfold getCell lookup
  simp only [List.getElem?_map]
  cases O[i]? with
  | none => rfl
  | some row =>
    simp only [Option.map_some, List.getElem?_map]
    cases row[j]? <;> rfl

/-- the gathered cells, before a plane is chosen -/
def gathered (O : List (List (Option (Rat × Rat)))) (rel : List (Nat × Nat)) : Py (List (List (Rat × Rat))) :=
  rel.mapM fun a => rel.mapM fun b => lookup O a.1 b.2

theorem ix_plane (r c : Nat) (O : List (List (Option (Rat × Rat)))) (g : Rat × Rat → Rat) (rel : List (Nat × Nat)) :
    ix ⟨r, c, O.map fun r => r.map fun c => g (c.getD (0, 0))⟩ (relCol0 rel) (relCol1 rel)
      = (do let L ← gathered O rel; pure ⟨rel.length, rel.length, L.map fun r => r.map g⟩) := by
  unfold ix relCol0 relCol1 gathered
  rw [mapM_map_congr (fun a : Nat × Nat => a.1) _
    (fun a => do let r ← rel.mapM (fun b => lookup O a.1 b.2); pure (r.map g)) rel
    (fun a _ => by
      rw [mapM_map_congr (fun b : Nat × Nat => b.2) _ (fun b => do let c ← lookup O a.1 b.2; pure (g c)) rel
        (fun b _ => getCell_map O g a.1 b.2)]
      exact mapM_bind_pure _ g rel)]
  rw [mapM_bind_pure (fun a => rel.mapM fun b => lookup O a.1 b.2) (fun r => r.map g) rel]
  simp only [List.length_map]
  cases (rel.mapM fun a => rel.mapM fun b => lookup O a.1 b.2) <;> rfl

theorem model_gather (O : List (List (Option (Rat × Rat)))) (g : Rat × Rat → Rat) (rel : List (Nat × Nat)) :
    (rel.mapM fun a => rel.mapM fun b => do let c ← lookup O a.1 b.2; pure (g c))
      = (do let L ← gathered O rel; pure (L.map fun r => r.map g)) := by
  unfold gathered
  rw [← mapM_bind_pure (fun a => rel.mapM fun b => lookup O a.1 b.2) (fun r => r.map g) rel]
  congr 1
  funext a
  exact mapM_bind_pure _ g rel

theorem map_eq_self {α : Type} (f : α → α) (l : List α) (h : ∀ a ∈ l, f a = a) : l.map f = l := by
  induction l with
  | nil => rfl
  | cons x xs ih =>
    rw [List.map_cons, h x (by simp), ih (fun a ha => h a (by simp [ha]))]

end Mir.C04.GenPattern
