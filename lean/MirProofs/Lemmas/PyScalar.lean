import MirModel.PyScalar
import Mathlib.Tactic.Ring
import Mathlib.Algebra.Order.Field.Rat
/-
  Lemmas about the run-time library of the generated scalar definitions (`Mir.PyS`), used by the
  `Mir.Gen.<f> = <hand model>` theorems (`Props/*Gen.lean`).
-/
namespace Mir.PyS
open Mir

/-- a translated `return N / D` against a hand-written quotient: numerators and denominators may differ by any
    ring identity (so `beta**2` vs `beta*beta`, reordered operands ... do not break the tie) -/
theorem divF_return {N D N' D' : Rat} (hN : N = N') (hD : D = D') :
    (do let t ← divF N D; pure t : Py Rat) = if D' = 0 then .error .zeroDivision else .ok (N' / D') := by
  subst hN hD
  unfold divF
  split <;> rfl

@[simp] theorem unwrap_some {α : Type} (a : α) : unwrap (some a) = .ok a := rfl
@[simp] theorem unwrap_none {α : Type} : unwrap (none : Option α) = .error .typeError := rfl

@[simp] theorem len_eq_natLit {α : Type} (xs : List α) (n : Nat) : len xs = (n : Int) ↔ xs.length = n := by
  unfold len; exact Int.ofNat_inj

theorem len_ne_zero {α : Type} (xs : List α) : len xs ≠ 0 ↔ xs.length ≠ 0 := by
  unfold len; omega

theorem len_eq_two {α : Type} (xs : List α) : len xs = 2 ↔ xs.length = 2 := by
  unfold len; omega

/-- `List.lookup` (the translator's dict read) against the `find?`-style lookup of the hand-written key model -/
theorem lookup_eq_find {κ ν : Type} [BEq κ] [LawfulBEq κ] (d : List (κ × ν)) (k : κ) :
    d.lookup k = (d.find? (fun p => p.1 == k)).map (·.2) := by
  induction d with
  | nil => rfl
  | cons hd tl ih =>
    obtain ⟨a, b⟩ := hd
    by_cases h : a = k
    · subst h; simp [List.lookup, List.find?]
    · have h' : (k == a) = false := beq_eq_false_iff_ne.mpr (fun e => h e.symm)
      have h'' : (a == k) = false := beq_eq_false_iff_ne.mpr h
      simp [List.lookup, List.find?, h', h'', ih]

/-- `s.startswith(c)` for a one-character literal is a test of the first character -/
theorem startsWith_single (s : Str) (c : Char) : startsWith s [c] = decide (s.head? = some c) := by
  unfold startsWith
  cases s with
  | nil => simp [List.isPrefixOf]
  | cons a t =>
    by_cases h : c = a
    · subst h; simp [List.isPrefixOf]
    · have : ¬ a = c := fun e => h e.symm
      simp [List.isPrefixOf, h, this]

end Mir.PyS
