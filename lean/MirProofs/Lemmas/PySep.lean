import MirGen.SepCrit
import MirProofs.Props.C19
import MirProofs.Props.C14_GenVal
import Mathlib.Data.Rat.Floor
/-!
  Helper lemmas for `Props/C19_Gen.lean`: the run-time primitives of `MirModel/PySep.lean` in the hand model's terms
  (fill loops as maps, fancy indexing of a filled table = `selectFrom`, `perms[np.argmax(..)]` = `firstMaxBy`, Python
  slices with non-negative bounds = `sliceArr`, `matOfCols`), facts about the model's `validate`, output conversions.
-/
namespace Mir.C19.Gen
open Mir Mir.Separation Mir.PySep

theorem ok_bind {α β : Type} (a : α) (f : α → Py β) : (Except.ok a >>= f) = f a := rfl

theorem error_bind {α β : Type} (e : PyErr) (f : α → Py β) : ((Except.error e : Py α) >>= f) = Except.error e := rfl

theorem vsub_ok {a b : List Rat} (h : a.length = b.length) :
    PyMel.vsub a b = .ok (List.zipWith (· - ·) a b) := by
  simp [PyMel.vsub, PyMel.bcast, h]

theorem vadd_ok {a b : List Rat} (h : a.length = b.length) :
    PyMel.vadd a b = .ok (List.zipWith (· + ·) a b) := by
  simp [PyMel.vadd, PyMel.bcast, h]

theorem zeros_ok {flen : Nat} (hf : 1 ≤ flen) : PySep.zeros ((flen : Int) - 1) = .ok (List.replicate (flen - 1) 0) := by
  have h1 : ¬ ((flen : Int) - 1 < 0) := by omega
  have h2 : ((flen : Int) - 1).toNat = flen - 1 := by omega
  simp [PySep.zeros, h1, h2]

theorem zipWith_add_zeros (x : List Rat) : List.zipWith (· + ·) x (List.replicate x.length (0 : Rat)) = x := by
  induction x with
  | nil => rfl
  | cons a t ih => simp [List.replicate_succ, ih]

theorem zipWith_add_pad (a d est : List Rat) (h : a.length = est.length) :
    List.zipWith (· + ·) (a ++ d) (est ++ List.replicate d.length 0) = List.zipWith (· + ·) a est ++ d := by
  rw [List.zipWith_append h, zipWith_add_zeros]

/-- `x[:n] += est` for `n = len(est) <= len(x)` adds the zero-padded estimate. -/
theorem addPrefix_ok (x est : List Rat) (h : est.length ≤ x.length) :
    PySep.addPrefix x est.length est = .ok (List.zipWith (· + ·) x (padTo x.length est)) := by
  have hl : (x.take est.length).length = est.length := by simp [h]
  have hd : (x.drop est.length).length = x.length - est.length := by simp
  have key := zipWith_add_pad (x.take est.length) (x.drop est.length) est hl
  rw [List.take_append_drop, hd] at key
  unfold PySep.addPrefix
  rw [vadd_ok hl]
  have hz : (List.zipWith (· + ·) (x.take est.length) est).length = (x.take est.length).length := by simp [hl]
  simp only [ok_bind, padTo, hz, ne_eq, not_true_eq_false, if_false, key]
  rfl

theorem prodL_eq_foldl (l : List Nat) (k : Nat) : l.foldl (· * ·) k = k * Mir.Arr.prodL l := by
  induction l generalizing k with
  | nil => simp [Mir.Arr.prodL]
  | cons a t ih => simp [Mir.Arr.prodL, ih, Nat.mul_assoc]

theorem srcOf_size (a : Separation.Arr) : (PySep.srcOf a).size = a.size := by
  simp [PySep.srcOf, Mir.Validate.Src.size, Separation.Arr.size, prodL_eq_foldl]

theorem mapM_ok {α β : Type} (l : List α) (f : α → Py β) (g : α → β) (h : ∀ x ∈ l, f x = .ok (g x)) :
    l.mapM f = .ok (l.map g) := by
  induction l with
  | nil => rfl
  | cons a t ih =>
    rw [List.mapM_cons, h a (by simp), ih (fun x hx => h x (by simp [hx]))]
    rfl

theorem forRange_ok {α : Type} (n : Nat) (f : Nat → Py α) (g : Nat → α) (h : ∀ i < n, f i = .ok (g i)) :
    PySep.forRange n f = .ok ((List.range n).map g) :=
  mapM_ok _ f g (fun x hx => h x (List.mem_range.mp hx))

theorem forRange2_ok {α : Type} (n m : Nat) (f : Nat → Nat → Py α) (g : Nat → Nat → α)
    (h : ∀ i < n, ∀ j < m, f i j = .ok (g i j)) :
    PySep.forRange2 n m f = .ok ((List.range n).map fun i => (List.range m).map (g i)) :=
  mapM_ok _ _ _ (fun i hi => mapM_ok _ _ _ (fun j hj => h i (List.mem_range.mp hi) j (List.mem_range.mp hj)))

theorem forEnumFrom_ok {α β : Type} (f : Nat → α → Py β) (g : α → β) (xs : List α)
    (h : ∀ k, ∀ x ∈ xs, f k x = .ok (g x)) (i : Nat) : PySep.forEnumFrom f i xs = .ok (xs.map g) := by
  induction xs generalizing i with
  | nil => rfl
  | cons a t ih =>
    rw [PySep.forEnumFrom, h i a (by simp), ok_bind, ih (fun k x hx => h k x (by simp [hx]))]
    rfl

/-- the table a fill loop wrote, as a function of the indices -/
def tabOf (n : Nat) (M : Nat → Nat → Rat) : List (List Rat) :=
  (List.range n).map fun e => (List.range n).map fun t => M e t

theorem at2_tabOf (n : Nat) (M : Nat → Nat → Rat) (e t : Nat) (he : e < n) (ht : t < n) :
    PySep.at2 (tabOf n M) e t = .ok (M e t) := by
  simp [PySep.at2, tabOf, he, ht]

theorem fancy2_tabOf (n : Nat) (M : Nat → Nat → Rat) (p : List Nat) (j : Nat)
    (hp : ∀ e ∈ p, e < n) (hj : j + p.length ≤ n) :
    PySep.fancy2 (tabOf n M) p (List.range' j p.length) = .ok (selectFrom M j p) := by
  induction p generalizing j with
  | nil => rfl
  | cons e es ih =>
    have h1 : e < n := hp e (by simp)
    have h2 : j < n := by simp at hj; omega
    simp only [List.length_cons, List.range'_succ, PySep.fancy2, at2_tabOf n M e j h1 h2, ok_bind]
    rw [ih (j + 1) (fun x hx => hp x (by simp [hx])) (by simp at hj; omega)]
    rfl

theorem selectFrom_sum (S : Nat → Nat → Rat) (p : List Nat) (j : Nat) :
    (selectFrom S j p).sum = scoreFrom S j p := by
  induction p generalizing j with
  | nil => rfl
  | cons e es ih => simp [selectFrom, scoreFrom, ih]

theorem selectFrom_length (S : Nat → Nat → Rat) (p : List Nat) (j : Nat) : (selectFrom S j p).length = p.length := by
  induction p generalizing j with
  | nil => rfl
  | cons e es ih => simp [selectFrom, ih]

theorem mean_selectFrom (S : Nat → Nat → Rat) (p : List Nat) :
    PySep.mean (selectFrom S 0 p) = meanSir p.length S p := by
  simp [PySep.mean, meanSir, score, selectFrom_sum, selectFrom_length]

theorem argmaxAux_spec {α : Type} (f : α → Rat) (all : List α) :
    ∀ (rest : List α) (b : α) (bi i : Nat), all[bi]? = some b → all.drop i = rest →
      all[PySep.argmaxAux (f b) bi i (rest.map f)]? = some (firstMaxBy f b rest) := by
  intro rest
  induction rest with
  | nil => intro b bi i hb _; simpa [PySep.argmaxAux, firstMaxBy] using hb
  | cons x xs ih =>
    intro b bi i hb hd
    have hx : all[i]? = some x := by
      have := congrArg List.head? hd
      simpa [List.head?_drop] using this
    have hd' : all.drop (i + 1) = xs := by
      have := congrArg List.tail hd
      simpa [List.tail_drop] using this
    simp only [List.map_cons, PySep.argmaxAux, firstMaxBy]
    split
    · exact ih x i (i + 1) hx hd'
    · exact ih b bi (i + 1) hb hd'

/-- `perms[np.argmax([f(p) for p in perms])]` is the model's first maximiser. -/
theorem getItem_argmax {α : Type} (f : α → Rat) (p : α) (ps : List α) :
    (PySep.argmax ((p :: ps).map f) >>= fun k => PySep.getItem (p :: ps) k) = .ok (firstMaxBy f p ps) := by
  have := argmaxAux_spec f (p :: ps) ps p 0 1 rfl rfl
  simp only [List.map_cons, PySep.argmax, ok_bind, PySep.getItem, this]

/-- the four outputs of the translated `bss_eval_sources` as the model lists them (`perm` as floats) -/
def outList (x : List Rat × List Rat × List Rat × List Nat) : List (List Rat) :=
  [x.1, x.2.1, x.2.2.1, x.2.2.2.map fun (e : Nat) => (e : Rat)]

/-- the model's result as a list of vectors (`k` empty arrays for the empty special case) -/
def flatOut : Out → List (List Rat)
  | .empties k => List.replicate k []
  | .vecs vs => vs
  | .mats _ => []

theorem promote2_eq (a : Separation.Arr) :
    (if decide (PySep.ndim a = 1) = true then PySep.newaxis0 a else a) = promote2 a := by
  unfold promote2 PySep.ndim PySep.newaxis0
  by_cases h : a.shape.length = 1 <;> simp [h]

theorem validate_shape_ne_nil (R E : Separation.Arr) (hv : validate R E = .ok ()) : E.shape ≠ [] := by
  intro h
  unfold validate at hv
  by_cases h1 : R.shape = E.shape
  · simp [h1, h, Separation.Arr.size, bind, Except.bind, throw, throwThe, MonadExceptOf.throw] at hv
  · simp [h1, bind, Except.bind, throw, throwThe, MonadExceptOf.throw] at hv

theorem selectFrom_diag (M : Nat → Nat → Rat) (k j : Nat) :
    selectFrom M j (List.range' j k) = (List.range' j k).map fun i => M i i := by
  induction k generalizing j with
  | zero => rfl
  | succ k ih => simp [List.range'_succ, selectFrom, ih]

theorem tab2_tabOf (n : Nat) (C : Nat → Nat → Nat → Rat) (o : Nat) (ho : o < 3) :
    PySep.tab2 ((List.range n).map fun e => (List.range n).map fun t => [C e t 0, C e t 1, C e t 2]) o
      = tabOf n (fun e t => C e t o) := by
  have : o = 0 ∨ o = 1 ∨ o = 2 := by omega
  rcases this with rfl | rfl | rfl <;> simp [PySep.tab2, tabOf, List.map_map, Function.comp_def]

theorem mem_perms_range (n : Nat) (p : List Nat) (hp : p ∈ perms (List.range n)) :
    p.length = n ∧ ∀ e ∈ p, e < n := by
  have h := (perms_are_the_permutations (List.range n) p).mp hp
  refine ⟨by simpa using h.length_eq, fun e he => ?_⟩
  have := h.mem_iff.mp he
  simpa using this

theorem fancy2_perm (n : Nat) (M : Nat → Nat → Rat) (p : List Nat) (hp : p ∈ perms (List.range n)) :
    PySep.fancy2 (tabOf n M) p (List.range n) = .ok (selectFrom M 0 p) := by
  obtain ⟨hl, hlt⟩ := mem_perms_range n p hp
  have := fancy2_tabOf n M p 0 hlt (by omega)
  rwa [hl, ← List.range_eq_range'] at this

theorem outList_injective : Function.Injective outList := by
  rintro ⟨a, b, c, p⟩ ⟨a', b', c', p'⟩ h
  simp only [outList, List.cons.injEq, and_true] at h
  obtain ⟨h1, h2, h3, h4⟩ := h
  have : p = p' := List.map_injective_iff.mpr (fun x y hxy => by exact_mod_cast hxy) h4
  simp [h1, h2, h3, this]

theorem validate_shapes (R E : Separation.Arr) (hv : validate R E = .ok ()) : R.shape = E.shape := by
  by_contra h
  unfold validate at hv
  simp [h, bind, Except.bind, throw, throwThe, MonadExceptOf.throw] at hv

theorem validate_ndim (R E : Separation.Arr) (hv : validate R E = .ok ()) (hz : R.size ≠ 0) : 2 ≤ R.shape.length := by
  by_contra h
  have h1 := validate_shapes R E hv
  unfold validate at hv
  have h2 : R.shape.length < 2 := by omega
  simp [h1, hz, h2, bind, Except.bind, throw, throwThe, MonadExceptOf.throw] at hv
  rw [← h1] at hv
  simp [h2, hz] at hv

theorem pySlice_nat {α : Type} (xs : List α) (s e : Nat) :
    PySep.pySlice xs (s : Int) (e : Int) = (xs.drop s).take (e - s) := by
  have h1 : ∀ i : Nat, PySep.normIdx xs.length (i : Int) = min i xs.length := by
    intro i; simp [PySep.normIdx]
  unfold PySep.pySlice
  rw [h1, h1]
  apply List.ext_getElem?
  intro i
  simp only [List.getElem?_take, List.getElem?_drop]
  by_cases hs : s ≤ xs.length
  · by_cases he : e ≤ xs.length
    · simp [Nat.min_eq_left hs, Nat.min_eq_left he]
    · have he' : xs.length ≤ e := by omega
      rw [Nat.min_eq_left hs, Nat.min_eq_right he']
      by_cases hi : i < xs.length - s
      · have : i < e - s := by omega
        simp [hi, this]
      · have : xs.length ≤ s + i := by omega
        simp [hi, List.getElem?_eq_none this]
  · have hs' : xs.length ≤ s := by omega
    have : ∀ k, xs.length ≤ s + k := by intro k; omega
    simp [Nat.min_eq_right hs', List.getElem?_eq_none (this i)]

theorem slice1_eq_model (a : Separation.Arr) (nidx s e : Nat) (h : nidx ≤ a.shape.length) :
    PySep.slice1 a nidx (s : Int) (e : Int) = .ok (sliceArr a s e) := by
  have h1 : ∀ n i : Nat, PySep.normIdx n (i : Int) = min i n := by
    intro n i; simp [PySep.normIdx]
  have : ¬ a.shape.length < nidx := by omega
  simp only [PySep.slice1, this, if_false, sliceArr, h1, pySlice_nat]

abbrev CellMat := List (List Cell)

def matsOut4 (x : CellMat × CellMat × CellMat × CellMat) : List CellMat := [x.1, x.2.1, x.2.2.1, x.2.2.2]

def matsOut5 (x : CellMat × CellMat × CellMat × CellMat × CellMat) : List CellMat :=
  [x.1, x.2.1, x.2.2.1, x.2.2.2.1, x.2.2.2.2]

/-- the model's framewise result as a list of matrices (`k` empty arrays for the empty special case) -/
def flatMats : Out → List CellMat
  | .empties k => List.replicate k []
  | .mats ms => ms
  | .vecs _ => []

theorem sliceArr_shape_length (a : Separation.Arr) (s e : Nat) : (sliceArr a s e).shape.length = a.shape.length := by
  simp [sliceArr]

theorem colOf_range (n : Nat) (f : Nat → Rat) : PySep.colOf n ((List.range n).map f) = .ok ((List.range n).map fun j => Cell.val (f j)) := by
  simp [PySep.colOf, List.map_map, Function.comp_def]

theorem colOfN_range (n : Nat) (f : Nat → Nat) :
    PySep.colOfN n ((List.range n).map f) = .ok ((List.range n).map fun j => Cell.val ((f j : Nat) : Rat)) := by
  simp [PySep.colOfN, PySep.colOf, List.map_map, Function.comp_def]

/-- the cell of window `k`, output `o`, source `j` as the model computes it -/
def wcell (ev : Separation.Arr → Separation.Arr → Bool → Nat → Nat → Rat) (R E : Separation.Arr) (window hop : Int)
    (cp : Bool) (k o j : Nat) : Cell :=
  let r := sliceArr R (k * hop.toNat) (k * hop.toNat + window.toNat)
  let t := sliceArr E (k * hop.toNat) (k * hop.toNat + window.toNat)
  if anySourceSilent r || anySourceSilent t then Cell.nan else .val (ev r t cp o j)

theorem matOfCols_spec (n nw nOut : Nat) (c : Nat → Nat → Nat → Cell) (o : Nat) (ho : o < nOut) :
    PySep.matOfCols n ((List.range nw).map fun k => (List.range nOut).map fun o => (List.range n).map fun j => c k o j) o
      = (List.range n).map fun j => (List.range nw).map fun k => c k o j := by
  unfold PySep.matOfCols
  apply List.map_congr_left
  intro j hj
  have hj' : j < n := List.mem_range.mp hj
  rw [List.map_map]
  apply List.map_congr_left
  intro k _
  simp [ho, hj']

theorem atleast3d_ndim (a : Separation.Arr) : 3 ≤ (atleast3d a).shape.length := by
  obtain ⟨sh, d⟩ := a
  rcases sh with _ | ⟨a, _ | ⟨b, _ | ⟨c, t⟩⟩⟩ <;> simp [atleast3d]

end Mir.C19.Gen
