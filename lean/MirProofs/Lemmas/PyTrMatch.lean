import MirModel.PyTrMatch
import MirProofs.Lemmas.PyEvGlue
import MirProofs.Lemmas.HitMetric
/-
  Lemmas about the run-time library of the generated note-matching functions (`Mir.PyTR`, lean/MirModel/PyTrMatch.lean).
-/
namespace Mir.PyTR
open Mir Mir.Transcription

theorem ok_bind {α β : Type} (a : α) (f : α → Py β) : (Except.ok a >>= f) = f a := rfl
theorem error_bind {α β : Type} (e : PyErr) (f : α → Py β) : ((Except.error e : Py α) >>= f) = Except.error e := rfl

theorem enumFrom'_map {α β : Type} (f : α → β) : ∀ (l : List α) (k : Nat),
    enumFrom' k (l.map f) = (enumFrom' k l).map fun p => (f p.1, p.2)
  | [], _ => rfl
  | x :: l, k => by simp only [List.map_cons, enumFrom', enumFrom'_map f l (k + 1)]

/-- `np.where` of the table of a predicate = the hand model's feasibility graph (row-major) -/
theorem truePairs_outer {α β : Type} (feas : α → β → Bool) (rs : List α) (es : List β) (n m : Nat) :
    truePairs ⟨n, m, rs.map fun r => es.map (feas r)⟩ = hitGraph feas rs es := by
  unfold truePairs hitGraph
  simp only [enumFrom'_map, List.flatMap_map, List.filterMap_map, Function.comp_def]

theorem cmp_apply (strict : Bool) (d t : Rat) :
    (if strict = true then Cmp.less else Cmp.lessEqual).apply d t = cmpTol strict d t := by
  cases strict <;> rfl

theorem roundDec_four (x : Rat) : roundDec 4 x = round4 x := by
  unfold roundDec round4
  norm_num

theorem zip_fst_snd {α β : Type} : ∀ l : List (α × β), List.zip (l.map (·.1)) (l.map (·.2)) = l
  | [] => rfl
  | x :: l => by simp [zip_fst_snd l]

theorem whereM_zip (M : Mat Bool) : List.zip (whereM M).1 (whereM M).2 = truePairs M := zip_fst_snd _

/-- a valid interval list has positive durations -/
theorem validateIntervals1_pos {iv : List Ival} {u : Unit} (h : validateIntervals1 iv = .ok u) :
    ∀ x ∈ iv, absR (x.2 - x.1) = x.2 - x.1 := by
  unfold validateIntervals1 at h
  intro x hx
  by_cases h1 : iv.any (fun x => decide (x.1 < 0) || decide (x.2 < 0)) = true
  · rw [if_pos h1] at h; cases h
  · rw [if_neg h1] at h
    by_cases h2 : iv.any (fun x => decide (x.2 ≤ x.1)) = true
    · rw [if_pos h2] at h; cases h
    · have : ¬ x.2 ≤ x.1 := by
        intro hle
        apply h2
        exact List.any_eq_true.2 ⟨x, hx, by simpa using hle⟩
      unfold absR
      rw [if_neg]
      push_neg at this
      linarith

theorem zipWith_map_map {α β γ δ ε : Type} (op : γ → δ → ε) (f : α → γ) (g : β → δ) : ∀ (l : List α) (l' : List β),
    List.zipWith op (l.map f) (l'.map g) = (l.zip l').map fun p => op (f p.1) (g p.2)
  | [], _ => by simp
  | _ :: _, [] => by simp
  | a :: l, b :: l' => by simp [zipWith_map_map op f g l l']

/-- zipping a table indexed by pairs with a table indexed by the first components -/
theorem zipWith_zip_fst {α β γ δ ε : Type} (op : γ → δ → ε) (F : α × β → γ) (G : α → δ) : ∀ (l : List α) (l' : List β),
    l.length = l'.length →
    List.zipWith op ((l.zip l').map F) (l.map G) = (l.zip l').map fun p => op (F p) (G p.1)
  | [], [], _ => rfl
  | [], _ :: _, h => by simp at h
  | _ :: _, [], h => by simp at h
  | a :: l, b :: l', h => by
    have ih := zipWith_zip_fst op F G l l' (by simpa using h)
    simp only [List.zip_cons_cons, List.map_cons, List.zipWith_cons_cons, ih]

theorem zip_self {α : Type} : ∀ l : List α, List.zip l l = l.map fun r => (r, r)
  | [] => rfl
  | a :: l => by simp [zip_self l]

end Mir.PyTR
