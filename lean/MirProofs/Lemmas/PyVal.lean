import MirModel.PyVal
import MirProofs.Lemmas.Validate

/-! Lemmas about the run-time library of the regenerated validators (`MirModel/PyVal.lean`): every primitive in the terms
    of the hand-written validator model (`MirModel/Validate.lean`). -/
namespace Mir.PyV
open Mir.Validate

@[simp] theorem raiseIf_valueError (c : Bool) : raiseIf .valueError c = check c := rfl

/-- the hand model writes `a != b`, the translator `decide (a ≠ b)` -/
@[simp] theorem bne_nat (a b : Nat) : (a != b) = !decide (a = b) := by
  by_cases h : a = b <;> simp [h]

@[simp] theorem ok_bind {α β : Type} (a : α) (f : α → Py β) : ((Except.ok a : Py α) >>= f) = f a := rfl
@[simp] theorem error_bind {α β : Type} (e : PyErr) (f : α → Py β) :
    ((Except.error e : Py α) >>= f) = Except.error e := rfl
@[simp] theorem check_false : check false = .ok () := rfl
@[simp] theorem check_true : check true = .error .valueError := rfl

/-- a check followed by a certain `ValueError` is a `ValueError` whatever the check says -/
@[simp] theorem check_bind_ve {α : Type} (b : Bool) :
    (check b >>= fun _ => (Except.error .valueError : Py α)) = Except.error .valueError := by
  cases b <;> rfl

@[simp] theorem bind_ok_unit (p : Py Unit) : (p >>= fun _ => (Except.ok () : Py Unit)) = p := by
  cases p <;> rfl

@[simp] theorem bind_pure_unit' (p : Py Unit) : (p >>= fun _ => (pure () : Py Unit)) = p := by
  cases p <;> rfl

@[simp] theorem any_mapB (f : Rat → Bool) (a : Arr) : (mapB f a).any = a.data.any f := by
  simp [Mask.any, mapB, List.any_map, Function.comp_def]

@[simp] theorem all_mapB (f : Rat → Bool) (a : Arr) : (mapB f a).all = a.data.all f := by
  simp [Mask.all, mapB, List.all_map, Function.comp_def]

@[simp] theorem mapB_shape (f : Rat → Bool) (a : Arr) : (mapB f a).shape = a.shape := rfl
@[simp] theorem mapB_data (f : Rat → Bool) (a : Arr) : (mapB f a).data = a.data.map f := rfl

@[simp] theorem all_isfinite (a : Arr) : (isfinite a).all = true := by
  simp [isfinite]

@[simp] theorem abs_shape (a : Arr) : (abs a).shape = a.shape := rfl
@[simp] theorem abs_data (a : Arr) : (abs a).data = a.data.map rabs := rfl
@[simp] theorem abs_ndim (a : Arr) : (abs a).ndim = a.ndim := rfl
@[simp] theorem abs_size (a : Arr) : (abs a).size = a.size := by simp [Arr.size]

theorem rabs_rabs (x : Rat) : rabs (rabs x) = rabs x := by
  unfold rabs
  by_cases h : x < 0
  · have h2 : ¬ (-x < 0) := by linarith
    simp [h, h2]
  · simp [h]
@[simp] theorem rabs_idem (x : Rat) : rabs (rabs x) = rabs x := rabs_rabs x

@[simp] theorem shapeAt_zero (a : Arr) : shapeAt a 0 = a.shape0 := by
  rcases a with ⟨s, d⟩
  cases s <;> rfl

@[simp] theorem isNdarray_eq (a : Arr) : isNdarray a = true := rfl

@[simp] theorem amin_eq (a : Arr) : amin a = npMin a.data := rfl
@[simp] theorem amax_eq (a : Arr) : amax a = npMax a.data := rfl
@[simp] theorem generateLabels_eq (a : Arr) : generateLabels a = a.len := rfl

/-- `np.diff` of a 1-d array is the model's `diffs` -/
theorem diff_of_ndim_one {a : Arr} (h : a.ndim = 1) : diff a = .ok ⟨[a.shape.headD 0 - 1], diffs a.data⟩ := by
  rcases a with ⟨s, d⟩
  match s, h with
  | [k], _ => simp [diff]

theorem diff_data_of_ndim_one {a : Arr} (h : a.ndim = 1) : ∃ s, diff a = .ok ⟨s, diffs a.data⟩ :=
  ⟨_, diff_of_ndim_one h⟩

/-! ### columns of an (n, 2) array -/

theorem zip_everyNth_two (f : Rat → Rat → Bool) : ∀ d : List Rat,
    List.zipWith f (everyNth 2 1 d) (everyNth 2 0 d) = (rows2 d).map fun r => f r.2 r.1
  | [] => by simp [everyNth, rows2]
  | [_] => by simp [everyNth, rows2]
  | a :: b :: t => by
      simp only [everyNth, rows2, List.zipWith_cons_cons, List.map_cons]
      rw [zip_everyNth_two f t]

theorem zip_everyNth_two' (f : Rat → Rat → Bool) : ∀ d : List Rat,
    List.zipWith f (everyNth 2 0 d) (everyNth 2 1 d) = (rows2 d).map fun r => f r.1 r.2
  | [] => by simp [everyNth, rows2]
  | [_] => by simp [everyNth, rows2]
  | a :: b :: t => by
      simp only [everyNth, rows2, List.zipWith_cons_cons, List.map_cons]
      rw [zip_everyNth_two' f t]

/-! ### `x[1:] - x[:-1]` of a 1-d array -/

theorem zipWith_sub_drop_take : ∀ d : List Rat,
    List.zipWith (· - ·) (d.drop 1) (d.take (d.length - 1)) = diffs d
  | [] => by simp [diffs]
  | [_] => by simp [diffs]
  | a :: b :: t => by
      have ih := zipWith_sub_drop_take (b :: t)
      simp only [List.drop_succ_cons, List.drop_zero, List.length_cons, Nat.add_sub_cancel] at ih ⊢
      simp only [List.take_succ_cons, List.zipWith_cons_cons, diffs]
      rw [← ih]

@[simp] theorem zipWith_sub_tail_take (d : List Rat) :
    List.zipWith (fun x1 x2 => x1 - x2) d.tail (d.take (d.length - 1)) = diffs d := by
  have h := zipWith_sub_drop_take d
  simpa using h

theorem tail1_init1_of_ndim_one {a : Arr} (h : a.ndim = 1) :
    ∃ s, tail1 a = .ok ⟨s, a.data.drop 1⟩ ∧ init1 a = .ok ⟨s, a.data.take (a.data.length - 1)⟩ := by
  rcases a with ⟨s, d⟩
  match s, h with
  | [k], _ => exact ⟨[k - 1], by simp [tail1, Arr.prodL], by simp [init1, Arr.prodL]⟩

@[simp] theorem sub_same_shape (s : List Nat) (d1 d2 : List Rat) :
    sub ⟨s, d1⟩ ⟨s, d2⟩ = .ok ⟨s, List.zipWith (· - ·) d1 d2⟩ := by
  simp [sub]

/-- `x[1:] - x[:-1]` of a 1-d array is the model's `diffs` -/
theorem sub_tail_init_of_ndim_one {a : Arr} (h : a.ndim = 1) :
    ∃ s, tail1 a = .ok ⟨s, a.data.drop 1⟩ ∧ init1 a = .ok ⟨s, a.data.take (a.data.length - 1)⟩ ∧
      sub ⟨s, a.data.drop 1⟩ ⟨s, a.data.take (a.data.length - 1)⟩ = .ok ⟨s, diffs a.data⟩ := by
  obtain ⟨s, h1, h2⟩ := tail1_init1_of_ndim_one h
  exact ⟨s, h1, h2, by rw [sub_same_shape, zipWith_sub_drop_take]⟩

theorem zipWith_or_map (f g : Rat → Bool) : ∀ d : List Rat,
    List.zipWith (· || ·) (d.map f) (d.map g) = d.map fun x => f x || g x
  | [] => rfl
  | x :: t => by simp [zipWith_or_map f g t]

/-- `np.logical_or(x < a, x > b)` of ONE array -/
@[simp] theorem maskOr_mapB (f g : Rat → Bool) (a : Arr) :
    maskOr (mapB f a) (mapB g a) = .ok (mapB (fun x => f x || g x) a) := by
  simp [maskOr, mapB]

@[simp] theorem listGet_nil {α : Type} (k : Nat) : listGet ([] : List α) k = .error .indexError := rfl
@[simp] theorem listGet_cons_zero {α : Type} (x : α) (xs : List α) : listGet (x :: xs) 0 = .ok x := rfl

/-- used as a permutation rule: makes proofs insensitive to `a == b` vs `b == a` in the source -/
theorem decide_eq_comm (a b : Nat) : decide (a = b) = decide (b = a) := by
  by_cases h : a = b
  · subst h; rfl
  · have h' : ¬ b = a := fun e => h e.symm
    simp [h, h']

@[simp] theorem beq_nat (a b : Nat) : (a == b) = decide (a = b) := by
  by_cases h : a = b <;> simp [h]

end Mir.PyV
