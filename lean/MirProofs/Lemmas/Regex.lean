import MirModel.Regex
/-!
  Denotational semantics of `Mir.Rx.Regex` and correctness of the executable matcher, for ALL regexes and ALL strings.

  `Matches r l w rest`: the regex `r` matches the word `w` when `l` is everything to the left of `w` in the subject
  string and `rest` everything to its right (the anchors look at `l` and `rest`; nothing else does).

  `ends_sound`: `q ∈ ends r p` iff `q` is `p` advanced over a word that `r` matches there.
  `matchPrefix_iff`: `matchPrefix r s = true ↔ ∃ w rest, s = w ++ rest ∧ Matches r [] w rest`.
-/
namespace Mir.Rx

/-- concatenation of two position-aware word relations -/
def Seq (R₁ R₂ : List Char → List Char → List Char → Prop) (l w rest : List Char) : Prop :=
  ∃ w₁ w₂, w = w₁ ++ w₂ ∧ R₁ l w₁ (w₂ ++ rest) ∧ R₂ (l ++ w₁) w₂ rest

/-- `n`-fold concatenation -/
def Iter (R : List Char → List Char → List Char → Prop) : Nat → List Char → List Char → List Char → Prop
  | 0, _, w, _ => w = []
  | n + 1, l, w, rest => Seq R (Iter R n) l w rest

/-- the language of a regex, relative to its surroundings `l` (left) and `rest` (right) in the subject string -/
def Matches : Regex → List Char → List Char → List Char → Prop
  | .eps, _, w, _ => w = []
  | .lit c, _, w, _ => w = [c]
  | .cls neg rs, _, w, _ => ∃ c, w = [c] ∧ inClass neg rs c = true
  | .any, _, w, _ => ∃ c, w = [c] ∧ c ≠ '\n'
  | .seq a b, l, w, rest => Seq (Matches a) (Matches b) l w rest
  | .alt a b, l, w, rest => Matches a l w rest ∨ Matches b l w rest
  | .star a, l, w, rest => ∃ n, Iter (Matches a) n l w rest
  | .rep a lo hi, l, w, rest => ∃ n, lo ≤ n ∧ n ≤ hi ∧ Iter (Matches a) n l w rest
  | .bos, l, w, _ => w = [] ∧ l = []
  | .eosNl, _, w, rest => w = [] ∧ (rest = [] ∨ rest = ['\n'])
  | .eos, _, w, rest => w = [] ∧ rest = []

/-! ### positions -/

theorem Pos.ext' {p q : Pos} (h₁ : p.atStart = q.atStart) (h₂ : p.rest = q.rest) (h₃ : p.len = q.len) : p = q := by
  cases p; cases q; simp_all

theorem Pos.same_iff {p q : Pos} : p.same q = true ↔ p = q := by
  constructor
  · intro h
    simp only [Pos.same, Bool.and_eq_true, beq_iff_eq] at h
    exact Pos.ext' h.1.2 h.2 h.1.1
  · rintro rfl; simp [Pos.same]

theorem mem_dedup {q : Pos} {ps : List Pos} : q ∈ dedup ps ↔ q ∈ ps := by
  induction ps with
  | nil => simp [dedup]
  | cons p ps ih =>
    unfold dedup
    split
    · next h =>
      obtain ⟨x, hx, hs⟩ := List.any_eq_true.1 h
      have : x = p := (Pos.same_iff.1 hs).symm
      subst this
      rw [ih]
      constructor
      · exact fun h => List.mem_cons_of_mem _ h
      · intro h
        rcases List.mem_cons.1 h with rfl | h
        · exact hx
        · exact h
    · simp [ih]

/-- `q` is `p` advanced over the word `w`, which `R` relates to its surroundings -/
def StepW (R : List Char → List Char → List Char → Prop) (l : List Char) (p q : Pos) (w : List Char) : Prop :=
  p.rest = w ++ q.rest ∧ R l w q.rest ∧ q.atStart = (p.atStart && w.isEmpty) ∧ q.len = p.len - w.length

def Step (R : List Char → List Char → List Char → Prop) (l : List Char) (p q : Pos) : Prop :=
  ∃ w, StepW R l p q w

/-- a step function computes exactly the `R`-steps -/
def Sound (step : Pos → List Pos) (R : List Char → List Char → List Char → Prop) : Prop :=
  ∀ (l : List Char) (p q : Pos), p.atStart = l.isEmpty → (q ∈ step p ↔ Step R l p q)

theorem step_congr {R R' : List Char → List Char → List Char → Prop} {l : List Char} {p q : Pos}
    (h : ∀ w, p.rest = w ++ q.rest → (R l w q.rest ↔ R' l w q.rest)) : Step R l p q ↔ Step R' l p q := by
  constructor
  · rintro ⟨w, h1, h2, h3⟩; exact ⟨w, h1, (h w h1).1 h2, h3⟩
  · rintro ⟨w, h1, h2, h3⟩; exact ⟨w, h1, (h w h1).2 h2, h3⟩

theorem atStart_append {l w : List Char} {b : Bool} (h : b = l.isEmpty) : (b && w.isEmpty) = (l ++ w).isEmpty := by
  subst h; cases l <;> simp

/-- composition of steps is the step of the concatenation -/
theorem step_seq {R₁ R₂ : List Char → List Char → List Char → Prop} {l : List Char} {p q : Pos} :
    (∃ m w₁, StepW R₁ l p m w₁ ∧ Step R₂ (l ++ w₁) m q) ↔ Step (Seq R₁ R₂) l p q := by
  constructor
  · rintro ⟨m, w₁, ⟨h1, h2, h3, h4⟩, w₂, g1, g2, g3, g4⟩
    refine ⟨w₁ ++ w₂, ?_, ⟨w₁, w₂, rfl, ?_, g2⟩, ?_, ?_⟩
    · rw [h1, g1, List.append_assoc]
    · rw [← g1]; exact h2
    · rw [g3, h3]; cases w₁ <;> simp
    · rw [g4, h4, List.length_append]; omega
  · rintro ⟨w, h1, ⟨w₁, w₂, rfl, r1, r2⟩, h3, h4⟩
    refine ⟨⟨p.atStart && w₁.isEmpty, w₂ ++ q.rest, p.len - w₁.length⟩, w₁, ⟨?_, r1, rfl, rfl⟩, w₂, rfl, r2, ?_, ?_⟩
    · rw [h1, List.append_assoc]
    · rw [h3]; cases w₁ <;> simp
    · rw [h4, List.length_append]; simp only; omega

/-! ### single characters and anchors -/

theorem mem_stepChar {ok : Char → Bool} {p q : Pos} :
    q ∈ stepChar ok p ↔ ∃ c, p.rest = c :: q.rest ∧ ok c = true ∧ q.atStart = false ∧ q.len = p.len - 1 := by
  unfold stepChar
  split
  · next h => simp [h]
  · next c cs h =>
    split
    · next hok =>
      simp only [List.mem_singleton, h]
      constructor
      · rintro rfl; exact ⟨c, rfl, hok, rfl, rfl⟩
      · rintro ⟨c', hc, _, h3, h4⟩
        injection hc with e1 e2
        exact Pos.ext' h3 e2.symm h4
    · next hok =>
      simp only [List.not_mem_nil, false_iff, h]
      rintro ⟨c', hc, hok', _⟩
      injection hc with e1 e2
      subst e1; exact hok hok'

theorem sound_char {ok : Char → Bool} {R : List Char → List Char → List Char → Prop}
    (hR : ∀ l w rest, R l w rest ↔ ∃ c, w = [c] ∧ ok c = true) : Sound (stepChar ok) R := by
  intro l p q _
  rw [mem_stepChar]
  constructor
  · rintro ⟨c, h1, h2, h3, h4⟩
    exact ⟨[c], by simpa using h1, (hR _ _ _).2 ⟨c, rfl, h2⟩, by simp [h3], by simpa using h4⟩
  · rintro ⟨w, h1, h2, h3, h4⟩
    obtain ⟨c, rfl, hc⟩ := (hR _ _ _).1 h2
    exact ⟨c, by simpa using h1, hc, by simpa using h3, by simpa using h4⟩

/-- a step that consumes nothing stays where it is -/
theorem step_nil_iff {R : List Char → List Char → List Char → Prop} {l : List Char} {p q : Pos}
    (hR : ∀ w, R l w q.rest → w = []) : Step R l p q ↔ q = p ∧ R l [] p.rest := by
  constructor
  · rintro ⟨w, h1, h2, h3, h4⟩
    have := hR w h2; subst this
    have e : q = p := Pos.ext' (by simpa using h3) (by simpa using h1.symm) (by simpa using h4)
    subst e; exact ⟨rfl, h2⟩
  · rintro ⟨rfl, h⟩
    exact ⟨[], by simp, h, by simp, by simp⟩

/-! ### iteration -/

/-- `q` is reachable from `p` by exactly `n` applications of `step` -/
def Reach (step : Pos → List Pos) : Nat → Pos → Pos → Prop
  | 0, p, q => q = p
  | n + 1, p, q => ∃ m, m ∈ step p ∧ Reach step n m q

theorem mem_exactly {step : Pos → List Pos} {n : Nat} {fr : List Pos} {q : Pos} :
    q ∈ exactly step n fr ↔ ∃ p ∈ fr, Reach step n p q := by
  induction n generalizing fr with
  | zero => simp [exactly, Reach]
  | succ n ih =>
    simp only [exactly, ih, mem_dedup, List.mem_flatMap, Reach]
    constructor
    · rintro ⟨m, ⟨p, hp, hm⟩, hr⟩; exact ⟨p, hp, m, hm, hr⟩
    · rintro ⟨p, hp, m, hm, hr⟩; exact ⟨m, ⟨p, hp, hm⟩, hr⟩

theorem mem_upTo {step : Pos → List Pos} {n : Nat} {fr : List Pos} {q : Pos} :
    q ∈ upTo step n fr ↔ ∃ p ∈ fr, ∃ k, k ≤ n ∧ Reach step k p q := by
  induction n generalizing fr with
  | zero =>
    simp only [upTo, Nat.le_zero_eq]
    constructor
    · intro h; exact ⟨q, h, 0, rfl, rfl⟩
    · rintro ⟨p, hp, k, rfl, hr⟩; simp only [Reach] at hr; subst hr; exact hp
  | succ n ih =>
    unfold upTo
    split
    · next he =>
      have : fr = [] := List.isEmpty_iff.1 he
      subst this; simp
    · simp only [List.mem_append, ih, mem_dedup, List.mem_flatMap]
      constructor
      · rintro (h | ⟨m, ⟨p, hp, hm⟩, k, hk, hr⟩)
        · exact ⟨q, h, 0, Nat.zero_le _, rfl⟩
        · exact ⟨p, hp, k + 1, Nat.succ_le_succ hk, m, hm, hr⟩
      · rintro ⟨p, hp, k, hk, hr⟩
        cases k with
        | zero => simp only [Reach] at hr; subst hr; exact Or.inl hp
        | succ k =>
          obtain ⟨m, hm, hr⟩ := hr
          exact Or.inr ⟨m, ⟨p, hp, hm⟩, k, Nat.le_of_succ_le_succ hk, hr⟩

theorem reach_add {step : Pos → List Pos} {a b : Nat} {p q : Pos} :
    Reach step (a + b) p q ↔ ∃ m, Reach step a p m ∧ Reach step b m q := by
  induction a generalizing p with
  | zero => simp [Reach]
  | succ a ih =>
    rw [Nat.succ_add]
    simp only [Reach, ih]
    constructor
    · rintro ⟨m, hm, m', h1, h2⟩; exact ⟨m', ⟨m, hm, h1⟩, h2⟩
    · rintro ⟨m', ⟨m, hm, h1⟩, h2⟩; exact ⟨m, hm, m', h1, h2⟩

theorem reach_iff {step : Pos → List Pos} {R : List Char → List Char → List Char → Prop} (hs : Sound step R)
    {n : Nat} {l : List Char} {p q : Pos} (hp : p.atStart = l.isEmpty) :
    Reach step n p q ↔ Step (Iter R n) l p q := by
  induction n generalizing l p with
  | zero =>
    simp only [Reach]
    rw [step_nil_iff (fun w h => h)]
    simp [Iter]
  | succ n ih =>
    simp only [Reach, Iter]
    rw [← step_seq]
    constructor
    · rintro ⟨m, hm, hr⟩
      obtain ⟨w₁, hw⟩ := (hs l p m hp).1 hm
      have hm' : m.atStart = (l ++ w₁).isEmpty := by rw [hw.2.2.1]; exact atStart_append hp
      exact ⟨m, w₁, hw, (ih hm').1 hr⟩
    · rintro ⟨m, w₁, hw, hr⟩
      have hm' : m.atStart = (l ++ w₁).isEmpty := by rw [hw.2.2.1]; exact atStart_append hp
      exact ⟨m, (hs l p m hp).2 ⟨w₁, hw⟩, (ih hm').2 hr⟩

/-- iterations that consume nothing can be dropped: `|w|` iterations are always enough -/
theorem iter_bound {R : List Char → List Char → List Char → Prop} {n : Nat} {l w rest : List Char}
    (h : Iter R n l w rest) : ∃ m, m ≤ w.length ∧ m ≤ n ∧ Iter R m l w rest := by
  induction n generalizing l w with
  | zero => exact ⟨0, Nat.zero_le _, Nat.le_refl _, h⟩
  | succ n ih =>
    obtain ⟨w₁, w₂, rfl, h1, h2⟩ := h
    obtain ⟨m, hm, hmn, hi⟩ := ih h2
    cases w₁ with
    | nil =>
      refine ⟨m, by simpa using hm, Nat.le_succ_of_le hmn, ?_⟩
      simpa using hi
    | cons c cs =>
      refine ⟨m + 1, ?_, Nat.succ_le_succ hmn, c :: cs, w₂, rfl, h1, hi⟩
      simp only [List.length_append, List.length_cons]; omega

/-! ### the matcher is correct -/

theorem ends_sound (r : Regex) : Sound (ends r) (Matches r) := by
  induction r with
  | eps =>
    intro l p q _
    rw [step_nil_iff (fun w h => h)]
    simp [ends, Matches]
  | lit c =>
    exact sound_char (ok := fun x => x == c) (fun l w rest => by simp [Matches])
  | cls neg rs =>
    exact sound_char (fun l w rest => by simp [Matches])
  | any =>
    exact sound_char (ok := fun x => x != '\n') (fun l w rest => by simp [Matches])
  | seq a b iha ihb =>
    intro l p q hp
    simp only [ends, mem_dedup, List.mem_flatMap, Matches]
    rw [← step_seq]
    constructor
    · rintro ⟨m, hm, hq⟩
      obtain ⟨w₁, hw⟩ := (iha l p m hp).1 hm
      have hm' : m.atStart = (l ++ w₁).isEmpty := by rw [hw.2.2.1]; exact atStart_append hp
      exact ⟨m, w₁, hw, (ihb _ m q hm').1 hq⟩
    · rintro ⟨m, w₁, hw, hq⟩
      have hm' : m.atStart = (l ++ w₁).isEmpty := by rw [hw.2.2.1]; exact atStart_append hp
      exact ⟨m, (iha l p m hp).2 ⟨w₁, hw⟩, (ihb _ m q hm').2 hq⟩
  | alt a b iha ihb =>
    intro l p q hp
    simp only [ends, mem_dedup, List.mem_append, iha l p q hp, ihb l p q hp, Matches]
    constructor
    · rintro (⟨w, h1, h2, h3⟩ | ⟨w, h1, h2, h3⟩)
      · exact ⟨w, h1, Or.inl h2, h3⟩
      · exact ⟨w, h1, Or.inr h2, h3⟩
    · rintro ⟨w, h1, h2 | h2, h3⟩
      · exact Or.inl ⟨w, h1, h2, h3⟩
      · exact Or.inr ⟨w, h1, h2, h3⟩
  | star a iha =>
    intro l p q hp
    simp only [ends, mem_dedup, mem_upTo, List.mem_singleton, exists_eq_left, Matches]
    constructor
    · rintro ⟨k, _, hr⟩
      obtain ⟨w, h1, h2, h3⟩ := (reach_iff iha hp).1 hr
      exact ⟨w, h1, ⟨k, h2⟩, h3⟩
    · rintro ⟨w, h1, ⟨n, h2⟩, h3⟩
      obtain ⟨m, hm, _, hi⟩ := iter_bound h2
      refine ⟨m, ?_, (reach_iff iha hp).2 ⟨w, h1, hi, h3⟩⟩
      rw [h1, List.length_append]; omega
  | rep a lo hi iha =>
    intro l p q hp
    simp only [ends, Matches]
    split
    · next hle =>
      simp only [mem_dedup, mem_upTo, mem_exactly, List.mem_singleton, exists_eq_left]
      constructor
      · rintro ⟨m, hm, k, hk, hr⟩
        have : Reach (ends a) (lo + k) p q := reach_add.2 ⟨m, hm, hr⟩
        obtain ⟨w, h1, h2, h3⟩ := (reach_iff iha hp).1 this
        exact ⟨w, h1, ⟨lo + k, Nat.le_add_right _ _, by omega, h2⟩, h3⟩
      · rintro ⟨w, h1, ⟨n, hlo, hhi, h2⟩, h3⟩
        have hr : Reach (ends a) (lo + (n - lo)) p q := by
          rw [Nat.add_sub_cancel' hlo]; exact (reach_iff iha hp).2 ⟨w, h1, h2, h3⟩
        obtain ⟨m, hm, hr'⟩ := reach_add.1 hr
        exact ⟨m, hm, n - lo, by omega, hr'⟩
    · next hle =>
      simp only [List.not_mem_nil, false_iff]
      rintro ⟨w, _, ⟨n, hlo, hhi, _⟩, _⟩
      omega
  | bos =>
    intro l p q hp
    rw [step_nil_iff (fun w h => h.1)]
    simp only [ends, Matches, true_and]
    cases l <;> simp_all
  | eosNl =>
    intro l p q _
    rw [step_nil_iff (fun w h => h.1)]
    simp only [ends, Matches, true_and]
    split
    · next h =>
      simp only [List.mem_singleton, iff_self_and]
      intro _
      simpa [List.isEmpty_iff] using h
    · next h =>
      simp only [List.not_mem_nil, false_iff, not_and]
      intro _ h'
      apply h
      simpa [List.isEmpty_iff] using h'
  | eos =>
    intro l p q _
    rw [step_nil_iff (fun w h => h.1)]
    simp only [ends, Matches, true_and]
    split
    · next h =>
      simp only [List.mem_singleton, iff_self_and]
      intro _
      simpa [List.isEmpty_iff] using h
    · next h =>
      simp only [List.not_mem_nil, false_iff, not_and]
      intro _ h'
      apply h
      simpa [List.isEmpty_iff] using h'

/-- the positions a match that starts at index 0 can end at: exactly the splits `s = w ++ rest` with `w ∈ L(r)` there -/
theorem mem_ends_start {r : Regex} {s : List Char} {q : Pos} :
    q ∈ ends r (Pos.start s) ↔ ∃ w, s = w ++ q.rest ∧ Matches r [] w q.rest ∧ q.atStart = w.isEmpty ∧
      q.len = s.length - w.length := by
  rw [ends_sound r [] (Pos.start s) q rfl]
  simp [Step, StepW, Pos.start]

/-- `pattern.match(s)` succeeds iff some prefix of `s` is in the language of the pattern, the anchors being
    interpreted against the whole of `s` -/
theorem matchPrefix_iff (r : Regex) (s : List Char) :
    matchPrefix r s = true ↔ ∃ w rest, s = w ++ rest ∧ Matches r [] w rest := by
  unfold matchPrefix
  constructor
  · intro h
    cases he : ends r (Pos.start s) with
    | nil => simp [he] at h
    | cons q qs =>
      have hq : q ∈ ends r (Pos.start s) := by rw [he]; exact List.mem_cons_self
      obtain ⟨w, h1, h2, _⟩ := mem_ends_start.1 hq
      exact ⟨w, q.rest, h1, h2⟩
  · rintro ⟨w, rest, h1, h2⟩
    have : (⟨w.isEmpty, rest, s.length - w.length⟩ : Pos) ∈ ends r (Pos.start s) :=
      mem_ends_start.2 ⟨w, h1, h2, rfl, rfl⟩
    cases he : ends r (Pos.start s) with
    | nil => rw [he] at this; cases this
    | cons q qs => rfl

/-- `pattern.fullmatch(s)` succeeds iff the whole of `s` is in the language -/
theorem fullMatch_iff (r : Regex) (s : List Char) : fullMatch r s = true ↔ Matches r [] s [] := by
  unfold fullMatch
  rw [List.any_eq_true]
  constructor
  · rintro ⟨q, hq, he⟩
    obtain ⟨w, h1, h2, _⟩ := mem_ends_start.1 hq
    have : q.rest = [] := List.isEmpty_iff.1 he
    rw [this] at h1 h2
    simp only [List.append_nil] at h1
    subst h1; exact h2
  · intro h
    exact ⟨⟨s.isEmpty, [], s.length - s.length⟩, mem_ends_start.2 ⟨s, by simp, h, rfl, rfl⟩, rfl⟩

end Mir.Rx
