import MirModel.Scores
import Mathlib.Algebra.Order.Field.Basic
import Mathlib.Algebra.Order.Field.Rat
import Mathlib.Tactic.Positivity
import Mathlib.Tactic.Linarith
import Mathlib.Tactic.FieldSimp
import Mathlib.Tactic.Ring

namespace Mir

theorem fMeasure_nonneg {p r b : Rat} (hp : 0 ≤ p) (hr : 0 ≤ r) : 0 ≤ fMeasure p r b := by
  unfold fMeasure
  split
  · exact le_refl _
  · apply div_nonneg
    · have : 0 ≤ b * b := mul_self_nonneg b
      positivity
    · have : 0 ≤ b * b := mul_self_nonneg b
      positivity

theorem fMeasure_le_one {p r b : Rat} (hp0 : 0 ≤ p) (hr0 : 0 ≤ r) (hp : p ≤ 1) (hr : r ≤ 1) :
    fMeasure p r b ≤ 1 := by
  unfold fMeasure
  split
  · exact zero_le_one
  · rename_i h
    have hb : 0 ≤ b * b := mul_self_nonneg b
    have hden : 0 ≤ b * b * p + r := by positivity
    rcases eq_or_lt_of_le hden with h0 | hpos
    · rw [← h0]; simp
    · rw [div_le_one hpos]
      nlinarith [mul_nonneg hb hp0, mul_nonneg (mul_nonneg hb hp0) (sub_nonneg.2 hr),
                 mul_nonneg hr0 (sub_nonneg.2 hp)]

theorem fMeasure_symm (p r : Rat) : fMeasure p r 1 = fMeasure r p 1 := by
  unfold fMeasure
  by_cases h : p = 0 ∧ r = 0
  · have h' : r = 0 ∧ p = 0 := ⟨h.2, h.1⟩
    simp [h]
  · have h' : ¬ (r = 0 ∧ p = 0) := fun hh => h ⟨hh.2, hh.1⟩
    simp only [h, h', if_false]
    ring_nf

theorem fMeasure_one (b : Rat) : fMeasure 1 1 b = 1 := by
  unfold fMeasure
  have hb : 0 ≤ b * b := mul_self_nonneg b
  have : (b * b * 1 + 1 : Rat) ≠ 0 := by nlinarith
  simp only [one_ne_zero, and_self, if_false]
  field_simp
  ring

/-- F is monotone in precision and recall (used for every "looser criterion" statement) -/
theorem fMeasure_mono {p r p' r' b : Rat} (hp0 : 0 ≤ p) (hr0 : 0 ≤ r) (hp : p ≤ p') (hr : r ≤ r') :
    fMeasure p r b ≤ fMeasure p' r' b := by
  have hp'0 : 0 ≤ p' := le_trans hp0 hp
  have hr'0 : 0 ≤ r' := le_trans hr0 hr
  have hb : 0 ≤ b * b := mul_self_nonneg b
  by_cases h0 : p = 0 ∧ r = 0
  · have : fMeasure p r b = 0 := by unfold fMeasure; simp [h0]
    rw [this]; exact fMeasure_nonneg hp'0 hr'0
  · have h0' : ¬ (p' = 0 ∧ r' = 0) := by
      rintro ⟨h1, h2⟩
      exact h0 ⟨le_antisymm (h1 ▸ hp) hp0, le_antisymm (h2 ▸ hr) hr0⟩
    unfold fMeasure
    simp only [h0, h0', if_false]
    have hd : 0 ≤ b * b * p + r := by positivity
    have hd' : 0 ≤ b * b * p' + r' := by positivity
    rcases eq_or_lt_of_le hd with hz | hpos
    · rw [← hz]; simp
      apply div_nonneg <;> positivity
    · have hpos' : 0 < b * b * p' + r' := by
        have : b * b * p + r ≤ b * b * p' + r' := by nlinarith
        linarith
      rw [div_le_div_iff₀ hpos hpos']
      have e1 : 0 ≤ (b * b) * (p * p') * (r' - r) :=
        mul_nonneg (mul_nonneg hb (mul_nonneg hp0 hp'0)) (sub_nonneg.2 hr)
      have e2 : 0 ≤ (r * r') * (p' - p) := mul_nonneg (mul_nonneg hr0 hr'0) (sub_nonneg.2 hp)
      have e3 : 0 ≤ 1 + b * b := by positivity
      have key : p * r * (b * b * p' + r') ≤ p' * r' * (b * b * p + r) := by nlinarith
      nlinarith [mul_le_mul_of_nonneg_left key e3]

end Mir
