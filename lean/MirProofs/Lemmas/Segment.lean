import MirModel.Segment
import MirProofs.Lemmas.Scores
import Mathlib.Algebra.BigOperators.Group.List.Basic
import Mathlib.Algebra.Order.Field.Basic
import Mathlib.Algebra.Order.Field.Rat
import Mathlib.Data.List.Nodup
import Mathlib.Data.List.ProdSigma
import Mathlib.Data.Finset.Card
import Mathlib.Data.Finset.Image
import Mathlib.Tactic.Positivity
import Mathlib.Tactic.Linarith
import Mathlib.Tactic.FieldSimp
import Mathlib.Tactic.Ring
import Mathlib.Tactic.Push

/-!
  Lemmas about the pair-counting part of `MirModel.Segment` (for C16 and reuse by C01/C02/C06/C08).
-/
namespace Mir
namespace Segment

/-! ### counting pairs of list positions related by a Boolean relation -/

/-- `Σ_{p ∈ z} #{q ∈ z | r p q}` — the sum of an `n × n` Boolean matrix built from a relation. -/
def cnt {β : Type} (r : β → β → Bool) (z : List β) : Nat := (z.map fun p => z.countP (r p)).sum

theorem matSum_map_map {β : Type} (r : β → β → Bool) (z w : List β) :
    matSum (z.map fun p => w.map fun q => r p q) = (z.map fun p => w.countP (r p)).sum := by
  unfold matSum
  rw [List.map_map]
  congr 1
  apply List.map_congr_left
  intro p _
  simp [List.countP_map, Function.comp_def]

theorem matSum_eqMat (y : List Nat) : matSum (eqMat y) = cnt (fun a b => a == b) y := by
  unfold eqMat cnt
  exact matSum_map_map _ y y

theorem zipWith_map_map {α β γ δ ε : Type} (f : γ → δ → ε) (g : α → γ) (h : β → δ) (l : List α) (l' : List β) :
    List.zipWith f (l.map g) (l'.map h) = (l.zip l').map fun p => f (g p.1) (h p.2) := by
  induction l generalizing l' with
  | nil => simp
  | cons a l ih => cases l' with
    | nil => simp
    | cons b l' => simp [ih]

theorem matAnd_eqMat (yr ye : List Nat) :
    matAnd (eqMat yr) (eqMat ye) =
      (yr.zip ye).map fun p => (yr.zip ye).map fun q => (p.1 == q.1 && p.2 == q.2) := by
  unfold matAnd eqMat
  rw [zipWith_map_map]
  apply List.map_congr_left
  intro p _
  rw [zipWith_map_map]

theorem matSum_matAnd (yr ye : List Nat) :
    matSum (matAnd (eqMat yr) (eqMat ye)) = cnt (fun p q => p.1 == q.1 && p.2 == q.2) (yr.zip ye) := by
  rw [matAnd_eqMat]
  exact matSum_map_map _ _ _

theorem matNot_eqMat (y : List Nat) : matNot (eqMat y) = y.map fun a => y.map fun b => !(a == b) := by
  unfold matNot eqMat
  simp [List.map_map, Function.comp_def]

theorem matSum_matAnd_not (yr ye : List Nat) :
    matSum (matAnd (matNot (eqMat yr)) (matNot (eqMat ye))) =
      cnt (fun p q => !(p.1 == q.1) && !(p.2 == q.2)) (yr.zip ye) := by
  rw [matNot_eqMat, matNot_eqMat]
  unfold matAnd
  rw [zipWith_map_map]
  have : ((yr.zip ye).map fun p =>
      List.zipWith (fun x1 x2 => x1 && x2) (yr.map fun b => !(p.1 == b)) (ye.map fun b => !(p.2 == b))) =
      (yr.zip ye).map fun p => (yr.zip ye).map fun q => (!(p.1 == q.1) && !(p.2 == q.2)) := by
    apply List.map_congr_left
    intro p _
    rw [zipWith_map_map]
  rw [this]
  exact matSum_map_map _ _ _

theorem cnt_map {β γ : Type} (r : γ → γ → Bool) (f : β → γ) (z : List β) :
    cnt (fun p q => r (f p) (f q)) z = cnt r (z.map f) := by
  unfold cnt
  rw [List.map_map]
  congr 1
  apply List.map_congr_left
  intro p _
  simp [List.countP_map, Function.comp_def]

theorem cnt_congr {β : Type} (r s : β → β → Bool) (z : List β)
    (h : ∀ p ∈ z, ∀ q ∈ z, r p q = s p q) : cnt r z = cnt s z := by
  unfold cnt
  congr 1
  apply List.map_congr_left
  intro p hp
  apply List.countP_congr
  intro q hq
  rw [h p hp q hq]

theorem countP_incl_excl {β : Type} (r s : β → Bool) (z : List β) :
    z.countP (fun q => !(r q) && !(s q)) + z.countP r + z.countP s =
      z.length + z.countP (fun q => r q && s q) := by
  induction z with
  | nil => simp
  | cons a z ih =>
    simp only [List.countP_cons, List.length_cons]
    cases r a <;> cases s a <;> simp <;> omega

theorem sum_map_add_nat {β : Type} (f g : β → Nat) (z : List β) :
    (z.map fun p => f p + g p).sum = (z.map f).sum + (z.map g).sum := by
  induction z with
  | nil => simp
  | cons a z ih => simp [ih]; omega

theorem cnt_incl_excl {β : Type} (r s : β → β → Bool) (z : List β) :
    cnt (fun p q => !(r p q) && !(s p q)) z + cnt r z + cnt s z =
      z.length * z.length + cnt (fun p q => r p q && s p q) z := by
  unfold cnt
  have h1 : ∀ p, z.countP (fun q => !(r p q) && !(s p q)) + z.countP (r p) + z.countP (s p) =
      z.length + z.countP (fun q => r p q && s p q) := fun p => countP_incl_excl (r p) (s p) z
  rw [← sum_map_add_nat, ← sum_map_add_nat]
  have : (z.map fun p => z.countP (fun q => !(r p q) && !(s p q)) + z.countP (r p) + z.countP (s p)) =
      z.map fun p => z.length + z.countP (fun q => r p q && s p q) := by
    apply List.map_congr_left; intro p _; exact h1 p
  rw [this, sum_map_add_nat]
  simp

/-! ### `sortedUniq` on naturals: a strictly increasing list with the same members -/

theorem mem_insertUniq {α : Type} [LT α] [DecidableRel (α := α) (· < ·)] [DecidableEq α]
    {a x : α} {l : List α} : x ∈ insertUniq a l ↔ x = a ∨ x ∈ l := by
  induction l with
  | nil => simp [insertUniq]
  | cons b l ih =>
    unfold insertUniq
    split
    · simp
    · split
      · rename_i h; subst h; simp
      · simp [ih]; tauto

theorem pairwise_insertUniq {a : Nat} {l : List Nat} (h : l.Pairwise (· < ·)) :
    (insertUniq a l).Pairwise (· < ·) := by
  induction l with
  | nil => simp [insertUniq]
  | cons b l ih =>
    unfold insertUniq
    rw [List.pairwise_cons] at h
    split
    · rename_i hab
      rw [List.pairwise_cons]
      refine ⟨?_, List.pairwise_cons.2 h⟩
      intro x hx
      rcases List.mem_cons.1 hx with rfl | hx
      · exact hab
      · exact lt_trans hab (h.1 x hx)
    · split
      · exact List.pairwise_cons.2 h
      · rename_i h1 h2
        rw [List.pairwise_cons]
        refine ⟨?_, ih h.2⟩
        intro x hx
        rcases mem_insertUniq.1 hx with rfl | hx
        · omega
        · exact h.1 x hx

theorem mem_sortedUniq {α : Type} [LT α] [DecidableRel (α := α) (· < ·)] [DecidableEq α]
    {x : α} {l : List α} : x ∈ sortedUniq l ↔ x ∈ l := by
  induction l with
  | nil => simp [sortedUniq]
  | cons a l ih =>
    have : sortedUniq (a :: l) = insertUniq a (sortedUniq l) := rfl
    rw [this, mem_insertUniq, ih]; simp

theorem pairwise_sortedUniq (l : List Nat) : (sortedUniq l).Pairwise (· < ·) := by
  induction l with
  | nil => simp [sortedUniq]
  | cons a l ih => exact pairwise_insertUniq ih

theorem nodup_sortedUniq (l : List Nat) : (sortedUniq l).Nodup :=
  (pairwise_sortedUniq l).imp (fun h => Nat.ne_of_lt h)

theorem mem_classes {x : Nat} {y : List Nat} : x ∈ classes y ↔ x ∈ y := mem_sortedUniq

theorem nodup_classes (y : List Nat) : (classes y).Nodup := nodup_sortedUniq y

theorem length_classes (y : List Nat) : (classes y).length = y.toFinset.card := by
  rw [← List.toFinset_card_of_nodup (nodup_classes y)]
  congr 1
  ext x
  simp [mem_classes]

theorem length_classes_map {f : Nat → Nat} (hf : Function.Injective f) (y : List Nat) :
    (classes (y.map f)).length = (classes y).length := by
  have : (y.map f).toFinset = y.toFinset.image f := by ext x; simp
  rw [length_classes, length_classes, this, Finset.card_image_of_injective _ hf]

/-! ### grouping a sum over a list by the distinct values -/

theorem sum_ite_eq_of_nodup {β : Type} [BEq β] [LawfulBEq β] (cs : List β) (x : β) (g : β → Nat)
    (hn : cs.Nodup) (hx : x ∈ cs) : (cs.map fun c => if c == x then g c else 0).sum = g x := by
  induction cs with
  | nil => simp at hx
  | cons c cs ih =>
    rw [List.nodup_cons] at hn
    simp only [List.map_cons, List.sum_cons]
    by_cases hc : c = x
    · subst hc
      have : (cs.map fun c' => if c' == c then g c' else 0) = cs.map fun _ => 0 := by
        apply List.map_congr_left
        intro c' hc'
        have : c' ≠ c := fun e => hn.1 (e ▸ hc')
        simp [this]
      rw [this]; simp
    · have hx' : x ∈ cs := by
        rcases List.mem_cons.1 hx with h | h
        · exact absurd h.symm hc
        · exact h
      simp [hc, ih hn.2 hx']

/-- `Σ_{x ∈ l} g x = Σ_{c ∈ cs} (count c l) · g c` for a duplicate-free list `cs` covering `l`. -/
theorem sum_map_eq_sum_count {β : Type} [BEq β] [LawfulBEq β] (l cs : List β) (g : β → Nat)
    (hn : cs.Nodup) (hc : ∀ x ∈ l, x ∈ cs) :
    (l.map g).sum = (cs.map fun c => l.count c * g c).sum := by
  induction l with
  | nil => simp
  | cons x l ih =>
    have hx : x ∈ cs := hc x (List.mem_cons_self ..)
    have ih' := ih (fun y hy => hc y (List.mem_cons_of_mem _ hy))
    simp only [List.map_cons, List.sum_cons, ih']
    have : (cs.map fun c => (x :: l).count c * g c) =
        cs.map fun c => (if c == x then g c else 0) + l.count c * g c := by
      apply List.map_congr_left
      intro c _
      rw [List.count_cons]
      by_cases h : c = x
      · subst h; simp; ring
      · have h' : ¬ (x = c) := fun e => h e.symm
        simp [h, h']
    rw [this, sum_map_add_nat, sum_ite_eq_of_nodup cs x g hn hx]

/-- splitting a `countP` along the (duplicate-free, covering) values of a key. -/
theorem countP_eq_sum_countP_key {β γ : Type} [BEq γ] [LawfulBEq γ] (l : List β) (cs : List γ) (P : β → Bool)
    (f : β → γ) (hn : cs.Nodup) (hc : ∀ x ∈ l, f x ∈ cs) :
    l.countP P = (cs.map fun c => l.countP fun x => P x && f x == c).sum := by
  induction l with
  | nil => simp
  | cons x l ih =>
    have hx : f x ∈ cs := hc x (List.mem_cons_self ..)
    have ih' := ih (fun y hy => hc y (List.mem_cons_of_mem _ hy))
    have : (cs.map fun c => (x :: l).countP fun x => P x && f x == c) =
        cs.map fun c => (if c == f x then (if P x then 1 else 0) else 0) + l.countP fun x => P x && f x == c := by
      apply List.map_congr_left
      intro c _
      rw [List.countP_cons]
      by_cases h : c = f x
      · subst h; cases P x <;> simp
        omega
      · have h' : ¬ (f x = c) := fun e => h e.symm
        simp [h, h']
    rw [this, sum_map_add_nat, sum_ite_eq_of_nodup cs (f x) (fun _ => if P x then 1 else 0) hn hx, ← ih',
      List.countP_cons]
    cases P x <;> simp
    omega

/-! ### binomial sums of a family of class sizes = pair counts -/

theorem two_mul_choose2 (n : Nat) : 2 * choose2 n = n * n - n := by
  unfold choose2
  have h : 2 ∣ n * (n - 1) := (Nat.even_mul_pred_self n).two_dvd
  rw [Nat.mul_div_cancel' h]
  cases n with
  | zero => simp
  | succ m => simp [Nat.mul_succ, Nat.succ_mul]

theorem choose2_cast (n : Nat) : (choose2 n : ℚ) = ((n : ℚ) * n - n) / 2 := by
  have h := two_mul_choose2 n
  have hle : n ≤ n * n := by
    cases n with
    | zero => simp
    | succ m => exact Nat.le_mul_of_pos_left _ (Nat.succ_pos m)
  have : ((2 * choose2 n : Nat) : ℚ) = ((n * n - n : Nat) : ℚ) := by rw [h]
  rw [Nat.cast_sub hle] at this
  push_cast at this
  linarith

theorem sum_choose2_cast (ms : List Nat) :
    (((ms.map choose2).sum : Nat) : ℚ) = ((((ms.map fun m => m * m).sum : Nat) : ℚ) - (ms.sum : Nat)) / 2 := by
  induction ms with
  | nil => simp
  | cons m ms ih =>
    simp only [List.map_cons, List.sum_cons, Nat.cast_add, ih, choose2_cast]
    push_cast
    ring

theorem cnt_beq_eq_sum_count {β : Type} [BEq β] [LawfulBEq β] (l : List β) :
    cnt (fun p q => p == q) l = (l.map fun p => l.count p).sum := by
  unfold cnt
  congr 1
  apply List.map_congr_left
  intro p _
  unfold List.count
  apply List.countP_congr
  intro q _
  by_cases h : p = q
  · subst h; simp
  · have h' : ¬ q = p := fun e => h e.symm
    simp [h, h']

/-- For a duplicate-free list `cs` covering `l`:
    `Σ_{c ∈ cs} C(count c l, 2) = (#{(i,j) | l_i = l_j} − |l|) / 2`. -/
theorem sum_choose2_count {β : Type} [BEq β] [LawfulBEq β] (l cs : List β) (hn : cs.Nodup) (hc : ∀ x ∈ l, x ∈ cs) :
    ((((cs.map fun c => choose2 (l.count c)).sum : Nat)) : ℚ) =
      ((cnt (fun p q => p == q) l : Nat) - (l.length : ℚ)) / 2 := by
  have h1 := sum_map_eq_sum_count l cs (fun p => l.count p) hn hc
  have h2 := sum_map_eq_sum_count l cs (fun _ => 1) hn hc
  have h3 := sum_choose2_cast (cs.map fun c => l.count c)
  simp only [List.map_map, Function.comp_def] at h3
  rw [h3, cnt_beq_eq_sum_count, h1]
  have h4 : (l.map fun _ => 1).sum = l.length := by simp
  rw [h4] at h2
  simp only [Nat.mul_one] at h2
  rw [h2]

/-! ### the contingency table and its marginals -/

theorem zipWith_map_same {α β γ δ : Type} (f : β → γ → δ) (g : α → β) (h : α → γ) (cs : List α) :
    List.zipWith f (cs.map g) (cs.map h) = cs.map fun c => f (g c) (h c) := by
  induction cs with
  | nil => simp
  | cons c cs ih => simp [ih]

theorem foldr_zipWith_add {α β : Type} (as : List α) (cs : List β) (F : α → β → Nat) :
    (as.map fun a => cs.map (F a)).foldr (List.zipWith (· + ·)) (List.replicate cs.length 0) =
      cs.map fun b => (as.map fun a => F a b).sum := by
  induction as with
  | nil =>
    simp only [List.map_nil, List.foldr_nil, List.sum_nil]
    induction cs with
    | nil => rfl
    | cons c cs ih =>
      rw [List.length_cons, List.replicate_succ, List.map_cons, ih]
  | cons a as ih =>
    simp only [List.map_cons, List.foldr_cons, ih, List.sum_cons]
    exact zipWith_map_same _ _ _ _

theorem count_zip_fst {yr ye : List Nat} (h : yr.length = ye.length) (a : Nat) :
    (yr.zip ye).countP (fun p => p.1 == a) = yr.count a := by
  have : (yr.zip ye).countP (fun p => p.1 == a) = ((yr.zip ye).map Prod.fst).countP (· == a) := by
    rw [List.countP_map]; rfl
  rw [this, List.map_fst_zip (by omega)]
  rfl

theorem count_zip_snd {yr ye : List Nat} (h : yr.length = ye.length) (b : Nat) :
    (yr.zip ye).countP (fun p => p.2 == b) = ye.count b := by
  have : (yr.zip ye).countP (fun p => p.2 == b) = ((yr.zip ye).map Prod.snd).countP (· == b) := by
    rw [List.countP_map]; rfl
  rw [this, List.map_snd_zip (by omega)]
  rfl

theorem rowSums_contingency {yr ye : List Nat} (h : yr.length = ye.length) :
    rowSums (contingency yr ye) = (classes yr).map fun a => yr.count a := by
  unfold rowSums contingency
  rw [List.map_map]
  apply List.map_congr_left
  intro a _
  simp only [Function.comp_def]
  rw [← count_zip_fst h a]
  symm
  apply countP_eq_sum_countP_key _ _ _ Prod.snd (nodup_classes ye)
  intro p hp
  exact mem_classes.2 (List.of_mem_zip (a := p.1) (b := p.2) hp).2

theorem colSums_contingency {yr ye : List Nat} (h : yr.length = ye.length) :
    colSums (contingency yr ye) (classes ye).length = (classes ye).map fun b => ye.count b := by
  unfold colSums contingency
  rw [foldr_zipWith_add]
  apply List.map_congr_left
  intro b _
  rw [← count_zip_snd h b]
  symm
  have := countP_eq_sum_countP_key (yr.zip ye) (classes yr) (fun p => p.2 == b) Prod.fst (nodup_classes yr)
    (by intro p hp; exact mem_classes.2 (List.of_mem_zip (a := p.1) (b := p.2) hp).1)
  rw [this]
  congr 1
  apply List.map_congr_left
  intro a _
  apply List.countP_congr
  intro p _
  simp [Bool.and_comm]

theorem flatten_contingency (yr ye : List Nat) :
    (contingency yr ye).flatten = ((classes yr) ×ˢ (classes ye)).map fun c => (yr.zip ye).count c := by
  unfold contingency
  rw [← List.flatMap_def]
  show _ = List.map _ (List.product _ _)
  unfold List.product
  rw [List.map_flatMap]
  congr 1
  funext a
  rw [List.map_map]
  apply List.map_congr_left
  intro b _
  unfold List.count
  apply List.countP_congr
  intro p _
  rcases p with ⟨x, y⟩
  simp [Prod.ext_iff]

/-- The three binomial sums of the contingency table are the three pair counts of `segment.pairwise`. -/
theorem combSums_cast {yr ye : List Nat} (h : yr.length = ye.length) :
    ((combSums yr ye).1 : ℚ) =
        ((cnt (fun p q => p.1 == q.1 && p.2 == q.2) (yr.zip ye) : Nat) - (yr.length : ℚ)) / 2 ∧
    ((combSums yr ye).2.1 : ℚ) = ((cnt (fun a b => a == b) yr : Nat) - (yr.length : ℚ)) / 2 ∧
    ((combSums yr ye).2.2 : ℚ) = ((cnt (fun a b => a == b) ye : Nat) - (ye.length : ℚ)) / 2 := by
  unfold combSums
  refine ⟨?_, ?_, ?_⟩
  · simp only
    rw [flatten_contingency, List.map_map]
    have hcov : ∀ x ∈ yr.zip ye, x ∈ (classes yr) ×ˢ (classes ye) := by
      intro p hp
      have := List.of_mem_zip (a := p.1) (b := p.2) hp
      exact List.mem_product.2 ⟨mem_classes.2 this.1, mem_classes.2 this.2⟩
    have := sum_choose2_count (yr.zip ye) ((classes yr) ×ˢ (classes ye))
      ((nodup_classes yr).product (nodup_classes ye)) hcov
    simp only [Function.comp_def]
    rw [this]
    have hl : (yr.zip ye).length = yr.length := by simp [List.length_zip, h]
    rw [hl]
    rfl
  · simp only
    rw [rowSums_contingency h, List.map_map]
    exact sum_choose2_count yr (classes yr) (nodup_classes yr) (fun x hx => mem_classes.2 hx)
  · simp only
    rw [colSums_contingency h, List.map_map]
    exact sum_choose2_count ye (classes ye) (nodup_classes ye) (fun x hx => mem_classes.2 hx)

/-! ### the code's pair counts are the binomial sums of the contingency table -/

theorem pairCounts_eq {yr ye : List Nat} (h : yr.length = ye.length) :
    pairCounts yr ye =
      (((combSums yr ye).1 : ℚ), ((combSums yr ye).2.2 : ℚ), ((combSums yr ye).2.1 : ℚ)) := by
  obtain ⟨h1, h2, h3⟩ := combSums_cast h
  unfold pairCounts
  simp only [matSum_eqMat, matSum_matAnd]
  rw [h1, h2, h3]

theorem cnt_fst_zip {yr ye : List Nat} (h : yr.length = ye.length) :
    cnt (fun p q => p.1 == q.1) (yr.zip ye) = cnt (fun a b => a == b) yr := by
  rw [cnt_map (fun a b => a == b) Prod.fst, List.map_fst_zip (by omega)]

theorem cnt_snd_zip {yr ye : List Nat} (h : yr.length = ye.length) :
    cnt (fun p q => p.2 == q.2) (yr.zip ye) = cnt (fun a b => a == b) ye := by
  rw [cnt_map (fun a b => a == b) Prod.snd, List.map_snd_zip (by omega)]

/-- `n_matches_pos + n_matches_neg = C(n,2) + 2 Σ C(n_ij,2) − Σ C(a_i,2) − Σ C(b_j,2)`. -/
theorem randCounts_eq {yr ye : List Nat} (h : yr.length = ye.length) :
    (randCounts yr ye).1 = ((combSums yr ye).1 : ℚ) ∧
    (randCounts yr ye).1 + (randCounts yr ye).2.1 =
      (yr.length : ℚ) * ((yr.length : ℚ) - 1) / 2 + 2 * ((combSums yr ye).1 : ℚ)
        - ((combSums yr ye).2.1 : ℚ) - ((combSums yr ye).2.2 : ℚ) ∧
    (randCounts yr ye).2.2 = (yr.length : ℚ) * ((yr.length : ℚ) - 1) / 2 := by
  obtain ⟨h1, h2, h3⟩ := combSums_cast h
  have hie := cnt_incl_excl (fun p q => p.1 == q.1) (fun p q => p.2 == q.2) (yr.zip ye)
  rw [cnt_fst_zip h, cnt_snd_zip h] at hie
  have hl : (yr.zip ye).length = yr.length := by simp [List.length_zip, h]
  rw [hl] at hie
  have hie' : ((cnt (fun p q => !(p.1 == q.1) && !(p.2 == q.2)) (yr.zip ye) : Nat) : ℚ)
      + (cnt (fun a b => a == b) yr : Nat) + (cnt (fun a b => a == b) ye : Nat)
      = (yr.length : ℚ) * yr.length + (cnt (fun p q => p.1 == q.1 && p.2 == q.2) (yr.zip ye) : Nat) := by
    exact_mod_cast hie
  unfold randCounts
  simp only [matSum_matAnd, matSum_matAnd_not]
  rw [h1, h2, h3, ← h]
  refine ⟨?_, ?_, ?_⟩
  · trivial
  · linarith
  · trivial

/-! ### `C(·,2)` is superadditive; consequences for the three binomial sums -/

theorem two_mul_choose2_add (n : Nat) : 2 * choose2 n + n = n * n := by
  have h := two_mul_choose2 n
  have hle : n ≤ n * n := by
    cases n with
    | zero => simp
    | succ m => exact Nat.le_mul_of_pos_left _ (Nat.succ_pos m)
  omega

theorem choose2_add (x y : Nat) : choose2 (x + y) = choose2 x + choose2 y + x * y := by
  have h1 := two_mul_choose2_add x
  have h2 := two_mul_choose2_add y
  have h3 := two_mul_choose2_add (x + y)
  have h4 : (x + y) * (x + y) = x * x + 2 * (x * y) + y * y := by ring
  omega

theorem sum_choose2_le (ms : List Nat) : (ms.map choose2).sum ≤ choose2 ms.sum := by
  induction ms with
  | nil => simp [choose2]
  | cons m ms ih =>
    simp only [List.map_cons, List.sum_cons, choose2_add]
    omega

theorem choose2_eq_zero {m : Nat} (h : choose2 m = 0) : m ≤ 1 := by
  by_contra hm
  have h1 := two_mul_choose2_add m
  have : 2 * m ≤ m * m := Nat.mul_le_mul_right m (by omega)
  omega

theorem sum_eq_zero_of_pos {ms : List Nat} (hp : ∀ m ∈ ms, 0 < m) (h : ms.sum = 0) : ms = [] := by
  cases ms with
  | nil => rfl
  | cons m ms =>
    have := hp m (List.mem_cons_self ..)
    simp at h
    omega

/-- equality in `Σ C(m_i,2) ≤ C(Σ m_i, 2)` with all parts positive: at most one part. -/
theorem length_le_one_of_sum_choose2_eq {ms : List Nat} (hp : ∀ m ∈ ms, 0 < m)
    (h : (ms.map choose2).sum = choose2 ms.sum) : ms.length ≤ 1 := by
  cases ms with
  | nil => simp
  | cons m ms =>
    simp only [List.map_cons, List.sum_cons, choose2_add] at h
    have hle := sum_choose2_le ms
    have hm := hp m (List.mem_cons_self ..)
    have hz : m * ms.sum = 0 := by omega
    have : ms.sum = 0 := by
      rcases Nat.mul_eq_zero.1 hz with h0 | h0
      · omega
      · exact h0
    have := sum_eq_zero_of_pos (fun x hx => hp x (List.mem_cons_of_mem _ hx)) this
    subst this; simp

/-- `Σ C(m_i,2) = 0` with all parts positive: every part is 1, so the sum is the number of parts. -/
theorem sum_eq_length_of_sum_choose2_zero {ms : List Nat} (hp : ∀ m ∈ ms, 0 < m)
    (h : (ms.map choose2).sum = 0) : ms.sum = ms.length := by
  induction ms with
  | nil => simp
  | cons m ms ih =>
    simp only [List.map_cons, List.sum_cons] at h
    have hm := hp m (List.mem_cons_self ..)
    have h1 : choose2 m = 0 := by omega
    have h2 : (ms.map choose2).sum = 0 := by omega
    have := choose2_eq_zero h1
    have := ih (fun x hx => hp x (List.mem_cons_of_mem _ hx)) h2
    simp only [List.sum_cons, List.length_cons]
    omega

/-- class sizes of a label sequence -/
def classCounts (y : List Nat) : List Nat := (classes y).map fun c => y.count c

theorem classCounts_pos (y : List Nat) : ∀ m ∈ classCounts y, 0 < m := by
  intro m hm
  unfold classCounts at hm
  rcases List.mem_map.1 hm with ⟨c, hc, rfl⟩
  exact List.count_pos_iff.2 (mem_classes.1 hc)

theorem classCounts_sum (y : List Nat) : (classCounts y).sum = y.length := by
  have h2 := sum_map_eq_sum_count y (classes y) (fun _ => 1) (nodup_classes y) (fun x hx => mem_classes.2 hx)
  unfold classCounts
  simp only [Nat.mul_one] at h2
  rw [← h2]; simp

theorem classCounts_length (y : List Nat) : (classCounts y).length = (classes y).length := by
  unfold classCounts; simp

theorem length_le_sum_of_pos {ms : List Nat} (hp : ∀ m ∈ ms, 0 < m) : ms.length ≤ ms.sum := by
  induction ms with
  | nil => simp
  | cons m ms ih =>
    have := hp m (List.mem_cons_self ..)
    have := ih (fun x hx => hp x (List.mem_cons_of_mem _ hx))
    simp only [List.sum_cons, List.length_cons]
    omega

theorem classes_length_le (y : List Nat) : (classes y).length ≤ y.length := by
  calc (classes y).length = (classCounts y).length := (classCounts_length y).symm
    _ ≤ (classCounts y).sum := length_le_sum_of_pos (classCounts_pos y)
    _ = y.length := classCounts_sum y

theorem classes_length_pos {y : List Nat} (h : 0 < y.length) : 0 < (classes y).length := by
  cases y with
  | nil => simp at h
  | cons a y =>
    apply List.length_pos_of_mem (a := a)
    exact mem_classes.2 (List.mem_cons_self ..)

theorem combSums_snd_eq {yr ye : List Nat} (h : yr.length = ye.length) :
    (combSums yr ye).2.1 = ((classCounts yr).map choose2).sum ∧
    (combSums yr ye).2.2 = ((classCounts ye).map choose2).sum := by
  unfold combSums classCounts
  simp only
  rw [rowSums_contingency h, colSums_contingency h]
  exact ⟨rfl, rfl⟩

theorem sum_flatten_map (c : List (List Nat)) (f : Nat → Nat) :
    (c.flatten.map f).sum = (c.map fun row => (row.map f).sum).sum := by
  induction c with
  | nil => simp
  | cons r c ih =>
    simp only [List.flatten_cons, List.map_append, List.sum_append, List.map_cons, List.sum_cons, ih]

/-- `Σ_ij C(n_ij,2) ≤ Σ_i C(a_i,2)` (no hypothesis: it is a statement about the rows of the table). -/
theorem combSums_fst_le_row (yr ye : List Nat) : (combSums yr ye).1 ≤ (combSums yr ye).2.1 := by
  unfold combSums rowSums
  simp only
  rw [sum_flatten_map, List.map_map]
  apply List.sum_le_sum
  intro row _
  exact sum_choose2_le row

theorem cnt_zip_swap (yr ye : List Nat) :
    cnt (fun p q => p.1 == q.1 && p.2 == q.2) (ye.zip yr) =
      cnt (fun p q => p.1 == q.1 && p.2 == q.2) (yr.zip ye) := by
  rw [← List.zip_swap, ← cnt_map (fun p q => p.1 == q.1 && p.2 == q.2) Prod.swap]
  apply cnt_congr
  intro p _ q _
  simp [Bool.and_comm]

/-- exchanging reference and estimate transposes the table: the three binomial sums are permuted. -/
theorem combSums_swap {yr ye : List Nat} (h : yr.length = ye.length) :
    combSums ye yr = ((combSums yr ye).1, (combSums yr ye).2.2, (combSums yr ye).2.1) := by
  obtain ⟨a1, a2, a3⟩ := combSums_cast h
  obtain ⟨b1, b2, b3⟩ := combSums_cast h.symm
  rw [cnt_zip_swap, ← h] at b1
  have e1 : (combSums ye yr).1 = (combSums yr ye).1 := by
    have : ((combSums ye yr).1 : ℚ) = ((combSums yr ye).1 : ℚ) := by rw [a1, b1]
    exact_mod_cast this
  have e2 : (combSums ye yr).2.1 = (combSums yr ye).2.2 := by
    have : ((combSums ye yr).2.1 : ℚ) = ((combSums yr ye).2.2 : ℚ) := by rw [a3, b2]
    exact_mod_cast this
  have e3 : (combSums ye yr).2.2 = (combSums yr ye).2.1 := by
    have : ((combSums ye yr).2.2 : ℚ) = ((combSums yr ye).2.1 : ℚ) := by rw [a2, b3]
    exact_mod_cast this
  ext <;> simp [e1, e2, e3]

theorem combSums_fst_le_col {yr ye : List Nat} (h : yr.length = ye.length) :
    (combSums yr ye).1 ≤ (combSums yr ye).2.2 := by
  have := combSums_fst_le_row ye yr
  rw [combSums_swap h] at this
  exact this

theorem combSums_row_le {yr ye : List Nat} (h : yr.length = ye.length) :
    (combSums yr ye).2.1 ≤ choose2 yr.length := by
  rw [(combSums_snd_eq h).1, ← classCounts_sum yr]
  exact sum_choose2_le _

theorem combSums_col_le {yr ye : List Nat} (h : yr.length = ye.length) :
    (combSums yr ye).2.2 ≤ choose2 yr.length := by
  rw [(combSums_snd_eq h).2, h, ← classCounts_sum ye]
  exact sum_choose2_le _

/-! ### adjusted Rand index -/

/-- the three special cases `_adjusted_rand_index` answers with 1.0 before looking at the table -/
def ariSpecial (yr ye : List Nat) : Prop :=
  ((classes yr).length = 1 ∧ (classes ye).length = 1) ∨
  ((classes yr).length = 0 ∧ (classes ye).length = 0) ∨
  ((classes yr).length = yr.length ∧ (classes ye).length = yr.length)

instance (yr ye : List Nat) : Decidable (ariSpecial yr ye) := by unfold ariSpecial; infer_instance

theorem adjustedRandIdx_special {yr ye : List Nat} (hs : ariSpecial yr ye) :
    adjustedRandIdx yr ye = .ok 1 := by
  unfold ariSpecial at hs
  unfold adjustedRandIdx
  simp only [hs, if_true]

theorem two_le_length_of_not_special {yr ye : List Nat} (h : yr.length = ye.length)
    (hs : ¬ ariSpecial yr ye) : 2 ≤ yr.length := by
  by_contra hn
  apply hs
  unfold ariSpecial
  have h1 := classes_length_le yr
  have h2 := classes_length_le ye
  rcases Nat.lt_or_ge 0 yr.length with hp | hz
  · have hp' : 0 < ye.length := by omega
    have := classes_length_pos hp
    have := classes_length_pos hp'
    left; omega
  · right; left; omega

theorem one_le_choose2 {n : Nat} (h : 2 ≤ n) : 1 ≤ choose2 n := by
  have h1 := two_mul_choose2_add n
  have : 2 * n ≤ n * n := Nat.mul_le_mul_right n h
  omega

theorem choose2_cast' (n : Nat) : (choose2 n : ℚ) = (n : ℚ) * ((n : ℚ) - 1) / 2 := by
  rw [choose2_cast]; ring

/-- Outside the special cases the two divisions of `_adjusted_rand_index` are by positive numbers:
    the function never raises `ZeroDivisionError`. -/
theorem ari_den_pos {yr ye : List Nat} (h : yr.length = ye.length) (hs : ¬ ariSpecial yr ye) :
    (0 : ℚ) < (choose2 yr.length : ℚ) ∧
    (0 : ℚ) < (((combSums yr ye).2.2 : ℚ) + ((combSums yr ye).2.1 : ℚ)) / 2
      - ((combSums yr ye).2.1 : ℚ) * ((combSums yr ye).2.2 : ℚ) / (choose2 yr.length : ℚ) := by
  have hn := two_le_length_of_not_special h hs
  have hc1 := one_le_choose2 hn
  have ha := combSums_row_le h
  have hb := combSums_col_le h
  obtain ⟨ea, eb⟩ := combSums_snd_eq h
  set a := (combSums yr ye).2.1 with hadef
  set b := (combSums yr ye).2.2 with hbdef
  set c := choose2 yr.length with hcdef
  have hcq : (0 : ℚ) < (c : ℚ) := by exact_mod_cast hc1
  refine ⟨hcq, ?_⟩
  have hkr : 0 < (classes yr).length := classes_length_pos (by omega)
  have hke : 0 < (classes ye).length := classes_length_pos (by omega)
  -- not both zero
  have h00 : ¬ (a = 0 ∧ b = 0) := by
    rintro ⟨a0, b0⟩
    apply hs
    right; right
    have e1 := sum_eq_length_of_sum_choose2_zero (classCounts_pos yr) (by rw [← ea]; exact a0)
    have e2 := sum_eq_length_of_sum_choose2_zero (classCounts_pos ye) (by rw [← eb]; exact b0)
    rw [classCounts_sum, classCounts_length] at e1 e2
    omega
  -- not both maximal
  have hcc : ¬ (a = c ∧ b = c) := by
    rintro ⟨ac, bc⟩
    apply hs
    left
    have e1 := length_le_one_of_sum_choose2_eq (classCounts_pos yr)
      (by rw [← ea, classCounts_sum]; exact ac)
    have e2 := length_le_one_of_sum_choose2_eq (classCounts_pos ye)
      (by rw [← eb, classCounts_sum, ← h]; exact bc)
    rw [classCounts_length] at e1 e2
    omega
  have haq : (a : ℚ) ≤ c := by exact_mod_cast ha
  have hbq : (b : ℚ) ≤ c := by exact_mod_cast hb
  have ha0 : (0 : ℚ) ≤ a := Nat.cast_nonneg a
  have hb0 : (0 : ℚ) ≤ b := Nat.cast_nonneg b
  have key : (0 : ℚ) < (a : ℚ) * (c - b) + b * (c - a) := by
    rcases Nat.eq_zero_or_pos a with a0 | apos
    · have bpos : 0 < b := by
        rcases Nat.eq_zero_or_pos b with b0 | bp
        · exact absurd ⟨a0, b0⟩ h00
        · exact bp
      have : (0 : ℚ) < b := by exact_mod_cast bpos
      rw [a0]; simp; positivity
    · have apq : (0 : ℚ) < a := by exact_mod_cast apos
      rcases Nat.lt_or_ge b c with blt | bge
      · have : (0 : ℚ) < (c : ℚ) - b := by
          have : (b : ℚ) < c := by exact_mod_cast blt
          linarith
        have h1 : (0 : ℚ) < (a : ℚ) * (c - b) := mul_pos apq this
        have h2 : (0 : ℚ) ≤ (b : ℚ) * (c - a) := mul_nonneg hb0 (by linarith)
        linarith
      · have bc : b = c := le_antisymm hb bge
        have alt : a < c := by
          rcases Nat.lt_or_ge a c with h' | h'
          · exact h'
          · exact absurd ⟨le_antisymm ha h', bc⟩ hcc
        have : (0 : ℚ) < (c : ℚ) - a := by
          have : (a : ℚ) < c := by exact_mod_cast alt
          linarith
        have bq : (0 : ℚ) < b := by rw [bc]; exact hcq
        have h2 : (0 : ℚ) < (b : ℚ) * (c - a) := mul_pos bq this
        have h1 : (0 : ℚ) ≤ (a : ℚ) * (c - b) := mul_nonneg ha0 (by linarith)
        linarith
  have : ((b : ℚ) + a) / 2 - (a : ℚ) * b / c = ((a : ℚ) * (c - b) + b * (c - a)) / (2 * c) := by
    field_simp
    ring
  rw [this]
  positivity

/-- Outside the special cases `_adjusted_rand_index` returns the Hubert–Arabie quotient on the table. -/
theorem adjustedRandIdx_eq {yr ye : List Nat} (h : yr.length = ye.length) (hs : ¬ ariSpecial yr ye) :
    adjustedRandIdx yr ye = .ok
      ((((combSums yr ye).1 : ℚ)
          - ((combSums yr ye).2.1 : ℚ) * ((combSums yr ye).2.2 : ℚ) / (choose2 yr.length : ℚ)) /
       ((((combSums yr ye).2.2 : ℚ) + ((combSums yr ye).2.1 : ℚ)) / 2
          - ((combSums yr ye).2.1 : ℚ) * ((combSums yr ye).2.2 : ℚ) / (choose2 yr.length : ℚ))) := by
  obtain ⟨hN, hD⟩ := ari_den_pos h hs
  rw [choose2_cast'] at hN hD
  rw [choose2_cast']
  unfold ariSpecial at hs
  unfold adjustedRandIdx
  rcases hcs : combSums yr ye with ⟨s, sc, sk⟩
  rw [hcs] at hD
  simp only [if_false, h, ne_eq, not_true_eq_false]
  rw [← h]
  simp only [ne_of_gt hN, ne_of_gt hD, if_false]
  rw [if_neg hs]

theorem adjustedRandIdx_ok {yr ye : List Nat} (h : yr.length = ye.length) :
    ∃ q, adjustedRandIdx yr ye = .ok q := by
  by_cases hs : ariSpecial yr ye
  · exact ⟨1, adjustedRandIdx_special hs⟩
  · exact ⟨_, adjustedRandIdx_eq h hs⟩

theorem adjustedRandIdx_le_one {yr ye : List Nat} (h : yr.length = ye.length) {q : ℚ}
    (hq : adjustedRandIdx yr ye = .ok q) : q ≤ 1 := by
  by_cases hs : ariSpecial yr ye
  · rw [adjustedRandIdx_special hs] at hq
    cases hq; exact le_refl _
  · rw [adjustedRandIdx_eq h hs] at hq
    obtain ⟨hN, hD⟩ := ari_den_pos h hs
    cases hq
    rw [div_le_one hD]
    have h1 : ((combSums yr ye).1 : ℚ) ≤ ((combSums yr ye).2.1 : ℚ) := by
      exact_mod_cast combSums_fst_le_row yr ye
    have h2 : ((combSums yr ye).1 : ℚ) ≤ ((combSums yr ye).2.2 : ℚ) := by
      exact_mod_cast combSums_fst_le_col h
    linarith

/-- the two label sequences induce the same partition of the frames -/
def SamePartition (yr ye : List Nat) : Prop :=
  ∀ p ∈ yr.zip ye, ∀ q ∈ yr.zip ye, (p.1 = q.1 ↔ p.2 = q.2)

theorem combSums_samePartition {yr ye : List Nat} (h : yr.length = ye.length) (hp : SamePartition yr ye) :
    (combSums yr ye).2.1 = (combSums yr ye).1 ∧ (combSums yr ye).2.2 = (combSums yr ye).1 := by
  obtain ⟨a1, a2, a3⟩ := combSums_cast h
  have e1 : cnt (fun p q => p.1 == q.1 && p.2 == q.2) (yr.zip ye) = cnt (fun a b => a == b) yr := by
    rw [← cnt_fst_zip h]
    apply cnt_congr
    intro p hp' q hq'
    have := hp p hp' q hq'
    by_cases e : p.1 = q.1
    · simp [e, this.1 e]
    · have e' : ¬ p.2 = q.2 := fun x => e (this.2 x)
      simp [e]
  have e2 : cnt (fun p q => p.1 == q.1 && p.2 == q.2) (yr.zip ye) = cnt (fun a b => a == b) ye := by
    rw [← cnt_snd_zip h]
    apply cnt_congr
    intro p hp' q hq'
    have := hp p hp' q hq'
    by_cases e : p.2 = q.2
    · simp [e, this.2 e]
    · have e' : ¬ p.1 = q.1 := fun x => e (this.1 x)
      simp [e, e']
  constructor
  · have : ((combSums yr ye).2.1 : ℚ) = ((combSums yr ye).1 : ℚ) := by rw [a1, a2, e1]
    exact_mod_cast this
  · have : ((combSums yr ye).2.2 : ℚ) = ((combSums yr ye).1 : ℚ) := by rw [a1, a3, e2, h]
    exact_mod_cast this

theorem adjustedRandIdx_self {yr ye : List Nat} (h : yr.length = ye.length) (hp : SamePartition yr ye) :
    adjustedRandIdx yr ye = .ok 1 := by
  by_cases hs : ariSpecial yr ye
  · exact adjustedRandIdx_special hs
  · rw [adjustedRandIdx_eq h hs]
    obtain ⟨hN, hD⟩ := ari_den_pos h hs
    obtain ⟨e1, e2⟩ := combSums_samePartition h hp
    rw [e1, e2] at hD ⊢
    congr 1
    have : (((combSums yr ye).1 : ℚ) + ((combSums yr ye).1 : ℚ)) / 2 = ((combSums yr ye).1 : ℚ) := by ring
    rw [this] at hD ⊢
    exact div_self (ne_of_gt hD)

/-! ### invariance under renaming the labels (injective maps on indices) -/

theorem eqMat_map {f : Nat → Nat} (hf : Function.Injective f) (y : List Nat) :
    eqMat (y.map f) = eqMat y := by
  unfold eqMat
  rw [List.map_map]
  apply List.map_congr_left
  intro a _
  simp only [Function.comp_def]
  rw [List.map_map]
  apply List.map_congr_left
  intro b _
  simp only [Function.comp_def]
  by_cases e : a = b
  · simp [e]
  · have : ¬ f a = f b := fun x => e (hf x)
    simp [e, this]

theorem pairCounts_map {f g : Nat → Nat} (hf : Function.Injective f) (hg : Function.Injective g)
    (yr ye : List Nat) : pairCounts (yr.map f) (ye.map g) = pairCounts yr ye := by
  unfold pairCounts
  simp only [eqMat_map hf, eqMat_map hg, List.length_map]

theorem randCounts_map {f g : Nat → Nat} (hf : Function.Injective f) (hg : Function.Injective g)
    (yr ye : List Nat) : randCounts (yr.map f) (ye.map g) = randCounts yr ye := by
  unfold randCounts
  simp only [eqMat_map hf, eqMat_map hg, List.length_map]

theorem pairwiseIdx_map {f g : Nat → Nat} (hf : Function.Injective f) (hg : Function.Injective g)
    (yr ye : List Nat) (beta : ℚ) : pairwiseIdx (yr.map f) (ye.map g) beta = pairwiseIdx yr ye beta := by
  unfold pairwiseIdx
  simp only [pairCounts_map hf hg, List.length_map]

theorem randIdx_map {f g : Nat → Nat} (hf : Function.Injective f) (hg : Function.Injective g)
    (yr ye : List Nat) : randIdx (yr.map f) (ye.map g) = randIdx yr ye := by
  unfold randIdx
  simp only [randCounts_map hf hg, List.length_map]

theorem combSums_eq_of_pairCounts {yr ye yr' ye' : List Nat} (h : yr.length = ye.length)
    (h' : yr'.length = ye'.length) (hp : pairCounts yr' ye' = pairCounts yr ye) :
    combSums yr' ye' = combSums yr ye := by
  rw [pairCounts_eq h, pairCounts_eq h'] at hp
  simp only [Prod.mk.injEq] at hp
  obtain ⟨e1, e2, e3⟩ := hp
  have e1' : (combSums yr' ye').1 = (combSums yr ye).1 := by exact_mod_cast e1
  have e2' : (combSums yr' ye').2.2 = (combSums yr ye).2.2 := by exact_mod_cast e2
  have e3' : (combSums yr' ye').2.1 = (combSums yr ye).2.1 := by exact_mod_cast e3
  ext <;> assumption

theorem combSums_map {f g : Nat → Nat} (hf : Function.Injective f) (hg : Function.Injective g)
    {yr ye : List Nat} (h : yr.length = ye.length) :
    combSums (yr.map f) (ye.map g) = combSums yr ye :=
  combSums_eq_of_pairCounts h (by simp [h]) (pairCounts_map hf hg yr ye)

theorem adjustedRandIdx_map {f g : Nat → Nat} (hf : Function.Injective f) (hg : Function.Injective g)
    {yr ye : List Nat} (h : yr.length = ye.length) :
    adjustedRandIdx (yr.map f) (ye.map g) = adjustedRandIdx yr ye := by
  unfold adjustedRandIdx
  simp only [length_classes_map hf, length_classes_map hg, List.length_map, combSums_map hf hg h]

/-! ### exchanging reference and estimate -/

theorem pairCounts_swap {yr ye : List Nat} (h : yr.length = ye.length) :
    pairCounts ye yr = ((pairCounts yr ye).1, (pairCounts yr ye).2.2, (pairCounts yr ye).2.1) := by
  rw [pairCounts_eq h, pairCounts_eq h.symm, combSums_swap h]

theorem adjustedRandIdx_swap {yr ye : List Nat} (h : yr.length = ye.length) :
    adjustedRandIdx ye yr = adjustedRandIdx yr ye := by
  by_cases hs : ariSpecial yr ye
  · have hs' : ariSpecial ye yr := by
      unfold ariSpecial at hs ⊢
      rw [← h]; tauto
    rw [adjustedRandIdx_special hs, adjustedRandIdx_special hs']
  · have hs' : ¬ ariSpecial ye yr := by
      unfold ariSpecial at hs ⊢
      rw [← h]; tauto
    rw [adjustedRandIdx_eq h hs, adjustedRandIdx_eq h.symm hs', combSums_swap h, ← h]
    simp only
    congr 1
    ring

theorem randIdx_swap {yr ye : List Nat} (h : yr.length = ye.length) : randIdx ye yr = randIdx yr ye := by
  obtain ⟨a1, a2, a3⟩ := randCounts_eq h
  obtain ⟨b1, b2, b3⟩ := randCounts_eq h.symm
  unfold randIdx
  simp only [h, ne_eq, not_true_eq_false, if_false]
  rw [combSums_swap h, ← h] at b2
  rw [← h] at b3
  simp only at b2
  have : (randCounts ye yr).1 + (randCounts ye yr).2.1 = (randCounts yr ye).1 + (randCounts yr ye).2.1 := by
    rw [a2, b2]; ring
  rcases hr : randCounts yr ye with ⟨p, n, t⟩
  rcases hr' : randCounts ye yr with ⟨p', n', t'⟩
  rw [hr, hr'] at this
  rw [hr] at a3
  rw [hr'] at b3
  simp only at this a3 b3
  simp only [this, a3, b3]

/-! ### values of the scores in the non-degenerate cases, and their ranges -/

theorem fMeasureNum_val {p r beta : ℚ} (hp : 0 ≤ p) (hr : 0 ≤ r) (hb : 0 < beta) :
    fMeasureNum (.val p) (.val r) beta = .val (fMeasure p r beta) := by
  unfold fMeasureNum fMeasure
  by_cases h : p = 0 ∧ r = 0
  · simp [h]
  · simp only [h, if_false]
    have hb2 : 0 < beta * beta := mul_pos hb hb
    have hden : beta * beta * p + r ≠ 0 := by
      intro e
      have h1 : 0 ≤ beta * beta * p := mul_nonneg (le_of_lt hb2) hp
      have hr0 : r = 0 := by linarith
      have hp0 : beta * beta * p = 0 := by linarith
      have : p = 0 := by
        rcases mul_eq_zero.1 hp0 with h' | h'
        · exact absurd h' (ne_of_gt hb2)
        · exact h'
      exact h ⟨this, hr0⟩
    unfold npDiv
    simp [hden]

theorem npDiv_val {a b : ℚ} (hb : b ≠ 0) : npDiv a b = .val (a / b) := by
  unfold npDiv; simp [hb]

/-- `segment.pairwise` on index sequences with at least one co-labelled pair on each side. -/
theorem pairwiseIdx_eq {yr ye : List Nat} (h : yr.length = ye.length) {beta : ℚ} (hb : 0 < beta)
    (hA : 0 < (combSums yr ye).2.1) (hB : 0 < (combSums yr ye).2.2) :
    pairwiseIdx yr ye beta = .ok
      (.val (((combSums yr ye).1 : ℚ) / ((combSums yr ye).2.2 : ℚ)),
       .val (((combSums yr ye).1 : ℚ) / ((combSums yr ye).2.1 : ℚ)),
       .val (fMeasure (((combSums yr ye).1 : ℚ) / ((combSums yr ye).2.2 : ℚ))
                      (((combSums yr ye).1 : ℚ) / ((combSums yr ye).2.1 : ℚ)) beta)) := by
  unfold pairwiseIdx
  simp only [h, ne_eq, not_true_eq_false, if_false, pairCounts_eq h]
  have hA' : ((combSums yr ye).2.1 : ℚ) ≠ 0 := by exact_mod_cast (ne_of_gt hA)
  have hB' : ((combSums yr ye).2.2 : ℚ) ≠ 0 := by exact_mod_cast (ne_of_gt hB)
  rw [npDiv_val hA', npDiv_val hB', fMeasureNum_val (by positivity) (by positivity) hb]

theorem randIdx_eq {yr ye : List Nat} (h : yr.length = ye.length) (hn : 2 ≤ yr.length) :
    randIdx yr ye = .ok (.val
      (((choose2 yr.length : ℚ) + 2 * ((combSums yr ye).1 : ℚ)
          - ((combSums yr ye).2.1 : ℚ) - ((combSums yr ye).2.2 : ℚ)) / (choose2 yr.length : ℚ))) := by
  obtain ⟨a1, a2, a3⟩ := randCounts_eq h
  have hc : (0 : ℚ) < (choose2 yr.length : ℚ) := by exact_mod_cast one_le_choose2 hn
  rw [choose2_cast'] at hc ⊢
  unfold randIdx
  simp only [h, ne_eq, not_true_eq_false, if_false]
  rcases hr : randCounts yr ye with ⟨p, n, t⟩
  rw [hr] at a2 a3
  simp only at a2 a3
  simp only
  rw [a2, a3, ← h, npDiv_val (ne_of_gt hc)]

/-- pairwise precision, recall and F lie in `[0,1]` whenever each side has a co-labelled pair. -/
theorem pairwiseIdx_range {yr ye : List Nat} (h : yr.length = ye.length) {beta : ℚ} (hb : 0 < beta)
    (hA : 0 < (combSums yr ye).2.1) (hB : 0 < (combSums yr ye).2.2) :
    ∃ p r f : ℚ, pairwiseIdx yr ye beta = .ok (.val p, .val r, .val f) ∧
      0 ≤ p ∧ p ≤ 1 ∧ 0 ≤ r ∧ r ≤ 1 ∧ 0 ≤ f ∧ f ≤ 1 := by
  refine ⟨_, _, _, pairwiseIdx_eq h hb hA hB, ?_⟩
  have hA' : (0 : ℚ) < ((combSums yr ye).2.1 : ℚ) := by exact_mod_cast hA
  have hB' : (0 : ℚ) < ((combSums yr ye).2.2 : ℚ) := by exact_mod_cast hB
  have h1 : ((combSums yr ye).1 : ℚ) ≤ ((combSums yr ye).2.1 : ℚ) := by
    exact_mod_cast combSums_fst_le_row yr ye
  have h2 : ((combSums yr ye).1 : ℚ) ≤ ((combSums yr ye).2.2 : ℚ) := by
    exact_mod_cast combSums_fst_le_col h
  have hp0 : (0 : ℚ) ≤ ((combSums yr ye).1 : ℚ) / ((combSums yr ye).2.2 : ℚ) := by positivity
  have hr0 : (0 : ℚ) ≤ ((combSums yr ye).1 : ℚ) / ((combSums yr ye).2.1 : ℚ) := by positivity
  have hp1 : ((combSums yr ye).1 : ℚ) / ((combSums yr ye).2.2 : ℚ) ≤ 1 := (div_le_one hB').2 h2
  have hr1 : ((combSums yr ye).1 : ℚ) / ((combSums yr ye).2.1 : ℚ) ≤ 1 := (div_le_one hA').2 h1
  exact ⟨hp0, hp1, hr0, hr1, fMeasure_nonneg hp0 hr0, fMeasure_le_one hp0 hr0 hp1 hr1⟩

/-- exchanging reference and estimate exchanges pairwise precision and recall and keeps F (`beta = 1`). -/
theorem pairwiseIdx_swap {yr ye : List Nat} (h : yr.length = ye.length)
    (hA : 0 < (combSums yr ye).2.1) (hB : 0 < (combSums yr ye).2.2) :
    ∃ p r f : ℚ, pairwiseIdx yr ye 1 = .ok (.val p, .val r, .val f) ∧
      pairwiseIdx ye yr 1 = .ok (.val r, .val p, .val f) := by
  refine ⟨_, _, _, pairwiseIdx_eq h one_pos hA hB, ?_⟩
  have hA' : 0 < (combSums ye yr).2.1 := by rw [combSums_swap h]; exact hB
  have hB' : 0 < (combSums ye yr).2.2 := by rw [combSums_swap h]; exact hA
  rw [pairwiseIdx_eq h.symm one_pos hA' hB', combSums_swap h]
  simp only
  rw [fMeasure_symm]

theorem randCounts_neg_nonneg (yr ye : List Nat) : 0 ≤ (randCounts yr ye).2.1 := by
  unfold randCounts
  simp only
  positivity

/-- the Rand index lies in `[0,1]` whenever there are at least two frames. -/
theorem randIdx_range {yr ye : List Nat} (h : yr.length = ye.length) (hn : 2 ≤ yr.length) :
    ∃ q : ℚ, randIdx yr ye = .ok (.val q) ∧ 0 ≤ q ∧ q ≤ 1 := by
  refine ⟨_, randIdx_eq h hn, ?_⟩
  obtain ⟨a1, a2, a3⟩ := randCounts_eq h
  have hneg := randCounts_neg_nonneg yr ye
  have hc : (0 : ℚ) < (choose2 yr.length : ℚ) := by exact_mod_cast one_le_choose2 hn
  have hS : (0 : ℚ) ≤ ((combSums yr ye).1 : ℚ) := Nat.cast_nonneg _
  have h1 : ((combSums yr ye).1 : ℚ) ≤ ((combSums yr ye).2.1 : ℚ) := by
    exact_mod_cast combSums_fst_le_row yr ye
  have h2 : ((combSums yr ye).1 : ℚ) ≤ ((combSums yr ye).2.2 : ℚ) := by
    exact_mod_cast combSums_fst_le_col h
  rw [← choose2_cast'] at a2
  constructor
  · apply div_nonneg _ (le_of_lt hc)
    rw [← a2, a1]
    linarith
  · rw [div_le_one hc]
    linarith

/-! ### frame sampling: which label a frame gets -/

theorem labelAtFrame_foldl_none_of_lt (post : List ((ℚ × ℚ) × Label)) (t : ℚ) (acc : Option Label)
    (h : ∀ p ∈ post, t < p.1.1) :
    post.foldl (fun acc p => if p.1.1 ≤ t ∧ t ≤ p.1.2 then some p.2 else acc) acc = acc := by
  induction post generalizing acc with
  | nil => rfl
  | cons p post ih =>
    have hp := h p (List.mem_cons_self ..)
    have : ¬ (p.1.1 ≤ t ∧ t ≤ p.1.2) := fun c => absurd c.1 (not_le.2 hp)
    simp only [List.foldl_cons, this, if_false]
    exact ih acc (fun q hq => h q (List.mem_cons_of_mem _ hq))

/-- A frame time lying in `[s, e]` of some interval and before the start of every later row receives that
    interval's label (for sorted, non-overlapping annotations: the half-open reading `s ≤ t < e`). -/
theorem labelAtFrame_eq (pre post : List ((ℚ × ℚ) × Label)) (iv : ℚ × ℚ) (l : Label) (t : ℚ)
    (h1 : iv.1 ≤ t) (h2 : t ≤ iv.2) (hpost : ∀ p ∈ post, t < p.1.1) :
    labelAtFrame (pre ++ (iv, l) :: post) t = some l := by
  unfold labelAtFrame
  rw [List.foldl_append, List.foldl_cons]
  simp only [h1, h2, and_self, if_true]
  exact labelAtFrame_foldl_none_of_lt post t (some l) hpost

theorem frameLabels_getElem (ivs : List (ℚ × ℚ)) (labs : List Label) (fs : ℚ) (i : Nat)
    (hi : i < (frameLabels ivs labs fs).length) :
    (frameLabels ivs labs fs)[i] = labelAtFrame (ivs.zip labs) ((i : ℚ) * fs) := by
  simp [frameLabels]

/-! ### labels are indexed case-insensitively, by equality only -/

/-- two frames get the same index iff their normalised (lower-cased) labels are equal -/
theorem indexLabels_getElem_eq_iff (labels : List (Option Label)) (i j : Nat)
    (hi : i < labels.length) (hj : j < labels.length) :
    (indexLabels labels)[i]'(by simp [indexLabels, indexNorm, hi]) =
      (indexLabels labels)[j]'(by simp [indexLabels, indexNorm, hj]) ↔
    normLabel labels[i] = normLabel labels[j] := by
  unfold indexLabels indexNorm
  simp only [List.getElem_map]
  apply List.idxOf_inj
  apply mem_sortedUniq.2
  exact List.mem_map.2 ⟨labels[i], List.getElem_mem hi, rfl⟩

theorem indexLabels_congr {l l' : List (Option Label)} (h : l.map normLabel = l'.map normLabel) :
    indexLabels l = indexLabels l' := by
  unfold indexLabels; rw [h]

theorem labelAtFrame_foldl_norm (ivs : List (ℚ × ℚ)) (labs : List Label) (t : ℚ) (acc : Option Label) :
    normLabel ((ivs.zip labs).foldl
        (fun acc p => if p.1.1 ≤ t ∧ t ≤ p.1.2 then some p.2 else acc) acc) =
      ((ivs.zip (labs.map (List.map Char.toLower))).foldl
        (fun acc p => if p.1.1 ≤ t ∧ t ≤ p.1.2 then some p.2 else acc) (acc.map (List.map Char.toLower))).getD ['n', 'o', 'n', 'e'] := by
  induction ivs generalizing labs acc with
  | nil => cases acc <;> simp [normLabel]
  | cons iv ivs ih =>
    cases labs with
    | nil => cases acc <;> simp [normLabel]
    | cons l labs =>
      simp only [List.zip_cons_cons, List.foldl_cons, List.map_cons]
      rw [ih]
      congr 2
      split <;> simp

/-- the normalised frame labels depend on the annotation's labels only through their lower-cased form -/
theorem frameLabels_norm (ivs : List (ℚ × ℚ)) (labs : List Label) (fs : ℚ) :
    (frameLabels ivs labs fs).map normLabel =
      (List.range (numSamples ivs fs)).map fun (i : Nat) =>
        (labelAtFrame (ivs.zip (labs.map (List.map Char.toLower))) ((i : ℚ) * fs)).getD ['n', 'o', 'n', 'e'] := by
  unfold frameLabels labelAtFrame
  rw [List.map_map]
  apply List.map_congr_left
  intro i _
  simp only [Function.comp_def]
  rw [labelAtFrame_foldl_norm]
  rfl

theorem frameIndices_caseInsensitive (ivs : List (ℚ × ℚ)) {labs labs' : List Label} (fs : ℚ)
    (h : labs.map (List.map Char.toLower) = labs'.map (List.map Char.toLower)) :
    frameIndices ivs labs fs = frameIndices ivs labs' fs := by
  unfold frameIndices indexLabels
  rw [frameLabels_norm, frameLabels_norm, h]

theorem prologue_caseInsensitive {A A' : Annot} (fs : ℚ)
    (hri : A.refIvs = A'.refIvs) (hei : A.estIvs = A'.estIvs)
    (hr : A.refLabs.map (List.map Char.toLower) = A'.refLabs.map (List.map Char.toLower))
    (he : A.estLabs.map (List.map Char.toLower) = A'.estLabs.map (List.map Char.toLower)) :
    prologue A fs = prologue A' fs := by
  have l1 : A.refLabs.length = A'.refLabs.length := by
    have := congrArg List.length hr; simpa using this
  have l2 : A.estLabs.length = A'.estLabs.length := by
    have := congrArg List.length he; simpa using this
  unfold prologue
  rw [frameIndices_caseInsensitive A.refIvs fs hr, frameIndices_caseInsensitive A.estIvs fs he,
    hri, hei, l1, l2]

end Segment
end Mir
