import MirModel.Segment
import MirProofs.Lemmas.Segment

/-!
  From label *strings* to frame index sequences (for C08): renaming the labels of one annotation by a map that
  respects the code's case folding and the fill value changes `frameIndices` only by an injective map on the
  indices.  (`util.intervals_to_samples` + `util.index_labels`, model: `frameLabels`, `indexLabels`.)
-/
namespace Mir
namespace Segment

/-! ### (a) sampling commutes with renaming -/

theorem labelAtFrame_foldl_rename (ρ : Label → Label) (ivs : List (ℚ × ℚ)) (labs : List Label) (t : ℚ)
    (acc : Option Label) :
    (ivs.zip (labs.map ρ)).foldl (fun acc p => if p.1.1 ≤ t ∧ t ≤ p.1.2 then some p.2 else acc) (acc.map ρ) =
      ((ivs.zip labs).foldl (fun acc p => if p.1.1 ≤ t ∧ t ≤ p.1.2 then some p.2 else acc) acc).map ρ := by
  induction ivs generalizing labs acc with
  | nil => simp
  | cons iv ivs ih =>
    cases labs with
    | nil => simp
    | cons l labs =>
      simp only [List.map_cons, List.zip_cons_cons, List.foldl_cons]
      rw [← ih]
      congr 1
      split <;> simp

theorem labelAtFrame_rename (ρ : Label → Label) (ivs : List (ℚ × ℚ)) (labs : List Label) (t : ℚ) :
    labelAtFrame (ivs.zip (labs.map ρ)) t = (labelAtFrame (ivs.zip labs) t).map ρ := by
  unfold labelAtFrame
  exact labelAtFrame_foldl_rename ρ ivs labs t none

theorem frameLabels_rename (ρ : Label → Label) (ivs : List (ℚ × ℚ)) (labs : List Label) (fs : ℚ) :
    frameLabels ivs (labs.map ρ) fs = (frameLabels ivs labs fs).map (Option.map ρ) := by
  unfold frameLabels
  rw [List.map_map]
  apply List.map_congr_left
  intro i _
  simp only [Function.comp_def]
  exact labelAtFrame_rename ρ ivs labs _

/-- every frame label is the fill value or one of the annotation's labels -/
theorem labelAtFrame_foldl_mem (labs : List Label) (ivl : List ((ℚ × ℚ) × Label)) (hl : ∀ p ∈ ivl, p.2 ∈ labs)
    (t : ℚ) (acc : Option Label) (hacc : ∀ s, acc = some s → s ∈ labs) :
    ∀ s, ivl.foldl (fun acc p => if p.1.1 ≤ t ∧ t ≤ p.1.2 then some p.2 else acc) acc = some s → s ∈ labs := by
  induction ivl generalizing acc with
  | nil => simpa using hacc
  | cons p ivl ih =>
    simp only [List.foldl_cons]
    apply ih (fun q hq => hl q (List.mem_cons_of_mem _ hq))
    intro s hs
    split at hs
    · cases hs; exact hl p List.mem_cons_self
    · exact hacc s hs

theorem mem_frameLabels (ivs : List (ℚ × ℚ)) (labs : List Label) (fs : ℚ) {s : Label}
    (h : some s ∈ frameLabels ivs labs fs) : s ∈ labs := by
  unfold frameLabels at h
  obtain ⟨i, _, hi⟩ := List.mem_map.1 h
  unfold labelAtFrame at hi
  exact labelAtFrame_foldl_mem labs (ivs.zip labs) (fun p hp => (List.of_mem_zip hp).2) _ none (by simp) s hi

/-! ### (b) same equality pattern ⇒ related by an injective map -/

/-- Two sequences of naturals with the same equality pattern differ by an injective renaming of the values
    (defined on all of `Nat`: values that do not occur are sent above everything that does). -/
theorem exists_injective_of_samePattern (y y' : List Nat) (hl : y.length = y'.length)
    (h : ∀ i j (hi : i < y.length) (hj : j < y.length),
      y[i] = y[j] ↔ y'[i]'(hl ▸ hi) = y'[j]'(hl ▸ hj)) :
    ∃ f : Nat → Nat, Function.Injective f ∧ y' = y.map f := by
  have key : ∀ n ∈ y, ∃ i, ∃ hi : i < y.length, y[i] = n ∧ y'.getD (y.idxOf n) 0 = y'[i]'(hl ▸ hi) := by
    intro n hn
    have hi : y.idxOf n < y.length := List.idxOf_lt_length_iff.2 hn
    refine ⟨y.idxOf n, hi, List.getElem_idxOf hi, ?_⟩
    have hi2 : y.idxOf n < y'.length := hl ▸ hi
    simp [List.getD_eq_getElem?_getD, List.getElem?_eq_getElem hi2]
  have bound : ∀ i (hi : i < y'.length), y'[i] ≤ y'.sum := fun i hi =>
    List.le_sum_of_mem (List.getElem_mem hi)
  refine ⟨fun n => if n ∈ y then y'.getD (y.idxOf n) 0 else n + y'.sum + 1, ?_, ?_⟩
  · intro a b hab
    simp only at hab
    by_cases ha : a ∈ y <;> by_cases hb : b ∈ y <;> simp only [ha, hb, if_true, if_false] at hab
    · obtain ⟨i, hi, hia, hia'⟩ := key a ha
      obtain ⟨j, hj, hjb, hjb'⟩ := key b hb
      rw [hia', hjb'] at hab
      rw [← hia, ← hjb]
      exact (h i j hi hj).2 hab
    · obtain ⟨i, hi, _, hia'⟩ := key a ha
      have := bound i (hl ▸ hi)
      omega
    · obtain ⟨j, hj, _, hjb'⟩ := key b hb
      have := bound j (hl ▸ hj)
      omega
    · omega
  · apply List.ext_getElem (by simp [hl])
    intro i hi' _
    have hi : i < y.length := hl ▸ hi'
    simp only [List.getElem_map]
    have hmem : y[i] ∈ y := List.getElem_mem hi
    simp only [hmem, if_true]
    obtain ⟨j, hj, hjy, hj'⟩ := key y[i] hmem
    rw [hj']
    exact ((h j i hj hi).1 hjy).symm

/-- The hypothesis on a renaming `ρ` of the labels of a frame label sequence `l` (entries `none` = the fill value of
    `intervals_to_samples`): on the entries of `l`, renamed labels are identified by the code (`str(·).lower()`,
    the fill value reading `"none"`) exactly when the original ones are. -/
def RenamingFaithful (ρ : Label → Label) (l : List (Option Label)) : Prop :=
  ∀ a ∈ l, ∀ b ∈ l, (normLabel (a.map ρ) = normLabel (b.map ρ) ↔ normLabel a = normLabel b)

theorem length_indexLabels (l : List (Option Label)) : (indexLabels l).length = l.length := by
  simp [indexLabels, indexNorm]

theorem indexLabels_rename {ρ : Label → Label} {l : List (Option Label)} (h : RenamingFaithful ρ l) :
    ∃ f : Nat → Nat, Function.Injective f ∧ indexLabels (l.map (Option.map ρ)) = (indexLabels l).map f := by
  apply exists_injective_of_samePattern (indexLabels l) (indexLabels (l.map (Option.map ρ)))
    (by simp [length_indexLabels])
  intro i j hi hj
  have hi' : i < l.length := by simpa [length_indexLabels] using hi
  have hj' : j < l.length := by simpa [length_indexLabels] using hj
  rw [indexLabels_getElem_eq_iff l i j hi' hj',
    indexLabels_getElem_eq_iff (l.map (Option.map ρ)) i j (by simpa using hi') (by simpa using hj')]
  simp only [List.getElem_map]
  exact (h _ (List.getElem_mem hi') _ (List.getElem_mem hj')).symm

theorem frameIndices_rename {ρ : Label → Label} {ivs : List (ℚ × ℚ)} {labs : List Label} {fs : ℚ}
    (h : RenamingFaithful ρ (frameLabels ivs labs fs)) :
    ∃ f : Nat → Nat, Function.Injective f ∧
      frameIndices ivs (labs.map ρ) fs = (frameIndices ivs labs fs).map f := by
  unfold frameIndices
  rw [frameLabels_rename]
  exact indexLabels_rename h

/-- A convenient sufficient condition stated on the annotation's label list: modulo case, `ρ` is injective on the
    labels, and it neither creates nor removes a label that reads like the fill value `"none"`. -/
theorem renamingFaithful_of_labels {ρ : Label → Label} {ivs : List (ℚ × ℚ)} {labs : List Label} {fs : ℚ}
    (hinj : ∀ a ∈ labs, ∀ b ∈ labs,
      ((ρ a).map Char.toLower = (ρ b).map Char.toLower ↔ a.map Char.toLower = b.map Char.toLower))
    (hnone : ∀ a ∈ labs, ((ρ a).map Char.toLower = ['n', 'o', 'n', 'e'] ↔ a.map Char.toLower = ['n', 'o', 'n', 'e'])) :
    RenamingFaithful ρ (frameLabels ivs labs fs) := by
  intro a ha b hb
  cases a with
  | none =>
    cases b with
    | none => simp
    | some t =>
      have := hnone t (mem_frameLabels ivs labs fs hb)
      simp only [Option.map_none, Option.map_some, normLabel]
      constructor <;> intro e
      · exact (this.1 e.symm).symm
      · exact (this.2 e.symm).symm
  | some s =>
    cases b with
    | none =>
      have := hnone s (mem_frameLabels ivs labs fs ha)
      simpa only [Option.map_none, Option.map_some, normLabel] using this
    | some t =>
      simpa only [Option.map_some, normLabel] using
        hinj s (mem_frameLabels ivs labs fs ha) t (mem_frameLabels ivs labs fs hb)

/-- `adjustedRandIdx_map` without the equal-length hypothesis (unequal lengths: same early return or same error) -/
theorem adjustedRandIdx_map' {f g : Nat → Nat} (hf : Function.Injective f) (hg : Function.Injective g)
    (yr ye : List Nat) : adjustedRandIdx (yr.map f) (ye.map g) = adjustedRandIdx yr ye := by
  by_cases h : yr.length = ye.length
  · exact adjustedRandIdx_map hf hg h
  · unfold adjustedRandIdx
    simp only [length_classes_map hf, length_classes_map hg, List.length_map, ne_eq, h, not_false_eq_true, if_true]

/-- the common prologue of the public functions sees a renaming only through injective maps of the two index
    sequences (validation looks at the number of labels only) -/
theorem prologue_rename {ρr ρe : Label → Label} {ri ei : List (ℚ × ℚ)} {rl el : List Label} {fs : ℚ}
    (hr : RenamingFaithful ρr (frameLabels ri rl fs)) (he : RenamingFaithful ρe (frameLabels ei el fs)) :
    ∃ f g : Nat → Nat, Function.Injective f ∧ Function.Injective g ∧
      prologue ⟨ri, rl.map ρr, ei, el.map ρe⟩ fs =
        (prologue ⟨ri, rl, ei, el⟩ fs).map (Option.map fun p => (p.1.map f, p.2.map g)) := by
  obtain ⟨f, hf, hfe⟩ := frameIndices_rename hr
  obtain ⟨g, hg, hge⟩ := frameIndices_rename he
  refine ⟨f, g, hf, hg, ?_⟩
  unfold prologue
  simp only [List.length_map, hfe, hge]
  cases validateStructure ri rl.length ei el.length with
  | error e => rfl
  | ok u =>
    by_cases hE : ri.isEmpty = true ∨ ei.isEmpty = true
    · simp only [hE, if_true]; rfl
    · simp only [hE, if_false]; rfl

end Segment
end Mir
