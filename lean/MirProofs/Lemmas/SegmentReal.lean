import MirModel.Segment
import MirProofs.Lemmas.Segment
import Mathlib.Analysis.SpecialFunctions.Log.Basic
import Mathlib.Analysis.Real.Sqrt

/-!
  The real-number interpretation of the entropy-based part of `MirModel.Segment`
  (one definition, two interpretations: `Float` is executed, `ℝ` is reasoned about).
-/
namespace Mir
namespace Segment

noncomputable instance instTranscReal : Transc ℝ where
  ofNat n := (n : ℝ)
  ofRat q := (q : ℝ)
  log := Real.log
  exp := Real.exp
  sqrt := Real.sqrt
  lt a b := decide (a < b)
  beq a b := decide (a = b)

theorem tsum_real (xs : List ℝ) : tsum xs = xs.sum := by
  unfold tsum
  induction xs with
  | nil => simp [Transc.ofNat]
  | cons x xs ih => simp [List.foldr_cons, ih]

/-- `util.f_measure` at `beta = 1` is the harmonic mean (0 when both arguments are 0). -/
theorem fMeasureT_real_one (p r : ℝ) :
    fMeasureT p r (Transc.ofNat 1) = if p = 0 ∧ r = 0 then 0 else 2 * p * r / (p + r) := by
  unfold fMeasureT
  simp only [Transc.beq, Transc.ofNat, Nat.cast_zero, Nat.cast_one, Bool.and_eq_true, decide_eq_true_eq]
  split
  · rfl
  · ring_nf

/-! ### mutual information over the reals: a double sum over the table; symmetry; textbook form -/

theorem sum_flatMap_real {β : Type} (l : List β) (f : β → List ℝ) :
    (l.flatMap f).sum = (l.map fun a => (f a).sum).sum := by
  induction l with
  | nil => simp
  | cons a l ih => simp [List.flatMap_cons, List.sum_append, ih]

theorem sum_filterMap_ite {β : Type} (l : List β) (c : β → Prop) [DecidablePred c] (t : β → ℝ) :
    (l.filterMap fun y => if c y then none else some (t y)).sum =
      (l.map fun y => if c y then 0 else t y).sum := by
  induction l with
  | nil => simp
  | cons a l ih =>
    by_cases h : c a
    · simp [h, ih]
    · simp [h, ih]

theorem sum_map_add_real {β : Type} (f g : β → ℝ) (z : List β) :
    (z.map fun p => f p + g p).sum = (z.map f).sum + (z.map g).sum := by
  induction z with
  | nil => simp
  | cons a z ih => simp [ih]; ring

theorem sum_sum_comm {β γ : Type} (as : List β) (bs : List γ) (F : β → γ → ℝ) :
    (as.map fun a => (bs.map fun b => F a b).sum).sum = (bs.map fun b => (as.map fun a => F a b).sum).sum := by
  induction as with
  | nil => simp
  | cons a as ih =>
    simp only [List.map_cons, List.sum_cons, ih]
    rw [← sum_map_add_real]

/-- a cell's contribution, with the convention that empty cells contribute 0 -/
noncomputable def miCell (total sa sb : ℝ) (nij ai bj : Nat) : ℝ :=
  if nij = 0 then 0 else miTerm total sa sb nij ai bj

theorem mutualInfoSum_real {β γ : Type} (as : List β) (bs : List γ) (F : β → γ → Nat) (G : β → Nat) (H : γ → Nat) :
    mutualInfoSum (α := ℝ) (as.map fun x => bs.map (F x)) (as.map G) (bs.map H) =
      (as.map fun x => (bs.map fun y =>
        miCell (((as.map fun x => (bs.map (F x)).sum).sum : Nat) : ℝ) ((as.map G).sum : Nat) ((bs.map H).sum : Nat)
          (F x y) (G x) (H y)).sum).sum := by
  unfold mutualInfoSum
  rw [tsum_real, List.zip_map', List.flatMap_map, sum_flatMap_real]
  simp only [List.map_map, Function.comp_def]
  congr 1
  apply List.map_congr_left
  intro x _
  rw [List.zip_map', List.filterMap_map]
  simp only [Function.comp_def]
  rw [sum_filterMap_ite]
  rfl

theorem countP_zip_swap (yr ye : List Nat) (x y : Nat) :
    (ye.zip yr).countP (fun p => p.1 == y && p.2 == x) = (yr.zip ye).countP (fun p => p.1 == x && p.2 == y) := by
  rw [← List.zip_swap, List.countP_map]
  apply List.countP_congr
  intro p _
  simp [Bool.and_comm]

/-- the double sum over reference classes × estimated classes that `_mutual_info_score` forms before clipping -/
noncomputable def miSum (yr ye : List Nat) : ℝ :=
  ((classes yr).map fun x => ((classes ye).map fun y =>
    miCell (yr.length : ℝ) (yr.length : ℝ) (yr.length : ℝ)
      ((yr.zip ye).countP fun p => p.1 == x && p.2 == y) (yr.count x) (ye.count y)).sum).sum

theorem sum_cells_eq_length {yr ye : List Nat} (h : yr.length = ye.length) :
    ((classes yr).map fun x => ((classes ye).map fun b =>
      (yr.zip ye).countP fun p => p.1 == x && p.2 == b).sum).sum = yr.length := by
  have := rowSums_contingency h
  unfold rowSums contingency at this
  rw [List.map_map] at this
  simp only [Function.comp_def] at this
  rw [this]; exact classCounts_sum yr

/-- `mutualInfoIdx` is the clipped double sum. -/
theorem mutualInfoIdx_real_clip {yr ye : List Nat} (h : yr.length = ye.length) :
    mutualInfoIdx (α := ℝ) yr ye = clip0 (miSum yr ye) := by
  unfold mutualInfoIdx mutualInfoTab miSum
  simp only
  rw [rowSums_contingency h, colSums_contingency h]
  unfold contingency
  rw [mutualInfoSum_real]
  have e1 : ((classes yr).map fun a => yr.count a).sum = yr.length := classCounts_sum yr
  have e2 : ((classes ye).map fun b => ye.count b).sum = yr.length := by rw [h]; exact classCounts_sum ye
  rw [e1, e2, sum_cells_eq_length h]

theorem miCell_comm (N : ℝ) (n a b : Nat) : miCell N N N n a b = miCell N N N n b a := by
  unfold miCell miTerm
  simp only [Transc.ofNat, Transc.log]
  rw [mul_comm (a : ℝ) (b : ℝ)]

theorem miSum_symm {yr ye : List Nat} (h : yr.length = ye.length) : miSum ye yr = miSum yr ye := by
  unfold miSum
  rw [sum_sum_comm, ← h]
  congr 1
  apply List.map_congr_left
  intro x _
  congr 1
  apply List.map_congr_left
  intro y _
  rw [countP_zip_swap, miCell_comm]

/-- **MI(a, b) = MI(b, a)** over the reals. -/
theorem mutualInfoIdx_real_symm {yr ye : List Nat} (h : yr.length = ye.length) :
    mutualInfoIdx (α := ℝ) ye yr = mutualInfoIdx (α := ℝ) yr ye := by
  rw [mutualInfoIdx_real_clip h, mutualInfoIdx_real_clip h.symm, miSum_symm h]

/-- The code's `log a − log b` arrangement of one cell is the textbook `p_ij · log(p_ij / (p_i p_j))`. -/
theorem miCell_textbook {N : Nat} {n a b : Nat} (hN : 0 < N) (ha : 0 < a) (hb : 0 < b) :
    miCell (N : ℝ) N N n a b =
      ((n : ℝ) / N) * Real.log (((n : ℝ) / N) / (((a : ℝ) / N) * ((b : ℝ) / N))) := by
  unfold miCell
  by_cases hn : n = 0
  · simp [hn]
  · simp only [hn, if_false]
    unfold miTerm
    simp only [Transc.ofNat, Transc.log]
    have hN' : (N : ℝ) ≠ 0 := by exact_mod_cast (ne_of_gt hN)
    have ha' : (a : ℝ) ≠ 0 := by exact_mod_cast (ne_of_gt ha)
    have hb' : (b : ℝ) ≠ 0 := by exact_mod_cast (ne_of_gt hb)
    have hn' : (n : ℝ) ≠ 0 := by exact_mod_cast hn
    rw [Real.log_div (div_ne_zero hn' hN') (mul_ne_zero (div_ne_zero ha' hN') (div_ne_zero hb' hN')),
      Real.log_div hn' hN', Real.log_mul (div_ne_zero ha' hN') (div_ne_zero hb' hN'),
      Real.log_div ha' hN', Real.log_div hb' hN', Real.log_mul ha' hb']
    ring

/-! #### the sum is non-negative (Gibbs' inequality via `log t ≤ t − 1`), so the clip is the identity over ℝ -/

theorem miCell_ge {N n a b : Nat} (hN : 0 < N) (ha : 0 < a) (hb : 0 < b) :
    (n : ℝ) / N ≤ miCell (N : ℝ) N N n a b + ((a : ℝ) / N) * ((b : ℝ) / N) := by
  rw [miCell_textbook hN ha hb]
  have hN' : (0 : ℝ) < N := by exact_mod_cast hN
  have ha' : (0 : ℝ) < a := by exact_mod_cast ha
  have hb' : (0 : ℝ) < b := by exact_mod_cast hb
  have hq : (0 : ℝ) < ((a : ℝ) / N) * ((b : ℝ) / N) := by positivity
  rcases Nat.eq_zero_or_pos n with hn | hn
  · subst hn; simp; positivity
  · have hp : (0 : ℝ) < (n : ℝ) / N := by
      have : (0 : ℝ) < n := by exact_mod_cast hn
      positivity
    set p : ℝ := (n : ℝ) / N with hpdef
    set q : ℝ := ((a : ℝ) / N) * ((b : ℝ) / N) with hqdef
    have hlog : Real.log (q / p) ≤ q / p - 1 := Real.log_le_sub_one_of_pos (by positivity)
    have hinv : Real.log (p / q) = - Real.log (q / p) := by
      rw [← Real.log_inv, inv_div]
    rw [hinv]
    have : p * (q / p - 1) = q - p := by field_simp
    nlinarith [mul_le_mul_of_nonneg_left hlog (le_of_lt hp)]

theorem sum_cast_div {β : Type} (l : List β) (f : β → Nat) (N : ℝ) :
    (l.map fun x => (f x : ℝ) / N).sum = (((l.map f).sum : Nat) : ℝ) / N := by
  induction l with
  | nil => simp
  | cons a l ih => simp only [List.map_cons, List.sum_cons, ih, Nat.cast_add, add_div]

theorem sum_le_sum_real {β : Type} (l : List β) (f g : β → ℝ) (h : ∀ x ∈ l, f x ≤ g x) :
    (l.map f).sum ≤ (l.map g).sum := by
  induction l with
  | nil => simp
  | cons a l ih =>
    simp only [List.map_cons, List.sum_cons]
    have := h a (List.mem_cons_self ..)
    have := ih (fun x hx => h x (List.mem_cons_of_mem _ hx))
    linarith

theorem sum_map_mul_left_real {β : Type} (l : List β) (c : ℝ) (f : β → ℝ) :
    (l.map fun x => c * f x).sum = c * (l.map f).sum := by
  induction l with
  | nil => simp
  | cons a l ih => simp only [List.map_cons, List.sum_cons, ih]; ring

theorem miSum_nonneg {yr ye : List Nat} (h : yr.length = ye.length) : 0 ≤ miSum yr ye := by
  rcases Nat.eq_zero_or_pos yr.length with h0 | hN
  · have : yr = [] := List.eq_nil_of_length_eq_zero h0
    subst this
    simp [miSum, classes, sortedUniq]
  have hN' : (yr.length : ℝ) ≠ 0 := by exact_mod_cast (ne_of_gt hN)
  -- termwise: p_xy ≤ cell + p_x p_y
  have hterm : ((classes yr).map fun x => ((classes ye).map fun y =>
        (((yr.zip ye).countP fun p => p.1 == x && p.2 == y : Nat) : ℝ) / (yr.length : ℝ)).sum).sum ≤
      ((classes yr).map fun x => ((classes ye).map fun y =>
        miCell (yr.length : ℝ) (yr.length : ℝ) (yr.length : ℝ)
          ((yr.zip ye).countP fun p => p.1 == x && p.2 == y) (yr.count x) (ye.count y)
        + ((yr.count x : ℝ) / yr.length) * ((ye.count y : ℝ) / yr.length)).sum).sum := by
    apply sum_le_sum_real
    intro x hx
    apply sum_le_sum_real
    intro y hy
    exact miCell_ge hN (List.count_pos_iff.2 (mem_classes.1 hx)) (List.count_pos_iff.2 (mem_classes.1 hy))
  -- left side is 1
  have hleft : ((classes yr).map fun x => ((classes ye).map fun y =>
        (((yr.zip ye).countP fun p => p.1 == x && p.2 == y : Nat) : ℝ) / (yr.length : ℝ)).sum).sum = 1 := by
    have : ((classes yr).map fun x => ((classes ye).map fun y =>
        (((yr.zip ye).countP fun p => p.1 == x && p.2 == y : Nat) : ℝ) / (yr.length : ℝ)).sum) =
        (classes yr).map fun x => ((((classes ye).map fun y =>
          (yr.zip ye).countP fun p => p.1 == x && p.2 == y).sum : Nat) : ℝ) / (yr.length : ℝ) := by
      apply List.map_congr_left
      intro x _
      exact sum_cast_div _ _ _
    rw [this, sum_cast_div, sum_cells_eq_length h, div_self hN']
  -- the product part is 1
  have hb1 : ((classes ye).map fun y => (ye.count y : ℝ) / (yr.length : ℝ)).sum = 1 := by
    rw [sum_cast_div]
    have : ((classes ye).map fun b => ye.count b).sum = yr.length := by rw [h]; exact classCounts_sum ye
    rw [this, div_self hN']
  have ha1 : ((classes yr).map fun x => (yr.count x : ℝ) / (yr.length : ℝ)).sum = 1 := by
    rw [sum_cast_div]
    have : ((classes yr).map fun a => yr.count a).sum = yr.length := classCounts_sum yr
    rw [this, div_self hN']
  have hright : ((classes yr).map fun x => ((classes ye).map fun y =>
        ((yr.count x : ℝ) / yr.length) * ((ye.count y : ℝ) / yr.length)).sum).sum = 1 := by
    have : ((classes yr).map fun x => ((classes ye).map fun y =>
        ((yr.count x : ℝ) / yr.length) * ((ye.count y : ℝ) / yr.length)).sum) =
        (classes yr).map fun x => (yr.count x : ℝ) / yr.length := by
      apply List.map_congr_left
      intro x _
      rw [sum_map_mul_left_real, hb1, mul_one]
    rw [this, ha1]
  have hsplit : ((classes yr).map fun x => ((classes ye).map fun y =>
        miCell (yr.length : ℝ) (yr.length : ℝ) (yr.length : ℝ)
          ((yr.zip ye).countP fun p => p.1 == x && p.2 == y) (yr.count x) (ye.count y)
        + ((yr.count x : ℝ) / yr.length) * ((ye.count y : ℝ) / yr.length)).sum).sum =
      miSum yr ye + 1 := by
    rw [← hright]
    unfold miSum
    rw [← sum_map_add_real]
    congr 1
    apply List.map_congr_left
    intro x _
    exact sum_map_add_real _ _ _
  rw [hleft, hsplit] at hterm
  linarith

theorem clip0_real_of_nonneg {x : ℝ} (h : 0 ≤ x) : clip0 x = x := by
  unfold clip0
  simp only [Transc.lt, Transc.ofNat, Nat.cast_zero, decide_eq_true_eq]
  rw [if_neg (not_lt.2 h)]

/-- Over the reals the clip never fires: `mutualInfoIdx` is the double sum itself. -/
theorem mutualInfoIdx_real {yr ye : List Nat} (h : yr.length = ye.length) :
    mutualInfoIdx (α := ℝ) yr ye = miSum yr ye := by
  rw [mutualInfoIdx_real_clip h, clip0_real_of_nonneg (miSum_nonneg h)]

/-- MI is non-negative over the reals. -/
theorem mutualInfoIdx_real_nonneg {yr ye : List Nat} (h : yr.length = ye.length) :
    0 ≤ mutualInfoIdx (α := ℝ) yr ye := by
  rw [mutualInfoIdx_real h]; exact miSum_nonneg h

/-- **mi_textbook.** Over the reals `_mutual_info_score` is `Σ_ij p_ij log(p_ij / (p_i p_j))`
    (`p_ij = n_ij/n`, `p_i = a_i/n`, `p_j = b_j/n`; empty cells contribute 0). -/
theorem mutualInfoIdx_real_textbook {yr ye : List Nat} (h : yr.length = ye.length) :
    mutualInfoIdx (α := ℝ) yr ye =
      ((classes yr).map fun x => ((classes ye).map fun y =>
        let pij : ℝ := (((yr.zip ye).countP fun p => p.1 == x && p.2 == y : Nat) : ℝ) / (yr.length : ℝ)
        pij * Real.log (pij / (((yr.count x : ℝ) / yr.length) * ((ye.count y : ℝ) / yr.length)))).sum).sum := by
  rw [mutualInfoIdx_real h]
  unfold miSum
  congr 1
  apply List.map_congr_left
  intro x hx
  congr 1
  apply List.map_congr_left
  intro y hy
  have hxc : 0 < yr.count x := List.count_pos_iff.2 (mem_classes.1 hx)
  have hyc : 0 < ye.count y := List.count_pos_iff.2 (mem_classes.1 hy)
  have hN : 0 < yr.length := List.length_pos_of_mem (mem_classes.1 hx)
  exact miCell_textbook hN hxc hyc

end Segment
end Mir
