import MirModel.Segment
import MirProofs.Lemmas.Segment
import Mathlib.Analysis.SpecialFunctions.Log.Basic
import Mathlib.Analysis.Real.Sqrt

/-!
  The real-number interpretation of the entropy-based part of `MirModel.Segment`
  (one definition, two interpretations: `Float` is executed, `ℝ` is reasoned about).
-/
namespace Mir
namespace Segment

noncomputable instance instTranscReal : Transc ℝ where
  ofNat n := (n : ℝ)
  ofRat q := (q : ℝ)
  log := Real.log
  exp := Real.exp
  sqrt := Real.sqrt
  lt a b := decide (a < b)
  beq a b := decide (a = b)

theorem tsum_real (xs : List ℝ) : tsum xs = xs.sum := by
  unfold tsum
  induction xs with
  | nil => simp [Transc.ofNat]
  | cons x xs ih => simp [List.foldr_cons, ih]

/-- `util.f_measure` at `beta = 1` is the harmonic mean (0 when both arguments are 0). -/
theorem fMeasureT_real_one (p r : ℝ) :
    fMeasureT p r (Transc.ofNat 1) = if p = 0 ∧ r = 0 then 0 else 2 * p * r / (p + r) := by
  unfold fMeasureT
  simp only [Transc.beq, Transc.ofNat, Nat.cast_zero, Nat.cast_one, Bool.and_eq_true, decide_eq_true_eq]
  split
  · rfl
  · ring_nf

/-! ### mutual information over the reals: a double sum over the table; symmetry; textbook form -/

theorem sum_flatMap_real {β : Type} (l : List β) (f : β → List ℝ) :
    (l.flatMap f).sum = (l.map fun a => (f a).sum).sum := by
  induction l with
  | nil => simp
  | cons a l ih => simp [List.flatMap_cons, List.sum_append, ih]

theorem sum_filterMap_ite {β : Type} (l : List β) (c : β → Prop) [DecidablePred c] (t : β → ℝ) :
    (l.filterMap fun y => if c y then none else some (t y)).sum =
      (l.map fun y => if c y then 0 else t y).sum := by
  induction l with
  | nil => simp
  | cons a l ih =>
    by_cases h : c a
    · simp [h, ih]
    · simp [h, ih]

theorem sum_map_add_real {β : Type} (f g : β → ℝ) (z : List β) :
    (z.map fun p => f p + g p).sum = (z.map f).sum + (z.map g).sum := by
  induction z with
  | nil => simp
  | cons a z ih => simp [ih]; ring

theorem sum_sum_comm {β γ : Type} (as : List β) (bs : List γ) (F : β → γ → ℝ) :
    (as.map fun a => (bs.map fun b => F a b).sum).sum = (bs.map fun b => (as.map fun a => F a b).sum).sum := by
  induction as with
  | nil => simp
  | cons a as ih =>
    simp only [List.map_cons, List.sum_cons, ih]
    rw [← sum_map_add_real]

/-- a cell's contribution, with the convention that empty cells contribute 0 -/
noncomputable def miCell (total sa sb : ℝ) (nij ai bj : Nat) : ℝ :=
  if nij = 0 then 0 else miTerm total sa sb nij ai bj

theorem mutualInfoTab_real {β γ : Type} (as : List β) (bs : List γ) (F : β → γ → Nat) (G : β → Nat) (H : γ → Nat) :
    mutualInfoTab (α := ℝ) (as.map fun x => bs.map (F x)) (as.map G) (bs.map H) =
      (as.map fun x => (bs.map fun y =>
        miCell (((as.map fun x => (bs.map (F x)).sum).sum : Nat) : ℝ) ((as.map G).sum : Nat) ((bs.map H).sum : Nat)
          (F x y) (G x) (H y)).sum).sum := by
  unfold mutualInfoTab
  rw [tsum_real, List.zip_map', List.flatMap_map, sum_flatMap_real]
  simp only [List.map_map, Function.comp_def]
  congr 1
  apply List.map_congr_left
  intro x _
  rw [List.zip_map', List.filterMap_map]
  simp only [Function.comp_def]
  rw [sum_filterMap_ite]
  rfl

theorem countP_zip_swap (yr ye : List Nat) (x y : Nat) :
    (ye.zip yr).countP (fun p => p.1 == y && p.2 == x) = (yr.zip ye).countP (fun p => p.1 == x && p.2 == y) := by
  rw [← List.zip_swap, List.countP_map]
  apply List.countP_congr
  intro p _
  simp [Bool.and_comm]

/-- `mutualInfoIdx` as a double sum over reference classes × estimated classes. -/
theorem mutualInfoIdx_real {yr ye : List Nat} (h : yr.length = ye.length) :
    mutualInfoIdx (α := ℝ) yr ye =
      ((classes yr).map fun x => ((classes ye).map fun y =>
        miCell (yr.length : ℝ) (yr.length : ℝ) (yr.length : ℝ)
          ((yr.zip ye).countP fun p => p.1 == x && p.2 == y) (yr.count x) (ye.count y)).sum).sum := by
  unfold mutualInfoIdx
  simp only
  rw [rowSums_contingency h, colSums_contingency h]
  unfold contingency
  rw [mutualInfoTab_real]
  have e1 : ((classes yr).map fun a => yr.count a).sum = yr.length := classCounts_sum yr
  have e2 : ((classes ye).map fun b => ye.count b).sum = yr.length := by rw [h]; exact classCounts_sum ye
  have e3 : ((classes yr).map fun x => ((classes ye).map fun b =>
      (yr.zip ye).countP fun p => p.1 == x && p.2 == b).sum).sum = yr.length := by
    have := rowSums_contingency h
    unfold rowSums contingency at this
    rw [List.map_map] at this
    simp only [Function.comp_def] at this
    rw [this]; exact e1
  rw [e1, e2, e3]

theorem miCell_comm (N : ℝ) (n a b : Nat) : miCell N N N n a b = miCell N N N n b a := by
  unfold miCell miTerm
  simp only [Transc.ofNat, Transc.log]
  rw [mul_comm (a : ℝ) (b : ℝ)]

/-- **MI(a, b) = MI(b, a)** over the reals. -/
theorem mutualInfoIdx_real_symm {yr ye : List Nat} (h : yr.length = ye.length) :
    mutualInfoIdx (α := ℝ) ye yr = mutualInfoIdx (α := ℝ) yr ye := by
  rw [mutualInfoIdx_real h, mutualInfoIdx_real h.symm, sum_sum_comm, ← h]
  congr 1
  apply List.map_congr_left
  intro x _
  congr 1
  apply List.map_congr_left
  intro y _
  rw [countP_zip_swap, miCell_comm]

/-- The code's `log a − log b` arrangement of one cell is the textbook `p_ij · log(p_ij / (p_i p_j))`. -/
theorem miCell_textbook {N : Nat} {n a b : Nat} (hN : 0 < N) (ha : 0 < a) (hb : 0 < b) :
    miCell (N : ℝ) N N n a b =
      ((n : ℝ) / N) * Real.log (((n : ℝ) / N) / (((a : ℝ) / N) * ((b : ℝ) / N))) := by
  unfold miCell
  by_cases hn : n = 0
  · simp [hn]
  · simp only [hn, if_false]
    unfold miTerm
    simp only [Transc.ofNat, Transc.log]
    have hN' : (N : ℝ) ≠ 0 := by exact_mod_cast (ne_of_gt hN)
    have ha' : (a : ℝ) ≠ 0 := by exact_mod_cast (ne_of_gt ha)
    have hb' : (b : ℝ) ≠ 0 := by exact_mod_cast (ne_of_gt hb)
    have hn' : (n : ℝ) ≠ 0 := by exact_mod_cast hn
    rw [Real.log_div (div_ne_zero hn' hN') (mul_ne_zero (div_ne_zero ha' hN') (div_ne_zero hb' hN')),
      Real.log_div hn' hN', Real.log_mul (div_ne_zero ha' hN') (div_ne_zero hb' hN'),
      Real.log_div ha' hN', Real.log_div hb' hN', Real.log_mul ha' hb']
    ring

/-- **mi_textbook.** Over the reals `_mutual_info_score` is `Σ_ij p_ij log(p_ij / (p_i p_j))`
    (`p_ij = n_ij/n`, `p_i = a_i/n`, `p_j = b_j/n`; empty cells contribute 0). -/
theorem mutualInfoIdx_real_textbook {yr ye : List Nat} (h : yr.length = ye.length) :
    mutualInfoIdx (α := ℝ) yr ye =
      ((classes yr).map fun x => ((classes ye).map fun y =>
        let pij : ℝ := (((yr.zip ye).countP fun p => p.1 == x && p.2 == y : Nat) : ℝ) / (yr.length : ℝ)
        pij * Real.log (pij / (((yr.count x : ℝ) / yr.length) * ((ye.count y : ℝ) / yr.length)))).sum).sum := by
  rw [mutualInfoIdx_real h]
  congr 1
  apply List.map_congr_left
  intro x hx
  congr 1
  apply List.map_congr_left
  intro y hy
  have hxc : 0 < yr.count x := List.count_pos_iff.2 (mem_classes.1 hx)
  have hyc : 0 < ye.count y := List.count_pos_iff.2 (mem_classes.1 hy)
  have hN : 0 < yr.length := List.length_pos_of_mem (mem_classes.1 hx)
  exact miCell_textbook hN hxc hyc

end Segment
end Mir
