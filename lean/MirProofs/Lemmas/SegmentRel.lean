import MirModel.Segment
import MirProofs.Lemmas.Segment
import MirProofs.Lemmas.SegmentReal
import MirProofs.Lemmas.SegmentText
import MirProofs.Lemmas.Entropy
import MirProofs.Lemmas.C14Segment
import MirProofs.Lemmas.Intervals
import MirProofs.Lemmas.IntervalsScore
import Mathlib.Data.List.Perm.Basic
import Mathlib.Algebra.BigOperators.Group.List.Lemmas

/-!
  Relational lemmas for the entropy-based segment labelling scores (MI, NMI, AMI, NCE over/under/F,
  V-measure) over the real-number instance of `Transc`:

  * exchanging reference and estimate (C06),
  * renaming the labels of either sequence by an injective map (C08),
  * a sequence scored against itself (C02).

  Everything is about the model's own functions (`mutualInfoIdx`, `nmiIdx`, `amiIdx`, `nceIdx`,
  `vmeasureIdx`) for label-index sequences of any length; the textbook forms of `SegmentText.lean` are
  the bridge.
-/
namespace Mir
namespace Segment

/-! ### A. exchanging the two sequences -/

theorem miSpecial_symm {yr ye : List Nat} : miSpecial ye yr ↔ miSpecial yr ye := by
  unfold miSpecial; tauto

/-- NMI (value, numerator, denominator) is symmetric. -/
theorem nmiIdx_real_symm {yr ye : List Nat} (h : yr.length = ye.length) :
    nmiIdx (α := ℝ) ye yr = nmiIdx (α := ℝ) yr ye := by
  by_cases hs : miSpecial yr ye
  · rw [nmiIdx_special hs, nmiIdx_special (miSpecial_symm.2 hs)]
  · rw [nmiIdx_real h hs, nmiIdx_real h.symm (fun h' => hs (miSpecial_symm.1 h')), miSum_symm h,
      mul_comm (shannon ye) (shannon yr)]

theorem hypFact_symm (n a b k : Nat) : hypFact n b a k = hypFact n a b k := by
  unfold hypFact
  have e : n + k - b - a = n + k - a - b := by omega
  rw [e]; ring

theorem emiTerm_symm (n a b k : Nat) : emiTerm n b a k = emiTerm n a b k := by
  unfold emiTerm
  rw [hypFact_symm, mul_comm (b : ℝ) (a : ℝ)]

theorem emiLo_symm (n a b : Nat) : emiLo n b a = emiLo n a b := by unfold emiLo; omega

theorem emiHi_symm (a b : Nat) : emiHi b a = emiHi a b := by unfold emiHi; omega

/-- **The expected-MI triple loop is symmetric under exchanging the two margin vectors** (any margins, any `n`):
    the hypergeometric weight `a! b! (n−a)! (n−b)! / (n! k! (a−k)! (b−k)! (n+k−a−b)!)`, the range
    `max(a+b−n,1) … min(a,b)` and `log(n k / (a b))` are all symmetric in `(a, b)`. -/
theorem expectedMI_real_symm (a b : List Nat) (n : Nat) :
    expectedMI (α := ℝ) b a n = expectedMI (α := ℝ) a b n := by
  rw [expectedMI_real, expectedMI_real,
    sum_sum_comm b a (fun bj ai =>
      ((List.range' (emiLo n bj ai) (emiHi bj ai + 1 - emiLo n bj ai)).map fun nij => emiTerm n bj ai nij).sum)]
  congr 1
  apply List.map_congr_left
  intro ai _
  congr 1
  apply List.map_congr_left
  intro bj _
  rw [emiLo_symm, emiHi_symm]
  congr 1
  apply List.map_congr_left
  intro k _
  exact emiTerm_symm n ai bj k

theorem emiText_eq_expectedMI {yr ye : List Nat} (h : yr.length = ye.length) :
    emiText yr ye = expectedMI (α := ℝ) ((classes yr).map fun a => yr.count a)
      ((classes ye).map fun b => ye.count b) yr.length := by
  rw [← expectedMI_table h, rowSums_contingency h, colSums_contingency h]

/-- the hypergeometric expectation subtracted by AMI is symmetric -/
theorem emiText_symm {yr ye : List Nat} (h : yr.length = ye.length) : emiText ye yr = emiText yr ye := by
  rw [emiText_eq_expectedMI h, emiText_eq_expectedMI h.symm, expectedMI_real_symm, h]

/-- AMI (value, numerator, denominator) is symmetric. -/
theorem amiIdx_real_symm {yr ye : List Nat} (h : yr.length = ye.length) :
    amiIdx (α := ℝ) ye yr = amiIdx (α := ℝ) yr ye := by
  by_cases hs : miSpecial yr ye
  · rw [amiIdx_special hs, amiIdx_special (miSpecial_symm.2 hs)]
  · rw [amiIdx_real h hs, amiIdx_real h.symm (fun h' => hs (miSpecial_symm.1 h')), miSum_symm h,
      emiText_symm h, max_comm (shannon ye) (shannon yr)]

/-- `util.f_measure` at `beta = 1` is symmetric in its two arguments. -/
theorem fMeasureT_real_symm_one (p r : ℝ) : fMeasureT p r (1 : ℝ) = fMeasureT r p (1 : ℝ) := by
  unfold fMeasureT
  simp only [Transc.beq, Transc.ofNat, Nat.cast_zero, Nat.cast_one, Bool.and_eq_true, decide_eq_true_eq]
  by_cases h : p = 0 ∧ r = 0
  · rw [if_pos h, if_pos ⟨h.2, h.1⟩]
  · rw [if_neg h, if_neg (fun h' => h ⟨h'.2, h'.1⟩)]
    ring

/-- **NCE swap.** Exchanging the sequences exchanges the over- and the under-segmentation score (both
    normalisations); the third component is `util.f_measure` of the exchanged pair. -/
theorem nceIdx_real_swap {yr ye : List Nat} (h : yr.length = ye.length) (beta : ℝ) (marginal : Bool) :
    nceIdx (α := ℝ) ye yr beta marginal =
      ((nceIdx (α := ℝ) yr ye beta marginal).2.1, (nceIdx (α := ℝ) yr ye beta marginal).1,
       fMeasureT (nceIdx (α := ℝ) yr ye beta marginal).2.1 (nceIdx (α := ℝ) yr ye beta marginal).1 beta) := by
  rw [nceIdx_real h, nceIdx_real h.symm]

/-- at `beta = 1` the F-measure component is unchanged by the exchange -/
theorem nceIdx_real_swap_F {yr ye : List Nat} (h : yr.length = ye.length) (marginal : Bool) :
    (nceIdx (α := ℝ) ye yr (1 : ℝ) marginal).2.2 = (nceIdx (α := ℝ) yr ye (1 : ℝ) marginal).2.2 := by
  rw [nceIdx_real_swap h]
  simp only
  rw [fMeasureT_real_symm_one]
  rw [nceIdx_real h]

/-! ### B. renaming the labels by injective maps -/

theorem classes_map_perm {f : Nat → Nat} (hf : Function.Injective f) (y : List Nat) :
    (classes (y.map f)).Perm ((classes y).map f) := by
  rw [List.perm_ext_iff_of_nodup (nodup_classes _) ((nodup_classes y).map hf)]
  intro a
  simp only [mem_classes, List.mem_map]

/-- a sum over the classes of a relabelled sequence is the sum over the original classes -/
theorem sum_classes_map {f : Nat → Nat} (hf : Function.Injective f) (y : List Nat) (F : Nat → ℝ) :
    ((classes (y.map f)).map F).sum = ((classes y).map fun c => F (f c)).sum := by
  have := ((classes_map_perm hf y).map F).sum_eq
  rw [this, List.map_map]
  rfl

theorem count_map_inj {f : Nat → Nat} (hf : Function.Injective f) (y : List Nat) (c : Nat) :
    (y.map f).count (f c) = y.count c := List.count_map_of_injective y f hf c

theorem countP_zip_map {f g : Nat → Nat} (hf : Function.Injective f) (hg : Function.Injective g)
    (yr ye : List Nat) (x y : Nat) :
    ((yr.map f).zip (ye.map g)).countP (fun p => p.1 == f x && p.2 == g y) =
      (yr.zip ye).countP (fun p => p.1 == x && p.2 == y) := by
  rw [List.zip_map, List.countP_map]
  apply List.countP_congr
  intro p _
  simp only [Function.comp_def, Prod.map_fst, Prod.map_snd, Bool.and_eq_true, beq_iff_eq]
  constructor
  · rintro ⟨a, b⟩; exact ⟨hf a, hg b⟩
  · rintro ⟨a, b⟩; exact ⟨by rw [a], by rw [b]⟩

theorem margP_map {f : Nat → Nat} (hf : Function.Injective f) (y : List Nat) (c : Nat) :
    margP (y.map f) (f c) = margP y c := by
  unfold margP
  rw [count_map_inj hf, List.length_map]

theorem jointP_map {f g : Nat → Nat} (hf : Function.Injective f) (hg : Function.Injective g)
    (yr ye : List Nat) (x y : Nat) :
    jointP (yr.map f) (ye.map g) (f x) (g y) = jointP yr ye x y := by
  unfold jointP
  rw [countP_zip_map hf hg, List.length_map]

theorem shannon_map {f : Nat → Nat} (hf : Function.Injective f) (y : List Nat) :
    shannon (y.map f) = shannon y := by
  unfold shannon
  rw [sum_classes_map hf]
  simp only [margP_map hf]

theorem condEntropy2_map {f g : Nat → Nat} (hf : Function.Injective f) (hg : Function.Injective g)
    (yr ye : List Nat) : condEntropy2 (yr.map f) (ye.map g) = condEntropy2 yr ye := by
  unfold condEntropy2
  rw [sum_classes_map hf]
  congr 2
  apply List.map_congr_left
  intro x _
  rw [sum_classes_map hg]
  simp only [jointP_map hf hg, margP_map hf]

theorem miSum_map {f g : Nat → Nat} (hf : Function.Injective f) (hg : Function.Injective g)
    (yr ye : List Nat) : miSum (yr.map f) (ye.map g) = miSum yr ye := by
  unfold miSum
  rw [sum_classes_map hf]
  congr 1
  apply List.map_congr_left
  intro x _
  rw [sum_classes_map hg]
  simp only [countP_zip_map hf hg, count_map_inj hf, count_map_inj hg, List.length_map]

theorem emiText_map {f g : Nat → Nat} (hf : Function.Injective f) (hg : Function.Injective g)
    (yr ye : List Nat) : emiText (yr.map f) (ye.map g) = emiText yr ye := by
  unfold emiText
  rw [sum_classes_map hf]
  congr 1
  apply List.map_congr_left
  intro x _
  rw [sum_classes_map hg]
  simp only [count_map_inj hf, count_map_inj hg, List.length_map]

theorem miSpecial_map {f g : Nat → Nat} (hf : Function.Injective f) (hg : Function.Injective g)
    (yr ye : List Nat) : miSpecial (yr.map f) (ye.map g) ↔ miSpecial yr ye := by
  unfold miSpecial
  rw [length_classes_map hf, length_classes_map hg]

/-- **MI is unchanged by relabelling either sequence.** -/
theorem mutualInfoIdx_real_map {f g : Nat → Nat} (hf : Function.Injective f) (hg : Function.Injective g)
    {yr ye : List Nat} (h : yr.length = ye.length) :
    mutualInfoIdx (α := ℝ) (yr.map f) (ye.map g) = mutualInfoIdx (α := ℝ) yr ye := by
  rw [mutualInfoIdx_real h, mutualInfoIdx_real (by simpa using h), miSum_map hf hg]

/-- **NMI (value, numerator, denominator) is unchanged by relabelling either sequence.** -/
theorem nmiIdx_real_map {f g : Nat → Nat} (hf : Function.Injective f) (hg : Function.Injective g)
    {yr ye : List Nat} (h : yr.length = ye.length) :
    nmiIdx (α := ℝ) (yr.map f) (ye.map g) = nmiIdx (α := ℝ) yr ye := by
  have h' : (yr.map f).length = (ye.map g).length := by simpa using h
  by_cases hs : miSpecial yr ye
  · rw [nmiIdx_special hs, nmiIdx_special ((miSpecial_map hf hg yr ye).2 hs)]
  · rw [nmiIdx_real h hs, nmiIdx_real h' (fun x => hs ((miSpecial_map hf hg yr ye).1 x)),
      miSum_map hf hg, shannon_map hf, shannon_map hg]

/-- **AMI (value, numerator, denominator) is unchanged by relabelling either sequence.** -/
theorem amiIdx_real_map {f g : Nat → Nat} (hf : Function.Injective f) (hg : Function.Injective g)
    {yr ye : List Nat} (h : yr.length = ye.length) :
    amiIdx (α := ℝ) (yr.map f) (ye.map g) = amiIdx (α := ℝ) yr ye := by
  have h' : (yr.map f).length = (ye.map g).length := by simpa using h
  by_cases hs : miSpecial yr ye
  · rw [amiIdx_special hs, amiIdx_special ((miSpecial_map hf hg yr ye).2 hs)]
  · rw [amiIdx_real h hs, amiIdx_real h' (fun x => hs ((miSpecial_map hf hg yr ye).1 x)),
      miSum_map hf hg, shannon_map hf, shannon_map hg, emiText_map hf hg]

/-- **NCE over / under / F (both normalisations, hence the V-measure) are unchanged by relabelling.** -/
theorem nceIdx_real_map {f g : Nat → Nat} (hf : Function.Injective f) (hg : Function.Injective g)
    {yr ye : List Nat} (h : yr.length = ye.length) (beta : ℝ) (marginal : Bool) :
    nceIdx (α := ℝ) (yr.map f) (ye.map g) beta marginal = nceIdx (α := ℝ) yr ye beta marginal := by
  have h' : (yr.map f).length = (ye.map g).length := by simpa using h
  rw [nceIdx_real h, nceIdx_real h', shannon_map hf, shannon_map hg, condEntropy2_map hf hg,
    condEntropy2_map hg hf, length_classes_map hf, length_classes_map hg]

/-! ### C. a sequence scored against itself -/

theorem countP_zip_self (y : List Nat) (x x' : Nat) :
    (y.zip y).countP (fun p => p.1 == x && p.2 == x') = if x = x' then y.count x else 0 := by
  induction y with
  | nil => simp
  | cons a l ih =>
    rw [List.zip_cons_cons, List.countP_cons, ih, List.count_cons]
    by_cases e : x = x'
    · subst e
      by_cases e2 : a = x
      · simp [e2]
      · simp [e2]
    · by_cases e2 : a = x
      · simp [e, e2]
      · simp [e, e2]

theorem jointP_self (y : List Nat) (x x' : Nat) :
    jointP y y x x' = if x = x' then margP y x else 0 := by
  unfold jointP margP
  rw [countP_zip_self]
  split <;> simp

theorem sum_map_zero_real {β : Type} (l : List β) (f : β → ℝ) (h : ∀ x ∈ l, f x = 0) : (l.map f).sum = 0 := by
  induction l with
  | nil => simp
  | cons a l ih =>
    simp only [List.map_cons, List.sum_cons, h a (List.mem_cons_self ..),
      ih (fun x hx => h x (List.mem_cons_of_mem _ hx)), add_zero]

/-- `H(y | y) = 0`. -/
theorem condEntropy2_self (y : List Nat) : condEntropy2 y y = 0 := by
  unfold condEntropy2
  rw [neg_eq_zero]
  apply sum_map_zero_real
  intro x hx
  apply sum_map_zero_real
  intro x' _
  rw [jointP_self]
  split
  · rw [div_self (ne_of_gt (margP_pos hx)), Real.logb_one, mul_zero]
  · rw [zero_mul]

/-- **`MI(y, y) = H(y)`** (the textbook double sum, any length). -/
theorem miSum_self (y : List Nat) : miSum y y = shannon y := by
  rw [miSum_chain rfl, condEntropy2_self, mul_zero, sub_zero]

theorem mutualInfoIdx_real_self (y : List Nat) : mutualInfoIdx (α := ℝ) y y = shannon y := by
  rw [mutualInfoIdx_real rfl, miSum_self]

theorem not_miSpecial_of_two_classes {yr ye : List Nat} (h : 1 < (classes yr).length) : ¬ miSpecial yr ye := by
  unfold miSpecial; omega

/-- with at least two classes, every class misses at least one frame: `H(y) ≥ 1/n` -/
theorem shannon_ge_inv_length {y : List Nat} (h : 1 < (classes y).length) :
    1 / (y.length : ℝ) ≤ shannon y := by
  have hne : classes y ≠ [] := by intro e; rw [e] at h; simp at h
  obtain ⟨c0, hc0⟩ := List.exists_mem_of_ne_nil _ hne
  have hlen : 0 < y.length := length_pos_of_mem_classes hc0
  have hn : (0 : ℝ) < y.length := by exact_mod_cast hlen
  unfold shannon
  rw [← sum_map_neg_real]
  have hsum : ((classes y).map fun c => margP y c * (1 / (y.length : ℝ))).sum = 1 / (y.length : ℝ) := by
    rw [sum_map_mul_right_real, sum_margP hlen, one_mul]
  rw [← hsum]
  apply sum_le_sum_real
  intro c hc
  have hp := margP_pos hc
  have hlt := margP_lt_one h hc
  have hlog : Real.log (margP y c) ≤ margP y c - 1 := Real.log_le_sub_one_of_pos hp
  -- `count c ≤ n − 1`
  have hcnt : y.count c + 1 ≤ y.length := by
    have : (y.count c : ℝ) < y.length := by
      unfold margP at hlt
      rwa [div_lt_one hn] at hlt
    exact_mod_cast this
  have hp1 : margP y c ≤ 1 - 1 / (y.length : ℝ) := by
    unfold margP
    rw [le_sub_iff_add_le, ← add_div, div_le_one hn]
    exact_mod_cast hcnt
  nlinarith

/-- **NMI(y, y)**: `H / max(H, 1e-10)` — the value is 1 exactly when the entropy reaches the code's floor. -/
theorem nmiIdx_real_self {y : List Nat} (h : 1 < (classes y).length) :
    nmiIdx (α := ℝ) y y = (shannon y / max (shannon y) (1 / 10 ^ 10), shannon y, max (shannon y) (1 / 10 ^ 10)) := by
  rw [nmiIdx_real rfl (not_miSpecial_of_two_classes h), miSum_self, Real.sqrt_mul_self (shannon_nonneg y)]

theorem nmiIdx_real_self_one {y : List Nat} (h : 1 < (classes y).length) (hfloor : 1 / 10 ^ 10 ≤ shannon y) :
    nmiIdx (α := ℝ) y y = (1, shannon y, shannon y) := by
  have hp : 0 < shannon y := (shannon_pos_iff y).2 h
  rw [nmiIdx_real_self h, max_eq_left hfloor, div_self (ne_of_gt hp)]

/-- up to ten thousand million frames the floor is never reached -/
theorem floor_le_shannon {y : List Nat} (h : 1 < (classes y).length) (hlen : y.length ≤ 10 ^ 10) :
    (1 : ℝ) / 10 ^ 10 ≤ shannon y := by
  refine le_trans ?_ (shannon_ge_inv_length h)
  have hne : classes y ≠ [] := by intro e; rw [e] at h; simp at h
  obtain ⟨c0, hc0⟩ := List.exists_mem_of_ne_nil _ hne
  have hn : (0 : ℝ) < y.length := by exact_mod_cast length_pos_of_mem_classes hc0
  have hl : (y.length : ℝ) ≤ 10 ^ 10 := by exact_mod_cast hlen
  exact one_div_le_one_div_of_le hn hl

theorem fMeasureT_real_one_one (beta : ℝ) : fMeasureT (1 : ℝ) 1 beta = 1 := by
  unfold fMeasureT
  simp only [Transc.beq, Transc.ofNat, Nat.cast_zero, Nat.cast_one, one_ne_zero, decide_false, Bool.and_self,
    Bool.false_eq_true, if_false, mul_one]
  have : beta * beta + 1 ≠ 0 := by nlinarith [mul_self_nonneg beta]
  rw [add_comm]
  exact div_self this

theorem fMeasureT_real_zero_zero (beta : ℝ) : fMeasureT (0 : ℝ) 0 beta = 0 := by
  unfold fMeasureT
  simp [Transc.beq, Transc.ofNat]

/-- **NCE / V-measure of a sequence against itself**: `(1, 1, 1)` with at least two classes (either normalisation,
    any beta), `(0, 0, 0)` — the documented convention — with one class or none. -/
theorem nceIdx_real_self (y : List Nat) (beta : ℝ) (marginal : Bool) :
    nceIdx (α := ℝ) y y beta marginal = if 1 < (classes y).length then (1, 1, 1) else (0, 0, 0) := by
  have hl2 : 0 < Real.log 2 := Real.log_pos (by norm_num)
  rw [nceIdx_real rfl, condEntropy2_self]
  have hz : (0 < (if marginal then shannon y / Real.log 2 else Real.logb 2 ((classes y).length : ℝ))) ↔
      1 < (classes y).length := by
    cases marginal
    · simpa using logb_two_natCast_pos_iff (classes y).length
    · simp only [if_true]
      rw [← shannon_pos_iff]
      constructor
      · intro hq
        have := mul_pos hq hl2
        rwa [div_mul_cancel₀ _ (ne_of_gt hl2)] at this
      · intro hp; exact div_pos hp hl2
  simp only [hz, zero_div, sub_zero]
  split
  · rw [fMeasureT_real_one_one]
  · rw [fMeasureT_real_zero_zero]

/-- **AMI(y, y)** outside the special case: `(H − E[MI]) / (H − E[MI])`. -/
theorem amiIdx_real_self {y : List Nat} (h : 1 < (classes y).length) :
    amiIdx (α := ℝ) y y =
      ((shannon y - emiText y y) / (shannon y - emiText y y), shannon y - emiText y y, shannon y - emiText y y) := by
  rw [amiIdx_real rfl (not_miSpecial_of_two_classes h), miSum_self, max_self]

theorem amiIdx_real_self_one {y : List Nat} (h : 1 < (classes y).length) (hne : emiText y y ≠ shannon y) :
    (amiIdx (α := ℝ) y y).1 = 1 := by
  rw [amiIdx_real_self h]
  exact div_self (sub_ne_zero.2 (Ne.symm hne))

/-! #### AMI of a labelling against itself: `E[MI] < H` unless every frame has its own label -/

theorem sum_lt_sum_real {β : Type} (l : List β) (f g : β → ℝ) (hle : ∀ x ∈ l, f x ≤ g x) {a : β} (ha : a ∈ l)
    (hlt : f a < g a) : (l.map f).sum < (l.map g).sum := by
  induction l with
  | nil => cases ha
  | cons b l ih =>
    simp only [List.map_cons, List.sum_cons]
    have hb : f b ≤ g b := hle b (List.mem_cons_self ..)
    have hl : (l.map f).sum ≤ (l.map g).sum := sum_le_sum_real l f g (fun x hx => hle x (List.mem_cons_of_mem _ hx))
    rcases List.mem_cons.1 ha with e | hmem
    · subst e; linarith
    · have := ih (fun x hx => hle x (List.mem_cons_of_mem _ hx)) hmem
      linarith

/-- a term of the expected-MI loop with `k < b_j` (and positive hypergeometric weight) is strictly below the bound
    used for `EMI ≤ H` -/
theorem emiTerm_lt {n ai bj k : ℕ} (hai : 1 ≤ ai) (han : ai ≤ n) (hbn : bj ≤ n) (hk1 : 1 ≤ k) (hka : k ≤ ai)
    (hkb : k < bj) (hlo : ai + bj ≤ n + k) :
    Entropy.emiTerm n ai bj k <
      (Real.log ((n : ℝ) / (ai : ℝ)) / (n : ℝ) / (n.choose bj : ℝ)) *
        ((k * (ai.choose k * (n - ai).choose (bj - k)) : ℕ) : ℝ) := by
  have hn : (0 : ℝ) < (n : ℝ) := by exact_mod_cast (show 0 < n by omega)
  have ha : (0 : ℝ) < (ai : ℝ) := by exact_mod_cast (show 0 < ai by omega)
  have hb : (0 : ℝ) < (bj : ℝ) := by exact_mod_cast (show 0 < bj by omega)
  have hk : (0 : ℝ) < (k : ℝ) := by exact_mod_cast (show 0 < k by omega)
  have hkb' : (k : ℝ) < (bj : ℝ) := by exact_mod_cast hkb
  have hlog : Real.log ((n : ℝ) * (k : ℝ)) - Real.log ((ai : ℝ) * (bj : ℝ)) < Real.log ((n : ℝ) / (ai : ℝ)) := by
    rw [← Real.log_div (by positivity) (by positivity)]
    apply Real.log_lt_log (by positivity)
    rw [div_lt_div_iff₀ (by positivity) ha]
    nlinarith [mul_lt_mul_of_pos_left hkb' (mul_pos hn ha)]
  have hc1 : (0 : ℝ) < (ai.choose k : ℝ) := by exact_mod_cast Nat.choose_pos hka
  have hc2 : (0 : ℝ) < ((n - ai).choose (bj - k) : ℝ) := by exact_mod_cast Nat.choose_pos (show bj - k ≤ n - ai by omega)
  have hc3 : (0 : ℝ) < (n.choose bj : ℝ) := by exact_mod_cast Nat.choose_pos hbn
  have hw : (0 : ℝ) < ((k : ℝ) / (n : ℝ)) * Entropy.hyp n ai bj k := by
    unfold Entropy.hyp; positivity
  have : Entropy.emiTerm n ai bj k =
      (((k : ℝ) / (n : ℝ)) * Entropy.hyp n ai bj k) *
        (Real.log ((n : ℝ) * (k : ℝ)) - Real.log ((ai : ℝ) * (bj : ℝ))) := by
    unfold Entropy.emiTerm; ring
  rw [this]
  refine lt_of_lt_of_le (mul_lt_mul_of_pos_left hlog hw) (le_of_eq ?_)
  unfold Entropy.hyp
  push_cast
  ring

theorem emi_inner_lt {n ai bj : ℕ} (hai : 1 ≤ ai) (han : ai ≤ n) (hbj : 1 ≤ bj) (hbn : bj ≤ n) {k0 : ℕ}
    (hk0 : k0 ∈ Entropy.loopRange n ai bj) (hk0b : k0 < bj) :
    ((Entropy.loopRange n ai bj).map fun k => Entropy.emiTerm n ai bj k).sum <
      Real.log ((n : ℝ) / (ai : ℝ)) / (n : ℝ) * ((ai : ℝ) * ((bj : ℝ) / (n : ℝ))) := by
  have hn : (0 : ℝ) < (n : ℝ) := by exact_mod_cast (show 0 < n by omega)
  have ha : (0 : ℝ) < (ai : ℝ) := by exact_mod_cast (show 0 < ai by omega)
  have hc : (0 : ℝ) < (n.choose bj : ℝ) := by exact_mod_cast Nat.choose_pos hbn
  have hlog0 : 0 ≤ Real.log ((n : ℝ) / (ai : ℝ)) := by
    apply Real.log_nonneg
    rw [le_div_iff₀ ha]
    have : (ai : ℝ) ≤ (n : ℝ) := by exact_mod_cast han
    linarith
  have h1 : ((Entropy.loopRange n ai bj).map fun k => Entropy.emiTerm n ai bj k).sum <
      ((Entropy.loopRange n ai bj).map fun k => (Real.log ((n : ℝ) / (ai : ℝ)) / (n : ℝ) / (n.choose bj : ℝ)) *
        ((k * (ai.choose k * (n - ai).choose (bj - k)) : ℕ) : ℝ)).sum := by
    apply sum_lt_sum_real _ _ _ _ hk0
    · obtain ⟨k1, k2, _, k4⟩ := Entropy.mem_loop hk0
      exact emiTerm_lt hai han hbn k1 k2 hk0b k4
    · intro k hk
      obtain ⟨k1, _, k3, _⟩ := Entropy.mem_loop hk
      exact Entropy.emiTerm_le hai han hbj k1 k3
  rw [sum_map_mul_left_real] at h1
  have h2 : ((Entropy.loopRange n ai bj).map fun k => ((k * (ai.choose k * (n - ai).choose (bj - k)) : ℕ) : ℝ)).sum =
      ((((Entropy.loopRange n ai bj).map fun k => k * (ai.choose k * (n - ai).choose (bj - k))).sum : ℕ) : ℝ) := by
    rw [Nat.cast_list_sum, List.map_map]
    rfl
  have h3 : ((((Entropy.loopRange n ai bj).map fun k => k * (ai.choose k * (n - ai).choose (bj - k))).sum : ℕ) : ℝ) ≤
      ((ai * (n - 1).choose (bj - 1) : ℕ) : ℝ) := by exact_mod_cast Entropy.loop_mean_le hai han hbj
  rw [h2] at h1
  have hc0 : 0 ≤ Real.log ((n : ℝ) / (ai : ℝ)) / (n : ℝ) / (n.choose bj : ℝ) := by positivity
  refine lt_of_lt_of_le h1 (le_trans (mul_le_mul_of_nonneg_left h3 hc0) (le_of_eq ?_))
  rw [← Entropy.choose_ratio hbj hbn]
  push_cast
  field_simp

/-- **EMI < H(rows)** as soon as one pair of margins allows a cell value below the column margin -/
theorem expectedMI_lt {a b : List ℕ} {n : ℕ} (ha : ∀ x ∈ a, 1 ≤ x ∧ x ≤ n) (hb : ∀ y ∈ b, 1 ≤ y ∧ y ≤ n)
    (hsb : b.sum = n) (hn : 0 < n) {ai bj k0 : ℕ} (hai : ai ∈ a) (hbj : bj ∈ b)
    (hk0 : k0 ∈ Entropy.loopRange n ai bj) (hk0b : k0 < bj) :
    expectedMI (α := ℝ) a b n < Entropy.shannon (a.map fun ai : ℕ => (ai : ℝ) / (n : ℝ)) := by
  have hn' : (0 : ℝ) < (n : ℝ) := by exact_mod_cast hn
  rw [Entropy.expectedMI_real (fun x hx => (ha x hx).2) (fun y hy => (hb y hy).2)]
  unfold Entropy.shannon
  rw [List.map_map]
  have hrow : ∀ ai ∈ a,
      (b.map fun bj : ℕ => Real.log ((n : ℝ) / (ai : ℝ)) / (n : ℝ) * ((ai : ℝ) * ((bj : ℝ) / (n : ℝ)))).sum =
        ((fun q : ℝ => -(q * Real.log q)) ∘ fun ai : ℕ => (ai : ℝ) / (n : ℝ)) ai := by
    intro ai hai
    have ha' : (0 : ℝ) < (ai : ℝ) := by exact_mod_cast (show 0 < ai from (ha ai hai).1)
    have : (b.map fun bj : ℕ => Real.log ((n : ℝ) / (ai : ℝ)) / (n : ℝ) * ((ai : ℝ) * ((bj : ℝ) / (n : ℝ)))) =
        b.map fun bj : ℕ => (Real.log ((n : ℝ) / (ai : ℝ)) / (n : ℝ) * (ai : ℝ)) * ((bj : ℝ) / (n : ℝ)) := by
      apply List.map_congr_left; intro bj _; ring
    rw [this, sum_map_mul_left_real, sum_cast_div b (fun y => y) (n : ℝ), List.map_id', hsb]
    simp only [Function.comp_def]
    rw [Real.log_div hn'.ne' ha'.ne', Real.log_div ha'.ne' hn'.ne']
    field_simp
    ring
  apply sum_lt_sum_real _ _ _ _ hai
  · rw [← hrow ai hai]
    apply sum_lt_sum_real _ _ _ _ hbj
    · exact emi_inner_lt (ha ai hai).1 (ha ai hai).2 (hb bj hbj).1 (hb bj hbj).2 hk0 hk0b
    · intro y hy
      exact Entropy.emi_inner_le (ha ai hai).1 (ha ai hai).2 (hb y hy).1 (hb y hy).2
  · intro x hx
    rw [← hrow x hx]
    apply sum_le_sum_real
    intro y hy
    exact Entropy.emi_inner_le (ha x hx).1 (ha x hx).2 (hb y hy).1 (hb y hy).2

theorem shannon_eq_labelEntropy {y : List Nat} (hy : y ≠ []) : shannon y = Entropy.labelEntropy y := by
  rw [← entropyIdx_real_of_pos (List.length_pos_iff.2 hy), Entropy.entropyIdx_real hy]

/-- **`E[MI](y, y) < H(y)`** whenever there are at least two labels and some label covers at least two frames
    (i.e. unless every frame has its own label): the denominator of AMI(y, y) does not vanish. -/
theorem emiText_self_lt {y : List Nat} (h : 1 < (classes y).length) {c : Nat} (hc : 2 ≤ y.count c) :
    emiText y y < shannon y := by
  have hmem : c ∈ classes y := mem_classes.2 (List.count_pos_iff.1 (by omega))
  have hne : y ≠ [] := List.ne_nil_of_mem (mem_classes.1 hmem)
  have hlt := margP_lt_one h hmem
  have hnpos : (0 : ℝ) < y.length := by exact_mod_cast List.length_pos_iff.2 hne
  have hcnt : y.count c + 1 ≤ y.length := by
    have : (y.count c : ℝ) < y.length := by
      unfold margP at hlt
      rwa [div_lt_one hnpos] at hlt
    exact_mod_cast this
  rw [emiText_eq_expectedMI rfl, shannon_eq_labelEntropy hne]
  have hcm : y.count c ∈ (classes y).map fun a => y.count a := List.mem_map.2 ⟨c, hmem, rfl⟩
  have hk0 : y.count c - 1 ∈ Entropy.loopRange y.length (y.count c) (y.count c) := by
    unfold Entropy.loopRange
    rw [List.mem_range'_1]
    omega
  have := expectedMI_lt (Entropy.classCount_bounds y) (Entropy.classCount_bounds y) (classCounts_sum y)
    (List.length_pos_iff.2 hne) hcm hcm hk0 (by omega)
  refine lt_of_lt_of_le this (le_of_eq ?_)
  unfold Entropy.labelEntropy Entropy.margDist
  rw [List.map_map]
  rfl

/-- **AMI(y, y) = 1** outside the early return, unless every frame has its own label. -/
theorem amiIdx_real_self_eq_one {y : List Nat} (h : 1 < (classes y).length) {c : Nat} (hc : 2 ≤ y.count c) :
    (amiIdx (α := ℝ) y y).1 = 1 :=
  amiIdx_real_self_one h (ne_of_lt (emiText_self_lt h hc))

/-! #### … and when every frame has its own label, `E[MI] = MI = H = log n`: AMI is `0/0` -/

theorem classes_length_of_nodup {y : List Nat} (hnd : y.Nodup) : (classes y).length = y.length := by
  have hsum : ((classes y).map fun c => y.count c).sum = y.length := classCounts_sum y
  have : ((classes y).map fun c => y.count c) = (classes y).map fun _ => 1 := by
    apply List.map_congr_left
    intro c hc
    exact List.count_eq_one_of_mem hnd (mem_classes.1 hc)
  rw [this, List.map_const', List.sum_replicate, smul_eq_mul, mul_one] at hsum
  exact hsum

theorem shannon_of_nodup {y : List Nat} (hnd : y.Nodup) (hne : y ≠ []) : shannon y = Real.log y.length := by
  have hn : (y.length : ℝ) ≠ 0 := by exact_mod_cast (ne_of_gt (List.length_pos_iff.2 hne))
  unfold shannon
  have : ((classes y).map fun c => margP y c * Real.log (margP y c)) =
      (classes y).map fun _ => (1 / (y.length : ℝ)) * Real.log (1 / (y.length : ℝ)) := by
    apply List.map_congr_left
    intro c hc
    unfold margP
    rw [List.count_eq_one_of_mem hnd (mem_classes.1 hc)]
    simp
  rw [this, Entropy.sum_map_const_real, classes_length_of_nodup hnd, one_div, Real.log_inv]
  field_simp

theorem emiText_of_nodup {y : List Nat} (hnd : y.Nodup) (hne : y ≠ []) : emiText y y = Real.log y.length := by
  have hpos : 0 < y.length := List.length_pos_iff.2 hne
  have hn : (y.length : ℝ) ≠ 0 := by exact_mod_cast (ne_of_gt hpos)
  unfold emiText
  have hterm : ∀ x ∈ classes y, ∀ x' ∈ classes y,
      (∑ k ∈ Finset.Icc (max (y.count x + y.count x' - y.length) 1) (min (y.count x) (y.count x')),
        ((k : ℝ) / y.length) * Real.log ((y.length : ℝ) * k / ((y.count x : ℝ) * (y.count x' : ℝ))) *
          ((((y.count x).choose k : ℕ) : ℝ) * (((y.length - y.count x).choose (y.count x' - k) : ℕ) : ℝ) /
            ((y.length.choose (y.count x') : ℕ) : ℝ))) =
        Real.log y.length / ((y.length : ℝ) * y.length) := by
    intro x hx x' hx'
    rw [List.count_eq_one_of_mem hnd (mem_classes.1 hx), List.count_eq_one_of_mem hnd (mem_classes.1 hx')]
    have e1 : max (1 + 1 - y.length) 1 = 1 := by omega
    rw [e1, Nat.min_self, Finset.Icc_self, Finset.sum_singleton]
    simp only [Nat.cast_one, Nat.choose_self, Nat.sub_self, Nat.choose_zero_right, Nat.choose_one_right,
      mul_one, div_one]
    field_simp
  have e2 : ((classes y).map fun x => ((classes y).map fun x' =>
      ∑ k ∈ Finset.Icc (max (y.count x + y.count x' - y.length) 1) (min (y.count x) (y.count x')),
        ((k : ℝ) / y.length) * Real.log ((y.length : ℝ) * k / ((y.count x : ℝ) * (y.count x' : ℝ))) *
          ((((y.count x).choose k : ℕ) : ℝ) * (((y.length - y.count x).choose (y.count x' - k) : ℕ) : ℝ) /
            ((y.length.choose (y.count x') : ℕ) : ℝ))).sum) =
      (classes y).map fun _ => (y.length : ℝ) * (Real.log y.length / ((y.length : ℝ) * y.length)) := by
    apply List.map_congr_left
    intro x hx
    rw [← classes_length_of_nodup hnd, ← Entropy.sum_map_const_real]
    apply Entropy.sum_map_congr_real
    intro x' hx'
    rw [classes_length_of_nodup hnd]
    exact hterm x hx x' hx'
  rw [e2, Entropy.sum_map_const_real, classes_length_of_nodup hnd]
  field_simp

/-- When every frame has its own label (at least two frames), AMI(y, y) is not defined: numerator and denominator
    `H − E[MI]` are both 0 (the reals give `0/0 = 0`, binary64 gives `nan` or rounding noise). -/
theorem amiIdx_real_self_nodup {y : List Nat} (hnd : y.Nodup) (h2 : 2 ≤ y.length) :
    (amiIdx (α := ℝ) y y).2.1 = 0 ∧ (amiIdx (α := ℝ) y y).2.2 = 0 := by
  have hne : y ≠ [] := by intro e; rw [e] at h2; simp at h2
  have hcl : 1 < (classes y).length := by rw [classes_length_of_nodup hnd]; omega
  rw [amiIdx_real_self hcl, emiText_of_nodup hnd hne, shannon_of_nodup hnd hne]
  simp

/-! #### a labelling whose entropy is below the NMI floor: one frame of one label, `M` frames of another -/

theorem classes_replicate_one (N : Nat) : classes (List.replicate (N + 1) 1) = [1] := by
  induction N with
  | zero => rfl
  | succ N ih =>
    have : classes (List.replicate (N + 1 + 1) 1) = insertUniq 1 (classes (List.replicate (N + 1) 1)) := rfl
    rw [this, ih]; rfl

theorem classes_lopsided (N : Nat) : classes (0 :: List.replicate (N + 1) 1) = [0, 1] := by
  have : classes (0 :: List.replicate (N + 1) 1) = insertUniq 0 (classes (List.replicate (N + 1) 1)) := rfl
  rw [this, classes_replicate_one]; rfl

/-- `H ≤ (log n + 1) / n` for `n − 1` frames of one label and a single frame of another -/
theorem shannon_lopsided_le (N : Nat) :
    shannon (0 :: List.replicate (N + 1) 1) ≤ (Real.log ((N : ℝ) + 2) + 1) / ((N : ℝ) + 2) := by
  have hM : (0 : ℝ) < (N : ℝ) + 1 := by positivity
  have hn : (0 : ℝ) < (N : ℝ) + 2 := by positivity
  unfold shannon
  rw [classes_lopsided]
  have m0 : margP (0 :: List.replicate (N + 1) 1) 0 = 1 / ((N : ℝ) + 2) := by
    unfold margP
    simp [List.count_replicate]
    ring
  have m1 : margP (0 :: List.replicate (N + 1) 1) 1 = ((N : ℝ) + 1) / ((N : ℝ) + 2) := by
    unfold margP
    simp
    ring
  simp only [List.map_cons, List.map_nil, List.sum_cons, List.sum_nil, add_zero, m0, m1]
  rw [one_div, Real.log_inv, Real.log_div (ne_of_gt hM) (ne_of_gt hn)]
  have hlog : Real.log ((N : ℝ) + 2) - Real.log ((N : ℝ) + 1) ≤ 1 / ((N : ℝ) + 1) := by
    rw [← Real.log_div (ne_of_gt hn) (ne_of_gt hM)]
    have := Real.log_le_sub_one_of_pos (div_pos hn hM)
    refine le_trans this (le_of_eq ?_)
    field_simp
    ring
  have key : -(((N : ℝ) + 2)⁻¹ * -Real.log ((N : ℝ) + 2) +
        ((N : ℝ) + 1) / ((N : ℝ) + 2) * (Real.log ((N : ℝ) + 1) - Real.log ((N : ℝ) + 2))) =
      (Real.log ((N : ℝ) + 2) + ((N : ℝ) + 1) * (Real.log ((N : ℝ) + 2) - Real.log ((N : ℝ) + 1))) / ((N : ℝ) + 2) := by
    field_simp
    ring
  rw [key]
  apply div_le_div_of_nonneg_right _ (le_of_lt hn)
  have := mul_le_mul_of_nonneg_left hlog (le_of_lt hM)
  rw [mul_one_div_cancel (ne_of_gt hM)] at this
  linarith

/-- with `10^12` frames the entropy is below the floor `1e-10` -/
theorem shannon_lopsided_lt_floor :
    shannon (0 :: List.replicate (999999999998 + 1) 1) < 1 / 10 ^ 10 := by
  refine lt_of_le_of_lt (shannon_lopsided_le 999999999998) ?_
  have e : ((999999999998 : ℕ) : ℝ) + 2 = 10 ^ 12 := by norm_num
  rw [e]
  have hlog : Real.log ((10 : ℝ) ^ 12) ≤ 40 := by
    have h1 : Real.log ((10 : ℝ) ^ 12) ≤ Real.log ((2 : ℝ) ^ 40) :=
      Real.log_le_log (by positivity) (by norm_num)
    have h2 : Real.log (2 : ℝ) ≤ 1 := by
      have := Real.log_le_sub_one_of_pos (show (0 : ℝ) < 2 by norm_num)
      linarith
    have h3 : Real.log ((2 : ℝ) ^ 40) = 40 * Real.log 2 := by
      rw [Real.log_pow]; norm_num
    linarith
  rw [div_lt_div_iff₀ (by positivity) (by positivity)]
  nlinarith

/-! #### the rational indices -/

theorem samePartition_self (y : List Nat) : SamePartition y y := by
  unfold SamePartition
  have key : ∀ (l : List Nat) (p : Nat × Nat), p ∈ l.zip l → p.1 = p.2 := by
    intro l
    induction l with
    | nil => intro p hp; simp at hp
    | cons a l ih =>
      intro p hp
      rw [List.zip_cons_cons, List.mem_cons] at hp
      rcases hp with e | hp
      · rw [e]
      · exact ih p hp
  intro p hp q hq
  rw [← key y p hp, ← key y q hq]

/-- pairwise precision = recall = F = 1 whenever the two sequences induce the same partition and some two frames
    share a label (otherwise all three are `0/0`) -/
theorem pairwiseIdx_samePartition {yr ye : List Nat} (h : yr.length = ye.length) (hp : SamePartition yr ye)
    {beta : ℚ} (hb : 0 < beta) (hpair : 0 < (combSums yr ye).2.1) :
    pairwiseIdx yr ye beta = .ok (.val 1, .val 1, .val 1) := by
  obtain ⟨e1, e2⟩ := combSums_samePartition h hp
  have hB : 0 < (combSums yr ye).2.2 := by rw [e2, ← e1]; exact hpair
  rw [pairwiseIdx_eq h hb hpair hB, e1, e2]
  have hne : ((combSums yr ye).1 : ℚ) ≠ 0 := by
    rw [e1] at hpair
    exact_mod_cast (ne_of_gt hpair)
  rw [div_self hne]
  have : fMeasure 1 1 beta = 1 := by
    unfold fMeasure
    have : beta * beta + 1 ≠ 0 := by nlinarith [mul_self_nonneg beta]
    simp only [one_ne_zero, false_and, if_false, mul_one]
    rw [add_comm]
    exact div_self this
  rw [this]

/-- the Rand index is 1 whenever the two sequences induce the same partition of at least two frames -/
theorem randIdx_samePartition {yr ye : List Nat} (h : yr.length = ye.length) (hp : SamePartition yr ye)
    (hn : 2 ≤ yr.length) : randIdx yr ye = .ok (.val 1) := by
  obtain ⟨e1, e2⟩ := combSums_samePartition h hp
  rw [randIdx_eq h hn, e1, e2]
  have hc : (0 : ℚ) < (choose2 yr.length : ℚ) := by exact_mod_cast one_le_choose2 hn
  congr 2
  rw [div_eq_one_iff_eq (ne_of_gt hc)]
  ring

/-- a repeated label gives a co-labelled pair -/
theorem combSums_row_pos {yr ye : List Nat} (h : yr.length = ye.length) {c : Nat} (hc : 2 ≤ yr.count c) :
    0 < (combSums yr ye).2.1 := by
  unfold combSums
  simp only
  rw [rowSums_contingency h, List.map_map]
  have hmem : c ∈ classes yr := mem_classes.2 (List.count_pos_iff.1 (by omega))
  have h1 : 1 ≤ choose2 (yr.count c) := one_le_choose2 hc
  have : (choose2 ∘ fun a => yr.count a) c ≤ ((classes yr).map (choose2 ∘ fun a => yr.count a)).sum :=
    List.single_le_sum (by intro x _; exact Nat.zero_le x) _ (List.mem_map.2 ⟨c, hmem, rfl⟩)
  simp only [Function.comp_def] at this ⊢
  omega

/-! ### D. the frame sampler of the segment metrics and the interval denotation of C13 -/

section Frames
open Mir.Iv (labelAt labelAtC Chain Contig entries ivals labels maxL intervalsToSamples sampleTimes interpolate)

theorem zip_ivals_labels (xs : LI Label) :
    (ivals xs).zip (labels xs) = xs.map fun x => ((x.1, x.2.1), x.2.2) := by
  unfold Mir.Iv.ivals Mir.Iv.labels
  rw [List.zip_map']

theorem labelAtFrame_foldl_eq (xs : LI Label) (t : Rat) (acc : Option Label) :
    (xs.map fun x => ((x.1, x.2.1), x.2.2)).foldl
        (fun (acc : Option Label) (p : (Rat × Rat) × Label) => if p.1.1 ≤ t ∧ t ≤ p.1.2 then some p.2 else acc) acc =
      match labelAtC xs t with
      | some l => some l
      | none => acc := by
  induction xs generalizing acc with
  | nil => rfl
  | cons x r ih =>
    simp only [List.map_cons, List.foldl_cons, Mir.Iv.labelAtC]
    rw [ih]
    cases labelAtC r t with
    | some l => rfl
    | none =>
      simp only
      by_cases c : x.1 ≤ t ∧ t ≤ x.2.1
      · simp [c]
      · simp [c]

/-- the segment model's frame label (`labelAtFrame`, a left fold in which the last row containing `t` in its
    closed span wins) is the closed-interval denotation `labelAtC` of `MirModel.Intervals` (C13) -/
theorem labelAtFrame_eq_labelAtC (xs : LI Label) (t : Rat) :
    labelAtFrame ((ivals xs).zip (labels xs)) t = labelAtC xs t := by
  unfold labelAtFrame
  rw [zip_ivals_labels, labelAtFrame_foldl_eq]
  cases labelAtC xs t <;> rfl

theorem flat_ivals (xs : LI Label) : flat (ivals xs) = entries xs := by
  induction xs with
  | nil => rfl
  | cons x r ih =>
    have : flat (ivals (x :: r)) = x.1 :: x.2.1 :: flat (ivals r) := by
      simp [flat, Mir.Iv.ivals]
    rw [this, ih]
    rfl

theorem listMax_eq_maxL (l : List Rat) : listMax l = maxL l := by
  cases hm : maxL l with
  | none =>
    cases l with
    | nil => rfl
    | cons a r => simp only [Mir.Iv.maxL] at hm; cases h' : maxL r <;> simp [h'] at hm
  | some m =>
    have hs := Mir.Iv.maxL_spec hm
    exact listMax_some_iff.2 ⟨hs.1, hs.2⟩

theorem numSamples_ivals (xs : LI Label) (fs : Rat) :
    numSamples (ivals xs) fs = match maxL (entries xs) with
      | none => 0
      | some m => (m / fs).floor.toNat := by
  unfold numSamples
  rw [flat_ivals, listMax_eq_maxL]
  cases maxL (entries xs) <;> rfl

/-- every frame label is the closed-interval denotation of the annotation at the frame time `i · fs` -/
theorem frameLabels_eq_map_labelAtC (xs : LI Label) (fs : Rat) :
    frameLabels (ivals xs) (labels xs) fs =
      (List.range (numSamples (ivals xs) fs)).map fun (i : Nat) => labelAtC xs ((i : Rat) * fs) := by
  unfold frameLabels
  apply List.map_congr_left
  intro i _
  exact labelAtFrame_eq_labelAtC xs _

/-- the rows of an annotation with labels wrapped in `some` (so that `intervals_to_samples`' fill value can be
    `none`, as in the segment model) -/
def someRows (xs : LI Label) : LI (Option Label) := xs.map fun x => (x.1, x.2.1, some x.2.2)

theorem entries_someRows (xs : LI Label) : entries (someRows xs) = entries xs := by
  induction xs with
  | nil => rfl
  | cons x r ih =>
    show x.1 :: x.2.1 :: entries (someRows r) = x.1 :: x.2.1 :: entries r
    rw [ih]

theorem labelAtC_someRows_map (xs : LI Label) (t : Rat) :
    labelAtC (someRows xs) t = (labelAtC xs t).map some := by
  induction xs with
  | nil => rfl
  | cons x r ih =>
    show labelAtC ((x.1, x.2.1, some x.2.2) :: someRows r) t = (labelAtC (x :: r) t).map some
    simp only [Mir.Iv.labelAtC]
    rw [ih]
    cases labelAtC r t with
    | some l => rfl
    | none =>
      simp only [Option.map_none]
      by_cases c : x.1 ≤ t ∧ t ≤ x.2.1 <;> simp [c]

theorem labelAtC_someRows (xs : LI Label) (t : Rat) :
    (labelAtC (someRows xs) t).getD none = labelAtC xs t := by
  rw [labelAtC_someRows_map]
  cases labelAtC xs t <;> rfl

/-- **frames_are_samples.** The frame-label sequence of the segment model is the label array returned by the C13
    model of `util.intervals_to_samples` (offset 0, frame size `fs`, fill value `None`), for any non-empty list of
    labelled rows and any positive frame size. -/
theorem frameLabels_eq_intervalsToSamples (xs : LI Label) (fs : Rat) (hfs : 0 < fs) (hne : xs ≠ []) :
    intervalsToSamples (someRows xs) 0 fs none =
      .ok (sampleTimes (numSamples (ivals xs) fs) fs 0, frameLabels (ivals xs) (labels xs) fs) := by
  obtain ⟨m, hm⟩ := Mir.Iv.maxL_ne_none (Mir.Iv.entries_ne_nil hne)
  unfold Mir.Iv.intervalsToSamples
  rw [entries_someRows, hm]
  simp only [ne_of_gt hfs, if_false]
  rw [Mir.Iv.interpolate_eq, if_pos (Mir.Iv.isNondecreasing_sampleTimes _ _ _ (le_of_lt hfs))]
  rw [numSamples_ivals, hm, frameLabels_eq_map_labelAtC, numSamples_ivals, hm]
  simp only [Except.map, Mir.Iv.sampleTimes, List.map_map, Function.comp_def, add_zero, labelAtC_someRows]

/-- in a contiguous segmentation every instant from its start up to (excluding) its end lies in a row -/
theorem contig_cover {lo : Rat} {xs : LI Label} (hc : Contig lo xs) {t : Rat} (h1 : lo ≤ t)
    (h2 : ∃ x ∈ xs, t < x.2.1) : ∃ row ∈ xs, row.1 ≤ t ∧ t < row.2.1 := by
  induction xs generalizing lo with
  | nil => obtain ⟨x, hx, _⟩ := h2; cases hx
  | cons x r ih =>
    have hlo : lo = x.1 := hc.1
    by_cases hp : t < x.2.1
    · exact ⟨x, List.mem_cons_self, hlo ▸ h1, hp⟩
    · obtain ⟨w, hw, hwt⟩ := h2
      rcases List.mem_cons.1 hw with rfl | hw
      · exact absurd hwt hp
      · obtain ⟨row, hrow, hr⟩ := ih hc.2.2 (not_lt.1 hp) ⟨w, hw, hwt⟩
        exact ⟨row, List.mem_cons_of_mem _ hrow, hr⟩

theorem frame_time_lt_max {m fs : Rat} (hfs : 0 < fs) {i : Nat} (hi : i < (m / fs).floor.toNat) :
    (i : Rat) * fs < m := by
  have h1 : ((i : Int) + 1) ≤ (m / fs).floor := by omega
  have h2 : (((i : Int) + 1 : Int) : Rat) ≤ m / fs := Rat.le_floor_iff.1 h1
  rw [le_div_iff₀ hfs] at h2
  push_cast at h2
  nlinarith

/-- **frames_are_labelAt.** For a contiguous segmentation starting at or before time 0 (sorted, non-overlapping,
    without gaps — what `segment.validate_structure` documents), the frame-label sequence the segment metrics
    are computed from is the annotation's own half-open denotation `labelAt` (C13) sampled at the frame times
    `0, fs, 2·fs, …`, and every frame carries a label. -/
theorem frameLabels_eq_labelAt {lo : Rat} {xs : LI Label} (hc : Contig lo xs) (hlo : lo ≤ 0) {fs : Rat}
    (hfs : 0 < fs) :
    frameLabels (ivals xs) (labels xs) fs =
        (List.range (numSamples (ivals xs) fs)).map (fun (i : Nat) => labelAt xs ((i : Rat) * fs)) ∧
      ∀ l ∈ frameLabels (ivals xs) (labels xs) fs, l ≠ none := by
  have key : ∀ i, i < numSamples (ivals xs) fs →
      ∃ l, labelAt xs ((i : Rat) * fs) = some l ∧ labelAtC xs ((i : Rat) * fs) = some l := by
    intro i hi
    rw [numSamples_ivals] at hi
    cases hm : maxL (entries xs) with
    | none => rw [hm] at hi; exact absurd hi (Nat.not_lt_zero _)
    | some m =>
      rw [hm] at hi
      have hlt : (i : Rat) * fs < m := frame_time_lt_max hfs hi
      have h0 : lo ≤ (i : Rat) * fs := le_trans hlo (by positivity)
      obtain ⟨x, hx, hv⟩ := Mir.Iv.mem_entries.1 (Mir.Iv.maxL_spec hm).1
      have hx2 : m ≤ x.2.1 := by
        rcases hv with hv | hv
        · rw [hv]; exact le_of_lt (hc.chain.lb x hx).2
        · rw [hv]
      obtain ⟨row, hrow, hr1, hr2⟩ := contig_cover hc h0 ⟨x, hx, lt_of_lt_of_le hlt hx2⟩
      have hl := Mir.Iv.labelAt_chain_mem hc.chain hrow hr1 hr2
      exact ⟨row.2.2, hl, Mir.Iv.labelAtC_of_labelAt hc.chain hl⟩
  rw [frameLabels_eq_map_labelAtC]
  constructor
  · apply List.map_congr_left
    intro i hi
    obtain ⟨l, h1, h2⟩ := key i (List.mem_range.1 hi)
    rw [h1, h2]
  · intro l hl
    obtain ⟨i, hi, rfl⟩ := List.mem_map.1 hl
    obtain ⟨l', _, h2⟩ := key i (List.mem_range.1 hi)
    rw [h2]; simp

/-- with gaps allowed (sorted, non-overlapping rows): wherever the annotation has a label at a frame time, the
    frame carries it -/
theorem frameLabels_of_labelAt {lo : Rat} {xs : LI Label} (hc : Chain lo xs) (fs : Rat) {i : Nat}
    (hi : i < numSamples (ivals xs) fs) {l : Label} (h : labelAt xs ((i : Rat) * fs) = some l) :
    (frameLabels (ivals xs) (labels xs) fs)[i]? = some (some l) := by
  rw [frameLabels_eq_map_labelAtC, List.getElem?_map, List.getElem?_range hi]
  simp only [Option.map_some]
  rw [Mir.Iv.labelAtC_of_labelAt hc h]

/-! #### cutting a row in two -/

/-- cutting a row at a point of its closed span into two rows with the same label changes no frame label -/
theorem frameLabels_split (x₁ x₂ : LI Label) {s r e : Rat} (l : Label) (h1 : s ≤ r) (h2 : r ≤ e) (fs : Rat) :
    frameLabels (ivals (x₁ ++ (s, r, l) :: (r, e, l) :: x₂)) (labels (x₁ ++ (s, r, l) :: (r, e, l) :: x₂)) fs =
      frameLabels (ivals (x₁ ++ (s, e, l) :: x₂)) (labels (x₁ ++ (s, e, l) :: x₂)) fs := by
  rw [frameLabels_eq_map_labelAtC, frameLabels_eq_map_labelAtC, numSamples_ivals, numSamples_ivals,
    Mir.Iv.maxL_entries_split h1 h2]
  simp only [Mir.Iv.labelAtC_split x₁ x₂ l h1 h2]

theorem frameIndices_split (x₁ x₂ : LI Label) {s r e : Rat} (l : Label) (h1 : s ≤ r) (h2 : r ≤ e) (fs : Rat) :
    frameIndices (ivals (x₁ ++ (s, r, l) :: (r, e, l) :: x₂)) (labels (x₁ ++ (s, r, l) :: (r, e, l) :: x₂)) fs =
      frameIndices (ivals (x₁ ++ (s, e, l) :: x₂)) (labels (x₁ ++ (s, e, l) :: x₂)) fs := by
  unfold frameIndices
  rw [frameLabels_split x₁ x₂ l h1 h2]

theorem mem_flat_ivals_split {x₁ x₂ : LI Label} {s r e : Rat} {l : Label} {v : Rat} :
    v ∈ flat (ivals (x₁ ++ (s, r, l) :: (r, e, l) :: x₂)) ↔ v = r ∨ v ∈ flat (ivals (x₁ ++ (s, e, l) :: x₂)) := by
  rw [flat_ivals, flat_ivals]; exact Mir.Iv.mem_entries_split

theorem listMax_split (x₁ x₂ : LI Label) {s r e : Rat} (l : Label) (h1 : s ≤ r) (h2 : r ≤ e) :
    listMax (flat (ivals (x₁ ++ (s, r, l) :: (r, e, l) :: x₂))) = listMax (flat (ivals (x₁ ++ (s, e, l) :: x₂))) := by
  rw [flat_ivals, flat_ivals, listMax_eq_maxL, listMax_eq_maxL, Mir.Iv.maxL_entries_split h1 h2]

theorem listMin_split (x₁ x₂ : LI Label) {s r e : Rat} (l : Label) (h1 : s ≤ r) :
    listMin (flat (ivals (x₁ ++ (s, r, l) :: (r, e, l) :: x₂))) = listMin (flat (ivals (x₁ ++ (s, e, l) :: x₂))) := by
  have hs : s ∈ flat (ivals (x₁ ++ (s, e, l) :: x₂)) := by
    rw [flat_ivals]; simp [Mir.Iv.entries_append, Mir.Iv.entries]
  cases hm : listMin (flat (ivals (x₁ ++ (s, e, l) :: x₂))) with
  | none => rw [listMin_eq_none.1 hm] at hs; cases hs
  | some m =>
    have hsp := listMin_some_iff.1 hm
    apply listMin_some_iff.2
    refine ⟨mem_flat_ivals_split.2 (Or.inr hsp.1), ?_⟩
    intro v hv
    rcases mem_flat_ivals_split.1 hv with rfl | hv
    · exact le_trans (hsp.2 s hs) h1
    · exact hsp.2 v hv

theorem validateIntervals_split (x₁ x₂ : LI Label) {s r e : Rat} (l : Label) (h1 : s < r) (h2 : r < e) :
    validateIntervals (ivals (x₁ ++ (s, r, l) :: (r, e, l) :: x₂)) =
      validateIntervals (ivals (x₁ ++ (s, e, l) :: x₂)) := by
  have hs : s ∈ flat (ivals (x₁ ++ (s, e, l) :: x₂)) := by
    rw [flat_ivals]; simp [Mir.Iv.entries_append, Mir.Iv.entries]
  have e1 : (flat (ivals (x₁ ++ (s, r, l) :: (r, e, l) :: x₂))).any (fun x => decide (x < 0)) =
      (flat (ivals (x₁ ++ (s, e, l) :: x₂))).any (fun x => decide (x < 0)) := by
    rw [Bool.eq_iff_iff]
    simp only [List.any_eq_true, decide_eq_true_eq]
    constructor
    · rintro ⟨v, hv, hneg⟩
      rcases mem_flat_ivals_split.1 hv with rfl | hv
      · exact ⟨s, hs, lt_trans h1 hneg⟩
      · exact ⟨v, hv, hneg⟩
    · rintro ⟨v, hv, hneg⟩
      exact ⟨v, mem_flat_ivals_split.2 (Or.inr hv), hneg⟩
  have e2 : (ivals (x₁ ++ (s, r, l) :: (r, e, l) :: x₂)).any (fun p => decide (p.2 ≤ p.1)) =
      (ivals (x₁ ++ (s, e, l) :: x₂)).any (fun p => decide (p.2 ≤ p.1)) := by
    have hse : s < e := lt_trans h1 h2
    simp [Mir.Iv.ivals, not_le.2 h1, not_le.2 h2, not_le.2 hse]
  unfold validateIntervals
  rw [e1, e2]

theorem length_ivals_labels (xs : LI Label) : (ivals xs).length = (labels xs).length := by
  simp [Mir.Iv.ivals, Mir.Iv.labels]

theorem validateSide_split (x₁ x₂ : LI Label) {s r e : Rat} (l : Label) (h1 : s < r) (h2 : r < e) :
    validateSide (ivals (x₁ ++ (s, r, l) :: (r, e, l) :: x₂)) (labels (x₁ ++ (s, r, l) :: (r, e, l) :: x₂)).length =
      validateSide (ivals (x₁ ++ (s, e, l) :: x₂)) (labels (x₁ ++ (s, e, l) :: x₂)).length := by
  unfold validateSide
  rw [validateIntervals_split x₁ x₂ l h1 h2, listMin_split x₁ x₂ l (le_of_lt h1)]
  simp only [length_ivals_labels, ne_eq, not_true_eq_false, if_false]

theorem ivals_split_ne_nil (x₁ x₂ : LI Label) (s r e : Rat) (l : Label) :
    (ivals (x₁ ++ (s, r, l) :: (r, e, l) :: x₂)).isEmpty = false ∧
    (ivals (x₁ ++ (s, e, l) :: x₂)).isEmpty = false := by
  simp [Mir.Iv.ivals]

/-- **the common prologue of the six segment metrics is blind to cutting a reference row** at an interior
    point: same validation outcome, same pair of frame-index sequences. -/
theorem prologue_split_ref (x₁ x₂ : LI Label) {s r e : Rat} (l : Label) (h1 : s < r) (h2 : r < e)
    (ei : List (Rat × Rat)) (el : List Label) (fs : Rat) :
    prologue ⟨ivals (x₁ ++ (s, r, l) :: (r, e, l) :: x₂), labels (x₁ ++ (s, r, l) :: (r, e, l) :: x₂), ei, el⟩ fs =
      prologue ⟨ivals (x₁ ++ (s, e, l) :: x₂), labels (x₁ ++ (s, e, l) :: x₂), ei, el⟩ fs := by
  unfold prologue validateStructure
  simp only
  rw [validateSide_split x₁ x₂ l h1 h2, listMax_split x₁ x₂ l (le_of_lt h1) (le_of_lt h2),
    frameIndices_split x₁ x₂ l (le_of_lt h1) (le_of_lt h2)]
  simp only [(ivals_split_ne_nil x₁ x₂ s r e l).1, (ivals_split_ne_nil x₁ x₂ s r e l).2]

/-- the same for a row of the estimate -/
theorem prologue_split_est (y₁ y₂ : LI Label) {s r e : Rat} (l : Label) (h1 : s < r) (h2 : r < e)
    (ri : List (Rat × Rat)) (rl : List Label) (fs : Rat) :
    prologue ⟨ri, rl, ivals (y₁ ++ (s, r, l) :: (r, e, l) :: y₂), labels (y₁ ++ (s, r, l) :: (r, e, l) :: y₂)⟩ fs =
      prologue ⟨ri, rl, ivals (y₁ ++ (s, e, l) :: y₂), labels (y₁ ++ (s, e, l) :: y₂)⟩ fs := by
  unfold prologue validateStructure
  simp only
  rw [validateSide_split y₁ y₂ l h1 h2, listMax_split y₁ y₂ l (le_of_lt h1) (le_of_lt h2),
    frameIndices_split y₁ y₂ l (le_of_lt h1) (le_of_lt h2)]
  simp only [(ivals_split_ne_nil y₁ y₂ s r e l).1, (ivals_split_ne_nil y₁ y₂ s r e l).2]

end Frames

end Segment
end Mir
