import MirModel.Segment
import MirProofs.Lemmas.Segment
import MirProofs.Lemmas.SegmentReal
import Mathlib.Analysis.SpecialFunctions.Log.Base
import Mathlib.Data.Nat.Factorial.Basic
import Mathlib.Data.Nat.Choose.Basic
import Mathlib.Algebra.BigOperators.Intervals

/-!
  Textbook (clustering-index) forms, over the reals, of the entropy-based part of `MirModel.Segment`:
  Shannon entropy, NMI, normalised conditional entropies (NCE over / under, V-measure), and the expected
  mutual information of AMI as a hypergeometric expectation.

  Everything is stated about the model's own functions at the `ℝ` instance of `Transc`
  (`SegmentReal.instTranscReal`), for label-index sequences of any length.
-/
namespace Mir
namespace Segment

/-! ### the empirical distributions of two frame-label sequences -/

/-- `p_c = n_c / n`: the relative frequency of class `c` among the frames `y`. -/
noncomputable def margP (y : List Nat) (c : Nat) : ℝ := (y.count c : ℝ) / (y.length : ℝ)

/-- `p_xy = n_xy / n`: the relative frequency of the frames labelled `x` in `yr` and `y` in `ye`. -/
noncomputable def jointP (yr ye : List Nat) (x y : Nat) : ℝ :=
  (((yr.zip ye).countP fun p => p.1 == x && p.2 == y : Nat) : ℝ) / (yr.length : ℝ)

/-- Shannon entropy (in nats) of the empirical class distribution: `H(y) = −Σ_c p_c log p_c`. -/
noncomputable def shannon (y : List Nat) : ℝ :=
  -((classes y).map fun c => margP y c * Real.log (margP y c)).sum

/-- Conditional entropy in bits of the second labelling given the first:
    `H(ye | yr) = −Σ_x Σ_y p_xy log₂ (p_xy / p_x)` (empty cells contribute `0·log 0 = 0`). -/
noncomputable def condEntropy2 (yr ye : List Nat) : ℝ :=
  -((classes yr).map fun x => ((classes ye).map fun y =>
      jointP yr ye x y * Real.logb 2 (jointP yr ye x y / margP yr x)).sum).sum

/-- the special case of `_adjusted_mutual_info_score` / `_normalized_mutual_info_score`:
    both sides one cluster, or both sides empty. -/
def miSpecial (yr ye : List Nat) : Prop :=
  ((classes yr).length = 1 ∧ (classes ye).length = 1) ∨ ((classes yr).length = 0 ∧ (classes ye).length = 0)

instance (yr ye : List Nat) : Decidable (miSpecial yr ye) := by unfold miSpecial; infer_instance

/-! ### small facts -/

theorem count_pos_of_mem_classes {y : List Nat} {c : Nat} (hc : c ∈ classes y) : 0 < y.count c :=
  List.count_pos_iff.2 (mem_classes.1 hc)

theorem length_pos_of_mem_classes {y : List Nat} {c : Nat} (hc : c ∈ classes y) : 0 < y.length :=
  List.length_pos_of_mem (mem_classes.1 hc)

theorem margP_pos {y : List Nat} {c : Nat} (hc : c ∈ classes y) : 0 < margP y c := by
  unfold margP
  have h1 : (0 : ℝ) < y.count c := by exact_mod_cast count_pos_of_mem_classes hc
  have h2 : (0 : ℝ) < y.length := by exact_mod_cast length_pos_of_mem_classes hc
  positivity

theorem margP_le_one (y : List Nat) (c : Nat) : margP y c ≤ 1 := by
  unfold margP
  rcases Nat.eq_zero_or_pos y.length with h0 | hpos
  · rw [h0]; simp
  · have h2 : (0 : ℝ) < y.length := by exact_mod_cast hpos
    rw [div_le_one h2]
    exact_mod_cast List.count_le_length

theorem sum_margP {y : List Nat} (h : 0 < y.length) : ((classes y).map (margP y)).sum = 1 := by
  unfold margP
  rw [sum_cast_div]
  have : ((classes y).map fun c => y.count c).sum = y.length := classCounts_sum y
  rw [this]
  have : (y.length : ℝ) ≠ 0 := by exact_mod_cast (ne_of_gt h)
  exact div_self this

theorem classes_nil : classes ([] : List Nat) = [] := rfl

theorem classes_eq_nil_iff {y : List Nat} : classes y = [] ↔ y = [] := by
  constructor
  · intro h
    cases y with
    | nil => rfl
    | cons a l =>
      have : a ∈ classes (a :: l) := mem_classes.2 (List.mem_cons_self ..)
      rw [h] at this
      cases this
  · intro h; subst h; rfl

theorem shannon_nil : shannon [] = 0 := by simp [shannon, classes_nil]

/-! ### `_entropy` -/

/-- **entropy_textbook.** Over the reals `_entropy(labels)` — computed by the code as
    `−Σ (n_c/n)(log n_c − log n)` — is the Shannon entropy `−Σ_c p_c log p_c`, `p_c = n_c/n`
    (and the code's convention `1.0` for an empty labelling). -/
theorem entropyIdx_real (y : List Nat) :
    entropyIdx (α := ℝ) y = if y.length = 0 then 1 else shannon y := by
  unfold entropyIdx
  split
  · simp [Transc.ofNat]
  · simp only [Transc.ofNat, Transc.log]
    have hs : ((classes y).map fun c => y.count c).sum = y.length := classCounts_sum y
    rw [hs, tsum_real, List.map_map]
    unfold shannon
    congr 2
    apply List.map_congr_left
    intro c hc
    simp only [Function.comp_def, margP]
    have h1 : (y.count c : ℝ) ≠ 0 := by exact_mod_cast (ne_of_gt (count_pos_of_mem_classes hc))
    have h2 : (y.length : ℝ) ≠ 0 := by exact_mod_cast (ne_of_gt (length_pos_of_mem_classes hc))
    rw [Real.log_div h1 h2]

theorem entropyIdx_real_of_pos {y : List Nat} (h : 0 < y.length) : entropyIdx (α := ℝ) y = shannon y := by
  rw [entropyIdx_real, if_neg (by omega)]

/-- each summand `−p log p` of the entropy is non-negative -/
theorem neg_mul_log_nonneg {p : ℝ} (h0 : 0 ≤ p) (h1 : p ≤ 1) : 0 ≤ -(p * Real.log p) := by
  have := Real.log_nonpos h0 h1
  nlinarith

theorem sum_nonneg_real {β : Type} (l : List β) (f : β → ℝ) (h : ∀ x ∈ l, 0 ≤ f x) : 0 ≤ (l.map f).sum := by
  have := sum_le_sum_real l (fun _ => 0) f h
  simpa using this

theorem sum_map_neg_real {β : Type} (l : List β) (f : β → ℝ) :
    (l.map fun x => -f x).sum = -(l.map f).sum := by
  induction l with
  | nil => simp
  | cons a l ih => simp only [List.map_cons, List.sum_cons, ih]; ring

/-- Shannon entropy is non-negative. -/
theorem shannon_nonneg (y : List Nat) : 0 ≤ shannon y := by
  unfold shannon
  rw [← sum_map_neg_real]
  apply sum_nonneg_real
  intro c hc
  exact neg_mul_log_nonneg (le_of_lt (margP_pos hc)) (margP_le_one y c)

/-! ### Python's `max`, the NMI floor -/

theorem pyMax_real (a b : ℝ) : pyMax a b = max a b := by
  unfold pyMax
  simp only [Transc.lt, decide_eq_true_eq]
  split
  · rename_i h; exact (max_eq_right (le_of_lt h)).symm
  · rename_i h; exact (max_eq_left (not_lt.1 h)).symm

theorem length_pos_of_not_special {yr ye : List Nat} (h : yr.length = ye.length) (hs : ¬ miSpecial yr ye) :
    0 < yr.length := by
  rcases Nat.eq_zero_or_pos yr.length with h0 | hpos
  · exfalso
    apply hs
    right
    have h1 : yr = [] := List.eq_nil_of_length_eq_zero h0
    have h2 : ye = [] := List.eq_nil_of_length_eq_zero (by omega)
    subst h1; subst h2
    exact ⟨rfl, rfl⟩
  · exact hpos

/-- **nmi_textbook.** Outside the special case, `_normalized_mutual_info_score` over the reals is
    `MI / max(√(H(ref)·H(est)), 1e-10)` with `MI` the textbook double sum and `H` the Shannon entropy;
    the tuple also exposes numerator and denominator. -/
theorem nmiIdx_real {yr ye : List Nat} (h : yr.length = ye.length) (hs : ¬ miSpecial yr ye) :
    nmiIdx (α := ℝ) yr ye =
      (miSum yr ye / max (Real.sqrt (shannon yr * shannon ye)) (1 / 10 ^ 10),
       miSum yr ye,
       max (Real.sqrt (shannon yr * shannon ye)) (1 / 10 ^ 10)) := by
  have hpos := length_pos_of_not_special h hs
  unfold nmiIdx
  unfold miSpecial at hs
  simp only [hs, if_false]
  rw [mutualInfoIdx_real h, pyMax_real, entropyIdx_real_of_pos hpos, entropyIdx_real_of_pos (h ▸ hpos)]
  have : (Transc.ofRat (1 / 10000000000 : ℚ) : ℝ) = 1 / 10 ^ 10 := by
    simp only [Transc.ofRat]
    norm_num
  rw [this]
  rfl

theorem nmiIdx_special {α : Type} [Transc α] {yr ye : List Nat} (hs : miSpecial yr ye) :
    nmiIdx (α := α) yr ye = (Transc.ofNat 1, Transc.ofNat 1, Transc.ofNat 1) := by
  unfold nmiIdx
  unfold miSpecial at hs
  simp only [hs, if_true]

theorem amiIdx_special {α : Type} [Transc α] {yr ye : List Nat} (hs : miSpecial yr ye) :
    amiIdx (α := α) yr ye = (Transc.ofNat 1, Transc.ofNat 1, Transc.ofNat 1) := by
  unfold amiIdx
  unfold miSpecial at hs
  simp only [hs, if_true]

/-! ### normalised conditional entropies (`segment.nce`, `segment.vmeasure`) -/

theorem columns_map {β γ : Type} (as : List β) (bs : List γ) (F : β → γ → ℝ) :
    columns (as.map fun a => bs.map (F a)) bs.length = bs.map fun b => as.map fun a => F a b := by
  unfold columns
  induction as with
  | nil =>
    simp only [List.map_nil, List.foldr_nil]
    exact (List.map_const' ..).symm
  | cons a as ih =>
    simp only [List.map_cons, List.foldr_cons, ih]
    exact zipWith_map_same _ _ _ _

/-- `scipy.special.entr` on a non-negative real is `−x log x`. -/
theorem entr_real {x : ℝ} (hx : 0 ≤ x) : entr x = -(x * Real.log x) := by
  unfold entr
  simp only [Transc.lt, Transc.ofNat, Transc.log, Nat.cast_zero, decide_eq_true_eq]
  split
  · ring
  · rename_i hn
    have : x = 0 := le_antisymm (not_lt.1 hn) hx
    subst this; simp

/-- `scipy.stats.entropy(pk, base=2)` of a non-negative vector with positive sum `s`, weighted by `s`:
    `s · H₂(pk / s) = −Σ p log₂ (p / s)`. -/
theorem sum_mul_statsEntropy2 {β : Type} (l : List β) (f : β → ℝ) (hf : ∀ x ∈ l, 0 ≤ f x)
    (hs : 0 < (l.map f).sum) :
    (l.map f).sum * statsEntropy2 (l.map f) =
      -(l.map fun x => f x * Real.logb 2 (f x / (l.map f).sum)).sum := by
  unfold statsEntropy2
  simp only [tsum_real, Transc.log, Transc.ofNat, List.map_map, Function.comp_def]
  set s : ℝ := (l.map f).sum with hsdef
  have hs0 : s ≠ 0 := ne_of_gt hs
  have e1 : (l.map fun x => entr (f x / s)) = l.map fun x => -((f x / s) * Real.log (f x / s)) := by
    apply List.map_congr_left
    intro x hx
    exact entr_real (div_nonneg (hf x hx) (le_of_lt hs))
  have e2 : (l.map fun x => f x * Real.logb 2 (f x / s)) =
      l.map fun x => (s / Real.log ((2 : ℕ) : ℝ)) * ((f x / s) * Real.log (f x / s)) := by
    apply List.map_congr_left
    intro x _
    unfold Real.logb
    push_cast
    field_simp
  rw [e1, e2, sum_map_neg_real, sum_map_mul_left_real]
  ring

/-- the normalised table `contingency / n` -/
theorem nce_table (yr ye : List Nat) :
    (contingency yr ye).map (·.map fun nij => (Transc.ofNat nij : ℝ) / Transc.ofNat yr.length) =
      (classes yr).map fun a => (classes ye).map fun b => jointP yr ye a b := by
  unfold contingency
  rw [List.map_map]
  apply List.map_congr_left
  intro a _
  simp only [Function.comp_def, List.map_map]
  rfl

theorem jointP_nonneg (yr ye : List Nat) (x y : Nat) : 0 ≤ jointP yr ye x y := by
  unfold jointP; positivity

theorem jointP_swap {yr ye : List Nat} (h : yr.length = ye.length) (x y : Nat) :
    jointP ye yr y x = jointP yr ye x y := by
  unfold jointP
  rw [countP_zip_swap, h]

/-- `Σ_y p_xy = p_x` -/
theorem sum_jointP_row {yr ye : List Nat} (h : yr.length = ye.length) (x : Nat) :
    ((classes ye).map fun y => jointP yr ye x y).sum = margP yr x := by
  unfold jointP margP
  rw [sum_cast_div]
  congr 2
  rw [← count_zip_fst h x]
  symm
  apply countP_eq_sum_countP_key _ _ _ Prod.snd (nodup_classes ye)
  intro p hp
  exact mem_classes.2 (List.of_mem_zip (a := p.1) (b := p.2) hp).2

/-- `Σ_x p_xy = p_y` -/
theorem sum_jointP_col {yr ye : List Nat} (h : yr.length = ye.length) (y : Nat) :
    ((classes yr).map fun x => jointP yr ye x y).sum = margP ye y := by
  have := sum_jointP_row h.symm y
  rw [← this]
  congr 1
  apply List.map_congr_left
  intro x _
  exact (jointP_swap h x y).symm

/-- `Σ_x p_x · H₂(ye | yr = x) = H₂(ye | yr)`: the weighted sum of per-row `scipy.stats.entropy(·, base=2)`
    that `segment.nce` forms is the conditional entropy in bits. -/
theorem weighted_row_entropy {yr ye : List Nat} (h : yr.length = ye.length) :
    tsum (List.zipWith (· * ·)
        (((classes yr).map fun a => (classes ye).map fun b => jointP yr ye a b).map tsum)
        (((classes yr).map fun a => (classes ye).map fun b => jointP yr ye a b).map statsEntropy2)) =
      condEntropy2 yr ye := by
  rw [List.map_map, List.map_map, zipWith_map_same, tsum_real]
  unfold condEntropy2
  rw [← sum_map_neg_real]
  congr 1
  apply List.map_congr_left
  intro a ha
  simp only [Function.comp_def]
  rw [tsum_real]
  have hs : ((classes ye).map fun b => jointP yr ye a b).sum = margP yr a := sum_jointP_row h a
  have := sum_mul_statsEntropy2 (classes ye) (fun b => jointP yr ye a b)
    (fun b _ => jointP_nonneg yr ye a b) (by rw [hs]; exact margP_pos ha)
  rw [this, hs]

/-- the same for the columns of the table: `Σ_y p_y · H₂(yr | ye = y) = H₂(yr | ye)`. -/
theorem weighted_col_entropy {yr ye : List Nat} (h : yr.length = ye.length) :
    tsum (List.zipWith (· * ·)
        (((classes ye).map fun b => (classes yr).map fun a => jointP yr ye a b).map tsum)
        (((classes ye).map fun b => (classes yr).map fun a => jointP yr ye a b).map statsEntropy2)) =
      condEntropy2 ye yr := by
  rw [← weighted_row_entropy h.symm]
  have : ((classes ye).map fun b => (classes yr).map fun a => jointP yr ye a b) =
      ((classes ye).map fun b => (classes yr).map fun a => jointP ye yr b a) := by
    apply List.map_congr_left
    intro b _
    apply List.map_congr_left
    intro a _
    exact (jointP_swap h a b).symm
  rw [this]

/-- `scipy.stats.entropy(p, base=2)` of the marginal distribution is the Shannon entropy in bits. -/
theorem statsEntropy2_margP (y : List Nat) :
    statsEntropy2 ((classes y).map (margP y)) = shannon y / Real.log 2 := by
  rcases Nat.eq_zero_or_pos y.length with h0 | hpos
  · have : y = [] := List.eq_nil_of_length_eq_zero h0
    subst this
    simp [statsEntropy2, classes_nil, shannon_nil, tsum_real]
  · have h1 := sum_margP hpos
    have := sum_mul_statsEntropy2 (classes y) (margP y) (fun c hc => le_of_lt (margP_pos hc)) (by rw [h1]; norm_num)
    rw [h1, one_mul] at this
    rw [this]
    unfold shannon
    rw [neg_div]
    congr 1
    have e : ((classes y).map fun x => margP y x * Real.logb 2 (margP y x / 1)) =
        (classes y).map fun c => (1 / Real.log 2) * (margP y c * Real.log (margP y c)) := by
      apply List.map_congr_left
      intro c _
      unfold Real.logb
      rw [div_one]
      ring
    rw [e, sum_map_mul_left_real]
    ring

theorem rowMarg {yr ye : List Nat} (h : yr.length = ye.length) :
    ((classes yr).map fun a => (classes ye).map fun b => jointP yr ye a b).map tsum =
      (classes yr).map (margP yr) := by
  rw [List.map_map]
  apply List.map_congr_left
  intro a _
  simp only [Function.comp_def]
  rw [tsum_real, sum_jointP_row h]

theorem colMarg {yr ye : List Nat} (h : yr.length = ye.length) :
    ((classes ye).map fun b => (classes yr).map fun a => jointP yr ye a b).map tsum =
      (classes ye).map (margP ye) := by
  rw [List.map_map]
  apply List.map_congr_left
  intro b _
  simp only [Function.comp_def]
  rw [tsum_real, sum_jointP_col h]

theorem length_contingency (yr ye : List Nat) : (contingency yr ye).length = (classes yr).length := by
  unfold contingency; simp

/-- **nce_textbook.** Over the reals the body of `segment.nce` is
    `S_over = 1 − H₂(est | ref) / Z_est`, `S_under = 1 − H₂(ref | est) / Z_ref`, each replaced by `0` when its
    normaliser is not positive, with `Z = log₂ (number of clusters)` (`marginal = False`) or the marginal
    entropy in bits `H(·)/log 2` (`marginal = True`, the V-measure); the third value is `util.f_measure`
    of the two. -/
theorem nceIdx_real {yr ye : List Nat} (h : yr.length = ye.length) (beta : ℝ) (marginal : Bool) :
    nceIdx (α := ℝ) yr ye beta marginal =
      (let zRef : ℝ := if marginal then shannon yr / Real.log 2 else Real.logb 2 ((classes yr).length : ℝ)
       let zEst : ℝ := if marginal then shannon ye / Real.log 2 else Real.logb 2 ((classes ye).length : ℝ)
       let over : ℝ := if 0 < zEst then 1 - condEntropy2 yr ye / zEst else 0
       let under : ℝ := if 0 < zRef then 1 - condEntropy2 ye yr / zRef else 0
       (over, under, fMeasureT over under beta)) := by
  unfold nceIdx
  simp only []
  rw [nce_table, columns_map, weighted_row_entropy h, weighted_col_entropy h, rowMarg h, colMarg h,
    statsEntropy2_margP, statsEntropy2_margP, length_contingency]
  simp only [Transc.lt, Transc.ofNat, Transc.log, Nat.cast_zero, Nat.cast_one, decide_eq_true_eq]
  unfold Real.logb
  push_cast
  rfl

/-! ### `gammaln(k + 1) = log k!`, the hypergeometric probability, expected mutual information -/

open Nat in
theorem sum_log_range' (k : Nat) :
    ((List.range' 2 k).map fun (m : ℕ) => Real.log (m : ℝ)).sum = Real.log (((k + 1)! : ℕ) : ℝ) := by
  induction k with
  | zero => simp
  | succ k ih =>
    rw [List.range'_concat, List.map_append, List.sum_append, ih]
    simp only [List.map_cons, List.map_nil, List.sum_cons, List.sum_nil, add_zero, one_mul]
    have e : ((k + 1 + 1)! : ℕ) = (2 + k) * (k + 1)! := by
      rw [Nat.factorial_succ (k + 1)]; congr 1; omega
    have h1 : (((2 + k : ℕ)) : ℝ) ≠ 0 := by
      have : 0 < 2 + k := by omega
      exact_mod_cast (ne_of_gt this)
    have h2 : (((k + 1)! : ℕ) : ℝ) ≠ 0 := by exact_mod_cast (Nat.factorial_ne_zero (k + 1))
    rw [e, Nat.cast_mul, Real.log_mul h1 h2, add_comm]

open Nat in
/-- **lgamma.** The model's `gammaln(k + 1)` (a sum of logarithms) is `log k!` over the reals. -/
theorem lgammaSucc_real (k : Nat) : lgammaSucc (α := ℝ) k = Real.log ((k ! : ℕ) : ℝ) := by
  unfold lgammaSucc
  simp only [tsum_real, Transc.log, Transc.ofNat]
  cases k with
  | zero => simp
  | succ k => simpa using sum_log_range' k

open Nat in
/-- the hypergeometric probability `P(n_ij = k)` for margins `a`, `b` of a table with total `n`, written with
    factorials exactly as the code's `gammaln` expression lists them -/
noncomputable def hypFact (n a b k : Nat) : ℝ :=
  ((a ! : ℝ) * (b ! : ℝ) * ((n - a)! : ℝ) * ((n - b)! : ℝ)) /
    ((n ! : ℝ) * (k ! : ℝ) * ((a - k)! : ℝ) * ((b - k)! : ℝ) * ((n + k - a - b)! : ℝ))

theorem exp_log_factorial (m : Nat) : Real.exp (Real.log ((m.factorial : ℕ) : ℝ)) = (m.factorial : ℝ) :=
  Real.exp_log (by exact_mod_cast Nat.factorial_pos m)

/-- `exp` of the code's `gln` is the factorial quotient. -/
theorem exp_gln (n a b k : Nat) :
    Real.exp (lgammaSucc (α := ℝ) a + lgammaSucc (α := ℝ) b + lgammaSucc (α := ℝ) (n - a)
        + lgammaSucc (α := ℝ) (n - b) - lgammaSucc (α := ℝ) n - lgammaSucc (α := ℝ) k
        - lgammaSucc (α := ℝ) (a - k) - lgammaSucc (α := ℝ) (b - k)
        - lgammaSucc (α := ℝ) (n + k - a - b)) = hypFact n a b k := by
  simp only [lgammaSucc_real, Real.exp_sub, Real.exp_add, exp_log_factorial]
  unfold hypFact
  have h1 := Nat.factorial_ne_zero n
  have h2 := Nat.factorial_ne_zero k
  have h3 := Nat.factorial_ne_zero (a - k)
  have h4 := Nat.factorial_ne_zero (b - k)
  have h5 := Nat.factorial_ne_zero (n + k - a - b)
  have h1' : ((n.factorial : ℕ) : ℝ) ≠ 0 := by exact_mod_cast h1
  have h2' : ((k.factorial : ℕ) : ℝ) ≠ 0 := by exact_mod_cast h2
  have h3' : (((a - k).factorial : ℕ) : ℝ) ≠ 0 := by exact_mod_cast h3
  have h4' : (((b - k).factorial : ℕ) : ℝ) ≠ 0 := by exact_mod_cast h4
  have h5' : (((n + k - a - b).factorial : ℕ) : ℝ) ≠ 0 := by exact_mod_cast h5
  field_simp

/-- With `k` in the support, the factorial quotient is the hypergeometric probability
    `C(a,k) · C(n−a, b−k) / C(n,b)`. -/
theorem hypFact_eq_choose {n a b k : Nat} (ha : a ≤ n) (hb : b ≤ n) (hka : k ≤ a) (hkb : k ≤ b)
    (hlo : a + b ≤ n + k) :
    hypFact n a b k = ((a.choose k : ℝ) * ((n - a).choose (b - k) : ℝ)) / (n.choose b : ℝ) := by
  unfold hypFact
  have e1 : a.choose k * k.factorial * (a - k).factorial = a.factorial :=
    Nat.choose_mul_factorial_mul_factorial hka
  have e2 : (n - a).choose (b - k) * (b - k).factorial * (n - a - (b - k)).factorial = (n - a).factorial :=
    Nat.choose_mul_factorial_mul_factorial (by omega)
  have e3 : n.choose b * b.factorial * (n - b).factorial = n.factorial :=
    Nat.choose_mul_factorial_mul_factorial hb
  have e4 : n - a - (b - k) = n + k - a - b := by omega
  rw [e4] at e2
  rw [← e1, ← e2, ← e3]
  push_cast
  have h2 : ((k.factorial : ℕ) : ℝ) ≠ 0 := by exact_mod_cast Nat.factorial_ne_zero k
  have h3 : (((a - k).factorial : ℕ) : ℝ) ≠ 0 := by exact_mod_cast Nat.factorial_ne_zero (a - k)
  have h4 : (((b - k).factorial : ℕ) : ℝ) ≠ 0 := by exact_mod_cast Nat.factorial_ne_zero (b - k)
  have h5 : (((n + k - a - b).factorial : ℕ) : ℝ) ≠ 0 := by
    exact_mod_cast Nat.factorial_ne_zero (n + k - a - b)
  have h6 : ((b.factorial : ℕ) : ℝ) ≠ 0 := by exact_mod_cast Nat.factorial_ne_zero b
  have h7 : (((n - b).factorial : ℕ) : ℝ) ≠ 0 := by exact_mod_cast Nat.factorial_ne_zero (n - b)
  have h8 : ((n.choose b : ℕ) : ℝ) ≠ 0 := by exact_mod_cast (ne_of_gt (Nat.choose_pos hb))
  field_simp

/-- one summand of the expected-MI loop in textbook form -/
noncomputable def emiTerm (n ai bj nij : Nat) : ℝ :=
  ((nij : ℝ) / n) * Real.log ((n : ℝ) * nij / ((ai : ℝ) * bj)) * hypFact n ai bj nij

/-- the code's range of `n_ij`: `max(a_i + b_j − n, 1) … min(a_i, b_j)` -/
def emiLo (n ai bj : Nat) : Nat := max (ai + bj - n) 1
def emiHi (ai bj : Nat) : Nat := min ai bj

theorem mem_range'_iff {s len k : Nat} : k ∈ List.range' s len ↔ s ≤ k ∧ k < s + len := by
  rw [List.mem_range'_1]

/-- **emi_loop.** The triple loop of `_adjusted_mutual_info_score` over the reals:
    `Σ_i Σ_j Σ_{n_ij = max(a_i+b_j−n,1)}^{min(a_i,b_j)} (n_ij/n) · log(n·n_ij/(a_i b_j)) · Hyp(n_ij)` with the
    hypergeometric probability as a quotient of factorials (the code's `exp(gammaln …)`), for arbitrary
    margin vectors. -/
theorem expectedMI_real (a b : List Nat) (n : Nat) :
    expectedMI (α := ℝ) a b n =
      (a.map fun ai => (b.map fun bj =>
        ((List.range' (emiLo n ai bj) (emiHi ai bj + 1 - emiLo n ai bj)).map fun nij =>
          emiTerm n ai bj nij).sum).sum).sum := by
  unfold expectedMI
  simp only [tsum_real]
  rw [sum_flatMap_real]
  congr 1
  apply List.map_congr_left
  intro ai _
  rw [sum_flatMap_real]
  congr 1
  apply List.map_congr_left
  intro bj _
  have hstart : max ((ai : Int) - (n : Int) + (bj : Int)).toNat 1 = emiLo n ai bj := by
    unfold emiLo; omega
  rw [hstart]
  show ((List.range' (emiLo n ai bj) (emiHi ai bj + 1 - emiLo n ai bj)).map _).sum = _
  congr 1
  apply List.map_congr_left
  intro nij hk
  rw [mem_range'_iff] at hk
  have hk1 : 1 ≤ nij := by unfold emiLo at hk; omega
  have hk2 : nij ≤ ai ∧ nij ≤ bj := by unfold emiLo emiHi at hk; omega
  simp only [Transc.exp]
  rw [exp_gln]
  unfold emiTerm
  simp only [Transc.ofNat, Transc.log]
  rcases Nat.eq_zero_or_pos n with h0 | hn
  · subst h0; simp
  · have hn' : (n : ℝ) ≠ 0 := by exact_mod_cast (ne_of_gt hn)
    have hk' : (nij : ℝ) ≠ 0 := by exact_mod_cast (ne_of_gt hk1)
    have ha' : (ai : ℝ) ≠ 0 := by
      have : 0 < ai := by omega
      exact_mod_cast (ne_of_gt this)
    have hb' : (bj : ℝ) ≠ 0 := by
      have : 0 < bj := by omega
      exact_mod_cast (ne_of_gt this)
    rw [Real.log_div (mul_ne_zero hn' hk') (mul_ne_zero ha' hb')]
    push_cast
    rfl

theorem sum_range'_eq_sum_Ico (s len : Nat) (f : ℕ → ℝ) :
    ((List.range' s len).map f).sum = ∑ k ∈ Finset.Ico s (s + len), f k := by
  induction len with
  | zero => simp
  | succ len ih =>
    rw [List.range'_concat, List.map_append, List.sum_append, ih, ← Nat.add_assoc,
      Finset.sum_Ico_succ_top (Nat.le_add_right s len)]
    simp

theorem sum_range'_eq_sum_Icc (s t : Nat) (f : ℕ → ℝ) :
    ((List.range' s (t + 1 - s)).map f).sum = ∑ k ∈ Finset.Icc s t, f k := by
  rw [sum_range'_eq_sum_Ico]
  apply Finset.sum_congr _ (fun _ _ => rfl)
  ext k
  simp only [Finset.mem_Ico, Finset.mem_Icc]
  omega

/-- **E[MI] under the permutation (hypergeometric) model**, textbook form (Vinh, Epps & Bailey 2010):
    `Σ_x Σ_y Σ_{k = max(a_x + b_y − n, 1)}^{min(a_x, b_y)} (k/n) · log(n k / (a_x b_y)) · C(a_x,k) C(n−a_x, b_y−k) / C(n, b_y)`
    with `a_x`, `b_y` the cluster sizes of the two labellings of `n` frames. -/
noncomputable def emiText (yr ye : List Nat) : ℝ :=
  ((classes yr).map fun x => ((classes ye).map fun y =>
    ∑ k ∈ Finset.Icc (max (yr.count x + ye.count y - yr.length) 1) (min (yr.count x) (ye.count y)),
      ((k : ℝ) / yr.length) * Real.log ((yr.length : ℝ) * k / ((yr.count x : ℝ) * (ye.count y : ℝ))) *
        ((((yr.count x).choose k : ℕ) : ℝ) * (((yr.length - yr.count x).choose (ye.count y - k) : ℕ) : ℝ) /
          ((yr.length.choose (ye.count y) : ℕ) : ℝ))).sum).sum

/-- **emi_textbook.** On the margins of the contingency table the code's triple loop is the hypergeometric
    expectation `emiText`. -/
theorem expectedMI_table {yr ye : List Nat} (h : yr.length = ye.length) :
    expectedMI (α := ℝ) (rowSums (contingency yr ye)) (colSums (contingency yr ye) (classes ye).length)
      yr.length = emiText yr ye := by
  rw [rowSums_contingency h, colSums_contingency h, expectedMI_real, List.map_map]
  unfold emiText
  congr 1
  apply List.map_congr_left
  intro x _
  simp only [Function.comp_def]
  rw [List.map_map]
  congr 1
  apply List.map_congr_left
  intro y _
  simp only [Function.comp_def]
  rw [sum_range'_eq_sum_Icc]
  unfold emiLo emiHi
  apply Finset.sum_congr rfl
  intro k hk
  rw [Finset.mem_Icc] at hk
  unfold emiTerm
  have hx : yr.count x ≤ yr.length := List.count_le_length
  have hy : ye.count y ≤ yr.length := by rw [h]; exact List.count_le_length
  rw [hypFact_eq_choose hx hy (by omega) (by omega) (by omega)]

/-- **ami_textbook.** Outside the special case, `_adjusted_mutual_info_score` over the reals is
    `(MI − E[MI]) / (max(H(ref), H(est)) − E[MI])`, with `MI` the textbook double sum, `H` the Shannon entropy
    and `E[MI]` the hypergeometric expectation; the tuple also exposes numerator and denominator. -/
theorem amiIdx_real {yr ye : List Nat} (h : yr.length = ye.length) (hs : ¬ miSpecial yr ye) :
    amiIdx (α := ℝ) yr ye =
      ((miSum yr ye - emiText yr ye) / (max (shannon yr) (shannon ye) - emiText yr ye),
       miSum yr ye - emiText yr ye,
       max (shannon yr) (shannon ye) - emiText yr ye) := by
  have hpos := length_pos_of_not_special h hs
  have hmi := mutualInfoIdx_real h
  unfold mutualInfoIdx at hmi
  simp only [] at hmi
  unfold amiIdx
  unfold miSpecial at hs
  simp only [hs, if_false]
  rw [hmi, expectedMI_table h, pyMax_real, entropyIdx_real_of_pos hpos, entropyIdx_real_of_pos (h ▸ hpos)]

/-! ### when the normalisers vanish: fewer than two clusters -/

theorem logb_two_natCast_pos_iff (k : Nat) : 0 < Real.logb 2 (k : ℝ) ↔ 1 < k := by
  rcases Nat.eq_zero_or_pos k with h0 | hk
  · subst h0; simp
  · have hk' : (0 : ℝ) < k := by exact_mod_cast hk
    rw [Real.logb_pos_iff (by norm_num) hk']
    exact_mod_cast Iff.rfl

theorem sum_pos_real {β : Type} (l : List β) (f : β → ℝ) (h : ∀ x ∈ l, 0 ≤ f x) {a : β} (ha : a ∈ l)
    (hpos : 0 < f a) : 0 < (l.map f).sum := by
  induction l with
  | nil => cases ha
  | cons b l ih =>
    simp only [List.map_cons, List.sum_cons]
    have hb : 0 ≤ f b := h b (List.mem_cons_self ..)
    have hl : 0 ≤ (l.map f).sum := sum_nonneg_real l f (fun x hx => h x (List.mem_cons_of_mem _ hx))
    rcases List.mem_cons.1 ha with e | hmem
    · subst e; linarith
    · have := ih (fun x hx => h x (List.mem_cons_of_mem _ hx)) hmem
      linarith

theorem margP_lt_one {y : List Nat} (h : 1 < (classes y).length) {c : Nat} (hc : c ∈ classes y) :
    margP y c < 1 := by
  have hlen : (0 : ℝ) < y.length := by exact_mod_cast length_pos_of_mem_classes hc
  unfold margP
  rw [div_lt_one hlen]
  have hle : y.count c ≤ y.length := List.count_le_length
  rcases Nat.lt_or_ge (y.count c) y.length with hlt | hge
  · exact_mod_cast hlt
  · exfalso
    have heq : y.count c = y.length := le_antisymm hle hge
    have hall : ∀ b ∈ y, c = b := List.count_eq_length.1 heq
    have hall' : ∀ b ∈ classes y, b = c := fun b hb => (hall b (mem_classes.1 hb)).symm
    have hrep := List.eq_replicate_of_mem hall'
    have hnd := nodup_classes y
    rw [hrep, List.nodup_replicate] at hnd
    omega

/-- The Shannon entropy is positive exactly when there are at least two clusters — so the `marginal=True`
    convention of `nce` (score 0 when the marginal entropy is 0) fires in the same cases as the
    `marginal=False` one (`log₂ k = 0`). -/
theorem shannon_pos_iff (y : List Nat) : 0 < shannon y ↔ 1 < (classes y).length := by
  constructor
  · intro hpos
    by_contra hle
    have hle' : (classes y).length ≤ 1 := by omega
    match hcl : classes y, hle' with
    | [], _ =>
      have : y = [] := classes_eq_nil_iff.1 hcl
      subst this
      rw [shannon_nil] at hpos
      exact lt_irrefl _ hpos
    | [c], _ =>
      have hsum : ((classes y).map fun c => y.count c).sum = y.length := classCounts_sum y
      rw [hcl] at hsum
      simp only [List.map_cons, List.map_nil, List.sum_cons, List.sum_nil, Nat.add_zero] at hsum
      have hc : c ∈ classes y := by rw [hcl]; exact List.mem_cons_self ..
      have hlen : (y.length : ℝ) ≠ 0 := by exact_mod_cast (ne_of_gt (length_pos_of_mem_classes hc))
      have hm : margP y c = 1 := by unfold margP; rw [hsum]; exact div_self hlen
      unfold shannon at hpos
      rw [hcl] at hpos
      simp [hm] at hpos
    | _ :: _ :: _, hl => simp at hl
  · intro h
    unfold shannon
    rw [← sum_map_neg_real]
    have hne : classes y ≠ [] := by intro e; rw [e] at h; simp at h
    obtain ⟨c, hc⟩ := List.exists_mem_of_ne_nil _ hne
    apply sum_pos_real _ _ _ hc
    · have h0 := margP_pos hc
      have h1 := margP_lt_one h hc
      have := Real.log_neg h0 h1
      nlinarith
    · intro x hx
      exact neg_mul_log_nonneg (le_of_lt (margP_pos hx)) (margP_le_one y x)

/-! ### chain rule: `MI = H(est) − H(est | ref)`; the V-measure components are `MI / H` -/

theorem miSum_eq_jointP {yr ye : List Nat} (h : yr.length = ye.length) :
    miSum yr ye = ((classes yr).map fun x => ((classes ye).map fun y =>
      jointP yr ye x y * Real.log (jointP yr ye x y / (margP yr x * margP ye y))).sum).sum := by
  rw [← mutualInfoIdx_real h, mutualInfoIdx_real_textbook h]
  unfold jointP margP
  rw [← h]

theorem sum_map_sub_real {β : Type} (f g : β → ℝ) (z : List β) :
    (z.map fun p => f p - g p).sum = (z.map f).sum - (z.map g).sum := by
  induction z with
  | nil => simp
  | cons a z ih => simp [ih]; ring

theorem sum_map_mul_right_real {β : Type} (l : List β) (c : ℝ) (f : β → ℝ) :
    (l.map fun x => f x * c).sum = (l.map f).sum * c := by
  induction l with
  | nil => simp
  | cons a l ih => simp only [List.map_cons, List.sum_cons, ih]; ring

/-- **chain rule.** `MI(ref, est) = H(est) − log 2 · H₂(est | ref)`. -/
theorem miSum_chain {yr ye : List Nat} (h : yr.length = ye.length) :
    miSum yr ye = shannon ye - Real.log 2 * condEntropy2 yr ye := by
  rw [miSum_eq_jointP h]
  -- split every cell
  have hcell : ∀ x ∈ classes yr, ∀ y ∈ classes ye,
      jointP yr ye x y * Real.log (jointP yr ye x y / (margP yr x * margP ye y)) =
        Real.log 2 * (jointP yr ye x y * Real.logb 2 (jointP yr ye x y / margP yr x))
          - jointP yr ye x y * Real.log (margP ye y) := by
    intro x hx y hy
    have hl2 : Real.log 2 ≠ 0 := ne_of_gt (Real.log_pos (by norm_num))
    have e2 : Real.log 2 * Real.logb 2 (jointP yr ye x y / margP yr x) =
        Real.log (jointP yr ye x y / margP yr x) := by
      unfold Real.logb; field_simp
    rcases (jointP_nonneg yr ye x y).eq_or_lt with h0 | hp
    · rw [← h0]; simp
    · have hxp := margP_pos hx
      have hyp := margP_pos hy
      rw [mul_left_comm, e2, ← div_div, Real.log_div (ne_of_gt (div_pos hp hxp)) (ne_of_gt hyp)]
      ring
  have e1 : ((classes yr).map fun x => ((classes ye).map fun y =>
      jointP yr ye x y * Real.log (jointP yr ye x y / (margP yr x * margP ye y))).sum) =
      (classes yr).map fun x =>
        (Real.log 2 * ((classes ye).map fun y =>
          jointP yr ye x y * Real.logb 2 (jointP yr ye x y / margP yr x)).sum)
        - ((classes ye).map fun y => jointP yr ye x y * Real.log (margP ye y)).sum := by
    apply List.map_congr_left
    intro x hx
    rw [← sum_map_mul_left_real, ← sum_map_sub_real]
    congr 1
    apply List.map_congr_left
    intro y hy
    exact hcell x hx y hy
  rw [e1, sum_map_sub_real, sum_map_mul_left_real]
  -- the second part: swap the sums, sum the joint over x
  rw [sum_sum_comm (classes yr) (classes ye) (fun x y => jointP yr ye x y * Real.log (margP ye y))]
  have e3 : ((classes ye).map fun y => ((classes yr).map fun x =>
      jointP yr ye x y * Real.log (margP ye y)).sum) =
      (classes ye).map fun y => margP ye y * Real.log (margP ye y) := by
    apply List.map_congr_left
    intro y _
    rw [sum_map_mul_right_real, sum_jointP_col h]
  rw [e3]
  unfold condEntropy2 shannon
  ring

/-- **V-measure components.** With `marginal = True` the two scores are `MI / H(est)` and `MI / H(ref)`
    (0 when the corresponding labelling has fewer than two clusters). -/
theorem vmeasure_real {yr ye : List Nat} (h : yr.length = ye.length) (beta : ℝ) :
    (nceIdx (α := ℝ) yr ye beta true).1 =
        (if 1 < (classes ye).length then miSum yr ye / shannon ye else 0) ∧
    (nceIdx (α := ℝ) yr ye beta true).2.1 =
        (if 1 < (classes yr).length then miSum yr ye / shannon yr else 0) := by
  have hl2 : 0 < Real.log 2 := Real.log_pos (by norm_num)
  have key : ∀ {u v : List Nat}, u.length = v.length →
      (if 0 < shannon v / Real.log 2 then 1 - condEntropy2 u v / (shannon v / Real.log 2) else 0) =
        (if 1 < (classes v).length then miSum u v / shannon v else 0) := by
    intro u v huv
    by_cases hc : 1 < (classes v).length
    · have hp : 0 < shannon v := (shannon_pos_iff v).2 hc
      rw [if_pos (div_pos hp hl2), if_pos hc, miSum_chain huv]
      field_simp
    · have hp : ¬ 0 < shannon v := fun hp => hc ((shannon_pos_iff v).1 hp)
      have hp' : ¬ 0 < shannon v / Real.log 2 := fun hq => hp (by
        have := mul_pos hq hl2
        rwa [div_mul_cancel₀ _ (ne_of_gt hl2)] at this)
      rw [if_neg hp', if_neg hc]
  rw [nceIdx_real h]
  constructor
  · simpa using key h
  · have := key h.symm
    rw [miSum_symm h] at this
    simpa using this

end Segment
end Mir
