import MirModel.Separation
import Mathlib.Algebra.Order.Field.Basic
import Mathlib.Algebra.Order.Field.Rat
import Mathlib.Data.List.Perm.Basic
import Mathlib.Data.List.Nodup
import Mathlib.Data.List.Range
import Mathlib.Tactic.Linarith
import Mathlib.Tactic.Ring
import Mathlib.Tactic.Abel

namespace Mir.Separation

/-! ### `picks`, `perms` enumerate exactly the permutations -/

theorem picks_perm {α : Type} : ∀ (xs : List α) (y : α) (ys : List α), (y, ys) ∈ picks xs → xs.Perm (y :: ys)
  | [], y, ys, h => by simp [picks] at h
  | x :: xs, y, ys, h => by
      simp only [picks, List.mem_cons, List.mem_map, Prod.mk.injEq] at h
      rcases h with ⟨rfl, rfl⟩ | ⟨⟨a, as⟩, hmem, rfl, rfl⟩
      · exact List.Perm.refl _
      · have ih := picks_perm xs a as hmem
        exact ((List.Perm.cons x ih).trans (List.Perm.swap a x as))

theorem mem_picks_of_mem {α : Type} : ∀ (xs : List α) (y : α), y ∈ xs → ∃ ys, (y, ys) ∈ picks xs
  | [], y, h => by simp at h
  | x :: xs, y, h => by
      rcases List.mem_cons.1 h with rfl | h
      · exact ⟨xs, by simp [picks]⟩
      · obtain ⟨ys, hys⟩ := mem_picks_of_mem xs y h
        exact ⟨x :: ys, by
          simp only [picks, List.mem_cons, List.mem_map]
          exact Or.inr ⟨(y, ys), hys, rfl⟩⟩

theorem permsN_perm {α : Type} : ∀ (n : Nat) (xs : List α), xs.length = n → ∀ p ∈ permsN n xs, p.Perm xs
  | 0, xs, hlen, p, hp => by
      have : xs = [] := List.length_eq_zero_iff.1 hlen
      subst this
      simp [permsN] at hp
      subst hp
      exact List.Perm.refl _
  | n + 1, xs, hlen, p, hp => by
      simp only [permsN, List.mem_flatMap, List.mem_map] at hp
      obtain ⟨⟨y, ys⟩, hpick, q, hq, rfl⟩ := hp
      have hperm := picks_perm xs y ys hpick
      have hl : ys.length = n := by
        have := hperm.length_eq
        simp at this
        omega
      exact (List.Perm.cons y (permsN_perm n ys hl q hq)).trans hperm.symm

theorem permsN_complete {α : Type} : ∀ (n : Nat) (xs p : List α), xs.length = n → p.Perm xs → p ∈ permsN n xs
  | 0, xs, p, hlen, hp => by
      have : xs = [] := List.length_eq_zero_iff.1 hlen
      subst this
      have : p = [] := List.Perm.eq_nil hp
      simp [permsN, this]
  | n + 1, xs, p, hlen, hp => by
      cases p with
      | nil =>
          have := hp.length_eq
          simp at this
          omega
      | cons y q =>
          have hy : y ∈ xs := hp.subset (List.mem_cons_self)
          obtain ⟨ys, hys⟩ := mem_picks_of_mem xs y hy
          have h1 := picks_perm xs y ys hys
          have hq : q.Perm ys := (List.perm_cons y).1 (hp.trans h1)
          have hl : ys.length = n := by
            have := h1.length_eq
            simp at this
            omega
          simp only [permsN, List.mem_flatMap, List.mem_map]
          exact ⟨(y, ys), hys, q, permsN_complete n ys q hl hq, rfl⟩

theorem mem_perms_iff {α : Type} (xs p : List α) : p ∈ perms xs ↔ p.Perm xs :=
  ⟨permsN_perm _ xs rfl p, permsN_complete _ xs p rfl⟩

/-! ### first maximiser -/

theorem firstMaxBy_spec {α : Type} (f : α → Rat) : ∀ (xs : List α) (b : α),
    ∃ pre post, b :: xs = pre ++ firstMaxBy f b xs :: post ∧
      (∀ y ∈ pre, f y < f (firstMaxBy f b xs)) ∧ (∀ y ∈ post, f y ≤ f (firstMaxBy f b xs))
  | [], b => ⟨[], [], by simp [firstMaxBy]⟩
  | x :: xs, b => by
      by_cases h : f b < f x
      · obtain ⟨pre, post, heq, hpre, hpost⟩ := firstMaxBy_spec f xs x
        have hr : firstMaxBy f b (x :: xs) = firstMaxBy f x xs := by simp [firstMaxBy, h]
        rw [hr]
        refine ⟨b :: pre, post, by rw [heq]; rfl, ?_, hpost⟩
        intro y hy
        rcases List.mem_cons.1 hy with rfl | hy
        · -- f b < f x ≤ f r
          have hx : x ∈ pre ++ firstMaxBy f x xs :: post := by rw [← heq]; exact List.mem_cons_self
          rcases List.mem_append.1 hx with hx | hx
          · exact lt_trans h (hpre x hx)
          · rcases List.mem_cons.1 hx with hx | hx
            · rw [← hx]; exact h
            · exact lt_of_lt_of_le h (hpost x hx)
        · exact hpre y hy
      · obtain ⟨pre, post, heq, hpre, hpost⟩ := firstMaxBy_spec f xs b
        have hr : firstMaxBy f b (x :: xs) = firstMaxBy f b xs := by simp [firstMaxBy, h]
        rw [hr]
        have hxb : f x ≤ f b := not_lt.1 h
        cases pre with
        | nil =>
            simp only [List.nil_append, List.cons.injEq] at heq
            obtain ⟨hb, hxs⟩ := heq
            refine ⟨[], x :: post, by show b :: x :: xs = firstMaxBy f b xs :: x :: post; rw [← hb, hxs], by simp, ?_⟩
            intro y hy
            rcases List.mem_cons.1 hy with rfl | hy
            · rw [← hb]; exact hxb
            · exact hpost y hy
        | cons c pre' =>
            simp only [List.cons_append, List.cons.injEq] at heq
            obtain ⟨hb, hxs⟩ := heq
            subst hb
            refine ⟨b :: x :: pre', post, congrArg (fun l => b :: x :: l) hxs, ?_, hpost⟩
            intro y hy
            have hbr := hpre b List.mem_cons_self
            rcases List.mem_cons.1 hy with rfl | hy
            · exact hbr
            · rcases List.mem_cons.1 hy with rfl | hy
              · exact lt_of_le_of_lt hxb hbr
              · exact hpre y (List.mem_cons_of_mem _ hy)

theorem firstMaxBy_mem {α : Type} (f : α → Rat) (xs : List α) (b : α) : firstMaxBy f b xs ∈ b :: xs := by
  obtain ⟨pre, post, heq, -, -⟩ := firstMaxBy_spec f xs b
  rw [heq]; simp

theorem firstMaxBy_max {α : Type} (f : α → Rat) (xs : List α) (b : α) (y : α) (hy : y ∈ b :: xs) :
    f y ≤ f (firstMaxBy f b xs) := by
  obtain ⟨pre, post, heq, hpre, hpost⟩ := firstMaxBy_spec f xs b
  rw [heq] at hy
  rcases List.mem_append.1 hy with hy | hy
  · exact le_of_lt (hpre y hy)
  · rcases List.mem_cons.1 hy with rfl | hy
    · exact le_refl _
    · exact hpost y hy

/-! ### `bestPerm` -/

theorem perms_range_ne_nil (n : Nat) : perms (List.range n) ≠ [] := by
  intro h
  have : List.range n ∈ perms (List.range n) := (mem_perms_iff _ _).2 (List.Perm.refl _)
  rw [h] at this
  simp at this

theorem bestPerm_mem (n : Nat) (S : Nat → Nat → Rat) : bestPerm n S ∈ perms (List.range n) := by
  unfold bestPerm
  split
  · rename_i h; exact absurd h (perms_range_ne_nil n)
  · rename_i p ps h; rw [h]; exact firstMaxBy_mem _ ps p

theorem bestPerm_mean_max (n : Nat) (S : Nat → Nat → Rat) (q : List Nat) (hq : q.Perm (List.range n)) :
    meanSir n S q ≤ meanSir n S (bestPerm n S) := by
  have hmem : q ∈ perms (List.range n) := (mem_perms_iff _ _).2 hq
  unfold bestPerm
  split
  · rename_i h; exact absurd h (perms_range_ne_nil n)
  · rename_i p ps h; rw [h] at hmem; exact firstMaxBy_max _ ps p q hmem

theorem bestPerm_first (n : Nat) (S : Nat → Nat → Rat) :
    ∃ pre post, perms (List.range n) = pre ++ bestPerm n S :: post ∧
      (∀ q ∈ pre, meanSir n S q < meanSir n S (bestPerm n S)) ∧
      (∀ q ∈ post, meanSir n S q ≤ meanSir n S (bestPerm n S)) := by
  unfold bestPerm
  split
  · rename_i h; exact absurd h (perms_range_ne_nil n)
  · rename_i p ps h
    obtain ⟨pre, post, heq, h1, h2⟩ := firstMaxBy_spec (meanSir n S) ps p
    exact ⟨pre, post, h.trans heq, h1, h2⟩

theorem score_le_of_mean_le {n : Nat} {S : Nat → Nat → Rat} {p q : List Nat}
    (h : meanSir n S p ≤ meanSir n S q) (hn : 0 < n) : score S p ≤ score S q := by
  unfold meanSir at h
  have hn' : (0 : Rat) < (n : Rat) := by exact_mod_cast hn
  exact (div_le_div_iff_of_pos_right hn').1 h

/-! ### relabelling the estimates -/

theorem scoreFrom_map (S : Nat → Nat → Rat) (τ : Nat → Nat) : ∀ (j : Nat) (p : List Nat),
    scoreFrom S j (p.map τ) = scoreFrom (fun e t => S (τ e) t) j p
  | _, [] => rfl
  | j, e :: es => by simp [scoreFrom, scoreFrom_map S τ (j + 1) es]

theorem map_range_perm (n : Nat) (τ τinv : Nat → Nat) (h1 : ∀ e < n, τ e < n) (h2 : ∀ e < n, τinv e < n)
    (h3 : ∀ e < n, τ (τinv e) = e) (h4 : ∀ e < n, τinv (τ e) = e) :
    ((List.range n).map τ).Perm (List.range n) := by
  apply (List.perm_ext_iff_of_nodup ?_ List.nodup_range).2
  · intro a
    simp only [List.mem_map, List.mem_range]
    constructor
    · rintro ⟨e, he, rfl⟩; exact h1 e he
    · intro ha; exact ⟨τinv a, h2 a ha, h3 a ha⟩
  · apply List.Nodup.map_on _ List.nodup_range
    intro x hx y hy hxy
    have hx' := List.mem_range.1 hx
    have hy' := List.mem_range.1 hy
    rw [← h4 x hx', ← h4 y hy', hxy]

/-! ### dB levels -/

/-- a common non-zero factor `c²` of numerator and denominator does not change the level -/
theorem safeDb_scale (c a b : Rat) (hc : c ≠ 0) : safeDb (c ^ 2 * a) (c ^ 2 * b) = safeDb a b := by
  unfold safeDb
  have hc2 : c ^ 2 ≠ 0 := pow_ne_zero 2 hc
  by_cases hb : b = 0
  · simp [hb]
  · have h : c ^ 2 * b ≠ 0 := mul_ne_zero hc2 hb
    simp only [hb, h, if_false]
    rw [mul_div_mul_left _ _ hc2]

/-! ### framewise results -/

/-- cell `[output o][source j][window k]` of a framewise result -/
def cellAt (ms : List (List (List Cell))) (o j k : Nat) : Option Cell :=
  (ms[o]?).bind fun m => (m[j]?).bind fun r => r[k]?

/-- what the code leaves in window `[s, e)` for output `o`, source `j` -/
def windowCell (nanOut : Nat → Bool) (ev : Arr → Arr → Bool → Nat → Nat → Rat) (ref est : Arr) (cp : Bool)
    (s e o j : Nat) : Cell :=
  if anySourceSilent (sliceArr ref s e) || anySourceSilent (sliceArr est s e) then
    (if nanOut o then Cell.nan else Cell.uninit)
  else .val (ev (sliceArr ref s e) (sliceArr est s e) cp o j)

end Mir.Separation
