import MirProofs.Lemmas.SeparationLS
import Mathlib.Analysis.SpecialFunctions.Log.Base
import Mathlib.Data.Rat.Cast.Order

/-!
  `bss_eval_sources` selects `perms[np.argmax(mean_sir)]` with `mean_sir` the mean of the SIRs IN DECIBEL
  (`10·log10` of the energy ratios).  The exact model (`bestPermMul`) selects the first maximiser of the PRODUCT of
  the ratios instead, so that no logarithm is needed to run it.  Over the reals the two orders coincide for positive
  ratios: `Σ_j 10·log10 S(p_j, j) = 10·log10 Π_j S(p_j, j)` and `log10` is strictly increasing.
-/
namespace Mir.SeparationLS
open Mir.Separation

/-- `Σ_j 10·log10 S(p[j], j)` for `j` counted from `j0` -/
noncomputable def sumDbFrom (S : Nat → Nat → Rat) : Nat → List Nat → ℝ
  | _, [] => 0
  | j, e :: es => 10 * Real.logb 10 ((S e j : ℚ) : ℝ) + sumDbFrom S (j + 1) es

/-- mean SIR in dB of the assignment `p` (estimate `p[j]` to reference `j`) -/
noncomputable def meanSirDb (n : Nat) (S : Nat → Nat → Rat) (p : List Nat) : ℝ := sumDbFrom S 0 p / (n : ℝ)

theorem prodFrom_pos_sumDb (n : Nat) (S : Nat → Nat → Rat) (hpos : ∀ e < n, ∀ j < n, 0 < S e j) :
    ∀ (es : List Nat) (j : Nat), (∀ e ∈ es, e < n) → j + es.length ≤ n →
      0 < prodFrom S j es ∧ sumDbFrom S j es = 10 * Real.logb 10 ((prodFrom S j es : ℚ) : ℝ)
  | [], j, _, _ => by simp [prodFrom, sumDbFrom]
  | e :: es, j, he, hj => by
      simp only [List.length_cons] at hj
      obtain ⟨h1, h2⟩ := prodFrom_pos_sumDb n S hpos es (j + 1) (fun x hx => he x (by simp [hx])) (by omega)
      have h0 : 0 < S e j := hpos e (he e (by simp)) j (by omega)
      refine ⟨by simp only [prodFrom]; exact mul_pos h0 h1, ?_⟩
      simp only [prodFrom, sumDbFrom, h2]
      have a0 : ((S e j : ℚ) : ℝ) ≠ 0 := by exact_mod_cast h0.ne'
      have a1 : ((prodFrom S (j + 1) es : ℚ) : ℝ) ≠ 0 := by exact_mod_cast h1.ne'
      rw [Rat.cast_mul, Real.logb_mul a0 a1]
      ring

theorem perm_range_bounds {n : Nat} {q : List Nat} (hq : q.Perm (List.range n)) :
    (∀ e ∈ q, e < n) ∧ 0 + q.length ≤ n := by
  refine ⟨fun e he => List.mem_range.1 (hq.mem_iff.1 he), ?_⟩
  rw [hq.length_eq]; simp

/-- on assignments that are permutations of `0 … n−1`, with positive ratios: the dB mean orders as the product -/
theorem meanSirDb_lt_iff (n : Nat) (hn : 0 < n) (S : Nat → Nat → Rat) (hpos : ∀ e < n, ∀ j < n, 0 < S e j)
    {p q : List Nat} (hp : p.Perm (List.range n)) (hq : q.Perm (List.range n)) :
    meanSirDb n S p < meanSirDb n S q ↔ prodFrom S 0 p < prodFrom S 0 q := by
  obtain ⟨b1, b2⟩ := perm_range_bounds hp
  obtain ⟨c1, c2⟩ := perm_range_bounds hq
  obtain ⟨pp, ps⟩ := prodFrom_pos_sumDb n S hpos p 0 b1 b2
  obtain ⟨qp, qs⟩ := prodFrom_pos_sumDb n S hpos q 0 c1 c2
  have hn' : (0 : ℝ) < (n : ℝ) := by exact_mod_cast hn
  unfold meanSirDb
  rw [div_lt_div_iff_of_pos_right hn', ps, qs]
  have pp' : (0 : ℝ) < ((prodFrom S 0 p : ℚ) : ℝ) := by exact_mod_cast pp
  have qp' : (0 : ℝ) < ((prodFrom S 0 q : ℚ) : ℝ) := by exact_mod_cast qp
  rw [mul_lt_mul_iff_right₀ (by norm_num : (0 : ℝ) < 10), Real.logb_lt_logb_iff (by norm_num) pp' qp']
  exact_mod_cast Iff.rfl

theorem meanSirDb_le_iff (n : Nat) (hn : 0 < n) (S : Nat → Nat → Rat) (hpos : ∀ e < n, ∀ j < n, 0 < S e j)
    {p q : List Nat} (hp : p.Perm (List.range n)) (hq : q.Perm (List.range n)) :
    meanSirDb n S p ≤ meanSirDb n S q ↔ prodFrom S 0 p ≤ prodFrom S 0 q := by
  rw [← not_lt, ← not_lt, meanSirDb_lt_iff n hn S hpos hq hp]

/-- **the model's choice is `perms[np.argmax(mean SIR in dB)]`**: `bestPermMul` is the FIRST permutation, in
    `itertools.permutations` order, whose mean SIR in dB is maximal. -/
theorem bestPermMul_first_argmax_db (n : Nat) (hn : 0 < n) (S : Nat → Nat → Rat)
    (hpos : ∀ e < n, ∀ j < n, 0 < S e j) :
    ∃ pre post, perms (List.range n) = pre ++ bestPermMul n S :: post ∧
      (∀ q ∈ pre, meanSirDb n S q < meanSirDb n S (bestPermMul n S)) ∧
      (∀ q ∈ post, meanSirDb n S q ≤ meanSirDb n S (bestPermMul n S)) := by
  have hbest : (bestPermMul n S).Perm (List.range n) := (mem_perms_iff _ _).1 (bestPermMul_mem n S)
  unfold bestPermMul at hbest ⊢
  split at hbest
  · rename_i h; exact absurd h (perms_range_ne_nil n)
  · rename_i p ps h
    simp only [h] at hbest ⊢
    obtain ⟨pre, post, heq, hpre, hpost⟩ := firstMaxBy_spec (prodFrom S 0) ps p
    refine ⟨pre, post, heq, ?_, ?_⟩
    · intro q hq
      have hqp : q.Perm (List.range n) := by
        apply (mem_perms_iff _ _).1
        rw [h, heq]; simp [hq]
      exact (meanSirDb_lt_iff n hn S hpos hqp hbest).2 (hpre q hq)
    · intro q hq
      have hqp : q.Perm (List.range n) := by
        apply (mem_perms_iff _ _).1
        rw [h, heq]; simp [hq]
      exact (meanSirDb_le_iff n hn S hpos hqp hbest).2 (hpost q hq)

end Mir.SeparationLS
