import MirModel.SeparationLS
import MirProofs.Props.C19
import Mathlib.Algebra.Order.Field.Rat
import Mathlib.Tactic.Ring
import Mathlib.Tactic.Linarith
import Mathlib.Tactic.FieldSimp
import Mathlib.Algebra.Module.Pi
import Mathlib.Algebra.BigOperators.Group.List.Basic
/-!
  Lemmas about the exact least-squares model (`MirModel/SeparationLS.lean`):
  vector algebra on `List Rat`, Gaussian elimination (`solveRows`: sound, injective when it succeeds, succeeds on
  every square system with trivial kernel), and the characterisation of `projectOn`.
-/
namespace Mir.SeparationLS
open Mir.Separation

/-! ### `dot`, `vscale`, `padd` -/

@[simp] theorem dot_nil_left (b : List Rat) : dot [] b = 0 := by simp [dot]
@[simp] theorem dot_nil_right (a : List Rat) : dot a [] = 0 := by cases a <;> simp [dot]
@[simp] theorem dot_cons_cons (a b : Rat) (as bs : List Rat) : dot (a :: as) (b :: bs) = a * b + dot as bs := by
  simp [dot]

theorem dot_comm : ∀ (a b : List Rat), dot a b = dot b a
  | [], b => by simp
  | a :: as, [] => by simp
  | a :: as, b :: bs => by simp [dot_comm as bs, mul_comm]

/-- a row against `x :: xs`: missing leading coefficient counts as 0 -/
theorem dot_cons_right (r : List Rat) (x : Rat) (xs : List Rat) :
    dot r (x :: xs) = r.headD 0 * x + dot r.tail xs := by
  cases r <;> simp

@[simp] theorem vscale_nil (c : Rat) : vscale c [] = [] := rfl
@[simp] theorem vscale_cons (c a : Rat) (as : List Rat) : vscale c (a :: as) = (c * a) :: vscale c as := rfl
@[simp] theorem length_vscale (c : Rat) (v : List Rat) : (vscale c v).length = v.length := by simp [vscale]

theorem vscale_vscale (c d : Rat) (v : List Rat) : vscale c (vscale d v) = vscale (c * d) v := by
  simp [vscale, mul_assoc]

theorem vscale_one (v : List Rat) : vscale 1 v = v := by simp [vscale]

theorem dot_vscale_left (c : Rat) : ∀ (a b : List Rat), dot (vscale c a) b = c * dot a b
  | [], b => by simp
  | a :: as, [] => by simp
  | a :: as, b :: bs => by simp [dot_vscale_left c as bs]; ring

theorem dot_vscale_right (c : Rat) (a b : List Rat) : dot a (vscale c b) = c * dot a b := by
  rw [dot_comm, dot_vscale_left, dot_comm]

@[simp] theorem padd_nil_left (b : List Rat) : padd [] b = b := by simp [padd]
@[simp] theorem padd_nil_right (a : List Rat) : padd a [] = a := by cases a <;> simp [padd]
@[simp] theorem padd_cons_cons (a b : Rat) (as bs : List Rat) : padd (a :: as) (b :: bs) = (a + b) :: padd as bs := by
  simp [padd]

theorem length_padd : ∀ (a b : List Rat), (padd a b).length = max a.length b.length
  | [], b => by simp
  | a :: as, [] => by simp
  | a :: as, b :: bs => by simp [length_padd as bs]

theorem dot_padd_left : ∀ (a b u : List Rat), dot (padd a b) u = dot a u + dot b u
  | [], b, u => by simp
  | a :: as, [], u => by simp
  | a :: as, b :: bs, [] => by simp
  | a :: as, b :: bs, u :: us => by simp [dot_padd_left as bs us]; ring

theorem dot_padd_right (u a b : List Rat) : dot u (padd a b) = dot u a + dot u b := by
  rw [dot_comm, dot_padd_left, dot_comm a, dot_comm b]

theorem vscale_padd (c : Rat) : ∀ (a b : List Rat), vscale c (padd a b) = padd (vscale c a) (vscale c b)
  | [], b => by simp
  | a :: as, [] => by simp
  | a :: as, b :: bs => by simp [vscale_padd c as bs]; ring

@[simp] theorem length_zeros (n : Nat) : (zeros n).length = n := by simp [zeros]

theorem zeros_succ (n : Nat) : zeros (n + 1) = 0 :: zeros n := by simp [zeros, List.replicate_succ]

@[simp] theorem dot_zeros_right (a : List Rat) : ∀ n, dot a (zeros n) = 0
  | 0 => by simp [zeros]
  | n + 1 => by
      rw [zeros_succ, dot_cons_right, dot_zeros_right _ n]; simp

@[simp] theorem dot_zeros_left (n : Nat) (a : List Rat) : dot (zeros n) a = 0 := by rw [dot_comm]; simp

@[simp] theorem vscale_zeros (c : Rat) (n : Nat) : vscale c (zeros n) = zeros n := by
  simp [vscale, zeros]

/-! ### `lincomb`, `dots` -/

@[simp] theorem lincomb_nil_left (B : List (List Rat)) : lincomb [] B = [] := by simp [lincomb]
@[simp] theorem lincomb_nil_right (c : List Rat) : lincomb c [] = [] := by cases c <;> simp [lincomb]
@[simp] theorem lincomb_cons_cons (c : Rat) (cs : List Rat) (b : List Rat) (bs : List (List Rat)) :
    lincomb (c :: cs) (b :: bs) = padd (vscale c b) (lincomb cs bs) := by simp [lincomb]

@[simp] theorem dots_nil (v : List Rat) : dots [] v = [] := rfl
@[simp] theorem dots_cons (b : List Rat) (bs : List (List Rat)) (v : List Rat) :
    dots (b :: bs) v = dot v b :: dots bs v := rfl
@[simp] theorem length_dots (B : List (List Rat)) (v : List Rat) : (dots B v).length = B.length := by simp [dots]

/-- `Σ_l ⟨u, B_l⟩ x_l = ⟨u, Σ_l x_l B_l⟩` -/
theorem dot_dots_eq (u : List Rat) : ∀ (B : List (List Rat)) (x : List Rat),
    dot (dots B u) x = dot u (lincomb x B)
  | [], x => by simp
  | b :: bs, [] => by simp
  | b :: bs, c :: cs => by
      simp [dot_dots_eq u bs cs, dot_padd_right, dot_vscale_right]; ring

theorem lincomb_vscale (c : Rat) : ∀ (x : List Rat) (B : List (List Rat)),
    lincomb (vscale c x) B = vscale c (lincomb x B)
  | [], B => by simp
  | x :: xs, [] => by simp
  | x :: xs, b :: bs => by
      simp [lincomb_vscale c xs bs, vscale_padd, vscale_vscale]

/-! ### Gaussian elimination -/

theorem findPivot_some {rows : List Row} {p : Row} {rest : List Row} (h : findPivot rows = some (p, rest)) :
    p.head ≠ 0 ∧ (∀ r, r ∈ rows ↔ r = p ∨ r ∈ rest) ∧ rows.length = rest.length + 1 := by
  induction rows generalizing p rest with
  | nil => simp [findPivot] at h
  | cons r rs ih =>
    unfold findPivot at h
    by_cases hr : r.head ≠ 0
    · simp only [hr, if_true, Option.some.injEq, Prod.mk.injEq, ne_eq, not_false_eq_true] at h
      obtain ⟨rfl, rfl⟩ := h
      exact ⟨hr, fun x => by simp, rfl⟩
    · simp only [hr, if_false] at h
      cases hf : findPivot rs with
      | none => simp [hf] at h
      | some q =>
        obtain ⟨p', rest'⟩ := q
        simp only [hf, Option.some.injEq, Prod.mk.injEq] at h
        obtain ⟨rfl, rfl⟩ := h
        obtain ⟨h1, h2, h3⟩ := ih hf
        refine ⟨h1, fun x => ?_, by simp [h3]⟩
        simp only [List.mem_cons, h2 x]
        tauto

theorem findPivot_none {rows : List Row} (h : findPivot rows = none) : ∀ r ∈ rows, r.head = 0 := by
  induction rows with
  | nil => simp
  | cons r rs ih =>
    unfold findPivot at h
    by_cases hr : r.head ≠ 0
    · simp [hr] at h
    · simp only [hr, if_false] at h
      cases hf : findPivot rs with
      | none =>
        intro x hx
        rcases List.mem_cons.1 hx with rfl | hx
        · exact not_not.1 hr
        · exact ih hf x hx
      | some q => simp [hf] at h

theorem dot_elimRow (p r : Row) (xs : List Rat) :
    dot (elimRow p r).1 xs = dot r.1.tail xs - r.head / p.head * dot p.1.tail xs := by
  simp [elimRow, dot_padd_left, dot_vscale_left]; ring

theorem elimRow_snd (p r : Row) : (elimRow p r).2 = r.2 - r.head / p.head * p.2 := rfl

theorem dot_row_cons (r : Row) (x : Rat) (xs : List Rat) : dot r.1 (x :: xs) = r.head * x + dot r.1.tail xs :=
  dot_cons_right r.1 x xs

/-- unfolding of the successful step -/
theorem solveRows_succ_some {n : Nat} {rows : List Row} {x : List Rat} (h : solveRows (n + 1) rows = some x) :
    ∃ p rest xs, findPivot rows = some (p, rest) ∧ solveRows n (rest.map (elimRow p)) = some xs ∧
      x = (p.2 - dot p.1.tail xs) / p.head :: xs := by
  unfold solveRows at h
  cases hf : findPivot rows with
  | none => simp [hf] at h
  | some q =>
    obtain ⟨p, rest⟩ := q
    simp only [hf] at h
    cases hs : solveRows n (rest.map (elimRow p)) with
    | none => simp [hs] at h
    | some xs =>
      simp only [hs, Option.some.injEq] at h
      exact ⟨p, rest, xs, rfl, hs, h.symm⟩

/-- SOUNDNESS: a returned vector has `n` entries and satisfies every equation. -/
theorem solveRows_sound : ∀ (n : Nat) (rows : List Row) (x : List Rat), solveRows n rows = some x →
    x.length = n ∧ ∀ r ∈ rows, dot r.1 x = r.2
  | 0, rows, x, h => by
      unfold solveRows at h
      by_cases hall : rows.all (fun r => r.2 = 0) = true
      · simp only [hall, if_true, Option.some.injEq] at h
        subst h
        refine ⟨rfl, fun r hr => ?_⟩
        have := List.all_eq_true.1 hall r hr
        simp at this
        simp [this]
      · simp [hall] at h
  | n + 1, rows, x, h => by
      obtain ⟨p, rest, xs, hf, hs, rfl⟩ := solveRows_succ_some h
      obtain ⟨hp, hmem, -⟩ := findPivot_some hf
      obtain ⟨hlen, hsat⟩ := solveRows_sound n _ xs hs
      refine ⟨by simp [hlen], fun r hr => ?_⟩
      rw [dot_row_cons]
      rcases (hmem r).1 hr with rfl | hr'
      · field_simp; ring
      · have h1 := hsat (elimRow p r) (List.mem_map.2 ⟨r, hr', rfl⟩)
        rw [dot_elimRow, elimRow_snd] at h1
        have : r.head * ((p.2 - dot p.1.tail xs) / p.head) = r.head / p.head * (p.2 - dot p.1.tail xs) := by
          field_simp
        rw [this]
        linarith

/-- INJECTIVITY: when the elimination succeeds, two vectors on which all left-hand sides agree are equal. -/
theorem solveRows_inj : ∀ (n : Nat) (rows : List Row) (x : List Rat), solveRows n rows = some x →
    ∀ y z : List Rat, y.length = n → z.length = n → (∀ r ∈ rows, dot r.1 y = dot r.1 z) → y = z
  | 0, _, _, _, y, z, hy, hz, _ => by
      rw [List.length_eq_zero_iff.1 hy, List.length_eq_zero_iff.1 hz]
  | n + 1, rows, x, h, y, z, hy, hz, hyz => by
      obtain ⟨p, rest, xs, hf, hs, rfl⟩ := solveRows_succ_some h
      obtain ⟨hp, hmem, -⟩ := findPivot_some hf
      obtain ⟨y1, ys, rfl⟩ := List.exists_cons_of_length_eq_add_one hy
      obtain ⟨z1, zs, rfl⟩ := List.exists_cons_of_length_eq_add_one hz
      have hpp := hyz p ((hmem p).2 (Or.inl rfl))
      rw [dot_row_cons, dot_row_cons] at hpp
      have hys : ys = zs := by
        apply solveRows_inj n _ xs hs ys zs (by simpa using hy) (by simpa using hz)
        intro r' hr'
        obtain ⟨r, hr, rfl⟩ := List.mem_map.1 hr'
        have hrr := hyz r ((hmem r).2 (Or.inr hr))
        rw [dot_row_cons, dot_row_cons] at hrr
        rw [dot_elimRow, dot_elimRow]
        have e1 : dot r.1.tail ys - dot r.1.tail zs = r.head * (z1 - y1) := by linarith
        have e2 : dot p.1.tail ys - dot p.1.tail zs = p.head * (z1 - y1) := by linarith
        have e3 : r.head / p.head * (p.head * (z1 - y1)) = r.head * (z1 - y1) := by field_simp
        linarith [e1, e2, e3, congrArg (fun t => r.head / p.head * t) e2]
      subst hys
      have : p.head * y1 = p.head * z1 := by linarith
      rw [mul_left_cancel₀ hp this]

/-- trivial kernel of the coefficient part -/
def KerTrivial (n : Nat) (rows : List Row) : Prop :=
  ∀ y : List Rat, y.length = n → (∀ r ∈ rows, dot r.1 y = 0) → y = zeros n

theorem solveRows_kerTrivial {n : Nat} {rows : List Row} {x : List Rat} (h : solveRows n rows = some x) :
    KerTrivial n rows := by
  intro y hy hker
  apply solveRows_inj n rows x h y (zeros n) hy (by simp)
  intro r hr
  rw [hker r hr]; simp

/-- COMPLETENESS on square systems: a trivial kernel makes the elimination succeed, whatever the right-hand sides. -/
theorem solveRows_complete : ∀ (n : Nat) (rows : List Row), rows.length = n → KerTrivial n rows →
    ∃ x, solveRows n rows = some x
  | 0, rows, hlen, _ => by
      rw [List.length_eq_zero_iff.1 hlen]
      exact ⟨[], by simp [solveRows]⟩
  | n + 1, rows, hlen, hker => by
      cases hf : findPivot rows with
      | none =>
        exfalso
        have h0 := findPivot_none hf
        have := hker (1 :: zeros n) (by simp) (fun r hr => by
          rw [dot_row_cons, h0 r hr]; simp)
        rw [zeros_succ] at this
        simp at this
      | some q =>
        obtain ⟨p, rest⟩ := q
        obtain ⟨hp, hmem, hl⟩ := findPivot_some hf
        have hker' : KerTrivial n (rest.map (elimRow p)) := by
          intro ys hys hk
          have hk' : ∀ r ∈ rest, dot r.1.tail ys = r.head / p.head * dot p.1.tail ys := by
            intro r hr
            have := hk (elimRow p r) (List.mem_map.2 ⟨r, hr, rfl⟩)
            rw [dot_elimRow] at this
            linarith
          have := hker (-(dot p.1.tail ys) / p.head :: ys) (by simp [hys]) (fun r hr => by
            rw [dot_row_cons]
            rcases (hmem r).1 hr with rfl | hr'
            · field_simp; ring
            · rw [hk' r hr']; field_simp; ring)
          rw [zeros_succ] at this
          exact (List.cons.inj this).2
        obtain ⟨xs, hxs⟩ := solveRows_complete n (rest.map (elimRow p)) (by simp; omega) hker'
        exact ⟨(p.2 - dot p.1.tail xs) / p.head :: xs, by unfold solveRows; simp only [hf, hxs]⟩

/-- CHARACTERISATION on square systems. -/
theorem solveRows_eq_some_iff (n : Nat) (rows : List Row) (hlen : rows.length = n) (x : List Rat) :
    solveRows n rows = some x ↔ x.length = n ∧ (∀ r ∈ rows, dot r.1 x = r.2) ∧ KerTrivial n rows := by
  constructor
  · intro h
    exact ⟨(solveRows_sound n rows x h).1, (solveRows_sound n rows x h).2, solveRows_kerTrivial h⟩
  · rintro ⟨hx, hsat, hker⟩
    obtain ⟨x', hx'⟩ := solveRows_complete n rows hlen hker
    obtain ⟨hl', hsat'⟩ := solveRows_sound n rows x' hx'
    have : x' = x := solveRows_inj n rows x' hx' x' x hl' hx (fun r hr => by rw [hsat r hr, hsat' r hr])
    rw [hx', this]

theorem solveRows_isSome_iff (n : Nat) (rows : List Row) (hlen : rows.length = n) :
    (solveRows n rows).isSome ↔ KerTrivial n rows := by
  constructor
  · intro h
    obtain ⟨x, hx⟩ := Option.isSome_iff_exists.1 h
    exact solveRows_kerTrivial hx
  · intro h
    obtain ⟨x, hx⟩ := solveRows_complete n rows hlen h
    simp [hx]

/-! ### the normal equations of a basis -/

/-- one equation per basis vector `u`: `Σ_l ⟨u, B_l⟩ x_l = ⟨se, u⟩` -/
def normalRows (B : List (List Rat)) (se : List Rat) : List Row := B.map fun u => (dots B u, dot se u)

theorem solve_gram_eq (B : List (List Rat)) (se : List Rat) :
    solve? (gram B) (dots B se) = solveRows B.length (normalRows B se) := by
  simp [solve?, gram, dots, normalRows, List.zip_map']

/-- linear independence of `B`, phrased through the Gram matrix: `G y = 0 → y = 0` -/
def Indep (B : List (List Rat)) : Prop :=
  ∀ y : List Rat, y.length = B.length → (∀ u ∈ B, dot u (lincomb y B) = 0) → y = zeros B.length

theorem kerTrivial_normalRows (B : List (List Rat)) (se : List Rat) :
    KerTrivial B.length (normalRows B se) ↔ Indep B := by
  unfold KerTrivial Indep normalRows
  constructor
  · intro h y hy hk
    apply h y hy
    intro r hr
    obtain ⟨u, hu, rfl⟩ := List.mem_map.1 hr
    simpa [dot_dots_eq] using hk u hu
  · intro h y hy hk
    apply h y hy
    intro u hu
    have := hk (dots B u, dot se u) (List.mem_map.2 ⟨u, hu, rfl⟩)
    simpa [dot_dots_eq] using this

/-- CHARACTERISATION of the projection: `projectOn B se = some p` exactly when `B` is independent and `p` is
    the combination of `B` whose residual is orthogonal to `B`. -/
theorem projectOn_eq_some_iff (B : List (List Rat)) (se p : List Rat) :
    projectOn B se = some p ↔
      ∃ x : List Rat, x.length = B.length ∧ (∀ u ∈ B, dot u (lincomb x B) = dot se u) ∧ Indep B ∧
        p = lincomb x B := by
  unfold projectOn
  rw [solve_gram_eq]
  constructor
  · intro h
    obtain ⟨x, hx, rfl⟩ := Option.map_eq_some_iff.1 h
    obtain ⟨h1, h2, h3⟩ := (solveRows_eq_some_iff B.length (normalRows B se) (by simp [normalRows]) x).1 hx
    refine ⟨x, h1, fun u hu => ?_, (kerTrivial_normalRows B se).1 h3, rfl⟩
    have := h2 (dots B u, dot se u) (List.mem_map.2 ⟨u, hu, rfl⟩)
    simpa [dot_dots_eq] using this
  · rintro ⟨x, h1, h2, h3, rfl⟩
    have : solveRows B.length (normalRows B se) = some x := by
      apply (solveRows_eq_some_iff B.length (normalRows B se) (by simp [normalRows]) x).2
      refine ⟨h1, fun r hr => ?_, (kerTrivial_normalRows B se).2 h3⟩
      obtain ⟨u, hu, rfl⟩ := List.mem_map.1 hr
      simpa [dot_dots_eq] using h2 u hu
    simp [this]

theorem projectOn_isSome_iff (B : List (List Rat)) (se : List Rat) : (projectOn B se).isSome ↔ Indep B := by
  unfold projectOn
  rw [solve_gram_eq, Option.isSome_map, solveRows_isSome_iff _ _ (by simp [normalRows]), kerTrivial_normalRows]

theorem projectOn_eq_none_iff (B : List (List Rat)) (se : List Rat) : projectOn B se = none ↔ ¬ Indep B := by
  rw [← projectOn_isSome_iff B se]; simp

/-- homogeneity in the projected signal, for every factor (also 0) and also in the singular case -/
theorem projectOn_vscale (B : List (List Rat)) (se : List Rat) (c : Rat) :
    projectOn B (vscale c se) = (projectOn B se).map (vscale c) := by
  cases h : projectOn B se with
  | none =>
    rw [projectOn_eq_none_iff] at h
    simpa using (projectOn_eq_none_iff B _).2 h
  | some p =>
    obtain ⟨x, h1, h2, h3, rfl⟩ := (projectOn_eq_some_iff B se p).1 h
    rw [Option.map_some]
    apply (projectOn_eq_some_iff B _ _).2
    refine ⟨vscale c x, by simp [h1], fun u hu => ?_, h3, (lincomb_vscale c x B).symm⟩
    rw [lincomb_vscale, dot_vscale_right, dot_vscale_left, h2 u hu]

/-- idempotence on the span -/
theorem projectOn_lincomb (B : List (List Rat)) (x : List Rat) (hx : x.length = B.length) (hB : Indep B) :
    projectOn B (lincomb x B) = some (lincomb x B) :=
  (projectOn_eq_some_iff B _ _).2 ⟨x, hx, fun _ _ => dot_comm _ _, hB, rfl⟩

/-! ### rescaling the basis vectors -/

theorem lincomb_zipWith_vscale : ∀ (S y : List Rat) (B : List (List Rat)),
    lincomb y (List.zipWith vscale S B) = lincomb (List.zipWith (· * ·) y S) B
  | [], y, B => by simp
  | s :: S, [], B => by simp
  | s :: S, y :: ys, [] => by simp
  | s :: S, y :: ys, b :: B => by
      simp [lincomb_zipWith_vscale S ys B, vscale_vscale]

theorem zipWith_div_mul : ∀ (x S : List Rat), (∀ s ∈ S, s ≠ 0) → x.length = S.length →
    List.zipWith (· * ·) (List.zipWith (· / ·) x S) S = x
  | [], S, _, _ => by simp
  | x :: xs, [], _, h => by simp at h
  | x :: xs, s :: S, hS, h => by
      have hs : s ≠ 0 := hS s (by simp)
      simp only [List.zipWith_cons_cons, List.cons.injEq]
      refine ⟨by field_simp, zipWith_div_mul xs S (fun t ht => hS t (by simp [ht])) (by simpa using h)⟩

theorem zipWith_mul_eq_zeros : ∀ (y S : List Rat) (n : Nat), (∀ s ∈ S, s ≠ 0) → y.length = n → S.length = n →
    List.zipWith (· * ·) y S = zeros n → y = zeros n
  | [], S, n, _, hy, _, _ => by simp at hy; subst hy; simp [zeros]
  | y :: ys, [], n, _, hy, hS, _ => by simp at hS; subst hS; simp at hy
  | y :: ys, s :: S, n, hS, hy, hl, h => by
      cases n with
      | zero => simp at hy
      | succ n =>
        rw [zeros_succ] at h ⊢
        simp only [List.zipWith_cons_cons, List.cons.injEq] at h
        have hs : s ≠ 0 := hS s (by simp)
        have h1 : y = 0 := by
          rcases mul_eq_zero.1 h.1 with h0 | h0
          · exact h0
          · exact absurd h0 hs
        rw [h1, zipWith_mul_eq_zeros ys S n (fun t ht => hS t (by simp [ht])) (by simpa using hy) (by simpa using hl) h.2]

theorem mem_zipWith_vscale {S : List Rat} {B : List (List Rat)} {u' : List Rat}
    (h : u' ∈ List.zipWith vscale S B) : ∃ s ∈ S, ∃ u ∈ B, u' = vscale s u := by
  obtain ⟨i, hi, rfl⟩ := List.mem_iff_getElem.1 h
  simp only [List.length_zipWith, Nat.lt_min] at hi
  refine ⟨S[i]'hi.1, List.getElem_mem _, B[i]'hi.2, List.getElem_mem _, ?_⟩
  simp [List.getElem_zipWith]

theorem exists_scaled_mem {S : List Rat} {B : List (List Rat)} (hl : S.length = B.length) {u : List Rat}
    (h : u ∈ B) : ∃ s ∈ S, vscale s u ∈ List.zipWith vscale S B := by
  obtain ⟨i, hi, rfl⟩ := List.mem_iff_getElem.1 h
  have hi' : i < S.length := by omega
  refine ⟨S[i], List.getElem_mem _, ?_⟩
  apply List.mem_iff_getElem.2
  exact ⟨i, by simp [hi, hi'], by simp [List.getElem_zipWith]⟩

/-- one direction of the span-dependence: the projection survives a rescaling of the basis vectors -/
theorem projectOn_scaled_of_some (S : List Rat) (B : List (List Rat)) (se p : List Rat)
    (hl : S.length = B.length) (hS : ∀ s ∈ S, s ≠ 0) (h : projectOn B se = some p) :
    projectOn (List.zipWith vscale S B) se = some p := by
  obtain ⟨x, h1, h2, h3, rfl⟩ := (projectOn_eq_some_iff B se p).1 h
  have hlen : (List.zipWith vscale S B).length = B.length := by simp [hl]
  have hx : List.zipWith (· * ·) (List.zipWith (· / ·) x S) S = x := zipWith_div_mul x S hS (by omega)
  apply (projectOn_eq_some_iff _ _ _).2
  refine ⟨List.zipWith (· / ·) x S, by simp [h1, hl], fun u' hu' => ?_, ?_, ?_⟩
  · obtain ⟨s, -, u, hu, rfl⟩ := mem_zipWith_vscale hu'
    rw [lincomb_zipWith_vscale, hx, dot_vscale_left, dot_vscale_right, h2 u hu]
  · intro y hy hk
    rw [hlen] at hy ⊢
    have hy0 : List.zipWith (· * ·) y S = zeros B.length := by
      apply h3 _ (by simp [hy, hl])
      intro u hu
      obtain ⟨s, hs, hmem⟩ := exists_scaled_mem hl hu
      have := hk _ hmem
      rw [lincomb_zipWith_vscale, dot_vscale_left] at this
      rcases mul_eq_zero.1 this with h0 | h0
      · exact absurd h0 (hS s hs)
      · exact h0
    exact zipWith_mul_eq_zeros y S B.length hS hy hl hy0
  · rw [lincomb_zipWith_vscale, hx]

theorem zipWith_vscale_inv : ∀ (S : List Rat) (B : List (List Rat)), (∀ s ∈ S, s ≠ 0) →
    List.zipWith vscale (S.map (·⁻¹)) (List.zipWith vscale S B) = List.zipWith (fun _ b => b) S B
  | [], B, _ => by simp
  | s :: S, [], _ => by simp
  | s :: S, b :: B, hS => by
      have hs : s ≠ 0 := hS s (by simp)
      simp [vscale_vscale, inv_mul_cancel₀ hs, vscale_one,
        zipWith_vscale_inv S B (fun t ht => hS t (by simp [ht]))]

theorem zipWith_snd_eq : ∀ (S : List Rat) (B : List (List Rat)), S.length = B.length →
    List.zipWith (fun _ b => b) S B = B
  | [], [], _ => rfl
  | [], b :: B, h => by simp at h
  | s :: S, [], h => by simp at h
  | s :: S, b :: B, h => by simp [zipWith_snd_eq S B (by simpa using h)]

/-- SPAN-DEPENDENCE: multiplying every basis vector by its own non-zero factor changes nothing. -/
theorem projectOn_scaled (S : List Rat) (B : List (List Rat)) (se : List Rat)
    (hl : S.length = B.length) (hS : ∀ s ∈ S, s ≠ 0) :
    projectOn (List.zipWith vscale S B) se = projectOn B se := by
  cases h : projectOn B se with
  | some p => exact projectOn_scaled_of_some S B se p hl hS h
  | none =>
    cases h' : projectOn (List.zipWith vscale S B) se with
    | none => rfl
    | some p' =>
      exfalso
      have := projectOn_scaled_of_some (S.map (·⁻¹)) (List.zipWith vscale S B) se p' (by simp [hl])
        (by intro s hs; obtain ⟨t, ht, rfl⟩ := List.mem_map.1 hs; exact inv_ne_zero (hS t ht)) h'
      rw [zipWith_vscale_inv S B hS, zipWith_snd_eq S B hl, h] at this
      simp at this

/-! ### the delayed references -/

theorem length_delayed (N d : Nat) (xs : List Rat) : (delayed N d xs).length = N := by
  simp [delayed, padTo, zeros]; omega

theorem map_padTo (c : Rat) (n : Nat) (xs : List Rat) : (padTo n xs).map (c * ·) = padTo n (xs.map (c * ·)) := by
  simp [padTo]

theorem delayed_vscale (c : Rat) (N d : Nat) (xs : List Rat) :
    delayed N d (vscale c xs) = vscale c (delayed N d xs) := by
  simp [delayed, vscale, List.map_take, map_padTo, zeros]

/-- delay 0 of a signal that fits is the zero-padded signal -/
theorem delayed_zero (N : Nat) (xs : List Rat) (h : xs.length ≤ N) :
    delayed N 0 xs = xs ++ zeros (N - xs.length) := by
  simp [delayed, padTo, zeros]
  omega

theorem mem_basis {N flen : Nat} {refs : List (List Rat)} {b : List Rat} :
    b ∈ basis N flen refs ↔ ∃ r ∈ refs, ∃ d < flen, b = delayed N d r := by
  simp only [basis, delays, List.mem_flatMap, List.mem_map, List.mem_range]
  constructor
  · rintro ⟨r, hr, d, hd, rfl⟩; exact ⟨r, hr, d, hd, rfl⟩
  · rintro ⟨r, hr, d, hd, rfl⟩; exact ⟨r, hr, d, hd, rfl⟩

theorem length_of_mem_basis {N flen : Nat} {refs : List (List Rat)} {b : List Rat}
    (h : b ∈ basis N flen refs) : b.length = N := by
  obtain ⟨r, -, d, -, rfl⟩ := mem_basis.1 h
  exact length_delayed N d r

@[simp] theorem length_delays (N flen : Nat) (r : List Rat) : (delays N flen r).length = flen := by
  simp [delays]

theorem length_basis (N flen : Nat) : ∀ refs : List (List Rat), (basis N flen refs).length = refs.length * flen
  | [] => by simp [basis]
  | r :: rs => by
      have := length_basis N flen rs
      simp only [basis, List.flatMap_cons, List.length_append, length_delays, List.length_cons] at this ⊢
      rw [this]; ring

theorem basis_cons (N flen : Nat) (r : List Rat) (rs : List (List Rat)) :
    basis N flen (r :: rs) = delays N flen r ++ basis N flen rs := by simp [basis]

theorem zipWith_replicate_left {α β γ : Type} (g : α → β → γ) (c : α) : ∀ (l : List β),
    List.zipWith g (List.replicate l.length c) l = l.map (g c)
  | [] => rfl
  | b :: bs => by simp [List.replicate_succ, zipWith_replicate_left g c bs]

theorem delays_vscale (c : Rat) (N flen : Nat) (r : List Rat) :
    delays N flen (vscale c r) = List.zipWith vscale (List.replicate flen c) (delays N flen r) := by
  have h := zipWith_replicate_left vscale c (delays N flen r)
  rw [length_delays] at h
  rw [h]
  simp [delays, delayed_vscale]

theorem basis_zipWith_vscale (N flen : Nat) : ∀ (cs : List Rat) (refs : List (List Rat)),
    basis N flen (List.zipWith vscale cs refs) =
      List.zipWith vscale (cs.flatMap (List.replicate flen)) (basis N flen refs)
  | [], refs => by simp [basis]
  | c :: cs, [] => by simp [basis]
  | c :: cs, r :: rs => by
      rw [List.zipWith_cons_cons, basis_cons, basis_cons, List.flatMap_cons, delays_vscale,
        basis_zipWith_vscale N flen cs rs]
      rw [List.zipWith_append (by simp)]

theorem headD_zipWith_vscale_length (cs : List Rat) (refs : List (List Rat)) (h : cs.length = refs.length) :
    ((List.zipWith vscale cs refs).headD []).length = (refs.headD []).length := by
  cases cs <;> cases refs <;> simp_all

theorem project_eq (refs : List (List Rat)) (est : List Rat) (flen : Nat) :
    project refs est flen =
      projectOn (basis ((refs.headD []).length + flen - 1) flen refs) (est ++ zeros (flen - 1)) := rfl

/-- `_project` does not change when every reference is multiplied by its own non-zero factor -/
theorem project_scale_refs (cs : List Rat) (refs : List (List Rat)) (est : List Rat) (flen : Nat)
    (hl : cs.length = refs.length) (hc : ∀ c ∈ cs, c ≠ 0) :
    project (List.zipWith vscale cs refs) est flen = project refs est flen := by
  rw [project_eq, project_eq, headD_zipWith_vscale_length cs refs hl, basis_zipWith_vscale]
  apply projectOn_scaled
  · rw [length_basis, ← hl]
    clear hc hl
    induction cs with
    | nil => simp
    | cons c cs ih => simp [ih]; ring
  · intro s hs
    obtain ⟨c, hc', hs'⟩ := List.mem_flatMap.1 hs
    rw [(List.mem_replicate.1 hs').2]
    exact hc c hc'

theorem append_zeros_vscale (c : Rat) (est : List Rat) (k : Nat) :
    vscale c est ++ zeros k = vscale c (est ++ zeros k) := by
  simp [vscale, zeros]

/-- `_project` is homogeneous in the estimate -/
theorem project_vscale (refs : List (List Rat)) (est : List Rat) (flen : Nat) (c : Rat) :
    project refs (vscale c est) flen = (project refs est flen).map (vscale c) := by
  rw [project_eq, project_eq, append_zeros_vscale, projectOn_vscale]

/-! ### lengths, unit combinations -/

theorem length_lincomb_le (N : Nat) : ∀ (x : List Rat) (B : List (List Rat)), (∀ b ∈ B, b.length = N) →
    (lincomb x B).length ≤ N
  | [], B, _ => by simp
  | c :: cs, [], _ => by simp
  | c :: cs, b :: bs, h => by
      have h1 := length_lincomb_le N cs bs (fun b' hb' => h b' (by simp [hb']))
      have h2 := h b (by simp)
      simp [length_padd, h2, h1]

theorem length_lincomb (N : Nat) (x : List Rat) (B : List (List Rat)) (h : ∀ b ∈ B, b.length = N)
    (hx : x ≠ []) (hB : B ≠ []) : (lincomb x B).length = N := by
  cases x with
  | nil => exact absurd rfl hx
  | cons c cs =>
    cases B with
    | nil => exact absurd rfl hB
    | cons b bs =>
      have h1 := length_lincomb_le N cs bs (fun b' hb' => h b' (by simp [hb']))
      have h2 := h b (by simp)
      simp [length_padd, h2, h1]

theorem vscale_zero (v : List Rat) : vscale 0 v = zeros v.length := by
  induction v with
  | nil => rfl
  | cons a as ih => simp [ih, zeros_succ]

theorem padd_zeros_left : ∀ (m : Nat) (v : List Rat), m ≤ v.length → padd (zeros m) v = v
  | 0, v, _ => by simp [zeros]
  | m + 1, [], h => by simp at h
  | m + 1, a :: as, h => by
      rw [zeros_succ, padd_cons_cons, padd_zeros_left m as (by simpa using h)]; simp

theorem padd_zeros_right : ∀ (m : Nat) (v : List Rat), m ≤ v.length → padd v (zeros m) = v
  | 0, v, _ => by simp [zeros]
  | m + 1, [], h => by simp at h
  | m + 1, a :: as, h => by
      rw [zeros_succ, padd_cons_cons, padd_zeros_right m as (by simpa using h)]; simp

theorem lincomb_zeros (N : Nat) : ∀ (k : Nat) (B : List (List Rat)), (∀ b ∈ B, b.length = N) →
    ∃ m, m ≤ N ∧ lincomb (zeros k) B = zeros m
  | 0, B, _ => ⟨0, by omega, by simp [zeros]⟩
  | k + 1, [], _ => ⟨0, by omega, by simp [zeros]⟩
  | k + 1, b :: bs, h => by
      obtain ⟨m, hm, he⟩ := lincomb_zeros N k bs (fun b' hb' => h b' (by simp [hb']))
      refine ⟨N, le_refl _, ?_⟩
      rw [zeros_succ, lincomb_cons_cons, he, vscale_zero, h b (by simp), padd_zeros_right m _ (by simpa using hm)]

/-- every basis vector is a combination of the basis (coefficient 1 on itself) -/
theorem exists_lincomb_eq_of_mem (N : Nat) : ∀ (B : List (List Rat)) (u : List Rat), (∀ b ∈ B, b.length = N) →
    u ∈ B → ∃ x : List Rat, x.length = B.length ∧ lincomb x B = u
  | [], u, _, hu => by simp at hu
  | b :: bs, u, h, hu => by
      have hb := h b (by simp)
      have hbs : ∀ b' ∈ bs, b'.length = N := fun b' hb' => h b' (by simp [hb'])
      rcases List.mem_cons.1 hu with rfl | hu'
      · obtain ⟨m, hm, he⟩ := lincomb_zeros N bs.length bs hbs
        refine ⟨1 :: zeros bs.length, by simp, ?_⟩
        rw [lincomb_cons_cons, he, vscale_one, padd_zeros_right m _ (by omega)]
      · obtain ⟨x, hx, he⟩ := exists_lincomb_eq_of_mem N bs u hbs hu'
        refine ⟨0 :: x, by simp [hx], ?_⟩
        rw [lincomb_cons_cons, he, vscale_zero, hb, padd_zeros_left N u (by rw [hbs u hu'])]

/-- a basis vector is its own projection -/
theorem projectOn_mem (N : Nat) (B : List (List Rat)) (u : List Rat) (h : ∀ b ∈ B, b.length = N) (hu : u ∈ B)
    (hB : Indep B) : projectOn B u = some u := by
  obtain ⟨x, hx, he⟩ := exists_lincomb_eq_of_mem N B u h hu
  have := projectOn_lincomb B x hx hB
  rwa [he] at this

/-! ### signals as functions of the sample index (the carrier of the abstract C19 theorems) -/

/-- a list signal as a function `ℕ → ℚ` (0 beyond its end) -/
def toFun (l : List Rat) : ℕ → ℚ := fun i => l.getD i 0

/-- the first `N` samples of a function -/
def ofFun (N : ℕ) (f : ℕ → ℚ) : List Rat := (List.range N).map f

/-- `np.sum(x**2)` over the first `N` samples -/
def energyN (N : ℕ) (f : ℕ → ℚ) : ℚ := ((List.range N).map fun i => f i * f i).sum

@[simp] theorem toFun_nil (i : ℕ) : toFun [] i = 0 := by simp [toFun]
@[simp] theorem toFun_cons_zero (a : Rat) (as : List Rat) : toFun (a :: as) 0 = a := by simp [toFun]
@[simp] theorem toFun_cons_succ (a : Rat) (as : List Rat) (i : ℕ) : toFun (a :: as) (i + 1) = toFun as i := by
  simp [toFun]

@[simp] theorem length_ofFun (N : ℕ) (f : ℕ → ℚ) : (ofFun N f).length = N := by simp [ofFun]

theorem ofFun_toFun (l : List Rat) : ofFun l.length (toFun l) = l := by
  apply List.ext_getElem
  · simp
  · intro i h1 h2
    simp [ofFun, toFun, List.getD_eq_getElem?_getD, List.getElem?_eq_getElem h2]

theorem toFun_zipWith (g : Rat → Rat → Rat) : ∀ (a b : List Rat), a.length = b.length → ∀ i,
    toFun (List.zipWith g a b) i = if i < a.length then g (toFun a i) (toFun b i) else 0
  | [], [], _, i => by simp
  | [], b :: bs, h, _ => by simp at h
  | a :: as, [], h, _ => by simp at h
  | a :: as, b :: bs, h, i => by
      cases i with
      | zero => simp
      | succ i => simp [toFun_zipWith g as bs (by simpa using h) i]

theorem toFun_eq_zero_of_le (l : List Rat) (i : ℕ) (h : l.length ≤ i) : toFun l i = 0 := by
  simp [toFun, List.getD_eq_getElem?_getD, List.getElem?_eq_none h]

theorem toFun_add (a b : List Rat) (h : a.length = b.length) :
    toFun (List.zipWith (· + ·) a b) = toFun a + toFun b := by
  funext i
  rw [toFun_zipWith _ a b h i]
  by_cases hi : i < a.length
  · simp [hi]
  · simp [hi, toFun_eq_zero_of_le a i (by omega), toFun_eq_zero_of_le b i (by omega)]

theorem toFun_sub (a b : List Rat) (h : a.length = b.length) :
    toFun (List.zipWith (· - ·) a b) = toFun a - toFun b := by
  funext i
  rw [toFun_zipWith _ a b h i]
  by_cases hi : i < a.length
  · simp [hi]
  · simp [hi, toFun_eq_zero_of_le a i (by omega), toFun_eq_zero_of_le b i (by omega)]

theorem toFun_map (g : Rat → Rat) (hg : g 0 = 0) : ∀ (a : List Rat) (i : ℕ), toFun (a.map g) i = g (toFun a i)
  | [], i => by simp [hg]
  | a :: as, 0 => by simp
  | a :: as, i + 1 => by simp [toFun_map g hg as i]

theorem toFun_neg (a : List Rat) : toFun (a.map (- ·)) = - toFun a := by
  funext i; simp [toFun_map (- ·) (by simp) a i]

theorem toFun_vscale (c : Rat) (a : List Rat) : toFun (vscale c a) = c • toFun a := by
  funext i; simp [vscale, toFun_map (c * ·) (by simp) a i]

theorem ofFun_smul (N : ℕ) (c : Rat) (f : ℕ → ℚ) : ofFun N (c • f) = vscale c (ofFun N f) := by
  simp [ofFun, vscale]

theorem energy_eq_energyN (l : List Rat) : energy ⟨l⟩ = energyN l.length (toFun l) := by
  unfold energy energyN
  conv_lhs => rw [← ofFun_toFun l]
  simp [ofFun, Function.comp_def]

theorem sum_map_mul_left' (c : ℚ) (g : ℕ → ℚ) : ∀ l : List ℕ, (l.map fun i => c * g i).sum = c * (l.map g).sum
  | [] => by simp
  | a :: l => by simp [sum_map_mul_left' c g l, mul_add]

theorem energyN_smul (N : ℕ) (c : ℚ) (f : ℕ → ℚ) : energyN N (c • f) = c ^ 2 * energyN N f := by
  unfold energyN
  rw [← sum_map_mul_left']
  congr 1
  apply List.map_congr_left
  intro i _
  simp; ring

theorem energyN_zero (N : ℕ) : energyN N 0 = 0 := by
  unfold energyN
  simp

/-- `Rep N a f`: the list signal `a` has `N` samples and is the function `f` -/
def Rep (N : ℕ) (a : Sig) (f : ℕ → ℚ) : Prop := a.xs.length = N ∧ toFun a.xs = f

theorem Rep.mk' {N : ℕ} (l : List Rat) (h : l.length = N) : Rep N ⟨l⟩ (toFun l) := ⟨h, rfl⟩

theorem Rep.add {N : ℕ} {a b : Sig} {f g : ℕ → ℚ} (ha : Rep N a f) (hb : Rep N b g) : Rep N (a + b) (f + g) := by
  refine ⟨?_, ?_⟩
  · show (List.zipWith (· + ·) a.xs b.xs).length = N
    simp [ha.1, hb.1]
  · show toFun (List.zipWith (· + ·) a.xs b.xs) = f + g
    rw [toFun_add _ _ (by rw [ha.1, hb.1]), ha.2, hb.2]

theorem Rep.sub {N : ℕ} {a b : Sig} {f g : ℕ → ℚ} (ha : Rep N a f) (hb : Rep N b g) : Rep N (a - b) (f - g) := by
  refine ⟨?_, ?_⟩
  · show (List.zipWith (· - ·) a.xs b.xs).length = N
    simp [ha.1, hb.1]
  · show toFun (List.zipWith (· - ·) a.xs b.xs) = f - g
    rw [toFun_sub _ _ (by rw [ha.1, hb.1]), ha.2, hb.2]

theorem Rep.neg {N : ℕ} {a : Sig} {f : ℕ → ℚ} (ha : Rep N a f) : Rep N (-a) (-f) := by
  refine ⟨?_, ?_⟩
  · show (a.xs.map (- ·)).length = N
    simp [ha.1]
  · show toFun (a.xs.map (- ·)) = -f
    rw [toFun_neg, ha.2]

theorem Rep.energy {N : ℕ} {a : Sig} {f : ℕ → ℚ} (ha : Rep N a f) : Separation.energy a = energyN N f := by
  have := energy_eq_energyN a.xs
  rw [ha.1, ha.2] at this
  exact this

/-- The source criteria of the list-level decomposition are those of the function-level decomposition. -/
theorem sourceCrit_transport (N : ℕ) (s pT pA se : List Rat) (hs : s.length = N) (hT : pT.length = N)
    (hA : pA.length = N) (he : se.length = N) :
    sourceCrit Separation.energy (decomp (⟨s⟩ : Sig) ⟨pT⟩ ⟨pA⟩ ⟨se⟩) =
      sourceCrit (energyN N) (decomp (toFun s) (toFun pT) (toFun pA) (toFun se)) := by
  have rs := Rep.mk' s hs
  have rT := Rep.mk' pT hT
  have rA := Rep.mk' pA hA
  have re := Rep.mk' se he
  have rSpat := rT.sub rs
  have rInterf := (rA.sub rs).sub rSpat
  have rArtif := (((rs.neg).sub rSpat).sub rInterf).add re
  have rFilt := rs.add rSpat
  simp only [sourceCrit, decomp]
  rw [rFilt.energy, (rInterf.add rArtif).energy, rInterf.energy, (rFilt.add rInterf).energy, rArtif.energy]

/-! ### `solve?` as a statement about matrices -/

/-- `A·x` -/
def mulVec (A : List (List Rat)) (x : List Rat) : List Rat := A.map fun r => dot r x

/-- `A y = 0 → y = 0` (for `y` with one entry per row of the square matrix `A`) -/
def Nonsingular (A : List (List Rat)) : Prop :=
  ∀ y : List Rat, y.length = A.length → (∀ r ∈ A, dot r y = 0) → y = zeros A.length

theorem mem_zip_iff {A : List (List Rat)} {b : List Rat} {r : Row} :
    r ∈ A.zip b ↔ ∃ (i : Nat) (h1 : i < A.length) (h2 : i < b.length), r = (A[i], b[i]) := by
  constructor
  · intro h
    obtain ⟨i, hi, rfl⟩ := List.mem_iff_getElem.1 h
    simp only [List.length_zip, Nat.lt_min] at hi
    exact ⟨i, hi.1, hi.2, by simp [List.getElem_zip]⟩
  · rintro ⟨i, h1, h2, rfl⟩
    apply List.mem_iff_getElem.2
    exact ⟨i, by simp [h1, h2], by simp [List.getElem_zip]⟩

theorem kerTrivial_zip (A : List (List Rat)) (b : List Rat) (hb : b.length = A.length) :
    KerTrivial A.length (A.zip b) ↔ Nonsingular A := by
  unfold KerTrivial Nonsingular
  constructor
  · intro h y hy hk
    apply h y hy
    intro r hr
    exact hk r.1 (List.of_mem_zip hr).1
  · intro h y hy hk
    apply h y hy
    intro row hrow
    obtain ⟨i, hi, rfl⟩ := List.mem_iff_getElem.1 hrow
    exact hk (A[i], b[i]'(by omega)) (mem_zip_iff.2 ⟨i, hi, by omega, rfl⟩)

/-! ### well-formed inputs of the decomposition (the handler's domain) -/

/-- `flen ≥ 1`, every reference as long as the estimate, `j` a valid source index -/
structure WF (refs : List (List Rat)) (est : List Rat) (j flen : Nat) : Prop where
  flen_pos : 1 ≤ flen
  len : ∀ r ∈ refs, r.length = est.length
  hj : j < refs.length

theorem WF.ne_nil {refs : List (List Rat)} {est : List Rat} {j flen : Nat} (h : WF refs est j flen) : refs ≠ [] := by
  intro h0; have := h.hj; simp [h0] at this

theorem WF.head_len {refs : List (List Rat)} {est : List Rat} {j flen : Nat} (h : WF refs est j flen) :
    (refs.headD []).length = est.length := by
  cases refs with
  | nil => exact absurd rfl h.ne_nil
  | cons r rs => exact h.len r (by simp)

theorem WF.target_len {refs : List (List Rat)} {est : List Rat} {j flen : Nat} (h : WF refs est j flen) :
    (refs.getD j []).length = est.length := by
  have hj := h.hj
  rw [List.getD_eq_getElem?_getD, List.getElem?_eq_getElem hj]
  exact h.len _ (List.getElem_mem hj)

theorem length_project (refs : List (List Rat)) (est : List Rat) (flen : Nat) (p : List Rat)
    (hflen : 1 ≤ flen) (hne : refs ≠ []) (h : project refs est flen = some p) :
    p.length = (refs.headD []).length + flen - 1 := by
  rw [project_eq] at h
  obtain ⟨x, hx, -, -, rfl⟩ := (projectOn_eq_some_iff _ _ _).1 h
  have hpos : 0 < (basis ((refs.headD []).length + flen - 1) flen refs).length := by
    rw [length_basis]
    exact Nat.mul_pos (List.length_pos_iff.2 hne) hflen
  apply length_lincomb _ _ _ (fun b hb => length_of_mem_basis hb)
  · intro h0; rw [h0] at hx; simp only [List.length_nil] at hx; omega
  · intro h0; rw [h0] at hpos; simp at hpos

/-! ### the exact projections as an abstract `Proj` on functions -/

/-- The two projections of `_bss_decomp_mtifilt` (on the delayed target `BT`, on all delayed references
    `BA`) as operators on signals-as-functions; a singular system yields the empty signal. -/
def exactProj (N : ℕ) (BT BA : List (List Rat)) : Proj (ℕ → ℚ) where
  onTarget f := toFun ((projectOn BT (ofFun N f)).getD [])
  onAll f := toFun ((projectOn BA (ofFun N f)).getD [])

theorem toFun_getD_map_vscale (c : Rat) (o : Option (List Rat)) :
    toFun ((o.map (vscale c)).getD []) = c • toFun (o.getD []) := by
  cases o with
  | none => funext i; simp
  | some p => simp [toFun_vscale]

theorem dot_lincomb_congr (a b : List Rat) : ∀ (y : List Rat) (B : List (List Rat)),
    (∀ u ∈ B, dot a u = dot b u) → dot a (lincomb y B) = dot b (lincomb y B)
  | [], B, _ => by simp
  | y :: ys, [], _ => by simp
  | y :: ys, u :: us, h => by
      simp [dot_padd_right, dot_vscale_right, h u (by simp),
        dot_lincomb_congr a b ys us (fun v hv => h v (by simp [hv]))]

theorem dot_self_nonneg : ∀ v : List Rat, 0 ≤ dot v v
  | [] => by simp
  | a :: as => by
      have := dot_self_nonneg as
      simp only [dot_cons_cons]
      nlinarith [mul_self_nonneg a]

/-- `a − b` with zero padding -/
def vsub (a b : List Rat) : List Rat := padd a (vscale (-1) b)

theorem dot_vsub_left (a b u : List Rat) : dot (vsub a b) u = dot a u - dot b u := by
  simp [vsub, dot_padd_left, dot_vscale_left]; ring

theorem dot_vsub_right (u a b : List Rat) : dot u (vsub a b) = dot u a - dot u b := by
  rw [dot_comm, dot_vsub_left, dot_comm a, dot_comm b]

/-! ### the decomposition with the target reference as a parameter -/

/-- `decompExact` with `rj = refs[j]` as a parameter -/
def decompWith (rj : List Rat) (refs : List (List Rat)) (est : List Rat) (flen : Nat) : Option (Decomp Sig) :=
  match project [rj] est flen, project refs est flen with
  | some pT, some pA => some (decompRow (rj ++ zeros (flen - 1)) pT pA est)
  | _, _ => none

def sourceCritWith (rj : List Rat) (refs : List (List Rat)) (est : List Rat) (flen : Nat) : Option (Db × Db × Db) :=
  (decompWith rj refs est flen).map (sourceCrit Separation.energy)

theorem decompExact_eq_with (refs : List (List Rat)) (est : List Rat) (j flen : Nat) :
    decompExact refs est j flen = decompWith (refs.getD j []) refs est flen := rfl

theorem sourceCritExact_eq_with (refs : List (List Rat)) (est : List Rat) (j flen : Nat) :
    sourceCritExact refs est j flen = sourceCritWith (refs.getD j []) refs est flen := rfl

theorem decompWith_eq_some {rj : List Rat} {refs : List (List Rat)} {est : List Rat} {flen : Nat} {d : Decomp Sig}
    (h : decompWith rj refs est flen = some d) :
    ∃ pT pA, project [rj] est flen = some pT ∧ project refs est flen = some pA ∧
      d = decompRow (rj ++ zeros (flen - 1)) pT pA est := by
  unfold decompWith at h
  cases hT : project [rj] est flen with
  | none => simp [hT] at h
  | some pT =>
    cases hA : project refs est flen with
    | none => simp [hT, hA] at h
    | some pA =>
      simp only [hT, hA, Option.some.injEq] at h
      exact ⟨pT, pA, rfl, rfl, h.symm⟩

theorem decompWith_of_some {rj : List Rat} {refs : List (List Rat)} {est : List Rat} {flen : Nat} {pT pA : List Rat}
    (hT : project [rj] est flen = some pT) (hA : project refs est flen = some pA) :
    decompWith rj refs est flen = some (decompRow (rj ++ zeros (flen - 1)) pT pA est) := by
  simp [decompWith, hT, hA]

theorem sourceCritWith_isSome (rj : List Rat) (refs : List (List Rat)) (est : List Rat) (flen : Nat) :
    (sourceCritWith rj refs est flen).isSome = ((project [rj] est flen).isSome && (project refs est flen).isSome) := by
  unfold sourceCritWith decompWith
  cases project [rj] est flen <;> cases project refs est flen <;> simp

theorem padTo_target (rj est : List Rat) (k : Nat) (hlj : rj.length = est.length) :
    padTo (rj ++ zeros k).length est = est ++ zeros k := by
  simp only [padTo, List.length_append, hlj, zeros, List.length_replicate]
  congr 2; omega

theorem length_target (rj est : List Rat) (flen : Nat) (hflen : 1 ≤ flen) (hlj : rj.length = est.length) :
    (rj ++ zeros (flen - 1)).length = est.length + flen - 1 := by
  rw [List.length_append, length_zeros, hlj]; omega

theorem length_sePad (est : List Rat) (flen : Nat) (hflen : 1 ≤ flen) :
    (est ++ zeros (flen - 1)).length = est.length + flen - 1 := by
  rw [List.length_append, length_zeros]; omega

/-- lengths of the two projections under the well-formedness conditions -/
theorem length_projections {rj : List Rat} {refs : List (List Rat)} {est : List Rat} {flen : Nat} {pT pA : List Rat}
    (hflen : 1 ≤ flen) (hlj : rj.length = est.length) (hl0 : (refs.headD []).length = est.length) (hne : refs ≠ [])
    (hT : project [rj] est flen = some pT) (hA : project refs est flen = some pA) :
    pT.length = est.length + flen - 1 ∧ pA.length = est.length + flen - 1 := by
  have hlT := length_project _ _ _ _ hflen (by simp) hT
  have hlA := length_project _ _ _ _ hflen hne hA
  rw [List.headD_cons, hlj] at hlT
  rw [hl0] at hlA
  exact ⟨hlT, hlA⟩

/-- The model's source criteria ARE the abstract criteria of the decomposition around `exactProj`. -/
theorem sourceCritWith_eq_abstract (rj : List Rat) (refs : List (List Rat)) (est : List Rat) (flen : Nat)
    (hflen : 1 ≤ flen) (hlj : rj.length = est.length) (hl0 : (refs.headD []).length = est.length) (hne : refs ≠ [])
    (hns : (sourceCritWith rj refs est flen).isSome) :
    sourceCritWith rj refs est flen = some (sourceCrit (energyN (est.length + flen - 1))
      (decompP (exactProj (est.length + flen - 1) (basis (est.length + flen - 1) flen [rj])
          (basis (est.length + flen - 1) flen refs))
        (toFun (rj ++ zeros (flen - 1))) (toFun (est ++ zeros (flen - 1))))) := by
  obtain ⟨d, hd⟩ := Option.isSome_iff_exists.1 hns
  obtain ⟨d0, hd0, -⟩ := Option.map_eq_some_iff.1 hd
  obtain ⟨pT, pA, hT, hA, rfl⟩ := decompWith_eq_some hd0
  obtain ⟨hlT, hlA⟩ := length_projections hflen hlj hl0 hne hT hA
  have hse := length_sePad est flen hflen
  have hst := length_target rj est flen hflen hlj
  have hof : ofFun (est.length + flen - 1) (toFun (est ++ zeros (flen - 1))) = est ++ zeros (flen - 1) := by
    rw [← hse]; exact ofFun_toFun _
  unfold sourceCritWith
  rw [decompWith_of_some hT hA, Option.map_some]
  unfold decompRow
  rw [padTo_target rj est _ hlj, sourceCrit_transport _ _ _ _ _ hst hlT hlA hse]
  rw [project_eq] at hT hA
  rw [List.headD_cons, hlj] at hT
  rw [hl0] at hA
  simp only [decompP, exactProj, hof, hT, hA, Option.getD_some]

theorem decompWith_sums (rj : List Rat) (refs : List (List Rat)) (est : List Rat) (flen : Nat) (d : Decomp Sig)
    (hflen : 1 ≤ flen) (hlj : rj.length = est.length) (hl0 : (refs.headD []).length = est.length) (hne : refs ≠ [])
    (h : decompWith rj refs est flen = some d) :
    (d.sTrue + d.eSpat + d.eInterf + d.eArtif).xs = est ++ zeros (flen - 1) := by
  obtain ⟨pT, pA, hT, hA, rfl⟩ := decompWith_eq_some h
  obtain ⟨hlT, hlA⟩ := length_projections hflen hlj hl0 hne hT hA
  have hse := length_sePad est flen hflen
  have hst := length_target rj est flen hflen hlj
  rw [Mir.C19.decomp_sums_exec _ _ _ _ (by rw [hlT, hst]) (by rw [hlA, hst]), padTo_target rj est _ hlj]
  exact List.take_of_length_le (by rw [hse, hst])

/-! ### rescaling one reference / indexing a rescaled reference list -/

theorem modify_vscale_eq_zipWith (refs : List (List Rat)) (i : Nat) (c : Rat) :
    refs.modify i (vscale c) = List.zipWith vscale ((List.replicate refs.length (1 : Rat)).set i c) refs := by
  apply List.ext_getElem
  · simp
  · intro k h1 h2
    simp only [List.getElem_modify, List.getElem_zipWith, List.getElem_set, List.getElem_replicate]
    by_cases hik : i = k
    · simp [hik]
    · simp [hik, vscale_one]

theorem set_replicate_one_ne_zero (n i : Nat) (c : Rat) (hc : c ≠ 0) :
    ∀ s ∈ (List.replicate n (1 : Rat)).set i c, s ≠ 0 := by
  intro s hs
  rcases List.mem_or_eq_of_mem_set hs with hs | hs
  · rw [(List.mem_replicate.1 hs).2]; exact one_ne_zero
  · rw [hs]; exact hc

theorem getD_zipWith_vscale (cs : List Rat) (refs : List (List Rat)) (j : Nat) (hl : cs.length = refs.length) :
    (List.zipWith vscale cs refs).getD j [] = vscale (cs.getD j 1) (refs.getD j []) := by
  simp only [List.getD_eq_getElem?_getD, List.getElem?_zipWith]
  by_cases hj : j < refs.length
  · have hj' : j < cs.length := by omega
    simp [List.getElem?_eq_getElem hj, List.getElem?_eq_getElem hj']
  · have hj' : cs.length ≤ j := by omega
    simp [List.getElem?_eq_none (not_lt.1 hj), List.getElem?_eq_none hj']

/-! ### perfect estimate: the components themselves -/

theorem Rep.eq_zeros {N : ℕ} {a : Sig} (h : Rep N a 0) : a.xs = zeros N := by
  have := ofFun_toFun a.xs
  rw [h.1, h.2] at this
  rw [← this]
  apply List.ext_getElem
  · simp
  · intro i h1 h2
    simp [ofFun, zeros]

/-- decomposition of a signal whose two projections are the signal itself, against itself as target -/
theorem decompRow_self (s est : List Rat) (N : ℕ) (hs : s.length = N) (hpad : padTo s.length est = s) :
    (decompRow s s s est).eSpat.xs = zeros N ∧ (decompRow s s s est).eInterf.xs = zeros N ∧
      (decompRow s s s est).eArtif.xs = zeros N := by
  have rs := Rep.mk' s hs
  have rSpat := rs.sub rs
  have rInterf := (rs.sub rs).sub rSpat
  have rArtif := (((rs.neg).sub rSpat).sub rInterf).add rs
  have z1 : toFun s - toFun s = 0 := sub_self _
  have z2 : toFun s - toFun s - (toFun s - toFun s) = 0 := by simp
  have z3 : -toFun s - (toFun s - toFun s) - (toFun s - toFun s - (toFun s - toFun s)) + toFun s = 0 := by simp
  rw [z1] at rSpat
  rw [z2] at rInterf
  rw [z3] at rArtif
  simp only [decompRow, decomp, hpad]
  exact ⟨rSpat.eq_zeros, rInterf.eq_zeros, rArtif.eq_zeros⟩

/-! ### the permutation chosen by the exact `bss_eval_sources` -/

theorem bestPermMul_mem (n : Nat) (S : Nat → Nat → Rat) : bestPermMul n S ∈ perms (List.range n) := by
  unfold bestPermMul
  split
  · rename_i h; exact absurd h (perms_range_ne_nil n)
  · rename_i p ps h; rw [h]; exact firstMaxBy_mem _ ps p

theorem bestPermMul_max (n : Nat) (S : Nat → Nat → Rat) (q : List Nat) (hq : q.Perm (List.range n)) :
    prodFrom S 0 q ≤ prodFrom S 0 (bestPermMul n S) := by
  have hmem : q ∈ perms (List.range n) := (mem_perms_iff _ _).2 hq
  unfold bestPermMul
  split
  · rename_i h; exact absurd h (perms_range_ne_nil n)
  · rename_i p ps h; rw [h] at hmem; exact firstMaxBy_max _ ps p q hmem

/-! ### the singular branch: any solution -/

theorem solveAnyRows_sound : ∀ (n : Nat) (rows : List Row) (x : List Rat), solveAnyRows n rows = some x →
    x.length = n ∧ ∀ r ∈ rows, dot r.1 x = r.2
  | 0, rows, x, h => by
      unfold solveAnyRows at h
      by_cases hall : rows.all (fun r => r.2 = 0) = true
      · simp only [hall, if_true, Option.some.injEq] at h
        subst h
        refine ⟨rfl, fun r hr => ?_⟩
        have := List.all_eq_true.1 hall r hr
        simp at this
        simp [this]
      · simp [hall] at h
  | n + 1, rows, x, h => by
      unfold solveAnyRows at h
      cases hf : findPivot rows with
      | none =>
        simp only [hf] at h
        obtain ⟨xs, hxs, rfl⟩ := Option.map_eq_some_iff.1 h
        obtain ⟨hlen, hsat⟩ := solveAnyRows_sound n _ xs hxs
        have h0 := findPivot_none hf
        refine ⟨by simp [hlen], fun r hr => ?_⟩
        have := hsat (r.1.tail, r.2) (List.mem_map.2 ⟨r, hr, rfl⟩)
        rw [dot_row_cons, h0 r hr]
        simpa using this
      | some q =>
        obtain ⟨p, rest⟩ := q
        simp only [hf] at h
        cases hs : solveAnyRows n (rest.map (elimRow p)) with
        | none => simp [hs] at h
        | some xs =>
          simp only [hs, Option.some.injEq] at h
          subst h
          obtain ⟨hp, hmem, -⟩ := findPivot_some hf
          obtain ⟨hlen, hsat⟩ := solveAnyRows_sound n _ xs hs
          refine ⟨by simp [hlen], fun r hr => ?_⟩
          rw [dot_row_cons]
          rcases (hmem r).1 hr with rfl | hr'
          · field_simp; ring
          · have h1 := hsat (elimRow p r) (List.mem_map.2 ⟨r, hr', rfl⟩)
            rw [dot_elimRow, elimRow_snd] at h1
            have : r.head * ((p.2 - dot p.1.tail xs) / p.head) = r.head / p.head * (p.2 - dot p.1.tail xs) := by
              field_simp
            rw [this]
            linarith

/-- where plain elimination succeeds the two solvers agree -/
theorem solveAnyRows_eq_of_solveRows : ∀ (n : Nat) (rows : List Row) (x : List Rat), solveRows n rows = some x →
    solveAnyRows n rows = some x
  | 0, rows, x, h => by unfold solveRows at h; unfold solveAnyRows; exact h
  | n + 1, rows, x, h => by
      obtain ⟨p, rest, xs, hf, hs, rfl⟩ := solveRows_succ_some h
      unfold solveAnyRows
      simp only [hf, solveAnyRows_eq_of_solveRows n _ xs hs]

theorem mapM_option_congr {α β : Type} (f g : α → Option β) : ∀ l : List α, (∀ a ∈ l, f a = g a) →
    l.mapM f = l.mapM g
  | [], _ => rfl
  | a :: l, h => by
      simp [List.mapM_cons, h a (by simp), mapM_option_congr f g l (fun b hb => h b (by simp [hb]))]

/-- `selectExact` only looks at the criteria of the pairs `(e, j)` with `e, j < nsrc` -/
theorem selectExact_congr (nsrc sirIdx : Nat) (crit crit' : Nat → Nat → Option (List Db)) (cp : Bool)
    (h : ∀ e < nsrc, ∀ j < nsrc, crit' e j = crit e j) :
    selectExact nsrc sirIdx crit' cp = selectExact nsrc sirIdx crit cp := by
  have h1 : ((List.range nsrc).mapM fun e => (List.range nsrc).mapM fun j => crit' e j) =
      ((List.range nsrc).mapM fun e => (List.range nsrc).mapM fun j => crit e j) := by
    apply mapM_option_congr
    intro e he
    apply mapM_option_congr
    intro j hj
    exact h e (List.mem_range.1 he) j (List.mem_range.1 hj)
  have h2 : ((List.range nsrc).mapM fun j => crit' j j) = ((List.range nsrc).mapM fun j => crit j j) := by
    apply mapM_option_congr
    intro j hj
    exact h j (List.mem_range.1 hj) j (List.mem_range.1 hj)
  unfold selectExact
  rw [h1, h2]

/-- well-formed input of `bss_eval_sources`: `flen ≥ 1`, as many estimates as references, all of `n` samples -/
structure WFAll (refs ests : List (List Rat)) (flen n : Nat) : Prop where
  flen_pos : 1 ≤ flen
  refs_len : ∀ r ∈ refs, r.length = n
  ests_len : ∀ e ∈ ests, e.length = n
  same : ests.length = refs.length

theorem WFAll.wf {refs ests : List (List Rat)} {flen n : Nat} (h : WFAll refs ests flen n) {e j : Nat}
    (he : e < ests.length) (hj : j < ests.length) : WF refs (ests.getD e []) j flen := by
  have hlen : (ests.getD e []).length = n := by
    rw [List.getD_eq_getElem?_getD, List.getElem?_eq_getElem he]
    exact h.ests_len _ (List.getElem_mem he)
  exact ⟨h.flen_pos, fun r hr => by rw [hlen, h.refs_len r hr], by rw [← h.same]; exact hj⟩

theorem getD_modify (l : List (List Rat)) (f : List Rat → List Rat) (k e : Nat) (he : e < l.length) :
    (l.modify k f).getD e [] = if k = e then f (l.getD e []) else l.getD e [] := by
  rw [List.getD_eq_getElem?_getD, List.getD_eq_getElem?_getD, List.getElem?_eq_getElem he,
    List.getElem?_eq_getElem (by simpa using he)]
  simp [List.getElem_modify]

end Mir.SeparationLS
