import MirProofs.Lemmas.SeparationLS
/-!
  The singular branch of the exact least-squares model is TOTAL.

  * `solveAnyRows` (Gaussian elimination with free unknowns set to 0) succeeds on every CONSISTENT system, whatever
    its shape (`solveAnyRows_complete`; with `solveAnyRows_sound`: it succeeds exactly on the consistent systems);
  * the normal equations `G y = D` of ANY finite family `B` of vectors and any target `se` are consistent
    (`normal_equations_solvable`: existence of the orthogonal projection on the span of `B`, by induction on `B` —
    Gram–Schmidt: project the new vector on the span of the others, then either the residual vanishes and the new
    vector adds nothing, or its squared norm is a non-zero rational to divide by);
  * hence `solveAny? (gram B) (dots B se)`, `projectOnAny`, `projectAny`, `projectImagesAny` always return.
-/
namespace Mir.SeparationLS
open Mir.Separation

/-! ### elimination succeeds on consistent systems -/

/-- COMPLETENESS of `solveAnyRows`: a system that has a solution with `n` entries is solved. -/
theorem solveAnyRows_complete : ∀ (n : Nat) (rows : List Row) (y : List Rat), y.length = n →
    (∀ r ∈ rows, dot r.1 y = r.2) → (solveAnyRows n rows).isSome
  | 0, rows, y, hy, hsat => by
      unfold solveAnyRows
      have hy0 : y = [] := List.length_eq_zero_iff.1 hy
      subst hy0
      have hall : rows.all (fun r => r.2 = 0) = true := by
        rw [List.all_eq_true]
        intro r hr
        have := hsat r hr
        simp only [dot_nil_right] at this
        simp [← this]
      simp [hall]
  | n + 1, rows, y, hy, hsat => by
      obtain ⟨y0, ys, rfl⟩ : ∃ y0 ys, y = y0 :: ys := by
        cases y with
        | nil => simp at hy
        | cons a t => exact ⟨a, t, rfl⟩
      have hys : ys.length = n := by simpa using hy
      unfold solveAnyRows
      cases hf : findPivot rows with
      | none =>
        simp only [Option.isSome_map]
        apply solveAnyRows_complete n _ ys hys
        intro r hr
        obtain ⟨r0, hr0, rfl⟩ := List.mem_map.1 hr
        have h0 := findPivot_none hf r0 hr0
        have := hsat r0 hr0
        rw [dot_row_cons, h0] at this
        simpa using this
      | some q =>
        obtain ⟨p, rest⟩ := q
        obtain ⟨hp, hmem, -⟩ := findPivot_some hf
        have hrec : (solveAnyRows n (rest.map (elimRow p))).isSome := by
          apply solveAnyRows_complete n _ ys hys
          intro r hr
          obtain ⟨r0, hr0, rfl⟩ := List.mem_map.1 hr
          have h1 := hsat r0 ((hmem r0).2 (Or.inr hr0))
          have h2 := hsat p ((hmem p).2 (Or.inl rfl))
          rw [dot_row_cons] at h1 h2
          rw [dot_elimRow, elimRow_snd]
          have e : r0.head / p.head * p.head = r0.head := by field_simp
          have h2' : r0.head / p.head * (p.head * y0 + dot p.1.tail ys) = r0.head / p.head * p.2 := by rw [h2]
          have h3 : r0.head / p.head * (p.head * y0 + dot p.1.tail ys)
              = r0.head * y0 + r0.head / p.head * dot p.1.tail ys := by
            rw [mul_add, ← mul_assoc, e]
          linarith
        obtain ⟨xs, hxs⟩ := Option.isSome_iff_exists.1 hrec
        simp [hxs]

/-- `solveAnyRows` succeeds exactly on the consistent systems. -/
theorem solveAnyRows_isSome_iff (n : Nat) (rows : List Row) :
    (solveAnyRows n rows).isSome ↔ ∃ y : List Rat, y.length = n ∧ ∀ r ∈ rows, dot r.1 y = r.2 := by
  constructor
  · intro h
    obtain ⟨x, hx⟩ := Option.isSome_iff_exists.1 h
    exact ⟨x, solveAnyRows_sound n rows x hx⟩
  · rintro ⟨y, hy, hsat⟩
    exact solveAnyRows_complete n rows y hy hsat

/-! ### the normal equations are consistent -/

/-- a vector of squared norm 0 is orthogonal to everything (all its entries are 0) -/
theorem dot_eq_zero_of_self : ∀ (v w : List Rat), dot v v = 0 → dot v w = 0
  | [], w, _ => by simp
  | a :: as, [], _ => by simp
  | a :: as, b :: bs, h => by
      simp only [dot_cons_cons] at h ⊢
      have h1 := dot_self_nonneg as
      have h2 := mul_self_nonneg a
      have ha : a * a = 0 := by linarith
      have has : dot as as = 0 := by linarith
      have ha0 : a = 0 := mul_self_eq_zero.1 ha
      rw [ha0, dot_eq_zero_of_self as bs has]
      ring

/-- `⟨u, Σ (y + k z)_l B_l⟩ = ⟨u, Σ y_l B_l⟩ + k ⟨u, Σ z_l B_l⟩` (no length conditions: through `dots`) -/
theorem dot_lincomb_padd (u : List Rat) (B : List (List Rat)) (y z : List Rat) (k : Rat) :
    dot u (lincomb (padd y (vscale k z)) B) = dot u (lincomb y B) + k * dot u (lincomb z B) := by
  rw [← dot_dots_eq, ← dot_dots_eq, ← dot_dots_eq, dot_padd_right, dot_vscale_right]

/-- **the normal equations always have a solution**: for every finite family `B` and every target `se` there are
    coefficients `y` (one per vector) with `⟨u, Σ y_l B_l⟩ = ⟨u, se⟩` for every `u ∈ B` — the orthogonal projection
    on the span exists, also when `B` is linearly dependent. -/
theorem normal_equations_solvable : ∀ (B : List (List Rat)) (se : List Rat),
    ∃ y : List Rat, y.length = B.length ∧ ∀ u ∈ B, dot u (lincomb y B) = dot u se
  | [], se => ⟨[], rfl, by simp⟩
  | b :: B', se => by
      obtain ⟨z, hz, hzs⟩ := normal_equations_solvable B' b
      obtain ⟨y', hy', hys⟩ := normal_equations_solvable B' se
      -- ρ = |b − p'|², with p' = Σ z_l B'_l the projection of b on the span of B'
      have hpp : dot (lincomb z B') (lincomb z B') = dot b (lincomb z B') :=
        dot_lincomb_congr _ _ z B' (fun u hu => by rw [dot_comm _ u, hzs u hu, dot_comm])
      have hrr : dot (vsub b (lincomb z B')) (vsub b (lincomb z B')) = dot b b - dot b (lincomb z B') := by
        simp only [dot_vsub_left, dot_vsub_right]
        rw [hpp, dot_comm (lincomb z B') b]
        ring
      -- the value of an equation at the candidate `c0 :: (y' − c0 z)`
      have hval : ∀ (c0 : Rat) (u : List Rat),
          dot u (lincomb (c0 :: padd y' (vscale (-c0) z)) (b :: B')) =
            dot u (lincomb y' B') + c0 * (dot u b - dot u (lincomb z B')) := by
        intro c0 u
        rw [lincomb_cons_cons, dot_padd_right, dot_vscale_right, dot_lincomb_padd]
        ring
      have hlen : ∀ c0 : Rat, (c0 :: padd y' (vscale (-c0) z)).length = (b :: B').length := by
        intro c0
        simp [length_padd, vscale, hy', hz]
      have htail : ∀ (c0 : Rat), ∀ u ∈ B',
          dot u (lincomb (c0 :: padd y' (vscale (-c0) z)) (b :: B')) = dot u se := by
        intro c0 u hu
        rw [hval, hys u hu, hzs u hu]
        ring
      by_cases hρ : dot b b - dot b (lincomb z B') = 0
      · -- b coincides with its projection: it adds nothing
        refine ⟨0 :: padd y' (vscale (-0) z), hlen 0, ?_⟩
        intro u hu
        rcases List.mem_cons.1 hu with rfl | hu'
        · rw [hval]
          have hr0 : ∀ w, dot u w = dot (lincomb z B') w := by
            intro w
            have := dot_eq_zero_of_self (vsub u (lincomb z B')) w (by rw [hrr, hρ])
            rw [dot_vsub_left] at this
            linarith
          have h1 : dot (lincomb y' B') (lincomb z B') = dot se (lincomb z B') :=
            dot_lincomb_congr _ _ z B' (fun v hv => by rw [dot_comm _ v, hys v hv, dot_comm])
          rw [hr0 (lincomb y' B'), hr0 se, dot_comm (lincomb z B') (lincomb y' B'), h1, dot_comm]
          ring
        · exact htail 0 u hu'
      · refine ⟨(dot b se - dot b (lincomb y' B')) / (dot b b - dot b (lincomb z B')) ::
          padd y' (vscale (-((dot b se - dot b (lincomb y' B')) / (dot b b - dot b (lincomb z B')))) z),
          hlen _, ?_⟩
        intro u hu
        rcases List.mem_cons.1 hu with rfl | hu'
        · rw [hval]
          field_simp
          ring
        · exact htail _ u hu'

/-- the system handed to the solver by `projectOnAny` -/
theorem solveAny_gram_eq (B : List (List Rat)) (se : List Rat) :
    solveAny? (gram B) (dots B se) = solveAnyRows B.length (normalRows B se) := by
  simp [solveAny?, gram, dots, normalRows, List.zip_map']

/-- **`solveAny?` always succeeds on normal equations.** -/
theorem solveAny_gram_isSome (B : List (List Rat)) (se : List Rat) :
    (solveAny? (gram B) (dots B se)).isSome := by
  rw [solveAny_gram_eq]
  obtain ⟨y, hy, hsat⟩ := normal_equations_solvable B se
  apply solveAnyRows_complete _ _ y hy
  intro r hr
  obtain ⟨u, hu, rfl⟩ := List.mem_map.1 hr
  simp only
  rw [dot_dots_eq, hsat u hu, dot_comm]

theorem projectOnAny_isSome (B : List (List Rat)) (se : List Rat) : (projectOnAny B se).isSome := by
  unfold projectOnAny
  rw [Option.isSome_map]
  exact solveAny_gram_isSome B se

/-- what `projectOnAny` returns: a (zero-padded) combination of `B` whose residual is orthogonal to `B` -/
theorem projectOnAny_spec (B : List (List Rat)) (se : List Rat) :
    ∃ x : List Rat, x.length = B.length ∧ (∀ u ∈ B, dot u (lincomb x B) = dot u se) ∧
      projectOnAny B se = some (padd (lincomb x B) (zeros se.length)) := by
  obtain ⟨x, hx⟩ := Option.isSome_iff_exists.1 (solveAny_gram_isSome B se)
  have hx' := hx
  rw [solveAny_gram_eq] at hx'
  obtain ⟨hlen, hsat⟩ := solveAnyRows_sound _ _ _ hx'
  refine ⟨x, hlen, ?_, by simp [projectOnAny, hx]⟩
  intro u hu
  have := hsat _ (List.mem_map.2 ⟨u, hu, rfl⟩)
  simp only [dot_dots_eq] at this
  rw [this, dot_comm]

/-- any value `projectOnAny` returns is of that form -/
theorem projectOnAny_eq_some {B : List (List Rat)} {se p : List Rat} (h : projectOnAny B se = some p) :
    ∃ x : List Rat, x.length = B.length ∧ (∀ u ∈ B, dot u (lincomb x B) = dot u se) ∧
      p = padd (lincomb x B) (zeros se.length) := by
  obtain ⟨x, hx, hsat, hp⟩ := projectOnAny_spec B se
  rw [hp, Option.some.injEq] at h
  exact ⟨x, hx, hsat, h.symm⟩

/-- LEAST SQUARES through the singular branch: no combination of `B` is closer to `se` than the returned signal -/
theorem projectOnAny_least_squares (B : List (List Rat)) (se p : List Rat) (h : projectOnAny B se = some p)
    (c : List Rat) :
    dot (vsub se p) (vsub se p) ≤ dot (vsub se (lincomb c B)) (vsub se (lincomb c B)) := by
  obtain ⟨x, -, h2, rfl⟩ := projectOnAny_eq_some h
  have hp : ∀ w, dot (padd (lincomb x B) (zeros se.length)) w = dot (lincomb x B) w := by
    intro w; rw [dot_padd_left, dot_zeros_left, add_zero]
  have hcong : ∀ y, dot se (lincomb y B) = dot (lincomb x B) (lincomb y B) := fun y =>
    dot_lincomb_congr _ _ y B (fun u hu => by rw [dot_comm se u, dot_comm (lincomb x B) u, h2 u hu])
  have e1 := hcong x
  have e2 := hcong c
  have hnn := dot_self_nonneg (vsub (lincomb x B) (lincomb c B))
  simp only [dot_vsub_left, dot_vsub_right] at hnn ⊢
  rw [hp, hp, dot_comm se (padd _ _), hp, dot_comm (lincomb x B) (padd _ _), hp]
  have c1 : dot (lincomb x B) se = dot se (lincomb x B) := dot_comm _ _
  have c2 : dot (lincomb c B) se = dot se (lincomb c B) := dot_comm _ _
  have c3 : dot (lincomb c B) (lincomb x B) = dot (lincomb x B) (lincomb c B) := dot_comm _ _
  rw [c1, c2]
  rw [c3] at hnn
  linarith

/-! ### the projected signal does not depend on which solution of the normal equations is used -/

/-- two solutions of the normal equations give signals that no vector can tell apart -/
theorem normal_solutions_same_signal (B : List (List Rat)) (se x x' : List Rat)
    (hx : ∀ u ∈ B, dot u (lincomb x B) = dot u se) (hx' : ∀ u ∈ B, dot u (lincomb x' B) = dot u se) (w : List Rat) :
    dot (lincomb x B) w = dot (lincomb x' B) w := by
  have hd : ∀ u ∈ B, dot (vsub (lincomb x B) (lincomb x' B)) u = dot [] u := by
    intro u hu
    rw [dot_vsub_left, dot_comm _ u, dot_comm _ u, hx u hu, hx' u hu]
    simp
  have h0 : ∀ y, dot (vsub (lincomb x B) (lincomb x' B)) (lincomb y B) = 0 := by
    intro y
    rw [dot_lincomb_congr _ _ y B hd]
    simp
  have hself : dot (vsub (lincomb x B) (lincomb x' B)) (vsub (lincomb x B) (lincomb x' B)) = 0 := by
    rw [dot_vsub_right, h0 x, h0 x']
    ring
  have := dot_eq_zero_of_self _ w hself
  rw [dot_vsub_left] at this
  linarith

/-- lists of one length that every vector pairs equally with are equal -/
theorem eq_of_dot_eq : ∀ (a b : List Rat), a.length = b.length → (∀ w, dot a w = dot b w) → a = b
  | [], [], _, _ => rfl
  | [], _ :: _, h, _ => by simp at h
  | _ :: _, [], h, _ => by simp at h
  | a :: as, b :: bs, hl, h => by
      have h1 := h [1]
      simp only [dot_cons_cons, dot_nil_right, mul_one, add_zero] at h1
      have h2 : ∀ w, dot as w = dot bs w := by
        intro w
        have := h (0 :: w)
        simpa using this
      rw [h1, eq_of_dot_eq as bs (by simpa using hl) h2]

/-- … hence, for vectors of one common length, literally the same signal -/
theorem normal_solutions_eq (N : Nat) (B : List (List Rat)) (hB : ∀ b ∈ B, b.length = N) (se x x' : List Rat)
    (hlx : x.length = B.length) (hlx' : x'.length = B.length)
    (hx : ∀ u ∈ B, dot u (lincomb x B) = dot u se) (hx' : ∀ u ∈ B, dot u (lincomb x' B) = dot u se) :
    lincomb x B = lincomb x' B := by
  apply eq_of_dot_eq _ _ _ (normal_solutions_same_signal B se x x' hx hx')
  cases B with
  | nil => simp
  | cons b bs =>
    have hx0 : x ≠ [] := by intro h; rw [h] at hlx; simp at hlx
    have hx0' : x' ≠ [] := by intro h; rw [h] at hlx'; simp at hlx'
    rw [length_lincomb N x _ hB hx0 (by simp), length_lincomb N x' _ hB hx0' (by simp)]

/-- **any solution will do**: whatever coefficient vector `c` solves the normal equations (for instance the
    minimum-norm one `np.linalg.lstsq` returns), the combination `Σ c_l B_l` is the signal `projectOnAny` returns. -/
theorem projectOnAny_eq_of_solution (N : Nat) (B : List (List Rat)) (hB : ∀ b ∈ B, b.length = N) (se c : List Rat)
    (hc : c.length = B.length) (hsol : ∀ u ∈ B, dot u (lincomb c B) = dot u se) :
    projectOnAny B se = some (padd (lincomb c B) (zeros se.length)) := by
  obtain ⟨x, hx, hsat, hp⟩ := projectOnAny_spec B se
  rw [hp, normal_solutions_eq N B hB se x c hx hc hsat hsol]

theorem mapM_isSome_of_forall {α β : Type} (f : α → Option β) : ∀ l : List α, (∀ a ∈ l, (f a).isSome) →
    (l.mapM f).isSome
  | [], _ => rfl
  | a :: t, h => by
      obtain ⟨b, hb⟩ := Option.isSome_iff_exists.1 (h a (by simp))
      obtain ⟨bs, hbs⟩ := Option.isSome_iff_exists.1
        (mapM_isSome_of_forall f t (fun x hx => h x (by simp [hx])))
      simp [List.mapM_cons, hb, hbs]

end Mir.SeparationLS
