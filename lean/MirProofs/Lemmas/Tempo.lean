import MirModel.Tempo
import MirProofs.Lemmas.MiscStats

namespace Mir.Tempo
open Mir.MiscStats

theorem validateTempi_cases (t : List Rat) (b : Bool) :
    validateTempi t b = .ok () ∨ validateTempi t b = .error .valueError := by
  unfold validateTempi
  split
  · exact Or.inr rfl
  · split
    · exact Or.inr rfl
    · split
      · exact Or.inr rfl
      · exact Or.inl rfl

theorem validateTempi_ok_iff (t : List Rat) (b : Bool) :
    validateTempi t b = .ok () ↔
      ∃ t0 t1, t = [t0, t1] ∧ 0 ≤ t0 ∧ 0 ≤ t1 ∧ (b = true → ¬ (t0 = 0 ∧ t1 = 0)) := by
  rcases t with _ | ⟨t0, _ | ⟨t1, _ | ⟨t2, tt⟩⟩⟩
  · simp [validateTempi]
  · simp [validateTempi]
  · unfold validateTempi
    simp only [List.length_cons, List.length_nil, ne_eq, not_true_eq_false, if_false, List.any_cons, List.any_nil,
      Bool.or_false, List.all_cons, List.all_nil, Bool.and_true, List.cons.injEq, and_true]
    constructor
    · intro h
      split at h
      · cases h
      · rename_i h1
        split at h
        · cases h
        · rename_i h2
          simp only [Bool.or_eq_true, decide_eq_true_eq, not_or, not_lt] at h1
          simp only [Bool.and_eq_true, decide_eq_true_eq, not_and] at h2
          exact ⟨t0, t1, ⟨rfl, rfl⟩, h1.1, h1.2, fun hb hz => h2 hb hz.1 hz.2⟩
    · rintro ⟨a, c, ⟨rfl, rfl⟩, h0, h1, hb⟩
      have e1 : ¬ ((decide (t0 < 0) || decide (t1 < 0)) = true) := by
        simp only [Bool.or_eq_true, decide_eq_true_eq, not_or, not_lt]; exact ⟨h0, h1⟩
      have e2 : ¬ ((b && (decide (t0 = 0) && decide (t1 = 0))) = true) := by
        simp only [Bool.and_eq_true, decide_eq_true_eq, not_and]
        intro hb' hz0 hz1; exact hb hb' ⟨hz0, hz1⟩
      rw [if_neg e1, if_neg e2]
  · simp [validateTempi]

theorem validate_cases (ref : List Rat) (w : Rat) (est : List Rat) :
    validate ref w est = .ok () ∨ validate ref w est = .error .valueError := by
  unfold validate
  rcases validateTempi_cases ref true with h | h <;> rcases validateTempi_cases est false with h' | h' <;>
    simp only [h, h', bind, Except.bind]
  · split
    · exact Or.inr rfl
    · exact Or.inl rfl
  all_goals simp

theorem validate_ok_iff (ref : List Rat) (w : Rat) (est : List Rat) :
    validate ref w est = .ok () ↔
      validateTempi ref true = .ok () ∧ validateTempi est false = .ok () ∧ 0 ≤ w ∧ w ≤ 1 := by
  unfold validate
  rcases validateTempi_cases ref true with h | h <;> rcases validateTempi_cases est false with h' | h' <;>
    simp only [h, h', bind, Except.bind]
  · by_cases hw : w < 0 ∨ 1 < w
    · simp only [hw, if_true]
      constructor
      · intro hh; cases hh
      · rintro ⟨_, _, h1, h2⟩; rcases hw with hw | hw <;> linarith
    · simp only [hw, if_false, true_and]
      rw [not_or, not_lt, not_lt] at hw
      exact ⟨fun _ => hw, fun _ => trivial⟩
  all_goals simp

/-- the body of `detection` once validation has passed -/
theorem detection_of_valid {r0 r1 e0 e1 w tol : Rat} (hv : validate [r0, r1] w [e0, e1] = .ok ())
    (ht0 : 0 ≤ tol) (ht1 : tol ≤ 1) :
    detection [r0, r1] w [e0, e1] tol =
      .ok (w * b2r (hit r0 e0 e1 tol) + (1 - w) * b2r (hit r1 e0 e1 tol),
           hit r0 e0 e1 tol || hit r1 e0 e1 tol, hit r0 e0 e1 tol && hit r1 e0 e1 tol) := by
  have : ¬ (tol < 0 ∨ 1 < tol) := by rw [not_or, not_lt, not_lt]; exact ⟨ht0, ht1⟩
  simp [detection, hv, this, bind, Except.bind, pure, Except.pure]

/-- shape of every successful call -/
theorem detection_ok_inv {ref est : List Rat} {w tol : Rat} {s : Rat × Bool × Bool}
    (h : detection ref w est tol = .ok s) :
    ∃ r0 r1 e0 e1, ref = [r0, r1] ∧ est = [e0, e1] ∧ validate [r0, r1] w [e0, e1] = .ok () ∧
      0 ≤ tol ∧ tol ≤ 1 ∧ 0 ≤ w ∧ w ≤ 1 := by
  rcases validate_cases ref w est with hv | hv
  · have hv' := (validate_ok_iff ref w est).1 hv
    obtain ⟨r0, r1, rfl, -⟩ := (validateTempi_ok_iff ref true).1 hv'.1
    obtain ⟨e0, e1, rfl, -⟩ := (validateTempi_ok_iff est false).1 hv'.2.1
    by_cases ht : tol < 0 ∨ 1 < tol
    · simp [detection, hv, ht, bind, Except.bind] at h
    · rw [not_or, not_lt, not_lt] at ht
      exact ⟨r0, r1, e0, e1, rfl, rfl, hv, ht.1, ht.2, hv'.2.2.1, hv'.2.2.2⟩
  · simp [detection, hv, bind, Except.bind] at h

theorem b2r_nonneg (b : Bool) : 0 ≤ b2r b := by cases b <;> simp [b2r]
theorem b2r_le_one (b : Bool) : b2r b ≤ 1 := by cases b <;> simp [b2r]
theorem b2r_mono {a b : Bool} (h : a = true → b = true) : b2r a ≤ b2r b := by
  cases a <;> cases b <;> simp [b2r] at h ⊢

/-- the documented hit criterion -/
theorem hit_iff {r : Rat} (hr : 0 < r) (e0 e1 tol : Rat) :
    hit r e0 e1 tol = true ↔ |e0 - r| ≤ tol * r ∨ |e1 - r| ≤ tol * r := by
  unfold hit relErr
  simp only [hr, if_true, decide_eq_true_eq, min_le_iff, absQ_eq_abs]
  rw [div_le_iff₀ hr, div_le_iff₀ hr, abs_sub_comm r e0, abs_sub_comm r e1]

theorem hit_zero_ref (e0 e1 tol : Rat) : hit 0 e0 e1 tol = false := by simp [hit]

theorem hit_mono {r e0 e1 tol tol' : Rat} (h : tol ≤ tol') : hit r e0 e1 tol = true → hit r e0 e1 tol' = true := by
  unfold hit
  split
  · simp only [decide_eq_true_eq]; exact fun h' => le_trans h' h
  · simp

theorem hit_est_swap (r e0 e1 tol : Rat) : hit r e1 e0 tol = hit r e0 e1 tol := by
  unfold hit relErr; rw [min_comm]

theorem hit_self_left {r : Rat} (hr : 0 < r) (e1 : Rat) {tol : Rat} (ht : 0 ≤ tol) : hit r r e1 tol = true := by
  rw [hit_iff hr]; left; simp; positivity

theorem hit_self_right {r : Rat} (hr : 0 < r) (e0 : Rat) {tol : Rat} (ht : 0 ≤ tol) : hit r e0 r tol = true := by
  rw [hit_iff hr]; right; simp; positivity

end Mir.Tempo
