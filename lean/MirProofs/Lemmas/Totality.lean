import MirModel.Basic

/-!
  Generic plumbing for the task-level C14 theorems ("valid input is always scored; nothing but the documented
  exception class can come out"):

  * `Ok x`        — `x` returns a value;
  * `Raises S x`  — every exception `x` can raise is in the class set `S`;
  * closure of both under `>>=`, `pure`, `if`, `Except.map`, `List.mapM`.
-/
namespace Mir.Totality

/-- `x` returns a value (does not raise) -/
def Ok {α : Type} (x : Py α) : Prop := ∃ v, x = .ok v

/-- every exception `x` can raise belongs to `S` -/
def Raises {α : Type} (S : PyErr → Prop) (x : Py α) : Prop := ∀ e, x = .error e → S e

/-- the one-class sets used below -/
def VE : PyErr → Prop := fun e => e = .valueError
def VEorIE : PyErr → Prop := fun e => e = .valueError ∨ e = .indexError
def VEorZD : PyErr → Prop := fun e => e = .valueError ∨ e = .zeroDivision
def Never : PyErr → Prop := fun _ => False

theorem bind_ok_eq {α β : Type} (a : α) (k : α → Py β) : ((Except.ok a : Py α) >>= k) = k a := rfl
theorem bind_error_eq {α β : Type} (e : PyErr) (k : α → Py β) : ((Except.error e : Py α) >>= k) = .error e := rfl
theorem pure_eq_ok {α : Type} (a : α) : (pure a : Py α) = .ok a := rfl

theorem ok_ok {α : Type} (a : α) : Ok (Except.ok a : Py α) := ⟨a, rfl⟩
theorem ok_pure {α : Type} (a : α) : Ok (pure a : Py α) := ⟨a, rfl⟩

theorem not_ok_error {α : Type} (e : PyErr) : ¬ Ok (Except.error e : Py α) := by
  rintro ⟨v, h⟩; cases h

theorem ok_bind {α β : Type} {x : Py α} {f : α → Py β} (hx : Ok x) (hf : ∀ a, x = .ok a → Ok (f a)) :
    Ok (x >>= f) := by
  obtain ⟨a, ha⟩ := hx
  subst ha
  exact hf a rfl

theorem ok_map {α β : Type} {x : Py α} (g : α → β) (hx : Ok x) : Ok (x.map g) := by
  obtain ⟨a, ha⟩ := hx
  subst ha
  exact ⟨g a, rfl⟩

theorem ok_of_map {α β : Type} {x : Py α} {g : α → β} (hx : Ok (x.map g)) : Ok x := by
  cases x with
  | ok a => exact ⟨a, rfl⟩
  | error e => obtain ⟨v, hv⟩ := hx; cases hv

theorem raises_ok {α : Type} (S : PyErr → Prop) (a : α) : Raises S (Except.ok a : Py α) := by
  intro e h; cases h

theorem raises_pure {α : Type} (S : PyErr → Prop) (a : α) : Raises S (pure a : Py α) := by
  intro e h; cases h

theorem raises_error {α : Type} {S : PyErr → Prop} {e : PyErr} (h : S e) : Raises S (Except.error e : Py α) := by
  intro e' h'; cases h'; exact h

theorem raises_throw {α : Type} {S : PyErr → Prop} {e : PyErr} (h : S e) : Raises S (throw e : Py α) :=
  raises_error h

theorem raises_of_ok {α : Type} (S : PyErr → Prop) {x : Py α} (h : Ok x) : Raises S x := by
  obtain ⟨a, ha⟩ := h
  subst ha
  exact raises_ok S a

theorem raises_mono {α : Type} {S S' : PyErr → Prop} {x : Py α} (h : Raises S x) (hs : ∀ e, S e → S' e) :
    Raises S' x := fun e he => hs e (h e he)

theorem raises_bind {α β : Type} {S : PyErr → Prop} {x : Py α} {f : α → Py β} (hx : Raises S x)
    (hf : ∀ a, x = .ok a → Raises S (f a)) : Raises S (x >>= f) := by
  cases x with
  | error e => intro e' h'; cases h'; exact hx e rfl
  | ok a => exact hf a rfl

theorem raises_map {α β : Type} {S : PyErr → Prop} {x : Py α} (g : α → β) (hx : Raises S x) :
    Raises S (x.map g) := by
  cases x with
  | error e => intro e' h'; cases h'; exact hx e rfl
  | ok a => intro e' h'; cases h'

theorem raises_ite {α : Type} {S : PyErr → Prop} {c : Prop} [Decidable c] {x y : Py α}
    (hx : c → Raises S x) (hy : ¬ c → Raises S y) : Raises S (if c then x else y) := by
  split
  · exact hx ‹_›
  · exact hy ‹_›

theorem raises_mapM {α β : Type} {S : PyErr → Prop} (f : α → Py β) (xs : List α)
    (h : ∀ x ∈ xs, Raises S (f x)) : Raises S (xs.mapM f) := by
  induction xs with
  | nil => exact raises_pure S _
  | cons x xs ih =>
    rw [List.mapM_cons]
    refine raises_bind (h x (by simp)) fun a _ => ?_
    refine raises_bind (ih fun y hy => h y (by simp [hy])) fun b _ => ?_
    exact raises_pure S _

theorem ok_mapM {α β : Type} (f : α → Py β) (xs : List α) (h : ∀ x ∈ xs, Ok (f x)) : Ok (xs.mapM f) := by
  induction xs with
  | nil => exact ok_pure _
  | cons x xs ih =>
    rw [List.mapM_cons]
    refine ok_bind (h x (by simp)) fun a _ => ?_
    refine ok_bind (ih fun y hy => h y (by simp [hy])) fun b _ => ?_
    exact ok_pure _

/-- a `mapM` that fails on its first element fails the same way -/
theorem mapM_head_error {α β : Type} (f : α → Py β) (x : α) (xs : List α) (e : PyErr) (h : f x = .error e) :
    (x :: xs).mapM f = .error e := by
  rw [List.mapM_cons, h]; rfl

/-- the two readings of "only `ValueError`" -/
theorem raises_ve_iff {α : Type} (x : Py α) : Raises VE x ↔ ((∃ v, x = .ok v) ∨ x = .error .valueError) := by
  constructor
  · intro h
    cases x with
    | ok a => exact Or.inl ⟨a, rfl⟩
    | error e => have := h e rfl; unfold VE at this; subst this; exact Or.inr rfl
  · rintro (⟨v, rfl⟩ | h)
    · exact raises_ok _ _
    · rw [h]; exact raises_error rfl

theorem raises_veie_iff {α : Type} (x : Py α) :
    Raises VEorIE x ↔ ((∃ v, x = .ok v) ∨ x = .error .valueError ∨ x = .error .indexError) := by
  constructor
  · intro h
    cases x with
    | ok a => exact Or.inl ⟨a, rfl⟩
    | error e =>
      rcases h e rfl with h | h
      · subst h; exact Or.inr (Or.inl rfl)
      · subst h; exact Or.inr (Or.inr rfl)
  · rintro (⟨v, rfl⟩ | h | h)
    · exact raises_ok _ _
    · rw [h]; exact raises_error (Or.inl rfl)
    · rw [h]; exact raises_error (Or.inr rfl)

theorem raises_vezd_iff {α : Type} (x : Py α) :
    Raises VEorZD x ↔ ((∃ v, x = .ok v) ∨ x = .error .valueError ∨ x = .error .zeroDivision) := by
  constructor
  · intro h
    cases x with
    | ok a => exact Or.inl ⟨a, rfl⟩
    | error e =>
      rcases h e rfl with h | h
      · subst h; exact Or.inr (Or.inl rfl)
      · subst h; exact Or.inr (Or.inr rfl)
  · rintro (⟨v, rfl⟩ | h | h)
    · exact raises_ok _ _
    · rw [h]; exact raises_error (Or.inl rfl)
    · rw [h]; exact raises_error (Or.inr rfl)

/-- a computation that cannot raise at all returns a value -/
theorem ok_of_raises_never {α : Type} {x : Py α} (h : Raises Never x) : Ok x := by
  cases x with
  | ok a => exact ⟨a, rfl⟩
  | error e => exact (h e rfl).elim

/-- a `Unit` validator that is ok-or-`ValueError` -/
theorem raises_ve_of_cases {x : Py Unit} (h : x = .ok () ∨ x = .error .valueError) : Raises VE x := by
  rcases h with h | h
  · rw [h]; exact raises_ok _ _
  · rw [h]; exact raises_error rfl

end Mir.Totality
