import MirModel.Transcription
import MirProofs.Lemmas.HitMetric
import Mathlib.Algebra.Order.Field.Basic
import Mathlib.Algebra.Order.Field.Rat
import Mathlib.Tactic.Linarith
import Mathlib.Tactic.Ring
import Mathlib.Tactic.FieldSimp
import Mathlib.Tactic.Positivity
import Mathlib.Tactic.LinearCombination

/-! Helper lemmas for the transcription slice (criteria, matching bridge, overlap ratio, velocity filter). -/

namespace Mir

/-! ### additions to the generic hit-metric theory -/

/-- `hitCount_mono` with the implication required only for items that occur in the lists -/
theorem hitCount_mono_mem {α β : Type} {feas feas' : α → β → Bool} (ref : List α) (est : List β)
    (h : ∀ r ∈ ref, ∀ e ∈ est, feas r e = true → feas' r e = true) :
    hitCount feas ref est ≤ hitCount feas' ref est := by
  apply max_mono
  rintro ⟨i, j⟩ hm
  obtain ⟨r, e, hr, he, hf⟩ := (mem_hitGraph ..).1 hm
  exact (mem_hitGraph ..).2 ⟨r, e, hr, he, h r (List.mem_of_getElem? hr) e (List.mem_of_getElem? he) hf⟩

theorem enumFrom'_map {α β : Type} (f : α → β) (l : List α) (n : Nat) :
    enumFrom' n (l.map f) = (enumFrom' n l).map fun x => (f x.1, x.2) := by
  induction l generalizing n with
  | nil => rfl
  | cons x xs ih => simp [enumFrom', ih]

/-- a transformation of the items that the predicate cannot see leaves the feasibility graph itself unchanged -/
theorem hitGraph_map {α β α' β' : Type} {feas : α → β → Bool} {feas' : α' → β' → Bool} (f : α → α') (g : β → β')
    (h : ∀ r e, feas' (f r) (g e) = feas r e) (ref : List α) (est : List β) :
    hitGraph feas' (ref.map f) (est.map g) = hitGraph feas ref est := by
  unfold hitGraph
  rw [enumFrom'_map, enumFrom'_map, List.flatMap_map]
  congr 1
  funext x
  obtain ⟨a, i⟩ := x
  simp only [Function.comp_apply, List.filterMap_map]
  congr 1
  funext y
  obtain ⟨c, j⟩ := y
  simp [h]

/-- more hits among the same items: precision, recall and F do not decrease -/
theorem prf_mono {k k' n m : Nat} (beta : Rat) (h : k ≤ k') :
    (prf k n m beta).1 ≤ (prf k' n m beta).1 ∧ (prf k n m beta).2.1 ≤ (prf k' n m beta).2.1 ∧
      (prf k n m beta).2.2 ≤ (prf k' n m beta).2.2 := by
  have hk : (k : Rat) ≤ (k' : Rat) := by exact_mod_cast h
  have h0 : (0 : Rat) ≤ (k : Rat) := by exact_mod_cast Nat.zero_le k
  have hm : (0 : Rat) ≤ (m : Rat) := by exact_mod_cast Nat.zero_le m
  have hn : (0 : Rat) ≤ (n : Rat) := by exact_mod_cast Nat.zero_le n
  have hp : (k : Rat) / m ≤ (k' : Rat) / m := div_le_div_of_nonneg_right hk hm
  have hr : (k : Rat) / n ≤ (k' : Rat) / n := div_le_div_of_nonneg_right hk hn
  exact ⟨hp, hr, fMeasure_mono (div_nonneg h0 hm) (div_nonneg h0 hn) hp hr⟩

/-- componentwise order on score triples -/
def TripleLe (a b : Rat × Rat × Rat) : Prop := a.1 ≤ b.1 ∧ a.2.1 ≤ b.2.1 ∧ a.2.2 ≤ b.2.2

/-- a looser criterion never lowers precision, recall or F -/
theorem hitPRF_mono_mem {α β : Type} {feas feas' : α → β → Bool} (ref : List α) (est : List β) (beta : Rat)
    (h : ∀ r ∈ ref, ∀ e ∈ est, feas r e = true → feas' r e = true) :
    TripleLe (hitPRF feas ref est beta) (hitPRF feas' ref est beta) := by
  unfold hitPRF TripleLe
  split
  · exact ⟨le_refl _, le_refl _, le_refl _⟩
  · exact prf_mono beta (hitCount_mono_mem ref est h)

theorem hitPRF_map {α β α' β' : Type} {feas : α → β → Bool} {feas' : α' → β' → Bool} (f : α → α') (g : β → β')
    (h : ∀ r e, feas' (f r) (g e) = feas r e) (ref : List α) (est : List β) (beta : Rat) :
    hitPRF feas' (ref.map f) (est.map g) beta = hitPRF feas ref est beta := by
  unfold hitPRF
  rw [hitCount_map f g h]
  simp [List.isEmpty_iff]

theorem hitPRF_perm {α β : Type} (feas : α → β → Bool) {ref ref' : List α} {est est' : List β}
    (hr : ref.Perm ref') (he : est.Perm est') (beta : Rat) :
    hitPRF feas ref' est' beta = hitPRF feas ref est beta := by
  unfold hitPRF
  rw [hitCount_perm_est feas ref' he, hitCount_perm_ref feas hr est, hr.length_eq, he.length_eq]
  have h1 : ref'.isEmpty = ref.isEmpty := by
    cases ref <;> cases ref' <;> simp_all
  have h2 : est'.isEmpty = est.isEmpty := by
    cases est <;> cases est' <;> simp_all
  rw [h1, h2]

namespace Transcription

/-! ### arithmetic primitives -/

theorem absR_eq_abs (x : Rat) : absR x = |x| := by
  unfold absR
  split
  · rename_i h; rw [abs_of_neg h]
  · rename_i h; rw [abs_of_nonneg (not_lt.1 h)]

theorem maxR_eq_max (a b : Rat) : maxR a b = max a b := by
  unfold maxR; split
  · rename_i h; rw [max_eq_right h]
  · rename_i h; rw [max_eq_left (le_of_lt (not_le.1 h))]

theorem minR_eq_min (a b : Rat) : minR a b = min a b := by
  unfold minR; split
  · rename_i h; rw [min_eq_left h]
  · rename_i h; rw [min_eq_right (le_of_lt (not_le.1 h))]

theorem absR_sub_comm (a b : Rat) : absR (a - b) = absR (b - a) := by
  rw [absR_eq_abs, absR_eq_abs, abs_sub_comm]

theorem round4_zero : round4 0 = 0 := by decide +kernel

/-- `np.rint` is within one half of its argument -/
theorem rintHalfEven_near (y : Rat) : |((rintHalfEven y : Int) : Rat) - y| ≤ 1 / 2 := by
  have h1 := Rat.floor_le y
  have h2 : y < ((y.floor : Int) : Rat) + 1 := by
    have := Rat.lt_floor_add_one y; push_cast at this; exact this
  unfold rintHalfEven
  simp only
  split
  · rename_i h; rw [abs_le]; constructor <;> linarith
  · split
    · rename_i h; rw [abs_le]; push_cast; constructor <;> linarith
    · rename_i h h'
      have hd : y - (y.floor : Rat) = 1 / 2 := le_antisymm (not_lt.1 h') (not_lt.1 h)
      split
      · rw [abs_le]; constructor <;> linarith
      · rw [abs_le]; push_cast; constructor <;> linarith

/-- `np.around(x, 4)` is a multiple of 1e-4 within half a unit of the argument -/
theorem round4_near (x : Rat) : |round4 x - x| ≤ 1 / 20000 := by
  have h := rintHalfEven_near (x * 10000)
  unfold round4
  rw [abs_le] at h ⊢
  constructor <;> [skip; skip] <;> · rw [← sub_nonneg]; ring_nf; ring_nf at h; linarith [h.1, h.2]

/-! ### comparison -/

theorem cmpTol_mono {s : Bool} {d t t' : Rat} (h : t ≤ t') (hc : cmpTol s d t = true) : cmpTol s d t' = true := by
  unfold cmpTol at *
  cases s <;> simp only [Bool.false_eq_true, if_false, if_true, decide_eq_true_eq] at * <;> linarith

theorem cmpTol_strict_imp {d t : Rat} (hc : cmpTol true d t = true) : cmpTol false d t = true := by
  unfold cmpTol at *
  simp only [Bool.false_eq_true, if_false, if_true, decide_eq_true_eq] at *
  exact le_of_lt hc

theorem cmpTol_strict_mono {s : Bool} {d t : Rat} (hc : cmpTol s d t = true) : cmpTol false d t = true := by
  cases s
  · exact hc
  · exact cmpTol_strict_imp hc

/-- the tolerance admits distance zero under the comparison in force -/
def tolOK (strict : Bool) (t : Rat) : Bool := if strict then decide (0 < t) else decide (0 ≤ t)

theorem cmpTol_zero {s : Bool} {t : Rat} (h : tolOK s t = true) : cmpTol s 0 t = true := by
  unfold tolOK at h; unfold cmpTol
  cases s <;> simpa using h

/-! ### the criteria -/

theorem onsetHit_symm (tol : Rat) (s : Bool) (r e : Ival) : onsetHit tol s e r = onsetHit tol s r e := by
  unfold onsetHit; rw [absR_sub_comm]

theorem pitchHit_symm (tol : Rat) (s : Bool) (r e : Rat) : pitchHit tol s e r = pitchHit tol s r e := by
  unfold pitchHit pitchDist
  rw [show (100 : Rat) * (e - r) = 100 * e - 100 * r by ring, show (100 : Rat) * (r - e) = 100 * r - 100 * e by ring,
    absR_sub_comm]

/-- without the offset criterion the note criterion treats its two arguments symmetrically -/
theorem noteHit_symm (p : Params) (h : p.offsetRatio = none) (r e : Note) : noteHit p e r = noteHit p r e := by
  unfold noteHit
  rw [h, onsetHit_symm, pitchHit_symm]

theorem onsetHit_self {tol : Rat} {s : Bool} (h : tolOK s tol = true) (x : Ival) : onsetHit tol s x x = true := by
  unfold onsetHit
  have : absR (x.1 - x.1) = 0 := by rw [sub_self]; rfl
  rw [this, round4_zero]; exact cmpTol_zero h

theorem pitchHit_self {tol : Rat} {s : Bool} (h : tolOK s tol = true) (x : Rat) : pitchHit tol s x x = true := by
  unfold pitchHit pitchDist
  have : absR (100 * (x - x)) = 0 := by rw [sub_self, mul_zero]; rfl
  rw [this]; exact cmpTol_zero h

theorem offsetHit_self {ratio minTol : Rat} {s : Bool} (x : Ival) (h : tolOK s (offsetTol ratio minTol x) = true) :
    offsetHit ratio minTol s x x = true := by
  unfold offsetHit
  have : absR (x.2 - x.2) = 0 := by rw [sub_self]; rfl
  rw [this, round4_zero]; exact cmpTol_zero h

/-- decidable non-degeneracy: every tolerance admits distance zero (`strict=True` needs positive tolerances) -/
def selfOK (p : Params) (xs : List Note) : Bool :=
  tolOK p.strict p.onsetTol && tolOK p.strict p.pitchTol &&
    (match p.offsetRatio with
     | none => true
     | some ρ => xs.all fun x => tolOK p.strict (offsetTol ρ p.offsetMinTol x.1))

theorem noteHit_self {p : Params} {xs : List Note} (h : selfOK p xs = true) : ∀ x ∈ xs, noteHit p x x = true := by
  intro x hx
  unfold selfOK at h
  simp only [Bool.and_eq_true] at h
  obtain ⟨⟨h1, h2⟩, h3⟩ := h
  unfold noteHit
  rw [onsetHit_self h1, pitchHit_self h2]
  cases hρ : p.offsetRatio with
  | none => rfl
  | some ρ =>
    rw [hρ] at h3
    simp only [List.all_eq_true] at h3
    simp [offsetHit_self x.1 (h3 x hx)]

theorem tolOK_mono {s : Bool} {t t' : Rat} (h : t ≤ t') (ht : tolOK s t = true) : tolOK s t' = true := by
  unfold tolOK at *
  cases s <;> simp only [Bool.false_eq_true, if_false, if_true, decide_eq_true_eq] at * <;> linarith

theorem le_offsetTol_min (ratio minTol : Rat) (x : Ival) : minTol ≤ offsetTol ratio minTol x := by
  unfold offsetTol; rw [maxR_eq_max]; exact le_max_right _ _

/-- nested criteria: with offsets ⊆ without offsets ⊆ onset only -/
theorem noteHit_drop_offset (p : Params) (r e : Note) (h : noteHit p r e = true) :
    noteHit { p with offsetRatio := none } r e = true := by
  unfold noteHit at *
  simp only [Bool.and_eq_true] at h ⊢
  exact ⟨h.1, trivial⟩

theorem noteHit_onset (p : Params) (r e : Note) (h : noteHit p r e = true) :
    onsetHit p.onsetTol p.strict r.1 e.1 = true := by
  unfold noteHit at h
  simp only [Bool.and_eq_true] at h
  exact h.1.1

theorem noteHit_offset (p : Params) (ρ : Rat) (hρ : p.offsetRatio = some ρ) (r e : Note) (h : noteHit p r e = true) :
    offsetHit ρ p.offsetMinTol p.strict r.1 e.1 = true := by
  unfold noteHit at h
  rw [hρ] at h
  simp only [Bool.and_eq_true] at h
  exact h.2

/-- "at least as loose": every tolerance is at least as large, and a strict comparison may become non-strict -/
structure Looser (p q : Params) : Prop where
  onset : p.onsetTol ≤ q.onsetTol
  pitch : p.pitchTol ≤ q.pitchTol
  minTol : p.offsetMinTol ≤ q.offsetMinTol
  strict : q.strict = true → p.strict = true
  ratio : match p.offsetRatio, q.offsetRatio with
    | some a, some b => a ≤ b
    | none, some _ => False
    | _, none => True

theorem cmpTol_loosen {s s' : Bool} {d t t' : Rat} (hs : s' = true → s = true) (h : t ≤ t')
    (hc : cmpTol s d t = true) : cmpTol s' d t' = true := by
  cases s' with
  | false => exact cmpTol_mono h (cmpTol_strict_mono hc)
  | true => rw [hs rfl] at hc; exact cmpTol_mono h hc

theorem offsetTol_mono {a b m m' : Rat} (hab : a ≤ b) (hm : m ≤ m') {x : Ival} (hx : x.1 ≤ x.2) :
    offsetTol a m x ≤ offsetTol b m' x := by
  unfold offsetTol
  rw [maxR_eq_max, maxR_eq_max]
  exact max_le_max (mul_le_mul_of_nonneg_right hab (sub_nonneg.2 hx)) hm

/-- widening any tolerance (or relaxing `strict`) keeps every hit, for reference notes of non-negative duration -/
theorem noteHit_loosen {p q : Params} (hl : Looser p q) (r e : Note) (hr : r.1.1 ≤ r.1.2)
    (h : noteHit p r e = true) : noteHit q r e = true := by
  unfold noteHit at *
  simp only [Bool.and_eq_true] at h ⊢
  obtain ⟨⟨h1, h2⟩, h3⟩ := h
  refine ⟨⟨cmpTol_loosen hl.strict hl.onset h1, cmpTol_loosen hl.strict hl.pitch h2⟩, ?_⟩
  have hrt := hl.ratio
  cases hq : q.offsetRatio with
  | none => rfl
  | some b =>
    cases hp : p.offsetRatio with
    | none => rw [hp, hq] at hrt; exact hrt.elim
    | some a =>
      rw [hp, hq] at hrt
      rw [hp] at h3
      exact cmpTol_loosen hl.strict (offsetTol_mono hrt hl.minTol hr) h3

theorem onsetHit_loosen {t t' : Rat} {s s' : Bool} (hs : s' = true → s = true) (h : t ≤ t') (r e : Ival)
    (hc : onsetHit t s r e = true) : onsetHit t' s' r e = true := cmpTol_loosen hs h hc

theorem offsetHit_loosen {a b m m' : Rat} {s s' : Bool} (hs : s' = true → s = true) (hab : a ≤ b) (hm : m ≤ m')
    (r e : Ival) (hr : r.1 ≤ r.2) (hc : offsetHit a m s r e = true) : offsetHit b m' s' r e = true :=
  cmpTol_loosen hs (offsetTol_mono hab hm hr) hc

/-! time shift and pitch translation -/

def shiftI (c : Rat) (x : Ival) : Ival := (x.1 + c, x.2 + c)
def shiftN (c : Rat) (x : Note) : Note := (shiftI c x.1, x.2)
/-- multiplying every frequency by a common factor = adding a constant to every MIDI number -/
def transposeN (t : Rat) (x : Note) : Note := (x.1, x.2 + t)

theorem onsetHit_shift (c tol : Rat) (s : Bool) (r e : Ival) :
    onsetHit tol s (shiftI c r) (shiftI c e) = onsetHit tol s r e := by
  unfold onsetHit shiftI
  simp only [add_sub_add_right_eq_sub]

theorem offsetHit_shift (c ratio minTol : Rat) (s : Bool) (r e : Ival) :
    offsetHit ratio minTol s (shiftI c r) (shiftI c e) = offsetHit ratio minTol s r e := by
  unfold offsetHit offsetTol shiftI
  simp only [add_sub_add_right_eq_sub]

theorem noteHit_shift (c : Rat) (p : Params) (r e : Note) : noteHit p (shiftN c r) (shiftN c e) = noteHit p r e := by
  unfold noteHit shiftN
  simp only [onsetHit_shift, offsetHit_shift]

theorem noteHit_transpose (t : Rat) (p : Params) (r e : Note) :
    noteHit p (transposeN t r) (transposeN t e) = noteHit p r e := by
  unfold noteHit transposeN pitchHit pitchDist
  simp only [add_sub_add_right_eq_sub]

/-! ### the matching returned by the model is a valid maximum matching -/

theorem pyMatching_spec {E M : List Edge} (h : pyMatching E = .ok M) :
    ValidMatching E M ∧ M.length = maxMatchSize E := by
  unfold pyMatching at h
  simp only at h
  split at h
  · rename_i hc
    simp only [Bool.and_eq_true, beq_iff_eq] at hc
    cases h
    exact ⟨(validB_iff _ _).1 hc.1, hc.2⟩
  · cases h

theorem matchNotes_spec {refI estI : List Ival} {refP estP : List Rat} {p : Params} {M : List Edge}
    (h : matchNotes refI refP estI estP p = .ok M) :
    ValidMatching (hitGraph (noteHit p) (refI.zip refP) (estI.zip estP)) M ∧
      M.length = hitCount (noteHit p) (refI.zip refP) (estI.zip estP) := by
  unfold matchNotes at h
  cases hv : durationsCheck p refI with
  | error e => rw [hv] at h; cases h
  | ok u => rw [hv] at h; exact pyMatching_spec h

theorem matchNoteOnsets_spec {refI estI : List Ival} {tol : Rat} {s : Bool} {M : List Edge}
    (h : matchNoteOnsets refI estI tol s = .ok M) :
    ValidMatching (hitGraph (onsetHit tol s) refI estI) M ∧ M.length = hitCount (onsetHit tol s) refI estI :=
  pyMatching_spec h

theorem matchNoteOffsets_spec {refI estI : List Ival} {ratio minTol : Rat} {s : Bool} {M : List Edge}
    (h : matchNoteOffsets refI estI ratio minTol s = .ok M) :
    ValidMatching (hitGraph (offsetHit ratio minTol s) refI estI) M ∧
      M.length = hitCount (offsetHit ratio minTol s) refI estI := by
  unfold matchNoteOffsets at h
  cases hv : validateIntervals1 refI with
  | error e => rw [hv] at h; cases h
  | ok u => rw [hv] at h; exact pyMatching_spec h

/-! ### validation -/

def ValidI (iv : List Ival) : Prop := ∀ x ∈ iv, 0 ≤ x.1 ∧ x.1 < x.2

theorem validateIntervals1_ok {iv : List Ival} (h : validateIntervals1 iv = .ok ()) : ValidI iv := by
  unfold validateIntervals1 at h
  split at h
  · cases h
  · rename_i h1
    split at h
    · cases h
    · rename_i h2
      intro x hx
      simp only [List.any_eq_true, not_exists, not_and, Bool.or_eq_true, decide_eq_true_eq, not_or, not_lt,
        not_le] at h1 h2
      exact ⟨(h1 x hx).1, h2 x hx⟩

theorem validateIntervals_ok {a b : List Ival} (h : validateIntervals a b = .ok ()) : ValidI a ∧ ValidI b := by
  unfold validateIntervals at h
  cases ha : validateIntervals1 a with
  | error e => rw [ha] at h; cases h
  | ok u =>
    rw [ha] at h
    exact ⟨validateIntervals1_ok ha, validateIntervals1_ok h⟩

theorem raiseIf_ok {c : Bool} (h : raiseIf c = .ok ()) : c = false := by
  unfold raiseIf at h
  cases c
  · rfl
  · simp at h

theorem validate_ok {refI estI : List Ival} {refP estP : List Rat}
    (h : validate refI (refP.map some) estI (estP.map some) = .ok ()) :
    ValidI refI ∧ ValidI estI ∧ refI.length = refP.length ∧ estI.length = estP.length := by
  unfold validate at h
  cases h0 : validateIntervals refI estI with
  | error e => rw [h0] at h; cases h
  | ok u0 =>
    rw [h0] at h
    cases h1 : raiseIf (refI.length != (refP.map some).length) with
    | error e => simp only [h1, bind, Except.bind] at h; cases h
    | ok u1 =>
      cases h2 : raiseIf (estI.length != (estP.map some).length) with
      | error e => simp only [h1, h2, bind, Except.bind] at h; cases h
      | ok u2 =>
        have a1 := raiseIf_ok h1
        have a2 := raiseIf_ok h2
        simp only [List.length_map, bne_eq_false_iff_eq] at a1 a2
        exact ⟨(validateIntervals_ok h0).1, (validateIntervals_ok h0).2, a1, a2⟩

/-- what a successful `precision_recall_f1_overlap` consists of -/
theorem precisionRecallF1Overlap_ok {refI estI : List Ival} {refP estP : List Rat} {p : Params} {beta : Rat}
    {s : Rat × Rat × Rat × Rat} (h : precisionRecallF1Overlap refI refP estI estP p beta = .ok s) :
    validate refI (refP.map some) estI (estP.map some) = .ok () ∧
      (((refP.isEmpty || estP.isEmpty) = true ∧ s = (0, 0, 0, 0)) ∨
       ((refP.isEmpty || estP.isEmpty) = false ∧ ∃ M a, matchNotes refI refP estI estP p = .ok M ∧
          averageOverlapRatio refI estI M = .ok a ∧
          s = ((prf M.length refP.length estP.length beta).1, (prf M.length refP.length estP.length beta).2.1,
               (prf M.length refP.length estP.length beta).2.2, a))) := by
  unfold precisionRecallF1Overlap at h
  cases hv : validate refI (refP.map some) estI (estP.map some) with
  | error e => rw [hv] at h; cases h
  | ok u =>
    rw [hv] at h
    refine ⟨rfl, ?_⟩
    by_cases hemp : (refP.isEmpty || estP.isEmpty) = true
    · left
      simp only [bind, Except.bind, hemp, if_true, pure, Except.pure, Except.ok.injEq] at h
      exact ⟨hemp, h.symm⟩
    · right
      simp only [Bool.not_eq_true] at hemp
      refine ⟨hemp, ?_⟩
      cases hm : matchNotes refI refP estI estP p with
      | error e => simp [bind, Except.bind, hemp, hm] at h
      | ok M =>
        cases ha : averageOverlapRatio refI estI M with
        | error e => simp [bind, Except.bind, hemp, hm, ha] at h
        | ok a =>
          simp only [bind, Except.bind, hemp, hm, ha, pure, Except.pure, Except.ok.injEq] at h
          exact ⟨M, a, rfl, ha, by simpa using h.symm⟩

theorem onsetPRF_ok {refI estI : List Ival} {tol beta : Rat} {strict : Bool} {s : Rat × Rat × Rat}
    (h : onsetPRF refI estI tol strict beta = .ok s) :
    validateIntervals refI estI = .ok () ∧
      (((refI.isEmpty || estI.isEmpty) = true ∧ s = (0, 0, 0)) ∨
       ((refI.isEmpty || estI.isEmpty) = false ∧ ∃ M, matchNoteOnsets refI estI tol strict = .ok M ∧
          s = prf M.length refI.length estI.length beta)) := by
  unfold onsetPRF at h
  cases hv : validateIntervals refI estI with
  | error e => rw [hv] at h; cases h
  | ok u =>
    rw [hv] at h
    refine ⟨rfl, ?_⟩
    by_cases hemp : (refI.isEmpty || estI.isEmpty) = true
    · left
      simp only [bind, Except.bind, hemp, if_true, pure, Except.pure, Except.ok.injEq] at h
      exact ⟨hemp, h.symm⟩
    · right
      simp only [Bool.not_eq_true] at hemp
      refine ⟨hemp, ?_⟩
      cases hm : matchNoteOnsets refI estI tol strict with
      | error e => simp [bind, Except.bind, hemp, hm] at h
      | ok M =>
        simp only [bind, Except.bind, hemp, hm, pure, Except.pure, Except.ok.injEq] at h
        exact ⟨M, rfl, by simpa using h.symm⟩

theorem offsetPRF_ok {refI estI : List Ival} {ratio minTol beta : Rat} {strict : Bool} {s : Rat × Rat × Rat}
    (h : offsetPRF refI estI ratio minTol strict beta = .ok s) :
    validateIntervals refI estI = .ok () ∧
      (((refI.isEmpty || estI.isEmpty) = true ∧ s = (0, 0, 0)) ∨
       ((refI.isEmpty || estI.isEmpty) = false ∧ ∃ M, matchNoteOffsets refI estI ratio minTol strict = .ok M ∧
          s = prf M.length refI.length estI.length beta)) := by
  unfold offsetPRF at h
  cases hv : validateIntervals refI estI with
  | error e => rw [hv] at h; cases h
  | ok u =>
    rw [hv] at h
    refine ⟨rfl, ?_⟩
    by_cases hemp : (refI.isEmpty || estI.isEmpty) = true
    · left
      simp only [bind, Except.bind, hemp, if_true, pure, Except.pure, Except.ok.injEq] at h
      exact ⟨hemp, h.symm⟩
    · right
      simp only [Bool.not_eq_true] at hemp
      refine ⟨hemp, ?_⟩
      cases hm : matchNoteOffsets refI estI ratio minTol strict with
      | error e => simp [bind, Except.bind, hemp, hm] at h
      | ok M =>
        simp only [bind, Except.bind, hemp, hm, pure, Except.pure, Except.ok.injEq] at h
        exact ⟨M, rfl, by simpa using h.symm⟩

/-- the note lists built from equally long interval and pitch lists -/
theorem zip_length_eq {refI : List Ival} {refP : List Rat} (h : refI.length = refP.length) :
    (refI.zip refP).length = refP.length := by
  simp [List.length_zip, h]

theorem zip_isEmpty_eq {refI : List Ival} {refP : List Rat} (h : refI.length = refP.length) :
    (refI.zip refP).isEmpty = refP.isEmpty := by
  cases refI <;> cases refP <;> simp_all

/-! ### overlap ratio -/

theorem overlapRatio_le_one {r e : Ival} (hr : r.1 < r.2) : overlapRatio r e ≤ 1 := by
  unfold overlapRatio
  rw [maxR_eq_max, maxR_eq_max, minR_eq_min, minR_eq_min]
  have hden : 0 < max r.2 e.2 - min r.1 e.1 := by
    have := le_max_left r.2 e.2
    have := min_le_left r.1 e.1
    linarith
  rw [div_le_one hden]
  have := min_le_max (a := r.2) (b := e.2)
  have := min_le_max (a := r.1) (b := e.1)
  linarith

theorem overlapRatio_self {x : Ival} (hx : x.1 < x.2) : overlapRatio x x = 1 := by
  unfold overlapRatio
  rw [maxR_eq_max, maxR_eq_max, minR_eq_min, minR_eq_min, max_self, min_self, max_self, min_self]
  exact div_self (by linarith)

theorem overlapRatio_shift (c : Rat) (r e : Ival) : overlapRatio (shiftI c r) (shiftI c e) = overlapRatio r e := by
  unfold overlapRatio shiftI
  simp only [maxR_eq_max, minR_eq_min, max_add_add_right, min_add_add_right, add_sub_add_right_eq_sub]

theorem sum_le_length {xs : List Rat} (h : ∀ x ∈ xs, x ≤ 1) : xs.sum ≤ (xs.length : Rat) := by
  induction xs with
  | nil => simp
  | cons x xs ih =>
    simp only [List.sum_cons, List.length_cons, Nat.cast_add, Nat.cast_one]
    have := h x (List.mem_cons_self ..)
    have := ih (fun y hy => h y (List.mem_cons_of_mem _ hy))
    linarith

theorem sum_eq_length {xs : List Rat} (h : ∀ x ∈ xs, x = 1) : xs.sum = (xs.length : Rat) := by
  induction xs with
  | nil => simp
  | cons x xs ih =>
    simp only [List.sum_cons, List.length_cons, Nat.cast_add, Nat.cast_one]
    rw [h x (List.mem_cons_self ..), ih (fun y hy => h y (List.mem_cons_of_mem _ hy))]
    ring

theorem meanR_le_one {xs : List Rat} (hne : xs ≠ []) (h : ∀ x ∈ xs, x ≤ 1) : meanR xs ≤ 1 := by
  unfold meanR
  have hl : (0 : Rat) < xs.length := by exact_mod_cast List.length_pos_iff.2 hne
  rw [div_le_one hl]; exact sum_le_length h

theorem meanR_eq_one {xs : List Rat} (hne : xs ≠ []) (h : ∀ x ∈ xs, x = 1) : meanR xs = 1 := by
  unfold meanR
  have hl : (0 : Rat) < xs.length := by exact_mod_cast List.length_pos_iff.2 hne
  rw [sum_eq_length h]; exact div_self hl.ne'

/-- the ratios computed by `average_overlap_ratio` are those of the listed index pairs -/
theorem ratiosOf_mem {refI estI : List Ival} {m : List Edge} {rs : List Rat} (h : ratiosOf refI estI m = .ok rs) :
    rs.length = m.length ∧
      ∀ x ∈ rs, ∃ ij ∈ m, ∃ r e, refI[ij.1]? = some r ∧ estI[ij.2]? = some e ∧ x = overlapRatio r e := by
  induction m generalizing rs with
  | nil => simp only [ratiosOf] at h; cases h; simp
  | cons ij m ih =>
    obtain ⟨i, j⟩ := ij
    simp only [ratiosOf] at h
    split at h
    · rename_i r e hr he
      cases ht : ratiosOf refI estI m with
      | error err => rw [ht] at h; cases h
      | ok tl =>
        rw [ht] at h
        cases h
        obtain ⟨hl, hm⟩ := ih ht
        refine ⟨by simp [hl], ?_⟩
        intro x hx
        rcases List.mem_cons.1 hx with rfl | hx
        · exact ⟨(i, j), List.mem_cons_self .., r, e, hr, he, rfl⟩
        · obtain ⟨ij, hij, hrest⟩ := hm x hx
          exact ⟨ij, List.mem_cons_of_mem _ hij, hrest⟩
    · cases h

theorem mem_of_getElem?' {α : Type} {l : List α} {i : Nat} {a : α} (h : l[i]? = some a) : a ∈ l :=
  List.mem_of_getElem? h

/-- AOR ≤ 1 for every list of index pairs over valid intervals -/
theorem averageOverlapRatio_le_one {refI estI : List Ival} (hr : ValidI refI) {m : List Edge}
    {a : Rat} (h : averageOverlapRatio refI estI m = .ok a) : a ≤ 1 := by
  unfold averageOverlapRatio at h
  cases hrs : ratiosOf refI estI m with
  | error err => rw [hrs] at h; cases h
  | ok rs =>
    rw [hrs] at h
    have hm := (ratiosOf_mem hrs).2
    have hle : ∀ x ∈ rs, x ≤ 1 := by
      intro x hx
      obtain ⟨ij, _, r, e, h1, h2, rfl⟩ := hm x hx
      exact overlapRatio_le_one (hr r (List.mem_of_getElem? h1)).2
    simp only [Except.ok.injEq] at h
    subst h
    by_cases hemp : rs.isEmpty = true
    · simp only [hemp, if_true]; exact zero_le_one
    · simp only [hemp]
      exact meanR_le_one (by simpa using hemp) hle

/-- AOR = 1 when every listed pair joins two equal intervals (in particular for the identity pairing of x with x) -/
theorem averageOverlapRatio_eq_one {refI estI : List Ival} (hr : ValidI refI) {m : List Edge} (hne : m ≠ [])
    (heq : ∀ ij ∈ m, ∀ r e, refI[ij.1]? = some r → estI[ij.2]? = some e → r = e)
    {a : Rat} (h : averageOverlapRatio refI estI m = .ok a) : a = 1 := by
  unfold averageOverlapRatio at h
  cases hrs : ratiosOf refI estI m with
  | error err => rw [hrs] at h; cases h
  | ok rs =>
    rw [hrs] at h
    obtain ⟨hl, hm⟩ := ratiosOf_mem hrs
    have h1 : ∀ x ∈ rs, x = 1 := by
      intro x hx
      obtain ⟨ij, hij, r, e, h1, h2, rfl⟩ := hm x hx
      have := heq ij hij r e h1 h2
      subst this
      exact overlapRatio_self (hr r (List.mem_of_getElem? h1)).2
    have hne' : rs ≠ [] := by
      intro h0; rw [h0] at hl
      exact hne (List.length_eq_zero_iff.1 hl.symm)
    have hemp : rs.isEmpty = false := by cases rs <;> simp_all
    simp only [Except.ok.injEq, hemp] at h
    subst h
    exact meanR_eq_one hne' h1

/-! ### velocity filter -/

theorem velFilter_sublist (s b t : Rat) (m : List Edge) (rs es : List Rat) :
    (velFilter s b t m rs es).Sublist m := by
  induction m generalizing rs es with
  | nil => simp [velFilter]
  | cons x xs ih =>
    cases rs with
    | nil => simp [velFilter]
    | cons r rs =>
      cases es with
      | nil => simp [velFilter]
      | cons e es =>
        simp only [velFilter]
        split
        · exact (ih rs es).cons_cons x
        · exact (ih rs es).cons x

theorem velFilter_mono (s b : Rat) {t t' : Rat} (h : t ≤ t') (m : List Edge) (rs es : List Rat) :
    (velFilter s b t m rs es).Sublist (velFilter s b t' m rs es) := by
  induction m generalizing rs es with
  | nil => simp [velFilter]
  | cons x xs ih =>
    cases rs with
    | nil => simp [velFilter]
    | cons r rs =>
      cases es with
      | nil => simp [velFilter]
      | cons e es =>
        simp only [velFilter]
        by_cases h1 : absR (s * e + b - r) < t
        · have h2 : absR (s * e + b - r) < t' := lt_of_lt_of_le h1 h
          simp only [h1, h2, if_true]
          exact (ih rs es).cons_cons x
        · simp only [h1, if_false]
          split
          · exact (ih rs es).cons x
          · exact ih rs es

/-! ### bridges and inversions -/

/-- precision, recall, F of `precision_recall_f1_overlap` are the hit-metric triple of the note criterion -/
theorem prfOverlap_eq_hitPRF {refI estI : List Ival} {refP estP : List Rat} {p : Params} {beta : Rat}
    {s : Rat × Rat × Rat × Rat} (h : precisionRecallF1Overlap refI refP estI estP p beta = .ok s) :
    (s.1, s.2.1, s.2.2.1) = hitPRF (noteHit p) (refI.zip refP) (estI.zip estP) beta := by
  obtain ⟨hv, hcase⟩ := precisionRecallF1Overlap_ok h
  obtain ⟨_, _, hlr, hle⟩ := validate_ok hv
  unfold hitPRF
  rw [zip_isEmpty_eq hlr, zip_isEmpty_eq hle, zip_length_eq hlr, zip_length_eq hle]
  rcases hcase with ⟨hemp, rfl⟩ | ⟨hemp, M, a, hm, _, rfl⟩
  · simp [hemp]
  · simp only [hemp, Bool.false_eq_true, if_false]
    rw [(matchNotes_spec hm).2]

theorem onsetPRF_eq_hitPRF {refI estI : List Ival} {tol beta : Rat} {strict : Bool} {s : Rat × Rat × Rat}
    (h : onsetPRF refI estI tol strict beta = .ok s) : s = hitPRF (onsetHit tol strict) refI estI beta := by
  obtain ⟨_, hcase⟩ := onsetPRF_ok h
  unfold hitPRF
  rcases hcase with ⟨hemp, rfl⟩ | ⟨hemp, M, hm, rfl⟩
  · simp [hemp]
  · simp only [hemp, Bool.false_eq_true, if_false]
    rw [(matchNoteOnsets_spec hm).2]

theorem offsetPRF_eq_hitPRF {refI estI : List Ival} {ratio minTol beta : Rat} {strict : Bool}
    {s : Rat × Rat × Rat} (h : offsetPRF refI estI ratio minTol strict beta = .ok s) :
    s = hitPRF (offsetHit ratio minTol strict) refI estI beta := by
  obtain ⟨_, hcase⟩ := offsetPRF_ok h
  unfold hitPRF
  rcases hcase with ⟨hemp, rfl⟩ | ⟨hemp, M, hm, rfl⟩
  · simp [hemp]
  · simp only [hemp, Bool.false_eq_true, if_false]
    rw [(matchNoteOffsets_spec hm).2]

/-- what a successful velocity `match_notes` consists of: the plain matching, then the regression filter -/
theorem velMatchNotes_ok {refI estI : List Ival} {refP refV estP estV : List Rat} {p : Params} {velTol : Rat}
    {M' : List Edge} (h : velMatchNotes refI refP refV estI estP estV p velTol = .ok M') :
    ∃ M refVn, matchNotes refI refP estI estP p = .ok M ∧ normVelocities refV = .ok refVn ∧
      ((M.isEmpty = true ∧ M' = []) ∨
       (M.isEmpty = false ∧ ∃ rv ev, lookupAll refVn (M.map Prod.fst) = .ok rv ∧
          lookupAll estV (M.map Prod.snd) = .ok ev ∧
          M' = velFilter (lstsqLine ev rv).1 (lstsqLine ev rv).2 velTol M rv ev)) := by
  unfold velMatchNotes at h
  cases hm : matchNotes refI refP estI estP p with
  | error e => simp [bind, Except.bind, hm] at h
  | ok M =>
    cases hn : normVelocities refV with
    | error e => simp [bind, Except.bind, hm, hn] at h
    | ok refVn =>
      refine ⟨M, refVn, rfl, rfl, ?_⟩
      by_cases hemp : M.isEmpty = true
      · left
        simp only [bind, Except.bind, hm, hn, hemp, if_true, pure, Except.pure, Except.ok.injEq] at h
        exact ⟨hemp, h.symm⟩
      · right
        simp only [Bool.not_eq_true] at hemp
        refine ⟨hemp, ?_⟩
        unfold velKeep at h
        cases h1 : lookupAll refVn (M.map Prod.fst) with
        | error e => simp [bind, Except.bind, hm, hn, hemp, h1] at h
        | ok rv =>
          cases h2 : lookupAll estV (M.map Prod.snd) with
          | error e => simp [bind, Except.bind, hm, hn, hemp, h1, h2] at h
          | ok ev =>
            simp only [bind, Except.bind, hm, hn, hemp, h1, h2, pure, Except.pure, Except.ok.injEq] at h
            exact ⟨rv, ev, rfl, rfl, by simpa using h.symm⟩

/-- the velocity-filtered matching is a sub-list of the plain matching -/
theorem velMatchNotes_sublist {refI estI : List Ival} {refP refV estP estV : List Rat} {p : Params} {velTol : Rat}
    {M' : List Edge} (h : velMatchNotes refI refP refV estI estP estV p velTol = .ok M') :
    ∃ M, matchNotes refI refP estI estP p = .ok M ∧ M'.Sublist M := by
  obtain ⟨M, refVn, hm, _, hcase⟩ := velMatchNotes_ok h
  refine ⟨M, hm, ?_⟩
  rcases hcase with ⟨_, rfl⟩ | ⟨_, rv, ev, _, _, rfl⟩
  · exact List.nil_sublist _
  · exact velFilter_sublist ..

/-- a larger velocity tolerance keeps at least the same pairs -/
theorem velMatchNotes_mono {refI estI : List Ival} {refP refV estP estV : List Rat} {p : Params} {t t' : Rat}
    (htt : t ≤ t') {M₁ M₂ : List Edge} (h₁ : velMatchNotes refI refP refV estI estP estV p t = .ok M₁)
    (h₂ : velMatchNotes refI refP refV estI estP estV p t' = .ok M₂) : M₁.Sublist M₂ := by
  obtain ⟨M, refVn, hm, hn, hcase⟩ := velMatchNotes_ok h₁
  obtain ⟨N, refVn', hm', hn', hcase'⟩ := velMatchNotes_ok h₂
  rw [hm] at hm'; cases hm'
  rw [hn] at hn'; cases hn'
  rcases hcase with ⟨_, rfl⟩ | ⟨he, rv, ev, h1, h2, rfl⟩
  · exact List.nil_sublist _
  · rcases hcase' with ⟨he', _⟩ | ⟨_, rv', ev', h1', h2', rfl⟩
    · rw [he] at he'; cases he'
    · rw [h1] at h1'; cases h1'
      rw [h2] at h2'; cases h2'
      exact velFilter_mono _ _ htt _ _ _

theorem velValidate_ok {refI estI : List Ival} {refP refV estP estV : List Rat}
    (h : velValidate refI (refP.map some) refV estI (estP.map some) estV = .ok ()) :
    validate refI (refP.map some) estI (estP.map some) = .ok () := by
  unfold velValidate at h
  cases hv : validate refI (refP.map some) estI (estP.map some) with
  | error e => rw [hv] at h; cases h
  | ok u => rfl

theorem velPRFOverlap_ok {refI estI : List Ival} {refP refV estP estV : List Rat} {p : Params} {velTol beta : Rat}
    {s : Rat × Rat × Rat × Rat} (h : velPRFOverlap refI refP refV estI estP estV p velTol beta = .ok s) :
    validate refI (refP.map some) estI (estP.map some) = .ok () ∧
      (((refP.isEmpty || estP.isEmpty) = true ∧ s = (0, 0, 0, 0)) ∨
       ((refP.isEmpty || estP.isEmpty) = false ∧ ∃ M a, velMatchNotes refI refP refV estI estP estV p velTol = .ok M ∧
          averageOverlapRatio refI estI M = .ok a ∧
          s = ((prf M.length refP.length estP.length beta).1, (prf M.length refP.length estP.length beta).2.1,
               (prf M.length refP.length estP.length beta).2.2, a))) := by
  unfold velPRFOverlap at h
  cases hv : velValidate refI (refP.map some) refV estI (estP.map some) estV with
  | error e => rw [hv] at h; cases h
  | ok u =>
    rw [hv] at h
    refine ⟨velValidate_ok hv, ?_⟩
    by_cases hemp : (refP.isEmpty || estP.isEmpty) = true
    · left
      simp only [bind, Except.bind, hemp, if_true, pure, Except.pure, Except.ok.injEq] at h
      exact ⟨hemp, h.symm⟩
    · right
      simp only [Bool.not_eq_true] at hemp
      refine ⟨hemp, ?_⟩
      cases hm : velMatchNotes refI refP refV estI estP estV p velTol with
      | error e => simp [bind, Except.bind, hemp, hm] at h
      | ok M =>
        cases ha : averageOverlapRatio refI estI M with
        | error e => simp [bind, Except.bind, hemp, hm, ha] at h
        | ok a =>
          simp only [bind, Except.bind, hemp, hm, ha, pure, Except.pure, Except.ok.injEq] at h
          exact ⟨M, a, rfl, ha, by simpa using h.symm⟩

/-! ### invariance of the whole functions under time shift and pitch translation -/

theorem ValidI_of_ok {iv : List Ival} (h : ValidI iv) : validateIntervals1 iv = .ok () := by
  unfold validateIntervals1
  have h1 : (iv.any fun x => decide (x.1 < 0) || decide (x.2 < 0)) = false := by
    rw [List.any_eq_false]
    intro x hx
    have := h x hx
    simp only [Bool.or_eq_true, decide_eq_true_eq, not_or, not_lt]
    exact ⟨this.1, by linarith [this.1, this.2]⟩
  have h2 : (iv.any fun x => decide (x.2 ≤ x.1)) = false := by
    rw [List.any_eq_false]
    intro x hx
    simpa using (h x hx).2
  simp [h1, h2]

theorem ValidI_shift {iv : List Ival} {c : Rat} (hc : 0 ≤ c) (h : ValidI iv) : ValidI (iv.map (shiftI c)) := by
  intro x hx
  obtain ⟨y, hy, rfl⟩ := List.mem_map.1 hx
  have := h y hy
  unfold shiftI
  exact ⟨by simp only; linarith [this.1], by simp only; linarith [this.2]⟩

theorem validate_shift {refI estI : List Ival} {refP estP : List Rat} {c : Rat} (hc : 0 ≤ c)
    (h : validate refI (refP.map some) estI (estP.map some) = .ok ()) :
    validate (refI.map (shiftI c)) (refP.map some) (estI.map (shiftI c)) (estP.map some) = .ok () := by
  obtain ⟨h1, h2, h3, h4⟩ := validate_ok h
  unfold validate validateIntervals
  rw [ValidI_of_ok (ValidI_shift hc h1), ValidI_of_ok (ValidI_shift hc h2)]
  simp [raiseIf, h3, h4, bind, Except.bind]

theorem zip_map_shift (c : Rat) (iv : List Ival) (ps : List Rat) :
    (iv.map (shiftI c)).zip ps = (iv.zip ps).map (shiftN c) := by
  induction iv generalizing ps with
  | nil => simp
  | cons x xs ih =>
    cases ps with
    | nil => simp
    | cons q qs => simp [ih, shiftN]

theorem zip_map_transpose (t : Rat) (iv : List Ival) (ps : List Rat) :
    iv.zip (ps.map (· + t)) = (iv.zip ps).map (transposeN t) := by
  induction iv generalizing ps with
  | nil => simp
  | cons x xs ih =>
    cases ps with
    | nil => simp
    | cons q qs => simp [ih, transposeN]

theorem ratiosOf_shift (c : Rat) (refI estI : List Ival) (m : List Edge) :
    ratiosOf (refI.map (shiftI c)) (estI.map (shiftI c)) m = ratiosOf refI estI m := by
  induction m with
  | nil => rfl
  | cons ij m ih =>
    obtain ⟨i, j⟩ := ij
    simp only [ratiosOf, List.getElem?_map, ih]
    cases refI[i]? <;> cases estI[j]? <;> simp [overlapRatio_shift]

theorem averageOverlapRatio_shift (c : Rat) (refI estI : List Ival) (m : List Edge) :
    averageOverlapRatio (refI.map (shiftI c)) (estI.map (shiftI c)) m = averageOverlapRatio refI estI m := by
  unfold averageOverlapRatio; rw [ratiosOf_shift]

theorem matchNotes_shift {refI estI : List Ival} {refP estP : List Rat} (p : Params) {c : Rat} (hc : 0 ≤ c)
    (hr : ValidI refI) :
    matchNotes (refI.map (shiftI c)) refP (estI.map (shiftI c)) estP p = matchNotes refI refP estI estP p := by
  unfold matchNotes durationsCheck
  rw [ValidI_of_ok (ValidI_shift hc hr), ValidI_of_ok hr, zip_map_shift, zip_map_shift,
    hitGraph_map (shiftN c) (shiftN c) (noteHit_shift c p)]

theorem matchNotes_transpose (refI estI : List Ival) (refP estP : List Rat) (p : Params) (t : Rat) :
    matchNotes refI (refP.map (· + t)) estI (estP.map (· + t)) p = matchNotes refI refP estI estP p := by
  unfold matchNotes
  rw [zip_map_transpose, zip_map_transpose, hitGraph_map (transposeN t) (transposeN t) (noteHit_transpose t p)]

theorem any_isNone_map_some (l : List Rat) : (l.map some).any Option.isNone = false := by
  induction l <;> simp_all

theorem validate_transpose (refI estI : List Ival) (refP estP : List Rat) (t : Rat) :
    validate refI ((refP.map (· + t)).map some) estI ((estP.map (· + t)).map some) =
      validate refI (refP.map some) estI (estP.map some) := by
  unfold validate
  simp only [List.length_map, any_isNone_map_some]

/-! ### small helpers used by the property files -/

/-- the comparison the documentation states: `<=`, or `<` with `strict=True` -/
def within (strict : Bool) (d tol : Rat) : Prop := if strict then d < tol else d ≤ tol

theorem cmpTol_iff (s : Bool) (d t : Rat) : cmpTol s d t = true ↔ within s d t := by
  unfold cmpTol within
  cases s <;> simp

theorem noteHit_flip (p : Params) (h : p.offsetRatio = none) : (fun (e r : Note) => noteHit p r e) = noteHit p := by
  funext e r; exact (noteHit_symm p h e r)

theorem onsetHit_flip (tol : Rat) (s : Bool) : (fun (e r : Ival) => onsetHit tol s r e) = onsetHit tol s := by
  funext e r; exact (onsetHit_symm tol s e r)

/-- componentwise order on the (P, R, F) part of a `precision_recall_f1_overlap` result -/
def PRFLe (a b : Rat × Rat × Rat × Rat) : Prop := a.1 ≤ b.1 ∧ a.2.1 ≤ b.2.1 ∧ a.2.2.1 ≤ b.2.2.1

theorem ref_notes_valid {refI : List Ival} {refP : List Rat} (h : ValidI refI) :
    ∀ r ∈ refI.zip refP, r.1.1 ≤ r.1.2 := by
  intro r hr
  obtain ⟨a, b⟩ := r
  exact le_of_lt (h a (List.of_mem_zip hr).1).2

/-- two results computed from pairings `M' ⊑ M` over the same notes -/
theorem prf_of_sublist {refI estI : List Ival} {refP refV estP estV : List Rat} {p : Params} {vt beta : Rat}
    {a b : Rat × Rat × Rat × Rat} {f : Py (List Edge)}
    (ha : velPRFOverlap refI refP refV estI estP estV p vt beta = .ok a)
    (hb : (refP.isEmpty || estP.isEmpty) = true ∧ b = (0, 0, 0, 0) ∨
          (refP.isEmpty || estP.isEmpty) = false ∧ ∃ M c, f = .ok M ∧
            b = ((prf M.length refP.length estP.length beta).1, (prf M.length refP.length estP.length beta).2.1,
                 (prf M.length refP.length estP.length beta).2.2, c))
    (hsub : ∀ M' M, velMatchNotes refI refP refV estI estP estV p vt = .ok M' → f = .ok M → M'.length ≤ M.length) :
    PRFLe a b := by
  obtain ⟨_, hcase⟩ := velPRFOverlap_ok ha
  rcases hcase with ⟨he, rfl⟩ | ⟨he, M', a', hm', _, rfl⟩
  · rcases hb with ⟨_, rfl⟩ | ⟨he', _⟩
    · exact ⟨le_refl _, le_refl _, le_refl _⟩
    · rw [he] at he'; cases he'
  · rcases hb with ⟨he', _⟩ | ⟨_, M, c, hm, rfl⟩
    · rw [he] at he'; cases he'
    · exact prf_mono beta (hsub M' M hm' hm)

theorem isEmpty_map' {α β : Type} (f : α → β) (l : List α) : (l.map f).isEmpty = l.isEmpty := by
  cases l <;> rfl

theorem validateIntervals_shift {refI estI : List Ival} {c : Rat} (hc : 0 ≤ c)
    (hv : validateIntervals refI estI = .ok ()) :
    validateIntervals (refI.map (shiftI c)) (estI.map (shiftI c)) = .ok () := by
  obtain ⟨h1, h2⟩ := validateIntervals_ok hv
  unfold validateIntervals
  rw [ValidI_of_ok (ValidI_shift hc h1), ValidI_of_ok (ValidI_shift hc h2)]
  rfl

/-! ### least squares -/

/-- the squared error of the line `y = a·x + b` on the points `zip xs ys` -/
def sse (a b : Rat) (xs ys : List Rat) : Rat :=
  sumR (List.zipWith (fun x y => (a * x + b - y) * (a * x + b - y)) xs ys)

theorem sse_expand (a b : Rat) : ∀ (xs ys : List Rat), xs.length = ys.length →
    sse a b xs ys = a * a * sumR (xs.map fun x => x * x) + 2 * a * b * sumR xs + (xs.length : Rat) * (b * b)
      - 2 * a * sumR (List.zipWith (fun x y => x * y) xs ys) - 2 * b * sumR ys + sumR (ys.map fun y => y * y) := by
  intro xs
  induction xs with
  | nil => intro ys h; cases ys <;> simp_all [sse, sumR]
  | cons x xs ih =>
    intro ys h
    cases ys with
    | nil => simp at h
    | cons y ys =>
      have h' : xs.length = ys.length := by simpa using h
      have := ih ys h'
      simp only [sse, sumR, List.zipWith_cons_cons, List.sum_cons, List.map_cons, List.length_cons, Nat.cast_add,
        Nat.cast_one] at this ⊢
      rw [this]; ring

theorem sq_sum_nonneg (d e : Rat) (xs : List Rat) :
    0 ≤ d * d * sumR (xs.map fun x => x * x) + 2 * d * e * sumR xs + (xs.length : Rat) * (e * e) := by
  induction xs with
  | nil => simp [sumR]
  | cons x xs ih =>
    simp only [sumR, List.map_cons, List.sum_cons, List.length_cons, Nat.cast_add, Nat.cast_one] at ih ⊢
    nlinarith [mul_self_nonneg (d * x + e)]

/-- the closed-form line minimises the squared error over all lines (full-rank case) -/
theorem lstsqLine_minimises (xs ys : List Rat) (hlen : xs.length = ys.length)
    (hdet : (xs.length : Rat) * sumR (xs.map fun x => x * x) - sumR xs * sumR xs ≠ 0) (a b : Rat) :
    sse (lstsqLine xs ys).1 (lstsqLine xs ys).2 xs ys ≤ sse a b xs ys := by
  rw [sse_expand _ _ xs ys hlen, sse_expand a b xs ys hlen]
  have hq := sq_sum_nonneg (a - (lstsqLine xs ys).1) (b - (lstsqLine xs ys).2) xs
  have hne : (lstsqLine xs ys).1 * sumR (xs.map fun x => x * x) + (lstsqLine xs ys).2 * sumR xs =
        sumR (List.zipWith (fun x y => x * y) xs ys) ∧
      (lstsqLine xs ys).1 * sumR xs + (xs.length : Rat) * (lstsqLine xs ys).2 = sumR ys := by
    simp only [lstsqLine, hdet, if_false]
    generalize (xs.length : Rat) = n at *
    generalize sumR (xs.map fun x => x * x) = sxx at *
    generalize sumR (List.zipWith (fun x y => x * y) xs ys) = sxy at *
    generalize sumR xs = sx at *
    generalize sumR ys = sy at *
    generalize hd : n * sxx - sx * sx = d at *
    constructor
    · field_simp; rw [← hd]; ring
    · field_simp; rw [← hd]; ring
  obtain ⟨E1, E2⟩ := hne
  generalize (lstsqLine xs ys).1 = s at *
  generalize (lstsqLine xs ys).2 = i at *
  generalize (xs.length : Rat) = n at *
  generalize sumR (xs.map fun x => x * x) = sxx at *
  generalize sumR (List.zipWith (fun x y => x * y) xs ys) = sxy at *
  generalize sumR xs = sx at *
  generalize sumR ys = sy at *
  generalize sumR (ys.map fun y => y * y) = syy at *
  have key : (a * a * sxx + 2 * a * b * sx + n * (b * b) - 2 * a * sxy - 2 * b * sy + syy) -
      (s * s * sxx + 2 * s * i * sx + n * (i * i) - 2 * s * sxy - 2 * i * sy + syy) =
      (a - s) * (a - s) * sxx + 2 * (a - s) * (b - i) * sx + n * ((b - i) * (b - i)) := by
    linear_combination 2 * (a - s) * E1 + 2 * (b - i) * E2
  linarith

end Transcription
end Mir
