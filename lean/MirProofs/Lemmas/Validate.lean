import MirModel.Validate
import Mathlib.Algebra.Order.Field.Rat
import Mathlib.Tactic.Linarith
import Mathlib.Order.MinMax

/-! Helper lemmas for C14 (validators): the error monad, list scans, min / max folds. -/
namespace Mir.Validate

/-- the only two things a validator is allowed to do -/
def OkOrVE (p : Py Unit) : Prop := p = .ok () ∨ p = .error .valueError

theorem check_ok_iff {b : Bool} : check b = .ok () ↔ b = false := by
  cases b <;> simp [check]

theorem check_total (b : Bool) : OkOrVE (check b) := by
  cases b <;> simp [check, OkOrVE]

theorem okOrVE_ok : OkOrVE (.ok ()) := Or.inl rfl
theorem okOrVE_pure : OkOrVE (pure ()) := Or.inl rfl
theorem okOrVE_ve : OkOrVE (.error .valueError) := Or.inr rfl

theorem bind_ok_iff {α : Type} {p : Py α} {f : α → Py Unit} :
    (p >>= f) = .ok () ↔ ∃ a, p = .ok a ∧ f a = .ok () := by
  cases p with
  | error e => simp [bind, Except.bind]
  | ok a => simp [bind, Except.bind]

theorem bindU_ok_iff {p : Py Unit} {f : Unit → Py Unit} :
    (p >>= f) = .ok () ↔ p = .ok () ∧ f () = .ok () := by
  rw [bind_ok_iff]
  constructor
  · rintro ⟨⟨⟩, h1, h2⟩; exact ⟨h1, h2⟩
  · rintro ⟨h1, h2⟩; exact ⟨(), h1, h2⟩

theorem bindN_ok_iff {p : Py Nat} {f : Nat → Py Unit} :
    (p >>= f) = .ok () ↔ ∃ n, p = .ok n ∧ f n = .ok () := bind_ok_iff

theorem okOrVE_bind {p : Py Unit} {f : Unit → Py Unit} (hp : OkOrVE p) (hf : OkOrVE (f ())) :
    OkOrVE (p >>= f) := by
  rcases hp with h | h
  · rw [h]; exact hf
  · rw [h]; exact Or.inr rfl

theorem okOrVE_bind_of_ok {α : Type} {p : Py α} {f : α → Py Unit} {a : α} (hp : p = .ok a)
    (hf : OkOrVE (f a)) : OkOrVE (p >>= f) := by
  rw [hp]; exact hf

theorem ve_of_not_ok {p : Py Unit} (h : OkOrVE p) (hn : p ≠ .ok ()) : p = .error .valueError := by
  rcases h with h | h
  · exact absurd h hn
  · exact h

theorem rejects_of_iff {p : Py Unit} {V : Prop} (ht : OkOrVE p) (hi : p = .ok () ↔ V) (h : ¬ V) :
    p = .error .valueError :=
  ve_of_not_ok ht fun hok => h (hi.1 hok)

theorem forEach_ok_iff {α : Type} {f : α → Py Unit} {xs : List α} :
    forEach f xs = .ok () ↔ ∀ x ∈ xs, f x = .ok () := by
  induction xs with
  | nil => simp [forEach]
  | cons x xs ih => simp [forEach, bindU_ok_iff, ih]

theorem forEach_total {α : Type} {f : α → Py Unit} {xs : List α} (h : ∀ x ∈ xs, OkOrVE (f x)) :
    OkOrVE (forEach f xs) := by
  induction xs with
  | nil => exact okOrVE_ok
  | cons x xs ih =>
      simp only [forEach]
      exact okOrVE_bind (h x (by simp)) (ih fun y hy => h y (by simp [hy]))

/-! ### scans -/

theorem any_false_iff {α : Type} {p : α → Bool} {xs : List α} :
    xs.any p = false ↔ ∀ x ∈ xs, p x = false := by
  simp

/-- `np.diff(x) >= 0` everywhere iff `x` is in increasing order (ties allowed) -/
theorem diffs_nonneg_iff_sorted (xs : List Rat) :
    (∀ d ∈ diffs xs, 0 ≤ d) ↔ xs.Pairwise (· ≤ ·) := by
  induction xs with
  | nil => simp [diffs]
  | cons a t ih =>
      cases t with
      | nil => simp [diffs]
      | cons b t =>
          simp only [diffs, List.mem_cons, forall_eq_or_imp, List.pairwise_cons] at ih ⊢
          constructor
          · rintro ⟨hab, hrest⟩
            have hp := ih.1 hrest
            refine ⟨⟨by linarith, ?_⟩, hp⟩
            intro x hx
            have := hp.1 x hx; linarith
          · rintro ⟨ha, hp⟩
            refine ⟨?_, ih.2 hp⟩
            have := ha.1; linarith

theorem diffs_any_neg_false_iff (xs : List Rat) :
    ((diffs xs).any fun d => decide (d < 0)) = false ↔ xs.Pairwise (· ≤ ·) := by
  rw [← diffs_nonneg_iff_sorted]
  simp

theorem diffs_all_nonneg_iff (xs : List Rat) :
    ((diffs xs).all fun d => decide (0 ≤ d)) = true ↔ xs.Pairwise (· ≤ ·) := by
  rw [← diffs_nonneg_iff_sorted]
  simp

/-- rows of an (n,2) array, by index -/
theorem rows2_forall_iff (P : Rat → Rat → Prop) (xs : List Rat) :
    (∀ r ∈ rows2 xs, P r.1 r.2) ↔ ∀ i, (h : 2 * i + 1 < xs.length) → P (xs[2 * i]) (xs[2 * i + 1]) := by
  fun_induction rows2 xs with
  | case1 a b t ih =>
      simp only [List.mem_cons, forall_eq_or_imp, ih, List.length_cons]
      constructor
      · rintro ⟨h0, hr⟩ i hi
        cases i with
        | zero => simpa using h0
        | succ j =>
            have := hr j (by omega)
            simpa [Nat.mul_succ, List.getElem_cons_succ] using this
      · intro h
        refine ⟨by simpa using h 0 (by omega), ?_⟩
        intro j hj
        have := h (j + 1) (by omega)
        simpa [Nat.mul_succ, List.getElem_cons_succ] using this
  | case2 xs hne =>
      constructor
      · intro _ i hi
        exfalso
        match xs, hne with
        | [], _ => simp at hi
        | [_], _ => simp at hi
        | a :: b :: t, hne => exact hne a b t rfl
      · intro _ r hr; simp at hr

/-! ### min / max folds -/

theorem foldl_min_le_iff (t : List Rat) (x c : Rat) :
    t.foldl min x ≤ c ↔ x ≤ c ∨ ∃ y ∈ t, y ≤ c := by
  induction t generalizing x with
  | nil => simp
  | cons a t ih =>
      simp only [List.foldl_cons, ih, min_le_iff, List.mem_cons, exists_eq_or_imp]
      tauto

theorem foldl_min_lt_iff (t : List Rat) (x c : Rat) :
    t.foldl min x < c ↔ x < c ∨ ∃ y ∈ t, y < c := by
  induction t generalizing x with
  | nil => simp
  | cons a t ih =>
      simp only [List.foldl_cons, ih, min_lt_iff, List.mem_cons, exists_eq_or_imp]
      tauto

theorem foldl_min_mem (t : List Rat) (x : Rat) : t.foldl min x ∈ x :: t := by
  induction t generalizing x with
  | nil => simp
  | cons a t ih =>
      simp only [List.foldl_cons]
      have := ih (min x a)
      rcases List.mem_cons.1 this with h | h
      · rw [h]; rcases min_choice x a with h' | h' <;> rw [h'] <;> simp
      · exact List.mem_cons_of_mem _ (List.mem_cons_of_mem _ h)

theorem foldl_min_le (t : List Rat) (x : Rat) : ∀ y ∈ x :: t, t.foldl min x ≤ y := by
  intro y hy
  rw [foldl_min_le_iff]
  rcases List.mem_cons.1 hy with rfl | h
  · exact Or.inl le_rfl
  · exact Or.inr ⟨y, h, le_rfl⟩

theorem foldl_max_mem (t : List Rat) (x : Rat) : t.foldl max x ∈ x :: t := by
  induction t generalizing x with
  | nil => simp
  | cons a t ih =>
      simp only [List.foldl_cons]
      have := ih (max x a)
      rcases List.mem_cons.1 this with h | h
      · rw [h]; rcases max_choice x a with h' | h' <;> rw [h'] <;> simp
      · exact List.mem_cons_of_mem _ (List.mem_cons_of_mem _ h)

theorem le_foldl_max_iff (t : List Rat) (x c : Rat) :
    c ≤ t.foldl max x ↔ c ≤ x ∨ ∃ y ∈ t, c ≤ y := by
  induction t generalizing x with
  | nil => simp
  | cons a t ih =>
      simp only [List.foldl_cons, ih, le_max_iff, List.mem_cons, exists_eq_or_imp]
      tauto

theorem le_foldl_max (t : List Rat) (x : Rat) : ∀ y ∈ x :: t, y ≤ t.foldl max x := by
  intro y hy
  rw [le_foldl_max_iff]
  rcases List.mem_cons.1 hy with rfl | h
  · exact Or.inl le_rfl
  · exact Or.inr ⟨y, h, le_rfl⟩

/-- least / greatest element of a list (the documented "start" / "end" of a segmentation) -/
def IsLeastOf (xs : List Rat) (m : Rat) : Prop := m ∈ xs ∧ ∀ x ∈ xs, m ≤ x
def IsGreatestOf (xs : List Rat) (m : Rat) : Prop := m ∈ xs ∧ ∀ x ∈ xs, x ≤ m

theorem IsLeastOf.unique {xs : List Rat} {a b : Rat} (ha : IsLeastOf xs a) (hb : IsLeastOf xs b) : a = b :=
  le_antisymm (ha.2 b hb.1) (hb.2 a ha.1)

theorem IsGreatestOf.unique {xs : List Rat} {a b : Rat} (ha : IsGreatestOf xs a) (hb : IsGreatestOf xs b) :
    a = b :=
  le_antisymm (hb.2 a ha.1) (ha.2 b hb.1)

theorem npMin_spec {xs : List Rat} (h : xs ≠ []) : ∃ m, npMin xs = .ok m ∧ IsLeastOf xs m := by
  cases xs with
  | nil => exact absurd rfl h
  | cons x t => exact ⟨_, rfl, foldl_min_mem t x, foldl_min_le t x⟩

theorem npMax_spec {xs : List Rat} (h : xs ≠ []) : ∃ m, npMax xs = .ok m ∧ IsGreatestOf xs m := by
  cases xs with
  | nil => exact absurd rfl h
  | cons x t => exact ⟨_, rfl, foldl_max_mem t x, le_foldl_max t x⟩

theorem rabs_eq_abs (x : Rat) : rabs x = |x| := by
  unfold rabs
  split
  · rename_i h; rw [abs_of_neg h]
  · rename_i h; rw [abs_of_nonneg (not_lt.1 h)]

/-! ### `shape[0]`, `len()` and guarded minima -/

theorem okOrVE_bind' {p : Py Unit} {f : Unit → Py Unit} (hp : OkOrVE p) (hf : p = .ok () → OkOrVE (f ())) :
    OkOrVE (p >>= f) := by
  rcases hp with h | h
  · rw [h]; exact hf h
  · rw [h]; exact Or.inr rfl

theorem okOrVE_bind_val {α : Type} {p : Py α} {f : α → Py Unit} (hp : ∃ a, p = .ok a) (hf : ∀ a, OkOrVE (f a)) :
    OkOrVE (p >>= f) := by
  obtain ⟨a, ha⟩ := hp
  rw [ha]; exact hf a

theorem shape0_ok_iff {a : Arr} {n : Nat} : a.shape0 = .ok n ↔ a.shape.head? = some n := by
  unfold Arr.shape0
  cases a.shape <;> simp

theorem len_ok_iff {a : Arr} {n : Nat} : a.len = .ok n ↔ a.shape.head? = some n := by
  unfold Arr.len
  cases a.shape <;> simp

theorem shape0_ok_of_ne {a : Arr} (h : a.shape ≠ []) : ∃ n, a.shape0 = .ok n := by
  unfold Arr.shape0
  cases hs : a.shape with
  | nil => exact absurd hs h
  | cons n t => exact ⟨n, rfl⟩

theorem len_ok_of_ne {a : Arr} (h : a.shape ≠ []) : ∃ n, a.len = .ok n := by
  unfold Arr.len
  cases hs : a.shape with
  | nil => exact absurd hs h
  | cons n t => exact ⟨n, rfl⟩

theorem shape0_nil {a : Arr} (h : a.shape = []) : a.shape0 = .error .indexError := by
  unfold Arr.shape0; rw [h]

theorem len_nil {a : Arr} (h : a.shape = []) : a.len = .error .typeError := by
  unfold Arr.len; rw [h]

theorem minNonPositive_total (a : Arr) : OkOrVE (minNonPositive a) := by
  unfold minNonPositive
  split
  · rename_i h
    have hne : a.data ≠ [] := by intro h0; simp [Arr.size, h0] at h
    obtain ⟨m, hm, _⟩ := npMin_spec hne
    rw [hm]; exact check_total _
  · exact okOrVE_ok

theorem minNonPositive_ok_iff (a : Arr) : minNonPositive a = .ok () ↔ ∀ x ∈ a.data, 0 < x := by
  unfold minNonPositive Arr.size
  cases hd : a.data with
  | nil => simp
  | cons x t =>
      simp only [List.length_cons, Nat.zero_lt_succ, if_true, npMin, bind, Except.bind, check_ok_iff,
        decide_eq_false_iff_not, not_le]
      constructor
      · intro h y hy
        exact lt_of_lt_of_le h (foldl_min_le t x y hy)
      · intro h
        exact h _ (foldl_min_mem t x)

theorem minNegative_total (a : Arr) : OkOrVE (minNegative a) := by
  unfold minNegative
  split
  · rename_i h
    have hne : a.data ≠ [] := by intro h0; simp [Arr.size, h0] at h
    obtain ⟨m, hm, _⟩ := npMin_spec hne
    rw [hm]; exact check_total _
  · exact okOrVE_ok

theorem minNegative_ok_iff (a : Arr) : minNegative a = .ok () ↔ ∀ x ∈ a.data, 0 ≤ x := by
  unfold minNegative Arr.size
  cases hd : a.data with
  | nil => simp
  | cons x t =>
      simp only [List.length_cons, Nat.zero_lt_succ, if_true, npMin, bind, Except.bind, check_ok_iff,
        decide_eq_false_iff_not, not_lt]
      constructor
      · intro h y hy
        exact le_trans h (foldl_min_le t x y hy)
      · intro h
        exact h _ (foldl_min_mem t x)

/-! ### key strings -/

theorem isPySpace_toNat_le {c : Char} (h : isPySpace c = true) : c.toNat ≤ 32 := by
  simp only [isPySpace, Bool.or_eq_true, Bool.and_eq_true, decide_eq_true_eq] at h
  omega

theorem asciiLower_of_space {c : Char} (h : isPySpace c = true) : asciiLower c = c := by
  have := isPySpace_toNat_le h
  unfold asciiLower
  rw [if_neg (by omega)]

/-- a string whose lower-case form is "x" is one non-blank character: `split()` returns it whole -/
theorem pySplit_of_lower_x {s : List Char} (h : pyLower s = ['x']) : pySplit s = [s] := by
  match s, h with
  | [], h => simp [pyLower] at h
  | _ :: _ :: _, h => simp [pyLower] at h
  | [c], h =>
      have hc : asciiLower c = 'x' := by simpa [pyLower] using h
      have hns : isPySpace c = false := by
        by_contra hsp
        have hsp : isPySpace c = true := by simpa using hsp
        rw [asciiLower_of_space hsp] at hc
        rw [hc] at hsp
        exact absurd hsp (by decide)
      simp [pySplit, splitGo, hns]

theorem splitGo_spaces {ws : List Char} (h : ∀ c ∈ ws, isPySpace c = true) (rest : List Char) :
    splitGo (ws ++ rest) [] = splitGo rest [] := by
  induction ws with
  | nil => rfl
  | cons c ws ih =>
      have hc := h c (by simp)
      simp only [List.cons_append, splitGo, hc, if_true, List.isEmpty_nil]
      exact ih fun d hd => h d (by simp [hd])

theorem splitGo_word {w : List Char} (h : ∀ c ∈ w, isPySpace c = false) (rest cur : List Char) :
    splitGo (w ++ rest) cur = splitGo rest (w.reverse ++ cur) := by
  induction w generalizing cur with
  | nil => rfl
  | cons c w ih =>
      have hc := h c (by simp)
      simp only [List.cons_append, splitGo, hc, Bool.false_eq_true, if_false]
      rw [ih (fun d hd => h d (by simp [hd]))]
      simp

theorem splitGo_space_after_word {c : Char} (hc : isPySpace c = true) {cur : List Char} (hcur : cur ≠ [])
    (rest : List Char) : splitGo (c :: rest) cur = cur.reverse :: splitGo rest [] := by
  cases cur with
  | nil => exact absurd rfl hcur
  | cons a t => simp [splitGo, hc]

/-- `(blanks) key (blanks+) mode (blanks)` splits into exactly `[key, mode]` -/
theorem pySplit_two_words {ws0 k ws1 m ws2 : List Char}
    (h0 : ∀ c ∈ ws0, isPySpace c = true) (hk : k ≠ []) (hk' : ∀ c ∈ k, isPySpace c = false)
    (h1 : ws1 ≠ []) (h1' : ∀ c ∈ ws1, isPySpace c = true)
    (hm : m ≠ []) (hm' : ∀ c ∈ m, isPySpace c = false) (h2 : ∀ c ∈ ws2, isPySpace c = true) :
    pySplit (ws0 ++ (k ++ (ws1 ++ (m ++ ws2)))) = [k, m] := by
  unfold pySplit
  rw [splitGo_spaces h0, splitGo_word hk']
  cases ws1 with
  | nil => exact absurd rfl h1
  | cons c ws1 =>
      rw [List.cons_append, splitGo_space_after_word (h1' c (by simp)) (by simpa using hk)]
      rw [splitGo_spaces (fun d hd => h1' d (by simp [hd])), splitGo_word hm']
      simp only [List.append_nil, List.reverse_reverse]
      cases ws2 with
      | nil => simp [splitGo, hm]
      | cons d ws2 =>
          rw [splitGo_space_after_word (h2 d (by simp)) (by simpa using hm)]
          have := splitGo_spaces (ws := ws2) (fun e he => h2 e (by simp [he])) []
          simp only [List.append_nil] at this
          rw [this]
          simp [splitGo]


/-! ### small facts about single checks (used by Props/C14) -/

theorem notNby2_false_iff (s : List Nat) : notNby2 s = false ↔ ∃ n, s = [n, 2] := by
  unfold notNby2
  split
  · rename_i n m
    by_cases hm : m = 2 <;> simp [hm]
  · rename_i h
    simp only [Bool.true_eq_false, false_iff]
    rintro ⟨n, rfl⟩
    exact h n 2 rfl

theorem rabs_rabs (x : Rat) : rabs (rabs x) = rabs x := by
  simp [rabs_eq_abs]

theorem unit_interval_check (w : Rat) : (decide (w < 0) || decide (1 < w)) = false ↔ 0 ≤ w ∧ w ≤ 1 := by
  simp [not_lt]

theorem voicing_range_check (xs : List Rat) :
    (xs.any fun x => decide (x < 0) || decide (1 < x)) = false ↔ ∀ x ∈ xs, 0 ≤ x ∧ x ≤ 1 := by
  simp [not_lt]

theorem mode_no_blank {m : List Char} (hm : m ∈ modeTable) : m ≠ [] ∧ ∀ c ∈ m, isPySpace c = false := by
  simp only [modeTable, List.map_cons, List.map_nil, List.mem_cons, List.not_mem_nil, or_false] at hm
  rcases hm with rfl | rfl | rfl <;> exact ⟨by decide, by decide⟩

/-- `np.allclose(a, b)`: `|a - b| ≤ 1e-8 + 1e-5 |b|` -/
def Close (a b : Rat) : Prop := |a - b| ≤ 1 / 100000000 + 1 / 100000 * |b|

theorem allclose_iff (a b : Rat) : allclose a b = true ↔ Close a b := by
  simp [allclose, Close, rabs_eq_abs]

/-- the earliest time of the annotation is (close to) 0 -/
def StartsAtZero (iv : Arr) : Prop := ∀ m, IsLeastOf iv.data m → Close m 0

/-- the latest times of the two annotations are close -/
def EndTogether (ri ei : Arr) : Prop := ∀ a b, IsGreatestOf ri.data a → IsGreatestOf ei.data b → Close a b

theorem startsAtZero_total (iv : Arr) : OkOrVE (startsAtZero iv) := by
  unfold startsAtZero
  split
  · rename_i h
    have hne : iv.data ≠ [] := by intro h0; simp [Arr.size, h0] at h
    obtain ⟨m, hm, _⟩ := npMin_spec hne
    rw [hm]; exact check_total _
  · exact okOrVE_ok

theorem startsAtZero_ok_iff (iv : Arr) : startsAtZero iv = .ok () ↔ StartsAtZero iv := by
  unfold startsAtZero StartsAtZero
  by_cases hne : iv.data = []
  · simp [Arr.size, hne, IsLeastOf]
  · have hsz : iv.size > 0 := by
      simp only [Arr.size]; exact List.length_pos_iff.2 hne
    obtain ⟨m, hm, hl⟩ := npMin_spec hne
    simp only [hsz, if_true, hm, bind, Except.bind, check_ok_iff, Bool.not_eq_false', allclose_iff]
    constructor
    · intro h m' hm'; rw [← hl.unique hm']; exact h
    · intro h; exact h m hl

theorem endTogether_total (ri ei : Arr) : OkOrVE (endTogether ri ei) := by
  unfold endTogether
  split
  · rename_i h
    simp only [Bool.and_eq_true, decide_eq_true_eq] at h
    have h1 : ri.data ≠ [] := by intro h0; simp [Arr.size, h0] at h
    have h2 : ei.data ≠ [] := by intro h0; simp [Arr.size, h0] at h
    obtain ⟨a, ha, _⟩ := npMax_spec h1
    obtain ⟨b, hb, _⟩ := npMax_spec h2
    rw [ha, hb]; exact check_total _
  · exact okOrVE_ok

theorem endTogether_ok_iff (ri ei : Arr) : endTogether ri ei = .ok () ↔ EndTogether ri ei := by
  unfold endTogether EndTogether
  by_cases h1 : ri.data = []
  · simp [Arr.size, h1, IsGreatestOf]
  by_cases h2 : ei.data = []
  · simp [Arr.size, h2, IsGreatestOf]
  have hsz : (decide (ri.size > 0) && decide (ei.size > 0)) = true := by
    have l1 := List.length_pos_iff.2 h1
    have l2 := List.length_pos_iff.2 h2
    simp [Arr.size, l1, l2]
  obtain ⟨a, ha, hla⟩ := npMax_spec h1
  obtain ⟨b, hb, hlb⟩ := npMax_spec h2
  simp only [hsz, if_true, ha, hb, bind, Except.bind, check_ok_iff, Bool.not_eq_false', allclose_iff]
  constructor
  · intro h a' b' ha' hb'; rw [← hla.unique ha', ← hlb.unique hb']; exact h
  · intro h; exact h a b hla hlb

theorem windowCheck_total (fs : Rat) (w : Option Rat) : OkOrVE (windowCheck fs w) := by
  cases w with
  | none => exact okOrVE_ok
  | some w => exact check_total _

theorem windowCheck_ok_iff (fs : Rat) (w : Option Rat) :
    windowCheck fs w = .ok () ↔ ∀ w', w = some w' → fs ≤ w' := by
  cases w with
  | none => simp [windowCheck]
  | some w => simp [windowCheck, check_ok_iff]

theorem labels_ok_or_invalidChord (xs : List Bool) :
    forEach labelCheck xs = .ok () ∨ forEach labelCheck xs = .error .invalidChord := by
  induction xs with
  | nil => exact Or.inl rfl
  | cons b t ih =>
      cases b
      · exact Or.inr rfl
      · simpa [forEach, labelCheck, bind, Except.bind] using ih

theorem labels_ok_iff (xs : List Bool) : forEach labelCheck xs = .ok () ↔ ∀ b ∈ xs, b = true := by
  rw [forEach_ok_iff]
  constructor
  · intro h b hb; have := h b hb; cases b <;> simp_all [labelCheck]
  · intro h b hb; rw [h b hb]; rfl

theorem silentCheck_total (s : Src) : OkOrVE (silentCheck s) := by
  unfold silentCheck anySourceSilent
  split
  · exact okOrVE_ok
  · split
    · exact okOrVE_ve
    · exact check_total _

theorem silentCheck_ok_iff (s : Src) :
    silentCheck s = .ok () ↔ (s.size ≠ 0 → 2 ≤ s.shape.length ∧ ∀ b ∈ s.silent, b = false) := by
  unfold silentCheck anySourceSilent Src.ndim
  by_cases h0 : s.size = 0
  · simp [h0]
  · by_cases h2 : s.shape.length < 2
    · simp [h0, h2, bind, Except.bind]
    · simp [h0, h2, bind, Except.bind, check_ok_iff]
      omega

theorem src_shape0_ok_iff {s : Src} {n : Nat} : s.shape0 = .ok n ↔ s.shape.head? = some n := by
  unfold Src.shape0
  cases s.shape <;> simp

/-- a 0-d "matrix" has one element, so it never gets past the silence check -/
theorem silentCheck_zero_dim {s : Src} (h : s.shape = []) : silentCheck s = .error .valueError := by
  simp [silentCheck, anySourceSilent, Src.size, Src.ndim, h, Arr.prodL, bind, Except.bind]

end Mir.Validate
