import MirProofs.Lemmas.EventWindow
/-!
  C01 — proportion-type scores are finite and lie in [0,1]: the part shared by every hit-based score and by
  `util.f_measure`.  Task-specific range theorems are in `MirProofs/Props/C01_<Task>.lean`.
  (Model scores are exact rationals, hence finite by construction; `nan`/`inf` are explicit constructors
  of the protocol value type and are compared with the code by the correspondence suites.)
-/
namespace Mir.C01

/-- `util.f_measure` maps [0,1]² into [0,1] for every beta. -/
theorem f_measure_range (p r b : Rat) (hp0 : 0 ≤ p) (hr0 : 0 ≤ r) (hp : p ≤ 1) (hr : r ≤ 1) :
    0 ≤ fMeasure p r b ∧ fMeasure p r b ≤ 1 :=
  ⟨fMeasure_nonneg hp0 hr0, fMeasure_le_one hp0 hr0 hp hr⟩

/-- Every hit-based precision / recall / F — any feasibility predicate, any two item lists (empty,
    duplicated, of any size), any beta — lies in [0,1]. -/
theorem hit_prf_range {α β : Type} (feas : α → β → Bool) (ref : List α) (est : List β) (beta : Rat) :
    let s := hitPRF feas ref est beta
    (0 ≤ s.1 ∧ s.1 ≤ 1) ∧ (0 ≤ s.2.1 ∧ s.2.1 ≤ 1) ∧ (0 ≤ s.2.2 ∧ s.2.2 ≤ 1) :=
  hitPRF_range feas ref est beta

/-- the count of hits never exceeds either side -/
theorem hits_le_sides {α β : Type} (feas : α → β → Bool) (ref : List α) (est : List β) :
    hitCount feas ref est ≤ ref.length ∧ hitCount feas ref est ≤ est.length :=
  ⟨hitCount_le_ref feas ref est, hitCount_le_est feas ref est⟩

example : hitPRF (withinWindow (1/2)) [0, 1, 2] [(1/2 : Rat), 5] 1 = (1/2, 1/3, 2/5) := by
  unfold hitPRF hitCount
  rw [maxMatchSize_eq_bruteMax]
  decide +kernel

end Mir.C01
