import MirProofs.Lemmas.Alignment
/-!
  C01 (alignment) — whenever the functions return: median and mean absolute error are numbers ≥ 0,
  percentage_correct and percentage_correct_segments (both variants) lie in [0, 1]; the perceptual metric,
  which is documented as *not* reaching 1, is ≥ 0 for every interpretation of `exp` / `erf` with
  `exp ≥ 0`, `erf ≥ -1` over an ordered field (the executed instance is `Float`).
-/
namespace Mir.C01.Alignment
open Mir.Alignment Mir.MiscStats

theorem abs_err_nonneg (ref est : List Rat) (s : Option Rat × Option Rat) (h : absoluteError ref est = .ok s) :
    ∃ mae aae : Rat, s = (some mae, some aae) ∧ 0 ≤ mae ∧ 0 ≤ aae := by
  have hv := validate_of_ok (fun hv => absoluteError_of_invalid hv) h
  rw [absoluteError_of_valid hv] at h
  cases h
  have hv' := (validate_ok_iff ref est).1 hv
  have hne := deviations_ne_nil hv'.1 hv'.2.1
  obtain ⟨m, hm⟩ := median?_isSome hne
  obtain ⟨a, ha⟩ := mean?_isSome hne
  refine ⟨m, a, by rw [hm, ha], median?_ge (fun x hx => deviations_nonneg x hx) hm, ?_⟩
  have hmax : ∀ x ∈ deviations ref est, 0 ≤ x ∧ x ≤ (deviations ref est).sum := by
    intro x hx
    exact ⟨deviations_nonneg x hx, List.single_le_sum (fun y hy => deviations_nonneg y hy) x hx⟩
  exact (mean?_bounds hmax ha).1

theorem pc_range (ref est : List Rat) (w : Rat) (s : Option Rat) (h : percentageCorrect ref est w = .ok s) :
    ∃ pc : Rat, s = some pc ∧ 0 ≤ pc ∧ pc ≤ 1 := by
  have hv := validate_of_ok (fun hv => percentageCorrect_of_invalid w hv) h
  rw [percentageCorrect_of_valid w hv] at h
  cases h
  have hv' := (validate_ok_iff ref est).1 hv
  have hne : ((deviations ref est).map fun x => if x ≤ w then (1 : Rat) else 0) ≠ [] := by
    simpa using deviations_ne_nil hv'.1 hv'.2.1
  obtain ⟨m, hm⟩ := mean?_isSome hne
  refine ⟨m, hm, mean?_bounds (lo := 0) (hi := 1) (fun x hx => ?_) hm⟩
  obtain ⟨y, _, rfl⟩ := List.mem_map.1 hx
  split <;> simp

theorem pcs_range (ref est : List Rat) (d : Option Rat) (x : Rat)
    (h : percentageCorrectSegments ref est d = .ok x) : 0 ≤ x ∧ x ≤ 1 := by
  have hv := validate_of_ok (fun hv => pcs_of_invalid d hv) h
  have hv' := (validate_ok_iff ref est).1 hv
  cases d with
  | none =>
    obtain ⟨first, hf⟩ : ∃ a, ref.head? = some a := by
      cases ref with
      | nil => exact absurd rfl hv'.1
      | cons a _ => exact ⟨a, rfl⟩
    obtain ⟨last, hl⟩ : ∃ a, ref.getLast? = some a := ⟨_, List.getLast?_eq_some_getLast hv'.1⟩
    by_cases hd : 0 < last - first
    · rw [pcs_mirex_of_valid hv hf hl hd] at h
      cases h
      have hle := overlapDur_le (segsMirex ref) (segsMirex est)
        (by rw [segsMirex_eq_zip_tail]; exact hv'.2.2.1)
      rw [segLen_segsMirex hf hl] at hle
      exact ⟨div_nonneg (overlapDur_nonneg _ _) hd.le, (div_le_one hd).2 hle⟩
    · simp [percentageCorrectSegments, hv, hf, hl, not_lt.1 hd, bind, Except.bind] at h
  | some d =>
    rcases ref with _ | ⟨r0, rs⟩
    · exact absurd rfl hv'.1
    rcases est with _ | ⟨e0, es⟩
    · simp at hv'
    by_cases hd : 0 < d
    swap
    · simp [percentageCorrectSegments, hv, not_lt.1 hd, bind, Except.bind] at h
    by_cases hr : maxOf r0 rs ≤ d
    swap
    · simp [percentageCorrectSegments, hv, not_le.2 hd, not_le.1 hr, bind, Except.bind] at h
    by_cases he : maxOf e0 es ≤ d
    swap
    · simp [percentageCorrectSegments, hv, not_le.2 hd, not_lt.2 hr, not_le.1 he, bind, Except.bind] at h
    rw [pcs_dur_of_valid hv hd hr he] at h
    cases h
    have hle := overlapDur_le (segsDur (r0 :: rs) d) (segsDur (e0 :: es) d)
      (segsDur_ordered hv'.2.2.1 hv'.2.2.2.2.1 (fun x hx => le_trans (le_maxOf r0 rs x hx) hr) hd.le)
    rw [segLen_segsDur] at hle
    exact ⟨div_nonneg (overlapDur_nonneg _ _) hd.le, (div_le_one hd).2 hle⟩

/-- the perceptual score of one offset is ≥ 0 whenever `exp ≥ 0`, `erf ≥ -1` and the constant standing for √(2π)
    is positive (any ordered field; rational constants embedded by the canonical cast) -/
theorem perceptual_score_nonneg {α : Type} [Field α] [LinearOrder α] [IsStrictOrderedRing α]
    (o : TrOps α) (hof : ∀ q : Rat, o.ofRat q = (q : α)) (hexp : ∀ x, 0 ≤ o.exp x) (herf : ∀ x, -1 ≤ o.erf x)
    (h2pi : 0 < o.sqrt2pi) (offset : α) : 0 ≤ perceptualScore o offset := by
  unfold perceptualScore
  simp only [hof]
  have hn : (0 : α) < ((normalisation : Rat) : α) := by
    have : (0 : Rat) < normalisation := by unfold normalisation; norm_num
    exact_mod_cast this
  have hs : (0 : α) < ((scale : Rat) : α) := by
    have : (0 : Rat) < scale := by unfold scale; norm_num
    exact_mod_cast this
  have hcdf : (0 : α) ≤ ((1 : Rat) : α) + o.erf (((skewness : Rat) : α) *
      ((offset - ((localisation : Rat) : α)) / ((scale : Rat) : α)) / o.sqrt2) := by
    have := herf (((skewness : Rat) : α) * ((offset - ((localisation : Rat) : α)) / ((scale : Rat) : α)) / o.sqrt2)
    simp only [Rat.cast_one]; linarith
  have hpdf := hexp (-((offset - ((localisation : Rat) : α)) / ((scale : Rat) : α) *
      ((offset - ((localisation : Rat) : α)) / ((scale : Rat) : α))) / ((2 : Rat) : α))
  have h2' : (0 : α) < ((2 : Rat) : α) := by norm_num
  have h1' : (0 : α) ≤ ((1 : Rat) : α) := by norm_num
  apply mul_nonneg (div_nonneg h1' hn.le)
  apply div_nonneg _ hs.le
  apply mul_nonneg (mul_nonneg h2'.le (div_nonneg hpdf h2pi.le))
  exact div_nonneg hcdf h2'.le

theorem perceptual_mean_nonneg {α : Type} [Field α] [LinearOrder α] [IsStrictOrderedRing α]
    (o : TrOps α) (hof : ∀ q : Rat, o.ofRat q = (q : α)) (hexp : ∀ x, 0 ≤ o.exp x) (herf : ∀ x, -1 ≤ o.erf x)
    (h2pi : 0 < o.sqrt2pi) (offsets : List α) : 0 ≤ perceptualMean o offsets := by
  unfold perceptualMean
  have hsum : 0 ≤ perceptualSum o offsets := by
    induction offsets with
    | nil => simp [perceptualSum, hof]
    | cons x xs ih =>
      simp only [perceptualSum]
      exact add_nonneg (perceptual_score_nonneg o hof hexp herf h2pi x) ih
  apply div_nonneg hsum
  rw [hof]
  exact_mod_cast Nat.zero_le _

/-! non-vacuity -/
example : absoluteError [1, 2, 4] [1, 5 / 2, 4] = .ok (some 0, some (1 / 6)) := by decide +kernel
example : percentageCorrect [1, 2, 4] [1, 5 / 2, 4] (3 / 10) = .ok (some (2 / 3)) := by decide +kernel
example : percentageCorrectSegments [1, 2, 4] [1, 5 / 2, 4] none = .ok (5 / 6) := by decide +kernel
example : percentageCorrectSegments [1, 2, 4] [1, 5 / 2, 4] (some 5) = .ok (9 / 10) := by decide +kernel
example : percentageCorrectSegments [1, 1] [1, 2] none = .error .valueError := by decide +kernel
/-- the hypotheses of `perceptual_score_nonneg` are satisfiable (over ℚ: exp := 1, erf := 0) -/
example : 0 ≤ perceptualScore (α := Rat) ⟨fun q => q, fun _ => 1, fun _ => 0, 1, 1⟩ 0 :=
  perceptual_score_nonneg (α := Rat) ⟨fun q => q, fun _ => 1, fun _ => 0, 1, 1⟩ (fun q => by simp)
    (fun _ => by norm_num) (fun _ => by norm_num) (by norm_num) 0

end Mir.C01.Alignment
