import MirProofs.Lemmas.BeatReal
import MirProofs.Lemmas.BeatPScore
/-!
  C01 (beat) — ranges of the beat scores, for every input on which the function returns a value.
  `Beat.*` is the executable model of `mir_eval.beat` (MirModel/Beat.lean); `realOps` is its `ℝ` reading.
-/
namespace Mir.C01.Beat
open Mir.Beat

/-- `beat.f_measure` lies in [0, 1] for every pair of beat sequences and every window. -/
theorem f_measure_range (ref est : List Rat) (thr v : Rat) (h : Beat.fMeasure ref est thr = .ok v) :
    0 ≤ v ∧ v ≤ 1 := by
  obtain ⟨_, rfl⟩ := (fMeasure_ok_iff ref est thr v).1 h
  exact fMeasureCore_range ref est thr

/-- `beat.goto` is a binary score: whenever it returns, it returns exactly 0 or exactly 1. -/
theorem goto_binary (ref est : List Rat) (thr mu sigma v : Rat) (h : Beat.goto ref est thr mu sigma = .ok v) :
    v = 0 ∨ v = 1 := by
  unfold Beat.goto at h
  rw [bind_ok_iff] at h
  obtain ⟨⟨v', tie⟩, h1, h2⟩ := h
  simp only [pure, Except.pure, Except.ok.injEq] at h2
  subst h2
  unfold gotoFull at h1
  rw [validate_bind_ok] at h1
  exact gotoCore_binary h1.2

/-- All four continuity scores (CMLc, CMLt, AMLc, AMLt) lie in [0, 1]. -/
theorem continuity_range (ref est : List Rat) (p q c t ac at' : Rat)
    (h : Beat.continuity ref est p q = .ok (c, t, ac, at')) :
    (0 ≤ c ∧ c ≤ 1) ∧ (0 ≤ t ∧ t ≤ 1) ∧ (0 ≤ ac ∧ ac ≤ 1) ∧ (0 ≤ at' ∧ at' ≤ 1) := by
  obtain ⟨h0, h1, h2, h3, h4, h5, h6⟩ := continuityCore_ok ((continuity_ok_iff _ _ _ _ _).1 h).2
  refine ⟨⟨h0, ?_⟩, ⟨?_, h2⟩, ⟨?_, ?_⟩, ⟨?_, h6⟩⟩ <;> linarith

/-- The P-score is never negative. -/
theorem p_score_nonneg (ref est : List Rat) (thr v : Rat) (h : Beat.pScore ref est thr = .ok v) : 0 ≤ v := by
  unfold Beat.pScore at h
  rw [validate_bind_ok] at h
  obtain ⟨_, h⟩ := h
  simp only [pure, Except.pure, Except.ok.injEq] at h
  subst h
  unfold pScoreCore
  split
  · split
    · exact le_refl _
    · positivity
  · exact le_refl _

/-- The P-score is a finite value (never an exception) on every input that passes validation — in particular
    when all reference beats fall into one 10 ms sample (the repaired `int(nan)` defect: the score is then 0). -/
theorem p_score_defined (ref est : List Rat) (thr : Rat) (hv : validate ref est = .ok ()) :
    Beat.pScore ref est thr = .ok (pScoreCore ref est thr) := by
  unfold Beat.pScore
  rw [validate_bind_ok]
  exact ⟨hv, rfl⟩

/-- no inter-annotation interval (all reference beats in one sample): the score is 0 -/
theorem p_score_single_sample (r r' e e' : Rat) (rs es : List Rat) (thr : Rat)
    (h : pScoreParts r (r' :: rs) e (e' :: es) thr = none) :
    pScoreCore (r :: r' :: rs) (e :: e' :: es) thr = 0 := by
  simp only [pScoreCore, h]

/-- Both Cemgil scores are non-negative (real-number reading of the model). -/
theorem cemgil_nonneg (ref est : List Rat) (sigma : Rat) :
    0 ≤ (cemgilCore realOps ref est sigma).1 ∧ 0 ≤ (cemgilCore realOps ref est sigma).2 := by
  rcases ref with _ | ⟨r, rs⟩
  · simp [cemgilCore, realOps]
  rcases est with _ | ⟨e, es⟩
  · simp [cemgilCore, realOps]
  simp only [cemgilCore]
  have h0 := cemgilAcc_nonneg sigma (r :: rs) e es
  exact ⟨h0, le_trans h0 (maxT_real_ge _ _)⟩

/-- Full-strength claim "Cemgil accuracy ≤ 1 on every valid input".  It is FALSE of the code as it is. -/
def cemgil_le_one_full_statement : Prop :=
  ∀ (ref est : List Rat) (sigma : Rat), validate ref est = .ok () → sigma ≠ 0 →
    (cemgilCore realOps ref est sigma).1 ≤ 1

/-- three coincident reference beats against one estimate on the same instant: accuracy 3 / 2 -/
theorem cemgil_le_one_full_statement_false : ¬ cemgil_le_one_full_statement := by
  intro h
  have h1 := h [5, 5, 5] [5] (1 / 25) (by decide +kernel) (by norm_num)
  have h2 : (cemgilCore realOps [5, 5, 5] [5] (1 / 25)).1 = 3 / 2 := by
    simp only [cemgilCore]
    rw [cemgilAcc_real]
    have hd : ∀ b ∈ ([5, 5, 5] : List Rat), minAbsDiff b 5 [] = 0 := by
      intro b hb; apply minAbsDiff_mem; simpa using hb
    simp only [List.map_cons, List.map_nil, hd 5 (by simp), gaussW_zero]
    norm_num
  rw [h2] at h1
  norm_num at h1

/-- The strongest true version: with at least as many estimated as reference beats the accuracy is ≤ 1. -/
theorem cemgil_le_one_partial (ref est : List Rat) (sigma : Rat) (h : ref.length ≤ est.length) :
    (cemgilCore realOps ref est sigma).1 ≤ 1 := by
  rcases ref with _ | ⟨r, rs⟩
  · simp [cemgilCore, realOps]
  rcases est with _ | ⟨e, es⟩
  · simp [cemgilCore, realOps]
  simp only [cemgilCore]
  exact cemgilAcc_le_one sigma (r :: rs) e es (by simpa using h)

/-- ... and with at least 2n-1 estimates for n reference beats the best-metric-level score is ≤ 1 as well. -/
theorem cemgil_best_le_one_partial (ref est : List Rat) (sigma : Rat) (h : 2 * ref.length - 1 ≤ est.length) :
    (cemgilCore realOps ref est sigma).2 ≤ 1 := by
  rcases ref with _ | ⟨r, rs⟩
  · simp [cemgilCore, realOps]
  rcases est with _ | ⟨e, es⟩
  · simp [cemgilCore, realOps]
  simp only [cemgilCore]
  have hv := variations_length_le (r :: rs) (by simp)
  apply maxT_real_le
  · apply cemgilAcc_le_one
    have := hv (r :: rs) (by simp [variations])
    simp only [List.length_cons] at h this ⊢; omega
  · intro x hx
    obtain ⟨v, hvm, rfl⟩ := List.mem_map.1 hx
    apply cemgilAcc_le_one
    have := hv v (List.mem_of_mem_drop hvm)
    simp only [List.length_cons] at h this ⊢; omega

/-- P-score ≤ 1 under the statement's separation condition (in fact separation of the *estimated* beats is
    enough): if the quantised estimated beats are more than twice the correlation window apart, the windowed
    correlation sum `cnt` is at most the number of reference beats, hence `cnt / max(|est|, |ref|) ≤ 1`.
    `win` is the window the code computes (`round(thr · median inter-annotation interval)`, in 10 ms samples). -/
theorem p_score_le_one (r r' e e' : Rat) (rs es : List Rat) (thr : Rat) (win : Int) (N cnt : Nat)
    (h : pScoreParts r (r' :: rs) e (e' :: es) thr = some (win, N, cnt)) (hw : 0 ≤ win)
    (hsep : (diffs (trainSupport (e :: e' :: es) (min (minList e (e' :: es)) (minList r (r' :: rs))))).all
      (fun d => decide (2 * win < d)) = true) :
    cnt ≤ rs.length + 2 ∧
      0 ≤ pScoreCore (r :: r' :: rs) (e :: e' :: es) thr ∧ pScoreCore (r :: r' :: rs) (e :: e' :: es) thr ≤ 1 := by
  have hcnt : cnt ≤ rs.length + 2 := by
    unfold pScoreParts at h
    simp only [] at h
    split at h
    · simp at h
    · simp only [Option.some.injEq, Prod.mk.injEq] at h
      obtain ⟨rfl, rfl, rfl⟩ := h
      refine le_trans (pairCount_le _ _ _ _ hw hsep) ?_
      exact le_trans (trainSupport_length_le _ _) (by simp)
  refine ⟨hcnt, ?_⟩
  simp only [pScoreCore, h]
  have hm : (cnt : Rat) ≤ ((max (es.length + 2) (rs.length + 2) : Nat) : Rat) := by
    exact_mod_cast le_trans hcnt (le_max_right _ _)
  have hpos : (0 : Rat) < ((max (es.length + 2) (rs.length + 2) : Nat) : Rat) := by
    have : 0 < max (es.length + 2) (rs.length + 2) := by omega
    exact_mod_cast this
  exact ⟨by positivity, (div_le_one hpos).2 hm⟩

/-- Planned, not proved (needs Gibbs' inequality `H ≤ log2 bins` over ℝ): information gain lies in [0, 1]. -/
def information_gain_range_statement : Prop :=
  ∀ (ref est : List Rat) (bins : Nat) (x : ℝ) (tie : Bool), 2 ≤ bins →
    informationGainCore realOps ref est bins = .ok (some x, tie) → 0 ≤ x ∧ x ≤ 1

/-! non-vacuity -/
example : Beat.fMeasure [5, 6] [5] (1 / 4) = .ok (2 / 3) := by
  rw [fMeasure_ok_iff]
  refine ⟨by decide +kernel, ?_⟩
  rw [fMeasureCore_eq _ _ _ (by simp) (by simp)]
  unfold hitCount
  rw [maxMatchSize_eq_bruteMax]
  decide +kernel
example : Beat.goto [5, 6, 7, 8, 9] [5, 6, 7, 8, 9] = .ok 1 := by decide +kernel
example : Beat.goto [5, 6, 7, 8, 9] [5, 6, 27 / 4, 8, 9] = .ok 0 := by decide +kernel
example : Beat.continuity [5, 6, 7, 8] [5, 6, 7, 17 / 2] = .ok (3 / 4, 3 / 4, 3 / 4, 3 / 4) := by decide +kernel
example : Beat.pScore [5, 6, 7] [5, 6, 15 / 2] = .ok (2 / 3) := by decide +kernel
example : ([5, 6] : List Rat).length ≤ ([5, 6, 7] : List Rat).length ∧
    2 * ([5, 6] : List Rat).length - 1 ≤ ([5, 6, 7] : List Rat).length := by decide
example : pScoreParts 5 [6, 7] 5 [6, 15 / 2] (1 / 5) = some (20, 301, 2) := by decide +kernel
example : pScoreParts 5 [5] 5 [6, 7] (1 / 5) = none ∧ Beat.pScore [5, 5] [5, 6, 7] = .ok 0 := by decide +kernel
example : (diffs (trainSupport [5, 6, 15 / 2] 5)).all (fun d => decide (2 * 20 < d)) = true := by decide +kernel
/-- without separation the P-score does exceed 1 (the statement's carve-out is needed) -/
example : Beat.pScore [5, 501 / 100, 6] [5, 501 / 100, 6] = .ok (5 / 3) := by decide +kernel

end Mir.C01.Beat
