import MirProofs.Lemmas.Boundary
/-!
  C01 (segment boundaries) — whenever `segment.detection` returns, P, R, F are rationals in [0, 1]
  (any intervals, window, beta, trim); whenever `segment.deviation` returns, both deviations are NaN exactly
  when one side has no boundaries (after trimming), and otherwise both are finite and ≥ 0.
-/
namespace Mir.C01.Boundary
open Mir.Boundary Mir.MiscStats

theorem detection_range (ref est : List (Rat × Rat)) (w beta : Rat) (trim : Bool) (s : Rat × Rat × Rat)
    (h : detection ref est w beta trim = .ok s) :
    (0 ≤ s.1 ∧ s.1 ≤ 1) ∧ (0 ≤ s.2.1 ∧ s.2.1 ≤ 1) ∧ (0 ≤ s.2.2 ∧ s.2.2 ≤ 1) := by
  rw [detection_of_valid w beta (validate_of_detection_ok h)] at h
  cases h
  exact hitPRF_range (withinWindow w) _ _ beta

/-- `none` = NaN: NaN on both outputs exactly when a side has no boundaries; otherwise two numbers ≥ 0 -/
theorem deviation_range (ref est : List (Rat × Rat)) (trim : Bool) (s : Option Rat × Option Rat)
    (h : deviation ref est trim = .ok s) :
    ((boundaries ref trim = [] ∨ boundaries est trim = []) → s = (none, none)) ∧
    (boundaries ref trim ≠ [] → boundaries est trim ≠ [] →
        ∃ a b : Rat, s = (some a, some b) ∧ 0 ≤ a ∧ 0 ≤ b) := by
  have hv := validate_of_deviation_ok h
  constructor
  · intro he
    rw [deviation_of_valid_empty hv he] at h
    cases h; rfl
  · intro hr he
    obtain ⟨r0, rs, hr'⟩ := List.exists_cons_of_ne_nil hr
    obtain ⟨e0, es, he'⟩ := List.exists_cons_of_ne_nil he
    rw [deviation_of_valid_cons hv hr' he'] at h
    cases h
    obtain ⟨a, ha⟩ := median?_isSome (xs := (r0 :: rs).map fun r => minOver (fun e => absQ (r - e)) e0 es) (by simp)
    obtain ⟨b, hb⟩ := median?_isSome (xs := (e0 :: es).map fun e => minOver (fun r => absQ (r - e)) r0 rs) (by simp)
    refine ⟨a, b, by rw [ha, hb], ?_, ?_⟩
    · refine median?_ge (fun x hx => ?_) ha
      obtain ⟨r, _, rfl⟩ := List.mem_map.1 hx
      exact minOver_nonneg (fun _ => absQ_nonneg _) _ _
    · refine median?_ge (fun x hx => ?_) hb
      obtain ⟨e, _, rfl⟩ := List.mem_map.1 hx
      exact minOver_nonneg (fun _ => absQ_nonneg _) _ _

/-! non-vacuity -/
example : deviation [(0, 1), (1, 3)] [(0, 2), (2, 3)] false = .ok (some 0, some 0) := by decide +kernel
example : deviation [(0, 1), (1, 3)] [(0, 2), (2, 3)] true = .ok (some 1, some 1) := by decide +kernel
example : deviation [(0, 3)] [(0, 2), (2, 3)] true = .ok (none, none) := by decide +kernel

end Mir.C01.Boundary
