import MirProofs.Lemmas.ChordRange
/-!
  C01 — chord: `weighted_accuracy`, `directional_hamming_distance`, `overseg`, `underseg`, `seg` and every score of
  `chord.evaluate` lie in [0, 1].

  `Num` = a float64 result that may be `nan`.  The segmentation scores are proved to be numbers in [0, 1] for ALL
  inputs on which they return (validation + the overlap test leave only time-ordered, non-overlapping rows of
  positive duration).  `weighted_accuracy` as a public function is NOT always a number: when some entry is
  comparable but the comparable entries have total weight 0 while a non-comparable one has positive weight, the
  code divides 0 by 0 (`weighted_accuracy_range_full_statement_false`; known finding
  `wacc_comparable_weight_zero`).  Inside `chord.evaluate` the weights are durations of validated intervals,
  strictly positive, and every accuracy is a number in [0, 1] (`evaluate_range`).
-/
namespace Mir.C01.Chord
open Mir Mir.Iv

/-- the full claim for the public function: comparisons in {−1, 0, 1}, weights ≥ 0, same length ⇒ a number in [0, 1] -/
def weighted_accuracy_range_full_statement : Prop :=
  ∀ cs ws : List Rat, cs.length = ws.length → (∀ c ∈ cs, c = -1 ∨ c = 0 ∨ c = 1) → (∀ w ∈ ws, 0 ≤ w) →
    ∃ v, wacc cs ws = .ok (.val v) ∧ 0 ≤ v ∧ v ≤ 1

/-- false: `weighted_accuracy([1, -1], [0, 1])` is `nan` (0/0 over the comparable entries) -/
theorem weighted_accuracy_range_full_statement_false : ¬ weighted_accuracy_range_full_statement := by
  intro h
  obtain ⟨v, hv, _⟩ := h [1, -1] [0, 1] rfl (by decide +kernel) (by decide +kernel)
  revert hv
  have : wacc [1, -1] [0, 1] = .ok .nan := by decide +kernel
  rw [this]
  intro hv
  cases hv

/-- strongest true version: whatever is returned (comparisons `≤ 1`, any weights) is a number in [0, 1], or `nan`
    exactly in the region described above -/
theorem weighted_accuracy_range_partial {cs ws : List Rat} {x : Num} (hc : ∀ c ∈ cs, c ≤ 1)
    (h : wacc cs ws = .ok x) :
    (x = .nan ∧ validPairs cs ws ≠ [] ∧ vTotal cs ws = 0 ∧ qsum ws ≠ 0) ∨ ∃ v, x = .val v ∧ 0 ≤ v ∧ v ≤ 1 :=
  wacc_ok_range hc h

/-- with strictly positive weights the result is always a number in [0, 1] -/
theorem weighted_accuracy_range_pos {cs ws : List Rat} {x : Num} (hc : ∀ c ∈ cs, c ≤ 1) (hw : ∀ w ∈ ws, 0 < w)
    (h : wacc cs ws = .ok x) : ∃ v, x = .val v ∧ 0 ≤ v ∧ v ≤ 1 :=
  wacc_ok_range_pos hc hw h

/-- totality on well-formed arguments with positive weights -/
theorem weighted_accuracy_total {cs ws : List Rat} (hlen : cs.length = ws.length) (hc : ∀ c ∈ cs, c ≤ 1)
    (hw : ∀ w ∈ ws, 0 < w) : ∃ v, wacc cs ws = .ok (.val v) ∧ 0 ≤ v ∧ v ≤ 1 := by
  have hex : ∃ x, wacc cs ws = .ok x := by
    rw [wacc_eq]
    have h2 : ¬ ws.any (fun w => decide (w < 0)) = true := by
      simp only [List.any_eq_true, decide_eq_true_eq, not_exists, not_and, not_lt]
      exact fun w hw' => le_of_lt (hw w hw')
    rw [if_neg (by simp [hlen]), if_neg h2]
    repeat' split
    all_goals exact ⟨_, rfl⟩
  obtain ⟨x, hx⟩ := hex
  obtain ⟨v, rfl, h0, h1⟩ := wacc_ok_range_pos hc hw hx
  exact ⟨v, hx, h0, h1⟩

/-- what `validate_intervals` and the overlap test accept: time-ordered, non-overlapping, positive durations -/
theorem accepted_is_chain {xs : Ivals} (hv : validateIntervals xs = .ok ()) (ho : overlaps xs = false) :
    ChainP 0 xs := chainP_of_valid hv ho

/-- `directional_hamming_distance`: for ALL inputs, a returned value is a number (never `nan`) in [0, 1] -/
theorem dhd_range {ref est : Ivals} {x : Num} (h : dhd ref est = .ok x) : ∃ v, x = .val v ∧ 0 ≤ v ∧ v ≤ 1 :=
  dhd_ok_range h

theorem overseg_range {ref est : Ivals} {x : Num} (h : overseg ref est = .ok x) :
    ∃ v, x = .val v ∧ 0 ≤ v ∧ v ≤ 1 := overseg_ok_range h

theorem underseg_range {ref est : Ivals} {x : Num} (h : underseg ref est = .ok x) :
    ∃ v, x = .val v ∧ 0 ≤ v ∧ v ≤ 1 := underseg_ok_range h

theorem seg_range {ref est : Ivals} {x : Num} (h : seg ref est = .ok x) :
    ∃ v, x = .val v ∧ 0 ≤ v ∧ v ≤ 1 := seg_ok_range h

/-- one accuracy of `chord.evaluate`, any comparison function with values in `[0, 1] ∪ {−1}` -/
theorem chord_score_range {L M : Type} (cmp : L → M → Rat) (hc : ∀ a b, cmp a b ≤ 1) {ref : LI L} {est : LI M}
    {x : Num} (h : chordScore cmp ref est = .ok x) : ∃ v, x = .val v ∧ 0 ≤ v ∧ v ≤ 1 :=
  chordScore_ok_range cmp hc h

/-- the whole `chord.evaluate` pipeline on tokens: four scores, each a number in [0, 1] -/
theorem evaluate_range {T : Type} [DecidableEq T] (cmp : T → T → Rat) (hc : ∀ a b, cmp a b ≤ 1) (noChord : T)
    {ref est : LI T} {out : List Num} (h : evaluateTokens cmp noChord ref est = .ok out) :
    out.length = 4 ∧ ∀ x ∈ out, ∃ v, x = .val v ∧ 0 ≤ v ∧ v ≤ 1 :=
  evaluateTokens_ok_range cmp hc noChord h

/-- non-vacuity -/
example :
    wacc [1, 0, -1, 1] [1/2, 1/4, 8, 1/4] = .ok (.val (3/4)) ∧ wacc [1, -1] [0, 1] = .ok .nan
    ∧ dhd [(0, 2), (2, 4)] [(0, 1), (1, 3), (3, 4)] = .ok (.val (1/2))
    ∧ overseg [(0, 2), (2, 4)] [(0, 1), (1, 3), (3, 4)] = .ok (.val (1/2))
    ∧ underseg [(0, 2), (2, 4)] [(0, 1), (1, 3), (3, 4)] = .ok (.val (3/4))
    ∧ seg [(0, 2), (2, 4)] [(0, 4)] = .ok (.val (1/2))
    ∧ evaluateTokens (fun a b : Int => if a = b then (1 : Rat) else 0) (-1)
        [((0 : Rat), (2 : Rat), 7), (2, 4, 9)] [((0 : Rat), (3 : Rat), 7), (3, 4, 9)]
        = .ok [.val (3/4), .val (3/4), .val (3/4), .val (3/4)] := by
  refine ⟨by decide +kernel, by decide +kernel, by decide +kernel, by decide +kernel, by decide +kernel,
    by decide +kernel, by decide +kernel⟩

end Mir.C01.Chord
