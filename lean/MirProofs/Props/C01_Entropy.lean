import MirProofs.Lemmas.Entropy
import MirProofs.Lemmas.EmiSupport
import MirProofs.Lemmas.BeatInfoFinite
import MirProofs.Props.C01_Beat
/-!
  C01 (entropy-based scores) — the ranges of the scores that are built from Shannon entropies, for ALL inputs,
  over the real-number reading of the model's own definitions (`Beat.realOps`, `Segment.instTranscReal`; the
  driver runs the same definitions at `Float`).  Everything rests on `log t ≤ t − 1`.

  * `beat.information_gain` ∈ [0, 1]                     (`information_gain_range`, `information_gain_public_range`)
  * … and a number (not nan) for strictly increasing estimated beats   (`information_gain_finite_of_increasing`)
  * `_get_entropy`: 0 ≤ H ≤ log2 #{non-empty bins} ≤ log2 bins   (`get_entropy_range`)
  * `_entropy(labels)`: 0 ≤ H ≤ log #labels                (`label_entropy_range`)
  * 0 ≤ MI ≤ min(H(ref), H(est))                          (`mi_range`)
  * NMI ∈ [0, 1]                                          (`nmi_range`)
  * NCE over / under / F ∈ [0, 1], both normalisations    (`nce_range`), V-measure (`vmeasure_range`)
  * AMI ≤ 1, EMI = hypergeometric expectation ≤ H          (`ami_le_one`, `emi_hypergeometric`, `emi_le_entropy`)
  * the loop's range is the whole support: weights sum to 1 (`hyp_weights_sum_one`, `emi_hypergeometric_full_support`)
  * textbook forms of `_entropy` and of the NCE / V body  (`entropy_textbook`, `nce_textbook`)
-/
namespace Mir.C01.Entropy
open Mir Mir.Entropy

/-- **Shannon entropy of a finite distribution:** `0 ≤ H(q) ≤ log #{non-zero cells} ≤ log #{cells}`. -/
theorem shannon_range (qs : List ℝ) (h0 : ∀ q ∈ qs, 0 ≤ q) (hs : qs.sum = 1) :
    0 ≤ shannon qs ∧ shannon qs ≤ Real.log (support qs) ∧ shannon qs ≤ Real.log qs.length :=
  ⟨shannon_nonneg h0 hs.le, shannon_le_log_support h0 hs, shannon_le_log_length h0 hs⟩

/-! ### beat.information_gain -/

/-- **`_get_entropy` after the histogram.** Whenever the entropy is defined (the histogram is not empty — the only
    validity condition needed for the normalised histogram to be a distribution), it lies between 0 and
    `log2` of the number of non-empty bins, hence below `log2 bins`.  The code's replacement of empty bins by 1
    before the logarithm is covered: such a bin contributes `1 · log2 1 = 0`. -/
theorem get_entropy_range (counts : List Nat) (h : ℝ)
    (he : Beat.entropyOfCounts Beat.realOps counts = some h) :
    0 ≤ h ∧ h ≤ Real.logb 2 (counts.countP fun c => decide (c ≠ 0)) ∧ h ≤ Real.logb 2 counts.length :=
  entropyOfCounts_bounds he

/-- what `_get_entropy` computes from the histogram: the Shannon entropy, in bits, of `counts / sum(counts)` -/
theorem get_entropy_textbook (counts : List Nat) (hs : counts.sum ≠ 0) :
    Beat.entropyOfCounts Beat.realOps counts = some (shannon (histDist counts) / Real.log 2) ∧
      (∀ q ∈ histDist counts, 0 ≤ q) ∧ (histDist counts).sum = 1 := by
  rw [entropyOfCounts_real, if_neg hs]
  exact ⟨rfl, histDist_nonneg counts, histDist_sum hs⟩

/-- `_get_entropy` is nan (`none`) exactly for an empty histogram (no finite beat error at all). -/
theorem get_entropy_defined_iff (counts : List Nat) :
    (Beat.entropyOfCounts Beat.realOps counts).isSome ↔ counts.sum ≠ 0 := by
  rw [entropyOfCounts_real]
  split <;> simp_all

/-- **information gain ∈ [0, 1]** (the statement left open in `C01_Beat`): for all beat sequences and any number of
    bins ≥ 2, whenever `information_gain` (after validation) returns a number `x` — i.e. not nan — that number is
    `(log2 bins − H) / log2 bins` for the entropy `H` the code selects (the backward one unless the forward one is
    strictly larger), and `0 ≤ H ≤ log2 bins`, so `0 ≤ x ≤ 1`.  Also covers the early return 0 for ≤ 1 beat. -/
theorem information_gain_range : Mir.C01.Beat.information_gain_range_statement := by
  intro ref est bins x tie hb h
  unfold Beat.informationGainCore at h
  split at h
  · simp only [Except.ok.injEq, Prod.mk.injEq, Option.some.injEq] at h
    obtain ⟨rfl, _⟩ := h
    simp [Beat.realOps]
  · rw [Beat.bind_ok_iff] at h
    obtain ⟨f, hf, h⟩ := h
    rw [Beat.bind_ok_iff] at h
    obtain ⟨b, hbk, h⟩ := h
    simp only [pure, Except.pure, Except.ok.injEq, Prod.mk.injEq] at h
    exact infoGainOf_range hb (getEntropy_bounds hf) (getEntropy_bounds hbk) h.1

/-- the same for the public function (validation included) -/
theorem information_gain_public_range (ref est : List Rat) (bins : Nat) (x : ℝ) (tie : Bool) (hb : 2 ≤ bins)
    (h : Beat.informationGain Beat.realOps ref est bins = .ok (some x, tie)) : 0 ≤ x ∧ x ≤ 1 := by
  unfold Beat.informationGain at h
  rw [Beat.validate_bind_ok] at h
  exact information_gain_range ref est bins x tie hb h.2

/-! #### the score is nan on some valid inputs (a finding), and exactly when -/

/-- Full-strength claim "information gain is a finite number on every valid input with ≥ 2 beats per side".
    It is FALSE of the code as it is: see `information_gain_finite_full_statement_false`. -/
def information_gain_finite_full_statement : Prop :=
  ∀ (ref est : List Rat) (bins : Nat), 2 ≤ bins → Beat.validate ref est = .ok () →
    2 ≤ ref.length → 2 ≤ est.length →
    ∃ x tie, Beat.informationGain Beat.realOps ref est bins = .ok (some x, tie)

/-- witness: reference beats 5, 6, 7 s against an estimate with two coincident beats at 5.5 s: every backward beat
    error is `x / 0`, the histogram is empty, its normalisation is `0 / 0` and the score is nan. -/
theorem information_gain_finite_full_statement_false : ¬ information_gain_finite_full_statement := by
  intro h
  obtain ⟨x, tie, hx⟩ := h [5, 6, 7] [11 / 2, 11 / 2] 41 (by norm_num) (by decide +kernel) (by simp) (by simp)
  have h1 : Beat.beatErrors [11 / 2, 11 / 2] [5, 6, 7] = .ok [] := by decide +kernel
  unfold Beat.informationGain at hx
  rw [Beat.validate_bind_ok] at hx
  have := (informationGainCore_some_iff (by norm_num) (by simp) hx.2).1 rfl
  obtain ⟨vb, hvb, hne⟩ := this
  rw [h1] at hvb
  cases hvb
  exact hne rfl

/-- **The strongest true version.** With ≥ 2 beats on each side, `information_gain` returns a number — and then one
    in [0, 1] — exactly when at least one backward beat error (a reference beat measured against the intervals of the
    estimated sequence) is finite; otherwise (every such interval has length 0: coincident estimated beats) it
    returns nan. -/
theorem information_gain_finite_partial (ref est : List Rat) (bins : Nat) (r : Option ℝ) (tie : Bool) (hb : 2 ≤ bins)
    (hlen : ¬(est.length ≤ 1 ∨ ref.length ≤ 1))
    (h : Beat.informationGainCore Beat.realOps ref est bins = .ok (r, tie)) :
    (r.isSome ↔ ∃ vb, Beat.beatErrors est ref = .ok vb ∧ vb ≠ []) ∧ (∀ x, r = some x → 0 ≤ x ∧ x ≤ 1) := by
  refine ⟨informationGainCore_some_iff (by omega) hlen h, ?_⟩
  rintro x rfl
  exact information_gain_range ref est bins x tie hb h

/-- every backward beat error is finite when the estimated beats are strictly increasing (at least two): the
    interval each reference beat is measured against is a difference of two different estimated beats. -/
theorem backward_beat_errors_finite (ref est : List Rat) (hinc : est.Pairwise (· < ·)) (hlen : 2 ≤ est.length) :
    ∃ vb, Beat.beatErrors est ref = .ok vb ∧ vb.length = ref.length :=
  Beat.beatErrors_length_of_increasing hinc hlen ref

/-- **Input-level sufficient condition for a finite score.** If the estimated beats are strictly increasing, the
    information gain is a number in [0, 1] — for ANY reference sequence and any `bins ≥ 2` (with fewer than two beats
    on a side the code returns 0; otherwise every backward beat error is finite, `backward_beat_errors_finite`, so the
    hypothesis of `information_gain_finite_partial` holds). The nan finding therefore needs coincident estimated
    beats. -/
theorem information_gain_finite_of_increasing (ref est : List Rat) (bins : Nat) (hb : 2 ≤ bins)
    (hinc : est.Pairwise (· < ·)) :
    ∃ x tie, Beat.informationGainCore Beat.realOps ref est bins = .ok (some x, tie) ∧ 0 ≤ x ∧ x ≤ 1 := by
  obtain ⟨x, tie, h⟩ := Beat.informationGainCore_some_of_increasing (ref := ref) (bins := bins) (by omega) hinc
  exact ⟨x, tie, h, information_gain_range ref est bins x tie hb h⟩

/-- the same for the public function on validated input -/
theorem information_gain_public_finite_of_increasing (ref est : List Rat) (bins : Nat) (hb : 2 ≤ bins)
    (hv : Beat.validate ref est = .ok ()) (hinc : est.Pairwise (· < ·)) :
    ∃ x tie, Beat.informationGain Beat.realOps ref est bins = .ok (some x, tie) ∧ 0 ≤ x ∧ x ≤ 1 := by
  obtain ⟨x, tie, h, hr⟩ := information_gain_finite_of_increasing ref est bins hb hinc
  refine ⟨x, tie, ?_, hr⟩
  unfold Beat.informationGain
  rw [Beat.validate_bind_ok]
  exact ⟨hv, h⟩

/-- **Input-level necessary condition for nan.** On validated input (`validate`: non-decreasing beats) the score is
    nan only if two CONSECUTIVE estimated beats coincide: `est = pre ++ a :: a :: post`. (The witness of
    `information_gain_finite_full_statement_false` has `est = [5.5, 5.5]`.) -/
theorem information_gain_nan_needs_coincident_beats (ref est : List Rat) (bins : Nat) (tie : Bool) (hb : 2 ≤ bins)
    (hv : Beat.validate ref est = .ok ())
    (h : Beat.informationGain Beat.realOps ref est bins = .ok (none, tie)) :
    ∃ pre a post, est = pre ++ a :: a :: post :=
  Beat.informationGain_none_needs_dup (by omega) hv h

example : ([11 / 2, 6] : List Rat).Pairwise (· < ·) ∧ 2 ≤ ([11 / 2, 6] : List Rat).length ∧
    Beat.validate [5, 6, 7] [11 / 2, 6] = .ok () ∧
    Beat.beatErrors [11 / 2, 6] [5, 6, 7] = .ok [0, 0, 0] := by
  refine ⟨by simp; norm_num, by simp, by decide +kernel, by decide +kernel⟩

/-! ### segment: entropies, MI, NMI -/

/-- **`_entropy(labels)`** of a non-empty frame-label sequence: `0 ≤ H ≤ log #labels`
    (for the empty sequence the code returns 1.0: `entropyIdx_real_nil`). -/
theorem label_entropy_range (y : List Nat) (hy : y ≠ []) :
    0 ≤ Segment.entropyIdx (α := ℝ) y ∧
      Segment.entropyIdx (α := ℝ) y ≤ Real.log (Segment.classes y).length := by
  rw [entropyIdx_real hy]
  exact ⟨labelEntropy_nonneg hy, labelEntropy_le_log hy⟩

/-- **0 ≤ MI ≤ min(H(ref), H(est))** for `_mutual_info_score` and `_entropy` on frame labels of equal length. -/
theorem mi_range (yr ye : List Nat) (h : yr.length = ye.length) (hne : yr ≠ []) :
    0 ≤ Segment.mutualInfoIdx (α := ℝ) yr ye ∧
    Segment.mutualInfoIdx (α := ℝ) yr ye ≤
      min (Segment.entropyIdx (α := ℝ) yr) (Segment.entropyIdx (α := ℝ) ye) := by
  obtain ⟨h0, h1, h2⟩ := mutualInfoIdx_bounds h hne
  exact ⟨h0, le_min h1 h2⟩

/-- **NMI ∈ [0, 1]**: `_normalized_mutual_info_score = MI / max(√(H·H'), 1e-10)`, every branch (the special cases
    "one label on both sides" / "no frames" return 1). The 1e-10 floor never hurts: it only enlarges the divisor. -/
theorem nmi_range (yr ye : List Nat) (h : yr.length = ye.length) :
    0 ≤ (Segment.nmiIdx (α := ℝ) yr ye).1 ∧ (Segment.nmiIdx (α := ℝ) yr ye).1 ≤ 1 :=
  nmiIdx_range h

/-! ### segment: conditional entropies, NCE, V-measure -/

/-- **Conditional entropy of a joint table of counts:** `0 ≤ H(col | row) ≤ log #cols` and `H(col | row) ≤ H(col)`
    (the two normalisers of `segment.nce`), and the chain rule `H(col | row) + MI = H(col)`. -/
theorem cond_entropy_range {β γ : Type} {as : List β} {bs : List γ} {n : β → γ → Nat} {a : β → Nat} {b : γ → Nat}
    {N : Nat} (J : Joint as bs n a b N) :
    0 ≤ jHcond as bs n a N ∧ jHcond as bs n a N ≤ Real.log bs.length ∧
      jHcond as bs n a N ≤ shannon (margDist bs b N) ∧
      jHcond as bs n a N + jMI as bs n a b N = shannon (margDist bs b N) :=
  ⟨J.hcond_nonneg, J.hcond_le_log, J.hcond_le_col, J.chain⟩

/-- the contingency table of two equally long, non-empty label sequences is such a table -/
theorem contingency_is_joint (yr ye : List Nat) (h : yr.length = ye.length) (hne : yr ≠ []) :
    Joint (Segment.classes yr) (Segment.classes ye) (cell yr ye) (fun x => yr.count x) (fun y => ye.count y)
      yr.length :=
  joint_of_labels h hne

/-- `util.f_measure` of two numbers in [0, 1] lies in [0, 1], over ℝ, for every `beta`. -/
theorem f_measure_real_range (p r beta : ℝ) (hp0 : 0 ≤ p) (hp1 : p ≤ 1) (hr0 : 0 ≤ r) (hr1 : r ≤ 1) :
    0 ≤ Segment.fMeasureT p r beta ∧ Segment.fMeasureT p r beta ≤ 1 :=
  fMeasureT_range beta hp0 hp1 hr0 hr1

/-- **NCE over / under / F ∈ [0, 1]** for the body of `segment.nce` on any two frame-label sequences of equal
    length, any `beta`, both normalisations (`marginal = false`: `log2` of the number of labels; `marginal = true`:
    the marginal entropy), including the code's conventions: a score is 0 when its normaliser is not positive
    (one label on that side), and everything is 0 for empty sequences. -/
theorem nce_range (yr ye : List Nat) (beta : ℝ) (marginal : Bool) (h : yr.length = ye.length) :
    (0 ≤ (Segment.nceIdx (α := ℝ) yr ye beta marginal).1 ∧ (Segment.nceIdx (α := ℝ) yr ye beta marginal).1 ≤ 1) ∧
    (0 ≤ (Segment.nceIdx (α := ℝ) yr ye beta marginal).2.1 ∧
      (Segment.nceIdx (α := ℝ) yr ye beta marginal).2.1 ≤ 1) ∧
    (0 ≤ (Segment.nceIdx (α := ℝ) yr ye beta marginal).2.2 ∧
      (Segment.nceIdx (α := ℝ) yr ye beta marginal).2.2 ≤ 1) := by
  by_cases hne : yr = []
  · subst hne
    have : ye = [] := List.eq_nil_of_length_eq_zero h.symm
    subst this
    exact nceIdx_nil_range beta marginal
  · rw [nceIdx_eq_body]
    exact (joint_of_labels h hne).nceBody_range beta marginal

/-- **V-measure precision / recall / F ∈ [0, 1]** (`vmeasure = nce(marginal=True)`). -/
theorem vmeasure_range (yr ye : List Nat) (beta : ℝ) (h : yr.length = ye.length) :
    (0 ≤ (Segment.vmeasureIdx (α := ℝ) yr ye beta).1 ∧ (Segment.vmeasureIdx (α := ℝ) yr ye beta).1 ≤ 1) ∧
    (0 ≤ (Segment.vmeasureIdx (α := ℝ) yr ye beta).2.1 ∧ (Segment.vmeasureIdx (α := ℝ) yr ye beta).2.1 ≤ 1) ∧
    (0 ≤ (Segment.vmeasureIdx (α := ℝ) yr ye beta).2.2 ∧ (Segment.vmeasureIdx (α := ℝ) yr ye beta).2.2 ≤ 1) :=
  nce_range yr ye beta true h

/-! ### segment: AMI -/

/-- **The expected-MI triple loop is the hypergeometric expectation.** With `lgamma(k+1) = log k!` the factor
    `exp(gammaln …)` is `C(a,k) C(n−a, b−k) / C(n,b)`, so `_adjusted_mutual_info_score`'s EMI is
    `Σ_i Σ_j Σ_k (k/n) log(n k / (a_i b_j)) · Hyp(k; n, a_i, b_j)` over the loop's range of `k`. -/
theorem emi_hypergeometric (a b : List Nat) (n : Nat) (ha : ∀ x ∈ a, x ≤ n) (hb : ∀ y ∈ b, y ≤ n) :
    Segment.expectedMI (α := ℝ) a b n =
      (a.map fun ai => (b.map fun bj => ((loopRange n ai bj).map fun k => emiTerm n ai bj k).sum).sum).sum :=
  expectedMI_real ha hb

/-- **The hypergeometric weights sum to 1 (Vandermonde).** For row sum `a`, column sum `b`, total `n` (`a, b ≤ n`)
    the weights `hyp n a b k = C(a,k) C(n−a, b−k) / C(n,b)` over the loop's own range of `k`
    (`loopRange`: `max(1, a+b−n) … min(a,b)`) plus the `k = 0` weight sum to 1, every weight being ≥ 0: the loop
    covers the whole support except `k = 0`. -/
theorem hyp_weights_sum_one (n a b : Nat) (ha : a ≤ n) (hb : b ≤ n) :
    (∀ k, 0 ≤ hyp n a b k) ∧ hyp n a b 0 + ((loopRange n a b).map fun k => hyp n a b k).sum = 1 :=
  ⟨hyp_nonneg n a b, hyp_zero_add_sum_loop ha hb⟩

/-- **EMI is exactly the expectation of the MI summand under the hypergeometric law:** the loop's range may be
    replaced by the whole support `k = 0 … min(a_i, b_j)` (`Mir.Hypergeom.hypExpect`, total mass 1 by
    `Mir.Hypergeom.hypExpect_const`), because the summand `(k/n)(log(n k) − log(a_i b_j))` vanishes at `k = 0` and
    the weight vanishes for `k < a_i + b_j − n`. -/
theorem emi_hypergeometric_full_support (a b : List Nat) (n : Nat) (ha : ∀ x ∈ a, x ≤ n) (hb : ∀ y ∈ b, y ≤ n) :
    Segment.expectedMI (α := ℝ) a b n =
      (a.map fun ai => (b.map fun bj =>
        Mir.Hypergeom.hypExpect n ai bj (fun k =>
          ((k : ℝ) / (n : ℝ)) * (Real.log ((n : ℝ) * (k : ℝ)) - Real.log ((ai : ℝ) * (bj : ℝ))))).sum).sum := by
  rw [expectedMI_real ha hb]
  congr 1
  apply List.map_congr_left
  intro ai hai
  congr 1
  apply List.map_congr_left
  intro bj _
  rw [sum_loop_emiTerm (ha ai hai)]
  rfl

example : hyp 4 2 3 0 = 0 ∧ loopRange 4 2 3 = [1, 2] ∧ hyp 4 2 3 1 + hyp 4 2 3 2 = 1 := by
  refine ⟨by norm_num [hyp, Nat.choose], by decide, by norm_num [hyp, Nat.choose]⟩

/-- **EMI ≤ H(rows)** for positive marginals `a`, `b` of a table with total `n` (log-monotonicity termwise, then the
    hypergeometric mean `Σ_k k·Hyp(k) ≤ a b / n` from Vandermonde's identity). -/
theorem emi_le_entropy (a b : List Nat) (n : Nat) (ha : ∀ x ∈ a, 1 ≤ x ∧ x ≤ n) (hb : ∀ y ∈ b, 1 ≤ y ∧ y ≤ n)
    (hsb : b.sum = n) (hn : 0 < n) :
    Segment.expectedMI (α := ℝ) a b n ≤ shannon (a.map fun ai : Nat => (ai : ℝ) / (n : ℝ)) :=
  expectedMI_le ha hb hsb hn

/-- the denominator `max(H(ref), H(est)) − EMI` of AMI is never negative -/
theorem ami_den_nonneg (yr ye : List Nat) (h : yr.length = ye.length) :
    0 ≤ (Segment.amiIdx (α := ℝ) yr ye).2.2 :=
  amiIdx_den_nonneg h

/-- **AMI ≤ 1** — `_adjusted_mutual_info_score` at ℝ on any two label sequences of equal length, every branch:
    the special cases return 1; otherwise `MI ≤ max(H, H')` and the denominator is ≥ 0 (a zero denominator — both
    partitions all-singletons — is `x / 0 = 0` over ℝ, nan/inf in binary64: the ill-conditioned region the harness
    excludes). -/
theorem ami_le_one (yr ye : List Nat) (h : yr.length = ye.length) :
    (Segment.amiIdx (α := ℝ) yr ye).1 ≤ 1 :=
  amiIdx_le_one h

/-! ### textbook forms (C16: what the code computes is the documented quantity) -/

/-- `_entropy(labels) = − Σ_c p_c log p_c` with `p_c = count(c) / n` over the distinct labels. -/
theorem entropy_textbook (y : List Nat) (hy : y ≠ []) :
    Segment.entropyIdx (α := ℝ) y =
      ((Segment.classes y).map fun c => -(((y.count c : ℝ) / (y.length : ℝ)) *
        Real.log ((y.count c : ℝ) / (y.length : ℝ)))).sum := by
  rw [entropyIdx_real hy]
  unfold labelEntropy shannon margDist
  rw [List.map_map]
  rfl

/-- `segment.nce` / `vmeasure` body: `over = 1 − H(est | ref) / Z_est`, `under = 1 − H(ref | est) / Z_ref`, with the
    conditional entropies `− Σ_xy p_xy log(p_xy / p_x)` in bits and `Z` the marginal entropy in bits
    (`marginal = true`, V-measure) or `log2` of the number of labels; a score is 0 when `Z ≤ 0`. -/
theorem nce_textbook (yr ye : List Nat) (beta : ℝ) (marginal : Bool) (h : yr.length = ye.length) (hne : yr ≠ []) :
    Segment.nceIdx (α := ℝ) yr ye beta marginal =
      (let zRef : ℝ := if marginal then Segment.entropyIdx (α := ℝ) yr / Real.log 2
                        else Real.log (Segment.classes yr).length / Real.log 2
       let zEst : ℝ := if marginal then Segment.entropyIdx (α := ℝ) ye / Real.log 2
                        else Real.log (Segment.classes ye).length / Real.log 2
       let hRefGivenEst : ℝ := jHcond (Segment.classes ye) (Segment.classes yr) (fun y x => cell yr ye x y)
                                 (fun y => ye.count y) yr.length / Real.log 2
       let hEstGivenRef : ℝ := jHcond (Segment.classes yr) (Segment.classes ye) (cell yr ye)
                                 (fun x => yr.count x) yr.length / Real.log 2
       let under : ℝ := if 0 < zRef then 1 - hRefGivenEst / zRef else 0
       let over : ℝ := if 0 < zEst then 1 - hEstGivenRef / zEst else 0
       (over, under, Segment.fMeasureT over under beta)) := by
  have hne' : ye ≠ [] := by
    intro e; subst e
    exact hne (List.eq_nil_of_length_eq_zero h)
  rw [nceIdx_eq_body, entropyIdx_real hne, entropyIdx_real hne']
  have := (joint_of_labels h hne).nceBody_eq beta marginal
  unfold pTable at this
  rw [this]
  unfold labelEntropy
  rw [← h]

/-! ### non-vacuity -/

example : 0 ≤ shannon [1 / 2, 0, 1 / 2] ∧ shannon [1 / 2, 0, 1 / 2] ≤ Real.log (support [1 / 2, 0, 1 / 2]) ∧
    shannon [1 / 2, 0, 1 / 2] ≤ Real.log ([1 / 2, 0, 1 / 2] : List ℝ).length :=
  shannon_range _ (by intro q hq; simp at hq; rcases hq with rfl | rfl | rfl <;> norm_num) (by norm_num)
/-- the bound is attained: the uniform distribution on two cells has entropy `log 2` -/
example : shannon [1 / 2, 1 / 2] = Real.log 2 := by
  unfold shannon
  simp only [List.map_cons, List.map_nil, List.sum_cons, List.sum_nil]
  rw [show (1 / 2 : ℝ) = 2⁻¹ by norm_num, Real.log_inv]
  ring
example : (Beat.entropyOfCounts Beat.realOps [1, 0, 3]).isSome := by
  rw [get_entropy_defined_iff]; decide
example : Beat.entropyOfCounts Beat.realOps [0, 0] = none := by
  rw [entropyOfCounts_real]; simp
/-- a non-trivial run of `information_gain` (3 beats each, 4 bins) returns a number -/
example : ∃ x tie, Beat.informationGainCore Beat.realOps [1, 2, 3] [1, 2, 7 / 2] 4 = .ok (some x, tie) := by
  have h1 : Beat.beatErrors [1, 2, 3] [1, 2, 7 / 2] = .ok [0, 0, 1 / 2] := by decide +kernel
  have h2 : Beat.beatErrors [1, 2, 7 / 2] [1, 2, 3] = .ok [0, 0, -1 / 3] := by decide +kernel
  have e1 : Beat.histogram 4 [0, 0, 1 / 2] = [0, 0, 2, 1] := by decide +kernel
  have e2 : Beat.histogram 4 [0, 0, -1 / 3] = [1, 0, 2, 0] := by decide +kernel
  unfold Beat.informationGainCore Beat.getEntropy
  simp only [h1, h2, e1, e2, entropyOfCounts_real, bind, Except.bind, pure, Except.pure, Beat.infoGainOf]
  norm_num
  split
  · exact ⟨_, _, rfl, rfl⟩
  · exact ⟨_, _, rfl, rfl⟩
example : ([0, 0, 1] : List Nat).length = ([0, 1, 1] : List Nat).length ∧ ([0, 0, 1] : List Nat) ≠ [] := by decide
example : 0 ≤ (Segment.nmiIdx (α := ℝ) [0, 0, 1] [0, 1, 1]).1 ∧ (Segment.nmiIdx (α := ℝ) [0, 0, 1] [0, 1, 1]).1 ≤ 1 :=
  nmi_range _ _ rfl
example : Joint (Segment.classes [0, 0, 1]) (Segment.classes [0, 1, 1]) (cell [0, 0, 1] [0, 1, 1])
    (fun x => ([0, 0, 1] : List Nat).count x) (fun y => ([0, 1, 1] : List Nat).count y) 3 :=
  contingency_is_joint [0, 0, 1] [0, 1, 1] rfl (by decide)
example : (Segment.amiIdx (α := ℝ) [0, 0, 1] [0, 1, 1]).1 ≤ 1 := ami_le_one _ _ rfl
example : (∀ x ∈ ([2, 1] : List Nat), 1 ≤ x ∧ x ≤ 3) ∧ ([1, 2] : List Nat).sum = 3 := by decide
/-- the loop range for `n = 3, a = 2, b = 2` is `k = 1, 2`, and the hypergeometric weights sum to 1 there -/
example : loopRange 3 2 2 = [1, 2] ∧ hyp 3 2 2 1 + hyp 3 2 2 2 = 1 := by
  refine ⟨by decide, ?_⟩
  unfold hyp
  norm_num [Nat.choose]
/-- the partial statement's hypotheses are satisfiable with a finite result: one finite backward error suffices -/
example : Beat.beatErrors [1, 2, 7 / 2] [1, 2, 3] = .ok [0, 0, -1 / 3] ∧ ([0, 0, -1 / 3] : List Rat) ≠ [] := by
  decide +kernel

end Mir.C01.Entropy
