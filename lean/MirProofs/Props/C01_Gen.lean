import MirProofs.Props.C06_Gen
/-! C01 — range of `util.f_measure` stated on the definition REGENERATED from the source (`Mir.Gen.util.f_measure`),
    through `C06.Gen.f_measure_eq_model`. -/
namespace Mir.C01.Gen
open Mir

/-- whenever the translated `util.f_measure` returns on precision, recall in [0,1], the value is in [0,1] -/
theorem f_measure_range (p r b v : Rat) (hp0 : 0 ≤ p) (hr0 : 0 ≤ r) (hp : p ≤ 1) (hr : r ≤ 1)
    (h : Mir.Gen.util.f_measure p r b = .ok v) : 0 ≤ v ∧ v ≤ 1 := by
  rw [Mir.C06.Gen.f_measure_eq_model] at h
  unfold Mir.C06.Gen.fMeasurePy at h
  split at h
  · cases h
  · cases h
    exact ⟨fMeasure_nonneg hp0 hr0, fMeasure_le_one hp0 hr0 hp hr⟩

/-- and it does return (no exception) for every beta != 0 -/
theorem f_measure_total (p r b : Rat) (hp0 : 0 ≤ p) (hr0 : 0 ≤ r) (hb : b ≠ 0) :
    ∃ v, Mir.Gen.util.f_measure p r b = .ok v := ⟨_, Mir.C06.Gen.f_measure_ok hp0 hr0 hb⟩

example : Mir.Gen.util.f_measure (3/4) (1/2) (1/2) = .ok (15/22) := by decide +kernel

end Mir.C01.Gen
