import MirProofs.Props.C17
/-! C01 — T- and L-measure precision / recall / F lie in [0,1] for every input on which they are defined. -/
namespace Mir.C01.Hierarchy
open Mir

theorem tmeasure_range (ref est : Hierarchy.Hier) (transitive : Bool) (window : Option Rat) (fs beta p r f : Rat)
    (h : Hierarchy.tmeasure ref est transitive window fs beta = .ok (p, r, f)) :
    (0 ≤ p ∧ p ≤ 1) ∧ (0 ≤ r ∧ r ≤ 1) ∧ 0 ≤ f ∧ f ≤ 1 :=
  Mir.C17.tmeasure_range ref est transitive window fs beta p r f h

theorem lmeasure_range (ref est : Hierarchy.Hier) (rls els : List (List String)) (fs beta p r f : Rat)
    (h : Hierarchy.lmeasure ref rls est els fs beta = .ok (p, r, f)) :
    (0 ≤ p ∧ p ≤ 1) ∧ (0 ≤ r ∧ r ≤ 1) ∧ 0 ≤ f ∧ f ≤ 1 :=
  Mir.C17.lmeasure_range ref est rls els fs beta p r f h

end Mir.C01.Hierarchy
