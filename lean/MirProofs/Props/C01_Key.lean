import MirProofs.Props.C09
/-! C01 — the key score takes one of the five documented values, all in [0,1]. -/
namespace Mir.C01.Key
open Mir

theorem key_score_range (r e : Key.Key) : 0 ≤ Key.weightedScore r e ∧ Key.weightedScore r e ≤ 1 := by
  have h := Mir.C09.key_score_values r e
  simp only [List.mem_cons, List.mem_nil_iff, or_false] at h
  rcases h with h | h | h | h | h <;> rw [h] <;> constructor <;> norm_num

end Mir.C01.Key
