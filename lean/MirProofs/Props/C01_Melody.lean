import MirProofs.Lemmas.Melody
/-! C01 (melody): voicing recall / false alarm, raw pitch / chroma accuracy and overall accuracy lie in [0, 1]
    whenever the functions return at all (validation has then established voicings in [0,1] and equal lengths),
    for binary *and* continuous voicings, every tolerance and every cent array. -/
namespace Mir.C01.Melody
open Mir Mir.Melody

/-- `voicing_recall` does not validate; for equally long arrays with estimated voicing in [0,1] it is in [0,1] -/
theorem voicing_recall_range {rv ev : List Rat} {x : Rat} (hlen : rv.length = ev.length)
    (hev : inUnit ev = true) (h : voicingRecall rv ev = .ok x) : 0 ≤ x ∧ x ≤ 1 :=
  voicingRate_range (by norm_num) hlen hev h

theorem voicing_false_alarm_range {rv ev : List Rat} {x : Rat} (hlen : rv.length = ev.length)
    (hev : inUnit ev = true) (h : voicingFalseAlarm rv ev = .ok x) : 0 ≤ x ∧ x ≤ 1 :=
  voicingRate_range (by norm_num) hlen hev h

/-- `voicing_measures` validates first: whenever it returns, both numbers are in [0,1] -/
theorem voicing_measures_range {rv ev : List Rat} {a b : Rat} (h : voicingMeasures rv ev = .ok (a, b)) :
    (0 ≤ a ∧ a ≤ 1) ∧ (0 ≤ b ∧ b ≤ 1) := by
  unfold voicingMeasures at h
  split at h
  · rename_i hv
    obtain ⟨hlen, _, hev⟩ := validVoicingB_iff.1 hv
    split at h
    · rename_i a' b' ha hb
      simp only [Except.ok.injEq, Prod.mk.injEq] at h
      obtain ⟨rfl, rfl⟩ := h
      exact ⟨voicing_recall_range hlen hev ha, voicing_false_alarm_range hlen hev hb⟩
    · cases h
    · cases h
  · cases h

/-- raw pitch accuracy is in [0,1] for every input on which it returns, at every tolerance -/
theorem raw_pitch_accuracy_range {rv rc ev ec : List Rat} {tol x : Rat}
    (h : rawPitchAccuracy rv rc ev ec tol = .ok x) : 0 ≤ x ∧ x ≤ 1 := by
  obtain ⟨hv, _, rfl⟩ := pitchAcc_ok h
  obtain ⟨_, hrv, _⟩ := validVoicingB_iff.1 hv
  exact pitchAccCore_range _ (fun y hy => ((inUnit_iff.1 hrv) y hy).1) rc ec

theorem raw_chroma_accuracy_range {rv rc ev ec : List Rat} {tol x : Rat}
    (h : rawChromaAccuracy rv rc ev ec tol = .ok x) : 0 ≤ x ∧ x ≤ 1 := by
  obtain ⟨hv, _, rfl⟩ := pitchAcc_ok h
  obtain ⟨_, hrv, _⟩ := validVoicingB_iff.1 hv
  exact pitchAccCore_range _ (fun y hy => ((inUnit_iff.1 hrv) y hy).1) rc ec

/-- overall accuracy (incl. the continuous-voicing generalisation) is in [0,1] -/
theorem overall_accuracy_range {rv rc ev ec : List Rat} {tol x : Rat}
    (h : overallAccuracy rv rc ev ec tol = .ok x) : 0 ≤ x ∧ x ≤ 1 := by
  obtain ⟨hv, _, rfl⟩ := overallAccuracy_ok h
  obtain ⟨_, hrv, hev⟩ := validVoicingB_iff.1 hv
  exact oaCore_range tol (inUnit_iff.1 hrv) (inUnit_iff.1 hev) rc ec

/-- every score of `evaluate` is in [0,1], whatever the time bases, hop, interpolation kind and tolerance -/
theorem evaluate_range {rt et : List Rat} {rf ef : List Freq} {ev rr : Option (List Rat)} {hop : Option Rat}
    {kind : Kind} {tol : Rat} {scores : List (String × Rat)}
    (h : evaluate rt rf et ef ev rr hop kind tol = .ok scores) :
    ∀ kv ∈ scores, 0 ≤ kv.2 ∧ kv.2 ≤ 1 := by
  unfold evaluate at h
  split at h
  · cases h
  · rename_i cv _
    unfold scoreAll at h
    split at h; · cases h
    rename_i vr hvr
    split at h; · cases h
    rename_i vfa hvfa
    split at h; · cases h
    rename_i rpa hrpa
    split at h; · cases h
    rename_i rca hrca
    split at h; · cases h
    rename_i oa hoa
    simp only [Except.ok.injEq] at h
    subst h
    obtain ⟨hv, _, _⟩ := pitchAcc_ok hrpa
    obtain ⟨hlen, _, hev⟩ := validVoicingB_iff.1 hv
    intro kv hkv
    simp only [List.mem_cons, List.not_mem_nil, or_false] at hkv
    rcases hkv with rfl | rfl | rfl | rfl | rfl
    · exact voicing_recall_range hlen hev hvr
    · exact voicing_false_alarm_range hlen hev hvfa
    · exact raw_pitch_accuracy_range hrpa
    · exact raw_chroma_accuracy_range hrca
    · exact overall_accuracy_range hoa

/-! non-vacuity: the functions do return, with values strictly inside (0,1), on continuous voicings too -/
example : rawPitchAccuracy [1, 1, 0, 1/2] [1000, 2000, 0, 3000] [1, 0, 0, 1] [1040, 3200, 0, 3050] 50
    = .ok (2/5) := by decide +kernel
example : rawChromaAccuracy [1, 1, 0, 1/2] [1000, 2000, 0, 3000] [1, 0, 0, 1] [1040, 3200, 0, 3050] 50
    = .ok (4/5) := by decide +kernel
example : overallAccuracy [1, 1, 0, 1/2] [1000, 2000, 0, 3000] [1, 0, 0, 1/4] [1040, 3200, 0, 3050] 50
    = .ok (11/20) := by decide +kernel
example : voicingMeasures [1, 1, 0, 1/2] [1, 0, 1/4, 1] = .ok (2/3, 1/4) := by decide +kernel

end Mir.C01.Melody
