import MirProofs.Lemmas.MultipitchInvariance
/-! C01 (multipitch part) — proportion-type scores lie in [0,1]; error rates are ≥ 0. -/
open Mir Mir.Multipitch

namespace Mir.C01.Multipitch

/-- precision, recall and accuracy (raw and chroma) of every valid input lie in [0,1] -/
theorem precision_recall_accuracy_range (rt et : List Rat) (rf ef : Frames) (w : Rat) (m : Seven × Seven)
    (h : metrics rt rf et ef w = .ok m) :
    ((0 ≤ m.1.precision ∧ m.1.precision ≤ 1) ∧ (0 ≤ m.1.recall ∧ m.1.recall ≤ 1) ∧
      (0 ≤ m.1.accuracy ∧ m.1.accuracy ≤ 1)) ∧
    ((0 ≤ m.2.precision ∧ m.2.precision ≤ 1) ∧ (0 ≤ m.2.recall ∧ m.2.recall ≤ 1) ∧
      (0 ≤ m.2.accuracy ∧ m.2.accuracy ≤ 1)) := by
  obtain ⟨rfl, hr, he⟩ := metrics_ok h
  rw [metricsCore_eq w hr he]
  exact ⟨seven_acc_range (rowsP_good _ _), seven_acc_range (rowsP_good _ _)⟩

/-- the four error rates are ≥ 0; substitution and miss error are proportions of the reference pitches (≤ 1).
    (False-alarm and total error are unbounded above by design: an estimate may contain arbitrarily many
    spurious pitches.) -/
theorem error_rates_range (rt et : List Rat) (rf ef : Frames) (w : Rat) (m : Seven × Seven)
    (h : metrics rt rf et ef w = .ok m) :
    ((0 ≤ m.1.esub ∧ m.1.esub ≤ 1) ∧ (0 ≤ m.1.emiss ∧ m.1.emiss ≤ 1) ∧ 0 ≤ m.1.efa ∧ 0 ≤ m.1.etot) ∧
    ((0 ≤ m.2.esub ∧ m.2.esub ≤ 1) ∧ (0 ≤ m.2.emiss ∧ m.2.emiss ≤ 1) ∧ 0 ≤ m.2.efa ∧ 0 ≤ m.2.etot) := by
  obtain ⟨rfl, hr, he⟩ := metrics_ok h
  rw [metricsCore_eq w hr he]
  have key : ∀ feas : Rat → Rat → Bool, ∀ ps : Pairs,
      (0 ≤ (sevenOf (rowsP feas ps)).esub ∧ (sevenOf (rowsP feas ps)).esub ≤ 1) ∧
      (0 ≤ (sevenOf (rowsP feas ps)).emiss ∧ (sevenOf (rowsP feas ps)).emiss ≤ 1) ∧
      0 ≤ (sevenOf (rowsP feas ps)).efa ∧ 0 ≤ (sevenOf (rowsP feas ps)).etot := by
    intro feas ps
    have h1 := seven_err_nonneg (rowsP_good feas ps)
    have h2 := seven_err_le_one (rowsP_good feas ps)
    exact ⟨⟨h1.1, h2.1⟩, ⟨h1.2.1, h2.2⟩, h1.2.2.1, h1.2.2.2⟩
  exact ⟨key _ _, key _ _⟩

/-- `compute_accuracy` on any count arrays with `0 ≤ tp_i ≤ min(n_ref_i, n_est_i)` -/
theorem compute_accuracy_range (rows : List Row) (h : ∀ x ∈ rows, 0 ≤ x.1 ∧ x.1 ≤ x.2.1 ∧ x.1 ≤ x.2.2) :
    (0 ≤ (computeAccuracy rows).1 ∧ (computeAccuracy rows).1 ≤ 1) ∧
    (0 ≤ (computeAccuracy rows).2.1 ∧ (computeAccuracy rows).2.1 ≤ 1) ∧
    (0 ≤ (computeAccuracy rows).2.2 ∧ (computeAccuracy rows).2.2 ≤ 1) :=
  seven_acc_range (rows := rows) h

/-- non-vacuity: a valid input with hits, misses and false alarms -/
example : valid [0, 1 / 4] [[60, 64], [67]] [0, 1 / 4] [[60, 61, 90], []] = true := by decide +kernel

end Mir.C01.Multipitch
