import MirProofs.Lemmas.Onset
/-!
  C01 (onset) — whenever `onset.f_measure` returns, F, precision and recall are rationals in [0, 1]
  (for every pair of event lists, valid or not, and every window, including negative ones).
-/
namespace Mir.C01.Onset
open Mir.Onset Mir.MiscStats

theorem f_measure_range (ref est : List Rat) (w : Rat) (s : Rat × Rat × Rat)
    (h : Onset.fMeasure ref est w = .ok s) :
    (0 ≤ s.1 ∧ s.1 ≤ 1) ∧ (0 ≤ s.2.1 ∧ s.2.1 ≤ 1) ∧ (0 ≤ s.2.2 ∧ s.2.2 ≤ 1) := by
  rw [fMeasure_of_valid w (validate_of_fMeasure_ok h)] at h
  cases h
  have := hitPRF_range (withinWindow w) ref est 1
  exact ⟨this.2.2, this.1, this.2.1⟩

/-- the only failure mode is the `ValueError` of the validation -/
theorem f_measure_total (ref est : List Rat) (w : Rat) :
    (∃ s, Onset.fMeasure ref est w = .ok s) ∨ Onset.fMeasure ref est w = .error .valueError := by
  rcases validate_cases ref est with h | h
  · exact Or.inl ⟨_, fMeasure_of_valid w h⟩
  · exact Or.inr (fMeasure_of_invalid w h)

/-! non-vacuity -/
example : Onset.fMeasure [0, 1, 2] [0, 3 / 2] (1 / 2) = .ok (4 / 5, 1, 2 / 3) := by
  rw [fMeasure_of_valid _ (by decide +kernel), hitPRF_eq_brute]; decide +kernel
example : Onset.fMeasure [1, 0] [0] (1 / 2) = .error .valueError := by decide +kernel

end Mir.C01.Onset
