import MirProofs.Lemmas.PatternSpec
/-!
  C01 (pattern part) — proportion-type pattern scores lie in [0, 1].

  Statements are about the model of the code as it is (`MirModel/Pattern.lean`): whenever the function returns
  (does not raise), the scores are in range — for every input, valid or not, and every threshold.
  The first-n scores are scalars in [0,1] on every input (the 3-tuple on empty input was repaired in e3a7cc5).
  `standard_FPR`'s precision (and F) is NOT bounded by 1 (not repaired): the full statement is kept as a `def`, refuted by a
  concrete witness, and the strongest true versions are proved (`standard_precision_bound`,
  `standard_precision_partial`).
-/
namespace Mir.C01.Pattern
open Mir.Pattern

/-- cardinality score `|P ∩ Q| / max(|P|, |Q|)` -/
theorem cardScore_range (P Q : Occ) (v : Rat) (h : cardScore P Q = .ok v) : 0 ≤ v ∧ v ≤ 1 := by
  rw [cardScore_eq] at h
  split at h
  · cases h
  · cases h; exact card_range P Q

/-- every entry of `_compute_score_matrix` -/
theorem scoreMatrix_range (P Q : Pat) (m : List (List Rat)) (h : scoreMatrix P Q cardName = .ok m) :
    ∀ row ∈ m, ∀ v ∈ row, 0 ≤ v ∧ v ≤ 1 := by
  rw [scoreMatrix_eq] at h
  split at h
  · cases h
  · cases h
    intro row hrow v hv
    obtain ⟨p, _, rfl⟩ := List.mem_map.1 hrow
    obtain ⟨q, _, rfl⟩ := List.mem_map.1 hv
    exact card_range p q

/-- establishment F, P, R -/
theorem establishment_range (ref est : Pats) (t : Rat × Rat × Rat)
    (h : establishmentFPR ref est cardName = .ok t) : In01 t := by
  rw [establishmentFPR_eq] at h
  repeat' split at h
  all_goals cases h
  · exact in01_zero
  · exact establishment_in01 ref est

/-- occurrence F, P, R, for every threshold -/
theorem occurrence_range (ref est : Pats) (thres : Rat) (t : Rat × Rat × Rat)
    (h : occurrenceFPR ref est thres cardName = .ok t) : In01 t := by
  rw [occurrenceFPR_eq] at h
  repeat' split at h
  all_goals cases h
  · exact in01_zero
  · exact occurrence_in01 thres ref est

/-- three-layer F, P, R -/
theorem three_layer_range (ref est : Pats) (t : Rat × Rat × Rat) (h : threeLayerFPR ref est = .ok t) : In01 t := by
  rw [threeLayerFPR_eq] at h
  repeat' split at h
  all_goals cases h
  · exact in01_zero
  · exact threeLayer_in01 ref est

/-- first-n three-layer precision: one scalar in [0,1] on every input on which the function returns
    (empty input included, where it is 0) -/
theorem first_n_three_layer_range (ref est : Pats) (n : Int) (v : Rat)
    (h : firstNThreeLayerP ref est n = .ok v) : 0 ≤ v ∧ v ≤ 1 := by
  rw [firstNThreeLayerP_eq] at h
  split at h
  · cases h
  · split at h
    · cases h; exact ⟨le_refl _, zero_le_one⟩
    · cases h3 : threeLayerFPR ref (firstN est n) with
      | error e => rw [h3] at h; cases h
      | ok t =>
        rw [h3] at h
        cases h
        exact (three_layer_range _ _ t h3).2.1

/-- first-n target proportion recall: one scalar in [0,1] on every input on which the function returns -/
theorem first_n_target_proportion_range (ref est : Pats) (n : Int) (v : Rat)
    (h : firstNTargetProportionR ref est n = .ok v) : 0 ≤ v ∧ v ≤ 1 := by
  rw [firstNTargetProportionR_eq] at h
  split at h
  · cases h
  · split at h
    · cases h; exact ⟨le_refl _, zero_le_one⟩
    · cases h3 : establishmentFPR ref (firstN est n) with
      | error e => rw [h3] at h; cases h
      | ok t =>
        rw [h3] at h
        cases h
        exact (establishment_range _ _ t h3).2.2

/-- on empty input (no point on one side) both first-n scores are the scalar 0 (repaired in e3a7cc5; the model's
    result type `Py Rat` records that a scalar is returned on every path) -/
theorem first_n_empty (ref est : Pats) (n : Int) (hv : (ref ++ est).any List.isEmpty = false)
    (hz : isZero ref est = true) :
    firstNThreeLayerP ref est n = .ok 0 ∧ firstNTargetProportionR ref est n = .ok 0 := by
  rw [firstNThreeLayerP_eq, firstNTargetProportionR_eq, hv, hz]
  exact ⟨rfl, rfl⟩

/-- `standard_FPR`: recall is in [0,1], precision and F are non-negative -/
theorem standard_recall_range (ref est : Pats) (tol : Rat) (t : Rat × Rat × Rat)
    (h : standardFPR ref est tol = .ok t) : (0 ≤ t.2.2 ∧ t.2.2 ≤ 1) ∧ 0 ≤ t.2.1 ∧ 0 ≤ t.1 := by
  rw [standardFPR_eq] at h
  repeat' split at h
  all_goals cases h
  · simp
  · exact ⟨Mir.Pattern.standard_recall_range tol ref est, standard_precision_nonneg tol ref est,
      fMeasure_nonneg (standard_precision_nonneg tol ref est) (Mir.Pattern.standard_recall_range tol ref est).1⟩

/-- what is true of the precision on every input: `P ≤ |ref| / |est|` -/
theorem standard_precision_bound (ref est : Pats) (tol : Rat) (t : Rat × Rat × Rat)
    (h : standardFPR ref est tol = .ok t) : t.2.1 ≤ (ref.length : Rat) / (est.length : Rat) := by
  rw [standardFPR_eq] at h
  repeat' split at h
  all_goals cases h
  · show (0 : Rat) ≤ _; positivity
  · exact standard_precision_le tol ref est

/-- the full-strength claim for `standard_FPR` — FALSE of the unchanged code -/
def standard_precision_full_statement : Prop :=
  ∀ (ref est : Pats) (tol : Rat) (t : Rat × Rat × Rat), standardFPR ref est tol = .ok t → In01 t

/-- two translation-equivalent reference patterns, one estimate: precision 2, F 4/3 -/
def witnessRef : Pats := [[[(0, 60), (1, 62)]], [[(1/2, 61), (3/2, 63)]]]
def witnessEst : Pats := [[[(0, 60), (1, 62)]]]

theorem standard_witness : standardFPR witnessRef witnessEst defaultTol = .ok (4/3, 2, 1) := by decide +kernel

theorem standard_precision_full_statement_false : ¬ standard_precision_full_statement := by
  intro h
  have := (h witnessRef witnessEst defaultTol _ standard_witness).2.1.2
  exact absurd this (by decide +kernel)

/-- the strongest simple true version: with at most as many reference as estimated patterns all three
    scores are in [0,1] -/
theorem standard_precision_partial (ref est : Pats) (tol : Rat) (t : Rat × Rat × Rat)
    (hlen : ref.length ≤ est.length) (h : standardFPR ref est tol = .ok t) : In01 t := by
  rw [standardFPR_eq] at h
  repeat' split at h
  all_goals cases h
  · exact in01_zero
  · exact standard_in01 tol hlen

/-! non-vacuity -/
example : ∃ t, establishmentFPR witnessRef witnessEst cardName = .ok t ∧ t = (2/3, 1, 1/2) :=
  ⟨_, by decide +kernel, rfl⟩
example : ∃ t, occurrenceFPR witnessRef witnessEst (1/2) cardName = .ok t ∧ t = (1, 1, 1) :=
  ⟨_, by decide +kernel, rfl⟩
example : ∃ t, threeLayerFPR witnessRef witnessEst = .ok t ∧ t = (2/3, 1, 1/2) := ⟨_, by decide +kernel, rfl⟩
example : firstNThreeLayerP witnessRef witnessEst 5 = .ok 1 ∧
    firstNTargetProportionR witnessRef witnessEst 5 = .ok (1/2) ∧ isZero witnessRef witnessEst = false := by
  decide +kernel
example : ([] ++ witnessEst).any List.isEmpty = false ∧ isZero [] witnessEst = true ∧
    firstNThreeLayerP [] witnessEst 5 = .ok 0 := by decide +kernel
example : witnessEst.length ≤ witnessRef.length ∧ standardFPR witnessEst witnessRef defaultTol = .ok (2/3, 1/2, 1) := by
  decide +kernel
example : cardScore [(0, 60), (1, 62)] [(1, 62)] = .ok (1/2) := by decide +kernel
example : scoreMatrix [[(0, 60), (1, 62)]] [[(1, 62)], []] cardName = .ok [[1/2, 0]] := by decide +kernel

end Mir.C01.Pattern
