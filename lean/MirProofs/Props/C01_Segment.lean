import MirProofs.Lemmas.Segment
/-! C01 — ranges of the segment labelling indices that are exact rationals (pairwise, Rand, ARI).
    The entropy-based scores (MI/NMI/AMI/NCE/V) are Float-valued in the model and are not covered by a theorem. -/
namespace Mir.C01.Segment
open Mir

/-- pairwise precision / recall / F lie in [0,1] whenever each side has at least one pair of frames with the
    same label (otherwise the code divides 0 by 0 — the known finding), for frame sequences of any length -/
theorem pairwise_range {yr ye : List Nat} (hl : yr.length = ye.length) {beta : Rat} (hb : 0 < beta)
    (he : 0 < (Segment.combSums yr ye).2.1) (hr : 0 < (Segment.combSums yr ye).2.2) :
    ∃ p r f, Segment.pairwiseIdx yr ye beta = .ok (Segment.Num.val p, Segment.Num.val r, Segment.Num.val f) ∧
      0 ≤ p ∧ p ≤ 1 ∧ 0 ≤ r ∧ r ≤ 1 ∧ 0 ≤ f ∧ f ≤ 1 :=
  Segment.pairwiseIdx_range hl hb he hr

/-- the Rand index lies in [0,1] for at least two frames -/
theorem rand_range {yr ye : List Nat} (hl : yr.length = ye.length) (h2 : 2 ≤ yr.length) :
    ∃ q, Segment.randIdx yr ye = .ok (Segment.Num.val q) ∧ 0 ≤ q ∧ q ≤ 1 :=
  Segment.randIdx_range hl h2

/-- the adjusted Rand index never exceeds 1 -/
theorem ari_le_one {yr ye : List Nat} (hl : yr.length = ye.length) {q : Rat}
    (h : Segment.adjustedRandIdx yr ye = .ok q) : q ≤ 1 :=
  Segment.adjustedRandIdx_le_one hl h

end Mir.C01.Segment
