import MirProofs.Lemmas.Tempo
/-!
  C01 (tempo) — whenever `tempo.detection` returns, the P-score is a rational in [0, 1] (indeed one of
  0, w, 1 - w, 1) and the two flags are exactly booleans (by type).
-/
namespace Mir.C01.Tempo
open Mir.Tempo Mir.MiscStats

theorem pscore_range (ref : List Rat) (w : Rat) (est : List Rat) (tol : Rat) (s : Rat × Bool × Bool)
    (h : detection ref w est tol = .ok s) : 0 ≤ s.1 ∧ s.1 ≤ 1 := by
  obtain ⟨r0, r1, e0, e1, rfl, rfl, hv, ht0, ht1, hw0, hw1⟩ := detection_ok_inv h
  rw [detection_of_valid hv ht0 ht1] at h
  cases h
  have a0 := b2r_nonneg (hit r0 e0 e1 tol)
  have a1 := b2r_le_one (hit r0 e0 e1 tol)
  have c0 := b2r_nonneg (hit r1 e0 e1 tol)
  have c1 := b2r_le_one (hit r1 e0 e1 tol)
  have hw1' : 0 ≤ 1 - w := by linarith
  constructor
  · simp only; nlinarith [mul_nonneg hw0 a0, mul_nonneg hw1' c0]
  · simp only; nlinarith [mul_le_mul_of_nonneg_left a1 hw0, mul_le_mul_of_nonneg_left c1 hw1']

theorem pscore_values (ref : List Rat) (w : Rat) (est : List Rat) (tol : Rat) (s : Rat × Bool × Bool)
    (h : detection ref w est tol = .ok s) : s.1 = 0 ∨ s.1 = w ∨ s.1 = 1 - w ∨ s.1 = 1 := by
  obtain ⟨r0, r1, e0, e1, rfl, rfl, hv, ht0, ht1, -, -⟩ := detection_ok_inv h
  rw [detection_of_valid hv ht0 ht1] at h
  cases h
  cases hit r0 e0 e1 tol <;> cases hit r1 e0 e1 tol <;> simp [b2r]

/-- the only failure mode is `ValueError` -/
theorem detection_total (ref : List Rat) (w : Rat) (est : List Rat) (tol : Rat) :
    (∃ s, detection ref w est tol = .ok s) ∨ detection ref w est tol = .error .valueError := by
  unfold detection
  rcases validate_cases ref w est with hv | hv
  · simp only [hv, bind, Except.bind]
    split
    · exact Or.inr rfl
    · split
      · exact Or.inl ⟨_, rfl⟩
      · exact Or.inr rfl
  · simp [hv, bind, Except.bind]

/-! non-vacuity -/
example : detection [60, 120] (1 / 4) [61, 200] (2 / 25) = .ok (1 / 4, true, false) := by decide +kernel
example : detection [60, 120] (5 / 4) [61, 200] (2 / 25) = .error .valueError := by decide +kernel

end Mir.C01.Tempo
