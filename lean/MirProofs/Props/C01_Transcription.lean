import MirProofs.Lemmas.Transcription
/-!
  C01 (transcription part) — precision, recall and F of every transcription metric lie in [0, 1];
  the Average Overlap Ratio is bounded only from above (≤ 1), as the property states.
-/
namespace Mir.C01.Transcription
open Mir.Transcription

def In01 (x : Rat) : Prop := 0 ≤ x ∧ x ≤ 1

/-- `precision_recall_f1_overlap` (with or without offsets, strict or not, any beta): P, R, F ∈ [0,1], AOR ≤ 1. -/
theorem prf_overlap_range (refI estI : List Ival) (refP estP : List Rat) (p : Params) (beta : Rat)
    (s : Rat × Rat × Rat × Rat) (h : precisionRecallF1Overlap refI refP estI estP p beta = .ok s) :
    In01 s.1 ∧ In01 s.2.1 ∧ In01 s.2.2.1 ∧ s.2.2.2 ≤ 1 := by
  have hr := hitPRF_range (noteHit p) (refI.zip refP) (estI.zip estP) beta
  rw [← prfOverlap_eq_hitPRF h] at hr
  refine ⟨hr.1, hr.2.1, hr.2.2, ?_⟩
  obtain ⟨hv, hcase⟩ := precisionRecallF1Overlap_ok h
  rcases hcase with ⟨_, rfl⟩ | ⟨_, M, a, _, ha, rfl⟩
  · exact zero_le_one
  · exact averageOverlapRatio_le_one (validate_ok hv).1 ha

theorem onset_prf_range (refI estI : List Ival) (tol beta : Rat) (strict : Bool) (s : Rat × Rat × Rat)
    (h : onsetPRF refI estI tol strict beta = .ok s) : In01 s.1 ∧ In01 s.2.1 ∧ In01 s.2.2 := by
  rw [onsetPRF_eq_hitPRF h]; exact hitPRF_range ..

theorem offset_prf_range (refI estI : List Ival) (ratio minTol beta : Rat) (strict : Bool) (s : Rat × Rat × Rat)
    (h : offsetPRF refI estI ratio minTol strict beta = .ok s) : In01 s.1 ∧ In01 s.2.1 ∧ In01 s.2.2 := by
  rw [offsetPRF_eq_hitPRF h]; exact hitPRF_range ..

/-- `average_overlap_ratio` ≤ 1 for **every** list of index pairs (not only matchings) over valid reference
    intervals. -/
theorem aor_le_one (refI estI : List Ival) (m : List Edge) (a : Rat) (hv : validateIntervals1 refI = .ok ())
    (h : averageOverlapRatio refI estI m = .ok a) : a ≤ 1 :=
  averageOverlapRatio_le_one (validateIntervals1_ok hv) h

/-- the velocity-aware scores: the filtered pairing is a sub-pairing of a matching, so P, R, F ∈ [0,1]; AOR ≤ 1 -/
theorem velocity_prf_overlap_range (refI estI : List Ival) (refP refV estP estV : List Rat) (p : Params)
    (velTol beta : Rat) (s : Rat × Rat × Rat × Rat)
    (h : velPRFOverlap refI refP refV estI estP estV p velTol beta = .ok s) :
    In01 s.1 ∧ In01 s.2.1 ∧ In01 s.2.2.1 ∧ s.2.2.2 ≤ 1 := by
  obtain ⟨hv, hcase⟩ := velPRFOverlap_ok h
  obtain ⟨hvr, _, hlr, hle⟩ := validate_ok hv
  rcases hcase with ⟨_, rfl⟩ | ⟨hemp, M', a, hm, ha, rfl⟩
  · simp [In01]
  · obtain ⟨M, hM, hsub⟩ := velMatchNotes_sublist hm
    have hl := (matchNotes_spec hM).2
    have h1 : M'.length ≤ refP.length := by
      calc M'.length ≤ M.length := hsub.length_le
        _ ≤ (refI.zip refP).length := hl ▸ hitCount_le_ref ..
        _ = refP.length := zip_length_eq hlr
    have h2 : M'.length ≤ estP.length := by
      calc M'.length ≤ M.length := hsub.length_le
        _ ≤ (estI.zip estP).length := hl ▸ hitCount_le_est ..
        _ = estP.length := zip_length_eq hle
    simp only [Bool.or_eq_false_iff, List.isEmpty_eq_false_iff] at hemp
    have := prf_range beta (List.length_pos_iff.2 hemp.1) (List.length_pos_iff.2 hemp.2) h1 h2
    exact ⟨this.1, this.2.1, this.2.2, averageOverlapRatio_le_one hvr ha⟩

/-! non-vacuity, and the carve-out: the Average Overlap Ratio has no lower bound at 0 -/
example : averageOverlapRatio [(0, 1 / 64)] [(1 / 32, 1 / 16)] [(0, 0)] = .ok (-1 / 4) := by decide +kernel
example : averageOverlapRatio [(0, 1)] [(0, 2)] [(0, 0)] = .ok (1 / 2) := by decide +kernel

end Mir.C01.Transcription
