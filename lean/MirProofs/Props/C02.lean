import MirProofs.Lemmas.EventWindow
/-! C02 — a perfect estimate receives the perfect score: the part shared by every hit-based score. -/
namespace Mir.C02

/-- Any non-empty annotation scored against a copy of itself under a criterion that accepts identical
    items gets precision = recall = F = 1, for every beta. -/
theorem hit_prf_self {α : Type} (feas : α → α → Bool) (xs : List α) (beta : Rat) (hne : xs ≠ [])
    (h : ∀ x ∈ xs, feas x x = true) : hitPRF feas xs xs beta = (1, 1, 1) :=
  hitPRF_self feas xs beta hne h

/-- Windowed event metrics (beat F-measure, onset, boundary detection): any window ≥ 0, duplicates allowed. -/
theorem event_prf_self (w : Rat) (hw : 0 ≤ w) (xs : List Rat) (beta : Rat) (hne : xs ≠ []) :
    hitPRF (withinWindow w) xs xs beta = (1, 1, 1) :=
  hitPRF_self _ xs beta hne fun x _ => withinWindow_refl hw x

theorem f_measure_one (b : Rat) : fMeasure 1 1 b = 1 := fMeasure_one b

example : hitPRF (withinWindow 0) [(1:Rat), 1, 3] [1, 1, 3] 1 = (1, 1, 1) :=
  event_prf_self 0 (le_refl _) _ 1 (by simp)

end Mir.C02
