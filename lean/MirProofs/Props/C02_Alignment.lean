import MirProofs.Lemmas.Alignment
/-!
  C02 (alignment) — a valid timestamp list used as its own estimate: median and mean absolute error 0,
  percentage_correct 1 (window ≥ 0), PCS 1 in both variants (MIREX: first < last timestamp; with duration:
  0 < duration, no timestamp beyond it). The perceptual metric is documented as not reaching 1 and is excluded.
-/
namespace Mir.C02.Alignment
open Mir.Alignment Mir.MiscStats

theorem abs_err_self (x : List Rat) (hv : validate x x = .ok ()) :
    absoluteError x x = .ok (some 0, some 0) := by
  have hv' := (validate_ok_iff x x).1 hv
  have hne := deviations_ne_nil hv'.1 hv'.2.1
  rw [absoluteError_of_valid hv, median?_const hne (deviations_self x), mean?_const hne (deviations_self x)]

theorem pc_self (x : List Rat) (w : Rat) (hv : validate x x = .ok ()) (hw : 0 ≤ w) :
    percentageCorrect x x w = .ok (some 1) := by
  have hv' := (validate_ok_iff x x).1 hv
  have hne : ((deviations x x).map fun y => if y ≤ w then (1 : Rat) else 0) ≠ [] := by
    simpa using deviations_ne_nil hv'.1 hv'.2.1
  rw [percentageCorrect_of_valid w hv, mean?_const hne]
  intro y hy
  obtain ⟨z, hz, rfl⟩ := List.mem_map.1 hy
  rw [deviations_self x z hz]; simp [hw]

theorem pcs_mirex_self (x : List Rat) (first last : Rat) (hv : validate x x = .ok ())
    (hf : x.head? = some first) (hl : x.getLast? = some last) (hd : first < last) :
    percentageCorrectSegments x x none = .ok 1 := by
  have hv' := (validate_ok_iff x x).1 hv
  have hd' : 0 < last - first := sub_pos.2 hd
  rw [pcs_mirex_of_valid hv hf hl hd',
    overlapDur_self _ (by rw [segsMirex_eq_zip_tail]; exact hv'.2.2.1), segLen_segsMirex hf hl, div_self hd'.ne']

theorem pcs_duration_self (x : List Rat) (d : Rat) (hv : validate x x = .ok ()) (hd : 0 < d)
    (hx : ∀ t ∈ x, t ≤ d) : percentageCorrectSegments x x (some d) = .ok 1 := by
  have hv' := (validate_ok_iff x x).1 hv
  rcases x with _ | ⟨x0, xs⟩
  · exact absurd rfl hv'.1
  have hm : maxOf x0 xs ≤ d := hx _ (maxOf_mem x0 xs)
  rw [pcs_dur_of_valid hv hd hm hm,
    overlapDur_self _ (segsDur_ordered hv'.2.2.1 hv'.2.2.2.2.1 hx hd.le), segLen_segsDur, div_self hd.ne']

/-! non-vacuity (repeated timestamps allowed); a constant list is degenerate for the MIREX variant -/
example : validate [1, 2, 2, 4] [1, 2, 2, 4] = .ok () := by decide +kernel
example : percentageCorrectSegments [1, 2, 2, 4] [1, 2, 2, 4] none = .ok 1 := by decide +kernel
example : percentageCorrectSegments [2, 2] [2, 2] none = .error .valueError := by decide +kernel

end Mir.C02.Alignment
