import MirProofs.Lemmas.BeatReal
import MirProofs.Lemmas.BeatSelf
import MirProofs.Lemmas.BeatContSelf
import MirProofs.Lemmas.BeatPScore
import MirProofs.Lemmas.BeatDefCont
import MirProofs.Lemmas.BeatInfoSelf
/-!
  C02 (beat) — a perfect estimate receives the perfect score.
-/
namespace Mir.C02.Beat
open Mir.Beat

/-- F-measure of a non-empty valid beat sequence against itself is 1, for every window ≥ 0. -/
theorem f_measure_self (xs : List Rat) (thr : Rat) (hthr : 0 ≤ thr) (hne : xs ≠ [])
    (hv : validate xs xs = .ok ()) : Beat.fMeasure xs xs thr = .ok 1 := by
  rw [fMeasure_ok_iff]
  exact ⟨hv, (fMeasureCore_self xs hthr hne).symm⟩

/-- Cemgil accuracy of a non-empty sequence against itself is exactly 1 (any sigma), and the
    best-metric-level accuracy is then at least 1. -/
theorem cemgil_self (xs : List Rat) (sigma : Rat) (hne : xs ≠ []) :
    (cemgilCore realOps xs xs sigma).1 = 1 ∧ 1 ≤ (cemgilCore realOps xs xs sigma).2 := by
  rcases xs with _ | ⟨e, es⟩
  · exact absurd rfl hne
  simp only [cemgilCore]
  have h := cemgilAcc_self sigma e es
  refine ⟨h, ?_⟩
  calc (1 : ℝ) = cemgilAcc realOps sigma (e :: es) e es := h.symm
    _ ≤ _ := maxT_real_ge _ _

/-- Goto of a strictly increasing sequence of at least 5 beats against itself is 1, for every threshold in
    [0, 1) and positive mu, sigma.  (5 is sharp: the track has N-3 entries and `std(ddof=1)` needs 2 — see
    the 4-beat example below.) -/
theorem goto_self (x : List Rat) (thr mu sigma : Rat) (hx : x.Pairwise (· < ·)) (hn : 5 ≤ x.length)
    (h0 : 0 ≤ thr) (h1 : thr < 1) (hmu : 0 < mu) (hs : 0 < sigma) (hv : validate x x = .ok ()) :
    Beat.goto x x thr mu sigma = .ok 1 := by
  unfold Beat.goto gotoFull
  rw [bind_ok_iff]
  refine ⟨(1, false), ?_, rfl⟩
  rw [validate_bind_ok]
  exact ⟨hv, gotoCore_self x thr mu sigma hx hn h0 h1 hmu hs⟩

/-- Continuity of a strictly increasing sequence of ≥ 2 beats against itself: all four scores are 1 (for
    positive thresholds), whenever the function returns. -/
theorem continuity_self (x : List Rat) (p q : Rat) (hx : x.Pairwise (· < ·)) (hlen : 2 ≤ x.length)
    (hp : 0 < p) (hq : 0 < q) (c t ac at' : Rat) (h : continuityCore x x p q = .ok (c, t, ac, at')) :
    c = 1 ∧ t = 1 ∧ ac = 1 ∧ at' = 1 := by
  have hok := continuityCore_ok h
  have h0 := contVariation_self x p q hp hq hx hlen
  unfold continuityCore at h
  have hg : ¬ (x.length ≤ 1 ∨ x.length ≤ 1) := by omega
  simp only [hg, if_false] at h
  rw [bind_ok_iff] at h
  obtain ⟨rs, hrs, h⟩ := h
  simp only [variations, mapPy, h0, bind, Except.bind] at hrs
  have hct : c = 1 ∧ t = 1 := by
    split at hrs
    · simp at hrs
    · simp only [pure, Except.pure, Except.ok.injEq] at hrs
      subst hrs
      simp only [pure, Except.pure, Except.ok.injEq, Prod.mk.injEq] at h
      exact ⟨h.1.symm, h.2.1.symm⟩
  obtain ⟨rfl, rfl⟩ := hct
  obtain ⟨_, _, _, h3, h4, h5, h6⟩ := hok
  refine ⟨rfl, rfl, ?_, ?_⟩ <;> linarith

/-- The same without the proviso: continuity of a strictly increasing sequence of ≥ 2 beats against itself RETURNS, and
    returns (1, 1, 1, 1) (totality of the loop over the metrical variations: Lemmas/BeatTotal.lean); with validation,
    the public function does. -/
theorem continuity_self_total (x : List Rat) (p q : Rat) (hx : x.Pairwise (· < ·)) (hlen : 2 ≤ x.length)
    (hp : 0 < p) (hq : 0 < q) :
    continuityCore x x p q = .ok (1, 1, 1, 1) ∧
    (validate x x = .ok () → Mir.Beat.continuity x x p q = .ok (1, 1, 1, 1)) :=
  ⟨continuityCore_self_total x p q hx hlen hp hq, Mir.Beat.continuity_self_total x p q hx hlen hp hq⟩

/-- P-score of a sequence against itself is 1 when its quantised beats are further apart than the correlation
    window `win` (and no two beats fall on the same 10 ms sample), for `0 ≤ win < N` (`N` = train length; a
    larger window makes the code's slice start negative and wrap around — see the example below).
    `win`, `N` are the values the code computes (`pScoreParts`). -/
theorem p_score_self (r r' : Rat) (rs : List Rat) (thr : Rat) (win : Int) (N cnt : Nat)
    (h : pScoreParts r (r' :: rs) r (r' :: rs) thr = some (win, N, cnt)) (hw : 0 ≤ win) (hwN : win < (N : Int))
    (hlen : (trainSupport (r :: r' :: rs) (minList r (r' :: rs))).length = rs.length + 2)
    (hsep : (diffs (trainSupport (r :: r' :: rs) (minList r (r' :: rs)))).all (fun d => decide (win < d)) = true) :
    cnt = rs.length + 2 ∧ pScoreCore (r :: r' :: rs) (r :: r' :: rs) thr = 1 := by
  have hcnt : cnt = rs.length + 2 := by
    unfold pScoreParts at h
    simp only [min_self] at h
    split at h
    · simp at h
    · simp only [Option.some.injEq, Prod.mk.injEq] at h
      obtain ⟨rfl, rfl, rfl⟩ := h
      rw [pairCount_self _ _ _ hw hwN hsep, hlen]
  refine ⟨hcnt, ?_⟩
  simp only [pScoreCore, h, hcnt, max_self]
  have : ((rs.length + 2 : Nat) : Rat) ≠ 0 := by positivity
  exact div_self this

/-- Information gain of a strictly increasing sequence of ≥ 2 beats against itself is exactly 1 (for every number of
    bins ≥ 2), and no histogram tie is flagged: every beat error is 0, the histogram has a single non-empty bin, the
    entropy is 0 in both directions (Lemmas/BeatInfoSelf.lean).  With validation, the public function returns the same. -/
theorem information_gain_self (x : List Rat) (bins : Nat) (hx : x.Pairwise (· < ·)) (hlen : 2 ≤ x.length)
    (hb : 2 ≤ bins) :
    informationGainCore realOps x x bins = .ok (some 1, false) ∧
    (validate x x = .ok () → informationGain realOps x x bins = .ok (some 1, false)) :=
  ⟨informationGainCore_self x bins hx hlen hb, informationGain_self x bins hx hlen hb⟩

/-- the statement as it was planned (some tie flag): a corollary -/
theorem information_gain_self_exists (x : List Rat) (bins : Nat) (hx : x.Pairwise (· < ·)) (hlen : 2 ≤ x.length)
    (hb : 2 ≤ bins) : ∃ tie, informationGainCore realOps x x bins = .ok (some 1, tie) :=
  ⟨false, informationGainCore_self x bins hx hlen hb⟩

/-! non-vacuity -/
example : ([5, 6, 7, 8, 9] : List Rat).Pairwise (· < ·) ∧ 5 ≤ ([5, 6, 7, 8, 9] : List Rat).length ∧
    validate [5, 6, 7, 8, 9] [5, 6, 7, 8, 9] = .ok () := by decide +kernel
example : Beat.goto [5, 6, 7, 8, 9] [5, 6, 7, 8, 9] = .ok 1 := by decide +kernel
example : Beat.goto [5, 6, 7, 8] [5, 6, 7, 8] = .ok 0 := by decide +kernel
example : continuityCore [5, 6, 7] [5, 6, 7] (7 / 40) (7 / 40) = .ok (1, 1, 1, 1) := by decide +kernel
example : pScoreCore [5, 6, 7] [5, 6, 7] (1 / 5) = 1 := by decide +kernel
example : pScoreParts 5 [6, 7] 5 [6, 7] (1 / 5) = some (20, 201, 3) := by decide +kernel
example : (trainSupport [5, 6, 7] (minList 5 [6, 7])).length = 3 ∧
    (diffs (trainSupport [5, 6, 7] (minList 5 [6, 7]))).all (fun d => decide ((20 : Int) < d)) = true := by
  decide +kernel
/-- a window larger than the train (threshold 3): the slice wraps around and the perfect estimate scores 1/3 -/
example : pScoreCore [5, 6, 7] [5, 6, 7] 3 = 1 / 3 := by decide +kernel
example : validate [5, 6, 7] [5, 6, 7] = .ok () := by decide +kernel
example : ([5, 6, 7] : List Rat) ≠ [] := by simp
/-- the hypotheses of `information_gain_self` hold for three beats and the default 41 bins -/
example : ([5, 6, 7] : List Rat).Pairwise (· < ·) ∧ 2 ≤ ([5, 6, 7] : List Rat).length ∧ 2 ≤ (41 : Nat) ∧
    validate [5, 6, 7] [5, 6, 7] = .ok () := by decide +kernel
example : informationGain realOps [5, 6, 7] [5, 6, 7] 41 = .ok (some 1, false) :=
  (information_gain_self [5, 6, 7] 41 (by decide +kernel) (by decide) (by decide)).2 (by decide +kernel)

end Mir.C02.Beat
