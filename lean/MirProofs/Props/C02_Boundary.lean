import MirProofs.Lemmas.Boundary
/-!
  C02 (segment boundaries) — a valid segmentation with at least one boundary left after trimming, scored
  against itself: detection gives P = R = F = 1 for every window ≥ 0 and every beta; both deviations are 0.
-/
namespace Mir.C02.Boundary
open Mir.Boundary Mir.MiscStats

theorem detection_self (x : List (Rat × Rat)) (w beta : Rat) (trim : Bool)
    (hv : validateBoundary x x trim = .ok ()) (hne : boundaries x trim ≠ []) (hw : 0 ≤ w) :
    detection x x w beta trim = .ok (1, 1, 1) := by
  rw [detection_of_valid w beta hv,
    hitPRF_self (withinWindow w) _ beta hne (fun t _ => ww_self hw t)]

theorem deviation_self (x : List (Rat × Rat)) (trim : Bool)
    (hv : validateBoundary x x trim = .ok ()) (hne : boundaries x trim ≠ []) :
    deviation x x trim = .ok (some 0, some 0) := by
  obtain ⟨b0, bs, hb⟩ := List.exists_cons_of_ne_nil hne
  rw [deviation_of_valid_cons hv hb hb]
  have h1 : median? ((b0 :: bs).map fun r => minOver (fun e => absQ (r - e)) b0 bs) = some 0 := by
    refine median?_const (by simp) (fun y hy => ?_)
    obtain ⟨r, hr, rfl⟩ := List.mem_map.1 hy
    exact (minOver_dist_self hr).1
  have h2 : median? ((b0 :: bs).map fun e => minOver (fun r => absQ (r - e)) b0 bs) = some 0 := by
    refine median?_const (by simp) (fun y hy => ?_)
    obtain ⟨e, he, rfl⟩ := List.mem_map.1 hy
    exact (minOver_dist_self he).2
  rw [h1, h2]

/-! non-vacuity: the hypotheses are satisfiable with and without trimming; with a single interval and
    `trim = true` no boundary is left and the scores are 0 / NaN by convention -/
example : validateBoundary [(0, 1), (1, 3)] [(0, 1), (1, 3)] true = .ok () ∧ boundaries [(0, 1), (1, 3)] true ≠ [] := by
  decide +kernel
example : deviation [(0, 3)] [(0, 3)] true = .ok (none, none) := by decide +kernel

end Mir.C02.Boundary
