import MirProofs.Lemmas.ChordSelf
import MirProofs.Lemmas.ChordCompare
/-!
  C02 — chord: an annotation scored against itself.

  `evaluateTokens cmp noChord` is the whole `chord.evaluate` pipeline on chord tokens, for an ARBITRARY comparison
  function `cmp` (1 / 0 / fractions, −1 = not comparable).  For a valid chord annotation (`Contig lo`: a
  contiguous segmentation from `lo ≥ 0`, positive durations, at least one segment) and every comparison function
  that gives 1 on equal comparable tokens (`cmp t t = 1`, or `cmp t t < 0` for tokens outside its vocabulary, e.g.
  `X`, or a seventh chord under `sevenths`… — `Mir.C11.cmp_self_ne_zero` for the seven rules of `chord.py`):
  accuracy is 1 — or 0, the documented "no comparable chord" convention, when NO token of the annotation is
  comparable — and under-segmentation = over-segmentation = seg = 1.
-/
namespace Mir.C02.Chord
open Mir Mir.Iv

/-- `util.adjust_intervals` of a time-ordered annotation to its own span `[first start, last end]` is the
    identity (nothing cropped, nothing padded) -/
theorem adjust_to_own_span {L : Type} {lo : Rat} {x0 z : Rat × Rat × L} {r : LI L} (hc : Iv.Chain lo (x0 :: r))
    (hz : (x0 :: r).getLast? = some z) (sl el : L) :
    adjustIntervals (x0 :: r) (some x0.1) (some z.2.1) sl el = .ok (x0 :: r) :=
  adjustIntervals_self hc hz sl el

/-- `util.merge_labeled_intervals(x, x)` returns the rows of `x`, each with its own label twice -/
theorem merge_self {L : Type} {lo : Rat} {xs : LI L} (hc : Contig lo xs) (hne : xs ≠ []) :
    mergeLabeled xs xs = .ok (xs.map fun x => (x.1, x.2.1, x.2.2, x.2.2)) :=
  mergeLabeled_self hc hne

/-- `weighted_accuracy` with positive weights when every comparable comparison is 1: 1, or 0 when nothing is
    comparable -/
theorem weighted_accuracy_all_one {cs ws : List Rat} (hlen : cs.length = ws.length) (hw : ∀ w ∈ ws, 0 < w)
    (hone : ∀ c ∈ cs, c = 1 ∨ c < 0) :
    wacc cs ws = .ok (.val (if cs.any (fun c => decide (0 ≤ c)) then 1 else 0)) :=
  wacc_self_value hlen hw hone

/-- one accuracy of `chord.evaluate`, annotation against itself -/
theorem chord_score_self {L : Type} (cmp : L → L → Rat) {lo : Rat} {xs : LI L} (hc : Contig lo xs) (hne : xs ≠ [])
    (h0 : 0 ≤ lo) (hcmp : ∀ l ∈ labels xs, cmp l l = 1 ∨ cmp l l < 0) :
    chordScore cmp xs xs = .ok (.val (if (labels xs).any (fun l => decide (0 ≤ cmp l l)) then 1 else 0)) :=
  chordScore_self cmp hc hne h0 hcmp

/-- `merge_chord_intervals` turns a time-ordered annotation into a time-ordered, non-overlapping interval array
    of positive durations (what `directional_hamming_distance` accepts) -/
theorem merge_chord_valid {T : Type} [DecidableEq T] {lo : Rat} {xs : LI T} (hc : Iv.Chain lo xs) :
    ChainP lo (mergeChord xs) := mergeChord_chainP hc

/-- `directional_hamming_distance(x, x) = 0` for every valid interval array (gaps allowed) -/
theorem dhd_self {xs : Ivals} (h : ChainP 0 xs) (hne : xs ≠ []) : dhd xs xs = .ok (.val 0) :=
  Iv.dhd_self h hne

/-- hence over-, under-segmentation and `seg` of an interval array against itself are 1 -/
theorem seg_scores_self {xs : Ivals} (h : ChainP 0 xs) (hne : xs ≠ []) :
    overseg xs xs = .ok (.val 1) ∧ underseg xs xs = .ok (.val 1) ∧ seg xs xs = .ok (.val 1) := by
  have hd := Iv.dhd_self h hne
  have ho : overseg xs xs = .ok (.val 1) := by
    unfold overseg; rw [hd]; simp [Except.map, Num.oneMinus]
  have hu : underseg xs xs = .ok (.val 1) := ho
  refine ⟨ho, hu, ?_⟩
  unfold seg
  rw [hu, ho]
  simp [bind, Except.bind, pure, Except.pure, Num.pymin]

/-- **the whole `chord.evaluate` pipeline, perfect estimate**: `[accuracy, underseg, overseg, seg]` =
    `[1 (or 0 when no token is comparable), 1, 1, 1]`, for every comparison function that scores equal
    comparable tokens 1, every no-chord token, every valid annotation of any length -/
theorem evaluate_self {T : Type} [DecidableEq T] (cmp : T → T → Rat) (noChord : T) {lo : Rat} {xs : LI T}
    (hc : Contig lo xs) (hne : xs ≠ []) (h0 : 0 ≤ lo) (hcmp : ∀ l ∈ labels xs, cmp l l = 1 ∨ cmp l l < 0) :
    evaluateTokens cmp noChord xs xs
      = .ok [.val (if (labels xs).any (fun l => decide (0 ≤ cmp l l)) then 1 else 0), .val 1, .val 1, .val 1] :=
  evaluateTokens_self cmp noChord hc hne h0 hcmp

/-- in particular, when every token is comparable with itself all four scores are 1 -/
theorem evaluate_self_all_comparable {T : Type} [DecidableEq T] (cmp : T → T → Rat) (noChord : T) {lo : Rat}
    {xs : LI T} (hc : Contig lo xs) (hne : xs ≠ []) (h0 : 0 ≤ lo) (hcmp : ∀ l ∈ labels xs, cmp l l = 1) :
    evaluateTokens cmp noChord xs xs = .ok [.val 1, .val 1, .val 1, .val 1] := by
  rw [evaluate_self cmp noChord hc hne h0 (fun l hl => Or.inl (hcmp l hl))]
  have : (labels xs).any (fun l => decide (0 ≤ cmp l l)) = true := by
    cases xs with
    | nil => exact absurd rfl hne
    | cons x r =>
      apply List.any_eq_true.2
      refine ⟨x.2.2, by simp [labels], ?_⟩
      rw [hcmp x.2.2 (by simp [labels])]
      simp
  rw [this]
  rfl

/-- **the twelve comparison rules of `chord.py`** (`thirds`, `thirds_inv`, `triads`, `triads_inv`, `tetrads`,
    `tetrads_inv`, `root`, `mirex`, `majmin`, `majmin_inv`, `sevenths`, `sevenths_inv`) on encoded chords: for every
    valid annotation whose tokens are encodings `chord.encode` can return, accuracy against itself is 1 (0 when
    the rule compares none of its chords), and the three segmentation scores are 1 -/
theorem evaluate_self_rule (rule : ChordCompare.Rule) {lo : Rat} {xs : LI ChordCompare.Enc} (hc : Contig lo xs)
    (hne : xs ≠ []) (h0 : 0 ≤ lo) (hr : ∀ l ∈ labels xs, ChordCompare.Reachable l) :
    evaluateTokens (fun a b => ((ChordCompare.cmp rule a b : Int) : Rat)) ChordCompare.noChord xs xs
      = .ok [.val (if (labels xs).any (fun l => decide ((0 : Rat) ≤ ((ChordCompare.cmp rule l l : Int) : Rat))) then 1 else 0),
             .val 1, .val 1, .val 1] := by
  apply evaluate_self _ _ hc hne h0
  intro l hl
  have hne0 := ChordCompare.cmp_self_ne_zero_of_reachable rule (hr l hl)
  rcases ChordCompare.cmp_values_all rule l l with h | h | h
  · right; rw [h]; norm_num
  · exact absurd h hne0
  · left; rw [h]; norm_num

/-- non-vacuity: root comparison on tokens (`−2` = `X`, not comparable); an all-`X` annotation scores 0 -/
example :
    let c : Int → Int → Rat := fun a b => if a < -1 then -1 else if a = b then 1 else 0
    Contig 0 [((0 : Rat), (2 : Rat), (7 : Int)), (2, 3, 7), (3, 5, -2)]
    ∧ evaluateTokens c (-1) [((0 : Rat), (2 : Rat), 7), (2, 3, 7), (3, 5, -2)] [((0 : Rat), (2 : Rat), 7), (2, 3, 7), (3, 5, -2)]
        = .ok [.val 1, .val 1, .val 1, .val 1]
    ∧ evaluateTokens c (-1) [((0 : Rat), (2 : Rat), -2), (2, 3, -2)] [((0 : Rat), (2 : Rat), -2), (2, 3, -2)]
        = .ok [.val 0, .val 1, .val 1, .val 1]
    ∧ dhd [(0, 2), (3, 4)] [(0, 2), (3, 4)] = .ok (.val 0) := by
  refine ⟨by simp only [Contig]; norm_num, by decide +kernel, by decide +kernel, by decide +kernel⟩

end Mir.C02.Chord
