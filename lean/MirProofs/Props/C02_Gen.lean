import MirProofs.Props.C06_Gen
/-! C02 — perfect precision and recall give F = 1, stated on the definition REGENERATED from the source. -/
namespace Mir.C02.Gen
open Mir

/-- the translated `util.f_measure(1, 1, beta)` returns exactly 1 for every beta (it never raises there) -/
theorem f_measure_one (b : Rat) : Mir.Gen.util.f_measure 1 1 b = .ok 1 := by
  rw [Mir.C06.Gen.f_measure_eq_model]; unfold Mir.C06.Gen.fMeasurePy
  have hb : 0 ≤ b * b := mul_self_nonneg b
  have : ¬ (b * b + 1 : Rat) = 0 := by nlinarith
  simp [this, fMeasure_one]

example : Mir.Gen.util.f_measure 1 1 3 = .ok 1 ∧ Mir.Gen.util.f_measure 1 1 0 = .ok 1 := by decide +kernel

end Mir.C02.Gen
