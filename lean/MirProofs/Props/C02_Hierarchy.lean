import MirProofs.Lemmas.HierarchySelf
/-!
  C02 — hierarchy: an annotation scored against itself.

  `hasRefTriple m tr w` is the decidable non-degeneracy predicate: some query frame `q` of the (LCA / meet)
  matrix `m` has two result frames `i, j` in its window `[q−w, q+w) \ {q}` whose depths in row `q` are related
  (`m[q][i] < m[q][j]` for the full measures, `m[q][i] + 1 = m[q][j]` for the reduced one).
  When it holds, T- and L-measure of an annotation against itself are `(1, 1, 1)`; when it fails there is no
  reference triple at all and the code's `0/0 ↦ 0` convention gives `(0, 0, 0)` (a one-segment-per-level
  annotation, a one-frame track, `window = frame_size` …).  `selfPRF b = if b then (1,1,1) else (0,0,0)`.
-/
namespace Mir.C02.Hierarchy
open Mir Mir.Hierarchy

/-- a ranking compared with itself: every reference triple is ranked correctly, for both `transitive` settings -/
theorem correct_self (transitive : Bool) (r : List Nat) : correct transitive r r = triples transitive r r :=
  Mir.Hierarchy.correct_self transitive r

/-- the triplet definition of `_gauc` on a matrix against itself (ANY matrix, any window): 1 when some query frame
    has a reference triple, 0 otherwise -/
theorem gauc_self (n : Nat) (m : Mat) (hm : IsSquare n m) (transitive : Bool) (window : Option Nat) :
    gauc m m transitive window = .ok (if hasRefTriple m transitive (winOf window n) then 1 else 0) := by
  rw [gauc_eq_spec n m m hm hm, gaucSpec_self]

/-- **T-measure, perfect estimate.**  For every valid hierarchical segmentation (every level partitions `[0, T]`,
    nested or not), every accepted `frame_size` / `window` and both `transitive` settings, with `l` the LCA matrix
    and `n = floor(T / frame_size)`: `tmeasure(h, h)` is `(1, 1, 1)` if some query frame has a reference triple
    and `(0, 0, 0)` otherwise. -/
theorem tmeasure_self (h : Hier) (T : Rat) (transitive : Bool) (window : Option Rat) (fs beta : Rat)
    (hv : ValidHier h T) (h0 : 0 < fs) (hw : ∀ w, window = some w → fs ≤ w) :
    ∃ wf l, windowFrames window fs = .ok wf ∧ lca h fs = .ok l ∧ IsSquare (framesOf T fs) l
      ∧ tmeasure h h transitive window fs beta
          = .ok (selfPRF (hasRefTriple l transitive (winOf wf (framesOf T fs)))) :=
  tmeasure_self_valid h T transitive window fs beta hv h0 hw

/-- without any validity hypothesis: whenever `tmeasure(h, h)` returns, it returns `selfPRF` of the
    non-degeneracy predicate of its LCA matrix -/
theorem tmeasure_self_of_ok (h : Hier) (transitive : Bool) (window : Option Rat) (fs beta p r f : Rat)
    (ht : tmeasure h h transitive window fs beta = .ok (p, r, f)) :
    ∃ n wf l, windowFrames window fs = .ok wf ∧ lca h fs = .ok l ∧ IsSquare n l
      ∧ (p, r, f) = selfPRF (hasRefTriple l transitive (winOf wf n)) :=
  tmeasure_self_ok ht

/-- **L-measure, perfect estimate** (labels no longer than their intervals): `(1, 1, 1)` if some query frame has
    a reference triple in the meet matrix, `(0, 0, 0)` otherwise -/
theorem lmeasure_self (h : Hier) (ls : List (List String)) (T fs beta : Rat)
    (hv : ValidHier h T) (h0 : 0 < fs) (hfit : ∀ x ∈ h.zip ls, x.2.length ≤ x.1.length) :
    ∃ m, meet h ls fs = .ok m ∧ IsSquare (framesOf T fs) m
      ∧ lmeasure h ls h ls fs beta = .ok (selfPRF (hasRefTriple m true (framesOf T fs))) :=
  lmeasure_self_valid h ls T fs beta hv h0 hfit

theorem lmeasure_self_of_ok (h : Hier) (ls : List (List String)) (fs beta p r f : Rat)
    (ht : lmeasure h ls h ls fs beta = .ok (p, r, f)) :
    ∃ n m, meet h ls fs = .ok m ∧ IsSquare n m ∧ (p, r, f) = selfPRF (hasRefTriple m true n) :=
  lmeasure_self_ok ht

/-- non-vacuity: a two-level annotation of 4 frames is non-degenerate (full and reduced), scores `(1,1,1)`; a flat
    one and a `window = frame_size` run are degenerate and score `(0,0,0)` -/
example :
    ValidHier [[(0, 4)], [(0, 2), (2, 4)]] 4
    ∧ lca [[(0, 4)], [(0, 2), (2, 4)]] 1 = .ok [[2, 2, 1, 1], [2, 2, 1, 1], [1, 1, 2, 2], [1, 1, 2, 2]]
    ∧ hasRefTriple [[2, 2, 1, 1], [2, 2, 1, 1], [1, 1, 2, 2], [1, 1, 2, 2]] true 4 = true
    ∧ hasRefTriple [[2, 2, 1, 1], [2, 2, 1, 1], [1, 1, 2, 2], [1, 1, 2, 2]] false 4 = true
    ∧ tmeasure [[(0, 4)], [(0, 2), (2, 4)]] [[(0, 4)], [(0, 2), (2, 4)]] true none 1 2 = .ok (1, 1, 1)
    ∧ tmeasure [[(0, 4)], [(0, 2), (2, 4)]] [[(0, 4)], [(0, 2), (2, 4)]] false (some 1) 1 2 = .ok (0, 0, 0)
    ∧ hasRefTriple [[1, 1], [1, 1]] true 2 = false
    ∧ tmeasure [[(0, 2)]] [[(0, 2)]] true none 1 1 = .ok (0, 0, 0)
    ∧ lmeasure [[(0, 4)], [(0, 2), (2, 4)]] [["a"], ["b", "c"]] [[(0, 4)], [(0, 2), (2, 4)]] [["a"], ["b", "c"]] 1 1
        = .ok (1, 1, 1)
    ∧ lmeasure [[(0, 4)], [(0, 2), (2, 4)]] [["a"], ["b", "B"]] [[(0, 4)], [(0, 2), (2, 4)]] [["a"], ["b", "B"]] 1 1
        = .ok (0, 0, 0) := by
  refine ⟨⟨by simp, ?_⟩, by decide +kernel, by decide +kernel, by decide +kernel, by decide +kernel,
    by decide +kernel, by decide +kernel, by decide +kernel, by decide +kernel, by decide +kernel⟩
  intro lv hlv
  simp only [List.mem_cons, List.not_mem_nil, or_false] at hlv
  rcases hlv with rfl | rfl
  · exact ⟨by simp, by simp only [Chain]; norm_num⟩
  · exact ⟨by simp, by simp only [Chain]; norm_num⟩

end Mir.C02.Hierarchy
