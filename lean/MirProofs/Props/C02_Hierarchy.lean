import MirProofs.Lemmas.HierarchySelf
import MirProofs.Lemmas.HierarchyTriple
/-!
  C02 — hierarchy: an annotation scored against itself.

  `hasRefTriple m tr w` is the decidable non-degeneracy predicate: some query frame `q` of the (LCA / meet)
  matrix `m` has two result frames `i, j` in its window `[q−w, q+w) \ {q}` whose depths in row `q` are related
  (`m[q][i] < m[q][j]` for the full measures, `m[q][i] + 1 = m[q][j]` for the reduced one).
  When it holds, T- and L-measure of an annotation against itself are `(1, 1, 1)`; when it fails there is no
  reference triple at all and the code's `0/0 ↦ 0` convention gives `(0, 0, 0)` (a one-segment-per-level
  annotation, a one-frame track, `window = frame_size` …).  `selfPRF b = if b then (1,1,1) else (0,0,0)`.
-/
namespace Mir.C02.Hierarchy
open Mir Mir.Hierarchy

/-- a ranking compared with itself: every reference triple is ranked correctly, for both `transitive` settings -/
theorem correct_self (transitive : Bool) (r : List Nat) : correct transitive r r = triples transitive r r :=
  Mir.Hierarchy.correct_self transitive r

/-- the triplet definition of `_gauc` on a matrix against itself (ANY matrix, any window): 1 when some query frame
    has a reference triple, 0 otherwise -/
theorem gauc_self (n : Nat) (m : Mat) (hm : IsSquare n m) (transitive : Bool) (window : Option Nat) :
    gauc m m transitive window = .ok (if hasRefTriple m transitive (winOf window n) then 1 else 0) := by
  rw [gauc_eq_spec n m m hm hm, gaucSpec_self]

/-- **T-measure, perfect estimate.**  For every valid hierarchical segmentation (every level partitions `[0, T]`,
    nested or not), every accepted `frame_size` / `window` and both `transitive` settings, with `l` the LCA matrix
    and `n = floor(T / frame_size)`: `tmeasure(h, h)` is `(1, 1, 1)` if some query frame has a reference triple
    and `(0, 0, 0)` otherwise. -/
theorem tmeasure_self (h : Hier) (T : Rat) (transitive : Bool) (window : Option Rat) (fs beta : Rat)
    (hv : ValidHier h T) (h0 : 0 < fs) (hw : ∀ w, window = some w → fs ≤ w) :
    ∃ wf l, windowFrames window fs = .ok wf ∧ lca h fs = .ok l ∧ IsSquare (framesOf T fs) l
      ∧ tmeasure h h transitive window fs beta
          = .ok (selfPRF (hasRefTriple l transitive (winOf wf (framesOf T fs)))) :=
  tmeasure_self_valid h T transitive window fs beta hv h0 hw

/-- without any validity hypothesis: whenever `tmeasure(h, h)` returns, it returns `selfPRF` of the
    non-degeneracy predicate of its LCA matrix -/
theorem tmeasure_self_of_ok (h : Hier) (transitive : Bool) (window : Option Rat) (fs beta p r f : Rat)
    (ht : tmeasure h h transitive window fs beta = .ok (p, r, f)) :
    ∃ n wf l, windowFrames window fs = .ok wf ∧ lca h fs = .ok l ∧ IsSquare n l
      ∧ (p, r, f) = selfPRF (hasRefTriple l transitive (winOf wf n)) :=
  tmeasure_self_ok ht

/-- **L-measure, perfect estimate** (labels no longer than their intervals): `(1, 1, 1)` if some query frame has
    a reference triple in the meet matrix, `(0, 0, 0)` otherwise -/
theorem lmeasure_self (h : Hier) (ls : List (List String)) (T fs beta : Rat)
    (hv : ValidHier h T) (h0 : 0 < fs) (hfit : ∀ x ∈ h.zip ls, x.2.length ≤ x.1.length) :
    ∃ m, meet h ls fs = .ok m ∧ IsSquare (framesOf T fs) m
      ∧ lmeasure h ls h ls fs beta = .ok (selfPRF (hasRefTriple m true (framesOf T fs))) :=
  lmeasure_self_valid h ls T fs beta hv h0 hfit

theorem lmeasure_self_of_ok (h : Hier) (ls : List (List String)) (fs beta p r f : Rat)
    (ht : lmeasure h ls h ls fs beta = .ok (p, r, f)) :
    ∃ n m, meet h ls fs = .ok m ∧ IsSquare n m ∧ (p, r, f) = selfPRF (hasRefTriple m true n) :=
  lmeasure_self_ok ht

/-- non-vacuity: a two-level annotation of 4 frames is non-degenerate (full and reduced), scores `(1,1,1)`; a flat
    one and a `window = frame_size` run are degenerate and score `(0,0,0)` -/
example :
    ValidHier [[(0, 4)], [(0, 2), (2, 4)]] 4
    ∧ lca [[(0, 4)], [(0, 2), (2, 4)]] 1 = .ok [[2, 2, 1, 1], [2, 2, 1, 1], [1, 1, 2, 2], [1, 1, 2, 2]]
    ∧ hasRefTriple [[2, 2, 1, 1], [2, 2, 1, 1], [1, 1, 2, 2], [1, 1, 2, 2]] true 4 = true
    ∧ hasRefTriple [[2, 2, 1, 1], [2, 2, 1, 1], [1, 1, 2, 2], [1, 1, 2, 2]] false 4 = true
    ∧ tmeasure [[(0, 4)], [(0, 2), (2, 4)]] [[(0, 4)], [(0, 2), (2, 4)]] true none 1 2 = .ok (1, 1, 1)
    ∧ tmeasure [[(0, 4)], [(0, 2), (2, 4)]] [[(0, 4)], [(0, 2), (2, 4)]] false (some 1) 1 2 = .ok (0, 0, 0)
    ∧ hasRefTriple [[1, 1], [1, 1]] true 2 = false
    ∧ tmeasure [[(0, 2)]] [[(0, 2)]] true none 1 1 = .ok (0, 0, 0)
    ∧ lmeasure [[(0, 4)], [(0, 2), (2, 4)]] [["a"], ["b", "c"]] [[(0, 4)], [(0, 2), (2, 4)]] [["a"], ["b", "c"]] 1 1
        = .ok (1, 1, 1)
    ∧ lmeasure [[(0, 4)], [(0, 2), (2, 4)]] [["a"], ["b", "B"]] [[(0, 4)], [(0, 2), (2, 4)]] [["a"], ["b", "B"]] 1 1
        = .ok (0, 0, 0) := by
  refine ⟨⟨by simp, ?_⟩, by decide +kernel, by decide +kernel, by decide +kernel, by decide +kernel,
    by decide +kernel, by decide +kernel, by decide +kernel, by decide +kernel, by decide +kernel⟩
  intro lv hlv
  simp only [List.mem_cons, List.not_mem_nil, or_false] at hlv
  rcases hlv with rfl | rfl
  · exact ⟨by simp, by simp only [Chain]; norm_num⟩
  · exact ⟨by simp, by simp only [Chain]; norm_num⟩

/-! ### the non-degeneracy hypothesis stated on inputs

  `HasTriple depth tr n w` (`Lemmas/HierarchyTriple.lean`): some query frame `q < n` has two result frames `i`, `j`
  in its window (`InWindow n w q ·`: `max(0, q−w) ≤ · < min(n, q+w)`, `· ≠ q`) with `depth q i < depth q j`
  (full measure) resp. `depth q i + 1 = depth q j` (reduced measure).  `depth` is the Layer-S depth of two frames:
  `lcaSpec` — the deepest level at which they lie in one segment — or `meetSpec` — the deepest level at which they
  carry the same (case-folded) label; both are defined on the annotation, not on a matrix. -/

/-- **`hasRefTriple`, unfolded** for ANY matrix: some row `q` has two result frames in its window whose entries in
    that row are related. -/
theorem hasRefTriple_iff_entries (m : Mat) (tr : Bool) (w : Nat) :
    hasRefTriple m tr w = true ↔
      ∃ q i j a b, InWindow m.length w q i ∧ InWindow m.length w q j ∧
        entry m q i = some a ∧ entry m q j = some b ∧ rel tr a b = true :=
  hasRefTriple_iff m tr w

/-- **T-measure self-score, characterised on the input.**  For every valid hierarchical segmentation, accepted
    `frame_size` / `window` and both `transitive` settings: `tmeasure(h, h)` is `(1, 1, 1)` if and only if some
    query frame has two other frames in its window whose LCA depths with it are related (differ, resp. differ by
    exactly one level), and `(0, 0, 0)` if and only if there is no such frame — nothing else is possible. -/
theorem tmeasure_self_iff (h : Hier) (T : Rat) (transitive : Bool) (window : Option Rat) (fs beta : Rat)
    (hv : ValidHier h T) (h0 : 0 < fs) (hw : ∀ w, window = some w → fs ≤ w) :
    (tmeasure h h transitive window fs beta = .ok (1, 1, 1) ↔
      HasTriple (lcaSpec h fs (framesOf T fs)) transitive (framesOf T fs) (windowOf window fs (framesOf T fs))) ∧
    (tmeasure h h transitive window fs beta = .ok (0, 0, 0) ↔
      ¬ HasTriple (lcaSpec h fs (framesOf T fs)) transitive (framesOf T fs) (windowOf window fs (framesOf T fs))) :=
  self_cases (tmeasure_self_hasTriple h T transitive window fs beta hv h0 hw)

/-- **L-measure self-score, characterised on the input** (labels no longer than their intervals): `(1, 1, 1)` iff
    some query frame has two other frames whose meet depths with it (deepest level with a common label) differ,
    `(0, 0, 0)` iff there is none. -/
theorem lmeasure_self_iff (h : Hier) (ls : List (List String)) (T fs beta : Rat)
    (hv : ValidHier h T) (h0 : 0 < fs) (hfit : ∀ x ∈ h.zip ls, x.2.length ≤ x.1.length) :
    (lmeasure h ls h ls fs beta = .ok (1, 1, 1) ↔
      HasTriple (meetSpec h ls fs (framesOf T fs)) true (framesOf T fs) (framesOf T fs)) ∧
    (lmeasure h ls h ls fs beta = .ok (0, 0, 0) ↔
      ¬ HasTriple (meetSpec h ls fs (framesOf T fs)) true (framesOf T fs) (framesOf T fs)) :=
  self_cases (lmeasure_self_hasTriple h ls T fs beta hv h0 hfit)

/-- for the full measures "related" is simply "different": some query frame sees two frames at different depths -/
theorem hasTriple_full_iff_depths_differ (depth : Nat → Nat → Nat) (n w : Nat) :
    HasTriple depth true n w ↔
      ∃ q i j, q < n ∧ InWindow n w q i ∧ InWindow n w q j ∧ depth q i ≠ depth q j :=
  hasTriple_transitive_iff depth n w

/-- **a sufficient condition on segments** (full T-measure): if at some level `k` (1-based) frame `q` shares a
    segment with frame `j`, and at level `k` and every deeper level it shares no segment with frame `i` (`i`, `j`
    in the window of `q`), the annotation is non-degenerate and scores `(1, 1, 1)` against itself.  (E.g. the
    deepest level has a segment spanning two frames and a second segment.) -/
theorem tmeasure_self_of_split (h : Hier) (T : Rat) (window : Option Rat) (fs beta : Rat)
    (hv : ValidHier h T) (h0 : 0 < fs) (hw : ∀ w, window = some w → fs ≤ w) (q i j k : Nat)
    (hq : q < framesOf T fs)
    (hi : InWindow (framesOf T fs) (windowOf window fs (framesOf T fs)) q i)
    (hj : InWindow (framesOf T fs) (windowOf window fs (framesOf T fs)) q j) (hk : 0 < k)
    (hshare : ∃ lv, (lv, k) ∈ h.zipIdx 1 ∧ levelCovers fs (framesOf T fs) lv q j = true)
    (hsplit : ∀ x ∈ h.zipIdx 1, k ≤ x.2 → levelCovers fs (framesOf T fs) x.1 q i = false) :
    tmeasure h h true window fs beta = .ok (1, 1, 1) :=
  (tmeasure_self_iff h T true window fs beta hv h0 hw).1.2
    (hasTriple_lca_of_levels h fs _ _ q i j k hq hi hj hk hshare hsplit)

/-- **a sufficient condition on labels** (L-measure): at some level `k` frames `q` and `j` carry the same label,
    and at level `k` and every deeper level `q` and `i` carry different labels. -/
theorem lmeasure_self_of_split (h : Hier) (ls : List (List String)) (T fs beta : Rat)
    (hv : ValidHier h T) (h0 : 0 < fs) (hfit : ∀ x ∈ h.zip ls, x.2.length ≤ x.1.length) (q i j k : Nat)
    (hq : q < framesOf T fs)
    (hi : InWindow (framesOf T fs) (framesOf T fs) q i) (hj : InWindow (framesOf T fs) (framesOf T fs) q j)
    (hk : 0 < k)
    (hshare : ∃ lv, (lv, k) ∈ (h.zip ls).zipIdx 1 ∧ levelAgrees fs (framesOf T fs) lv q j = true)
    (hsplit : ∀ x ∈ (h.zip ls).zipIdx 1, k ≤ x.2 → levelAgrees fs (framesOf T fs) x.1 q i = false) :
    lmeasure h ls h ls fs beta = .ok (1, 1, 1) :=
  (lmeasure_self_iff h ls T fs beta hv h0 hfit).1.2
    (hasTriple_meet_of_levels h ls fs _ _ q i j k hq hi hj hk hshare hsplit)

/-- non-vacuity: in the two-level, four-frame annotation above frame 0 sees frame 1 (same deepest segment, depth 2)
    and frame 2 (depth 1): a triple for the full and the reduced measure; the hypotheses of `tmeasure_self_of_split`
    hold with `q, i, j, k = 0, 2, 1, 2`; a flat annotation has no triple. -/
example :
    HasTriple (lcaSpec [[(0, 4)], [(0, 2), (2, 4)]] 1 4) true 4 4
    ∧ HasTriple (lcaSpec [[(0, 4)], [(0, 2), (2, 4)]] 1 4) false 4 4
    ∧ framesOf 4 1 = 4 ∧ windowOf none 1 4 = 4
    ∧ InWindow 4 4 0 2 ∧ InWindow 4 4 0 1
    ∧ ([(0, 2), (2, 4)], 2) ∈ List.zipIdx [[((0 : Rat), (4 : Rat))], [(0, 2), (2, 4)]] 1
    ∧ levelCovers 1 4 [(0, 2), (2, 4)] 0 1 = true ∧ levelCovers 1 4 [(0, 2), (2, 4)] 0 2 = false
    ∧ ¬ HasTriple (lcaSpec [[(0, 2)]] 1 2) true 2 2 := by
  refine ⟨⟨0, 2, 1, by decide +kernel⟩, ⟨0, 2, 1, by decide +kernel⟩, by decide +kernel, rfl, by decide,
    by decide, by simp [List.zipIdx], by decide +kernel, by decide +kernel, ?_⟩
  rintro ⟨q, i, j, hq, hi, hj, hr⟩
  unfold InWindow at hi hj
  have hij : i = j := by omega
  subst hij
  simp [rel] at hr

end Mir.C02.Hierarchy
