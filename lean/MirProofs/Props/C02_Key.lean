import MirProofs.Lemmas.Key
/-!
  C02 — key: an estimated key equal to the reference key scores 1.

  Finite level (`Key` = 17 spellings × 3 modes + `X`): `weightedScore k k = 1` for every key including `X`, and more
  generally for every enharmonic respelling.  String level (`weightedScoreStr` mirrors `key.weighted_score` on the
  text): for EVERY string, whenever the call returns it returns 1; and every rendered key (any case variant on
  either side) does return.
  C06 (exchange symmetry) is not claimed for `key`: the score is directional (last example).
-/
namespace Mir.C02.Key
open Mir Mir.Key

/-- the scoring core on equal tonic and equal mode: first branch, 1 -/
theorem scoreCore_self {M : Type} [DecidableEq M] (major minor : M) (k : Option Int) (m : Option M) :
    scoreCore major minor k m k m = 1 := by
  unfold scoreCore
  rw [if_pos ⟨rfl, rfl⟩]

/-- **every key against itself scores 1**, `X` included -/
theorem key_self (k : Key) : weightedScore k k = 1 := scoreCore_self _ _ _ _

/-- the same for an enharmonic respelling of the reference (`C#` vs `Db`), in both directions -/
theorem key_respelling (k k' : Key) (h : IsRespellingOf k k') : weightedScore k k' = 1 ∧ weightedScore k' k = 1 := by
  unfold weightedScore
  rw [h.1, h.2]
  exact ⟨scoreCore_self _ _ _ _, scoreCore_self _ _ _ _⟩

/-- string level, ALL strings: when `weighted_score(s, s)` returns, it returns 1 -/
theorem key_string_self_of_ok (s : List Char) (x : Rat) (h : weightedScoreStr s s = .ok x) : x = 1 := by
  unfold weightedScoreStr at h
  cases hv : validateKey s with
  | error e => rw [hv] at h; cases h
  | ok u =>
    cases hs : splitKeyString s with
    | error e => rw [hv, hs] at h; cases h
    | ok km =>
      rw [hv, hs] at h
      obtain ⟨k, m⟩ := km
      have h' : (Except.ok (scoreCore sMajor sMinor k m k m) : Py Rat) = .ok x := h
      rw [scoreCore_self] at h'
      cases h'
      rfl

/-- string level: every key as a user writes it (any case variant of the tonic on either side) scores 1
    against itself -/
theorem key_string_self (k : Key) (v w : Nat) (hv : v < 4) (hw : w < 4) :
    weightedScoreStr (k.render v) (k.render w) = .ok 1 := by
  rw [weightedScoreStr_render k k v w hv hw, key_self]

/-- non-vacuity; and the direction of the score (why C06 is not claimed): an estimate a fifth ABOVE the reference
    gets 1/2, a fifth below gets 0 -/
example :
    weightedScore .x .x = 1 ∧ weightedScore (.mk .Fs .minor) (.mk .Fs .minor) = 1
    ∧ IsRespellingOf (.mk .Cs .major) (.mk .Db .major) ∧ weightedScore (.mk .Cs .major) (.mk .Db .major) = 1
    ∧ weightedScoreStr "c# major".toList "C# major".toList = .ok 1
    ∧ weightedScoreStr "x".toList "X".toList = .ok 1
    ∧ weightedScoreStr "H major".toList "H major".toList = .error .valueError
    ∧ weightedScore (.mk .C .major) (.mk .G .major) = 1 / 2 ∧ weightedScore (.mk .G .major) (.mk .C .major) = 0 := by
  refine ⟨key_self _, key_self _, by decide, by decide +kernel, by decide +kernel, by decide +kernel,
    by decide +kernel, by decide +kernel, by decide +kernel⟩

end Mir.C02.Key
