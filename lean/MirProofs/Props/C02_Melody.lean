import MirProofs.Lemmas.Melody
/-! C02 (melody): a melody scored against an exact copy of itself gets voicing recall 1, voicing false alarm 0
    and raw pitch = raw chroma = overall accuracy 1, provided the (resampled) reference is non-degenerate:
    binary voicing, at least one voiced frame, and every voiced frame carries a pitch that `hz2cents` does not
    map to 0 cents.  The last condition is necessary — see `melody_self_full_statement_false`. -/
namespace Mir.C02.Melody
open Mir Mir.Melody

/-- decidable non-degeneracy of a (voicing, cent) frame sequence -/
def nondegenerate (v c : List Rat) : Bool :=
  decide (v.length = c.length) && isBinary v && v.any (fun x => decide (0 < x)) &&
  (List.zip v c).all (fun p => decide (p.1 ≠ 0 → p.2 ≠ 0))

theorem nondegenerate_iff {v c : List Rat} : nondegenerate v c = true ↔
    v.length = c.length ∧ (∀ x ∈ v, x = 0 ∨ x = 1) ∧ (∃ x ∈ v, 0 < x) ∧
    (∀ p ∈ List.zip v c, p.1 ≠ 0 → p.2 ≠ 0) := by
  simp only [nondegenerate, Bool.and_eq_true, decide_eq_true_eq, isBinary_iff, List.any_eq_true,
    List.all_eq_true, and_assoc]

/-- voicing recall of a binary voicing array with a voiced frame against itself is 1 -/
theorem voicing_recall_self {v : List Rat} (hb : isBinary v = true) (hex : ∃ x ∈ v, 0 < x) :
    voicingRecall v v = .ok 1 := by
  have hb' := isBinary_iff.1 hb
  have hpos := rsum_pos_of_voiced hb' hex
  have hvc : rsum (v.map fun x => ind (isVoiced x)) = rsum v := voicedCount_eq_rsum hb'
  have hne : v.isEmpty = false := by
    obtain ⟨x, hx, _⟩ := hex
    cases v with
    | nil => simp at hx
    | cons a v => rfl
  unfold voicingRecall voicingRate
  simp only [hne, Bool.or_self, Bool.false_eq_true, if_false]
  rw [if_neg (by rw [hvc]; exact ne_of_gt hpos), bmul_eq_of_length (by simp)]
  simp only [self_voiced_sum hb', hvc]
  rw [div_self (ne_of_gt hpos)]

/-- voicing false alarm of any voicing array against itself is 0 -/
theorem voicing_false_alarm_self (v : List Rat) : voicingFalseAlarm v v = .ok 0 := by
  unfold voicingFalseAlarm voicingRate
  split
  · rfl
  · simp only
    split
    · rfl
    · rw [bmul_eq_of_length (by simp)]
      simp only [self_unvoiced_sum, zero_div]

theorem raw_pitch_accuracy_self {v c : List Rat} {tol : Rat} (hnd : nondegenerate v c = true) (ht : 0 < tol) :
    rawPitchAccuracy v c v c tol = .ok 1 := by
  obtain ⟨hlen, hb, hex, hz⟩ := nondegenerate_iff.1 hnd
  have hpos := rsum_pos_of_voiced hb hex
  have hex' : ∃ p ∈ List.zip v c, 0 < p.1 := by
    obtain ⟨x, hx, hx0⟩ := hex
    obtain ⟨i, hi, rfl⟩ := List.getElem_of_mem hx
    exact ⟨(v[i], c[i]'(hlen ▸ hi)), by
      rw [List.mem_iff_getElem]; exact ⟨i, by simp [← hlen, hi], by simp⟩, hx0⟩
  have hnz := nonzeroCount_self_pos hex' hz
  have hv : validVoicingB v v = true := validVoicingB_iff.2 ⟨rfl, inUnit_of_binary hb, inUnit_of_binary hb⟩
  have hl : validLenB v c v c = true := validLenB_iff.2 ⟨hlen, hlen, rfl⟩
  have hvne : v.isEmpty = false := by
    cases v with
    | nil => simp [rsum] at hpos
    | cons a v => rfl
  have hcne : c.isEmpty = false := by
    cases c with
    | nil => simp [nonzeroCount] at hnz
    | cons a c => rfl
  unfold rawPitchAccuracy pitchAcc
  simp only [hv, hl, Bool.and_self, if_true, pitchAccCore, hvne, hcne, Bool.false_or, Bool.or_false,
    decide_eq_true_eq, if_neg (ne_of_gt hpos), if_neg (ne_of_gt hnz)]
  rw [pitchSum_self (by simp [withinTol, ht]) hlen hz, div_self (ne_of_gt hpos)]

theorem raw_chroma_accuracy_self {v c : List Rat} {tol : Rat} (hnd : nondegenerate v c = true) (ht : 0 < tol) :
    rawChromaAccuracy v c v c tol = .ok 1 := by
  obtain ⟨hlen, hb, hex, hz⟩ := nondegenerate_iff.1 hnd
  have hpos := rsum_pos_of_voiced hb hex
  have hex' : ∃ p ∈ List.zip v c, 0 < p.1 := by
    obtain ⟨x, hx, hx0⟩ := hex
    obtain ⟨i, hi, rfl⟩ := List.getElem_of_mem hx
    exact ⟨(v[i], c[i]'(hlen ▸ hi)), by
      rw [List.mem_iff_getElem]; exact ⟨i, by simp [← hlen, hi], by simp⟩, hx0⟩
  have hnz := nonzeroCount_self_pos hex' hz
  have hv : validVoicingB v v = true := validVoicingB_iff.2 ⟨rfl, inUnit_of_binary hb, inUnit_of_binary hb⟩
  have hl : validLenB v c v c = true := validLenB_iff.2 ⟨hlen, hlen, rfl⟩
  have hvne : v.isEmpty = false := by
    cases v with
    | nil => simp [rsum] at hpos
    | cons a v => rfl
  have hcne : c.isEmpty = false := by
    cases c with
    | nil => simp [nonzeroCount] at hnz
    | cons a c => rfl
  unfold rawChromaAccuracy pitchAcc
  simp only [hv, hl, Bool.and_self, if_true, pitchAccCore, hvne, hcne, Bool.false_or, Bool.or_false,
    decide_eq_true_eq, if_neg (ne_of_gt hpos), if_neg (ne_of_gt hnz)]
  rw [pitchSum_self (by simp [chromaWithinTol, chromaDist_zero, ht]) hlen hz, div_self (ne_of_gt hpos)]

theorem overall_accuracy_self {v c : List Rat} {tol : Rat} (hnd : nondegenerate v c = true) (ht : 0 < tol) :
    overallAccuracy v c v c tol = .ok 1 := by
  obtain ⟨hlen, hb, hex, hz⟩ := nondegenerate_iff.1 hnd
  have hpos := rsum_pos_of_voiced hb hex
  have hv : validVoicingB v v = true := validVoicingB_iff.2 ⟨rfl, inUnit_of_binary hb, inUnit_of_binary hb⟩
  have hl : validLenB v c v c = true := validLenB_iff.2 ⟨hlen, hlen, rfl⟩
  have hvne : v.isEmpty = false := by
    cases v with
    | nil => simp [rsum] at hpos
    | cons a v => rfl
  have hcne : c.isEmpty = false := by
    cases c with
    | nil => cases v <;> simp_all
    | cons a c => rfl
  have hn : (v.length : Rat) ≠ 0 := by
    cases v with
    | nil => simp at hvne
    | cons a v => simp only [List.length_cons]; positivity
  unfold overallAccuracy
  simp only [hv, hl, Bool.and_self, if_true, oaCore, hvne, hcne, Bool.or_self, Bool.false_eq_true, if_false,
    if_neg (ne_of_gt hpos)]
  rw [oaSum_self ht hlen hb hz, unvSum_self hb, voicedCount_eq_rsum hb, div_self (ne_of_gt hpos)]
  congr 1
  field_simp
  ring

/-- `evaluate(t, f, t, f)`: the estimate arrays that reach the frame measures are the reference arrays, and
    if those are non-degenerate every score is at its optimum — for every hop, interpolation kind and
    positive tolerance. -/
theorem evaluate_self {t : List Rat} {f : List Freq} {hop : Option Rat} {kind : Kind} {tol : Rat}
    {cv : CentVoicing} (hcv : toCentVoicing t f t f none none hop kind = .ok cv)
    (hnd : nondegenerate cv.refVoicing cv.refCent = true) (ht : 0 < tol) :
    evaluate t f t f none none hop kind tol =
      .ok [("Voicing Recall", 1), ("Voicing False Alarm", 0), ("Raw Pitch Accuracy", 1),
           ("Raw Chroma Accuracy", 1), ("Overall Accuracy", 1)] := by
  obtain ⟨h1, h2⟩ := toCentVoicing_self hcv
  obtain ⟨_, hb, hex, _⟩ := nondegenerate_iff.1 hnd
  unfold evaluate
  simp only [hcv, scoreAll, h1, h2, voicing_recall_self (isBinary_iff.2 hb) hex, voicing_false_alarm_self,
    raw_pitch_accuracy_self hnd ht, raw_chroma_accuracy_self hnd ht, overall_accuracy_self hnd ht]

/-- The statement without the "voiced frames have non-zero cents" condition … -/
def melody_self_full_statement : Prop :=
  ∀ (t : List Rat) (f : List Freq) (cv : CentVoicing) (tol : Rat),
    toCentVoicing t f t f none none none .linear = .ok cv →
    isBinary cv.refVoicing = true → (∃ x ∈ cv.refVoicing, 0 < x) → 0 < tol →
    evaluate t f t f none none none .linear tol =
      .ok [("Voicing Recall", 1), ("Voicing False Alarm", 0), ("Raw Pitch Accuracy", 1),
           ("Raw Chroma Accuracy", 1), ("Overall Accuracy", 1)]

/-- … is false of the code as it is: a melody sitting exactly on the base frequency (0 cents) is all voiced,
    yet scores raw pitch / chroma / overall accuracy 0 against itself. -/
theorem melody_self_full_statement_false : ¬ melody_self_full_statement := by
  intro h
  have := h [0, 1] [⟨1, 0⟩, ⟨1, 0⟩] ⟨[1, 1], [0, 0], [1, 1], [0, 0]⟩ 50 (by decide +kernel)
    (by decide +kernel) ⟨1, by simp, by norm_num⟩ (by norm_num)
  revert this
  decide +kernel

/-- the strongest true version is `evaluate_self` (hypothesis `nondegenerate`); restated under the name the
    finding refers to -/
theorem melody_self_partial {t : List Rat} {f : List Freq} {hop : Option Rat} {kind : Kind} {tol : Rat}
    {cv : CentVoicing} (hcv : toCentVoicing t f t f none none hop kind = .ok cv)
    (hnd : nondegenerate cv.refVoicing cv.refCent = true) (ht : 0 < tol) :
    evaluate t f t f none none hop kind tol =
      .ok [("Voicing Recall", 1), ("Voicing False Alarm", 0), ("Raw Pitch Accuracy", 1),
           ("Raw Chroma Accuracy", 1), ("Overall Accuracy", 1)] :=
  evaluate_self hcv hnd ht

/-! non-vacuity: a resampled (hop) self-evaluation that satisfies the hypotheses -/
example : ∃ cv, toCentVoicing [0, 1/2, 1] [⟨1, 4800⟩, ⟨0, 0⟩, ⟨-1, 5000⟩] [0, 1/2, 1]
      [⟨1, 4800⟩, ⟨0, 0⟩, ⟨-1, 5000⟩] none none (some (1/4)) .linear = .ok cv ∧
    nondegenerate cv.refVoicing cv.refCent = true :=
  ⟨⟨[1, 1, 0, 0, 0], [4800, 4800, 0, 0, 5000], [1, 1, 0, 0, 0], [4800, 4800, 0, 0, 5000]⟩,
    by decide +kernel, by decide +kernel⟩
example : nondegenerate [1, 0, 1] [4800, 0, 5000] = true := by decide +kernel

end Mir.C02.Melody
