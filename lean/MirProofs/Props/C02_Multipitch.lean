import MirProofs.Lemmas.MultipitchInvariance
/-! C02 (multipitch part) — a perfect estimate receives the perfect score. -/
open Mir Mir.Multipitch

namespace Mir.C02.Multipitch

/-- Scoring a valid annotation with at least one pitch against an exact copy of itself (same time base, same
    frames, any window ≥ 0) gives precision = recall = accuracy = 1 and all four errors = 0, raw and chroma. -/
theorem self_is_perfect (t : List Rat) (f : Frames) (w : Rat) (m : Seven × Seven) (hw : 0 ≤ w)
    (h : metrics t f t f w = .ok m) (hne : ∃ fr ∈ f, fr ≠ []) :
    m.1 = ⟨1, 1, 1, 0, 0, 0, 0⟩ ∧ m.2 = ⟨1, 1, 1, 0, 0, 0, 0⟩ := by
  obtain ⟨rfl, hr, he⟩ := metrics_ok h
  rw [metricsCore_eq w hr he, alignedEst_self]
  exact ⟨seven_diag_pos (rowsP_self_diag (rawFeas_self hw) f) (tpSum_self_pos (rawFeas_self hw) hne),
         seven_diag_pos (rowsP_self_diag (chromaFeas_self hw) f) (tpSum_self_pos (chromaFeas_self hw) hne)⟩

/-- the degenerate case excluded above: without any pitch every score is 0 by the code's convention -/
theorem self_without_pitch_is_zero (t : List Rat) (f : Frames) (w : Rat) (m : Seven × Seven) (hw : 0 ≤ w)
    (h : metrics t f t f w = .ok m) (hempty : ∀ fr ∈ f, fr = []) :
    m.1 = ⟨0, 0, 0, 0, 0, 0, 0⟩ ∧ m.2 = ⟨0, 0, 0, 0, 0, 0, 0⟩ := by
  obtain ⟨rfl, hr, he⟩ := metrics_ok h
  rw [metricsCore_eq w hr he, alignedEst_self]
  exact ⟨seven_diag_zero (rowsP_self_diag (rawFeas_self hw) f) (tpSum_self_zero hempty),
         seven_diag_zero (rowsP_self_diag (chromaFeas_self hw) f) (tpSum_self_zero hempty)⟩

/-- an identical time base is never resampled -/
theorem self_not_resampled (t : List Rat) (f : Frames) : alignedEst t t f = f := alignedEst_self t f

/-- non-vacuity: a valid annotation with a pitch, an empty frame and a duplicated pitch -/
example : valid [0, 1 / 4, 1 / 2] [[60, 64], [], [67, 67]] [0, 1 / 4, 1 / 2] [[60, 64], [], [67, 67]] = true ∧
    (∃ fr ∈ ([[60, 64], [], [67, 67]] : Frames), fr ≠ []) := by
  refine ⟨by decide +kernel, [60, 64], by simp, by simp⟩

end Mir.C02.Multipitch
