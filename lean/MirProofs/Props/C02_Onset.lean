import MirProofs.Lemmas.Onset
/-!
  C02 (onset) — a valid, non-empty onset list scored against itself gets F = P = R = 1, for every window ≥ 0.
-/
namespace Mir.C02.Onset
open Mir.Onset Mir.MiscStats

theorem f_measure_self (x : List Rat) (w : Rat) (hv : Onset.validate x x = .ok ()) (hne : x ≠ []) (hw : 0 ≤ w) :
    Onset.fMeasure x x w = .ok (1, 1, 1) := by
  rw [fMeasure_of_valid w hv, hitPRF_self (withinWindow w) x 1 hne (fun t _ => ww_self hw t)]

/-! non-vacuity: the hypotheses are satisfiable, and the window condition matters -/
example : Onset.validate [0, 1 / 2, 1 / 2, 3] [0, 1 / 2, 1 / 2, 3] = .ok () := by decide +kernel
example : Onset.fMeasure [0, 1] [0, 1] (-1) = .ok (0, 0, 0) := by
  rw [fMeasure_of_valid _ (by decide +kernel), hitPRF_eq_brute]; decide +kernel

end Mir.C02.Onset
