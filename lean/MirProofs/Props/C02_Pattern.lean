import MirProofs.Lemmas.PatternSpec
/-!
  C02 (pattern part) — a perfect estimate receives the perfect score.

  Non-degeneracy (`ValidPats x`, decidable): at least one pattern, every pattern has at least one occurrence, every
  occurrence is a non-empty list of DISTINCT points (the code intersects point sets but divides by `len`, so an
  occurrence listing a point twice scores < 1 against itself — see the last `example`).
-/
namespace Mir.C02.Pattern
open Mir.Pattern

theorem cardScore_self (P : Occ) (h : ValidOcc P) : cardScore P P = .ok 1 := by
  rw [cardScore_eq]
  have : P.isEmpty = false := by
    cases P with
    | nil => exact absurd rfl h.1
    | cons => rfl
  rw [this]
  simp [card_self h.1 h.2]

theorem establishment_self (x : Pats) (h : ValidPats x) : establishmentFPR x x cardName = .ok (1, 1, 1) := by
  rw [establishmentFPR_eq, h.guards.1, h.guards.2, h.no_empty_occ, Mir.Pattern.establishment_self h]
  rfl

theorem occurrence_self (x : Pats) (thres : Rat) (h : ValidPats x) (ht : thres ≤ 1) :
    occurrenceFPR x x thres cardName = .ok (1, 1, 1) := by
  rw [occurrenceFPR_eq, h.guards.1, h.guards.2, h.no_empty_occ, Mir.Pattern.occurrence_self h ht]
  rfl

theorem three_layer_self (x : Pats) (h : ValidPats x) : threeLayerFPR x x = .ok (1, 1, 1) := by
  rw [threeLayerFPR_eq, h.guards.1, h.guards.2, h.no_empty_occ, Mir.Pattern.threeLayer_self h]
  rfl

theorem standard_self (x : Pats) (tol : Rat) (h : ValidPats x) (ht : 0 < tol) :
    standardFPR x x tol = .ok (1, 1, 1) := by
  rw [standardFPR_eq, h.guards.1, h.guards.2, h.no_empty_proto, Mir.Pattern.standard_self ht h.1]
  rfl

/-- first-n three-layer precision with at most `n` patterns -/
theorem first_n_three_layer_self (x : Pats) (n : Int) (h : ValidPats x) (hn : (x.length : Int) ≤ n) :
    firstNThreeLayerP x x n = .ok 1 := by
  rw [firstNThreeLayerP_eq, h.guards.1, h.guards.2, firstN_of_le hn, three_layer_self x h]
  rfl

/-- first-n target proportion recall with at most `n` patterns -/
theorem first_n_target_proportion_self (x : Pats) (n : Int) (h : ValidPats x) (hn : (x.length : Int) ≤ n) :
    firstNTargetProportionR x x n = .ok 1 := by
  rw [firstNTargetProportionR_eq, h.guards.1, h.guards.2, firstN_of_le hn, establishment_self x h]
  rfl

/-- `evaluate(x, x)`: every entry is 1 (positive `tol`, at most `n` patterns; the forced thresholds are ≤ 1) -/
theorem evaluate_self (x : Pats) (tol thres : Option Rat) (n : Option Int) (h : ValidPats x)
    (htol : 0 < tol.getD defaultTol) (hn : (x.length : Int) ≤ n.getD defaultN) :
    evaluate x x tol thres none n = .ok
      [("F", 1), ("P", 1), ("R", 1), ("F_est", 1), ("P_est", 1), ("R_est", 1),
       ("F_occ.5", 1), ("P_occ.5", 1), ("R_occ.5", 1), ("F_occ.75", 1), ("P_occ.75", 1), ("R_occ.75", 1),
       ("F_3", 1), ("P_3", 1), ("R_3", 1), ("FFP", 1), ("FFTP_est", 1)] := by
  unfold evaluate
  simp only [Option.getD_none]
  rw [standard_self x _ h htol, bind_ok, establishment_self x h, bind_ok,
    occurrence_self x (1 / 2) h (by decide +kernel), bind_ok,
    occurrence_self x (3 / 4) h (by decide +kernel), bind_ok, three_layer_self x h, bind_ok,
    first_n_three_layer_self x _ h hn, bind_ok, first_n_target_proportion_self x _ h hn, bind_ok]
  rfl

/-! non-vacuity -/
def exX : Pats := [[[(0, 60), (1, 62)], [(4, 60), (5, 62), (6, 64)]], [[(1/2, 61)]]]

example : ValidPats exX ∧ (exX.length : Int) ≤ 5 ∧ (0 : Rat) < defaultTol := by decide +kernel
example : establishmentFPR exX exX = .ok (1, 1, 1) ∧ occurrenceFPR exX exX = .ok (1, 1, 1) ∧
    threeLayerFPR exX exX = .ok (1, 1, 1) ∧ standardFPR exX exX = .ok (1, 1, 1) := by decide +kernel
/-- the hypothesis `x.length ≤ n` matters: with n = 1 the second pattern is not retrieved -/
example : firstNTargetProportionR exX exX 1 = .ok (1/2) := by decide +kernel
/-- distinctness matters: an occurrence listing a point twice does not score 1 against itself -/
example : establishmentFPR [[[(0, 60), (0, 60), (1, 62)]]] [[[(0, 60), (0, 60), (1, 62)]]] = .ok (2/3, 2/3, 2/3) := by
  decide +kernel
/-- `tol > 0` matters for `standard_FPR` (strict `<`) -/
example : standardFPR exX exX 0 = .ok (1/2, 1/2, 1/2) := by decide +kernel

end Mir.C02.Pattern
