import MirProofs.Props.C16
/-! C02 — a segmentation scored against a copy of itself: ARI = 1 (any partition, incl. one cluster / all singletons). -/
namespace Mir.C02.Segment
open Mir

theorem zip_self_eq {α : Type} : ∀ (y : List α) (a b : α), (a, b) ∈ y.zip y → a = b
  | [], _, _, h => by simp at h
  | x :: xs, a, b, h => by
      simp only [List.zip_cons_cons, List.mem_cons, Prod.mk.injEq] at h
      rcases h with ⟨rfl, rfl⟩ | h
      · rfl
      · exact zip_self_eq xs a b h

theorem ari_self (y : List Nat) : Segment.adjustedRandIdx y y = .ok 1 :=
  Mir.C16.ari_self y y rfl (by
    unfold Segment.SamePartition
    intro p hp q hq
    have h1 := zip_self_eq y p.1 p.2 hp
    have h2 := zip_self_eq y q.1 q.2 hq
    rw [← h1, ← h2])

end Mir.C02.Segment
