import MirProofs.Props.C16
import MirProofs.Lemmas.SegmentRel
/-! C02 — a segmentation scored against a copy of itself: ARI = 1 (any partition, incl. one cluster / all singletons);
    pairwise P = R = F = 1 as soon as two frames share a label, Rand = 1 with at least two frames; over the
    real-number reading of the entropy-based scores: MI(y,y) = H(y), NMI = 1 (entropy at or above the code's 1e-10
    floor — e.g. up to 10^10 frames), V-measure and NCE = (1, 1, 1) with at least two labels and (0, 0, 0) by the
    documented convention with one, AMI = 1 outside its early return provided its denominator H − E[MI] is not 0. -/
namespace Mir.C02.Segment
open Mir

theorem zip_self_eq {α : Type} : ∀ (y : List α) (a b : α), (a, b) ∈ y.zip y → a = b
  | [], _, _, h => by simp at h
  | x :: xs, a, b, h => by
      simp only [List.zip_cons_cons, List.mem_cons, Prod.mk.injEq] at h
      rcases h with ⟨rfl, rfl⟩ | h
      · rfl
      · exact zip_self_eq xs a b h

theorem ari_self (y : List Nat) : Segment.adjustedRandIdx y y = .ok 1 :=
  Mir.C16.ari_self y y rfl (by
    unfold Segment.SamePartition
    intro p hp q hq
    have h1 := zip_self_eq y p.1 p.2 hp
    have h2 := zip_self_eq y q.1 q.2 hq
    rw [← h1, ← h2])

/-! ### pairwise, Rand -/

/-- pairwise precision = recall = F = 1 for a sequence against itself, for every beta > 0, as soon as some label
    occurs on two frames (otherwise there is no pair to agree on and all three are 0/0) -/
theorem pairwise_self (y : List Nat) {beta : ℚ} (hb : 0 < beta) {c : Nat} (hc : 2 ≤ y.count c) :
    Segment.pairwiseIdx y y beta = .ok (.val 1, .val 1, .val 1) :=
  Segment.pairwiseIdx_samePartition rfl (Segment.samePartition_self y) hb (Segment.combSums_row_pos rfl hc)

/-- more generally: whenever the two sequences induce the same partition of the frames -/
theorem pairwise_same_partition {yr ye : List Nat} (hl : yr.length = ye.length) (hp : Segment.SamePartition yr ye)
    {beta : ℚ} (hb : 0 < beta) {c : Nat} (hc : 2 ≤ yr.count c) :
    Segment.pairwiseIdx yr ye beta = .ok (.val 1, .val 1, .val 1) :=
  Segment.pairwiseIdx_samePartition hl hp hb (Segment.combSums_row_pos hl hc)

/-- the Rand index of a sequence of at least two frames against itself is 1 -/
theorem rand_self (y : List Nat) (hn : 2 ≤ y.length) : Segment.randIdx y y = .ok (.val 1) :=
  Segment.randIdx_samePartition rfl (Segment.samePartition_self y) hn

theorem rand_same_partition {yr ye : List Nat} (hl : yr.length = ye.length) (hp : Segment.SamePartition yr ye)
    (hn : 2 ≤ yr.length) : Segment.randIdx yr ye = .ok (.val 1) :=
  Segment.randIdx_samePartition hl hp hn

example : Segment.pairwiseIdx [0, 0, 1, 2] [0, 0, 1, 2] 1 = .ok (.val 1, .val 1, .val 1) ∧
    Segment.randIdx [0, 0, 1, 2] [0, 0, 1, 2] = .ok (.val 1) ∧ 2 ≤ [0, 0, 1, 2].count 0 ∧
    -- without a repeated label the pairwise scores are 0/0
    Segment.pairwiseIdx [0, 1, 2] [0, 1, 2] 1 = .ok (.nan, .nan, .nan) := by decide +kernel

/-! ### entropy-based scores (model at the real-number instance) -/

/-- **MI(y, y) = H(y)**: the mutual information of a labelling with itself is its Shannon entropy -/
theorem mi_self (y : List Nat) : Segment.mutualInfoIdx (α := ℝ) y y = Segment.shannon y :=
  Segment.mutualInfoIdx_real_self y

/-- H(y | y) = 0 -/
theorem cond_entropy_self (y : List Nat) : Segment.condEntropy2 y y = 0 := Segment.condEntropy2_self y

/-- NMI(y, y) with at least two labels is `H / max(H, 1e-10)`: the unqualified claim "NMI(y, y) = 1" is true exactly
    when the entropy reaches the floor the code puts under the denominator -/
theorem nmi_self_iff {y : List Nat} (h : 1 < (Segment.classes y).length) :
    (Segment.nmiIdx (α := ℝ) y y).1 = 1 ↔ 1 / 10 ^ 10 ≤ Segment.shannon y := by
  have hp : 0 < Segment.shannon y := (Segment.shannon_pos_iff y).2 h
  rw [Segment.nmiIdx_real_self h]
  simp only
  constructor
  · intro h1
    by_contra hlt
    have hmax : max (Segment.shannon y) (1 / 10 ^ 10) = 1 / 10 ^ 10 := max_eq_right (le_of_lt (not_le.1 hlt))
    rw [hmax, div_eq_one_iff_eq (by positivity)] at h1
    exact hlt (le_of_eq h1.symm)
  · intro hfl
    rw [max_eq_left hfl, div_self (ne_of_gt hp)]

/-- The full-strength claim "every labelling with at least two labels has NMI(y, y) = 1" is about the real-number
    model and fails only where the entropy of the labelling is below 1e-10 (more than 10^10 frames, all but a
    handful in one segment) — see `nmi_self_iff`; the true version follows. -/
def nmi_self_full_statement : Prop :=
  ∀ y : List Nat, 1 < (Segment.classes y).length → (Segment.nmiIdx (α := ℝ) y y).1 = 1

/-- NMI(y, y) = 1 (numerator = denominator = H) for every labelling with at least two labels and at most 10^10
    frames -/
theorem nmi_self_partial {y : List Nat} (h : 1 < (Segment.classes y).length) (hlen : y.length ≤ 10 ^ 10) :
    Segment.nmiIdx (α := ℝ) y y = (1, Segment.shannon y, Segment.shannon y) :=
  Segment.nmiIdx_real_self_one h (Segment.floor_le_shannon h hlen)

/-- the bound behind it: with at least two labels, `H(y) ≥ 1/n` -/
theorem entropy_ge_inv_length {y : List Nat} (h : 1 < (Segment.classes y).length) :
    1 / (y.length : ℝ) ≤ Segment.shannon y := Segment.shannon_ge_inv_length h

/-- the full-strength claim is false of the model: 10^12 frames of which a single one carries the second label
    have entropy `≤ (log 10^12 + 1)/10^12 < 1e-10`, so NMI(y, y) = H/1e-10 < 1.  (Not reachable by running the code:
    the frame sequence alone would take terabytes; reported as a remark, not as a finding.) -/
theorem nmi_self_full_statement_false : ¬ nmi_self_full_statement := by
  intro hfull
  have hcl : 1 < (Segment.classes (0 :: List.replicate (999999999998 + 1) 1)).length := by
    rw [Segment.classes_lopsided]; decide
  have h1 := (nmi_self_iff hcl).1 (hfull _ hcl)
  exact absurd h1 (not_le.2 Segment.shannon_lopsided_lt_floor)

/-- one label (or none) on both sides: NMI = AMI = 1 by the code's early return -/
theorem nmi_ami_self_single {y : List Nat} (h : (Segment.classes y).length ≤ 1) :
    Segment.nmiIdx (α := ℝ) y y = (1, 1, 1) ∧ Segment.amiIdx (α := ℝ) y y = (1, 1, 1) := by
  have hs : Segment.miSpecial y y := by unfold Segment.miSpecial; omega
  rw [Segment.nmiIdx_special hs, Segment.amiIdx_special hs]
  simp [Segment.Transc.ofNat]

/-- **NCE and V-measure of a labelling against itself**: over = under = F = 1 with at least two labels (either
    normalisation, every beta); 0, 0, 0 — the documented convention — with a single label (or none) -/
theorem nce_self (y : List Nat) (beta : ℝ) (marginal : Bool) :
    Segment.nceIdx (α := ℝ) y y beta marginal = if 1 < (Segment.classes y).length then (1, 1, 1) else (0, 0, 0) :=
  Segment.nceIdx_real_self y beta marginal

theorem v_self {y : List Nat} (h : 1 < (Segment.classes y).length) (beta : ℝ) :
    Segment.vmeasureIdx (α := ℝ) y y beta = (1, 1, 1) := by
  unfold Segment.vmeasureIdx
  rw [Segment.nceIdx_real_self, if_pos h]

/-- AMI(y, y) outside the early return is `(H − E[MI]) / (H − E[MI])`: 1 whenever the denominator is not 0 -/
theorem ami_self {y : List Nat} (h : 1 < (Segment.classes y).length)
    (hden : Segment.emiText y y ≠ Segment.shannon y) : (Segment.amiIdx (α := ℝ) y y).1 = 1 :=
  Segment.amiIdx_real_self_one h hden

/-- **AMI(y, y) = 1** for every labelling with at least two labels in which some label covers at least two frames:
    then `E[MI] < H` strictly (one hypergeometric term has `n_ij < b_j` with positive weight) -/
theorem ami_self_one {y : List Nat} (h : 1 < (Segment.classes y).length) {c : Nat} (hc : 2 ≤ y.count c) :
    (Segment.amiIdx (α := ℝ) y y).1 = 1 := Segment.amiIdx_real_self_eq_one h hc

/-- the strict inequality behind it -/
theorem emi_self_lt_entropy {y : List Nat} (h : 1 < (Segment.classes y).length) {c : Nat} (hc : 2 ≤ y.count c) :
    Segment.emiText y y < Segment.shannon y := Segment.emiText_self_lt h hc

/-- the remaining case — every frame has its own label (>= 2 frames): `E[MI] = MI = H = log n`, numerator and
    denominator of AMI(y, y) are both 0, the score is undefined (binary64: nan or 1.0 depending on rounding) -/
theorem ami_self_all_singletons {y : List Nat} (hnd : y.Nodup) (h2 : 2 ≤ y.length) :
    (Segment.amiIdx (α := ℝ) y y).2.1 = 0 ∧ (Segment.amiIdx (α := ℝ) y y).2.2 = 0 :=
  Segment.amiIdx_real_self_nodup hnd h2

theorem ami_self_num_den {y : List Nat} (h : 1 < (Segment.classes y).length) :
    (Segment.amiIdx (α := ℝ) y y).2.1 = Segment.shannon y - Segment.emiText y y ∧
    (Segment.amiIdx (α := ℝ) y y).2.2 = Segment.shannon y - Segment.emiText y y := by
  rw [Segment.amiIdx_real_self h]
  exact ⟨rfl, rfl⟩

example : 1 < (Segment.classes [0, 0, 1, 2]).length ∧ [0, 0, 1, 2].length ≤ 10 ^ 10 ∧
    (Segment.classes [4, 4, 4]).length ≤ 1 ∧ 2 ≤ [0, 0, 1, 2].count 0 ∧ [3, 1, 2].Nodup := by decide +kernel

example : (Segment.amiIdx (α := ℝ) [0, 0, 1, 2] [0, 0, 1, 2]).1 = 1 :=
  ami_self_one (c := 0) (by decide +kernel) (by decide +kernel)

example : Segment.nmiIdx (α := ℝ) [0, 0, 1, 2] [0, 0, 1, 2] =
    (1, Segment.shannon [0, 0, 1, 2], Segment.shannon [0, 0, 1, 2]) ∧
    Segment.vmeasureIdx (α := ℝ) [0, 0, 1, 2] [0, 0, 1, 2] 1 = (1, 1, 1) ∧
    Segment.nceIdx (α := ℝ) [4, 4, 4] [4, 4, 4] 1 false = (0, 0, 0) := by
  refine ⟨nmi_self_partial (by decide +kernel) (by decide +kernel), v_self (by decide +kernel) 1, ?_⟩
  rw [nce_self, if_neg (by decide +kernel)]

end Mir.C02.Segment
