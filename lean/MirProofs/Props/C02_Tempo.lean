import MirProofs.Lemmas.Tempo
/-!
  C02 (tempo) — a reference with two positive tempi, used as its own estimate, gets P-score 1 and both flags,
  for every admissible weight and tolerance. (With a zero reference tempo that tempo can never be hit —
  `zero_reference_never_hit` in C04 — so positivity of both is the non-degeneracy condition.)
-/
namespace Mir.C02.Tempo
open Mir.Tempo Mir.MiscStats

theorem detection_self (r0 r1 w tol : Rat) (h0 : 0 < r0) (h1 : 0 < r1) (hw0 : 0 ≤ w) (hw1 : w ≤ 1)
    (ht0 : 0 ≤ tol) (ht1 : tol ≤ 1) :
    detection [r0, r1] w [r0, r1] tol = .ok (1, true, true) := by
  have hv : validate [r0, r1] w [r0, r1] = .ok () := by
    rw [validate_ok_iff, validateTempi_ok_iff, validateTempi_ok_iff]
    exact ⟨⟨r0, r1, rfl, h0.le, h1.le, fun _ hz => h0.ne' hz.1⟩, ⟨r0, r1, rfl, h0.le, h1.le, by simp⟩, hw0, hw1⟩
  rw [detection_of_valid hv ht0 ht1, hit_self_left h0 r1 ht0, hit_self_right h1 r0 ht0]
  simp [b2r]

/-! non-vacuity, and the degenerate case the hypothesis excludes -/
example : detection [60, 120] (1 / 2) [60, 120] 0 = .ok (1, true, true) := by decide +kernel
example : detection [0, 120] (1 / 4) [0, 120] (2 / 25) = .ok (3 / 4, true, false) := by decide +kernel

end Mir.C02.Tempo
