import MirProofs.Lemmas.Transcription
/-!
  C02 (transcription part) — a perfect estimate receives precision = recall = F = 1 under every variant of the
  criterion (non-degenerate = non-empty, and every tolerance admits distance zero: `selfOK`).

  The Average Overlap Ratio of `(x, x)` is **not** always 1: `util._bipartite_match` may pair a note with a
  different, also-feasible note of the same annotation (a genuine defect of the code, reproduced by the
  harness); the full statement is kept, refuted by a concrete witness, and the strongest true version is proved.
-/
namespace Mir.C02.Transcription
open Mir.Transcription

/-- P = R = F = 1 for `precision_recall_f1_overlap(x, x)` -/
theorem prf_overlap_self (refI : List Ival) (refP : List Rat) (p : Params) (beta : Rat) (s : Rat × Rat × Rat × Rat)
    (hne : refP ≠ []) (hok : selfOK p (refI.zip refP) = true)
    (h : precisionRecallF1Overlap refI refP refI refP p beta = .ok s) :
    s.1 = 1 ∧ s.2.1 = 1 ∧ s.2.2.1 = 1 := by
  have hb := prfOverlap_eq_hitPRF h
  obtain ⟨hv, _⟩ := precisionRecallF1Overlap_ok h
  obtain ⟨_, _, hl, _⟩ := validate_ok hv
  have hne' : refI.zip refP ≠ [] := by
    intro h0
    have := zip_length_eq hl
    rw [h0] at this
    exact hne (List.length_eq_zero_iff.1 this.symm)
  rw [hitPRF_self (noteHit p) _ beta hne' (noteHit_self hok)] at hb
  simp only [Prod.mk.injEq] at hb
  exact hb

theorem onset_prf_self (refI : List Ival) (tol beta : Rat) (strict : Bool) (s : Rat × Rat × Rat)
    (hne : refI ≠ []) (hok : tolOK strict tol = true) (h : onsetPRF refI refI tol strict beta = .ok s) :
    s = (1, 1, 1) := by
  rw [onsetPRF_eq_hitPRF h]
  exact hitPRF_self _ _ beta hne (fun x _ => onsetHit_self hok x)

theorem offset_prf_self (refI : List Ival) (ratio minTol beta : Rat) (strict : Bool) (s : Rat × Rat × Rat)
    (hne : refI ≠ []) (hok : ∀ x ∈ refI, tolOK strict (offsetTol ratio minTol x) = true)
    (h : offsetPRF refI refI ratio minTol strict beta = .ok s) : s = (1, 1, 1) := by
  rw [offsetPRF_eq_hitPRF h]
  exact hitPRF_self _ _ beta hne (fun x hx => offsetHit_self x (hok x hx))

/-- a positive `offset_min_tolerance` (the default is 0.05) suffices for the offset part of `selfOK` -/
theorem selfOK_of_positive (p : Params) (xs : List Note) (h1 : 0 < p.onsetTol) (h2 : 0 < p.pitchTol)
    (h3 : 0 < p.offsetMinTol) : selfOK p xs = true := by
  have pos : ∀ t : Rat, 0 < t → tolOK p.strict t = true := by
    intro t ht; unfold tolOK; cases p.strict <;> simp [ht, le_of_lt ht]
  unfold selfOK
  rw [pos _ h1, pos _ h2]
  cases p.offsetRatio with
  | none => rfl
  | some ρ =>
    simp only [Bool.and_self, Bool.true_and, List.all_eq_true]
    intro x _
    exact pos _ (lt_of_lt_of_le h3 (le_offsetTol_min ..))

/-- with the identity pairing the Average Overlap Ratio of `(x, x)` is 1 -/
theorem aor_identity (refI : List Ival) (m : List Edge) (a : Rat) (hv : validateIntervals1 refI = .ok ())
    (hne : m ≠ []) (hid : ∀ ij ∈ m, ij.1 = ij.2) (h : averageOverlapRatio refI refI m = .ok a) : a = 1 := by
  refine averageOverlapRatio_eq_one (validateIntervals1_ok hv) hne ?_ h
  intro ij hij r e h1 h2
  rw [hid ij hij, h2] at h1
  exact (Option.some.inj h1).symm

/-- The full-strength claim: AOR(x, x) = 1 for every valid non-degenerate x. **False of the code as it is.** -/
def C02_aor_self_full_statement : Prop :=
  ∀ (refI : List Ival) (refP : List Rat) (p : Params) (beta : Rat) (s : Rat × Rat × Rat × Rat),
    refP ≠ [] → selfOK p (refI.zip refP) = true →
    precisionRecallF1Overlap refI refP refI refP p beta = .ok s → s.2.2.2 = 1

def witnessI : List Ival := [(0, 1), (1 / 64, 65 / 64), (1 / 32, 33 / 32)]
def witnessP : List Rat := [60, 303 / 5, 603 / 10]

/-- three overlapping notes 0 / 60 / 30 cents apart, default parameters: notes 1 and 2 are paired crosswise -/
theorem witness_value : precisionRecallF1Overlap witnessI witnessP witnessI witnessP {} 1 = .ok (1, 1, 1, 191 / 195) := by
  unfold precisionRecallF1Overlap matchNotes pyMatching
  rw [maxMatchSize_eq_bruteMax]
  decide +kernel

theorem C02_aor_self_full_statement_false : ¬ C02_aor_self_full_statement := by
  intro hall
  have := hall witnessI witnessP {} 1 _ (by decide) (by decide +kernel) witness_value
  revert this
  decide +kernel

/-- The strongest true version: whenever two notes of `x` that satisfy the criterion with each other have the
    same interval (in particular when no two distinct notes of `x` are mutually feasible), AOR(x, x) = 1. -/
theorem aor_self_partial (refI : List Ival) (refP : List Rat) (p : Params) (beta : Rat) (s : Rat × Rat × Rat × Rat)
    (hne : refP ≠ []) (hok : selfOK p (refI.zip refP) = true)
    (hsep : ∀ r ∈ refI.zip refP, ∀ e ∈ refI.zip refP, noteHit p r e = true → r.1 = e.1)
    (h : precisionRecallF1Overlap refI refP refI refP p beta = .ok s) : s.2.2.2 = 1 := by
  obtain ⟨hv, hcase⟩ := precisionRecallF1Overlap_ok h
  obtain ⟨hvr, _, hl, _⟩ := validate_ok hv
  rcases hcase with ⟨hemp, _⟩ | ⟨_, M, a, hm, ha, rfl⟩
  · exfalso
    simp only [Bool.or_self, List.isEmpty_iff] at hemp
    exact hne hemp
  · obtain ⟨hval, hlen⟩ := matchNotes_spec hm
    have hne' : refI.zip refP ≠ [] := by
      intro h0
      have := zip_length_eq hl
      rw [h0] at this
      exact hne (List.length_eq_zero_iff.1 this.symm)
    have hMne : M ≠ [] := by
      intro h0
      rw [h0, hitCount_self (noteHit p) _ (noteHit_self hok)] at hlen
      exact hne' (List.length_eq_zero_iff.1 hlen.symm)
    refine averageOverlapRatio_eq_one hvr hMne ?_ ha
    intro ij hij r e h1 h2
    obtain ⟨rn, en, hr, he, hf⟩ := (mem_hitGraph ..).1 (hval.1 ij hij)
    have hre := hsep rn (List.mem_of_getElem? hr) en (List.mem_of_getElem? he) hf
    have e1 : rn.1 = r := by
      rw [List.getElem?_zip_eq_some] at hr
      rw [hr.1] at h1; exact Option.some.inj h1
    have e2 : en.1 = e := by
      rw [List.getElem?_zip_eq_some] at he
      rw [he.1] at h2; exact Option.some.inj h2
    rw [← e1, ← e2]; exact hre

/-! non-vacuity -/
example : selfOK {} (witnessI.zip witnessP) = true := by decide +kernel
example : precisionRecallF1Overlap [(0, 1), (2, 3)] [60, 64] [(0, 1), (2, 3)] [60, 64] {} 1 = .ok (1, 1, 1, 1) := by
  unfold precisionRecallF1Overlap matchNotes pyMatching
  rw [maxMatchSize_eq_bruteMax]
  decide +kernel

end Mir.C02.Transcription
