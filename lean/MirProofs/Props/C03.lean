import MirProofs.Lemmas.EvalRoutes
/-!
# C03 — `evaluate()` is exactly the documented bundle of the individual metrics

Layer M: `MirModel/EvalProg.lean` (the mini-language of the `evaluate()` bodies, `filterKwargs`, the interpreter
`run`).  Layer S: `MirModel/EvalSpec.lean` (the documented bundle of every task, hand-written).
Generated from the current source: `MirGen/EvalPrograms.lean` (`Gen.prog_<task>`), `MirGen/Signatures.lean`
(`Gen.sigs`).

* Generic theorems: for ALL signature tables, programs and user keyword dictionaries.
* Per task (G-obligations over the generated program, each for ALL user keyword dictionaries `kw`):
  `routes_<task>` (no exception, reaches `return`, and every callee effectively receives what the documented bundle
  says — forced per-entry parameters, caller's keywords restricted to the callee's parameters), `keys_<task>`
  (key list and order of the result), `flow_<task>` (which pre-processed value is passed where),
  `forced_accepted_<task>`, `arity_<task>`, `related_<task>` / `unrelated_ignored_<task>`.
* The defects found on the original snapshot (pattern: `thresh`/`thres`; segment/pattern: tuple returns on empty
  input) were repaired in the library (commits 84ce008, e3a7cc5, 564d09a); their statements are now proved at full
  strength (`routes_pattern`, `forced_accepted_pattern`, `related_pattern`, `arity_pattern`, `arity_segment`).
-/
namespace Mir.C03
open Mir.EvalProg

/-! ## Generic theorems -/

/-- `util.filter_kwargs`: an entry reaches the callee iff the caller gave it and the callee has `**kwargs` or a
    parameter (`co_varnames[:co_argcount]`) of that name; lookups agree with the caller's dictionary on accepted
    names and are empty elsewhere; order is kept and nothing is invented. -/
theorem filterKwargs_spec (sg : Sig) (kw : Kwargs) :
    (∀ k v, (k, v) ∈ filterKwargs sg kw ↔ (k, v) ∈ kw ∧ (sg.varKw = true ∨ k ∈ sg.params)) ∧
    (∀ k, (filterKwargs sg kw).get k = if sg.varKw = true ∨ k ∈ sg.params then kw.get k else none) ∧
    (filterKwargs sg kw).Sublist kw := by
  refine ⟨fun k v => mem_filterKwargs sg kw k v, fun k => ?_, filterKwargs_sublist sg kw⟩
  rw [get_filterKwargs]
  simp [Sig.accepts]

example : filterKwargs { params := ["a", "window"] } [("window", .flt 3), ("zzz", .int 1), ("a", .none)]
    = [("window", .flt 3), ("a", .none)] := by decide +kernel
example : filterKwargs { params := ["a"], varKw := true } [("window", .flt 3), ("zzz", .int 1)]
    = [("window", .flt 3), ("zzz", .int 1)] := by decide +kernel

/-- `kwargs[k] = v` followed by `filter_kwargs`: the callee gets `v` for `k` if it accepts `k` and nothing
    otherwise — whatever the caller passed for `k`. -/
theorem forced_value_overrides_user (sg : Sig) (kw : Kwargs) (k : String) (v : KV) :
    (filterKwargs sg (kw.set k v)).get k = if sg.accepts k then some v else none := by
  simp

example : (filterKwargs { params := ["x", "window"] } (Kwargs.set [("window", .flt 7)] "window" (.flt 3))).get "window"
    = some (.flt 3) := by decide +kernel

/-- **Forced values override user values.**  In any program, after `kwargs[k] = v` (reached without error) and as
    long as `kwargs[k]` is not assigned again, every call that hands `**kwargs` to a callee that can see `k`
    receives `k = v`, for every caller dictionary `kw` (in particular whatever `kw` says about `k`). -/
theorem run_force_overrides_user (sigs : Sigs) (pre post : Program) (k : String) (v : KV) (kw : Kwargs)
    (hpre : runErr pre sigs kw = none ∧ returns pre sigs kw = false)
    (hpost : noWrite k post = true) :
    ∀ r ∈ run (pre ++ ({ stmt := .force k v } : Step) :: post) sigs kw,
      r ∈ run pre sigs kw ∨
      (r.passKwargs = true →
        (r.viaFilter = false ∨ ∃ sg, sigs.find r.fn = some sg ∧ sg.accepts k = true) →
        r.kwargs.get k = some v) := by
  intro r hr
  simp only [run, runErr, returns, final] at hpre hr ⊢
  rw [exec_append, exec_cons] at hr
  have hstep : step sigs ({ stmt := .force k v } : Step) (exec sigs pre { kwargs := kw }) =
      { exec sigs pre { kwargs := kw } with kwargs := (exec sigs pre { kwargs := kw }).kwargs.set k v } := by
    simp [step, hpre.1, hpre.2, guardVal, execStmt]
  rw [hstep] at hr
  exact exec_forced_value sigs k v post
    { exec sigs pre { kwargs := kw } with kwargs := (exec sigs pre { kwargs := kw }).kwargs.set k v }
    (by simp) hpost r hr

example : noWrite "window" [({ stmt := .call "f" [] [] [.var "x"] true true } : Step)] = true ∧
    run ([] ++ ({ stmt := .force "window" (.flt 3) } : Step) :: [({ stmt := .call "f" [] [] [.var "x"] true true } : Step)])
      [("f", { params := ["window"] })] [("window", .flt 7)] =
    [{ idx := 0, fn := "f", outs := [], npos := 0, named := [], viaFilter := true, passKwargs := true,
       kwargs := [("window", .flt 3)] }] := by decide +kernel

/-- **Unrelated keywords are ignored.**  If `u` is neither mentioned by the program nor a parameter of any callee
    that receives `**kwargs`, and all those callees are reached through `filter_kwargs` and have no `**kwargs` of
    their own, then two caller dictionaries that differ only in entries named `u` give the same calls (functions,
    score keys, dictionaries received) and the same outcome. -/
theorem run_unrelated_ignored (sigs : Sigs) (p : Program) (kw kw' : Kwargs) (u : String)
    (hu : u ∉ relatedKeys sigs p) (hf : allFiltered sigs p = true) (h : kw.erase u = kw'.erase u) :
    run p sigs kw = run p sigs kw' ∧ runErr p sigs kw = runErr p sigs kw' ∧
    returns p sigs kw = returns p sigs kw' := by
  have a := run_erase sigs p kw u hu hf
  have b := run_erase sigs p kw' u hu hf
  rw [h] at a
  exact ⟨a.1.symm.trans b.1, a.2.1.symm.trans b.2.1, a.2.2.symm.trans b.2.2⟩

/-- adding an unrelated keyword anywhere (here: at the end, as Python's `**kw, extra=…` does) changes nothing -/
theorem run_extra_keyword_ignored (sigs : Sigs) (p : Program) (kw : Kwargs) (u : String) (v : KV)
    (hu : u ∉ relatedKeys sigs p) (hf : allFiltered sigs p = true) :
    run p sigs (kw ++ [(u, v)]) = run p sigs kw := by
  have h : Kwargs.erase (kw ++ [(u, v)]) u = kw.erase u := Kwargs.erase_append_single kw u v
  exact (run_unrelated_ignored sigs p (kw ++ [(u, v)]) kw u hu hf h).1

example : "zzz" ∉ relatedKeys Gen.sigs Gen.prog_segment ∧ allFiltered Gen.sigs Gen.prog_segment = true := by
  decide +kernel

/-! ## Per-task obligations over the generated programs -/

/-! ### beat -/

/-- the generated callee rows are the rows of the full signature table -/
theorem sigsOk_beat : Gen.SigsOk_beat Gen.sigs := by decide +kernel

/-- for every caller dictionary: no exception in the body, `return scores` is reached, and every callee effectively
    receives what the documented bundle says -/
theorem routes_beat (kw : Kwargs) :
    runErr Gen.prog_beat Gen.sigs kw = none ∧ returns Gen.prog_beat Gen.sigs kw = true ∧
    effectiveCalls Gen.sigs (run Gen.prog_beat Gen.sigs kw) = EvalSpec.beat.effCalls Gen.sigs kw :=
  let h := beat_aux Gen.sigs sigsOk_beat kw
  ⟨h.1, h.2.1, h.2.2.1⟩

/-- key set and order of the returned dictionary, for every caller dictionary -/
theorem keys_beat (kw : Kwargs) :
    producedKeys Gen.prog_beat Gen.sigs kw =
      ["F-measure", "Cemgil", "Cemgil Best Metric Level", "Goto", "P-score",
        "Correct Metric Level Continuous", "Correct Metric Level Total", "Any Metric Level Continuous",
        "Any Metric Level Total", "Information gain"] :=
  (beat_aux Gen.sigs sigsOk_beat kw).2.2.2

/-- data flow: every positional / named argument of every call is the documented (pre-processed) value -/
theorem flow_beat : (flow Gen.inputs_beat Gen.prog_beat).map FlowRec.view = EvalSpec.beat.flow := by
  decide +kernel

/-- every keyword the body forces / defaults is seen by a callee that has a parameter of that name, and every
    documented per-entry parameter is a parameter of its function -/
theorem forced_accepted_beat :
    deadForces Gen.sigs Gen.prog_beat = [] ∧
    (EvalSpec.beat.forcedPairs.all fun e =>
      match Gen.sigs.find e.1 with
      | some sg => decide (e.2.1 ∈ sg.params)
      | none => false) = true := by decide +kernel

/-- no callee has a `return` whose syntactic shape contradicts the number of score keys it is unpacked into -/
theorem arity_beat : arityMismatches Gen.sigs Gen.prog_beat = [] := by decide +kernel

/-- the names that can influence the run are documented ones; all `**kwargs` calls are filtered -/
theorem related_beat :
    (∀ k ∈ relatedKeys Gen.sigs Gen.prog_beat, k ∈ EvalSpec.beat.keywords Gen.sigs) ∧
    allFiltered Gen.sigs Gen.prog_beat = true := by decide +kernel

/-- any keyword without a documented effect on `beat.evaluate` is ignored, for every caller dictionary -/
theorem unrelated_ignored_beat (kw : Kwargs) (u : String) (v : KV)
    (hu : u ∉ EvalSpec.beat.keywords Gen.sigs) :
    run Gen.prog_beat Gen.sigs (kw ++ [(u, v)]) = run Gen.prog_beat Gen.sigs kw :=
  run_extra_keyword_ignored Gen.sigs Gen.prog_beat kw u v
    (fun hm => hu (related_beat.1 u hm)) related_beat.2

example : "zzz" ∉ EvalSpec.beat.keywords Gen.sigs := by decide +kernel

/-! ### onset -/

/-- the generated callee rows are the rows of the full signature table -/
theorem sigsOk_onset : Gen.SigsOk_onset Gen.sigs := by decide +kernel

/-- for every caller dictionary: no exception in the body, `return scores` is reached, and every callee effectively
    receives what the documented bundle says -/
theorem routes_onset (kw : Kwargs) :
    runErr Gen.prog_onset Gen.sigs kw = none ∧ returns Gen.prog_onset Gen.sigs kw = true ∧
    effectiveCalls Gen.sigs (run Gen.prog_onset Gen.sigs kw) = EvalSpec.onset.effCalls Gen.sigs kw :=
  let h := onset_aux Gen.sigs sigsOk_onset kw
  ⟨h.1, h.2.1, h.2.2.1⟩

/-- key set and order of the returned dictionary, for every caller dictionary -/
theorem keys_onset (kw : Kwargs) :
    producedKeys Gen.prog_onset Gen.sigs kw =
      ["F-measure", "Precision", "Recall"] :=
  (onset_aux Gen.sigs sigsOk_onset kw).2.2.2

/-- data flow: every positional / named argument of every call is the documented (pre-processed) value -/
theorem flow_onset : (flow Gen.inputs_onset Gen.prog_onset).map FlowRec.view = EvalSpec.onset.flow := by
  decide +kernel

/-- every keyword the body forces / defaults is seen by a callee that has a parameter of that name, and every
    documented per-entry parameter is a parameter of its function -/
theorem forced_accepted_onset :
    deadForces Gen.sigs Gen.prog_onset = [] ∧
    (EvalSpec.onset.forcedPairs.all fun e =>
      match Gen.sigs.find e.1 with
      | some sg => decide (e.2.1 ∈ sg.params)
      | none => false) = true := by decide +kernel

/-- no callee has a `return` whose syntactic shape contradicts the number of score keys it is unpacked into -/
theorem arity_onset : arityMismatches Gen.sigs Gen.prog_onset = [] := by decide +kernel

/-- the names that can influence the run are documented ones; all `**kwargs` calls are filtered -/
theorem related_onset :
    (∀ k ∈ relatedKeys Gen.sigs Gen.prog_onset, k ∈ EvalSpec.onset.keywords Gen.sigs) ∧
    allFiltered Gen.sigs Gen.prog_onset = true := by decide +kernel

/-- any keyword without a documented effect on `onset.evaluate` is ignored, for every caller dictionary -/
theorem unrelated_ignored_onset (kw : Kwargs) (u : String) (v : KV)
    (hu : u ∉ EvalSpec.onset.keywords Gen.sigs) :
    run Gen.prog_onset Gen.sigs (kw ++ [(u, v)]) = run Gen.prog_onset Gen.sigs kw :=
  run_extra_keyword_ignored Gen.sigs Gen.prog_onset kw u v
    (fun hm => hu (related_onset.1 u hm)) related_onset.2

example : "zzz" ∉ EvalSpec.onset.keywords Gen.sigs := by decide +kernel

/-! ### segment -/

/-- the generated callee rows are the rows of the full signature table -/
theorem sigsOk_segment : Gen.SigsOk_segment Gen.sigs := by decide +kernel

/-- for every caller dictionary: no exception in the body, `return scores` is reached, and every callee effectively
    receives what the documented bundle says -/
theorem routes_segment (kw : Kwargs) :
    runErr Gen.prog_segment Gen.sigs kw = none ∧ returns Gen.prog_segment Gen.sigs kw = true ∧
    effectiveCalls Gen.sigs (run Gen.prog_segment Gen.sigs kw) = EvalSpec.segment.effCalls Gen.sigs kw :=
  let h := segment_aux Gen.sigs sigsOk_segment kw
  ⟨h.1, h.2.1, h.2.2.1⟩

/-- key set and order of the returned dictionary, for every caller dictionary -/
theorem keys_segment (kw : Kwargs) :
    producedKeys Gen.prog_segment Gen.sigs kw =
      ["Precision@0.5", "Recall@0.5", "F-measure@0.5", "Precision@3.0", "Recall@3.0", "F-measure@3.0",
        "Ref-to-est deviation", "Est-to-ref deviation", "Pairwise Precision", "Pairwise Recall",
        "Pairwise F-measure", "Rand Index", "Adjusted Rand Index", "Mutual Information",
        "Adjusted Mutual Information", "Normalized Mutual Information", "NCE Over", "NCE Under",
        "NCE F-measure", "V Precision", "V Recall", "V-measure"] :=
  (segment_aux Gen.sigs sigsOk_segment kw).2.2.2

/-- data flow: every positional / named argument of every call is the documented (pre-processed) value -/
theorem flow_segment : (flow Gen.inputs_segment Gen.prog_segment).map FlowRec.view = EvalSpec.segment.flow := by
  decide +kernel

/-- every keyword the body forces / defaults is seen by a callee that has a parameter of that name, and every
    documented per-entry parameter is a parameter of its function -/
theorem forced_accepted_segment :
    deadForces Gen.sigs Gen.prog_segment = [] ∧
    (EvalSpec.segment.forcedPairs.all fun e =>
      match Gen.sigs.find e.1 with
      | some sg => decide (e.2.1 ∈ sg.params)
      | none => false) = true := by decide +kernel

/-- no callee has a `return` whose syntactic shape contradicts the number of score keys it is unpacked into -/
theorem arity_segment : arityMismatches Gen.sigs Gen.prog_segment = [] := by decide +kernel

/-- the names that can influence the run are documented ones; all `**kwargs` calls are filtered -/
theorem related_segment :
    (∀ k ∈ relatedKeys Gen.sigs Gen.prog_segment, k ∈ EvalSpec.segment.keywords Gen.sigs) ∧
    allFiltered Gen.sigs Gen.prog_segment = true := by decide +kernel

/-- any keyword without a documented effect on `segment.evaluate` is ignored, for every caller dictionary -/
theorem unrelated_ignored_segment (kw : Kwargs) (u : String) (v : KV)
    (hu : u ∉ EvalSpec.segment.keywords Gen.sigs) :
    run Gen.prog_segment Gen.sigs (kw ++ [(u, v)]) = run Gen.prog_segment Gen.sigs kw :=
  run_extra_keyword_ignored Gen.sigs Gen.prog_segment kw u v
    (fun hm => hu (related_segment.1 u hm)) related_segment.2

example : "zzz" ∉ EvalSpec.segment.keywords Gen.sigs := by decide +kernel

/-! ### chord -/

/-- the generated callee rows are the rows of the full signature table -/
theorem sigsOk_chord : Gen.SigsOk_chord Gen.sigs := by decide +kernel

/-- for every caller dictionary: no exception in the body, `return scores` is reached, and every callee effectively
    receives what the documented bundle says -/
theorem routes_chord (kw : Kwargs) :
    runErr Gen.prog_chord Gen.sigs kw = none ∧ returns Gen.prog_chord Gen.sigs kw = true ∧
    effectiveCalls Gen.sigs (run Gen.prog_chord Gen.sigs kw) = EvalSpec.chord.effCalls Gen.sigs kw :=
  let h := chord_aux Gen.sigs sigsOk_chord kw
  ⟨h.1, h.2.1, h.2.2.1⟩

/-- key set and order of the returned dictionary, for every caller dictionary -/
theorem keys_chord (kw : Kwargs) :
    producedKeys Gen.prog_chord Gen.sigs kw =
      ["thirds", "thirds_inv", "triads", "triads_inv", "tetrads", "tetrads_inv", "root", "mirex",
        "majmin", "majmin_inv", "sevenths", "sevenths_inv", "underseg", "overseg", "seg"] :=
  (chord_aux Gen.sigs sigsOk_chord kw).2.2.2

/-- data flow: every positional / named argument of every call is the documented (pre-processed) value -/
theorem flow_chord : (flow Gen.inputs_chord Gen.prog_chord).map FlowRec.view = EvalSpec.chord.flow := by
  decide +kernel

/-- every keyword the body forces / defaults is seen by a callee that has a parameter of that name, and every
    documented per-entry parameter is a parameter of its function -/
theorem forced_accepted_chord :
    deadForces Gen.sigs Gen.prog_chord = [] ∧
    (EvalSpec.chord.forcedPairs.all fun e =>
      match Gen.sigs.find e.1 with
      | some sg => decide (e.2.1 ∈ sg.params)
      | none => false) = true := by decide +kernel

/-- no callee has a `return` whose syntactic shape contradicts the number of score keys it is unpacked into -/
theorem arity_chord : arityMismatches Gen.sigs Gen.prog_chord = [] := by decide +kernel

/-- the names that can influence the run are documented ones; all `**kwargs` calls are filtered -/
theorem related_chord :
    (∀ k ∈ relatedKeys Gen.sigs Gen.prog_chord, k ∈ EvalSpec.chord.keywords Gen.sigs) ∧
    allFiltered Gen.sigs Gen.prog_chord = true := by decide +kernel

/-- any keyword without a documented effect on `chord.evaluate` is ignored, for every caller dictionary -/
theorem unrelated_ignored_chord (kw : Kwargs) (u : String) (v : KV)
    (hu : u ∉ EvalSpec.chord.keywords Gen.sigs) :
    run Gen.prog_chord Gen.sigs (kw ++ [(u, v)]) = run Gen.prog_chord Gen.sigs kw :=
  run_extra_keyword_ignored Gen.sigs Gen.prog_chord kw u v
    (fun hm => hu (related_chord.1 u hm)) related_chord.2

example : "zzz" ∉ EvalSpec.chord.keywords Gen.sigs := by decide +kernel

/-! ### melody -/

/-- the generated callee rows are the rows of the full signature table -/
theorem sigsOk_melody : Gen.SigsOk_melody Gen.sigs := by decide +kernel

/-- for every caller dictionary: no exception in the body, `return scores` is reached, and every callee effectively
    receives what the documented bundle says -/
theorem routes_melody (kw : Kwargs) :
    runErr Gen.prog_melody Gen.sigs kw = none ∧ returns Gen.prog_melody Gen.sigs kw = true ∧
    effectiveCalls Gen.sigs (run Gen.prog_melody Gen.sigs kw) = EvalSpec.melody.effCalls Gen.sigs kw :=
  let h := melody_aux Gen.sigs sigsOk_melody kw
  ⟨h.1, h.2.1, h.2.2.1⟩

/-- key set and order of the returned dictionary, for every caller dictionary -/
theorem keys_melody (kw : Kwargs) :
    producedKeys Gen.prog_melody Gen.sigs kw =
      ["Voicing Recall", "Voicing False Alarm", "Raw Pitch Accuracy", "Raw Chroma Accuracy", "Overall Accuracy"] :=
  (melody_aux Gen.sigs sigsOk_melody kw).2.2.2

/-- data flow: every positional / named argument of every call is the documented (pre-processed) value -/
theorem flow_melody : (flow Gen.inputs_melody Gen.prog_melody).map FlowRec.view = EvalSpec.melody.flow := by
  decide +kernel

/-- every keyword the body forces / defaults is seen by a callee that has a parameter of that name, and every
    documented per-entry parameter is a parameter of its function -/
theorem forced_accepted_melody :
    deadForces Gen.sigs Gen.prog_melody = [] ∧
    (EvalSpec.melody.forcedPairs.all fun e =>
      match Gen.sigs.find e.1 with
      | some sg => decide (e.2.1 ∈ sg.params)
      | none => false) = true := by decide +kernel

/-- no callee has a `return` whose syntactic shape contradicts the number of score keys it is unpacked into -/
theorem arity_melody : arityMismatches Gen.sigs Gen.prog_melody = [] := by decide +kernel

/-- the names that can influence the run are documented ones; all `**kwargs` calls are filtered -/
theorem related_melody :
    (∀ k ∈ relatedKeys Gen.sigs Gen.prog_melody, k ∈ EvalSpec.melody.keywords Gen.sigs) ∧
    allFiltered Gen.sigs Gen.prog_melody = true := by decide +kernel

/-- any keyword without a documented effect on `melody.evaluate` is ignored, for every caller dictionary -/
theorem unrelated_ignored_melody (kw : Kwargs) (u : String) (v : KV)
    (hu : u ∉ EvalSpec.melody.keywords Gen.sigs) :
    run Gen.prog_melody Gen.sigs (kw ++ [(u, v)]) = run Gen.prog_melody Gen.sigs kw :=
  run_extra_keyword_ignored Gen.sigs Gen.prog_melody kw u v
    (fun hm => hu (related_melody.1 u hm)) related_melody.2

example : "zzz" ∉ EvalSpec.melody.keywords Gen.sigs := by decide +kernel

/-! ### multipitch -/

/-- the generated callee rows are the rows of the full signature table -/
theorem sigsOk_multipitch : Gen.SigsOk_multipitch Gen.sigs := by decide +kernel

/-- for every caller dictionary: no exception in the body, `return scores` is reached, and every callee effectively
    receives what the documented bundle says -/
theorem routes_multipitch (kw : Kwargs) :
    runErr Gen.prog_multipitch Gen.sigs kw = none ∧ returns Gen.prog_multipitch Gen.sigs kw = true ∧
    effectiveCalls Gen.sigs (run Gen.prog_multipitch Gen.sigs kw) = EvalSpec.multipitch.effCalls Gen.sigs kw :=
  let h := multipitch_aux Gen.sigs sigsOk_multipitch kw
  ⟨h.1, h.2.1, h.2.2.1⟩

/-- key set and order of the returned dictionary, for every caller dictionary -/
theorem keys_multipitch (kw : Kwargs) :
    producedKeys Gen.prog_multipitch Gen.sigs kw =
      ["Precision", "Recall", "Accuracy", "Substitution Error", "Miss Error", "False Alarm Error",
        "Total Error", "Chroma Precision", "Chroma Recall", "Chroma Accuracy", "Chroma Substitution Error",
        "Chroma Miss Error", "Chroma False Alarm Error", "Chroma Total Error"] :=
  (multipitch_aux Gen.sigs sigsOk_multipitch kw).2.2.2

/-- data flow: every positional / named argument of every call is the documented (pre-processed) value -/
theorem flow_multipitch : (flow Gen.inputs_multipitch Gen.prog_multipitch).map FlowRec.view = EvalSpec.multipitch.flow := by
  decide +kernel

/-- every keyword the body forces / defaults is seen by a callee that has a parameter of that name, and every
    documented per-entry parameter is a parameter of its function -/
theorem forced_accepted_multipitch :
    deadForces Gen.sigs Gen.prog_multipitch = [] ∧
    (EvalSpec.multipitch.forcedPairs.all fun e =>
      match Gen.sigs.find e.1 with
      | some sg => decide (e.2.1 ∈ sg.params)
      | none => false) = true := by decide +kernel

/-- no callee has a `return` whose syntactic shape contradicts the number of score keys it is unpacked into -/
theorem arity_multipitch : arityMismatches Gen.sigs Gen.prog_multipitch = [] := by decide +kernel

/-- `multipitch.metrics` has `**kwargs`: `evaluate` forwards the caller's dictionary verbatim (filtering happens
    inside `metrics`, outside this model) -/
theorem forwards_all_multipitch (kw : Kwargs) :
    (run Gen.prog_multipitch Gen.sigs kw).map (fun r => (r.fn, r.kwargs)) = [("multipitch.metrics", kw)] := by
  have h := sigsOk_multipitch
  simp only [Gen.SigsOk_multipitch] at h
  simp only [Gen.prog_multipitch]
  routes_simp

/-! ### transcription -/

/-- the generated callee rows are the rows of the full signature table -/
theorem sigsOk_transcription : Gen.SigsOk_transcription Gen.sigs := by decide +kernel

/-- for every caller dictionary: no exception in the body, `return scores` is reached, and every callee effectively
    receives what the documented bundle says -/
theorem routes_transcription (kw : Kwargs) :
    runErr Gen.prog_transcription Gen.sigs kw = none ∧ returns Gen.prog_transcription Gen.sigs kw = true ∧
    effectiveCalls Gen.sigs (run Gen.prog_transcription Gen.sigs kw) = EvalSpec.transcription.effCalls Gen.sigs kw :=
  let h := transcription_aux Gen.sigs sigsOk_transcription kw
  ⟨h.1, h.2.1, h.2.2.1⟩

/-- key set and order of the returned dictionary, for every caller dictionary -/
theorem keys_transcription (kw : Kwargs) :
    producedKeys Gen.prog_transcription Gen.sigs kw =
      (if (kw.get "offset_ratio").getD (.flt (mkRat 1 5)) = KV.none
      then ["Precision_no_offset", "Recall_no_offset", "F-measure_no_offset",
        "Average_Overlap_Ratio_no_offset", "Onset_Precision", "Onset_Recall", "Onset_F-measure"]
      else ["Precision", "Recall", "F-measure", "Average_Overlap_Ratio", "Precision_no_offset",
        "Recall_no_offset", "F-measure_no_offset", "Average_Overlap_Ratio_no_offset", "Onset_Precision",
        "Onset_Recall", "Onset_F-measure", "Offset_Precision", "Offset_Recall", "Offset_F-measure"]) :=
  (transcription_aux Gen.sigs sigsOk_transcription kw).2.2.2

/-- data flow: every positional / named argument of every call is the documented (pre-processed) value -/
theorem flow_transcription : (flow Gen.inputs_transcription Gen.prog_transcription).map FlowRec.view = EvalSpec.transcription.flow := by
  decide +kernel

/-- every keyword the body forces / defaults is seen by a callee that has a parameter of that name, and every
    documented per-entry parameter is a parameter of its function -/
theorem forced_accepted_transcription :
    deadForces Gen.sigs Gen.prog_transcription = [] ∧
    (EvalSpec.transcription.forcedPairs.all fun e =>
      match Gen.sigs.find e.1 with
      | some sg => decide (e.2.1 ∈ sg.params)
      | none => false) = true := by decide +kernel

/-- no callee has a `return` whose syntactic shape contradicts the number of score keys it is unpacked into -/
theorem arity_transcription : arityMismatches Gen.sigs Gen.prog_transcription = [] := by decide +kernel

/-- the names that can influence the run are documented ones; all `**kwargs` calls are filtered -/
theorem related_transcription :
    (∀ k ∈ relatedKeys Gen.sigs Gen.prog_transcription, k ∈ EvalSpec.transcription.keywords Gen.sigs) ∧
    allFiltered Gen.sigs Gen.prog_transcription = true := by decide +kernel

/-- any keyword without a documented effect on `transcription.evaluate` is ignored, for every caller dictionary -/
theorem unrelated_ignored_transcription (kw : Kwargs) (u : String) (v : KV)
    (hu : u ∉ EvalSpec.transcription.keywords Gen.sigs) :
    run Gen.prog_transcription Gen.sigs (kw ++ [(u, v)]) = run Gen.prog_transcription Gen.sigs kw :=
  run_extra_keyword_ignored Gen.sigs Gen.prog_transcription kw u v
    (fun hm => hu (related_transcription.1 u hm)) related_transcription.2

example : "zzz" ∉ EvalSpec.transcription.keywords Gen.sigs := by decide +kernel

/-! ### transcription_velocity -/

/-- the generated callee rows are the rows of the full signature table -/
theorem sigsOk_transcription_velocity : Gen.SigsOk_transcription_velocity Gen.sigs := by decide +kernel

/-- for every caller dictionary: no exception in the body, `return scores` is reached, and every callee effectively
    receives what the documented bundle says -/
theorem routes_transcription_velocity (kw : Kwargs) :
    runErr Gen.prog_transcription_velocity Gen.sigs kw = none ∧ returns Gen.prog_transcription_velocity Gen.sigs kw = true ∧
    effectiveCalls Gen.sigs (run Gen.prog_transcription_velocity Gen.sigs kw) = EvalSpec.transcription_velocity.effCalls Gen.sigs kw :=
  let h := transcription_velocity_aux Gen.sigs sigsOk_transcription_velocity kw
  ⟨h.1, h.2.1, h.2.2.1⟩

/-- key set and order of the returned dictionary, for every caller dictionary -/
theorem keys_transcription_velocity (kw : Kwargs) :
    producedKeys Gen.prog_transcription_velocity Gen.sigs kw =
      (if (kw.get "offset_ratio").getD (.flt (mkRat 1 5)) = KV.none
      then ["Precision_no_offset", "Recall_no_offset", "F-measure_no_offset", "Average_Overlap_Ratio_no_offset"]
      else ["Precision", "Recall", "F-measure", "Average_Overlap_Ratio", "Precision_no_offset",
        "Recall_no_offset", "F-measure_no_offset", "Average_Overlap_Ratio_no_offset"]) :=
  (transcription_velocity_aux Gen.sigs sigsOk_transcription_velocity kw).2.2.2

/-- data flow: every positional / named argument of every call is the documented (pre-processed) value -/
theorem flow_transcription_velocity : (flow Gen.inputs_transcription_velocity Gen.prog_transcription_velocity).map FlowRec.view = EvalSpec.transcription_velocity.flow := by
  decide +kernel

/-- every keyword the body forces / defaults is seen by a callee that has a parameter of that name, and every
    documented per-entry parameter is a parameter of its function -/
theorem forced_accepted_transcription_velocity :
    deadForces Gen.sigs Gen.prog_transcription_velocity = [] ∧
    (EvalSpec.transcription_velocity.forcedPairs.all fun e =>
      match Gen.sigs.find e.1 with
      | some sg => decide (e.2.1 ∈ sg.params)
      | none => false) = true := by decide +kernel

/-- no callee has a `return` whose syntactic shape contradicts the number of score keys it is unpacked into -/
theorem arity_transcription_velocity : arityMismatches Gen.sigs Gen.prog_transcription_velocity = [] := by decide +kernel

/-- the names that can influence the run are documented ones; all `**kwargs` calls are filtered -/
theorem related_transcription_velocity :
    (∀ k ∈ relatedKeys Gen.sigs Gen.prog_transcription_velocity, k ∈ EvalSpec.transcription_velocity.keywords Gen.sigs) ∧
    allFiltered Gen.sigs Gen.prog_transcription_velocity = true := by decide +kernel

/-- any keyword without a documented effect on `transcription_velocity.evaluate` is ignored, for every caller dictionary -/
theorem unrelated_ignored_transcription_velocity (kw : Kwargs) (u : String) (v : KV)
    (hu : u ∉ EvalSpec.transcription_velocity.keywords Gen.sigs) :
    run Gen.prog_transcription_velocity Gen.sigs (kw ++ [(u, v)]) = run Gen.prog_transcription_velocity Gen.sigs kw :=
  run_extra_keyword_ignored Gen.sigs Gen.prog_transcription_velocity kw u v
    (fun hm => hu (related_transcription_velocity.1 u hm)) related_transcription_velocity.2

example : "zzz" ∉ EvalSpec.transcription_velocity.keywords Gen.sigs := by decide +kernel

/-! ### tempo -/

/-- the generated callee rows are the rows of the full signature table -/
theorem sigsOk_tempo : Gen.SigsOk_tempo Gen.sigs := by decide +kernel

/-- for every caller dictionary: no exception in the body, `return scores` is reached, and every callee effectively
    receives what the documented bundle says -/
theorem routes_tempo (kw : Kwargs) :
    runErr Gen.prog_tempo Gen.sigs kw = none ∧ returns Gen.prog_tempo Gen.sigs kw = true ∧
    effectiveCalls Gen.sigs (run Gen.prog_tempo Gen.sigs kw) = EvalSpec.tempo.effCalls Gen.sigs kw :=
  let h := tempo_aux Gen.sigs sigsOk_tempo kw
  ⟨h.1, h.2.1, h.2.2.1⟩

/-- key set and order of the returned dictionary, for every caller dictionary -/
theorem keys_tempo (kw : Kwargs) :
    producedKeys Gen.prog_tempo Gen.sigs kw =
      ["P-score", "One-correct", "Both-correct"] :=
  (tempo_aux Gen.sigs sigsOk_tempo kw).2.2.2

/-- data flow: every positional / named argument of every call is the documented (pre-processed) value -/
theorem flow_tempo : (flow Gen.inputs_tempo Gen.prog_tempo).map FlowRec.view = EvalSpec.tempo.flow := by
  decide +kernel

/-- every keyword the body forces / defaults is seen by a callee that has a parameter of that name, and every
    documented per-entry parameter is a parameter of its function -/
theorem forced_accepted_tempo :
    deadForces Gen.sigs Gen.prog_tempo = [] ∧
    (EvalSpec.tempo.forcedPairs.all fun e =>
      match Gen.sigs.find e.1 with
      | some sg => decide (e.2.1 ∈ sg.params)
      | none => false) = true := by decide +kernel

/-- no callee has a `return` whose syntactic shape contradicts the number of score keys it is unpacked into -/
theorem arity_tempo : arityMismatches Gen.sigs Gen.prog_tempo = [] := by decide +kernel

/-- the names that can influence the run are documented ones; all `**kwargs` calls are filtered -/
theorem related_tempo :
    (∀ k ∈ relatedKeys Gen.sigs Gen.prog_tempo, k ∈ EvalSpec.tempo.keywords Gen.sigs) ∧
    allFiltered Gen.sigs Gen.prog_tempo = true := by decide +kernel

/-- any keyword without a documented effect on `tempo.evaluate` is ignored, for every caller dictionary -/
theorem unrelated_ignored_tempo (kw : Kwargs) (u : String) (v : KV)
    (hu : u ∉ EvalSpec.tempo.keywords Gen.sigs) :
    run Gen.prog_tempo Gen.sigs (kw ++ [(u, v)]) = run Gen.prog_tempo Gen.sigs kw :=
  run_extra_keyword_ignored Gen.sigs Gen.prog_tempo kw u v
    (fun hm => hu (related_tempo.1 u hm)) related_tempo.2

example : "zzz" ∉ EvalSpec.tempo.keywords Gen.sigs := by decide +kernel

/-! ### key -/

/-- the generated callee rows are the rows of the full signature table -/
theorem sigsOk_key : Gen.SigsOk_key Gen.sigs := by decide +kernel

/-- for every caller dictionary: no exception in the body, `return scores` is reached, and every callee effectively
    receives what the documented bundle says -/
theorem routes_key (kw : Kwargs) :
    runErr Gen.prog_key Gen.sigs kw = none ∧ returns Gen.prog_key Gen.sigs kw = true ∧
    effectiveCalls Gen.sigs (run Gen.prog_key Gen.sigs kw) = EvalSpec.key.effCalls Gen.sigs kw :=
  let h := key_aux Gen.sigs sigsOk_key kw
  ⟨h.1, h.2.1, h.2.2.1⟩

/-- key set and order of the returned dictionary, for every caller dictionary -/
theorem keys_key (kw : Kwargs) :
    producedKeys Gen.prog_key Gen.sigs kw =
      ["Weighted Score"] :=
  (key_aux Gen.sigs sigsOk_key kw).2.2.2

/-- data flow: every positional / named argument of every call is the documented (pre-processed) value -/
theorem flow_key : (flow Gen.inputs_key Gen.prog_key).map FlowRec.view = EvalSpec.key.flow := by
  decide +kernel

/-- every keyword the body forces / defaults is seen by a callee that has a parameter of that name, and every
    documented per-entry parameter is a parameter of its function -/
theorem forced_accepted_key :
    deadForces Gen.sigs Gen.prog_key = [] ∧
    (EvalSpec.key.forcedPairs.all fun e =>
      match Gen.sigs.find e.1 with
      | some sg => decide (e.2.1 ∈ sg.params)
      | none => false) = true := by decide +kernel

/-- no callee has a `return` whose syntactic shape contradicts the number of score keys it is unpacked into -/
theorem arity_key : arityMismatches Gen.sigs Gen.prog_key = [] := by decide +kernel

/-- the names that can influence the run are documented ones; all `**kwargs` calls are filtered -/
theorem related_key :
    (∀ k ∈ relatedKeys Gen.sigs Gen.prog_key, k ∈ EvalSpec.key.keywords Gen.sigs) ∧
    allFiltered Gen.sigs Gen.prog_key = true := by decide +kernel

/-- any keyword without a documented effect on `key.evaluate` is ignored, for every caller dictionary -/
theorem unrelated_ignored_key (kw : Kwargs) (u : String) (v : KV)
    (hu : u ∉ EvalSpec.key.keywords Gen.sigs) :
    run Gen.prog_key Gen.sigs (kw ++ [(u, v)]) = run Gen.prog_key Gen.sigs kw :=
  run_extra_keyword_ignored Gen.sigs Gen.prog_key kw u v
    (fun hm => hu (related_key.1 u hm)) related_key.2

example : "zzz" ∉ EvalSpec.key.keywords Gen.sigs := by decide +kernel

/-! ### pattern -/

/-- the generated callee rows are the rows of the full signature table -/
theorem sigsOk_pattern : Gen.SigsOk_pattern Gen.sigs := by decide +kernel

/-- for every caller dictionary: no exception in the body, `return scores` is reached, and every callee effectively
    receives what the documented bundle says — in particular `F_occ.5` / `F_occ.75` are
    `occurrence_FPR(…, thres=.5)` / `(…, thres=.75)` whatever the caller passes as `thres` -/
theorem routes_pattern (kw : Kwargs) :
    runErr Gen.prog_pattern Gen.sigs kw = none ∧ returns Gen.prog_pattern Gen.sigs kw = true ∧
    effectiveCalls Gen.sigs (run Gen.prog_pattern Gen.sigs kw) = EvalSpec.pattern.effCalls Gen.sigs kw :=
  let h := pattern_aux Gen.sigs sigsOk_pattern kw
  ⟨h.1, h.2.1, h.2.2.1⟩

/-- key set and order of the returned dictionary, for every caller dictionary -/
theorem keys_pattern (kw : Kwargs) :
    producedKeys Gen.prog_pattern Gen.sigs kw =
      ["F", "P", "R", "F_est", "P_est", "R_est", "F_occ.5", "P_occ.5", "R_occ.5", "F_occ.75", "P_occ.75",
        "R_occ.75", "F_3", "P_3", "R_3", "FFP", "FFTP_est"] :=
  (pattern_aux Gen.sigs sigsOk_pattern kw).2.2.2

/-- data flow: every positional / named argument of every call is the documented (pre-processed) value -/
theorem flow_pattern : (flow Gen.inputs_pattern Gen.prog_pattern).map FlowRec.view = EvalSpec.pattern.flow := by
  decide +kernel

/-- every keyword the body forces / defaults is seen by a callee that has a parameter of that name, and every
    documented per-entry parameter is a parameter of its function -/
theorem forced_accepted_pattern :
    deadForces Gen.sigs Gen.prog_pattern = [] ∧
    (EvalSpec.pattern.forcedPairs.all fun e =>
      match Gen.sigs.find e.1 with
      | some sg => decide (e.2.1 ∈ sg.params)
      | none => false) = true := by decide +kernel

/-- no callee has a `return` whose syntactic shape contradicts the number of score keys it is unpacked into -/
theorem arity_pattern : arityMismatches Gen.sigs Gen.prog_pattern = [] := by decide +kernel

/-- the names that can influence the run are documented ones; all `**kwargs` calls are filtered -/
theorem related_pattern :
    (∀ k ∈ relatedKeys Gen.sigs Gen.prog_pattern, k ∈ EvalSpec.pattern.keywords Gen.sigs) ∧
    allFiltered Gen.sigs Gen.prog_pattern = true := by decide +kernel

/-- any keyword without a documented effect on `pattern.evaluate` (e.g. the former misspelling `thresh`) is
    ignored, for every caller dictionary -/
theorem unrelated_ignored_pattern (kw : Kwargs) (u : String) (v : KV)
    (hu : u ∉ EvalSpec.pattern.keywords Gen.sigs) :
    run Gen.prog_pattern Gen.sigs (kw ++ [(u, v)]) = run Gen.prog_pattern Gen.sigs kw :=
  run_extra_keyword_ignored Gen.sigs Gen.prog_pattern kw u v
    (fun hm => hu (related_pattern.1 u hm)) related_pattern.2

example : "zzz" ∉ EvalSpec.pattern.keywords Gen.sigs ∧ "thresh" ∉ EvalSpec.pattern.keywords Gen.sigs := by
  decide +kernel

/-! ### hierarchy -/

/-- the generated callee rows are the rows of the full signature table -/
theorem sigsOk_hierarchy : Gen.SigsOk_hierarchy Gen.sigs := by decide +kernel

/-- for every caller dictionary: no exception in the body, `return scores` is reached, and every callee effectively
    receives what the documented bundle says -/
theorem routes_hierarchy (kw : Kwargs) :
    runErr Gen.prog_hierarchy Gen.sigs kw = none ∧ returns Gen.prog_hierarchy Gen.sigs kw = true ∧
    effectiveCalls Gen.sigs (run Gen.prog_hierarchy Gen.sigs kw) = EvalSpec.hierarchy.effCalls Gen.sigs kw :=
  let h := hierarchy_aux Gen.sigs sigsOk_hierarchy kw
  ⟨h.1, h.2.1, h.2.2.1⟩

/-- key set and order of the returned dictionary, for every caller dictionary -/
theorem keys_hierarchy (kw : Kwargs) :
    producedKeys Gen.prog_hierarchy Gen.sigs kw =
      ["T-Precision reduced", "T-Recall reduced", "T-Measure reduced", "T-Precision full",
        "T-Recall full", "T-Measure full", "L-Precision", "L-Recall", "L-Measure"] :=
  (hierarchy_aux Gen.sigs sigsOk_hierarchy kw).2.2.2

/-- data flow: every positional / named argument of every call is the documented (pre-processed) value -/
theorem flow_hierarchy : (flow Gen.inputs_hierarchy Gen.prog_hierarchy).map FlowRec.view = EvalSpec.hierarchy.flow := by
  decide +kernel

/-- every keyword the body forces / defaults is seen by a callee that has a parameter of that name, and every
    documented per-entry parameter is a parameter of its function -/
theorem forced_accepted_hierarchy :
    deadForces Gen.sigs Gen.prog_hierarchy = [] ∧
    (EvalSpec.hierarchy.forcedPairs.all fun e =>
      match Gen.sigs.find e.1 with
      | some sg => decide (e.2.1 ∈ sg.params)
      | none => false) = true := by decide +kernel

/-- no callee has a `return` whose syntactic shape contradicts the number of score keys it is unpacked into -/
theorem arity_hierarchy : arityMismatches Gen.sigs Gen.prog_hierarchy = [] := by decide +kernel

/-- the names that can influence the run are documented ones; all `**kwargs` calls are filtered -/
theorem related_hierarchy :
    (∀ k ∈ relatedKeys Gen.sigs Gen.prog_hierarchy, k ∈ EvalSpec.hierarchy.keywords Gen.sigs) ∧
    allFiltered Gen.sigs Gen.prog_hierarchy = true := by decide +kernel

/-- any keyword without a documented effect on `hierarchy.evaluate` is ignored, for every caller dictionary -/
theorem unrelated_ignored_hierarchy (kw : Kwargs) (u : String) (v : KV)
    (hu : u ∉ EvalSpec.hierarchy.keywords Gen.sigs) :
    run Gen.prog_hierarchy Gen.sigs (kw ++ [(u, v)]) = run Gen.prog_hierarchy Gen.sigs kw :=
  run_extra_keyword_ignored Gen.sigs Gen.prog_hierarchy kw u v
    (fun hm => hu (related_hierarchy.1 u hm)) related_hierarchy.2

example : "zzz" ∉ EvalSpec.hierarchy.keywords Gen.sigs := by decide +kernel

/-! ### alignment -/

/-- the generated callee rows are the rows of the full signature table -/
theorem sigsOk_alignment : Gen.SigsOk_alignment Gen.sigs := by decide +kernel

/-- for every caller dictionary: no exception in the body, `return scores` is reached, and every callee effectively
    receives what the documented bundle says -/
theorem routes_alignment (kw : Kwargs) :
    runErr Gen.prog_alignment Gen.sigs kw = none ∧ returns Gen.prog_alignment Gen.sigs kw = true ∧
    effectiveCalls Gen.sigs (run Gen.prog_alignment Gen.sigs kw) = EvalSpec.alignment.effCalls Gen.sigs kw :=
  let h := alignment_aux Gen.sigs sigsOk_alignment kw
  ⟨h.1, h.2.1, h.2.2.1⟩

/-- key set and order of the returned dictionary, for every caller dictionary -/
theorem keys_alignment (kw : Kwargs) :
    producedKeys Gen.prog_alignment Gen.sigs kw =
      ["pc", "mae", "aae", "pcs", "perceptual"] :=
  (alignment_aux Gen.sigs sigsOk_alignment kw).2.2.2

/-- data flow: every positional / named argument of every call is the documented (pre-processed) value -/
theorem flow_alignment : (flow Gen.inputs_alignment Gen.prog_alignment).map FlowRec.view = EvalSpec.alignment.flow := by
  decide +kernel

/-- every keyword the body forces / defaults is seen by a callee that has a parameter of that name, and every
    documented per-entry parameter is a parameter of its function -/
theorem forced_accepted_alignment :
    deadForces Gen.sigs Gen.prog_alignment = [] ∧
    (EvalSpec.alignment.forcedPairs.all fun e =>
      match Gen.sigs.find e.1 with
      | some sg => decide (e.2.1 ∈ sg.params)
      | none => false) = true := by decide +kernel

/-- no callee has a `return` whose syntactic shape contradicts the number of score keys it is unpacked into -/
theorem arity_alignment : arityMismatches Gen.sigs Gen.prog_alignment = [] := by decide +kernel

/-- the names that can influence the run are documented ones; all `**kwargs` calls are filtered -/
theorem related_alignment :
    (∀ k ∈ relatedKeys Gen.sigs Gen.prog_alignment, k ∈ EvalSpec.alignment.keywords Gen.sigs) ∧
    allFiltered Gen.sigs Gen.prog_alignment = true := by decide +kernel

/-- any keyword without a documented effect on `alignment.evaluate` is ignored, for every caller dictionary -/
theorem unrelated_ignored_alignment (kw : Kwargs) (u : String) (v : KV)
    (hu : u ∉ EvalSpec.alignment.keywords Gen.sigs) :
    run Gen.prog_alignment Gen.sigs (kw ++ [(u, v)]) = run Gen.prog_alignment Gen.sigs kw :=
  run_extra_keyword_ignored Gen.sigs Gen.prog_alignment kw u v
    (fun hm => hu (related_alignment.1 u hm)) related_alignment.2

example : "zzz" ∉ EvalSpec.alignment.keywords Gen.sigs := by decide +kernel

/-! ## Concrete runs (non-vacuity of the per-task statements: the programs do make calls, forced values do
     override, conditional entries do disappear) -/

example : (run Gen.prog_segment Gen.sigs [("window", .flt 7), ("beta", .flt 2), ("zzz", .int 1)]).map
      (fun r => (r.idx, r.fn, r.kwargs)) =
    [(0, "util.adjust_intervals", []), (1, "util.adjust_intervals", []),
     (2, "segment.detection", [("window", .flt (mkRat 1 2)), ("beta", .flt 2)]),
     (3, "segment.detection", [("window", .flt (mkRat 3 1)), ("beta", .flt 2)]),
     (4, "segment.deviation", []), (5, "segment.pairwise", [("beta", .flt 2)]),
     (6, "segment.rand_index", [("beta", .flt 2)]), (7, "segment.ari", []),
     (8, "segment.mutual_information", []), (9, "segment.nce", [("beta", .flt 2)]),
     (10, "segment.vmeasure", [("beta", .flt 2)])] := by decide +kernel

example : producedKeys Gen.prog_transcription Gen.sigs [("offset_ratio", .none)] =
    ["Precision_no_offset", "Recall_no_offset", "F-measure_no_offset", "Average_Overlap_Ratio_no_offset",
     "Onset_Precision", "Onset_Recall", "Onset_F-measure"] := by decide +kernel

example : (run Gen.prog_transcription Gen.sigs [("offset_ratio", .flt (mkRat 1 2))]).map
      (fun r => (r.idx, r.kwargs.get "offset_ratio")) =
    [(0, some (.flt (mkRat 1 2))), (1, some .none), (2, none), (3, some (.flt (mkRat 1 2)))] := by decide +kernel

example : (run Gen.prog_pattern Gen.sigs []).map (fun r => (r.fn, r.kwargs)) =
    [("pattern.standard_FPR", []), ("pattern.establishment_FPR", []),
     ("pattern.occurrence_FPR", [("thres", .flt (mkRat 1 2))]),
     ("pattern.occurrence_FPR", [("thres", .flt (mkRat 3 4))]), ("pattern.three_layer_FPR", []),
     ("pattern.first_n_three_layer_P", [("n", .int 5)]),
     ("pattern.first_n_target_proportion_R", [("n", .int 5)])] := by decide +kernel

example : (run Gen.prog_hierarchy Gen.sigs [("transitive", .bool true), ("window", .flt 5)]).map
      (fun r => (r.idx, r.kwargs)) =
    [(0, []), (1, []), (2, []),
     (3, [("transitive", .bool false), ("window", .flt 5)]),
     (4, [("transitive", .bool true), ("window", .flt 5)]), (5, [])] := by decide +kernel

end Mir.C03
