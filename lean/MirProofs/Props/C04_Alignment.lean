import MirProofs.Lemmas.Alignment
/-!
  C04 (alignment) — the alignment error statistics and PCS equal their documented definitions:
  mae / aae = median / mean of `|ref_i - est_i|`; pc = fraction of `i` with `|ref_i - est_i| ≤ window`;
  PCS = Σ_i |refseg_i ∩ estseg_i| / total, with segments the consecutive timestamp pairs (MIREX variant,
  total = last - first reference timestamp) or the consecutive pairs of `0, t_1 … t_N, duration`
  (total = duration).
-/
namespace Mir.C04.Alignment
open Mir.Alignment Mir.MiscStats

theorem deviations_def (ref est : List Rat) :
    deviations ref est = List.zipWith (fun r e => |r - e|) ref est := deviations_eq_zipWith ref est

theorem absolute_error_def (ref est : List Rat) (hv : validate ref est = .ok ()) :
    ∃ mae : Rat, absoluteError ref est =
        .ok (some mae, some ((deviations ref est).sum / (ref.length : Rat))) ∧
      median? (deviations ref est) = some mae ∧
      (deviations ref est).length ≤ 2 * ((deviations ref est).filter fun x => decide (x ≤ mae)).length ∧
      (deviations ref est).length ≤ 2 * ((deviations ref est).filter fun x => decide (mae ≤ x)).length := by
  have hv' := (validate_ok_iff ref est).1 hv
  have hne := deviations_ne_nil hv'.1 hv'.2.1
  obtain ⟨m, hm⟩ := median?_isSome hne
  refine ⟨m, ?_, hm, median?_spec hm⟩
  rw [absoluteError_of_valid hv, hm]
  have : mean? (deviations ref est) = some ((deviations ref est).sum / (ref.length : Rat)) := by
    unfold mean?
    rw [← length_deviations hv'.2.1]
    simp [hne]
  rw [this]

/-- `np.median` as modelled is a median -/
theorem median_spec (xs : List Rat) (m : Rat) (hm : median? xs = some m) :
    xs.length ≤ 2 * (xs.filter fun x => decide (x ≤ m)).length ∧
    xs.length ≤ 2 * (xs.filter fun x => decide (m ≤ x)).length := median?_spec hm

theorem percentage_correct_def (ref est : List Rat) (w : Rat) (hv : validate ref est = .ok ()) :
    percentageCorrect ref est w =
      .ok (some ((((deviations ref est).filter fun x => decide (x ≤ w)).length : Rat) / (ref.length : Rat))) := by
  have hv' := (validate_ok_iff ref est).1 hv
  have hne := deviations_ne_nil hv'.1 hv'.2.1
  rw [percentageCorrect_of_valid w hv]
  unfold mean?
  rw [sum_indicator, List.length_map, length_deviations hv'.2.1]
  simp [hne]

/-- MIREX segments are the consecutive pairs `(t_i, t_{i+1})`; the `duration` variant uses the consecutive
    pairs of `0, t_1, …, t_N, duration` -/
theorem segments_def (t : List Rat) (d : Rat) :
    segsMirex t = t.zip t.tail ∧ segsDur t d = segsMirex ((0 : Rat) :: t ++ [d]) :=
  ⟨segsMirex_eq_zip_tail t, segsDur_eq_segsMirex t d⟩

/-- each summand is the length of the intersection of the two segments: the points common to `[a,b]` and
    `[c,d]` are exactly `[max a c, min b d]`, whose length (0 if empty) is `max (min b d - max a c) 0` -/
theorem overlap_is_intersection (a b c d t : Rat) :
    ((a ≤ t ∧ t ≤ b) ∧ (c ≤ t ∧ t ≤ d)) ↔ (max a c ≤ t ∧ t ≤ min b d) := by
  rw [max_le_iff, le_min_iff]; tauto

theorem overlap_sum_def (R E : List (Rat × Rat)) :
    overlapDur R E = (List.zipWith (fun r e => max (min r.2 e.2 - max r.1 e.1) 0) R E).sum := by
  unfold overlapDur
  rw [List.zip_eq_zipWith, List.map_zipWith]

theorem pcs_mirex_def (ref est : List Rat) (first last : Rat) (hv : validate ref est = .ok ())
    (hf : ref.head? = some first) (hl : ref.getLast? = some last) (hd : first < last) :
    percentageCorrectSegments ref est none =
      .ok (overlapDur (ref.zip ref.tail) (est.zip est.tail) / (last - first)) := by
  rw [pcs_mirex_of_valid hv hf hl (sub_pos.2 hd), segsMirex_eq_zip_tail, segsMirex_eq_zip_tail]

theorem pcs_duration_def (ref est : List Rat) (d : Rat) (hv : validate ref est = .ok ()) (hd : 0 < d)
    (hr : ∀ t ∈ ref, t ≤ d) (he : ∀ t ∈ est, t ≤ d) :
    percentageCorrectSegments ref est (some d) =
      .ok (overlapDur (segsMirex ((0 : Rat) :: ref ++ [d])) (segsMirex ((0 : Rat) :: est ++ [d])) / d) := by
  have hv' := (validate_ok_iff ref est).1 hv
  rcases ref with _ | ⟨r0, rs⟩
  · exact absurd rfl hv'.1
  rcases est with _ | ⟨e0, es⟩
  · simp at hv'
  rw [pcs_dur_of_valid hv hd (hr _ (maxOf_mem r0 rs)) (he _ (maxOf_mem e0 es)),
    segsDur_eq_segsMirex, segsDur_eq_segsMirex]

/-- `evaluate` = the documented bundle: pc (keyword `window`, default 0.3), mae, aae, pcs (keyword `duration`,
    default None), perceptual -/
theorem evaluate_eq (ref est : List Rat) (w d : Option Rat) :
    evaluate ref est w d = (do
      let pc ← percentageCorrect ref est (w.getD (3 / 10))
      let ae ← absoluteError ref est
      let pcs ← percentageCorrectSegments ref est d
      let per ← karaokePerceptualMetric ref est
      pure (pc, ae.1, ae.2, pcs, per)) := rfl

/-! non-vacuity -/
example : deviations [1, 2, 4] [1, 5 / 2, 3] = [0, 1 / 2, 1] := by decide +kernel
example : percentageCorrect [1, 2, 4] [1, 5 / 2, 3] (1 / 2) = .ok (some (2 / 3)) := by decide +kernel
example : segsDur [1, 2] 5 = [(0, 1), (1, 2), (2, 5)] := by decide +kernel

end Mir.C04.Alignment
