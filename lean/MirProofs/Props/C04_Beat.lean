import MirProofs.Lemmas.Beat
/-!
  C04 (beat) — the algorithms of `mir_eval.beat` (as modelled in MirModel/Beat.lean and tied to the code by the
  correspondence suites) equal their documented definitions.
-/
namespace Mir.C04.Beat
open Mir.Beat

/-- the window criterion `est - w ≤ ref ≤ est + w` (two `searchsorted` calls in the code) is `|ref - est| ≤ w` -/
theorem window_is_abs_le (w r e : Rat) : withinWindow w r e = true ↔ |r - e| ≤ w := withinWindow_iff w r e

/-- Beat F-measure = F(β=1) of precision `k/|est|` and recall `k/|ref|`, where `k` is the size of a maximum
    one-to-one matching of the graph whose edges are exactly the pairs with `|ref_i - est_j| ≤ thr`;
    equivalently `2k / (|ref| + |est|)`. -/
theorem f_measure_definition (ref est : List Rat) (thr : Rat) (hr : ref ≠ []) (he : est ≠ []) :
    ∃ k : Nat, IsMaxSize (hitGraph (withinWindow thr) ref est) k ∧
      (∀ i j, (i, j) ∈ hitGraph (withinWindow thr) ref est ↔
        ∃ r e, ref[i]? = some r ∧ est[j]? = some e ∧ |r - e| ≤ thr) ∧
      fMeasureCore ref est thr = Mir.fMeasure ((k : Rat) / (est.length : Rat)) ((k : Rat) / (ref.length : Rat)) 1 ∧
      fMeasureCore ref est thr = 2 * (k : Rat) / ((ref.length : Rat) + (est.length : Rat)) := by
  refine ⟨hitCount (withinWindow thr) ref est, maxMatchSize_isMax _, ?_, ?_, fMeasureCore_eq ref est thr hr he⟩
  · intro i j
    rw [mem_hitGraph]
    constructor
    · rintro ⟨r, e, h1, h2, h3⟩; exact ⟨r, e, h1, h2, (withinWindow_iff _ _ _).1 h3⟩
    · rintro ⟨r, e, h1, h2, h3⟩; exact ⟨r, e, h1, h2, (withinWindow_iff _ _ _).2 h3⟩
  · unfold fMeasureCore hitPRF
    have h : (ref.isEmpty || est.isEmpty) = false := by simp [hr, he]
    rw [h]
    rfl

/-- F-measure is 0 by convention when either sequence is empty -/
theorem f_measure_empty (ref est : List Rat) (thr : Rat) (h : ref = [] ∨ est = []) :
    fMeasureCore ref est thr = 0 := fMeasureCore_empty ref est thr h

/-- `_get_reference_beat_variations`: the double-tempo variation is the beats interleaved with the midpoints of
    consecutive beats (2n-1 values), the off-beat variation is the midpoints, the half-tempo variations are the
    even- and the odd-indexed beats, and taking every other double-tempo beat gives back the annotation. -/
theorem variations_spec (ref : List Rat) :
    variations ref = [ref, midpoints ref, interleave ref (midpoints ref), everyOther ref, everyOther (ref.drop 1)] ∧
      (doubled ref).length = 2 * ref.length - 1 ∧ everyOther (doubled ref) = ref := by
  refine ⟨?_, doubled_length ref, everyOther_doubled ref⟩
  simp only [variations, everyOther_doubled_tail]
  rw [doubled_eq_interleave]

/-- Goto's normalised beat error is in [-1, 1] for every reference triple and every estimate. -/
theorem goto_error_normalised (a b c : Rat) (est : List Rat) : |gotoErr a b c est| ≤ 1 :=
  gotoErr_abs_le_one a b c est

/-- `_get_entropy` "puts beat errors in range (-.5, .5)": every error that is histogrammed lies in (-1/2, 1/2]
    and differs from the raw normalised error by an integer. -/
theorem beat_error_wrapped (ref : List Rat) (e v : Rat) (h : beatError ref e = .ok (some v)) :
    -(1 / 2) < v ∧ v ≤ 1 / 2 := beatError_range h

theorem wrap_is_mod_one (raw : Rat) :
    (-(1 / 2) < wrapErr raw ∧ wrapErr raw ≤ 1 / 2) ∧ ∃ k : Int, wrapErr raw = raw + (k : Rat) :=
  ⟨wrapErr_range raw, wrapErr_sub_int raw⟩

/-! non-vacuity -/
example : beatError [5, 6, 7] (21 / 4) = .ok (some (1 / 4)) := by decide +kernel
example : wrapErr (3 / 4) = -1 / 4 := by decide +kernel
example : variations [1, 2, 4] = [[1, 2, 4], [3 / 2, 3], [1, 3 / 2, 2, 3, 4], [1, 4], [2]] := by decide +kernel
example : gotoErr 5 6 7 [23 / 4] = -1 / 2 := by decide +kernel
example : ([5, 6] : List Rat) ≠ [] := by simp

end Mir.C04.Beat
