import MirProofs.Lemmas.Beat
import MirProofs.Lemmas.BeatDef
/-!
  C04 (beat) — the algorithms of `mir_eval.beat` (as modelled in MirModel/Beat.lean and tied to the code by the
  correspondence suites) equal their documented definitions.
-/
namespace Mir.C04.Beat
open Mir.Beat

/-- the window criterion `est - w ≤ ref ≤ est + w` (two `searchsorted` calls in the code) is `|ref - est| ≤ w` -/
theorem window_is_abs_le (w r e : Rat) : withinWindow w r e = true ↔ |r - e| ≤ w := withinWindow_iff w r e

/-- Beat F-measure = F(β=1) of precision `k/|est|` and recall `k/|ref|`, where `k` is the size of a maximum
    one-to-one matching of the graph whose edges are exactly the pairs with `|ref_i - est_j| ≤ thr`;
    equivalently `2k / (|ref| + |est|)`. -/
theorem f_measure_definition (ref est : List Rat) (thr : Rat) (hr : ref ≠ []) (he : est ≠ []) :
    ∃ k : Nat, IsMaxSize (hitGraph (withinWindow thr) ref est) k ∧
      (∀ i j, (i, j) ∈ hitGraph (withinWindow thr) ref est ↔
        ∃ r e, ref[i]? = some r ∧ est[j]? = some e ∧ |r - e| ≤ thr) ∧
      fMeasureCore ref est thr = Mir.fMeasure ((k : Rat) / (est.length : Rat)) ((k : Rat) / (ref.length : Rat)) 1 ∧
      fMeasureCore ref est thr = 2 * (k : Rat) / ((ref.length : Rat) + (est.length : Rat)) := by
  refine ⟨hitCount (withinWindow thr) ref est, maxMatchSize_isMax _, ?_, ?_, fMeasureCore_eq ref est thr hr he⟩
  · intro i j
    rw [mem_hitGraph]
    constructor
    · rintro ⟨r, e, h1, h2, h3⟩; exact ⟨r, e, h1, h2, (withinWindow_iff _ _ _).1 h3⟩
    · rintro ⟨r, e, h1, h2, h3⟩; exact ⟨r, e, h1, h2, (withinWindow_iff _ _ _).2 h3⟩
  · unfold fMeasureCore hitPRF
    have h : (ref.isEmpty || est.isEmpty) = false := by simp [hr, he]
    rw [h]
    rfl

/-- F-measure is 0 by convention when either sequence is empty -/
theorem f_measure_empty (ref est : List Rat) (thr : Rat) (h : ref = [] ∨ est = []) :
    fMeasureCore ref est thr = 0 := fMeasureCore_empty ref est thr h

/-- `_get_reference_beat_variations`: the double-tempo variation is the beats interleaved with the midpoints of
    consecutive beats (2n-1 values), the off-beat variation is the midpoints, the half-tempo variations are the
    even- and the odd-indexed beats, and taking every other double-tempo beat gives back the annotation. -/
theorem variations_spec (ref : List Rat) :
    variations ref = [ref, midpoints ref, interleave ref (midpoints ref), everyOther ref, everyOther (ref.drop 1)] ∧
      (doubled ref).length = 2 * ref.length - 1 ∧ everyOther (doubled ref) = ref := by
  refine ⟨?_, doubled_length ref, everyOther_doubled ref⟩
  simp only [variations, everyOther_doubled_tail]
  rw [doubled_eq_interleave]

/-- Goto's normalised beat error is in [-1, 1] for every reference triple and every estimate. -/
theorem goto_error_normalised (a b c : Rat) (est : List Rat) : |gotoErr a b c est| ≤ 1 :=
  gotoErr_abs_le_one a b c est

/-- `_get_entropy` "puts beat errors in range (-.5, .5)": every error that is histogrammed lies in (-1/2, 1/2]
    and differs from the raw normalised error by an integer. -/
theorem beat_error_wrapped (ref : List Rat) (e v : Rat) (h : beatError ref e = .ok (some v)) :
    -(1 / 2) < v ∧ v ≤ 1 / 2 := beatError_range h

theorem wrap_is_mod_one (raw : Rat) :
    (-(1 / 2) < wrapErr raw ∧ wrapErr raw ≤ 1 / 2) ∧ ∃ k : Int, wrapErr raw = raw + (k : Rat) :=
  ⟨wrapErr_range raw, wrapErr_sub_int raw⟩

/-! non-vacuity -/
example : beatError [5, 6, 7] (21 / 4) = .ok (some (1 / 4)) := by decide +kernel
example : wrapErr (3 / 4) = -1 / 4 := by decide +kernel
example : variations [1, 2, 4] = [[1, 2, 4], [3 / 2, 3], [1, 3 / 2, 2, 3, 4], [1, 4], [2]] := by decide +kernel
example : gotoErr 5 6 7 [23 / 4] = -1 / 2 := by decide +kernel
example : ([5, 6] : List Rat) ≠ [] := by simp


/-! ## P-score: the correlate-and-slice computation, the pair count, McKinney's definition

`p_score` quantises both sequences to 10 ms samples, builds two 0/1 impulse trains of length `N`, and returns
`np.sum(np.correlate(ref_train, est_train, "full")[middle - win : middle + win + 1]) / max(|ref|, |est|)`.
The model `pScoreCore` counts index pairs directly; `pScoreLiteral` (MirModel/Beat.lean) does what the code does
(trains, sliding dot products for all `2N - 1` lags, Python slice with negative-start wrap-around, sum).  Both are tied
to the real code by correspondence suites (`beat.p_score`, `beat.p_score_literal`, `beat.correlate_window`). -/

/-- **`np.correlate` + slice = pair count, for every input**: the step-by-step mirror of the code never raises
    (all quantised beats are valid train indices) and returns exactly the pair-count model's value. -/
theorem pscore_literal_eq_model (ref est : List Rat) (thr : Rat) :
    pScoreLiteral ref est thr = .ok (pScoreCore ref est thr) := pScoreLiteral_eq ref est thr

/-- the identity behind it, on arbitrary 0/1 trains: for impulse positions `R`, `E` inside `[0, N)` (repetitions
    allowed), `train[idx] = 1` succeeds, `np.flatnonzero` of a train lists its distinct impulse positions in increasing
    order, and the sum of the slice `[middle - win : middle + win + 1]` (Python semantics) of the FULL cross-correlation
    is the number of pairs (i, j) of impulse positions whose lag index `i - j + (N - 1)` lies inside the slice bounds. -/
theorem correlate_slice_is_pair_count (N : Nat) (hN : 0 < N) (R E : List Int)
    (hR : ∀ i ∈ R, 0 ≤ i ∧ i < (N : Int)) (hE : ∀ j ∈ E, 0 ≤ j ∧ j < (N : Int)) (win : Int) :
    ∃ a v, impulseTrain N R = .ok a ∧ impulseTrain N E = .ok v ∧
      (∀ y, y ∈ flatnonzeroNatFrom 0 a ↔ y ∈ R) ∧ (flatnonzeroNatFrom 0 a).Pairwise (· < ·) ∧
      (∀ y, y ∈ flatnonzeroNatFrom 0 v ↔ y ∈ E) ∧ (flatnonzeroNatFrom 0 v).Pairwise (· < ·) ∧
      corrWindowSum a v win =
        pairCount (flatnonzeroNatFrom 0 a) (flatnonzeroNatFrom 0 v) ((N : Int) - 1)
          (pySliceBounds (2 * N - 1) ((((2 * N - 1) / 2 : Nat) : Int) - win) ((((2 * N - 1) / 2 : Nat) : Int) + win + 1)).1
          (pySliceBounds (2 * N - 1) ((((2 * N - 1) / 2 : Nat) : Int) - win) ((((2 * N - 1) / 2 : Nat) : Int) + win + 1)).2 :=
  ⟨trainOf N R, trainOf N E, impulseTrain_ok N R hR, impulseTrain_ok N E hE,
    mem_flatnonzero_trainOf N R hR, flatnonzeroNatFrom_strict _, mem_flatnonzero_trainOf N E hE,
    flatnonzeroNatFrom_strict _, corrWindowSum_trainOf N hN R E win⟩

/-- **McKinney's definition.**  Let `win`, `N`, `cnt` be the window, the train length and the windowed correlation
    sum that `p_score` computes (`pScoreParts`), and `R`, `E` the distinct quantised reference / estimated beat samples
    (`trainSupport`: strictly increasing, inside `[0, N)`).  Then:
    * for `0 ≤ win < N`, `cnt` is the number of pairs `(i, j) ∈ R × E` with `|i - j| ≤ win`;
    * for `win ≥ N` the negative slice start wraps around and `cnt` counts only the pairs with
      `i - j ≥ 2N - 1 - win` (reference later than estimate);
    * for `win < 0` the slice is empty and `cnt = 0`. -/
theorem pscore_correlation_spec (r : Rat) (rs : List Rat) (e : Rat) (es : List Rat) (thr : Rat) (win : Int) (N cnt : Nat)
    (h : pScoreParts r rs e es thr = some (win, N, cnt)) :
    let R := trainSupport (r :: rs) (min (minList e es) (minList r rs))
    let E := trainSupport (e :: es) (min (minList e es) (minList r rs))
    (R.Pairwise (· < ·) ∧ E.Pairwise (· < ·) ∧ (∀ i ∈ R, 0 ≤ i ∧ i < (N : Int)) ∧ (∀ j ∈ E, 0 ≤ j ∧ j < (N : Int))) ∧
    (0 ≤ win → win < (N : Int) → cnt = windowPairs R E win) ∧
    ((N : Int) ≤ win → cnt = (R.flatMap fun i => E.filter fun j => decide (2 * (N : Int) - 1 - win ≤ i - j)).length) ∧
    (win < 0 → cnt = 0) := by
  intro R E
  have hrange := trainSupport_in_range r rs e es
  simp only [pScoreParts] at h
  split at h
  · simp at h
  · simp only [Option.some.injEq, Prod.mk.injEq] at h
    obtain ⟨rfl, rfl, rfl⟩ := h
    exact ⟨⟨trainSupport_strict _ _, trainSupport_strict _ _, hrange.1, hrange.2⟩,
      fun hw hwN => pairCount_window _ _ _ _ hw hwN,
      fun hwN => pairCount_wrapped _ _ _ _ hwN hrange.1 hrange.2,
      fun hw => pairCount_negative _ _ _ _ hw⟩

/-- the P-score itself: McKinney's pair count over `max(|ref|, |est|)`, whenever the window is shorter than the train -/
theorem pscore_definition (r r' : Rat) (rs : List Rat) (e e' : Rat) (es : List Rat) (thr : Rat) (win : Int) (N cnt : Nat)
    (h : pScoreParts r (r' :: rs) e (e' :: es) thr = some (win, N, cnt)) (hw : 0 ≤ win) (hwN : win < (N : Int)) :
    pScoreCore (r :: r' :: rs) (e :: e' :: es) thr =
      (windowPairs (trainSupport (r :: r' :: rs) (min (minList e (e' :: es)) (minList r (r' :: rs))))
        (trainSupport (e :: e' :: es) (min (minList e (e' :: es)) (minList r (r' :: rs)))) win : Rat) /
        ((max (es.length + 2) (rs.length + 2) : Nat) : Rat) := by
  have hc := (pscore_correlation_spec r (r' :: rs) e (e' :: es) thr win N cnt h).2.1 hw hwN
  simp only [pScoreCore, h, hc]

/-- **McKinney's definition, unconditionally for thresholds in [0, 1]** (the documented default is 0.2): the window
    is then always shorter than the train, so for ALL beat sequences with at least two beats each whose reference beats
    do not all fall into one sample, the P-score is the number of pairs of quantised reference / estimated samples at
    most `win` samples apart, divided by `max(|ref|, |est|)`. -/
theorem pscore_definition_unit_threshold (r r' : Rat) (rs : List Rat) (e e' : Rat) (es : List Rat) (thr : Rat)
    (win : Int) (N cnt : Nat) (h : pScoreParts r (r' :: rs) e (e' :: es) thr = some (win, N, cnt))
    (h0 : 0 ≤ thr) (h1 : thr ≤ 1) :
    (0 ≤ win ∧ win < (N : Int)) ∧
    pScoreCore (r :: r' :: rs) (e :: e' :: es) thr =
      (windowPairs (trainSupport (r :: r' :: rs) (min (minList e (e' :: es)) (minList r (r' :: rs))))
        (trainSupport (e :: e' :: es) (min (minList e (e' :: es)) (minList r (r' :: rs)))) win : Rat) /
        ((max (es.length + 2) (rs.length + 2) : Nat) : Rat) := by
  have hw := pScoreParts_window_lt r (r' :: rs) e (e' :: es) thr win N cnt h h0 h1
  exact ⟨hw, pscore_definition r r' rs e e' es thr win N cnt h hw.1 hw.2⟩

/-- the remaining cases of `p_score`: fewer than two beats on either side, or all reference beats in one 10 ms
    sample (no inter-annotation interval), give 0 -/
theorem pscore_degenerate (ref est : List Rat) (thr : Rat) :
    (ref.length ≤ 1 ∨ est.length ≤ 1 → pScoreCore ref est thr = 0) ∧
    (∀ r r' rs e e' es, ref = r :: r' :: rs → est = e :: e' :: es →
      pScoreParts r (r' :: rs) e (e' :: es) thr = none → pScoreCore ref est thr = 0) := by
  constructor
  · intro h
    rcases ref with _ | ⟨r, _ | ⟨r', rs⟩⟩
    · rfl
    · cases est <;> rfl
    · rcases est with _ | ⟨e, _ | ⟨e', es⟩⟩
      · rfl
      · rfl
      · simp at h
  · rintro r r' rs e e' es rfl rfl h
    simp [pScoreCore, h]

/-- `windowPairs`, spelled out: the number of pairs of list positions whose entries are at most `win` apart -/
theorem window_pairs_def (R E : List Int) (win : Int) :
    windowPairs R E win = (R.flatMap fun i => E.filter fun j => decide (|i - j| ≤ win)).length := rfl

/-- the unrestricted statement ("for every window ≥ 0 the code counts the pairs within ±win") is FALSE of the code:
    a window reaching the train length makes the slice start negative, which Python wraps around. -/
def pscore_correlation_full_statement : Prop :=
  ∀ (r : Rat) (rs : List Rat) (e : Rat) (es : List Rat) (thr : Rat) (win : Int) (N cnt : Nat),
    pScoreParts r rs e es thr = some (win, N, cnt) → 0 ≤ win →
      cnt = windowPairs (trainSupport (r :: rs) (min (minList e es) (minList r rs)))
        (trainSupport (e :: es) (min (minList e es) (minList r rs))) win

/-- witness: beats 5, 6, 7 against themselves with threshold 3 (window 300 samples, train length 201): the code's sum
    is 1, the number of pairs within the window is 9 -/
theorem pscore_correlation_full_false : ¬ pscore_correlation_full_statement := by
  intro h
  have := h 5 [6, 7] 5 [6, 7] 3 300 201 1 (by decide +kernel) (by decide)
  revert this
  decide +kernel

/-- the strongest true version is `pscore_correlation_spec` (its second component) -/
theorem pscore_correlation_partial (r : Rat) (rs : List Rat) (e : Rat) (es : List Rat) (thr : Rat) (win : Int) (N cnt : Nat)
    (h : pScoreParts r rs e es thr = some (win, N, cnt)) (hw : 0 ≤ win) (hwN : win < (N : Int)) :
    cnt = windowPairs (trainSupport (r :: rs) (min (minList e es) (minList r rs)))
      (trainSupport (e :: es) (min (minList e es) (minList r rs))) win :=
  (pscore_correlation_spec r rs e es thr win N cnt h).2.1 hw hwN

/-! non-vacuity (P-score) -/
example : pScoreParts 5 [6, 7] (21 / 4) [6, 7] (1 / 5) = some (20, 201, 2) := by decide +kernel
example : windowPairs (trainSupport [5, 6, 7] 5) (trainSupport [21 / 4, 6, 7] 5) 20 = 2 := by decide +kernel
example : pScoreLiteral [5, 6, 7] [21 / 4, 6, 7] (1 / 5) = .ok (2 / 3) := by decide +kernel
example : pScoreCore [5, 6, 7] [21 / 4, 6, 7] (1 / 5) = 2 / 3 := by decide +kernel
example : impulseTrain 5 [0, 3, 3] = .ok [1, 0, 0, 1, 0] ∧ impulseTrain 5 [1, 4] = .ok [0, 1, 0, 0, 1] := by
  decide +kernel
example : correlateFull [1, 0, 0, 1, 0] [0, 1, 0, 0, 1] = [1, 0, 0, 2, 0, 0, 1, 0, 0] := by decide +kernel
example : corrWindowSum [1, 0, 0, 1, 0] [0, 1, 0, 0, 1] 1 = 2 ∧ corrWindowSum [1, 0, 0, 1, 0] [0, 1, 0, 0, 1] 5 = 0 ∧
    windowPairs [0, 3] [1, 4] 1 = 2 ∧ windowPairs [0, 3] [1, 4] 5 = 4 := by decide +kernel
example : pScoreParts 5 [6, 7] 5 [6, 7] 3 = some (300, 201, 1) := by decide +kernel
example : impulseTrain 3 [3] = .error .indexError ∧ impulseTrain 3 [-1] = .ok [0, 0, 1] := by decide +kernel

/-! ## Information gain: the histogram is a partition (so the normalised histogram is a distribution) -/

/-- `np.histogram` with the edges `linspace(-.5, .5, bins + 1)` is a partition of [-1/2, 1/2] into `bins` bins
    (`InBin bins i v`: `edge_i ≤ v < edge_{i+1}`, or `i` is the last bin and `v = edge_bins = 1/2`):
    for every number of bins and every list of values in [-1/2, 1/2], each value lies in exactly one bin, the
    histogram has `bins` entries, entry `i` is the number of values in bin `i`, and the counts sum to the number
    of values — also as the `total` that `entropyOfCounts` computes with `foldl`, which is what makes the
    normalised histogram a probability distribution. -/
theorem histogram_partition (bins : Nat) (vals : List Rat) (hb : 0 < bins)
    (hv : ∀ v ∈ vals, -(1 / 2) ≤ v ∧ v ≤ 1 / 2) :
    (∀ v ∈ vals, ∃! i, i < bins ∧ InBin bins i v) ∧
      (histogram bins vals).length = bins ∧
      (∀ i, i < bins →
        (histogram bins vals)[i]? = some (vals.filter fun v => decide (InBin bins i v)).length) ∧
      (histogram bins vals).sum = vals.length ∧
      (histogram bins vals).foldl (fun (a b : Nat) => a + b) 0 = vals.length :=
  ⟨fun v hm => inBin_exists_unique hb (hv v hm).1 (hv v hm).2, histogram_length bins vals,
    fun _ hi => histogram_getElem? bins vals hi, histogram_sum hb hv, histogram_total_foldl hb hv⟩

/-- the bins are pairwise disjoint and cover exactly [-1/2, 1/2]: a value is in some bin iff it is in that range
    (so `np.histogram` drops anything outside the outer edges), and then the bin is unique. -/
theorem bins_cover_exactly_the_range (bins : Nat) (hb : 0 < bins) (v : Rat) :
    ((∃ i, i < bins ∧ InBin bins i v) ↔ (-(1 / 2) ≤ v ∧ v ≤ 1 / 2)) ∧
      (∀ i j, i < bins → j < bins → InBin bins i v → InBin bins j v → i = j) :=
  ⟨⟨fun ⟨_, hi, h⟩ => inBin_range hi h, fun h => inBin_exists hb h.1 h.2⟩,
    fun _ _ hi hj h1 h2 => inBin_unique hi hj h1 h2⟩

/-- without the range hypothesis: the counts sum to the number of values in [-1/2, 1/2]
    (values outside, which cannot occur for wrapped errors, are dropped, as `np.histogram` does). -/
theorem histogram_sum_drops_out_of_range (bins : Nat) (vals : List Rat) (hb : 0 < bins) :
    (histogram bins vals).sum =
      (vals.filter fun v => decide (-(1 / 2) ≤ v) && decide (v ≤ 1 / 2)).length :=
  histogram_sum_general hb vals

/-- the histogram of the beat errors: every finite error that `_get_entropy` histograms lies in (-1/2, 1/2], hence
    in exactly one bin, and the bin counts sum to the number of finite errors (also as `entropyOfCounts`' total). -/
theorem histogram_of_beat_errors (ref est vals : List Rat) (bins : Nat) (hb : 0 < bins)
    (h : beatErrors ref est = .ok vals) :
    (∀ v ∈ vals, -(1 / 2) < v ∧ v ≤ 1 / 2) ∧
      (∀ v ∈ vals, ∃! i, i < bins ∧ InBin bins i v) ∧
      (histogram bins vals).sum = vals.length ∧
      (histogram bins vals).foldl (fun (a b : Nat) => a + b) 0 = vals.length :=
  ⟨beatErrors_range h,
    fun v hm => inBin_exists_unique hb (beatErrors_range h v hm).1.le (beatErrors_range h v hm).2,
    histogram_beatErrors_sum hb h, histogram_beatErrors_total hb h⟩

/-! non-vacuity -/
example : histogram 4 [-(1 / 2), -(1 / 4), 0, 1 / 2, 1 / 8] = [1, 1, 2, 1] := by decide +kernel
example : histogram 2 [-1, 0, 3 / 4] = [0, 1] := by decide +kernel
example : InBin 4 2 (1 / 8) := by decide +kernel
example : InBin 4 3 (1 / 2) ∧ ¬ InBin 4 2 (1 / 2) ∧ ¬ InBin 4 3 (3 / 4) := by decide +kernel
example : beatErrors [5, 6, 7] [21 / 4, 13 / 2] = .ok [1 / 4, 1 / 2] := by decide +kernel
example : histogram 4 [1 / 4, 1 / 2] = [0, 0, 0, 2] := by decide +kernel

/-! ## Continuity: the stateful loop = a stateless definition -/

/-- **Nearest annotation.**  Whatever `np.argmin(np.abs(e - refv))` returns (value `d`, index `j`) is the nearest
    annotation: `j` is a valid index, no annotation is nearer to `e`, every EARLIER annotation is strictly
    farther (first minimum), `d` is the distance, and `j` is the only index with these properties. -/
theorem continuity_nearest_spec (refv : List Rat) (e d : Rat) (j : Nat)
    (h : minIdx (refv.map fun r => absR (e - r)) = some (d, j)) :
    (j < refv.length ∧ (∀ k, k < refv.length → |e - refv.getD j 0| ≤ |e - refv.getD k 0|) ∧
      (∀ k, k < j → |e - refv.getD j 0| < |e - refv.getD k 0|)) ∧
    d = |e - refv.getD j 0| ∧ j = nearestIdx refv e ∧ ∀ j', IsNearest refv e j' → j' = j := by
  obtain ⟨h1, h2⟩ := minIdx_isNearest h
  exact ⟨h1, h2, by simp [nearestIdx, h], fun j' hj' => hj'.unique h1⟩

/-- on a non-empty reference the nearest annotation exists and is `nearestIdx` -/
theorem continuity_nearest_exists (refv : List Rat) (e : Rat) (hne : refv ≠ []) :
    minIdx (refv.map fun r => absR (e - r)) = some (|e - refv.getD (nearestIdx refv e) 0|, nearestIdx refv e) ∧
    ∀ j, IsNearest refv e j ↔ j = nearestIdx refv e :=
  ⟨minIdx_nearestIdx hne e, isNearest_iff hne e⟩

/-- **Local correctness, spelled out** (this is the definition `LocalOk`, nothing is hidden in it).
    `first` = first estimated beat or first annotation.  The reference interval looks forward
    (`refv[j+1] - refv[j]`) for a `first` beat when there is a next annotation, otherwise backward
    (`refv[j] - refv[j-1]`; for `j = 0` Python's index `-1` wraps around and the interval is 0); likewise the
    estimated interval.  With a zero reference interval a `first` beat succeeds only if it coincides with the
    annotation, its own interval is 0 and the thresholds exceed 1 resp. 0; a non-first beat fails (NumPy inf / nan). -/
theorem continuity_local_ok_def (refv est : List Rat) (p q : Rat) (m j : Nat) :
    LocalOk refv est p q m j ↔
      (let first : Prop := m = 0 ∨ j = 0
       let d : Rat := |est.getD m 0 - refv.getD j 0|
       let ri : Rat :=
         if decide first = true ∧ j + 1 < refv.length then refv.getD (j + 1) 0 - refv.getD j 0
         else if j = 0 then 0 else refv.getD j 0 - refv.getD (j - 1) 0
       let ei : Rat :=
         if decide first = true ∧ m + 1 < est.length then est.getD (m + 1) 0 - est.getD m 0
         else if m = 0 then 0 else est.getD m 0 - est.getD (m - 1) 0
       (if ri = 0 then first ∧ d = 0 ∧ 1 < p else |d / ri| < p) ∧
         (if ri = 0 then first ∧ ei = 0 ∧ 0 < q else |1 - ei / ri| < q)) :=
  Iff.rfl

/-- **One iteration of the loop.**  For the estimated beat `e` at position `|pre|` of `pre ++ e :: rest`, the
    code's iteration with state `used` returns: success iff the nearest annotation is not in `used` and the beat
    is locally ok; together with the nearest annotation. -/
theorem continuity_beat_step (refv : List Rat) (hne : refv ≠ []) (p q : Rat) (pre rest : List Rat) (e : Rat)
    (used : List Nat) :
    ∃ b : Bool, contBeat refv p q pre.length pre.getLast? e rest.head? used = .ok (b, nearestIdx refv e) ∧
      (b = true ↔ nearestIdx refv e ∉ used ∧
        LocalOk refv (pre ++ e :: rest) p q pre.length (nearestIdx refv e)) := by
  refine ⟨_, contBeat_eq hne p q pre rest e used, ?_⟩
  simp [localOkAt_iff]

/-- **The loop = the non-recursive definition.**  The flags `beat_successes` that the code computes with its
    `used_annotations` state are, beat by beat, "this beat is `Correct`", where `Correct refv est p q m` says:
    for the nearest annotation `j` of beat `m`, the beat is locally ok w.r.t. `j` and NO earlier beat whose
    nearest annotation is also `j` is locally ok. -/
theorem continuity_correct_beats (refv est : List Rat) (p q : Rat) (hne : refv ≠ []) :
    contLoop refv p q 0 none est [] = .ok ((List.range est.length).map (correctB refv est p q)) ∧
    (∀ m, correctB refv est p q m = true ↔
      ∃ j, IsNearest refv (est.getD m 0) j ∧ LocalOk refv est p q m j ∧
        ∀ m', m' < m → ¬ (IsNearest refv (est.getD m' 0) j ∧ LocalOk refv est p q m' j)) :=
  ⟨contLoop_eq_spec hne est p q, fun m => correctB_iff hne est p q m⟩

/-- the same flags through the computable tests: `correctB m` = `localOkB m` and no earlier `m'` with
    `localOkB m'` and the same nearest annotation -/
theorem continuity_correct_beats_bool (refv est : List Rat) (p q : Rat) (m : Nat) :
    (correctB refv est p q m = true ↔ localOkB refv est p q m = true ∧
      ∀ m', m' < m → ¬ (localOkB refv est p q m' = true ∧ nearestOf refv est m' = nearestOf refv est m)) ∧
    (localOkB refv est p q m = true ↔ LocalOk refv est p q m (nearestOf refv est m)) :=
  ⟨correctB_iff_local refv est p q m, localOkAt_iff _ _ _ _ _ _⟩

/-- **Longest run.**  The code's `np.max(np.diff(beat_failures)) - 1` (model: `longestRun bs 0`) is the length of
    a longest window of consecutive successes: some window of that length is all true, no window one longer is;
    this determines the number, which is also the brute-force `runSpec` (greatest `k ≤ |bs|` with an all-true
    window of length `k`).  The total count is the number of indices whose flag is true. -/
theorem continuity_longest_run_spec (bs : List Bool) :
    ((∃ s, s + longestRun bs 0 ≤ bs.length ∧ ∀ i, s ≤ i → i < s + longestRun bs 0 → bs[i]? = some true) ∧
      ¬ ∃ s, s + (longestRun bs 0 + 1) ≤ bs.length ∧
        ∀ i, s ≤ i → i < s + (longestRun bs 0 + 1) → bs[i]? = some true) ∧
    (∀ k, IsLongestRun bs k → k = longestRun bs 0) ∧
    longestRun bs 0 = runSpec bs ∧
    (∀ (f : Nat → Bool) (n : Nat), countTrue ((List.range n).map f) = ((List.range n).filter f).length) :=
  ⟨longestRun_isLongestRun bs, fun _ hk => (isLongestRun_iff bs _).1 hk, longestRun_eq_runSpec bs,
    countTrue_map_range⟩

/-- **Scores against one variation.**  continuous accuracy = (longest window of consecutive correct beats) / N,
    total accuracy = (number of correct beats) / N, with N = max(|ref|, |est|); stated both with the brute-force
    `runSpec` (inside `specVariation`) and relationally with any `k` satisfying `IsLongestRun`. -/
theorem continuity_variation_definition (refv est : List Rat) (p q : Rat) (hne : refv ≠ []) :
    contVariation refv est p q = .ok (specVariation refv est p q) ∧
    specVariation refv est p q =
      ((runSpec ((List.range est.length).map (correctB refv est p q)) : Rat) /
          ((max refv.length est.length : Nat) : Rat),
       (((List.range est.length).filter (correctB refv est p q)).length : Rat) /
          ((max refv.length est.length : Nat) : Rat)) ∧
    ∀ k, IsLongestRun ((List.range est.length).map (correctB refv est p q)) k →
      contVariation refv est p q =
        .ok ((k : Rat) / ((max refv.length est.length : Nat) : Rat),
             (((List.range est.length).filter (correctB refv est p q)).length : Rat) /
               ((max refv.length est.length : Nat) : Rat)) :=
  ⟨contVariation_eq_spec hne est p q, rfl, fun k hk => contVariation_eq_of_isLongestRun hne est p q k hk⟩

/-- **The four scores.**  With at least two reference and two estimated beats the function returns
    (CMLc, CMLt, AMLc, AMLt): CMLc / CMLt are the continuous / total accuracy against the annotation itself, and
    AMLc / AMLt are the maxima of the continuous / total accuracies over the five metrical variations of the
    annotation (each maximum is attained by a variation and bounds all of them). -/
theorem continuity_definition (ref est : List Rat) (p q : Rat) (hr : 2 ≤ ref.length) (he : 2 ≤ est.length) :
    ∃ ac at', continuityCore ref est p q =
        .ok ((specVariation ref est p q).1, (specVariation ref est p q).2, ac, at') ∧
      (ac ∈ (variations ref).map (fun v => (specVariation v est p q).1) ∧
        ∀ x ∈ (variations ref).map (fun v => (specVariation v est p q).1), x ≤ ac) ∧
      (at' ∈ (variations ref).map (fun v => (specVariation v est p q).2) ∧
        ∀ x ∈ (variations ref).map (fun v => (specVariation v est p q).2), x ≤ at') :=
  continuityCore_definition hr he p q

/-- the same for the public function: after successful validation it returns exactly these scores -/
theorem continuity_definition_validated (ref est : List Rat) (p q : Rat) (hr : 2 ≤ ref.length)
    (he : 2 ≤ est.length) (hv : validate ref est = .ok ()) :
    ∃ ac at', continuity ref est p q =
        .ok ((specVariation ref est p q).1, (specVariation ref est p q).2, ac, at') ∧
      IsMaxOf ac ((variations ref).map fun v => (specVariation v est p q).1) ∧
      IsMaxOf at' ((variations ref).map fun v => (specVariation v est p q).2) := by
  obtain ⟨ac, at', h1, h2, h3⟩ := continuityCore_definition hr he p q
  exact ⟨ac, at', (continuity_ok_iff ref est p q _).2 ⟨hv, h1⟩, h2, h3⟩

/-- **Degenerate inputs.**  With at most one estimated or at most one reference beat all four scores are 0. -/
theorem continuity_degenerate (ref est : List Rat) (p q : Rat) (h : est.length ≤ 1 ∨ ref.length ≤ 1) :
    continuityCore ref est p q = .ok (0, 0, 0, 0) :=
  continuityCore_degenerate h p q

/-- **Self-comparison, total.**  A strictly increasing sequence of at least two beats against itself scores
    (1, 1, 1, 1) for positive thresholds — the function returns, and returns this; with validation likewise. -/
theorem continuity_self_total (x : List Rat) (p q : Rat) (hx : x.Pairwise (· < ·)) (hlen : 2 ≤ x.length)
    (hp : 0 < p) (hq : 0 < q) :
    continuityCore x x p q = .ok (1, 1, 1, 1) ∧
    (validate x x = .ok () → continuity x x p q = .ok (1, 1, 1, 1)) :=
  ⟨continuityCore_self_total x p q hx hlen hp hq, Mir.Beat.continuity_self_total x p q hx hlen hp hq⟩

/-! ### non-vacuity: concrete runs of the code model and of the stateless definition -/

-- an estimate with an extra beat: beats 1 and 2 (8/5 and 12/5) both have annotation 1 (time 2) as nearest and
-- both are locally ok for thresholds 1/2, but only the first one counts
example : (List.range 6).map (nearestOf [1, 2, 3, 4, 5] [1, 8 / 5, 12 / 5, 3, 4, 5]) = [0, 1, 1, 2, 3, 4] := by
  decide +kernel
example : (List.range 6).map (localOkB [1, 2, 3, 4, 5] [1, 8 / 5, 12 / 5, 3, 4, 5] (1 / 2) (1 / 2))
    = [true, true, true, true, true, true] := by decide +kernel
example : (List.range 6).map (correctB [1, 2, 3, 4, 5] [1, 8 / 5, 12 / 5, 3, 4, 5] (1 / 2) (1 / 2))
    = [true, true, false, true, true, true] := by decide +kernel
example : contLoop [1, 2, 3, 4, 5] (1 / 2) (1 / 2) 0 none [1, 8 / 5, 12 / 5, 3, 4, 5] []
    = .ok [true, true, false, true, true, true] := by decide +kernel
example : runSpec [true, true, false, true, true, true] = 3 := by decide +kernel
example : longestRun [true, true, false, true, true, true] 0 = 3 := by decide +kernel
example : specVariation [1, 2, 3, 4, 5] [1, 8 / 5, 12 / 5, 3, 4, 5] (1 / 2) (1 / 2) = (1 / 2, 5 / 6) := by
  decide +kernel
example : contVariation [1, 2, 3, 4, 5] [1, 8 / 5, 12 / 5, 3, 4, 5] (1 / 2) (1 / 2) = .ok (1 / 2, 5 / 6) := by
  decide +kernel
-- ties go to the first annotation
example : nearestIdx [1, 2, 3] (3 / 2) = 0 := by decide +kernel
-- an off-beat estimate: wrong at the annotated level (CML = 0), perfect against the off-beat variation (AML = 1)
example : continuityCore [1, 2, 3, 4, 5] [3 / 2, 5 / 2, 7 / 2, 9 / 2] (7 / 40) (7 / 40) = .ok (0, 0, 1, 1) := by
  decide +kernel
example : (variations [1, 2, 3, 4, 5]).map (fun v => specVariation v [3 / 2, 5 / 2, 7 / 2, 9 / 2] (7 / 40) (7 / 40))
    = [(0, 0), (1, 1), (0, 0), (0, 0), (0, 0)] := by decide +kernel
-- a double-tempo estimate
example : continuityCore [1, 2, 3, 4, 5] [1, 3 / 2, 2, 5 / 2, 3, 7 / 2, 4, 9 / 2, 5] (7 / 40) (7 / 40)
    = .ok (0, 0, 1, 1) := by decide +kernel
-- repeated annotations (zero reference interval) and a one-annotation variation are covered too
example : continuityCore [1, 1, 2] [1, 1, 2] (7 / 40) (7 / 40) = .ok (1 / 3, 1 / 3, 2 / 3, 2 / 3) := by
  decide +kernel
example : contLoop [3] 2 1 0 none [3, 3] [] = .ok [true, false] ∧ correctFlags [3] [3, 3] 2 1 = [true, false] := by
  decide +kernel
example : continuityCore [5] [5, 6, 7] (7 / 40) (7 / 40) = .ok (0, 0, 0, 0) := by decide +kernel
example : continuityCore [5, 6, 7] [5, 6, 7] (7 / 40) (7 / 40) = .ok (1, 1, 1, 1) ∧
    validate [5, 6, 7] [5, 6, 7] = .ok () ∧ ([5, 6, 7] : List Rat).Pairwise (· < ·) := by decide +kernel

/-! ## Goto: the branchy code = a brute-force definition over the beat-error array -/

/-- **Goto's criterion, ≥ 3 incorrect beats (`incorrect_beats.shape[0] >= 3`).**  For non-empty inputs the
    code returns a binary score, and the score is 1 exactly when the FIRST LONGEST gap `(s, e)` between
    consecutive incorrect beats contains more than `(n - 2) / 4` correct beats (`e - s - 1`) and the track
    `beat_error[s : e + 1]` — which INCLUDES the two bounding incorrect beats, as the code does — has mean
    absolute error `< mu` and sample standard deviation `< sigma`.  (`tie` flags an exact tie in one of the
    two comparisons; the score does not depend on it.) -/
theorem goto_definition {ref est : List Rat} (hr : ref ≠ []) (he : est ≠ []) (thr mu sigma : Rat)
    (h3 : 3 ≤ (flatnonzeroGt (gotoErrors ref est) thr).length) :
    ∃ score tie, gotoCore ref est thr mu sigma = .ok (score, tie) ∧ (score = 0 ∨ score = 1) ∧
      (score = 1 ↔ ∃ s e, IsFirstLongestGap (gotoErrors ref est) thr s e ∧
          (1 / 4 : Rat) * ((ref.length : Rat) - 2) < ((e - s : Nat) : Rat) - 1 ∧
          TrackOk (((gotoErrors ref est).drop s).take (e - s + 1)) mu sigma) :=
  goto_definition_ge3 hr he thr mu sigma h3

/-- the same for the public `goto` (validation included) -/
theorem goto_definition_validated {ref est : List Rat} (hv : validate ref est = .ok ()) (hr : ref ≠ [])
    (he : est ≠ []) (thr mu sigma : Rat) (h3 : 3 ≤ (flatnonzeroGt (gotoErrors ref est) thr).length) :
    ∃ score, goto ref est thr mu sigma = .ok score ∧ (score = 0 ∨ score = 1) ∧
      (score = 1 ↔ ∃ s e, IsFirstLongestGap (gotoErrors ref est) thr s e ∧
          (1 / 4 : Rat) * ((ref.length : Rat) - 2) < ((e - s : Nat) : Rat) - 1 ∧
          TrackOk (((gotoErrors ref est).drop s).take (e - s + 1)) mu sigma) :=
  goto_ge3_top hv hr he thr mu sigma h3

/-- the hypothesis of `goto_definition` in Layer-S terms: the index array lists exactly the incorrect
    beats, in strictly increasing order, and its adjacent entries are exactly the gaps -/
theorem goto_incorrect_beats_spec (errs : List Rat) (thr : Rat) :
    (∀ i, i ∈ flatnonzeroGt errs thr ↔ Incorrect errs thr i) ∧
    (flatnonzeroGt errs thr).Pairwise (· < ·) ∧
    (∀ s e, IsGap errs thr s e ↔
      ∃ j, (flatnonzeroGt errs thr)[j]? = some s ∧ (flatnonzeroGt errs thr)[j + 1]? = some e) :=
  ⟨mem_flatnonzeroGt errs thr, flatnonzeroGt_pairwise errs thr, isGap_iff_adjacent errs thr⟩

/-- the first longest gap exists as soon as there are two incorrect beats, and it is unique, so the
    `∃ s e` of `goto_definition` designates one gap -/
theorem goto_first_longest_gap_unique {errs : List Rat} {thr : Rat} {s e s' e' : Nat}
    (h : IsFirstLongestGap errs thr s e) (h' : IsFirstLongestGap errs thr s' e') : s = s' ∧ e = e' :=
  isFirstLongestGap_unique h h'

theorem goto_first_longest_gap_exists (errs : List Rat) (thr : Rat)
    (h2 : 2 ≤ (flatnonzeroGt errs thr).length) : ∃ s e, IsFirstLongestGap errs thr s e :=
  exists_isFirstLongestGap errs thr h2

/-- `np.max(np.diff(incorrect_beats))` and the first index where it is attained: `firstMax d ds = (m, j)`
    means `m` is the maximum of `d :: ds`, it sits at index `j`, and every earlier entry is smaller -/
theorem goto_first_max_spec (ds : List Int) (d m : Int) (j : Nat) (h : firstMax d ds = (m, j)) :
    (d :: ds)[j]? = some m ∧ (∀ x ∈ d :: ds, x ≤ m) ∧ ∀ i x, i < j → (d :: ds)[i]? = some x → x < m :=
  firstMax_spec ds d m j h

/-- the slice `beat_error[start_beat : end_beat + 1]` is the `e - s + 1` entries from `s` on -/
theorem goto_track_slice (errs : List Rat) (s e : Nat) (hse : s ≤ e) :
    pySlice errs (s : Int) ((e : Int) + 1) = (errs.drop s).take (e - s + 1) := pySlice_incl errs s e hse

/-- **the mean / std test** `np.mean(np.abs(track)) < mu and np.std(track, ddof=1) < sigma`, NaN cases
    (empty track, one-element track) and the sign of `sigma` included -/
theorem goto_track_ok_spec (track : List Rat) (mu sigma : Rat) :
    (gotoTrackOk track mu sigma).1 = true ↔ TrackOk track mu sigma := gotoTrackOk_fst_iff track mu sigma

/-- **Goto's criterion, fewer than 3 incorrect beats** (`a` = first, `b` = last incorrect beat; there is at
    least one when the code does not raise `IndexError`): the track is the Python slice
    `beat_error[a + 1 : b - 1]`, with no minimum length. -/
theorem goto_definition_short {ref est : List Rat} (hr : ref ≠ []) (he : est ≠ []) (thr mu sigma : Rat)
    (h3 : (flatnonzeroGt (gotoErrors ref est) thr).length < 3) {a b : Nat}
    (ha : Incorrect (gotoErrors ref est) thr a ∧ ∀ i, Incorrect (gotoErrors ref est) thr i → a ≤ i)
    (hb : Incorrect (gotoErrors ref est) thr b ∧ ∀ i, Incorrect (gotoErrors ref est) thr i → i ≤ b) :
    ∃ score tie, gotoCore ref est thr mu sigma = .ok (score, tie) ∧ (score = 0 ∨ score = 1) ∧
      (score = 1 ↔ TrackOk (pySlice (gotoErrors ref est) ((a : Int) + 1) ((b : Int) - 1)) mu sigma) :=
  goto_definition_lt3 hr he thr mu sigma h3 ((head?_flatnonzeroGt_iff _ _ _).2 ha)
    ((getLast?_flatnonzeroGt_iff _ _ _).2 hb)

/-- **Goto's criterion when every inner beat is correct** (the normal situation `thr < 1`: the first and
    the last beat keep the error 1 and are the only incorrect ones).  The track is `beat_error[1 : n - 2]`:
    the inner beats WITHOUT the last inner beat (the `- 1` of the code's slice), so with `n ≤ 4` beats the
    score is 0 (fewer than 2 entries). -/
theorem goto_definition_all_correct {ref est : List Rat} (hr : ref ≠ []) (he : est ≠ [])
    (thr mu sigma : Rat) (hthr : thr < 1)
    (hall : ∀ i, 0 < i → i + 1 < ref.length → ¬ Incorrect (gotoErrors ref est) thr i) :
    ∃ score tie, gotoCore ref est thr mu sigma = .ok (score, tie) ∧ (score = 0 ∨ score = 1) ∧
      (score = 1 ↔ TrackOk (((gotoErrors ref est).drop 1).take (ref.length - 3)) mu sigma) :=
  goto_definition_all_correct' hr he thr mu sigma hthr hall

/-- shape of the beat-error array the definitions range over: one entry per reference beat, first and last
    entry 1, inner entry `i + 1` the normalised error of the triple `ref[i], ref[i+1], ref[i+2]` -/
theorem goto_errors_shape {ref : List Rat} (hr : ref ≠ []) (est : List Rat) :
    (gotoErrors ref est).length = ref.length ∧ (gotoErrors ref est)[0]? = some 1 ∧
    (gotoErrors ref est)[ref.length - 1]? = some 1 ∧
    ∀ i a b c, ref[i]? = some a → ref[i + 1]? = some b → ref[i + 2]? = some c →
      (gotoErrors ref est)[i + 1]? = some (gotoErr a b c est) :=
  ⟨gotoErrors_length ref est, gotoErrors_first hr est, gotoErrors_last hr est,
    fun i a b c => gotoErrors_inner ref est i a b c⟩

/-! ### non-vacuity -/

/-- ten reference beats at 0, 1, …, 9 -/
def ref10 : List Rat := [0, 1, 2, 3, 4, 5, 6, 7, 8, 9]
/-- the estimate misses beat 7 -/
def estMiss7 : List Rat := [0, 1, 2, 3, 4, 5, 6, 8, 9]
/-- the estimate misses beats 3 and 6 -/
def estMiss36 : List Rat := [0, 1, 2, 4, 5, 7, 8, 9]

/-- sixty reference beats at 0, 1, …, 59; the estimate misses beat 55 -/
def ref60 : List Rat := (List.range 60).map fun i => (i : Rat)
def est60 : List Rat := ((List.range 60).filter fun i => i != 55).map fun i => (i : Rat)

-- the pieces on a concrete input: errors, incorrect beats, the first longest gap
example : gotoErrors ref10 estMiss7 = [1, 0, 0, 0, 0, 0, 0, 1, 0, 1] := by decide +kernel
example : flatnonzeroGt (gotoErrors ref10 estMiss7) (7 / 20) = [0, 7, 9] := by decide +kernel
example : 3 ≤ (flatnonzeroGt (gotoErrors ref10 estMiss7) (7 / 20)).length := by decide +kernel
example : IsFirstLongestGap (gotoErrors ref10 estMiss7) (7 / 20) 0 7 :=
  isFirstLongestGap_of_compute _ _ (d := 7) (ds := [2]) (m := 7) (j := 0)
    (by decide +kernel) (by decide +kernel) (by decide +kernel) (by decide +kernel)
-- three gaps of equal width 3: the FIRST one is selected
example : flatnonzeroGt (gotoErrors ref10 estMiss36) (7 / 20) = [0, 3, 6, 9] := by decide +kernel
example : IsFirstLongestGap (gotoErrors ref10 estMiss36) (7 / 20) 0 3 :=
  isFirstLongestGap_of_compute _ _ (d := 3) (ds := [3, 3]) (m := 3) (j := 0)
    (by decide +kernel) (by decide +kernel) (by decide +kernel) (by decide +kernel)
-- the mean / std test on the track of `estMiss7` (bounding incorrect beats included)
example : TrackOk [1, 0, 0, 0, 0, 0, 0, 1] (1 / 2) (1 / 2) := (goto_track_ok_spec _ _ _).1 (by decide +kernel)
example : ¬ TrackOk [1, 0, 0, 0, 0, 0, 0, 1] (1 / 5) (1 / 5) := fun h =>
  absurd ((goto_track_ok_spec _ _ _).2 h) (by decide +kernel)

-- ≥ 3 branch, score 1: one missed beat, mu = sigma = 1/2
example : gotoCore ref10 estMiss7 (7 / 20) (1 / 2) (1 / 2) = .ok (1, false) := by decide +kernel
example : validate ref10 estMiss7 = .ok () := by decide +kernel
example : goto ref10 estMiss7 (7 / 20) (1 / 2) (1 / 2) = .ok 1 := by decide +kernel
-- ≥ 3 branch, score 0 with the default mu = sigma = 1/5: the two bounding errors 1 are part of the track
example : gotoCore ref10 estMiss7 (7 / 20) (1 / 5) (1 / 5) = .ok (0, false) := by decide +kernel
-- ≥ 3 branch, score 0: the longest gap has 2 correct beats, not more than (10 - 2) / 4 = 2
example : gotoCore ref10 estMiss36 (7 / 20) (1 / 2) (1 / 2) = .ok (0, false) := by decide +kernel
-- ≥ 3 branch, score 1 with the default parameters needs a long track (here 56 entries)
example : flatnonzeroGt (gotoErrors ref60 est60) (7 / 20) = [0, 55, 59] := by decide +kernel
example : gotoCore ref60 est60 (7 / 20) (1 / 5) (1 / 5) = .ok (1, false) := by decide +kernel

-- < 3 branch: a perfect estimate of 10 beats scores 1; of 4 beats scores 0 (track `errs[1:2]` has one entry)
example : ∀ i, 0 < i → i + 1 < ref10.length → ¬ Incorrect (gotoErrors ref10 ref10) (7 / 20) i := by
  intro i h0 h1 h
  have hm := (mem_flatnonzeroGt _ _ _).2 h
  have e : flatnonzeroGt (gotoErrors ref10 ref10) (7 / 20) = [0, 9] := by decide +kernel
  have hl : ref10.length = 10 := rfl
  rw [e] at hm
  simp at hm; omega
example : gotoCore ref10 ref10 (7 / 20) (1 / 5) (1 / 5) = .ok (1, false) := by decide +kernel
example : gotoCore [0, 1, 2, 3] [0, 1, 2, 3] (7 / 20) (1 / 5) (1 / 5) = .ok (0, false) := by decide +kernel

/-- the reading "mean and standard deviation are taken over the CORRECT beats of the longest run only" (the track
    without its two bounding incorrect beats) is FALSE of the code: -/
def goto_correct_track_full_statement : Prop :=
  ∀ (ref est : List Rat) (thr mu sigma : Rat), ref ≠ [] → est ≠ [] →
    3 ≤ (flatnonzeroGt (gotoErrors ref est) thr).length →
    ∀ score tie, gotoCore ref est thr mu sigma = .ok (score, tie) →
      (score = 1 ↔ ∃ s e, IsFirstLongestGap (gotoErrors ref est) thr s e ∧
          (1 / 4 : Rat) * ((ref.length : Rat) - 2) < ((e - s : Nat) : Rat) - 1 ∧
          TrackOk (((gotoErrors ref est).drop (s + 1)).take (e - s - 1)) mu sigma)

/-- witness: ten beats 0..9, the estimate misses beat 7 and is perfect otherwise (default parameters).  The longest run
    of correct beats (beats 1..6, all with error 0) covers 6 > (10 - 2)/4 beats and has mean = std = 0, yet the code
    returns 0, because its track `beat_error[0 : 8]` contains the two bounding errors of 1. -/
theorem goto_correct_track_full_false : ¬ goto_correct_track_full_statement := by
  intro h
  have h1 := h ref10 estMiss7 (7 / 20) (1 / 5) (1 / 5) (by decide) (by decide) (by decide +kernel) 0 false
    (by decide +kernel)
  have hgap : IsFirstLongestGap (gotoErrors ref10 estMiss7) (7 / 20) 0 7 :=
    isFirstLongestGap_of_compute _ _ (d := 7) (ds := [2]) (m := 7) (j := 0)
      (by decide +kernel) (by decide +kernel) (by decide +kernel) (by decide +kernel)
  have : (0 : Rat) = 1 := h1.2 ⟨0, 7, hgap, by decide +kernel, (goto_track_ok_spec _ _ _).1 (by decide +kernel)⟩
  exact absurd this (by decide +kernel)

end Mir.C04.Beat
